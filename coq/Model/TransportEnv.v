(* Model/TransportEnv.v -- the environment of the transport layer made explicit (no proofs in this file):

   part 1  the /dev/fuse descriptor as an oracle: every write(2)/writev(2) the FuseDevWriter issues gets a verdict
           (accept everything | accept only k bytes | fail with errno); src/transport/fusedev/mod.rs write,
           write_vectored, write_from(_at), write_all_from, std's write_all over write (write_obj and the reply code),
           commit -- with the error mapping of each call site (do_write: io::Error::other, commit: from_raw_os_error)
           and the state the writer is left in;
   part 2  what Reader::from_descriptor_chain / VirtioFsWriter::new are handed by virtio-queue 0.17
           (DescriptorChain::next: ttl = queue size, next index >= queue size, unreadable slot, INDIRECT tables,
           nested INDIRECT, table length not a multiple of 16 / > 65535 entries, the u32 limit on yielded bytes);
   part 3  the retry loops of src/common/file_traits.rs (read_exact_volatile, write_all_volatile,
           read_exact_at_volatile, write_all_at_volatile) over an oracle of per-call results, and the default
           vectored methods (which buffer they pick).

   [dev_strict] (Gen/DevShort.v, read from the source by translator/dev_short.py) says whether the fusedev writer
   treats a short device write as an error; the unpatched code does not (false). *)
From Coq Require Import List NArith Bool String.
From FB Require Import Model.Transport.
Import ListNotations.
Local Open Scope N_scope.

Definition U16_MAX : N := 65535.
Definition U32_MAX : N := 4294967295.
Definition EIO : N := 5.

(* ================================================================== part 1: the fuse descriptor *)
Inductive dverdict := DAll | DShort (k : N) | DFail (errno : N).
Inductive dret := DRet (k : N) | DErrno (e : N).
(* return value of write(2)/writev(2) offered n bytes *)
Definition dev_ret (v : dverdict) (n : N) : dret :=
  match v with DAll => DRet n | DShort k => DRet (N.min k n) | DFail e => DErrno e end.

Inductive dkind := KWrite | KWritev.
Record dcall := mkdc { dc_kind : dkind; dc_offered : list N; dc_ret : dret }.
(* the bytes the device took on this call: a prefix of what it was offered *)
Definition emitted (c : dcall) : list N :=
  match dc_ret c with DRet k => firstn (N.to_nat k) (dc_offered c) | DErrno _ => [] end.
Definition dev_call (v : dverdict) (k : dkind) (p : list N) : dcall := mkdc k p (dev_ret v (lenN p)).

(* results: those of Model/Transport.v, plus the two ways a device errno reaches the caller *)
Inductive dres :=
| DR (r : res)
| DOther (e : N)      (* io::Error::other(format!("{e}")): kind Other, the errno survives only in the text *)
| DRaw (e : N).       (* io::Error::from_raw_os_error(e) *)

(* what a call site makes of the kernel's answer; [strict]: a short count is turned into EIO *)
Definition dev_result (strict : bool) (raw : bool) (c : dcall) : dres :=
  match dc_ret c with
  | DRet k => if strict && (k <? lenN (dc_offered c)) then (if raw then DRaw EIO else DOther EIO) else DR (ROk k [])
  | DErrno e => if raw then DRaw e else DOther e
  end.
(* bytes the writer accounts for after the call (account_written(x) runs only on Ok(x)) *)
Definition dev_accounted (strict : bool) (c : dcall) : N :=
  match dc_ret c with
  | DRet k => if strict && (k <? lenN (dc_offered c)) then 0 else k
  | DErrno _ => 0
  end.

Definition dout := (dres * mem * fdw * list dcall)%type.

(* Write::write *)
Definition dw_write (strict : bool) (v : dverdict) (data : list N) (m : mem) (w : fdw) : dout :=
  match f_check w (lenN data) with
  | Some r => (DR r, m, w, [])
  | None =>
      if f_buffered w then
        (DR (ROk (lenN data) []), write_list m (f_base w + f_len w) data,
         mkfdw true (f_base w) (f_len w + lenN data) (f_cap w), [])
      else (* Self::do_write(self.fd, data).inspect(|&x| self.account_written(x)) *)
        let c := dev_call v KWrite data in
        (dev_result strict false c, m, mkfdw false (f_base w) (f_len w + dev_accounted strict c) (f_cap w), [c])
  end.

(* Write::write_vectored *)
Definition dw_write_vectored (strict : bool) (v : dverdict) (datas : list (list N)) (m : mem) (w : fdw) : dout :=
  match f_check w (fold_left (fun a x => a + lenN x) datas 0) with
  | Some r => (DR r, m, w, [])
  | None =>
      if f_buffered w then
        let '(m', t) := fw_extend datas m (f_base w + f_len w) in
        (DR (ROk t []), m', mkfdw true (f_base w) (f_len w + t) (f_cap w), [])
      else match datas with
           | [] => (DR (ROk 0 []), m, w, [])                       (* bufs.is_empty(): no system call *)
           | _ => let c := dev_call v KWritev (List.concat datas) in
                  (dev_result strict false c, m, mkfdw false (f_base w) (f_len w + dev_accounted strict c) (f_cap w), [c])
           end
  end.

(* write_from / write_from_at: the file data is accounted for BEFORE the device is asked *)
Definition dw_write_from (strict : bool) (v : dverdict) (count : N) (src : option (list N)) (m : mem) (w : fdw) : dout :=
  match f_check w count with
  | Some r => (DR r, m, w, [])
  | None =>
      match src with
      | None => (DR (RErr EFile), m, w, [])
      | Some data =>
          let got := firstn (N.to_nat count) data in
          let cnt := lenN got in
          let m' := write_list m (f_base w + f_len w) got in
          let w' := mkfdw (f_buffered w) (f_base w) (f_len w + cnt) (f_cap w) in
          if f_buffered w then (DR (ROk cnt []), m', w', [])
          else let c := dev_call v KWrite (read_range m' (f_base w) cnt) in      (* do_write(fd, &self.buf[..cnt]) *)
               (dev_result strict false c, m', w', [c])
      end
  end.

(* commit(other) *)
Definition dw_commit (strict : bool) (v : dverdict) (m : mem) (w : fdw) (other : option fdw) : dres * list dcall :=
  if negb (f_buffered w) then (DR (ROk 0 []), [])
  else let s := read_range m (f_base w) (f_len w) in
       let o := match other with Some x => read_range m (f_base x) (f_len x) | None => [] end in
       match s, o with
       | [], [] => (DR (ROk 0 []), [])
       | [], _ => let c := dev_call v KWrite o in (dev_result strict true c, [c])
       | _, [] => let c := dev_call v KWrite s in (dev_result strict true c, [c])
       | _, _ => let c := dev_call v KWritev (s ++ o) in (dev_result strict true c, [c])
       end.

(* std::io::Write::write_all over write (write_obj, the server's reply code):
   while !buf.is_empty() { match self.write(buf) { Ok(0) => WriteZero, Ok(n) => buf = &buf[n..],
   Err(Interrupted) => continue, Err(e) => return Err(e) } } -- device errors arrive as kind Other, never Interrupted.
   The k-th device call of the operation gets the verdict [dev k]. *)
Fixpoint dw_write_all_loop (strict : bool) (dev : nat -> dverdict) (fuel : nat) (data : list N) (m : mem) (w : fdw) (cs : list dcall) : dout :=
  match fuel with
  | O => (DR (RErr EBadIndex), m, w, cs)
  | S f =>
      match data with
      | [] => (DR (ROk 0 []), m, w, cs)
      | _ => match dw_write strict (dev (List.length cs)) data m w with
             | (DR (ROk 0 _), m', w', c) => (DR (RErr EEof), m', w', cs ++ c)           (* ErrorKind::WriteZero *)
             | (DR (ROk n _), m', w', c) => dw_write_all_loop strict dev f (skipn (N.to_nat n) data) m' w' (cs ++ c)
             | (r, m', w', c) => (r, m', w', cs ++ c)
             end
      end
  end.
Definition dw_write_all (strict : bool) (dev : nat -> dverdict) (data : list N) (m : mem) (w : fdw) : dout :=
  dw_write_all_loop strict dev (S (List.length data)) data m w [].

(* write_all_from: check_available_space(count); loop over write_from *)
Fixpoint dw_write_all_from_loop (strict : bool) (dev : nat -> dverdict) (fuel : nat) (count : N) (src : option (list N))
         (m : mem) (w : fdw) (cs : list dcall) : dout :=
  match fuel with
  | O => (DR (RErr EBadIndex), m, w, cs)
  | S f =>
      if count =? 0 then (DR (ROk 0 []), m, w, cs)
      else match dw_write_from strict (dev (List.length cs)) count src m w with
           | (DR (ROk 0 _), m', w', c) => (DR (RErr EEof), m', w', cs ++ c)
           | (DR (ROk n _), m', w', c) =>
               dw_write_all_from_loop strict dev f (count - n) (option_map (skipn (N.to_nat n)) src) m' w' (cs ++ c)
           | (r, m', w', c) => (r, m', w', cs ++ c)
           end
  end.
Definition dw_write_all_from (strict : bool) (dev : nat -> dverdict) (count : N) (src : option (list N)) (m : mem) (w : fdw) : dout :=
  match f_check w count with
  | Some r => (DR r, m, w, [])
  | None => dw_write_all_from_loop strict dev (S (N.to_nat count)) count src m w []
  end.

(* the machine: memory, the family of writers, every device call made so far (oldest first) *)
Record dstate := mkd { d_mem : mem; d_ws : list fdw; d_calls : list dcall }.
Inductive dop :=
| DWrite (i : nat) (data : list N)
| DWriteV (i : nat) (datas : list (list N))
| DWriteFrom (i : nat) (count : N) (src : option (list N))
| DWriteAll (i : nat) (data : list N)
| DWriteAllFrom (i : nat) (count : N) (src : option (list N))
| DSplit (i : nat) (off : N)
| DCommit (i : nat) (other : option nat).
Record dobs := mkdobs { do_res : dres; do_avail : N; do_len : N; do_avail2 : N; do_len2 : N }.
Definition dobs1 (r : dres) (w : fdw) : dobs := mkdobs r (f_avail w) (f_len w) 0 0.
Definition dobs_bad : dobs := mkdobs (DR (RErr EBadIndex)) 0 0 0 0.

(* [dev] is indexed by the number of device calls made since the start of the run *)
Definition dstep (strict : bool) (dev : nat -> dverdict) (op : dop) (st : dstate) : dobs * dstate :=
  let m := d_mem st in
  let nc := List.length (d_calls st) in
  let dev' := fun k => dev (nc + k)%nat in
  let fin (i : nat) (o : dout) : dobs * dstate :=
      let '(r, m', w', cs) := o in (dobs1 r w', mkd m' (set_nth i w' (d_ws st)) (d_calls st ++ cs)) in
  match op with
  | DWrite i data =>
      match nth_error (d_ws st) i with None => (dobs_bad, st) | Some w => fin i (dw_write strict (dev nc) data m w) end
  | DWriteV i datas =>
      match nth_error (d_ws st) i with None => (dobs_bad, st) | Some w => fin i (dw_write_vectored strict (dev nc) datas m w) end
  | DWriteFrom i count src =>
      match nth_error (d_ws st) i with None => (dobs_bad, st) | Some w => fin i (dw_write_from strict (dev nc) count src m w) end
  | DWriteAll i data =>
      match nth_error (d_ws st) i with None => (dobs_bad, st) | Some w => fin i (dw_write_all strict dev' data m w) end
  | DWriteAllFrom i count src =>
      match nth_error (d_ws st) i with None => (dobs_bad, st) | Some w => fin i (dw_write_all_from strict dev' count src m w) end
  | DSplit i off =>
      match nth_error (d_ws st) i with
      | None => (dobs_bad, st)
      | Some w =>
          match fw_split off w with
          | None => (dobs1 (DR (RErr ESplit)) w, st)
          | Some (a, o) => (mkdobs (DR (ROk 0 [])) (f_avail a) (f_len a) (f_avail o) (f_len o),
                            mkd m (set_nth i a (d_ws st) ++ [o]) (d_calls st))
          end
      end
  | DCommit i other =>
      match nth_error (d_ws st) i with
      | None => (dobs_bad, st)
      | Some w =>
          let ow := match other with Some j => nth_error (d_ws st) j | None => None end in
          let '(r, cs) := dw_commit strict (dev nc) m w ow in
          (dobs1 r w, mkd m (d_ws st) (d_calls st ++ cs))
      end
  end.

Fixpoint drun (strict : bool) (dev : nat -> dverdict) (ops : list dop) (st : dstate) : list dobs * dstate :=
  match ops with
  | [] => ([], st)
  | op :: r => let '(o, st') := dstep strict dev op st in
               let '(os, st'') := drun strict dev r st' in (o :: os, st'')
  end.

(* a finite script of verdicts; calls beyond it are accepted whole *)
Definition dev_of (l : list dverdict) : nat -> dverdict := fun k => nth k l DAll.

(* ================================================================== part 2: virtio-queue's DescriptorChain *)
Record rdesc := mkrd { r_addr : N; r_len : N; r_has_next : bool; r_write : bool; r_indirect : bool; r_next : N }.
(* guest address of a 16-byte descriptor slot -> what is stored there; absent: read_obj fails *)
Definition tbl := list (N * rdesc).
Fixpoint tbl_get (t : tbl) (a : N) : option rdesc :=
  match t with
  | [] => None
  | (k, d) :: r => if k =? a then Some d else tbl_get r a
  end.
Record vqit := mkvq { q_table : N; q_size : N; q_next : N; q_ttl : N; q_yield : N; q_ind : bool }.
(* DescriptorChain::new(mem, desc_table, queue_size, head_index) *)
Definition vq_new (table qsize head : N) : vqit := mkvq table qsize head qsize 0 false.

(* Iterator::next.  The call after switch_to_indirect_table is the only recursion; a table cannot switch twice,
   so fuel 2 is enough (fuel 0 = the explicit outcome None, shown unreachable in Proofs/TransportEnv.v). *)
Fixpoint vq_next (fuel : nat) (t : tbl) (q : vqit) : option (rdesc * vqit) :=
  match fuel with
  | O => None
  | S f =>
      if (q_ttl q =? 0) || (q_size q <=? q_next q) then None
      else let a := q_table q + q_next q * 16 in
           if USIZE_MAX <? a then None                                            (* checked_add *)
           else match tbl_get t a with
                | None => None                                                    (* read_obj(..).ok()? *)
                | Some d =>
                    if r_indirect d then
                      if q_ind q then None                                        (* InvalidIndirectDescriptor *)
                      else if negb (r_len d mod 16 =? 0) then None                (* InvalidIndirectDescriptorTable *)
                      else if U16_MAX <? r_len d / 16 then None
                      else vq_next f t (mkvq (r_addr d) (r_len d / 16) 0 (r_len d / 16) (q_yield q) true)
                    else if U32_MAX <? q_yield q + r_len d then None              (* yielded_bytes.checked_add *)
                    else Some (d, if r_has_next d
                                  then mkvq (q_table q) (q_size q) (r_next d) (q_ttl q - 1) (q_yield q + r_len d) (q_ind q)
                                  else mkvq (q_table q) (q_size q) (q_next q) 0 (q_yield q + r_len d) (q_ind q))
                end
  end.

(* every descriptor the iterator yields until its first None; None = fuel exhausted (unreachable) *)
Fixpoint vq_run (fuel : nat) (t : tbl) (q : vqit) : option (list rdesc) :=
  match fuel with
  | O => None
  | S f => match vq_next 2 t q with
           | None => Some []
           | Some (d, q') => option_map (cons d) (vq_run f t q')
           end
  end.
Definition vq_fuel (q : vqit) : nat := S (N.to_nat (q_ttl q + U16_MAX + 1)).
Definition vq_collect (t : tbl) (q : vqit) : option (list rdesc) := vq_run (vq_fuel q) t q.
Definition desc_of (d : rdesc) : desc := mkdesc (r_addr d) (r_len d) (r_write d).

(* Reader::from_descriptor_chain / VirtioFsWriter::new on a chain given by its tables *)
Definition from_vq (regions : list (N * N)) (t : tbl) (table qsize head : N) (writable : bool) : res * iobuf :=
  match vq_collect t (vq_new table qsize head) with
  | None => (RErr EBadIndex, mkio [] 0)
  | Some ds => from_chain regions (map desc_of ds) writable
  end.

(* a plain chain of descriptors laid out at indices 0, 1, 2, ... of the table at [table] (what MockSplitQueue::build_desc_chain writes) *)
Fixpoint tbl_of_list (table : N) (i : N) (ds : list desc) : tbl :=
  match ds with
  | [] => []
  | d :: r => (table + i * 16, mkrd (d_addr d) (d_len d) (match r with [] => false | _ => true end) (d_wr d) false (i + 1))
              :: tbl_of_list table (i + 1) r
  end.

(* ================================================================== part 3: file_traits.rs loops *)
Inductive cres := COk (n : N) | CIntr | CErr.
Inductive lres := LOk | LEof | LIntr | LErr | LPanic | LFuel.
(* one successful call: where in the slice it started, which file offset it was given, how many bytes it moved *)
Record xfer := mkx { x_soff : N; x_foff : N; x_n : N }.

(* the four loops share one shape:
     while !slice.is_empty() { match self.<op>(slice[, offset]) { Ok(0) => Eof/WriteZero,
       Ok(n) => { slice = slice.offset(n).unwrap(); [offset = offset.checked_add(n).unwrap()] },
       Err(Interrupted) => retried by the _at variants only (the others use `?`), Err(e) => return Err(e) } }
   [retry] = Interrupted is retried, [at] = an offset is passed and advanced (overflow of the u64 panics);
   the i-th call of the loop gets the answer [orc i]. *)
Fixpoint ft_loop (retry at_ : bool) (orc : nat -> cres) (fuel : nat) (call : nat) (len done foff : N) (log : list xfer)
  : lres * nat * list xfer :=
  match fuel with
  | O => (LFuel, call, log)
  | S f =>
      if done =? len then (LOk, call, log)
      else match orc call with
           | COk 0 => (LEof, S call, log)
           | COk n =>
               if len - done <? n then (LPanic, S call, log)                       (* slice.offset(n).unwrap() *)
               else if at_ && (USIZE_MAX <? foff + done + n) then (LPanic, S call, log ++ [mkx done (foff + done) n])
               else ft_loop retry at_ orc f (S call) len (done + n) foff (log ++ [mkx done (foff + done) n])
           | CIntr => if retry then ft_loop retry at_ orc f (S call) len done foff log else (LIntr, S call, log)
           | CErr => (LErr, S call, log)
           end
  end.
Definition ft_read_exact (orc : nat -> cres) (fuel : nat) (len : N) := ft_loop false false orc fuel 0 len 0 0 [].
Definition ft_write_all (orc : nat -> cres) (fuel : nat) (len : N) := ft_loop false false orc fuel 0 len 0 0 [].
Definition ft_read_exact_at (orc : nat -> cres) (fuel : nat) (len foff : N) := ft_loop true true orc fuel 0 len 0 foff [].
Definition ft_write_all_at (orc : nat -> cres) (fuel : nat) (len foff : N) := ft_loop true true orc fuel 0 len 0 foff [].
Definition orc_of (l : list cres) : nat -> cres := fun k => nth k l (COk 0).

(* which buffer the default vectored methods hand to the single-buffer method (None: Ok(0) without a call).
   read_vectored_volatile / write_vectored_volatile: bufs.iter().find(|b| !b.is_empty());
   read_vectored_at_volatile / write_vectored_at_volatile: bufs.first() *)
Fixpoint first_nonempty (i : nat) (lens : list N) : option nat :=
  match lens with
  | [] => None
  | l :: r => if l =? 0 then first_nonempty (S i) r else Some i
  end.
Definition dflt_vectored (at_first : bool) (lens : list N) : option nat :=
  if at_first then match lens with [] => None | _ => Some O end else first_nonempty 0 lens.

(* ================================================================== comparison helpers for generated cases *)
Inductive hdres := HD (r : hres) | HDOther (e : N) | HDRaw (e : N).
Definition dres_heqb (a : dres) (b : hdres) : bool :=
  match a, b with
  | DR r, HD h => res_heqb r h
  | DOther e, HDOther e' => e =? e'
  | DRaw e, HDRaw e' => e =? e'
  | _, _ => false
  end.
Record hdobs := mkhdobs { hd_res : hdres; hd_avail : N; hd_len : N; hd_avail2 : N; hd_len2 : N }.
Definition dobs_heqb (a : dobs) (b : hdobs) : bool :=
  dres_heqb (do_res a) (hd_res b) && (do_avail a =? hd_avail b) && (do_len a =? hd_len b)
  && (do_avail2 a =? hd_avail2 b) && (do_len2 a =? hd_len2 b).
Fixpoint dobs_list_heqb (a : list dobs) (b : list hdobs) : bool :=
  match a, b with
  | [], [] => true
  | x :: r, y :: s => dobs_heqb x y && dobs_list_heqb r s
  | _, _ => false
  end.
(* observed device call: writev?, bytes offered (length, hash), return value or errno *)
Inductive hret := HRet (k : N) | HErrno (e : N).
Definition dret_heqb (a : dret) (b : hret) : bool :=
  match a, b with DRet k, HRet k' => k =? k' | DErrno e, HErrno e' => e =? e' | _, _ => false end.
Fixpoint dcalls_heqb (a : list dcall) (b : list (bool * N * N * hret)) : bool :=
  match a, b with
  | [], [] => true
  | c :: r, (v, len, h, ret) :: s =>
      Bool.eqb (match dc_kind c with KWritev => true | KWrite => false end) v
      && (lenN (dc_offered c) =? len) && (hashN (dc_offered c) =? h) && dret_heqb (dc_ret c) ret && dcalls_heqb r s
  | _, _ => false
  end.
Definition check_d (strict : bool) (seed base cap : N) (script : list dverdict) (ops : list dop) (exp : list hdobs)
           (calls : list (bool * N * N * hret)) (windows : list (N * N * N)) : bool :=
  let w := mkfdw false base 0 cap in
  let st := mkd (mem_init seed) [w] [] in
  let '(os, st') := drun strict (dev_of script) ops st in
  dobs_list_heqb (dobs1 (DR (ROk 0 [])) w :: os) exp && dcalls_heqb (d_calls st') calls && windows_ok (d_mem st') windows.

(* virtio case whose chain is given by its descriptor tables *)
Definition v_init_vq (seed : N) (regions : list (N * N)) (t : tbl) (table qsize head : N) : res * vstate :=
  let empty := mkv (mem_init seed) dirty_none [] [] in
  match from_vq regions t table qsize head false with
  | (ROk _ _, rd) =>
      match from_vq regions t table qsize head true with
      | (ROk _ _, wr) => (ROk 0 [], mkv (mem_init seed) dirty_none [rd] [wr])
      | (e, _) => (e, empty)
      end
  | (e, _) => (e, empty)
  end.
Definition check_avq (seed : N) (regions : list (N * N)) (t : tbl) (table qsize head : N) (dirty0 : list N) (ops : list avop)
           (exp_init : hres) (exp : list hobs) (windows : list (N * N * N)) (marked universe : list N) : bool :=
  let '(r, st0) := v_init_vq seed regions t table qsize head in
  let st := mkv (v_mem st0) (dirty_of dirty0) (v_rd st0) (v_wr st0) in
  match r with
  | ROk _ _ =>
      res_heqb r exp_init &&
      let o0 := match v_rd st, v_wr st with
                | rd :: _, wr :: _ => mkobs (ROk 0 []) (avail rd) (consumed rd) (avail wr) (consumed wr)
                | _, _ => obs_bad
                end in
      let '(os, st') := avrun ops st in
      obs_list_heqb (o0 :: os) exp && windows_ok (v_mem st') windows && dirty_ok (v_dirty st') marked universe
  | _ => res_heqb r exp_init
  end.

(* file_traits loop case *)
Definition lres_code (r : lres) : N :=
  match r with LOk => 0 | LEof => 1 | LIntr => 2 | LErr => 3 | LPanic => 4 | LFuel => 5 end.
Fixpoint xfers_eqb (a : list xfer) (b : list (N * N * N)) : bool :=
  match a, b with
  | [], [] => true
  | x :: r, (s, f, n) :: q => (x_soff x =? s) && (x_foff x =? f) && (x_n x =? n) && xfers_eqb r q
  | _, _ => false
  end.
Definition check_ftl (retry at_ : bool) (script : list cres) (len foff : N) (exp_res : N) (exp_calls : N) (exp_log : list (N * N * N)) : bool :=
  let '(r, calls, log) := ft_loop retry at_ (orc_of script) (S (List.length script + N.to_nat len)) 0 len 0 foff [] in
  (lres_code r =? exp_res) && (N.of_nat calls =? exp_calls) && xfers_eqb log exp_log.
Definition check_dflt (at_first : bool) (lens : list N) (exp : option nat) : bool :=
  match dflt_vectored at_first lens, exp with
  | None, None => true
  | Some a, Some b => Nat.eqb a b
  | _, _ => false
  end.

(* ================================================================== part 4: a source that answers call by call
   VirtioFsWriter::write_all_from over a file whose n-th read gets the n-th answer of a script: data (of which
   write_from places a prefix), an error, or ErrorKind::Interrupted (retried by the loop); calls beyond the script see
   end of file.  Bytes placed by earlier rounds stay placed -- and marked -- when a later round fails. *)
Inductive sans := SGive (data : list N) | SFail | SIntr.
Definition src_of (a : sans) : option (list N) := match a with SGive data => Some data | _ => None end.
Fixpoint vw_wafs (script : list sans) (count : N) (m : mem) (d : dirty) (b : iobuf) : res * mem * dirty * iobuf :=
  if count =? 0 then (ROk 0 [], m, d, b)
  else match script with
       | [] => (* end of file: write_from moves nothing, Ok(0) => WriteZero *)
           match vw_write_from count (Some []) m d b with
           | (ROk _ _, m', d', b') => (RErr EEof, m', d', b')
           | other => other
           end
       | SIntr :: r => vw_wafs r count m d b                                 (* Err(Interrupted) => {} *)
       | a :: r =>
           match vw_write_from count (src_of a) m d b with
           | (ROk 0 _, m', d', b') => (RErr EEof, m', d', b')
           | (ROk n _, m', d', b') => vw_wafs r (count - n) m' d' b'
           | other => other
           end
       end.
Definition vw_write_all_from_s (count : N) (script : list sans) (m : mem) (d : dirty) (b : iobuf) :=
  if avail b <? count then (RErr ENoSpace, m, d, b) else vw_wafs script count m d b.

Inductive sop :=
| SA (a : avop)
| SWriteAllFromS (i : nat) (count : N) (script : list sans).
Definition sstep (x : sop) (st : vstate) : obs * vstate :=
  match x with
  | SA a => avstep a st
  | SWriteAllFromS i count script =>
      match nth_error (v_wr st) i with
      | None => (obs_bad, st)
      | Some b => let '(r, m', d', b') := vw_write_all_from_s count script (v_mem st) (v_dirty st) b in
                  (obs1 r b', mkv m' d' (v_rd st) (set_nth i b' (v_wr st)))
      end
  end.
Fixpoint srun (ops : list sop) (st : vstate) : list obs * vstate :=
  match ops with
  | [] => ([], st)
  | op :: r => let '(o, st') := sstep op st in
               let '(os, st'') := srun r st' in (o :: os, st'')
  end.
(* the write_from calls the loop makes, one per answer it consumes *)
Fixpoint unroll (i : nat) (script : list sans) (count : N) : list vop :=
  if count =? 0 then []
  else match script with
       | [] => [WWriteFrom i count (Some [])]
       | SIntr :: r => unroll i r count
       | SFail :: r => [WWriteFrom i count None]
       | SGive data :: r =>
           WWriteFrom i count (Some data) ::
           (if N.min count (lenN data) =? 0 then [] else unroll i r (count - N.min count (lenN data)))
       end.

Definition check_svd (seed : N) (regions : list (N * N)) (ds : list desc) (dirty0 : list N) (ops : list sop)
           (exp_init : hres) (exp : list hobs) (windows : list (N * N * N)) (marked universe : list N) : bool :=
  let '(r, st0) := v_init seed regions ds in
  let st := mkv (v_mem st0) (dirty_of dirty0) (v_rd st0) (v_wr st0) in
  match r with
  | ROk _ _ =>
      res_heqb r exp_init &&
      let o0 := match v_rd st, v_wr st with
                | rd :: _, wr :: _ => mkobs (ROk 0 []) (avail rd) (consumed rd) (avail wr) (consumed wr)
                | _, _ => obs_bad
                end in
      let '(os, st') := srun ops st in
      obs_list_heqb (o0 :: os) exp && windows_ok (v_mem st') windows && dirty_ok (v_dirty st') marked universe
  | _ => res_heqb r exp_init
  end.
