(* C12, second half: what Vfs::init (src/api/vfs/sync_io.rs), PassthroughFs::init
   (src/passthrough/sync_io.rs) and OverlayFs::init (src/overlayfs/sync_io.rs) do with the capability
   word, and where the resulting switches are consulted.  Executable Gallina, no proofs.

   Capability words are FsOptions bit sets (N, below 2^64). *)
From Coq Require Import List NArith Bool.
Import ListNotations.
Local Open Scope N_scope.

(* FsOptions bits used here (checked against the translated bitflags table in Proofs/InitToggles.v) *)
Definition F_ASYNC_READ : N := 1.
Definition F_ATOMIC_O_TRUNC : N := 8.
Definition F_BIG_WRITES : N := 32.
Definition F_HAS_IOCTL_DIR : N := 2048.
Definition F_AUTO_INVAL_DATA : N := 4096.
Definition F_DO_READDIRPLUS : N := 8192.
Definition F_READDIRPLUS_AUTO : N := 16384.
Definition F_ASYNC_DIO : N := 32768.
Definition F_WRITEBACK_CACHE : N := 65536.
Definition F_ZERO_MESSAGE_OPEN : N := 131072.
Definition F_PARALLEL_DIROPS : N := 262144.
Definition F_MAX_PAGES : N := 4194304.
Definition F_CACHE_SYMLINKS : N := 8388608.
Definition F_ZERO_MESSAGE_OPENDIR : N := 16777216.
Definition F_EXPLICIT_INVAL_DATA : N := 33554432.
Definition F_HANDLE_KILLPRIV_V2 : N := 268435456.
Definition F_PERFILE_DAX : N := 8589934592.

Definition EINVAL : N := 22.
Definition ENOSYS : N := 38.

(* !(opts & X).is_empty()  and  opts.contains(X) *)
Definition has (c m : N) : bool := negb (N.land c m =? 0).
Definition contains (c m : N) : bool := N.land c m =? m.
(* opts.remove(X) *)
Definition remove (v m : N) : N := N.land v (N.lnot m 64).

(* ------------------------------------------------------------------ Vfs *)
Record vstate := mkV {
  v_no_open : bool; v_no_opendir : bool; v_no_writeback : bool; v_killpriv_v2 : bool;
  v_in_opts : N; v_out_opts : N;
  v_initialized : bool
}.

(* VfsOptions::default().out_opts (linux) *)
Definition vfs_default_out : N :=
  N.lor F_ASYNC_READ (N.lor F_PARALLEL_DIROPS (N.lor F_BIG_WRITES (N.lor F_ASYNC_DIO
  (N.lor F_AUTO_INVAL_DATA (N.lor F_HAS_IOCTL_DIR (N.lor F_WRITEBACK_CACHE (N.lor F_ZERO_MESSAGE_OPEN
  (N.lor F_MAX_PAGES (N.lor F_ATOMIC_O_TRUNC (N.lor F_CACHE_SYMLINKS (N.lor F_DO_READDIRPLUS
  (N.lor F_READDIRPLUS_AUTO (N.lor F_EXPLICIT_INVAL_DATA (N.lor F_ZERO_MESSAGE_OPENDIR
  (N.lor F_HANDLE_KILLPRIV_V2 F_PERFILE_DAX))))))))))))))).

(* Vfs::new(opts) *)
Definition vfs_new (no_open no_opendir no_writeback killpriv_v2 : bool) (out_opts : N) : vstate :=
  mkV no_open no_opendir no_writeback killpriv_v2 0 out_opts false.

Inductive ires := IErr (errno : N) | IOk (out : N).

(* the option algebra of Vfs::init: new option record from the stored one and the client's word *)
Definition vfs_negotiate (s : vstate) (opts : N) : vstate :=
  let out0 := v_out_opts s in
  let '(no_open, out1) :=
    if v_no_open s then (has opts F_ZERO_MESSAGE_OPEN, remove out0 F_ATOMIC_O_TRUNC)
    else (false, remove out0 F_ZERO_MESSAGE_OPEN) in
  let '(no_opendir, out2) :=
    if v_no_opendir s then (has opts F_ZERO_MESSAGE_OPENDIR, out1)
    else (false, remove out1 F_ZERO_MESSAGE_OPENDIR) in
  let out3 := if v_no_writeback s then remove out2 F_WRITEBACK_CACHE else out2 in
  let out4 := if v_killpriv_v2 s then out3 else remove out3 F_HANDLE_KILLPRIV_V2 in
  let out5 := N.land out4 opts in
  mkV no_open no_opendir (v_no_writeback s) (v_killpriv_v2 s) opts out5 (v_initialized s).

(* Vfs::init.  [backends]: the answer of each mounted backend's init, in superblock order
   (None = Ok, Some e = Err e); the first failure aborts, after the new options were stored. *)
Fixpoint first_err (l : list (option N)) : option N :=
  match l with
  | [] => None
  | Some e :: _ => Some e
  | None :: r => first_err r
  end.

Definition vfs_init (s : vstate) (opts : N) (backends : list (option N)) : ires * vstate :=
  if v_initialized s then (IErr EINVAL, s)
  else
    let n := vfs_negotiate s opts in
    match first_err backends with
    | Some e => (IErr e, n)
    | None => (IOk (v_out_opts n),
               mkV (v_no_open n) (v_no_opendir n) (v_no_writeback n) (v_killpriv_v2 n)
                   (v_in_opts n) (v_out_opts n) true)
    end.

(* the word every backend's init is called with *)
Definition vfs_backend_word (s : vstate) (opts : N) : N := v_out_opts (vfs_negotiate s opts).

Definition vfs_destroy (s : vstate) : vstate :=
  mkV (v_no_open s) (v_no_opendir s) (v_no_writeback s) (v_killpriv_v2 s) (v_in_opts s) (v_out_opts s) false.

(* Vfs::open / Vfs::opendir answer ENOSYS themselves exactly when the switch is on; otherwise the
   request goes to the backend *)
Definition vfs_open_enosys (s : vstate) : bool := v_no_open s.
Definition vfs_opendir_enosys (s : vstate) : bool := v_no_opendir s.

(* ------------------------------------------------------------------ PassthroughFs / OverlayFs *)
Inductive cache_policy := CacheAuto | CacheAlways | CacheNever | CacheMetadata.

Record lcfg := mkC {
  c_do_import : bool; c_writeback : bool; c_no_open : bool; c_no_opendir : bool; c_killpriv_v2 : bool;
  c_perfile_dax : bool          (* overlay only; passthrough has no such switch *)
}.

(* PassthroughFs::new: no_open needs cache=always, writeback conflicts with cache=none *)
Definition pt_new (p : cache_policy) (c : lcfg) : lcfg :=
  let no_open := match p with CacheAlways => c_no_open c | _ => false end in
  let writeback := match p with CacheNever => false | _ => c_writeback c end in
  mkC (c_do_import c) writeback no_open (c_no_opendir c) (c_killpriv_v2 c) (c_perfile_dax c).

(* the AtomicBool switches *)
Record toggles := mkT {
  t_writeback : bool; t_no_open : bool; t_no_opendir : bool; t_killpriv_v2 : bool; t_perfile_dax : bool
}.
Definition toggles_off : toggles := mkT false false false false false.

Definition allowed (c : lcfg) (sw : bool) : bool := negb (c_do_import c) || sw.
Definition cond_or (b : bool) (v m : N) : N := if b then N.lor v m else v.

(* PassthroughFs::init: every switch is stored with the outcome of THIS negotiation (fix: 3c323ec; before
   it the switches were only ever stored `true`); [t], the switches before the call, is overwritten *)
Definition pt_init (c : lcfg) (t : toggles) (capable : N) : N * toggles :=
  let wb := allowed c (c_writeback c) && contains capable F_WRITEBACK_CACHE in
  let no := allowed c (c_no_open c) && contains capable F_ZERO_MESSAGE_OPEN in
  let nd := allowed c (c_no_opendir c) && contains capable F_ZERO_MESSAGE_OPENDIR in
  let kp := allowed c (c_killpriv_v2 c) && contains capable F_HANDLE_KILLPRIV_V2 in
  let dx := contains capable F_PERFILE_DAX in
  let o0 := N.lor F_DO_READDIRPLUS F_READDIRPLUS_AUTO in
  let o1 := cond_or wb o0 F_WRITEBACK_CACHE in
  let o2 := if no then remove (N.lor o1 F_ZERO_MESSAGE_OPEN) F_ATOMIC_O_TRUNC else o1 in
  let o3 := cond_or nd o2 F_ZERO_MESSAGE_OPENDIR in
  let o4 := cond_or kp o3 F_HANDLE_KILLPRIV_V2 in
  let o5 := cond_or dx o4 F_PERFILE_DAX in
  (o5, mkT wb no nd kp dx).

(* OverlayFs::init: same shape; per-file DAX additionally needs the configuration switch *)
Definition ovl_init (c : lcfg) (t : toggles) (capable : N) : N * toggles :=
  let wb := allowed c (c_writeback c) && contains capable F_WRITEBACK_CACHE in
  let no := allowed c (c_no_open c) && contains capable F_ZERO_MESSAGE_OPEN in
  let nd := allowed c (c_no_opendir c) && contains capable F_ZERO_MESSAGE_OPENDIR in
  let kp := allowed c (c_killpriv_v2 c) && contains capable F_HANDLE_KILLPRIV_V2 in
  let dx := c_perfile_dax c && contains capable F_PERFILE_DAX in
  let o0 := N.lor F_DO_READDIRPLUS F_READDIRPLUS_AUTO in
  let o1 := cond_or wb o0 F_WRITEBACK_CACHE in
  let o2 := if no then remove (N.lor o1 F_ZERO_MESSAGE_OPEN) F_ATOMIC_O_TRUNC else o1 in
  let o3 := cond_or nd o2 F_ZERO_MESSAGE_OPENDIR in
  let o4 := cond_or kp o3 F_HANDLE_KILLPRIV_V2 in
  let o5 := cond_or dx o4 F_PERFILE_DAX in
  (o5, mkT wb no nd kp dx).

(* destroy() leaves the switches alone in both layers *)
Definition layer_destroy (t : toggles) : toggles := t.

(* where the switches are consulted *)
Record behaviour := mkB {
  b_open_enosys : bool;       (* OPEN answered ENOSYS *)
  b_opendir_enosys : bool;    (* OPENDIR answered ENOSYS *)
  b_writeback_flags : bool;   (* O_WRONLY promoted to O_RDWR and O_APPEND stripped on open/create *)
  b_killpriv : bool;          (* CAP_FSETID dropped around open(O_TRUNC)/write/setattr with the kill-priv request flag *)
  b_dax : bool                (* FUSE_ATTR_DAX put on entries (when dax_file_size is configured) *)
}.

(* PassthroughFs: every behaviour follows its AtomicBool *)
Definition pt_behaviour (c : lcfg) (t : toggles) : behaviour :=
  mkB (t_no_open t) (t_no_opendir t) (t_writeback t) (t_killpriv_v2 t) (t_perfile_dax t).

(* OverlayFs: open()/create() rewrite the flags on the negotiated switch (fix: 018111a; before it on
   `self.config.writeback`); killpriv_v2 and perfile_dax are stored but never consulted *)
Definition ovl_behaviour (c : lcfg) (t : toggles) : behaviour :=
  mkB (t_no_open t) (t_no_opendir t) (t_writeback t) false false.

(* ------------------------------------------------------------------ histories
   INIT with a capability word; between two INITs the client sends DESTROY. *)
Fixpoint pt_run (c : lcfg) (t : toggles) (caps : list N) : toggles :=
  match caps with
  | [] => t
  | cap :: r => pt_run c (layer_destroy (snd (pt_init c t cap))) r
  end.
Fixpoint ovl_run (c : lcfg) (t : toggles) (caps : list N) : toggles :=
  match caps with
  | [] => t
  | cap :: r => ovl_run c (layer_destroy (snd (ovl_init c t cap))) r
  end.

(* ------------------------------------------------------------------ what the harness observes
   (harness/src/bin/inittoggle.rs): init(cap1); probes; init(cap1) again; destroy; init(cap2); probes. *)
Inductive probe := PEnosys | PHandle.
Definition probe_of (enosys : bool) : probe := if enosys then PEnosys else PHandle.
Definition probe_eqb (a b : probe) : bool :=
  match a, b with PEnosys, PEnosys | PHandle, PHandle => true | _, _ => false end.

(* tri-state probes: None = not observable (the open it needs was answered ENOSYS) *)
Definition tri (visible v : bool) : option bool := if visible then Some v else None.
Definition tri_eqb (a b : option bool) : bool :=
  match a, b with Some x, Some y => Bool.eqb x y | None, None => true | _, _ => false end.

Record round := mkR { r_init : ires; r_open : probe; r_opendir : probe;
                      r_wb : option bool; r_kp : option bool; r_dax : bool }.
Definition ires_eqb (a b : ires) : bool :=
  match a, b with IErr x, IErr y | IOk x, IOk y => x =? y | _, _ => false end.
Definition round_eqb (a b : round) : bool :=
  ires_eqb (r_init a) (r_init b) && probe_eqb (r_open a) (r_open b) && probe_eqb (r_opendir a) (r_opendir b) &&
  tri_eqb (r_wb a) (r_wb b) && tri_eqb (r_kp a) (r_kp b) && Bool.eqb (r_dax a) (r_dax b).

Definition round_of (out : ires) (b : behaviour) : round :=
  mkR out (probe_of (b_open_enosys b)) (probe_of (b_opendir_enosys b))
      (tri (negb (b_open_enosys b)) (b_writeback_flags b)) (tri (negb (b_open_enosys b)) (b_killpriv b)) (b_dax b).

(* (first round, answer of the repeated init, second round) *)
Definition pt_case (p : cache_policy) (c0 : lcfg) (cap1 cap2 : N) : round * ires * round :=
  let c := pt_new p c0 in
  let '(o1, t1) := pt_init c toggles_off cap1 in
  let '(or, tr) := pt_init c t1 cap1 in
  let '(o2, t2) := pt_init c (layer_destroy tr) cap2 in
  (round_of (IOk o1) (pt_behaviour c t1), IOk or, round_of (IOk o2) (pt_behaviour c t2)).

Definition ovl_case (c : lcfg) (cap1 cap2 : N) : round * ires * round :=
  let '(o1, t1) := ovl_init c toggles_off cap1 in
  let '(or, tr) := ovl_init c t1 cap1 in
  let '(o2, t2) := ovl_init c (layer_destroy tr) cap2 in
  (round_of (IOk o1) (ovl_behaviour c t1), IOk or, round_of (IOk o2) (ovl_behaviour c t2)).

(* a Vfs with one PassthroughFs backend (do_import = false, all switches off, cache=always) at "/" *)
Definition under_vfs : lcfg := mkC false false false false false false.
Definition vfs_behaviour (s : vstate) (b : behaviour) : behaviour :=
  mkB (vfs_open_enosys s || b_open_enosys b) (vfs_opendir_enosys s || b_opendir_enosys b)
      (b_writeback_flags b) (b_killpriv b) (b_dax b).

Definition vfs_case (s0 : vstate) (cap1 cap2 : N) : round * ires * round :=
  let '(ob1, t1) := pt_init under_vfs toggles_off (vfs_backend_word s0 cap1) in
  let '(r1, s1) := vfs_init s0 cap1 [None] in
  let '(rr, sr) := vfs_init s1 cap1 [None] in
  let sd := vfs_destroy sr in
  let '(ob2, t2) := pt_init under_vfs (layer_destroy t1) (vfs_backend_word sd cap2) in
  let '(r2, s2) := vfs_init sd cap2 [None] in
  (round_of r1 (vfs_behaviour s1 (pt_behaviour under_vfs t1)), rr,
   round_of r2 (vfs_behaviour s2 (pt_behaviour under_vfs t2))).

Definition case_eqb (a b : round * ires * round) : bool :=
  let '(a1, ar, a2) := a in let '(b1, br, b2) := b in
  round_eqb a1 b1 && ires_eqb ar br && round_eqb a2 b2.

Definition lcfg_of_bits (sw : N) : lcfg :=
  mkC (N.testbit sw 0) (N.testbit sw 1) (N.testbit sw 2) (N.testbit sw 3) (N.testbit sw 4) (N.testbit sw 5).
Definition policy_of_bits (sw : N) : cache_policy :=
  match N.land (N.shiftr sw 5) 3 with 1 => CacheAlways | 2 => CacheNever | 3 => CacheMetadata | _ => CacheAuto end.
Definition vstate_of_bits (sw : N) (out_opts : option N) : vstate :=
  vfs_new (N.testbit sw 0) (N.testbit sw 1) (N.testbit sw 2) (N.testbit sw 3)
          (match out_opts with Some o => o | None => vfs_default_out end).
