(* C12, second half: what Vfs::init (src/api/vfs/sync_io.rs), PassthroughFs::init
   (src/passthrough/sync_io.rs) and OverlayFs::init (src/overlayfs/sync_io.rs) do with the capability
   word, and where the resulting switches are consulted.  Executable Gallina, no proofs.

   Capability words are FsOptions bit sets (N, below 2^64). *)
From Coq Require Import List NArith Bool.
Import ListNotations.
Local Open Scope N_scope.

(* FsOptions bits used here (checked against the translated bitflags table in Proofs/InitToggles.v) *)
Definition F_ASYNC_READ : N := 1.
Definition F_ATOMIC_O_TRUNC : N := 8.
Definition F_BIG_WRITES : N := 32.
Definition F_HAS_IOCTL_DIR : N := 2048.
Definition F_AUTO_INVAL_DATA : N := 4096.
Definition F_DO_READDIRPLUS : N := 8192.
Definition F_READDIRPLUS_AUTO : N := 16384.
Definition F_ASYNC_DIO : N := 32768.
Definition F_WRITEBACK_CACHE : N := 65536.
Definition F_ZERO_MESSAGE_OPEN : N := 131072.
Definition F_PARALLEL_DIROPS : N := 262144.
Definition F_MAX_PAGES : N := 4194304.
Definition F_CACHE_SYMLINKS : N := 8388608.
Definition F_ZERO_MESSAGE_OPENDIR : N := 16777216.
Definition F_EXPLICIT_INVAL_DATA : N := 33554432.
Definition F_HANDLE_KILLPRIV_V2 : N := 268435456.
Definition F_PERFILE_DAX : N := 8589934592.

Definition EINVAL : N := 22.
Definition ENOSYS : N := 38.

(* !(opts & X).is_empty()  and  opts.contains(X) *)
Definition has (c m : N) : bool := negb (N.land c m =? 0).
Definition contains (c m : N) : bool := N.land c m =? m.
(* opts.remove(X) *)
Definition remove (v m : N) : N := N.land v (N.lnot m 64).

(* ------------------------------------------------------------------ Vfs *)
Record vstate := mkV {
  v_no_open : bool; v_no_opendir : bool; v_no_writeback : bool; v_killpriv_v2 : bool;
  v_in_opts : N; v_out_opts : N;
  v_initialized : bool
}.

(* VfsOptions::default().out_opts (linux) *)
Definition vfs_default_out : N :=
  N.lor F_ASYNC_READ (N.lor F_PARALLEL_DIROPS (N.lor F_BIG_WRITES (N.lor F_ASYNC_DIO
  (N.lor F_AUTO_INVAL_DATA (N.lor F_HAS_IOCTL_DIR (N.lor F_WRITEBACK_CACHE (N.lor F_ZERO_MESSAGE_OPEN
  (N.lor F_MAX_PAGES (N.lor F_ATOMIC_O_TRUNC (N.lor F_CACHE_SYMLINKS (N.lor F_DO_READDIRPLUS
  (N.lor F_READDIRPLUS_AUTO (N.lor F_EXPLICIT_INVAL_DATA (N.lor F_ZERO_MESSAGE_OPENDIR
  (N.lor F_HANDLE_KILLPRIV_V2 F_PERFILE_DAX))))))))))))))).

(* Vfs::new(opts) *)
Definition vfs_new (no_open no_opendir no_writeback killpriv_v2 : bool) (out_opts : N) : vstate :=
  mkV no_open no_opendir no_writeback killpriv_v2 0 out_opts false.

Inductive ires := IErr (errno : N) | IOk (out : N).

(* the option algebra of Vfs::init: new option record from the stored one and the client's word *)
Definition vfs_negotiate (s : vstate) (opts : N) : vstate :=
  let out0 := v_out_opts s in
  let '(no_open, out1) :=
    if v_no_open s then (has opts F_ZERO_MESSAGE_OPEN, remove out0 F_ATOMIC_O_TRUNC)
    else (false, remove out0 F_ZERO_MESSAGE_OPEN) in
  let '(no_opendir, out2) :=
    if v_no_opendir s then (has opts F_ZERO_MESSAGE_OPENDIR, out1)
    else (false, remove out1 F_ZERO_MESSAGE_OPENDIR) in
  let out3 := if v_no_writeback s then remove out2 F_WRITEBACK_CACHE else out2 in
  let out4 := if v_killpriv_v2 s then out3 else remove out3 F_HANDLE_KILLPRIV_V2 in
  let out5 := N.land out4 opts in
  mkV no_open no_opendir (v_no_writeback s) (v_killpriv_v2 s) opts out5 (v_initialized s).

(* Vfs::init.  [backends]: the answer of each mounted backend's init, in superblock order
   (None = Ok, Some e = Err e); the first failure aborts, after the new options were stored. *)
Fixpoint first_err (l : list (option N)) : option N :=
  match l with
  | [] => None
  | Some e :: _ => Some e
  | None :: r => first_err r
  end.

Definition vfs_init (s : vstate) (opts : N) (backends : list (option N)) : ires * vstate :=
  if v_initialized s then (IErr EINVAL, s)
  else
    let n := vfs_negotiate s opts in
    match first_err backends with
    | Some e => (IErr e, n)
    | None => (IOk (v_out_opts n),
               mkV (v_no_open n) (v_no_opendir n) (v_no_writeback n) (v_killpriv_v2 n)
                   (v_in_opts n) (v_out_opts n) true)
    end.

(* the word every backend's init is called with *)
Definition vfs_backend_word (s : vstate) (opts : N) : N := v_out_opts (vfs_negotiate s opts).

Definition vfs_destroy (s : vstate) : vstate :=
  mkV (v_no_open s) (v_no_opendir s) (v_no_writeback s) (v_killpriv_v2 s) (v_in_opts s) (v_out_opts s) false.

(* Vfs::open / Vfs::opendir answer ENOSYS themselves exactly when the switch is on; otherwise the
   request goes to the backend *)
Definition vfs_open_enosys (s : vstate) : bool := v_no_open s.
Definition vfs_opendir_enosys (s : vstate) : bool := v_no_opendir s.

(* feature async-io: Vfs::async_open (src/api/vfs/async_io.rs) repeats the no-open test of Vfs::open; there is no
   async opendir.  PassthroughFs::async_open / async_create call the sync methods. *)
Definition vfs_async_open_enosys (s : vstate) : bool := v_no_open s.

(* ------------------------------------------------------------------ PassthroughFs / OverlayFs *)
Inductive cache_policy := CacheAuto | CacheAlways | CacheNever | CacheMetadata.

Record lcfg := mkC {
  c_do_import : bool; c_writeback : bool; c_no_open : bool; c_no_opendir : bool; c_killpriv_v2 : bool;
  c_perfile_dax : bool          (* overlay only; passthrough has no such switch *)
}.

(* PassthroughFs::new: no_open needs cache=always, writeback conflicts with cache=none *)
Definition pt_new (p : cache_policy) (c : lcfg) : lcfg :=
  let no_open := match p with CacheAlways => c_no_open c | _ => false end in
  let writeback := match p with CacheNever => false | _ => c_writeback c end in
  mkC (c_do_import c) writeback no_open (c_no_opendir c) (c_killpriv_v2 c) (c_perfile_dax c).

(* the AtomicBool switches *)
Record toggles := mkT {
  t_writeback : bool; t_no_open : bool; t_no_opendir : bool; t_killpriv_v2 : bool; t_perfile_dax : bool
}.
Definition toggles_off : toggles := mkT false false false false false.

Definition allowed (c : lcfg) (sw : bool) : bool := negb (c_do_import c) || sw.
Definition cond_or (b : bool) (v m : N) : N := if b then N.lor v m else v.

(* PassthroughFs::init: every switch is stored with the outcome of THIS negotiation (fix: 3c323ec; before
   it the switches were only ever stored `true`); [t], the switches before the call, is overwritten *)
Definition pt_init (c : lcfg) (t : toggles) (capable : N) : N * toggles :=
  let wb := allowed c (c_writeback c) && contains capable F_WRITEBACK_CACHE in
  let no := allowed c (c_no_open c) && contains capable F_ZERO_MESSAGE_OPEN in
  let nd := allowed c (c_no_opendir c) && contains capable F_ZERO_MESSAGE_OPENDIR in
  let kp := allowed c (c_killpriv_v2 c) && contains capable F_HANDLE_KILLPRIV_V2 in
  let dx := contains capable F_PERFILE_DAX in
  let o0 := N.lor F_DO_READDIRPLUS F_READDIRPLUS_AUTO in
  let o1 := cond_or wb o0 F_WRITEBACK_CACHE in
  let o2 := if no then remove (N.lor o1 F_ZERO_MESSAGE_OPEN) F_ATOMIC_O_TRUNC else o1 in
  let o3 := cond_or nd o2 F_ZERO_MESSAGE_OPENDIR in
  let o4 := cond_or kp o3 F_HANDLE_KILLPRIV_V2 in
  let o5 := cond_or dx o4 F_PERFILE_DAX in
  (o5, mkT wb no nd kp dx).

(* OverlayFs::init: same shape; per-file DAX additionally needs the configuration switch *)
Definition ovl_init (c : lcfg) (t : toggles) (capable : N) : N * toggles :=
  let wb := allowed c (c_writeback c) && contains capable F_WRITEBACK_CACHE in
  let no := allowed c (c_no_open c) && contains capable F_ZERO_MESSAGE_OPEN in
  let nd := allowed c (c_no_opendir c) && contains capable F_ZERO_MESSAGE_OPENDIR in
  let kp := allowed c (c_killpriv_v2 c) && contains capable F_HANDLE_KILLPRIV_V2 in
  let dx := c_perfile_dax c && contains capable F_PERFILE_DAX in
  let o0 := N.lor F_DO_READDIRPLUS F_READDIRPLUS_AUTO in
  let o1 := cond_or wb o0 F_WRITEBACK_CACHE in
  let o2 := if no then remove (N.lor o1 F_ZERO_MESSAGE_OPEN) F_ATOMIC_O_TRUNC else o1 in
  let o3 := cond_or nd o2 F_ZERO_MESSAGE_OPENDIR in
  let o4 := cond_or kp o3 F_HANDLE_KILLPRIV_V2 in
  let o5 := cond_or dx o4 F_PERFILE_DAX in
  (o5, mkT wb no nd kp dx).

(* destroy() leaves the switches alone in both layers *)
Definition layer_destroy (t : toggles) : toggles := t.

(* where the switches are consulted *)
Record behaviour := mkB {
  b_open_enosys : bool;       (* OPEN answered ENOSYS *)
  b_opendir_enosys : bool;    (* OPENDIR answered ENOSYS *)
  b_writeback_flags : bool;   (* O_WRONLY promoted to O_RDWR and O_APPEND stripped on open/create *)
  b_killpriv : bool;          (* CAP_FSETID dropped around open(O_TRUNC)/write/setattr with the kill-priv request flag *)
  b_dax : bool                (* FUSE_ATTR_DAX put on entries (when dax_file_size is configured) *)
}.

(* PassthroughFs: every behaviour follows its AtomicBool *)
Definition pt_behaviour (c : lcfg) (t : toggles) : behaviour :=
  mkB (t_no_open t) (t_no_opendir t) (t_writeback t) (t_killpriv_v2 t) (t_perfile_dax t).

(* OverlayFs: open()/create() rewrite the flags on the negotiated switch (fix: 018111a; before it on
   `self.config.writeback`); killpriv_v2 and perfile_dax are stored but never consulted *)
Definition ovl_behaviour (c : lcfg) (t : toggles) : behaviour :=
  mkB (t_no_open t) (t_no_opendir t) (t_writeback t) false false.

(* ------------------------------------------------------------------ histories
   INIT with a capability word; between two INITs the client sends DESTROY. *)
Fixpoint pt_run (c : lcfg) (t : toggles) (caps : list N) : toggles :=
  match caps with
  | [] => t
  | cap :: r => pt_run c (layer_destroy (snd (pt_init c t cap))) r
  end.
Fixpoint ovl_run (c : lcfg) (t : toggles) (caps : list N) : toggles :=
  match caps with
  | [] => t
  | cap :: r => ovl_run c (layer_destroy (snd (ovl_init c t cap))) r
  end.

(* ------------------------------------------------------------------ what the harness observes
   (harness/src/bin/inittoggle.rs): init(cap1); probes; init(cap1) again; destroy; init(cap2); probes. *)
Inductive probe := PEnosys | PHandle.
Definition probe_of (enosys : bool) : probe := if enosys then PEnosys else PHandle.
Definition probe_eqb (a b : probe) : bool :=
  match a, b with PEnosys, PEnosys | PHandle, PHandle => true | _, _ => false end.

(* tri-state probes: None = not observable (the open it needs was answered ENOSYS) *)
Definition tri (visible v : bool) : option bool := if visible then Some v else None.
Definition tri_eqb (a b : option bool) : bool :=
  match a, b with Some x, Some y => Bool.eqb x y | None, None => true | _, _ => false end.

(* twin entry points that consult the same switches: RELEASE / RELEASEDIR (twins of OPEN / OPENDIR), CREATE
   (twin of OPEN: handle or not, writeback flag rewriting, kill-priv when it truncates an existing file) and
   SETATTR(size, KILL_SUIDGID) (twin of the kill-priv OPEN) *)
Inductive uprobe := UOk | UEnosys | UOther.
Definition uprobe_eqb (a b : uprobe) : bool :=
  match a, b with UOk, UOk | UEnosys, UEnosys | UOther, UOther => true | _, _ => false end.

Record twins := mkW {
  w_release : uprobe; w_releasedir : uprobe;
  w_create_handle : bool;            (* CREATE returns a handle *)
  w_create_wb : option bool;         (* flags of the descriptor CREATE opened were rewritten (visible with a handle) *)
  w_create_killpriv : option bool;   (* CREATE(O_TRUNC, kill flag) on an existing setuid file cleared the bit *)
  w_setattr_killpriv : option bool   (* SETATTR(size, KILL_SUIDGID) cleared the bit *)
}.

(* PassthroughFs: release / releasedir / create / setattr read the same AtomicBools as open / opendir *)
Definition pt_twins (t : toggles) : twins :=
  mkW (if t_no_open t then UEnosys else UOk) (if t_no_opendir t then UEnosys else UOk)
      (negb (t_no_open t)) (tri (negb (t_no_open t)) (t_writeback t))
      (Some (t_killpriv_v2 t)) (Some (t_killpriv_v2 t)).

(* OverlayFs: create() refuses an existing name (EEXIST), so the kill-priv create is not observable;
   setattr is passed to the layer, whose kill-priv switch is never set *)
Definition ovl_twins (t : toggles) : twins :=
  mkW (if t_no_open t then UEnosys else UOk) (if t_no_opendir t then UEnosys else UOk)
      (negb (t_no_open t)) (tri (negb (t_no_open t)) (t_writeback t))
      None (Some false).

(* Vfs: release / releasedir / create / setattr are forwarded without consulting the Vfs's own switches;
   a RELEASE(handle 0) after the Vfs itself refused the OPEN reaches a backend that never opened anything *)
Definition vfs_twins (s : vstate) (t : toggles) : twins :=
  let w := pt_twins t in
  mkW (match w_release w with UOk => if vfs_open_enosys s then UOther else UOk | x => x end)
      (match w_releasedir w with UOk => if vfs_opendir_enosys s then UOther else UOk | x => x end)
      (w_create_handle w) (w_create_wb w) (w_create_killpriv w) (w_setattr_killpriv w).

Definition twins_eqb (a b : twins) : bool :=
  uprobe_eqb (w_release a) (w_release b) && uprobe_eqb (w_releasedir a) (w_releasedir b) &&
  Bool.eqb (w_create_handle a) (w_create_handle b) && tri_eqb (w_create_wb a) (w_create_wb b) &&
  tri_eqb (w_create_killpriv a) (w_create_killpriv b) && tri_eqb (w_setattr_killpriv a) (w_setattr_killpriv b).

(* further entry points that consult the same switches, probed with a handle no OPEN ever returned:
   FLUSH (ENOSYS in no-open mode), GETATTR(Some h) / FSYNC(h) / READDIR(h) (handle mode: the unknown handle is
   refused; no-open / no-opendir mode: the handle is ignored and the request served from the inode) and
   WRITE with WRITE_KILL_PRIV (CAP_FSETID dropped around the write only with the kill-priv switch), and WRITE whose
   request flags word carries O_APPEND on a handle opened without it (check_fd_flags / open_inode re-apply the request's
   flags to the descriptor, minus O_APPEND only under the writeback switch).
   [Some true] = the handle-less path was taken / the setuid bit was cleared / O_APPEND was stripped;
   [None] = not observable. *)
Record hpaths := mkH {
  h_flush : uprobe; h_getattr : option bool; h_fsync : option bool; h_readdir : option bool;
  h_write_kp : option bool; h_write_append : option bool
}.

(* PassthroughFs: flush() tests no_open; do_getattr() uses the handle only when !no_open; fsync()/write() go through
   get_data() (no_open), readdir() through get_dirdata() (no_opendir); write() tests killpriv_v2 *)
Definition pt_hpaths (t : toggles) : hpaths :=
  mkH (if t_no_open t then UEnosys else UOk) (Some (t_no_open t)) (Some (t_no_open t)) (Some (t_no_opendir t))
      (Some (t_killpriv_v2 t)) (Some (t_writeback t)).

(* OverlayFs: flush() tests no_open; getattr() and do_readdir() fall back to the inode for an unknown handle in
   either mode (not observable); fsync()/write() go through get_data(): handle mode = ENOENT for an unknown handle,
   no-open mode = the layer is called with real handle 0, which the layer (never initialised, handle mode) refuses
   with EBADF -- so a write in no-open mode fails and its kill-priv effect is not observable; in handle mode the
   write reaches the layer, whose kill-priv and writeback switches are never set (the layer re-applies O_APPEND) *)
Definition ovl_hpaths (t : toggles) : hpaths :=
  mkH (if t_no_open t then UEnosys else UOk) None (Some (t_no_open t)) None
      (if t_no_open t then None else Some false) (if t_no_open t then None else Some false).

(* Vfs: all five are forwarded to the backend; when the Vfs itself answered OPEN with ENOSYS while its backend is
   in handle mode (configured out_opts without ZERO_MESSAGE_OPEN), handle 0 reaches a backend that never opened
   anything: FLUSH and WRITE fail there *)
Definition vfs_hpaths (s : vstate) (t : toggles) : hpaths :=
  let h := pt_hpaths t in
  let orphan := vfs_open_enosys s && negb (t_no_open t) in
  mkH (match h_flush h with UOk => if vfs_open_enosys s then UOther else UOk | x => x end)
      (h_getattr h) (h_fsync h) (h_readdir h) (if orphan then None else h_write_kp h)
      (if orphan then None else h_write_append h).

Definition hpaths_eqb (a b : hpaths) : bool :=
  uprobe_eqb (h_flush a) (h_flush b) && tri_eqb (h_getattr a) (h_getattr b) && tri_eqb (h_fsync a) (h_fsync b) &&
  tri_eqb (h_readdir a) (h_readdir b) && tri_eqb (h_write_kp a) (h_write_kp b) &&
  tri_eqb (h_write_append a) (h_write_append b).

(* PassthroughFs puts FUSE_ATTR_DAX on an entry only if dax_file_size is configured and the file is at least
   that large; [dax_applies] says whether that holds for the probed file *)
Definition pt_behaviour_d (dax_applies : bool) (c : lcfg) (t : toggles) : behaviour :=
  mkB (t_no_open t) (t_no_opendir t) (t_writeback t) (t_killpriv_v2 t) (t_perfile_dax t && dax_applies).

Record round := mkR { r_init : ires; r_open : probe; r_opendir : probe;
                      r_wb : option bool; r_kp : option bool; r_dax : bool; r_twins : twins; r_hpaths : hpaths }.
Definition ires_eqb (a b : ires) : bool :=
  match a, b with IErr x, IErr y | IOk x, IOk y => x =? y | _, _ => false end.
Definition round_eqb (a b : round) : bool :=
  ires_eqb (r_init a) (r_init b) && probe_eqb (r_open a) (r_open b) && probe_eqb (r_opendir a) (r_opendir b) &&
  tri_eqb (r_wb a) (r_wb b) && tri_eqb (r_kp a) (r_kp b) && Bool.eqb (r_dax a) (r_dax b) &&
  twins_eqb (r_twins a) (r_twins b) && hpaths_eqb (r_hpaths a) (r_hpaths b).

Definition round_of (out : ires) (b : behaviour) (w : twins) (h : hpaths) : round :=
  mkR out (probe_of (b_open_enosys b)) (probe_of (b_opendir_enosys b))
      (tri (negb (b_open_enosys b)) (b_writeback_flags b)) (tri (negb (b_open_enosys b)) (b_killpriv b)) (b_dax b) w h.

(* (first round, answer of the repeated init, second round).
   ord = false:  init(cap1); probes; init(cap1) [repeated]; destroy; init(cap2); probes
   ord = true :  destroy; init(cap1); probes; destroy; destroy; init(cap2); init(cap2) [repeated]; probes *)
Definition pt_case (ord dax_applies : bool) (p : cache_policy) (c0 : lcfg) (cap1 cap2 : N) : round * ires * round :=
  let c := pt_new p c0 in
  let '(o1, t1) := pt_init c (layer_destroy toggles_off) cap1 in
  let '(or1, tr1) := pt_init c t1 cap1 in
  let tm := if ord then layer_destroy (layer_destroy t1) else layer_destroy tr1 in
  let '(o2, t2) := pt_init c tm cap2 in
  let '(or2, tr2) := pt_init c t2 cap2 in
  let te := if ord then tr2 else t2 in
  (round_of (IOk o1) (pt_behaviour_d dax_applies c t1) (pt_twins t1) (pt_hpaths t1), IOk (if ord then or2 else or1),
   round_of (IOk o2) (pt_behaviour_d dax_applies c te) (pt_twins te) (pt_hpaths te)).

Definition ovl_case (ord : bool) (c : lcfg) (cap1 cap2 : N) : round * ires * round :=
  let '(o1, t1) := ovl_init c (layer_destroy toggles_off) cap1 in
  let '(or1, tr1) := ovl_init c t1 cap1 in
  let tm := if ord then layer_destroy (layer_destroy t1) else layer_destroy tr1 in
  let '(o2, t2) := ovl_init c tm cap2 in
  let '(or2, tr2) := ovl_init c t2 cap2 in
  let te := if ord then tr2 else t2 in
  (round_of (IOk o1) (ovl_behaviour c t1) (ovl_twins t1) (ovl_hpaths t1), IOk (if ord then or2 else or1),
   round_of (IOk o2) (ovl_behaviour c te) (ovl_twins te) (ovl_hpaths te)).

(* a Vfs with one PassthroughFs backend (do_import = false, all switches off, cache=always) at "/".  Whether the
   backend is mounted before the first INIT (Vfs::init initialises it) or after it (Vfs::mount initialises it
   with the stored out_opts) makes no difference: both hand it [vfs_backend_word]. *)
Definition under_vfs : lcfg := mkC false false false false false false.
Definition vfs_behaviour (s : vstate) (b : behaviour) : behaviour :=
  mkB (vfs_open_enosys s || b_open_enosys b) (vfs_opendir_enosys s || b_opendir_enosys b)
      (b_writeback_flags b) (b_killpriv b) (b_dax b).

Definition vfs_case (ord : bool) (s0 : vstate) (cap1 cap2 : N) : round * ires * round :=
  let s0' := if ord then vfs_destroy s0 else s0 in
  let '(ob1, t1) := pt_init under_vfs toggles_off (vfs_backend_word s0' cap1) in
  let '(r1, s1) := vfs_init s0' cap1 [None] in
  let '(rr1, sr1) := vfs_init s1 cap1 [None] in
  let sd := if ord then vfs_destroy (vfs_destroy s1) else vfs_destroy sr1 in
  let '(ob2, t2) := pt_init under_vfs (layer_destroy t1) (vfs_backend_word sd cap2) in
  let '(r2, s2) := vfs_init sd cap2 [None] in
  let '(rr2, sr2) := vfs_init s2 cap2 [None] in
  let se := if ord then sr2 else s2 in
  (round_of r1 (vfs_behaviour s1 (pt_behaviour under_vfs t1)) (vfs_twins s1 t1) (vfs_hpaths s1 t1), if ord then rr2 else rr1,
   round_of r2 (vfs_behaviour se (pt_behaviour under_vfs t2)) (vfs_twins se t2) (vfs_hpaths se t2)).

(* the same Vfs with a second backend whose init fails (EIO) during the first INIT: the passthrough backend (first
   superblock) is initialised, the new options are stored, the Vfs stays uninitialised; the next INIT is accepted.
   init(cap1) [fails]; probes; init(cap1) [repeated, succeeds]; destroy; init(cap2); probes *)
Definition vfs_fail_case (s0 : vstate) (cap1 cap2 : N) : round * ires * round :=
  let '(ob1, t1) := pt_init under_vfs toggles_off (vfs_backend_word s0 cap1) in
  let '(r1, s1) := vfs_init s0 cap1 [None; Some 5] in
  let '(obr, tr) := pt_init under_vfs t1 (vfs_backend_word s1 cap1) in
  let '(rr, sr) := vfs_init s1 cap1 [None; None] in
  let sd := vfs_destroy sr in
  let '(ob2, t2) := pt_init under_vfs (layer_destroy tr) (vfs_backend_word sd cap2) in
  let '(r2, s2) := vfs_init sd cap2 [None; None] in
  (round_of r1 (vfs_behaviour s1 (pt_behaviour under_vfs t1)) (vfs_twins s1 t1) (vfs_hpaths s1 t1), rr,
   round_of r2 (vfs_behaviour s2 (pt_behaviour under_vfs t2)) (vfs_twins s2 t2) (vfs_hpaths s2 t2)).

Definition case_eqb (a b : round * ires * round) : bool :=
  let '(a1, ar, a2) := a in let '(b1, br, b2) := b in
  round_eqb a1 b1 && ires_eqb ar br && round_eqb a2 b2.

Definition lcfg_of_bits (sw : N) : lcfg :=
  mkC (N.testbit sw 0) (N.testbit sw 1) (N.testbit sw 2) (N.testbit sw 3) (N.testbit sw 4) (N.testbit sw 5).
Definition policy_of_bits (sw : N) : cache_policy :=
  match N.land (N.shiftr sw 5) 3 with 1 => CacheAlways | 2 => CacheNever | 3 => CacheMetadata | _ => CacheAuto end.
(* passthrough bits 7-8: dax_file_size = Some(0) | None | Some(2^40); the probed file has 3 bytes *)
Definition dax_applies_of_bits (sw : N) : bool := N.land (N.shiftr sw 7) 3 =? 0.
Definition vstate_of_bits (sw : N) (out_opts : option N) : vstate :=
  vfs_new (N.testbit sw 0) (N.testbit sw 1) (N.testbit sw 2) (N.testbit sw 3)
          (match out_opts with Some o => o | None => vfs_default_out end).
