(* Vocabulary of the translated handler table Gen/RustHandlers.v (translator/server_handlers.py).

   The translator re-reads every request handler of src/api/server/sync_io.rs and emits, per dispatch arm,
     - the ordered request reads ([rstep]s),
     - the pure tests that must hold for the filesystem to be called (a [bool] over the decoded request),
     - the filesystem call as a Gallina function of the decoded request.
   This file gives these their meaning: how a list of read steps consumes the request stream (same Reader
   primitives as Model/Server.v: read_obj, get_message_body, bytes_to_cstr, extract_two_cstrs), how a struct field
   is read BY NAME through the translated layouts (Gen/RustABI.v, so offsets and widths come from the source),
   how constants are looked up in the translated constant tables.  Executable Gallina, no proofs here. *)
From Coq Require Import List String NArith Bool.
From FB Require Import Lib.Bytes Lib.Layout Gen.RustABI Gen.RustDispatch Model.Server.
Import ListNotations.
Local Open Scope string_scope.
Local Open Scope list_scope.
Local Open Scope N_scope.

(* ------------------------------------------------------------------ translated layouts / constants by name *)
Definition rleaf (sn fn : string) : option leaf :=
  match struct_leaves rust_structs sn with
  | Some ls => find (fun l => String.eqb (l_path l) fn) ls
  | None => None
  end.

(* field [fn] (a leaf path, e.g. "fh" or "lk.start") of a value of struct [sn] held in [s] *)
Definition rfld (sn fn : string) (s : bytes) : N :=
  match rleaf sn fn with
  | Some l => dec (firstn (N.to_nat (l_width l)) (skipn (N.to_nat (l_off l)) s))
  | None => 0
  end.

Definition rsize (sn : string) : nat :=
  match struct_size rust_structs sn with Some n => N.to_nat n | None => O end.

Definition rconst (name : string) : N :=
  match lookup name rust_consts with Some v => v | None => 0 end.

(* constants of src/api/server/mod.rs (translated into Gen/RustDispatch.v) *)
Definition rsconst (name : string) : N :=
  match lookup name rust_server_consts with Some v => v | None => 0 end.

Definition rbf (flags member : string) : N :=
  match lookup flags rust_bitflags with
  | Some ms => match lookup member ms with Some v => v | None => 0 end
  | None => 0
  end.

(* B::all().bits(): what from_bits_truncate keeps *)
Definition rbf_all (flags : string) : N :=
  match lookup flags rust_bitflags with
  | Some ms => fold_right (fun m acc => N.lor (snd m) acc) 0 ms
  | None => 0
  end.

(* a struct (or, with [prefix] <> "", one nested struct field) passed to the filesystem as a whole:
   the harness logs its integer leaves in declaration order *)
Definition under (prefix path : string) : bool :=
  if String.eqb prefix "" then true else String.prefix (prefix ++ ".") path.
Definition sargs (sn prefix : string) (s : bytes) : list arg :=
  match struct_leaves rust_structs sn with
  | Some ls => map (fun l => AN (dec (firstn (N.to_nat (l_width l)) (skipn (N.to_nat (l_off l)) s))))
                   (filter (fun l => under prefix (l_path l)) ls)
  | None => []
  end.

(* `let st: stat64 = setattr_in.into()`: the conversion table translated from src/abi (Gen/RustABI.v,
   rust_conv_stat_of_setattr: destination field, source field, chain of `as` casts).  The harness logs the
   destination fields below, in this order, each `as u64`. *)
Definition ity := (N * bool)%type.      (* bytes, signed *)
Definition cast1 (src dst : ity) (v : N) : N :=
  let bits t := 8 * fst t in
  if bits dst <=? bits src then v mod 2 ^ bits dst
  else if snd src && (2 ^ (bits src - 1) <=? v) then v + (2 ^ bits dst - 2 ^ bits src)
  else v.
Fixpoint cast_chain (chain : list ity) (v : N) : N :=
  match chain with
  | a :: ((b :: _) as r) => cast_chain r (cast1 a b v)
  | _ => v
  end.
Fixpoint last_ity (chain : list ity) : ity :=
  match chain with [] => (8, false) | [a] => a | _ :: r => last_ity r end.
Definition conv_table := list (string * option string * list ity).
Fixpoint conv_row (f : string) (t : conv_table) : option (option string * list ity) :=
  match t with
  | [] => None
  | (d, s, c) :: r => if String.eqb f d then Some (s, c) else conv_row f r
  end.
Definition stat_logged : list string :=
  ["st_mode"; "st_uid"; "st_gid"; "st_size"; "st_atime"; "st_mtime"; "st_ctime";
   "st_atime_nsec"; "st_mtime_nsec"; "st_ctime_nsec"].
Definition conv_args (t : conv_table) (sn : string) (s : bytes) : list arg :=
  map (fun dst =>
         match conv_row dst t with
         | Some (Some src, chain) =>
           (* the value in the stat64 field, then `as u64` for the log *)
           AN (cast1 (last_ity chain) (8, false) (cast_chain chain (rfld sn src s)))
         | _ => AN 0
         end) stat_logged.

(* what the scripted filesystem takes out of the ZeroCopyReader it is handed (the rest of the request):
   it reads until it has its [size] argument's worth of bytes or the reader is exhausted *)
Definition zc_payload (size : N) (rest : bytes) : bytes :=
  firstn (N.to_nat (N.min size (blen rest))) rest.

(* ------------------------------------------------------------------ request reads *)
Inductive dval :=
| DObj (b : bytes) | DBuf (b : bytes) | DName (b : bytes) | DTwo (a b : bytes) | DList (l : list bytes).

Inductive rstep :=
| RObj (sn : string)       (* ctx.r.read_obj::<sn>()? *)
| RBody (sub : N)          (* ServerUtil::get_message_body(&mut ctx.r, &ctx.in_header, sub)? *)
| RCstr (i : nat)          (* bytes_to_cstr(<value of step i, a body>)? *)
| RTwo (i : nat)           (* ServerUtil::extract_two_cstrs(<value of step i, a body>)? *)
| RRep (count : list dval -> N) (sn : string).
                           (* for _ in 0..count { v.push(ctx.r.read_obj::<sn>()..?) }; count is a function of the values decoded so far *)

Definition dnth (i : nat) (d : list dval) : dval := nth i d (DBuf []).
Definition dobj (i : nat) (d : list dval) : bytes := match dnth i d with DObj b => b | _ => [] end.
Definition dbuf (i : nat) (d : list dval) : bytes := match dnth i d with DBuf b => b | _ => [] end.
Definition dname (i : nat) (d : list dval) : bytes := match dnth i d with DName b => b | _ => [] end.
Definition dfirst (i : nat) (d : list dval) : bytes := match dnth i d with DTwo a _ => a | _ => [] end.
Definition dsecond (i : nat) (d : list dval) : bytes := match dnth i d with DTwo _ b => b | _ => [] end.
Definition dlist (i : nat) (d : list dval) : list bytes := match dnth i d with DList l => l | _ => [] end.

(* [n] consecutive read_obj of [sz] bytes *)
Fixpoint read_many (n sz : nat) (r : bytes) : option (list bytes * bytes) :=
  match n with
  | O => Some ([], r)
  | S n' =>
    match read_obj sz r with
    | None => None
    | Some (o, r') =>
      match read_many n' sz r' with
      | None => None
      | Some (os, rest) => Some (o :: os, rest)
      end
    end
  end.

(* run the reads on the request stream [r] (what follows the 40-byte header); [None]: a read failed and the
   handler left through `?`.  Returns the decoded values in step order and the unread rest. *)
Fixpoint run_reads (steps : list rstep) (h : hdr) (r : bytes) (acc : list dval) : option (list dval * bytes) :=
  match steps with
  | [] => Some (acc, r)
  | RObj sn :: t =>
    match read_obj (rsize sn) r with
    | None => None
    | Some (s, r') => run_reads t h r' (acc ++ [DObj s])
    end
  | RBody sub :: t =>
    match get_message_body r (h_len h) sub with
    | inl _ => None
    | inr buf => run_reads t h (skipn (List.length buf) r) (acc ++ [DBuf buf])
    end
  | RCstr i :: t =>
    match bytes_to_cstr (dbuf i acc) with
    | None => None
    | Some n => run_reads t h r (acc ++ [DName n])
    end
  | RTwo i :: t =>
    match extract_two_cstrs (dbuf i acc) with
    | inl _ => None
    | inr (a, b) => run_reads t h r (acc ++ [DTwo a b])
    end
  | RRep count sn :: t =>
    match read_many (N.to_nat (count acc)) (rsize sn) r with
    | None => None
    | Some (os, r') => run_reads t h r' (acc ++ [DList os])
    end
  end.

(* one row of the translated table *)
Record src_entry := {
  se_op : N;                                                      (* opcode of the dispatch arm *)
  se_fn : string;                                                 (* handler function *)
  se_reads : list rstep;
  se_guard : config -> N -> list dval -> bytes -> bool;           (* cfg, reply capacity, decoded values, unread rest *)
  se_call : hdr -> N * N * N -> list dval -> bytes -> list call   (* header, caller context, decoded values, unread rest *)
}.

(* the filesystem calls the SOURCE makes for the request body [r] *)
Definition src_calls (e : src_entry) (cfg : config) (h : hdr) (ctx : N * N * N) (r : bytes) (wcap : N) : list call :=
  match run_reads (se_reads e) h r [] with
  | Some (d, rest) => if se_guard e cfg wcap d rest then se_call e h ctx d rest else []
  | None => []
  end.
