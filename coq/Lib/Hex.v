(* hex string -> list of bytes (N); used by generated case files *)
From Coq Require Import List Ascii String NArith Bool.
Import ListNotations.
Local Open Scope N_scope.

Definition hexval (c : ascii) : N :=
  let n := N_of_ascii c in
  if (48 <=? n) && (n <=? 57) then n - 48
  else if (97 <=? n) && (n <=? 102) then n - 87
  else if (65 <=? n) && (n <=? 70) then n - 55
  else 0.

Fixpoint unhex (s : string) : list N :=
  match s with
  | String a (String b r) => (16 * hexval a + hexval b) :: unhex r
  | _ => []
  end.
