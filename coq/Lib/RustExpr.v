(* Lib/RustExpr.v -- a small deep embedding of the pure integer fragment of Rust.

   translator/rust_pure.py re-reads /repo/src on every run and emits, for each listed function, a term of type
   [rfun] (coq/Gen/RustPure.v).  Proofs/RustPure*.v prove, for ALL arguments in range, that evaluating that term
   gives what the hand-written models compute, so the models' arithmetic is a theorem about the source text.

   Machine semantics (what rustc generates on x86_64-linux):
   * an integer value is a bit pattern [n < 2^w] tagged with its type; usize = 64 bits; signed types are two's
     complement ([sem] gives the signed reading);
   * [+ - *] whose mathematical result is out of the type's range: [Panic POverflow] in [Debug] mode (a debug
     build, overflow-checks on), wrap-around in [Release] mode;
   * [<<]/[>>] with an amount >= the width: [Panic POverflow] in Debug, amount masked in Release; bits shifted
     out are lost silently in both;
   * [/ %] by zero: [Panic PDivZero] in both modes; signed MIN / -1: [Panic POverflow] in both modes;
   * [e as T] truncates to the low bits (sign-extending a signed source first), never panics;
   * [&&] and [||] are short-circuit (the right operand is not evaluated, so cannot panic, when the left decides);
   * [assert!] fails with [Panic PAssert] in both modes, [debug_assert!] only in Debug;
   * an integer literal without suffix is a value [VLit z] whose type is fixed by the first typed context it meets
     (the other operand, a [let]/[const] annotation, a cast); it must fit that type ([Stuck] otherwise, rustc
     rejects such a program);
   * [return e] / [e?] leave the function: outcome [Ret v], turned into the function's value by [eval_fn] and by
     [EScope] (the boundary of an inlined callee);
   * the evaluator never inspects a symbolic boolean: where the machine branches (overflow checks, [if], [&&],
     [assert!], [checked_add]) it builds a node [Br c a b] of a decision [tree]; [interp] reads [Br c a b] as
     "if c then a else b".  (So evaluating a function on symbolic arguments computes to a finite tree whose
     conditions are comparisons of the arguments, which is what the proofs case-split on.)
   * [Stuck] = ill-typed or outside the fragment (unbound variable, operands of different types, ...): rustc
     would have rejected the text or the translator produced nonsense; theorems show it does not happen. *)
From Coq Require Import List NArith ZArith String Bool Lia.
Import ListNotations.
Local Open Scope N_scope.

(* ------------------------------------------------------------------ types and values *)
Inductive ity := U8 | U16 | U32 | U64 | Usize | I32 | I64.

Definition width (t : ity) : N :=
  match t with U8 => 8 | U16 => 16 | U32 | I32 => 32 | U64 | Usize | I64 => 64 end.
Definition signed (t : ity) : bool := match t with I32 | I64 => true | _ => false end.
Definition modulus (t : ity) : N :=
  match t with U8 => 256 | U16 => 65536 | U32 | I32 => 4294967296 | U64 | Usize | I64 => 18446744073709551616 end.
Definition half (t : ity) : N :=
  match t with U8 => 128 | U16 => 32768 | U32 | I32 => 2147483648 | U64 | Usize | I64 => 9223372036854775808 end.
Definition ity_eqb (a b : ity) : bool :=
  match a, b with
  | U8, U8 | U16, U16 | U32, U32 | U64, U64 | Usize, Usize | I32, I32 | I64, I64 => true
  | _, _ => false
  end.

Inductive value :=
| VInt (t : ity) (n : N)          (* bit pattern, n < modulus t *)
| VLit (z : Z)                    (* integer literal whose type is not fixed yet *)
| VBool (b : bool)
| VUnit
| VEnum (path : string)           (* a field-less enum variant or an opaque constructor, e.g. "Opcode::Write" *)
| VNone | VSome (v : value)
| VOk (v : value) | VErr (v : value).

Inductive panic := POverflow | PDivZero | PAssert | PUnwrap.
Inductive outcome := Val (v : value) | Ret (v : value) | Panic (p : panic) | Stuck.
Inductive mode := Debug | Release.

(* the result of an evaluation: a decision tree over boolean conditions on the arguments *)
Inductive tree := Leaf (o : outcome) | Br (c : bool) (a b : tree).
Fixpoint interp (t : tree) : outcome :=
  match t with Leaf o => o | Br c a b => if c then interp a else interp b end.
Definition val (v : value) : tree := Leaf (Val v).
Definition stuck : tree := Leaf Stuck.
Fixpoint tbind (t : tree) (k : value -> tree) : tree :=
  match t with
  | Leaf (Val v) => k v
  | Leaf o => Leaf o
  | Br c a b => Br c (tbind a k) (tbind b k)
  end.
(* the boundary of a function body: [return v] becomes the value v *)
Fixpoint scope (t : tree) : tree :=
  match t with
  | Leaf (Ret v) => Leaf (Val v)
  | Leaf o => Leaf o
  | Br c a b => Br c (scope a) (scope b)
  end.

(* ------------------------------------------------------------------ syntax *)
Inductive unop := UNot | UNeg.
Inductive binop := BAdd | BSub | BMul | BDiv | BRem | BAnd | BOr | BXor | BShl | BShr
                 | BEq | BNe | BLt | BLe | BGt | BGe | BLAnd | BLOr.
Inductive meth0 := MIsSome | MIsNone | MIsOk | MIsErr | MUnwrap.
Inductive meth1 := MWrappingAdd | MWrappingSub | MWrappingMul | MCheckedAdd | MCheckedSub | MCheckedMul
                 | MSaturatingAdd | MSaturatingSub | MMin | MMax.

Inductive rexpr :=
| EVar (x : string)
| ELit (z : Z)                                   (* 7, 0xff *)
| ELitT (t : ity) (z : Z)                        (* 7u64, u32::MAX *)
| EBool (b : bool)
| EUnit
| EEnum (path : string)
| EConst (name : string) (t : ity) (e : rexpr)   (* a named constant, its declared type, its defining expression *)
| EUn (o : unop) (e : rexpr)
| EBin (o : binop) (a b : rexpr)
| ECast (e : rexpr) (t : ity)
| EIf (c a b : rexpr)
| ELet (x : string) (t : option ity) (e body : rexpr)
| EAssert (debug_only : bool) (c rest : rexpr)
| ERet (e : rexpr)                               (* return e *)
| EScope (e : rexpr)                             (* body of an inlined callee: its [return] stops here *)
| EMeth0 (m : meth0) (e : rexpr)
| EMeth1 (m : meth1) (a b : rexpr)
| ESome (e : rexpr) | ENone | EOk (e : rexpr) | EErr (e : rexpr)
| EOptMap (e : rexpr) (x : string) (body : rexpr)   (* e.map(|x| body) on an Option *)
| EOkOr (e err : rexpr)                          (* e.ok_or(err), e.ok_or_else(|| err) *)
| ETry (e : rexpr).                              (* e? *)

Inductive pty := PInt (t : ity) | PBool | PEnum.
(* ret: the integer type of the function's result when it has one (T itself, or the T of Option<T> / Result<T, _>):
   an untyped literal in result position (`Ok(0)`) has that type *)
Record rfun := { params : list (string * pty); ret : option ity; body : rexpr }.

(* ------------------------------------------------------------------ machine arithmetic *)
Definition sem (t : ity) (n : N) : Z :=
  if signed t && (half t <=? n) then (Z.of_N n - Z.of_N (modulus t))%Z else Z.of_N n.
Definition rep (t : ity) (z : Z) : N := Z.to_N (z mod Z.of_N (modulus t)).
Definition in_range (t : ity) (z : Z) : bool :=
  if signed t then ((- Z.of_N (half t) <=? z) && (z <? Z.of_N (half t)))%Z
  else ((0 <=? z) && (z <? Z.of_N (modulus t)))%Z.

(* a literal meeting the type t (closed computation in Z) *)
Definition lit_to (t : ity) (z : Z) : option N :=
  if ((- Z.of_N (half t) <=? z) && (z <? Z.of_N (modulus t)))%Z then Some (Z.to_N (z mod Z.of_N (modulus t))) else None.

Definition ovf (m : mode) (t : ity) (wrapped : N) : tree :=
  match m with Debug => Leaf (Panic POverflow) | Release => val (VInt t wrapped) end.

(* unsigned types: everything in N, in the shape the hand models use *)
Definition arith_u (m : mode) (t : ity) (o : binop) (a b : N) : tree :=
  match o with
  | BAdd => Br (a + b <? modulus t) (val (VInt t (a + b))) (ovf m t ((a + b) mod modulus t))
  | BSub => Br (b <=? a) (val (VInt t (a - b))) (ovf m t (a + modulus t - b))
  | BMul => Br (a * b <? modulus t) (val (VInt t (a * b))) (ovf m t ((a * b) mod modulus t))
  | BDiv => Br (b =? 0) (Leaf (Panic PDivZero)) (val (VInt t (a / b)))
  | BRem => Br (b =? 0) (Leaf (Panic PDivZero)) (val (VInt t (a mod b)))
  | _ => stuck
  end.

(* signed types: through the signed reading *)
Definition arith_s (m : mode) (t : ity) (o : binop) (a b : N) : tree :=
  let x := sem t a in let y := sem t b in
  match o with
  | BAdd => Br (in_range t (x + y)) (val (VInt t (rep t (x + y)))) (ovf m t (rep t (x + y)))
  | BSub => Br (in_range t (x - y)) (val (VInt t (rep t (x - y)))) (ovf m t (rep t (x - y)))
  | BMul => Br (in_range t (x * y)) (val (VInt t (rep t (x * y)))) (ovf m t (rep t (x * y)))
  | BDiv => Br (b =? 0) (Leaf (Panic PDivZero))
               (Br (in_range t (Z.quot x y)) (val (VInt t (rep t (Z.quot x y)))) (Leaf (Panic POverflow)))
  | BRem => Br (b =? 0) (Leaf (Panic PDivZero))
               (Br (in_range t (Z.quot x y)) (val (VInt t (rep t (Z.rem x y)))) (Leaf (Panic POverflow)))
  | _ => stuck
  end.

Definition lt_int (t : ity) (a b : N) : bool :=
  if signed t then (sem t a <? sem t b)%Z else a <? b.
Definition le_int (t : ity) (a b : N) : bool :=
  if signed t then (sem t a <=? sem t b)%Z else a <=? b.

Definition shr_int (t : ity) (a s : N) : N :=
  if signed t then rep t (Z.shiftr (sem t a) (Z.of_N s)) else N.shiftr a s.

Definition int_bin (m : mode) (t : ity) (o : binop) (a b : N) : tree :=
  match o with
  | BAdd | BSub | BMul | BDiv | BRem => if signed t then arith_s m t o a b else arith_u m t o a b
  | BAnd => val (VInt t (N.land a b))
  | BOr => val (VInt t (N.lor a b))
  | BXor => val (VInt t (N.lxor a b))
  | BEq => val (VBool (a =? b))
  | BNe => val (VBool (negb (a =? b)))
  | BLt => val (VBool (lt_int t a b))
  | BLe => val (VBool (le_int t a b))
  | BGt => val (VBool (lt_int t b a))
  | BGe => val (VBool (le_int t b a))
  | _ => stuck
  end.

(* x << s, x >> s : the amount may have any integer type *)
Definition shift (m : mode) (t : ity) (o : binop) (a s : N) : tree :=
  let go (k : N) := match o with
                    | BShl => val (VInt t (N.shiftl a k mod modulus t))
                    | BShr => val (VInt t (shr_int t a k))
                    | _ => stuck
                    end in
  Br (s <? width t) (go s)
     (match m with Debug => Leaf (Panic POverflow) | Release => go (s mod width t) end).

(* both operands are literals: exact integers, the type comes later (closed computation in Z) *)
Definition lit_bin (o : binop) (x y : Z) : tree :=
  match o with
  | BAdd => val (VLit (x + y)) | BSub => val (VLit (x - y)) | BMul => val (VLit (x * y))
  | BDiv => if (y =? 0)%Z then Leaf (Panic PDivZero) else val (VLit (Z.quot x y))
  | BRem => if (y =? 0)%Z then Leaf (Panic PDivZero) else val (VLit (Z.rem x y))
  | BAnd => val (VLit (Z.land x y)) | BOr => val (VLit (Z.lor x y)) | BXor => val (VLit (Z.lxor x y))
  | BShl => if (0 <=? y)%Z then val (VLit (Z.shiftl x y)) else stuck
  | BShr => if (0 <=? y)%Z then val (VLit (Z.shiftr x y)) else stuck
  | BEq => val (VBool (x =? y)%Z) | BNe => val (VBool (negb (x =? y)%Z))
  | BLt => val (VBool (x <? y)%Z) | BLe => val (VBool (x <=? y)%Z)
  | BGt => val (VBool (y <? x)%Z) | BGe => val (VBool (y <=? x)%Z)
  | _ => stuck
  end.

Definition is_shift (o : binop) : bool := match o with BShl | BShr => true | _ => false end.

Definition shift_amount (v : value) : option N :=
  match v with
  | VInt _ s => Some s
  | VLit z => if (0 <=? z)%Z then Some (Z.to_N z) else None
  | _ => None
  end.

Definition enum_eqb (a b : string) : bool := String.eqb a b.

(* strict binary operators (everything except && and ||) *)
Definition eval_bin (m : mode) (o : binop) (va vb : value) : tree :=
  if is_shift o then
    match va, shift_amount vb with
    | VInt t a, Some s => shift m t o a s
    | VLit x, Some s => lit_bin o x (Z.of_N s)
    | _, _ => stuck
    end
  else
    match va, vb with
    | VInt t a, VInt t' b => if ity_eqb t t' then int_bin m t o a b else stuck
    | VInt t a, VLit z => match lit_to t z with Some b => int_bin m t o a b | None => stuck end
    | VLit z, VInt t b => match lit_to t z with Some a => int_bin m t o a b | None => stuck end
    | VLit x, VLit y => lit_bin o x y
    | VBool a, VBool b =>
        match o with
        | BEq => val (VBool (Bool.eqb a b)) | BNe => val (VBool (negb (Bool.eqb a b)))
        | BAnd => val (VBool (a && b)) | BOr => val (VBool (a || b)) | BXor => val (VBool (xorb a b))
        | _ => stuck
        end
    | VEnum a, VEnum b =>
        match o with
        | BEq => val (VBool (enum_eqb a b)) | BNe => val (VBool (negb (enum_eqb a b)))
        | _ => stuck
        end
    | _, _ => stuck
    end.

Definition eval_un (m : mode) (o : unop) (v : value) : tree :=
  match o, v with
  | UNot, VInt t a => val (VInt t (N.lnot a (width t)))
  | UNot, VLit z => val (VLit (Z.lnot z))
  | UNot, VBool b => val (VBool (negb b))
  | UNeg, VLit z => val (VLit (- z))
  | UNeg, VInt t a =>
      if signed t then Br (a =? half t) (ovf m t a) (val (VInt t (rep t (- sem t a))))
      else stuck
  | _, _ => stuck
  end.

(* s is at most as wide as t (closed computation on the types) *)
Definition fits (s t : ity) : bool := match N.compare (modulus s) (modulus t) with Gt => false | _ => true end.

(* e as t *)
Definition cast (v : value) (t : ity) : tree :=
  match v with
  | VInt s n =>
      if signed s then val (VInt t (rep t (sem s n)))
      else if fits s t then val (VInt t n)
      else val (VInt t (n mod modulus t))
  | VLit z => val (VInt t (Z.to_N (z mod Z.of_N (modulus t))))
  | VBool b => val (VInt t (if b then 1 else 0))
  | _ => stuck
  end.

(* a value meeting a type annotation (let x: T = .., const X: T = ..) *)
Definition ascribe (t : ity) (v : value) : tree :=
  match v with
  | VInt s n => if ity_eqb s t then val v else stuck
  | VLit z => match lit_to t z with Some n => val (VInt t n) | None => stuck end
  | _ => stuck
  end.

Definition meth1_int (m : mode) (t : ity) (f : meth1) (a b : N) : tree :=
  if signed t then stuck      (* not needed for the translated functions *)
  else match f with
  | MWrappingAdd => val (VInt t ((a + b) mod modulus t))
  | MWrappingSub => val (VInt t (if b <=? a then a - b else a + modulus t - b))
  | MWrappingMul => val (VInt t ((a * b) mod modulus t))
  | MCheckedAdd => Br (a + b <? modulus t) (val (VSome (VInt t (a + b)))) (val VNone)
  | MCheckedSub => Br (b <=? a) (val (VSome (VInt t (a - b)))) (val VNone)
  | MCheckedMul => Br (a * b <? modulus t) (val (VSome (VInt t (a * b)))) (val VNone)
  | MSaturatingAdd => val (VInt t (N.min (a + b) (modulus t - 1)))
  | MSaturatingSub => val (VInt t (a - b))        (* N subtraction truncates at 0 *)
  | MMin => val (VInt t (N.min a b))
  | MMax => val (VInt t (N.max a b))
  end.

Definition eval_meth1 (m : mode) (f : meth1) (va vb : value) : tree :=
  match va, vb with
  | VInt t a, VInt t' b => if ity_eqb t t' then meth1_int m t f a b else stuck
  | VInt t a, VLit z => match lit_to t z with Some b => meth1_int m t f a b | None => stuck end
  | _, _ => stuck          (* a method call on a bare literal does not type-check in Rust either *)
  end.

Definition eval_meth0 (f : meth0) (v : value) : tree :=
  match f, v with
  | MIsSome, VSome _ => val (VBool true) | MIsSome, VNone => val (VBool false)
  | MIsNone, VSome _ => val (VBool false) | MIsNone, VNone => val (VBool true)
  | MIsOk, VOk _ => val (VBool true) | MIsOk, VErr _ => val (VBool false)
  | MIsErr, VOk _ => val (VBool false) | MIsErr, VErr _ => val (VBool true)
  | MUnwrap, VSome x => val x | MUnwrap, VOk x => val x
  | MUnwrap, VNone => Leaf (Panic PUnwrap) | MUnwrap, VErr _ => Leaf (Panic PUnwrap)
  | _, _ => stuck
  end.

(* ------------------------------------------------------------------ evaluation *)
Definition env := list (string * value).
Fixpoint lookup (x : string) (r : env) : option value :=
  match r with
  | [] => None
  | (y, v) :: r' => if String.eqb x y then Some v else lookup x r'
  end.

(* branch on a boolean VALUE without inspecting it *)
Definition on_bool (v : value) (a b : tree) : tree :=
  match v with VBool c => Br c a b | _ => stuck end.
Definition want_bool (v : value) : tree := match v with VBool _ => val v | _ => stuck end.

Fixpoint eval (m : mode) (r : env) (e : rexpr) {struct e} : tree :=
  match e with
  | EVar x => match lookup x r with Some v => val v | None => stuck end
  | ELit z => val (VLit z)
  | ELitT t z => match lit_to t z with Some n => val (VInt t n) | None => stuck end
  | EBool b => val (VBool b)
  | EUnit => val VUnit
  | EEnum p => val (VEnum p)
  | EConst _ t e1 => tbind (eval m r e1) (ascribe t)
  | EUn o e1 => tbind (eval m r e1) (eval_un m o)
  | EBin BLAnd a b =>
      tbind (eval m r a) (fun va => on_bool va (tbind (eval m r b) want_bool) (val (VBool false)))
  | EBin BLOr a b =>
      tbind (eval m r a) (fun va => on_bool va (val (VBool true)) (tbind (eval m r b) want_bool))
  | EBin o a b => tbind (eval m r a) (fun va => tbind (eval m r b) (fun vb => eval_bin m o va vb))
  | ECast e1 t => tbind (eval m r e1) (fun v => cast v t)
  | EIf c a b => tbind (eval m r c) (fun vc => on_bool vc (eval m r a) (eval m r b))
  | ELet x t e1 body =>
      tbind (eval m r e1) (fun v =>
        match t with
        | Some t' => tbind (ascribe t' v) (fun v' => eval m ((x, v') :: r) body)
        | None => eval m ((x, v) :: r) body
        end)
  | EAssert dbg c rest =>
      match dbg, m with
      | true, Release => eval m r rest
      | _, _ => tbind (eval m r c) (fun vc => on_bool vc (eval m r rest) (Leaf (Panic PAssert)))
      end
  | ERet e1 => tbind (eval m r e1) (fun v => Leaf (Ret v))
  | EScope e1 => scope (eval m r e1)
  | EMeth0 f e1 => tbind (eval m r e1) (eval_meth0 f)
  | EMeth1 f a b => tbind (eval m r a) (fun va => tbind (eval m r b) (fun vb => eval_meth1 m f va vb))
  | ESome e1 => tbind (eval m r e1) (fun v => val (VSome v))
  | ENone => val VNone
  | EOk e1 => tbind (eval m r e1) (fun v => val (VOk v))
  | EErr e1 => tbind (eval m r e1) (fun v => val (VErr v))
  | EOptMap e1 x body =>
      tbind (eval m r e1) (fun v => match v with
                                    | VSome w => tbind (eval m ((x, w) :: r) body) (fun u => val (VSome u))
                                    | VNone => val VNone
                                    | _ => stuck
                                    end)
  | EOkOr e1 err =>
      tbind (eval m r e1) (fun v => match v with
                                    | VSome w => val (VOk w)
                                    | VNone => tbind (eval m r err) (fun u => val (VErr u))
                                    | _ => stuck
                                    end)
  | ETry e1 =>
      tbind (eval m r e1) (fun v => match v with
                                    | VSome w => val w | VOk w => val w
                                    | VNone => Leaf (Ret VNone) | VErr u => Leaf (Ret (VErr u))
                                    | _ => stuck
                                    end)
  end.

(* arguments meet the declared parameter types (tags only; ranges are hypotheses of the theorems) *)
Definition arg_ok (p : pty) (v : value) : bool :=
  match p, v with
  | PInt t, VInt s _ => ity_eqb t s
  | PBool, VBool _ => true
  | PEnum, VEnum _ => true
  | _, _ => false
  end.

Fixpoint bind_args (ps : list (string * pty)) (args : list value) (acc : env) : option env :=
  match ps, args with
  | [], [] => Some acc
  | (x, p) :: ps', v :: args' => if arg_ok p v then bind_args ps' args' ((x, v) :: acc) else None
  | _, _ => None
  end.

(* the function's result: literals still untyped get the declared result type *)
Fixpoint fix_ret (rt : option ity) (v : value) : option value :=
  match v with
  | VLit z => match rt with Some t => option_map (VInt t) (lit_to t z) | None => None end
  | VOk w => option_map VOk (fix_ret rt w)
  | VSome w => option_map VSome (fix_ret rt w)
  | _ => Some v
  end.
Fixpoint finish (rt : option ity) (t : tree) : tree :=
  match t with
  | Leaf (Val v) | Leaf (Ret v) => match fix_ret rt v with Some v' => Leaf (Val v') | None => stuck end
  | Leaf o => Leaf o
  | Br c a b => Br c (finish rt a) (finish rt b)
  end.

Definition eval_tree (m : mode) (f : rfun) (args : list value) : tree :=
  match bind_args (params f) args [] with
  | Some r => finish (ret f) (eval m r (body f))
  | None => stuck
  end.
Definition eval_fn (m : mode) (f : rfun) (args : list value) : outcome := interp (eval_tree m f args).

(* ------------------------------------------------------------------ sanity lemmas *)
Lemma modulus_pow : forall t, modulus t = 2 ^ width t.
Proof. destruct t; reflexivity. Qed.
Lemma half_pow : forall t, half t = 2 ^ (width t - 1).
Proof. destruct t; reflexivity. Qed.
Lemma modulus_pos : forall t, 0 < modulus t.
Proof. destruct t; reflexivity. Qed.

Lemma interp_tbind : forall t k,
  interp (tbind t k) = match interp t with Val v => interp (k v) | o => o end.
Proof.
  induction t as [o | c a IHa b IHb]; intros k; cbn [tbind interp].
  - destruct o; reflexivity.
  - destruct c; auto.
Qed.

Lemma eval_lit : forall m r z, interp (eval m r (ELit z)) = Val (VLit z).
Proof. reflexivity. Qed.

Lemma eval_litT_u8 : forall m r, interp (eval m r (ELitT U8 255)) = Val (VInt U8 255).
Proof. reflexivity. Qed.

(* `x as u8` keeps the low byte of an unsigned value *)
Lemma eval_cast_u8 : forall m r x n,
  lookup x r = Some (VInt U64 n) -> interp (eval m r (ECast (EVar x) U8)) = Val (VInt U8 (n mod 256)).
Proof. intros m r x n H. cbn [eval]. rewrite H. reflexivity. Qed.

(* `x as u64` of an i32 sign-extends *)
Lemma eval_cast_sext : forall m,
  interp (eval m [("x"%string, VInt I32 4294967295)] (ECast (EVar "x") U64)) = Val (VInt U64 18446744073709551615).
Proof. intros m. vm_compute. reflexivity. Qed.

(* unsigned + : in range, or a panic (Debug) / the wrapped value (Release), which is again in range *)
Lemma arith_u_add_debug : forall t a b,
  interp (arith_u Debug t BAdd a b) = if a + b <? modulus t then Val (VInt t (a + b)) else Panic POverflow.
Proof. reflexivity. Qed.
Lemma arith_u_add_release_in_range : forall t a b n,
  interp (arith_u Release t BAdd a b) = Val (VInt t n) -> n < modulus t.
Proof.
  intros t a b n. cbn [arith_u ovf interp val]. destruct (a + b <? modulus t) eqn:E; intros H; inversion H; subst.
  - apply N.ltb_lt; exact E.
  - apply N.mod_lt. pose proof (modulus_pos t). lia.
Qed.

(* short-circuit: the right operand of && is not evaluated when the left is false *)
Lemma eval_land_short : forall m r b,
  interp (eval m r (EBin BLAnd (EBool false) b)) = Val (VBool false).
Proof. reflexivity. Qed.

(* `1 << 55` as a u64 constant *)
Lemma eval_const_shift : forall m r,
  interp (eval m r (EConst "X" U64 (EBin BShl (ELit 1) (ELit 55)))) = Val (VInt U64 36028797018963968).
Proof. intros. vm_compute. reflexivity. Qed.

(* `!7` meeting usize *)
Lemma eval_not7 : forall m n,
  interp (eval m [("l"%string, VInt Usize n)] (EBin BAnd (EVar "l") (EUn UNot (ELit 7)))) = Val (VInt Usize (N.land n 18446744073709551608)).
Proof. intros. reflexivity. Qed.

(* debug-mode subtraction below zero panics, release wraps *)
Lemma eval_sub_underflow :
  interp (eval Debug [] (EBin BSub (ELitT U32 1) (ELitT U32 2))) = Panic POverflow /\
  interp (eval Release [] (EBin BSub (ELitT U32 1) (ELitT U32 2))) = Val (VInt U32 4294967295).
Proof. split; vm_compute; reflexivity. Qed.
