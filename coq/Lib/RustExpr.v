(* Lib/RustExpr.v -- a small deep embedding of the pure integer fragment of Rust.

   translator/rust_pure.py re-reads /repo/src on every run and emits, for each listed function, a term of type
   [rfun] (coq/Gen/RustPure.v).  Proofs/RustPure*.v prove, for ALL arguments in range, that evaluating that term
   gives what the hand-written models compute, so the models' arithmetic is a theorem about the source text.

   Machine semantics (what rustc generates on x86_64-linux):
   * an integer value is a bit pattern [n < 2^w] tagged with its type; usize = 64 bits; signed types are two's
     complement ([sem] gives the signed reading);
   * [+ - *] whose mathematical result is out of the type's range: [Panic POverflow] in [Debug] mode (a debug
     build, overflow-checks on), wrap-around in [Release] mode;
   * [<<]/[>>] with an amount >= the width: [Panic POverflow] in Debug, amount masked in Release; bits shifted
     out are lost silently in both;
   * [/ %] by zero: [Panic PDivZero] in both modes; signed MIN / -1: [Panic POverflow] in both modes;
   * [e as T] truncates to the low bits (sign-extending a signed source first), never panics;
   * [&&] and [||] are short-circuit (the right operand is not evaluated, so cannot panic, when the left decides);
   * [assert!] fails with [Panic PAssert] in both modes, [debug_assert!] only in Debug;
   * an integer literal without suffix is a value [VLit z] whose type is fixed by the first typed context it meets
     (the other operand, a [let]/[const] annotation, a cast); it must fit that type ([Stuck] otherwise, rustc
     rejects such a program);
   * [return e] / [e?] leave the function: outcome [Ret v], turned into the function's value by [eval_fn] and by
     [EScope] (the boundary of an inlined callee);
   * [Stuck] = ill-typed or outside the fragment (unbound variable, operands of different types, ...): rustc
     would have rejected the text or the translator produced nonsense; theorems show it does not happen. *)
From Coq Require Import List NArith ZArith String Bool Lia.
Import ListNotations.
Local Open Scope N_scope.

(* ------------------------------------------------------------------ types and values *)
Inductive ity := U8 | U16 | U32 | U64 | Usize | I32 | I64.

Definition width (t : ity) : N :=
  match t with U8 => 8 | U16 => 16 | U32 | I32 => 32 | U64 | Usize | I64 => 64 end.
Definition signed (t : ity) : bool := match t with I32 | I64 => true | _ => false end.
Definition modulus (t : ity) : N :=
  match t with U8 => 256 | U16 => 65536 | U32 | I32 => 4294967296 | U64 | Usize | I64 => 18446744073709551616 end.
Definition half (t : ity) : N :=
  match t with U8 => 128 | U16 => 32768 | U32 | I32 => 2147483648 | U64 | Usize | I64 => 9223372036854775808 end.
Definition ity_eqb (a b : ity) : bool :=
  match a, b with
  | U8, U8 | U16, U16 | U32, U32 | U64, U64 | Usize, Usize | I32, I32 | I64, I64 => true
  | _, _ => false
  end.

Inductive value :=
| VInt (t : ity) (n : N)          (* bit pattern, n < modulus t *)
| VLit (z : Z)                    (* integer literal whose type is not fixed yet *)
| VBool (b : bool)
| VUnit
| VEnum (path : string)           (* a field-less enum variant or an opaque constructor, e.g. "Opcode::Write" *)
| VNone | VSome (v : value)
| VOk (v : value) | VErr (v : value).

Inductive panic := POverflow | PDivZero | PAssert | PUnwrap.
Inductive outcome := Val (v : value) | Ret (v : value) | Panic (p : panic) | Stuck.
Inductive mode := Debug | Release.

(* ------------------------------------------------------------------ syntax *)
Inductive unop := UNot | UNeg.
Inductive binop := BAdd | BSub | BMul | BDiv | BRem | BAnd | BOr | BXor | BShl | BShr
                 | BEq | BNe | BLt | BLe | BGt | BGe | BLAnd | BLOr.
Inductive meth0 := MIsSome | MIsNone | MIsOk | MIsErr | MUnwrap.
Inductive meth1 := MWrappingAdd | MWrappingSub | MWrappingMul | MCheckedAdd | MCheckedSub | MCheckedMul
                 | MSaturatingAdd | MSaturatingSub | MMin | MMax.

Inductive rexpr :=
| EVar (x : string)
| ELit (z : Z)                                   (* 7, 0xff *)
| ELitT (t : ity) (z : Z)                        (* 7u64, u32::MAX *)
| EBool (b : bool)
| EUnit
| EEnum (path : string)
| EConst (name : string) (t : ity) (e : rexpr)   (* a named constant, its declared type, its defining expression *)
| EUn (o : unop) (e : rexpr)
| EBin (o : binop) (a b : rexpr)
| ECast (e : rexpr) (t : ity)
| EIf (c a b : rexpr)
| ELet (x : string) (t : option ity) (e body : rexpr)
| EAssert (debug_only : bool) (c rest : rexpr)
| ERet (e : rexpr)                               (* return e *)
| EScope (e : rexpr)                             (* body of an inlined callee: its [return] stops here *)
| EMeth0 (m : meth0) (e : rexpr)
| EMeth1 (m : meth1) (a b : rexpr)
| ESome (e : rexpr) | ENone | EOk (e : rexpr) | EErr (e : rexpr)
| EOptMap (e : rexpr) (x : string) (body : rexpr)   (* e.map(|x| body) on an Option *)
| EOkOr (e err : rexpr)                          (* e.ok_or(err), e.ok_or_else(|| err) *)
| ETry (e : rexpr).                              (* e? *)

Inductive pty := PInt (t : ity) | PBool | PEnum.
Record rfun := { params : list (string * pty); body : rexpr }.

(* ------------------------------------------------------------------ machine arithmetic *)
Definition sem (t : ity) (n : N) : Z :=
  if signed t && (half t <=? n) then (Z.of_N n - Z.of_N (modulus t))%Z else Z.of_N n.
Definition rep (t : ity) (z : Z) : N := Z.to_N (z mod Z.of_N (modulus t)).
Definition in_range (t : ity) (z : Z) : bool :=
  if signed t then ((- Z.of_N (half t) <=? z) && (z <? Z.of_N (half t)))%Z
  else ((0 <=? z) && (z <? Z.of_N (modulus t)))%Z.

(* a literal meeting the type t *)
Definition lit_to (t : ity) (z : Z) : option N :=
  if ((- Z.of_N (half t) <=? z) && (z <? Z.of_N (modulus t)))%Z then Some (rep t z) else None.

Definition ovf (m : mode) (t : ity) (wrapped : N) : outcome :=
  match m with Debug => Panic POverflow | Release => Val (VInt t wrapped) end.

(* unsigned types: everything in N, in the shape the hand models use *)
Definition arith_u (m : mode) (t : ity) (o : binop) (a b : N) : outcome :=
  match o with
  | BAdd => if a + b <? modulus t then Val (VInt t (a + b)) else ovf m t ((a + b) mod modulus t)
  | BSub => if b <=? a then Val (VInt t (a - b)) else ovf m t (a + modulus t - b)
  | BMul => if a * b <? modulus t then Val (VInt t (a * b)) else ovf m t ((a * b) mod modulus t)
  | BDiv => if b =? 0 then Panic PDivZero else Val (VInt t (a / b))
  | BRem => if b =? 0 then Panic PDivZero else Val (VInt t (a mod b))
  | _ => Stuck
  end.

(* signed types: through the signed reading *)
Definition arith_s (m : mode) (t : ity) (o : binop) (a b : N) : outcome :=
  let x := sem t a in let y := sem t b in
  match o with
  | BAdd => if in_range t (x + y) then Val (VInt t (rep t (x + y))) else ovf m t (rep t (x + y))
  | BSub => if in_range t (x - y) then Val (VInt t (rep t (x - y))) else ovf m t (rep t (x - y))
  | BMul => if in_range t (x * y) then Val (VInt t (rep t (x * y))) else ovf m t (rep t (x * y))
  | BDiv => if b =? 0 then Panic PDivZero
            else if in_range t (Z.quot x y) then Val (VInt t (rep t (Z.quot x y))) else Panic POverflow
  | BRem => if b =? 0 then Panic PDivZero
            else if in_range t (Z.quot x y) then Val (VInt t (rep t (Z.rem x y))) else Panic POverflow
  | _ => Stuck
  end.

Definition lt_int (t : ity) (a b : N) : bool :=
  if signed t then (sem t a <? sem t b)%Z else a <? b.
Definition le_int (t : ity) (a b : N) : bool :=
  if signed t then (sem t a <=? sem t b)%Z else a <=? b.

Definition shr_int (t : ity) (a s : N) : N :=
  if signed t then rep t (Z.shiftr (sem t a) (Z.of_N s)) else N.shiftr a s.

Definition int_bin (m : mode) (t : ity) (o : binop) (a b : N) : outcome :=
  match o with
  | BAdd | BSub | BMul | BDiv | BRem => if signed t then arith_s m t o a b else arith_u m t o a b
  | BAnd => Val (VInt t (N.land a b))
  | BOr => Val (VInt t (N.lor a b))
  | BXor => Val (VInt t (N.lxor a b))
  | BEq => Val (VBool (a =? b))
  | BNe => Val (VBool (negb (a =? b)))
  | BLt => Val (VBool (lt_int t a b))
  | BLe => Val (VBool (le_int t a b))
  | BGt => Val (VBool (lt_int t b a))
  | BGe => Val (VBool (le_int t b a))
  | _ => Stuck
  end.

(* x << s, x >> s : the amount may have any integer type *)
Definition shift (m : mode) (t : ity) (o : binop) (a s : N) : outcome :=
  let go (k : N) := match o with
                    | BShl => Val (VInt t (N.shiftl a k mod modulus t))
                    | BShr => Val (VInt t (shr_int t a k))
                    | _ => Stuck
                    end in
  if s <? width t then go s
  else match m with Debug => Panic POverflow | Release => go (s mod width t) end.

(* both operands are literals: exact integers, the type comes later *)
Definition lit_bin (o : binop) (x y : Z) : outcome :=
  match o with
  | BAdd => Val (VLit (x + y)) | BSub => Val (VLit (x - y)) | BMul => Val (VLit (x * y))
  | BDiv => if (y =? 0)%Z then Panic PDivZero else Val (VLit (Z.quot x y))
  | BRem => if (y =? 0)%Z then Panic PDivZero else Val (VLit (Z.rem x y))
  | BAnd => Val (VLit (Z.land x y)) | BOr => Val (VLit (Z.lor x y)) | BXor => Val (VLit (Z.lxor x y))
  | BShl => if (0 <=? y)%Z then Val (VLit (Z.shiftl x y)) else Stuck
  | BShr => if (0 <=? y)%Z then Val (VLit (Z.shiftr x y)) else Stuck
  | BEq => Val (VBool (x =? y)%Z) | BNe => Val (VBool (negb (x =? y)%Z))
  | BLt => Val (VBool (x <? y)%Z) | BLe => Val (VBool (x <=? y)%Z)
  | BGt => Val (VBool (y <? x)%Z) | BGe => Val (VBool (y <=? x)%Z)
  | _ => Stuck
  end.

Definition is_shift (o : binop) : bool := match o with BShl | BShr => true | _ => false end.

Definition shift_amount (v : value) : option N :=
  match v with
  | VInt _ s => Some s
  | VLit z => if (0 <=? z)%Z then Some (Z.to_N z) else None
  | _ => None
  end.

(* strict binary operators (everything except && and ||) *)
Definition eval_bin (m : mode) (o : binop) (va vb : value) : outcome :=
  if is_shift o then
    match va, shift_amount vb with
    | VInt t a, Some s => shift m t o a s
    | VLit x, Some s => lit_bin o x (Z.of_N s)
    | _, _ => Stuck
    end
  else
    match va, vb with
    | VInt t a, VInt t' b => if ity_eqb t t' then int_bin m t o a b else Stuck
    | VInt t a, VLit z => match lit_to t z with Some b => int_bin m t o a b | None => Stuck end
    | VLit z, VInt t b => match lit_to t z with Some a => int_bin m t o a b | None => Stuck end
    | VLit x, VLit y => lit_bin o x y
    | VBool a, VBool b =>
        match o with
        | BEq => Val (VBool (Bool.eqb a b)) | BNe => Val (VBool (negb (Bool.eqb a b)))
        | BAnd => Val (VBool (a && b)) | BOr => Val (VBool (a || b)) | BXor => Val (VBool (xorb a b))
        | _ => Stuck
        end
    | VEnum a, VEnum b =>
        match o with
        | BEq => Val (VBool (String.eqb a b)) | BNe => Val (VBool (negb (String.eqb a b)))
        | _ => Stuck
        end
    | _, _ => Stuck
    end.

Definition eval_un (m : mode) (o : unop) (v : value) : outcome :=
  match o, v with
  | UNot, VInt t a => Val (VInt t (N.lnot a (width t)))
  | UNot, VLit z => Val (VLit (Z.lnot z))
  | UNot, VBool b => Val (VBool (negb b))
  | UNeg, VLit z => Val (VLit (- z))
  | UNeg, VInt t a =>
      if signed t then
        (if a =? half t then ovf m t a else Val (VInt t (rep t (- sem t a))))
      else Stuck
  | _, _ => Stuck
  end.

(* e as t *)
Definition cast (v : value) (t : ity) : outcome :=
  match v with
  | VInt s n =>
      if signed s then Val (VInt t (rep t (sem s n)))
      else if modulus s <=? modulus t then Val (VInt t n)
      else Val (VInt t (n mod modulus t))
  | VLit z => Val (VInt t (rep t z))
  | VBool b => Val (VInt t (if b then 1 else 0))
  | _ => Stuck
  end.

(* a value meeting a type annotation (let x: T = .., const X: T = ..) *)
Definition ascribe (t : ity) (v : value) : outcome :=
  match v with
  | VInt s n => if ity_eqb s t then Val v else Stuck
  | VLit z => match lit_to t z with Some n => Val (VInt t n) | None => Stuck end
  | _ => Stuck
  end.

Definition meth1_int (m : mode) (t : ity) (f : meth1) (a b : N) : outcome :=
  if signed t then Stuck      (* not needed for the translated functions *)
  else match f with
  | MWrappingAdd => Val (VInt t ((a + b) mod modulus t))
  | MWrappingSub => Val (VInt t (if b <=? a then a - b else a + modulus t - b))
  | MWrappingMul => Val (VInt t ((a * b) mod modulus t))
  | MCheckedAdd => Val (if a + b <? modulus t then VSome (VInt t (a + b)) else VNone)
  | MCheckedSub => Val (if b <=? a then VSome (VInt t (a - b)) else VNone)
  | MCheckedMul => Val (if a * b <? modulus t then VSome (VInt t (a * b)) else VNone)
  | MSaturatingAdd => Val (VInt t (if a + b <? modulus t then a + b else modulus t - 1))
  | MSaturatingSub => Val (VInt t (a - b))        (* N subtraction truncates at 0 *)
  | MMin => Val (VInt t (N.min a b))
  | MMax => Val (VInt t (N.max a b))
  end.

Definition eval_meth1 (m : mode) (f : meth1) (va vb : value) : outcome :=
  match va, vb with
  | VInt t a, VInt t' b => if ity_eqb t t' then meth1_int m t f a b else Stuck
  | VInt t a, VLit z => match lit_to t z with Some b => meth1_int m t f a b | None => Stuck end
  | _, _ => Stuck          (* a method call on a bare literal does not type-check in Rust either *)
  end.

Definition eval_meth0 (f : meth0) (v : value) : outcome :=
  match f, v with
  | MIsSome, VSome _ => Val (VBool true) | MIsSome, VNone => Val (VBool false)
  | MIsNone, VSome _ => Val (VBool false) | MIsNone, VNone => Val (VBool true)
  | MIsOk, VOk _ => Val (VBool true) | MIsOk, VErr _ => Val (VBool false)
  | MIsErr, VOk _ => Val (VBool false) | MIsErr, VErr _ => Val (VBool true)
  | MUnwrap, VSome x => Val x | MUnwrap, VOk x => Val x
  | MUnwrap, VNone => Panic PUnwrap | MUnwrap, VErr _ => Panic PUnwrap
  | _, _ => Stuck
  end.

(* ------------------------------------------------------------------ evaluation *)
Definition env := list (string * value).
Fixpoint lookup (x : string) (r : env) : option value :=
  match r with
  | [] => None
  | (y, v) :: r' => if String.eqb x y then Some v else lookup x r'
  end.

Definition bind (o : outcome) (k : value -> outcome) : outcome :=
  match o with Val v => k v | other => other end.

Fixpoint eval (m : mode) (r : env) (e : rexpr) {struct e} : outcome :=
  match e with
  | EVar x => match lookup x r with Some v => Val v | None => Stuck end
  | ELit z => Val (VLit z)
  | ELitT t z => match lit_to t z with Some n => Val (VInt t n) | None => Stuck end
  | EBool b => Val (VBool b)
  | EUnit => Val VUnit
  | EEnum p => Val (VEnum p)
  | EConst _ t e1 => bind (eval m r e1) (ascribe t)
  | EUn o e1 => bind (eval m r e1) (eval_un m o)
  | EBin BLAnd a b =>
      bind (eval m r a) (fun va => match va with
                                   | VBool true => bind (eval m r b) (fun vb => match vb with VBool _ => Val vb | _ => Stuck end)
                                   | VBool false => Val (VBool false)
                                   | _ => Stuck
                                   end)
  | EBin BLOr a b =>
      bind (eval m r a) (fun va => match va with
                                   | VBool true => Val (VBool true)
                                   | VBool false => bind (eval m r b) (fun vb => match vb with VBool _ => Val vb | _ => Stuck end)
                                   | _ => Stuck
                                   end)
  | EBin o a b => bind (eval m r a) (fun va => bind (eval m r b) (fun vb => eval_bin m o va vb))
  | ECast e1 t => bind (eval m r e1) (fun v => cast v t)
  | EIf c a b =>
      bind (eval m r c) (fun vc => match vc with
                                   | VBool true => eval m r a
                                   | VBool false => eval m r b
                                   | _ => Stuck
                                   end)
  | ELet x t e1 body =>
      bind (eval m r e1) (fun v =>
        match t with
        | Some t' => bind (ascribe t' v) (fun v' => eval m ((x, v') :: r) body)
        | None => eval m ((x, v) :: r) body
        end)
  | EAssert dbg c rest =>
      match dbg, m with
      | true, Release => eval m r rest
      | _, _ => bind (eval m r c) (fun vc => match vc with
                                             | VBool true => eval m r rest
                                             | VBool false => Panic PAssert
                                             | _ => Stuck
                                             end)
      end
  | ERet e1 => bind (eval m r e1) (fun v => Ret v)
  | EScope e1 => match eval m r e1 with Ret v => Val v | other => other end
  | EMeth0 f e1 => bind (eval m r e1) (eval_meth0 f)
  | EMeth1 f a b => bind (eval m r a) (fun va => bind (eval m r b) (fun vb => eval_meth1 m f va vb))
  | ESome e1 => bind (eval m r e1) (fun v => Val (VSome v))
  | ENone => Val VNone
  | EOk e1 => bind (eval m r e1) (fun v => Val (VOk v))
  | EErr e1 => bind (eval m r e1) (fun v => Val (VErr v))
  | EOptMap e1 x body =>
      bind (eval m r e1) (fun v => match v with
                                   | VSome w => bind (eval m ((x, w) :: r) body) (fun u => Val (VSome u))
                                   | VNone => Val VNone
                                   | _ => Stuck
                                   end)
  | EOkOr e1 err =>
      bind (eval m r e1) (fun v => match v with
                                   | VSome w => Val (VOk w)
                                   | VNone => bind (eval m r err) (fun u => Val (VErr u))
                                   | _ => Stuck
                                   end)
  | ETry e1 =>
      bind (eval m r e1) (fun v => match v with
                                   | VSome w => Val w | VOk w => Val w
                                   | VNone => Ret VNone | VErr u => Ret (VErr u)
                                   | _ => Stuck
                                   end)
  end.

(* arguments meet the declared parameter types (tags only; ranges are hypotheses of the theorems) *)
Definition arg_ok (p : pty) (v : value) : bool :=
  match p, v with
  | PInt t, VInt s _ => ity_eqb t s
  | PBool, VBool _ => true
  | PEnum, VEnum _ => true
  | _, _ => false
  end.

Fixpoint bind_args (ps : list (string * pty)) (args : list value) (acc : env) : option env :=
  match ps, args with
  | [], [] => Some acc
  | (x, p) :: ps', v :: args' => if arg_ok p v then bind_args ps' args' ((x, v) :: acc) else None
  | _, _ => None
  end.

Definition eval_fn (m : mode) (f : rfun) (args : list value) : outcome :=
  match bind_args (params f) args [] with
  | Some r => match eval m r (body f) with Ret v => Val v | other => other end
  | None => Stuck
  end.

(* ------------------------------------------------------------------ sanity lemmas *)
Lemma modulus_pow : forall t, modulus t = 2 ^ width t.
Proof. destruct t; reflexivity. Qed.
Lemma half_pow : forall t, half t = 2 ^ (width t - 1).
Proof. destruct t; reflexivity. Qed.
Lemma modulus_pos : forall t, 0 < modulus t.
Proof. destruct t; reflexivity. Qed.

Lemma eval_lit : forall m r z, eval m r (ELit z) = Val (VLit z).
Proof. reflexivity. Qed.

Lemma eval_litT_u8 : forall m r, eval m r (ELitT U8 255) = Val (VInt U8 255).
Proof. reflexivity. Qed.

(* `x as u8` keeps the low byte of an unsigned value *)
Lemma eval_cast_u8 : forall m r x n,
  lookup x r = Some (VInt U64 n) -> eval m r (ECast (EVar x) U8) = Val (VInt U8 (n mod 256)).
Proof. intros m r x n H. cbn [eval]. rewrite H. reflexivity. Qed.

(* `x as u64` of an i32 sign-extends *)
Lemma eval_cast_sext : forall m, eval m [("x"%string, VInt I32 4294967295)] (ECast (EVar "x") U64) = Val (VInt U64 18446744073709551615).
Proof. intros m. vm_compute. reflexivity. Qed.

(* the result of an unsigned + is in range or the evaluation does not produce a value (Debug) *)
Lemma arith_u_add_debug : forall t a b,
  arith_u Debug t BAdd a b = if a + b <? modulus t then Val (VInt t (a + b)) else Panic POverflow.
Proof. reflexivity. Qed.
Lemma arith_u_add_release_in_range : forall t a b n,
  arith_u Release t BAdd a b = Val (VInt t n) -> n < modulus t.
Proof.
  intros t a b n. cbn [arith_u ovf]. destruct (a + b <? modulus t) eqn:E; intros H; inversion H; subst.
  - apply N.ltb_lt; exact E.
  - apply N.mod_lt. pose proof (modulus_pos t). lia.
Qed.

(* short-circuit: the right operand of && is not evaluated when the left is false *)
Lemma eval_land_short : forall m r b,
  eval m r (EBin BLAnd (EBool false) b) = Val (VBool false).
Proof. reflexivity. Qed.

(* `1 << 55` as a u64 constant *)
Lemma eval_const_shift : forall m r,
  eval m r (EConst "X" U64 (EBin BShl (ELit 1) (ELit 55))) = Val (VInt U64 36028797018963968).
Proof. intros. vm_compute. reflexivity. Qed.

(* `!7` meeting usize *)
Lemma eval_not7 : forall m n, n < modulus Usize ->
  eval m [("l"%string, VInt Usize n)] (EBin BAnd (EVar "l") (EUn UNot (ELit 7))) = Val (VInt Usize (N.land n 18446744073709551608)).
Proof. intros. reflexivity. Qed.

(* debug-mode subtraction below zero panics, release wraps *)
Lemma eval_sub_underflow :
  eval Debug [] (EBin BSub (ELitT U32 1) (ELitT U32 2)) = Panic POverflow /\
  eval Release [] (EBin BSub (ELitT U32 1) (ELitT U32 2)) = Val (VInt U32 4294967295).
Proof. split; vm_compute; reflexivity. Qed.
