(* repr(C) / C struct layout as an executable function, shared by the
   Rust-side tables (Gen/RustABI.v) and the kernel-side tables (Spec/KernelABI.v). *)
From Coq Require Import List String NArith Bool Lia.
Import ListNotations.
Local Open Scope string_scope.
Local Open Scope list_scope.
Local Open Scope N_scope.
Definition sapp := String.append.

Inductive ty :=
| TInt (w : N) (signed : bool)        (* w bytes *)
| TArr (t : ty) (n : N)
| TNamed (s : string).

Definition field := (string * ty)%type.
Definition sdef := (string * list field)%type.
Definition env := list sdef.

Fixpoint lookup {A} (k : string) (l : list (string * A)) : option A :=
  match l with
  | [] => None
  | (k', v) :: r => if String.eqb k k' then Some v else lookup k r
  end.

Definition round_up (x a : N) : N := if a =? 0 then x else ((x + a - 1) / a) * a.

(* a leaf of the flattened layout: path, offset, width, signedness *)
Record leaf := { l_path : string; l_off : N; l_width : N; l_signed : bool }.

Definition leaf_eqb (a b : leaf) : bool :=
  String.eqb (l_path a) (l_path b) && (l_off a =? l_off b) && (l_width a =? l_width b)
  && Bool.eqb (l_signed a) (l_signed b).

Fixpoint N_to_string_aux (fuel : nat) (n : N) (acc : string) : string :=
  match fuel with
  | O => acc
  | S f =>
    let d := String (Ascii.ascii_of_N (48 + n mod 10)) acc in
    if n / 10 =? 0 then d else N_to_string_aux f (n / 10) d
  end.
Definition N_to_string (n : N) : string := N_to_string_aux 40 n "".

Section WithEnv.
  Variable e : env.

  (* (size, align) *)
  Fixpoint size_align (fuel : nat) (t : ty) : option (N * N) :=
    match fuel with
    | O => None
    | S fuel' =>
      match t with
      | TInt w _ => Some (w, w)
      | TArr t' n => match size_align fuel' t' with
                     | Some (s, a) => Some (s * n, a) | None => None end
      | TNamed s =>
        match lookup s e with
        | None => None
        | Some fs =>
          (fix go (fs : list field) (off al : N) : option (N * N) :=
             match fs with
             | [] => Some (round_up off al, al)
             | (_, ft) :: r =>
               match size_align fuel' ft with
               | None => None
               | Some (s, a) => go r (round_up off a + s) (N.max al a)
               end
             end) fs 0 1
        end
      end
    end.

  Fixpoint seqN (start : N) (n : nat) : list N :=
    match n with O => [] | S n' => start :: seqN (start + 1) n' end.

  Fixpoint flatten (fuel : nat) (prefix : string) (base : N) (t : ty) : option (list leaf) :=
    match fuel with
    | O => None
    | S fuel' =>
      match t with
      | TInt w sg => Some [{| l_path := prefix; l_off := base; l_width := w; l_signed := sg |}]
      | TArr t' n =>
        match size_align fuel' t' with
        | None => None
        | Some (s, _) =>
          (fix go (idx : list N) : option (list leaf) :=
             match idx with
             | [] => Some []
             | i :: r =>
               match flatten fuel' (sapp prefix (sapp "[" (sapp (N_to_string i) "]"))) (base + i * s) t', go r with
               | Some a, Some b => Some (a ++ b)
               | _, _ => None
               end
             end) (seqN 0 (N.to_nat n))
        end
      | TNamed s =>
        match lookup s e with
        | None => None
        | Some fs =>
          (fix go (fs : list field) (off : N) : option (list leaf) :=
             match fs with
             | [] => Some []
             | (fname, ft) :: r =>
               match size_align fuel' ft with
               | None => None
               | Some (s, a) =>
                 let o := round_up off a in
                 let p := if String.eqb prefix "" then fname else sapp prefix (sapp "." fname) in
                 match flatten fuel' p (base + o) ft, go r (o + s) with
                 | Some x, Some y => Some (x ++ y)
                 | _, _ => None
                 end
               end
             end) fs 0
        end
      end
    end.

  Definition struct_size (s : string) : option N :=
    match size_align 16 (TNamed s) with Some (sz, _) => Some sz | None => None end.
  Definition struct_leaves (s : string) : option (list leaf) := flatten 16 "" 0 (TNamed s).
End WithEnv.

Fixpoint leaves_eqb (a b : list leaf) : bool :=
  match a, b with
  | [], [] => true
  | x :: a', y :: b' => leaf_eqb x y && leaves_eqb a' b'
  | _, _ => false
  end.

Lemma leaf_eqb_eq a b : leaf_eqb a b = true -> a = b.
Proof.
  destruct a as [p o w s], b as [p' o' w' s']; unfold leaf_eqb; cbn.
  intro H.
  apply andb_prop in H; destruct H as [H Hs].
  apply andb_prop in H; destruct H as [H Hw].
  apply andb_prop in H; destruct H as [Hp Ho].
  apply String.eqb_eq in Hp. apply N.eqb_eq in Ho, Hw. apply Bool.eqb_prop in Hs.
  subst; reflexivity.
Qed.

Lemma leaves_eqb_eq a b : leaves_eqb a b = true -> a = b.
Proof.
  revert b; induction a as [|x a IH]; destruct b as [|y b]; cbn; try discriminate; auto.
  intro H. apply andb_prop in H; destruct H as [H1 H2].
  apply leaf_eqb_eq in H1. apply IH in H2. subst; reflexivity.
Qed.
