(* Little-endian byte codecs over N.  Stdlib only. *)
From Coq Require Import List Arith NArith Lia.
Import ListNotations.
Local Open Scope N_scope.

Definition byte := N.

(* [enc w n]: the [w] low-order bytes of [n], least significant first
   (Rust: (n as uW).to_le_bytes()). *)
Fixpoint enc (w : nat) (n : N) : list N :=
  match w with
  | O => []
  | S w' => (n mod 256) :: enc w' (n / 256)
  end.

(* [dec l]: little-endian value of a byte list. *)
Fixpoint dec (l : list N) : N :=
  match l with
  | [] => 0
  | b :: r => b + 256 * dec r
  end.

Definition bytes_ok (l : list N) : Prop := Forall (fun b => b < 256) l.
Definition bytes_okb (l : list N) : bool := forallb (fun b => b <? 256) l.

Lemma enc_length w n : length (enc w n) = w.
Proof. revert n; induction w as [|w IH]; intro n; cbn [enc length]; [reflexivity| now rewrite IH]. Qed.

Lemma pow256_S w : 2 ^ (8 * N.of_nat (S w)) = 256 * 2 ^ (8 * N.of_nat w).
Proof.
  replace (8 * N.of_nat (S w)) with (8 + 8 * N.of_nat w) by lia.
  rewrite N.pow_add_r. reflexivity.
Qed.

Lemma dec_enc w n : dec (enc w n) = n mod 2 ^ (8 * N.of_nat w).
Proof.
  revert n; induction w as [|w IH]; intro n.
  - cbn [enc dec]. change (8 * N.of_nat 0) with 0. rewrite N.pow_0_r, N.mod_1_r. reflexivity.
  - cbn [enc dec]. rewrite IH, pow256_S.
    rewrite N.mod_mul_r by (try apply N.pow_nonzero; lia). lia.
Qed.

Lemma enc_bytes_ok w n : bytes_ok (enc w n).
Proof.
  revert n; induction w as [|w IH]; intro n; cbn [enc]; constructor.
  - apply N.mod_lt; lia.
  - apply IH.
Qed.

Lemma dec_app a b : dec (a ++ b) = dec a + 2 ^ (8 * N.of_nat (length a)) * dec b.
Proof.
  induction a as [|x a IH]; cbn [app dec length].
  - change (8 * N.of_nat 0) with 0. rewrite N.pow_0_r. lia.
  - rewrite IH, pow256_S. lia.
Qed.

Lemma dec_bound l : bytes_ok l -> dec l < 2 ^ (8 * N.of_nat (length l)).
Proof.
  induction 1 as [|x l Hx Hl IH]; cbn [dec length].
  - change (8 * N.of_nat 0) with 0. rewrite N.pow_0_r. lia.
  - rewrite pow256_S. lia.
Qed.

Lemma enc_dec l : bytes_ok l -> enc (length l) (dec l) = l.
Proof.
  induction 1 as [|x l Hx Hl IH]; cbn [dec length enc]; [reflexivity|].
  f_equal.
  - rewrite (N.mul_comm 256), N.mod_add by lia. apply N.mod_small; exact Hx.
  - rewrite (N.mul_comm 256), N.div_add by lia.
    rewrite (N.div_small x 256) by exact Hx. rewrite N.add_0_l. exact IH.
Qed.

Lemma dec_enc_small w n : n < 2 ^ (8 * N.of_nat w) -> dec (enc w n) = n.
Proof. intro H. rewrite dec_enc. apply N.mod_small; exact H. Qed.

Lemma enc_inj w a b :
  a < 2 ^ (8 * N.of_nat w) -> b < 2 ^ (8 * N.of_nat w) -> enc w a = enc w b -> a = b.
Proof.
  intros Ha Hb H. rewrite <- (dec_enc_small w a Ha), <- (dec_enc_small w b Hb), H. reflexivity.
Qed.

(* firstn/skipn helpers used by every decoder *)
Definition take (n : nat) (l : list N) : list N := firstn n l.
Definition drop (n : nat) (l : list N) : list N := skipn n l.

Lemma take_app_exact (a b : list N) n : length a = n -> firstn n (a ++ b) = a.
Proof. intros <-. rewrite firstn_app, Nat.sub_diag, firstn_all. cbn. apply app_nil_r. Qed.

Lemma drop_app_exact (a b : list N) n : length a = n -> skipn n (a ++ b) = b.
Proof. intros <-. rewrite skipn_app, Nat.sub_diag, skipn_all. reflexivity. Qed.
