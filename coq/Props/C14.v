(* C14 -- UID/GID mapping translates every id crossing the VFS, per mount, both ways.
   Only statements, closed by [exact]; proofs live in Proofs/VfsIdmap.v and Proofs/VfsMapOf.v.
   Where the faithful model refutes the full statement because of a defect of the code, the full
   statement is kept as a Definition, refuted by a witness, and the proved part excludes the narrow class. *)
From Coq Require Import List NArith Bool.
From FB Require Import Model.Pseudo Gen.VfsTable Model.Vfs Proofs.VfsCodec Proofs.VfsAlloc Proofs.VfsInv Proofs.VfsRouting
  Proofs.VfsIssued Proofs.VfsIdmap Proofs.VfsMapOf.
Import ListNotations.
Local Open Scope N_scope.

(* remap_id (u32 arithmetic, overflow explicit): there and back is the identity on the range, ids outside pass
   unchanged, and no overflow occurs when internal+range and external+range fit in u32 *)
Theorem C14_remap_algebra : forall i e r v, map_wf (i, e, r) ->
  (in_range v i r -> exists w, to_ext (Some (i, e, r)) v = Some w /\ in_range w e r /\ to_int (Some (i, e, r)) w = Some v) /\
  (in_range v e r -> exists w, to_int (Some (i, e, r)) v = Some w /\ in_range w i r /\ to_ext (Some (i, e, r)) w = Some v) /\
  (~ in_range v i r -> to_ext (Some (i, e, r)) v = Some v) /\
  (~ in_range v e r -> to_int (Some (i, e, r)) v = Some v) /\
  (v < two32 -> exists w1 w2, to_ext (Some (i, e, r)) v = Some w1 /\ w1 < two32 /\ to_int (Some (i, e, r)) v = Some w2 /\ w2 < two32).
Proof. exact remap_algebra. Qed.

(* in: every backend call of a request carries the caller's ids translated external -> internal with the mapping
   selected by the header nodeid; setattr owner ids are translated with the serving slot's mapping *)
Theorem C14_in_ctx : forall s hdr c o a r evs, vfs_request s hdr c o a = (r, evs) ->
  Forall (fun ev => Some (ev_cuid ev) = to_int (effective_mapping s (fs_idx hdr)) (c_uid c) /\
                    Some (ev_cgid ev) = to_int (effective_mapping s (fs_idx hdr)) (c_gid c)) evs.
Proof. exact ctx_in. Qed.
Theorem C14_in_setattr : forall s c n u g a r ev evs, wf s -> vfs_op s c (OSetattr n u g) a = (r, ev :: evs) ->
  exists b idx i, eff s n = Some (b, idx, i) /\
    Some (ev_suid ev) = to_int (effective_mapping s idx) u /\ Some (ev_sgid ev) = to_int (effective_mapping s idx) g.
Proof. exact setattr_in. Qed.
(* "... with the mapping of the mount that serves the request": refuted for nodeid 1 standing for a root mount
   (the context is translated with the global mapping); proved for every other header nodeid *)
Definition C14_in_full : Prop := in_full.
Theorem C14_in_refuted : ~ C14_in_full.
Proof. exact in_refuted. Qed.
Theorem C14_in_partial : forall s c o a r evs b idx i, eff s (hdr_of o) = Some (b, idx, i) -> fs_idx (hdr_of o) <> 0 ->
  vfs_request s (hdr_of o) c o a = (r, evs) ->
  Forall (fun ev => Some (ev_cuid ev) = to_int (effective_mapping s idx) (c_uid c) /\
                    Some (ev_cgid ev) = to_int (effective_mapping s idx) (c_gid c)) evs.
Proof. exact in_partial. Qed.

(* out: owner ids in replies served by a backend are the backend's, translated internal -> external with the
   mapping of the serving slot: lookup/symlink/mknod/mkdir/create/link, getattr/setattr, readdirplus *)
Theorem C14_out_entry : forall s c o a e ev evs, wf s -> vfs_op s c o a = (Ok (REntry e), ev :: evs) ->
  exists idx, aget idx (v_sb s) = Some (ev_bid ev) /\
              ids_out s idx (e_uid (n_ent a)) (e_gid (n_ent a)) (e_uid e) (e_gid e).
Proof. exact out_entry. Qed.
Theorem C14_out_attr : forall s c o a x ev evs, wf s -> vfs_op s c o a = (Ok (RAttr x), ev :: evs) ->
  exists idx, aget idx (v_sb s) = Some (ev_bid ev) /\
              ids_out s idx (a_uid (n_attr a)) (a_gid (n_attr a)) (a_uid x) (a_gid x).
Proof. exact out_attr. Qed.
Theorem C14_out_readdirplus : forall s c n size off lim a l ev evs, wf s ->
  vfs_op s c (OReaddir true n size off lim) a = (Ok (RDir l), ev :: evs) ->
  exists idx, aget idx (v_sb s) = Some (ev_bid ev) /\
    Forall (fun y => exists x e, In x (n_dir a) /\ snd y = Some e /\
                                 ids_out s idx (e_uid (snd x)) (e_gid (snd x)) (e_uid e) (e_gid e)) l.
Proof. exact out_readdirplus. Qed.

(* mount roots: translated once at mount time with the mapping then in force for the new slot *)
Theorem C14_out_mount_root : forall s bid p map a s' idx evs, vfs_mount s bid p map a = (s', VOk idx, evs) ->
  effective_mapping s' idx = (match map with Some x => Some x | None => effective_mapping s idx end) /\
  exists pino m, aget pino (v_mps s') = Some m /\ mp_idx m = idx /\ mp_ino m = ma_ino a /\
                 ids_out s' idx (ma_uid a) (ma_gid a) (e_uid (mp_entry m)) (e_gid (mp_entry m)).
Proof. exact mount_root_translated. Qed.
(* ... and handed out unchanged by lookup across the mount point: refuted (translated a second time), proved
   when the stored ids are not themselves inside the internal range *)
Definition C14_out_root_full : Prop := root_out_full.
Theorem C14_out_root_refuted : ~ C14_out_root_full.
Proof. exact root_out_refuted. Qed.
Theorem C14_out_root_partial : forall s n nm ino m e,
  ps_lookup (v_ps s) (ino_of n) nm = Ok ino -> aget ino (v_mps s) = Some m -> lookup_pseudo s n nm = Ok e ->
  to_ext (effective_mapping s (mp_idx m)) (e_uid (mp_entry m)) = Some (e_uid (mp_entry m)) ->
  to_ext (effective_mapping s (mp_idx m)) (e_gid (mp_entry m)) = Some (e_gid (mp_entry m)) ->
  e_uid e = e_uid (mp_entry m) /\ e_gid e = e_gid (mp_entry m).
Proof. exact root_out_partial. Qed.

(* pseudo directories (internal owner 0:0): lookup and getattr agree -- refuted when the global mapping covers 0
   (lookup translates, getattr and readdirplus do not) *)
Definition C14_pseudo_owner_full : Prop := pseudo_owner_full.
Theorem C14_pseudo_owner_refuted : ~ C14_pseudo_owner_full.
Proof. exact pseudo_owner_refuted. Qed.
Theorem C14_pseudo_owner_partial : forall s n nm ino e x, fs_idx n = 0 ->
  ps_lookup (v_ps s) (ino_of n) nm = Ok ino -> aget ino (v_mps s) = None ->
  lookup_pseudo s n nm = Ok e -> ps_getattr (v_ps s) ino = Ok x ->
  to_ext (effective_mapping s 0) 0 = Some 0 ->
  e_uid e = a_uid (pseudo_attr x) /\ e_gid e = a_gid (pseudo_attr x).
Proof. exact pseudo_owner_partial. Qed.

(* mapping_of: after any history, the mapping in force for a slot is the one given to the mount attached there,
   else the global one -- refuted by an over-mount followed by wrap-around reuse of the vacated slot; proved for
   histories without over-mounts in which every mount that is given a mapping succeeds *)
Definition C14_mapping_of_full : Prop := mapping_of_full.
Theorem C14_mapping_of_refuted : ~ C14_mapping_of_full.
Proof. exact mapping_of_refuted. Qed.
Theorem C14_mapping_of_partial : forall o rm l idx mo,
  clean_from (vfs_new o rm, fun _ => None) l ->
  snd (grun o rm l) idx = Some mo ->
  effective_mapping (fst (grun o rm l)) idx = mapping_expected (fst (grun o rm l)) mo.
Proof. exact mapping_of_partial. Qed.

(* non-vacuity *)
Example C14_nonvacuous_wf : map_wf (0, 100000, 65536) /\ in_range 5 0 65536 /\ in_range 100005 100000 65536.
Proof. unfold map_wf, in_range, two32. repeat split; discriminate. Qed.
Example C14_nonvacuous_clean :
  let l := [HMount 10 (mkPath true [CNorm 1]) (Some (0, 100000, 65536)) okm; HMount 11 (mkPath true [CNorm 2]) None okm;
            HUmount (mkPath true [CNorm 1]); HMount 12 (mkPath true [CNorm 3]) None okm] in
  clean_from (vfs_new default_opts false, fun _ => None) l /\
  snd (grun default_opts false l) 2 = Some None /\ snd (grun default_opts false l) 3 = Some None.
Proof. exact clean_example. Qed.
Example C14_overflow_without_wf : remap_id 10 0 4294967290 100 = None.
Proof. exact remap_overflow. Qed.

Print Assumptions C14_remap_algebra.
Print Assumptions C14_in_ctx.
Print Assumptions C14_in_setattr.
Print Assumptions C14_in_refuted.
Print Assumptions C14_in_partial.
Print Assumptions C14_out_entry.
Print Assumptions C14_out_attr.
Print Assumptions C14_out_readdirplus.
Print Assumptions C14_out_mount_root.
Print Assumptions C14_out_root_refuted.
Print Assumptions C14_out_root_partial.
Print Assumptions C14_pseudo_owner_refuted.
Print Assumptions C14_pseudo_owner_partial.
Print Assumptions C14_mapping_of_refuted.
Print Assumptions C14_mapping_of_partial.
