(* C14 -- UID/GID mapping translates every id crossing the VFS, per mount, both ways.
   Only statements, closed by [exact]; proofs live in Proofs/VfsIdmap.v and Proofs/VfsMapOf.v.
   The four statements the faithful model used to refute (defects fixed in /repo) are now proved in full. *)
From Coq Require Import List NArith Bool.
From FB Require Import Model.Pseudo Gen.VfsTable Model.Vfs Proofs.VfsCodec Proofs.VfsAlloc Proofs.VfsInv Proofs.VfsRouting
  Proofs.VfsIssued Proofs.PseudoWalk Proofs.VfsIdmap Proofs.VfsMapOf Proofs.VfsAsync.
From FB Require Lib.RustExpr Gen.RustPure Proofs.RustPure Proofs.RustPureIdmap.
Import ListNotations.
Local Open Scope N_scope.

(* remap_id (u32 arithmetic, overflow explicit): there and back is the identity on the range, ids outside pass
   unchanged, and no overflow occurs when internal+range and external+range fit in u32 *)
Theorem C14_remap_algebra : forall i e r v, map_wf (i, e, r) ->
  (in_range v i r -> exists w, to_ext (Some (i, e, r)) v = Some w /\ in_range w e r /\ to_int (Some (i, e, r)) w = Some v) /\
  (in_range v e r -> exists w, to_int (Some (i, e, r)) v = Some w /\ in_range w i r /\ to_ext (Some (i, e, r)) w = Some v) /\
  (~ in_range v i r -> to_ext (Some (i, e, r)) v = Some v) /\
  (~ in_range v e r -> to_int (Some (i, e, r)) v = Some v) /\
  (v < two32 -> exists w1 w2, to_ext (Some (i, e, r)) v = Some w1 /\ w1 < two32 /\ to_int (Some (i, e, r)) v = Some w2 /\ w2 < two32).
Proof. exact remap_algebra. Qed.

(* in: every backend call of a request carries the caller's ids translated external -> internal with the mapping of
   the mount that serves the request (the header nodeid's slot; for nodeid 1, the mount at "/" when there is one);
   setattr owner ids are translated with the serving slot's mapping *)
Theorem C14_in_ctx : forall s hdr c o a r evs, vfs_request s hdr c o a = (r, evs) ->
  Forall (fun ev => Some (ev_cuid ev) = to_int (effective_mapping s (ctx_idx s hdr)) (c_uid c) /\
                    Some (ev_cgid ev) = to_int (effective_mapping s (ctx_idx s hdr)) (c_gid c)) evs.
Proof. exact ctx_in. Qed.
Theorem C14_in_full : forall s c o a r evs b idx i, eff s (hdr_of o) = Some (b, idx, i) ->
  vfs_request s (hdr_of o) c o a = (r, evs) ->
  Forall (fun ev => Some (ev_cuid ev) = to_int (effective_mapping s idx) (c_uid c) /\
                    Some (ev_cgid ev) = to_int (effective_mapping s idx) (c_gid c)) evs.
Proof. exact in_full. Qed.
(* for EVERY combination of valid bits (UID only, GID only, both, neither, with or without other bits): the owner
   ids handed to the backend are both translated, so uid is translated whenever FATTR_UID is set and gid whenever
   FATTR_GID is set, independently of each other *)
Theorem C14_in_setattr : forall s c n u g valid a r ev evs, wf s -> vfs_op s c (OSetattr n u g valid) a = (r, ev :: evs) ->
  exists b idx i, eff s n = Some (b, idx, i) /\
    Some (ev_suid ev) = to_int (effective_mapping s idx) u /\ Some (ev_sgid ev) = to_int (effective_mapping s idx) g.
Proof. exact setattr_in. Qed.

(* out: owner ids in replies served by a backend are the backend's, translated internal -> external with the
   mapping of the serving slot: lookup/symlink/mknod/mkdir/create/link, getattr/setattr, readdirplus *)
Theorem C14_out_entry : forall s c o a e ev evs, wf s -> vfs_op s c o a = (Ok (REntry e), ev :: evs) ->
  exists idx, aget idx (v_sb s) = Some (ev_bid ev) /\
              ids_out s idx (e_uid (n_ent a)) (e_gid (n_ent a)) (e_uid e) (e_gid e).
Proof. exact out_entry. Qed.
Theorem C14_out_attr : forall s c o a x ev evs, wf s -> vfs_op s c o a = (Ok (RAttr x), ev :: evs) ->
  exists idx, aget idx (v_sb s) = Some (ev_bid ev) /\
              ids_out s idx (a_uid (n_attr a)) (a_gid (n_attr a)) (a_uid x) (a_gid x).
Proof. exact out_attr. Qed.
Theorem C14_out_readdirplus : forall s c n size off lim a l ev evs, wf s ->
  vfs_op s c (OReaddir true n size off lim) a = (Ok (RDir l), ev :: evs) ->
  exists idx, aget idx (v_sb s) = Some (ev_bid ev) /\
    Forall (fun y => exists x e, In x (n_dir a) /\ snd y = Some e /\
                                 ids_out s idx (e_uid (snd x)) (e_gid (snd x)) (e_uid e) (e_gid e)) l.
Proof. exact out_readdirplus. Qed.

(* mount roots: translated once, at mount time, with the mapping of the new mount (its own, else the global one:
   nothing a previous occupant of the slot left behind), and handed out unchanged by lookup across the mount point *)
Theorem C14_out_mount_root : forall s bid p map a s' idx evs, vfs_mount s bid p map a = (s', VOk idx, evs) ->
  effective_mapping s' idx = (match map with Some x => Some x | None => v_gmap s end) /\
  exists pino m, aget pino (v_mps s') = Some m /\ mp_idx m = idx /\ mp_ino m = ma_ino a /\
                 ids_out s' idx (ma_uid a) (ma_gid a) (e_uid (mp_entry m)) (e_gid (mp_entry m)).
Proof. exact mount_root_translated. Qed.
Theorem C14_out_root_full : forall s n nm ino m e,
  ps_lookup (v_ps s) (ino_of n) nm = Ok ino -> aget ino (v_mps s) = Some m -> lookup_pseudo s n nm = Ok e ->
  e = mp_entry m.
Proof. exact root_out_full. Qed.

(* pseudo directories (internal owner 0:0): lookup and getattr of the same directory agree on its owner (both
   translate with the mapping of index 0) and on its inode number *)
Theorem C14_pseudo_owner_full : forall s c a n nm ino e x evs, fs_idx n = 0 ->
  ps_lookup (v_ps s) (ino_of n) nm = Ok ino -> aget ino (v_mps s) = None ->
  lookup_pseudo s n nm = Ok e ->
  vfs_op s c (OGetattr (e_ino e)) a = (Ok (RAttr x), evs) ->
  evs = [] /\ a_uid x = e_uid e /\ a_gid x = e_gid e /\ a_ino x = e_ino e.
Proof. exact pseudo_owner_full. Qed.

(* mapping_of: after ANY history (over-mounts, mounts that fail after their index was allocated, any number of index
   wrap-arounds) the mapping in force for a slot is the one given to the mount attached there, else the global one *)
Theorem C14_mapping_of_full : forall o rm l idx mo,
  snd (grun o rm l) idx = Some mo ->
  effective_mapping (fst (grun o rm l)) idx = mapping_expected (fst (grun o rm l)) mo.
Proof. exact mapping_of_full. Qed.

(* the async twin (impl AsyncFileSystem for Vfs): same answer -- hence the same translated owner ids in every reply --
   and the same calls with the same translated context ids as the sync method, for every one of the ten operations;
   so C14_in_* / C14_out_* speak about the async entry points too *)
Theorem C14_async_same : forall s c o a, has_async_twin o = true -> vfs_async_op s c o a = tagged (vfs_op s c o a).
Proof. exact vfs_async_same. Qed.
Theorem C14_async_in_ctx : forall s hdr c o a r evs, has_async_twin o = true -> vfs_request_async s hdr c o a = (r, evs) ->
  Forall (fun ev => Some (ev_cuid ev) = to_int (effective_mapping s (ctx_idx s hdr)) (c_uid c) /\
                    Some (ev_cgid ev) = to_int (effective_mapping s (ctx_idx s hdr)) (c_gid c)) evs.
Proof. exact async_ctx_in. Qed.
(* in particular async getattr answers like the sync getattr, pseudo directories included (the statement the model
   refuted before fix 3199019; the former witness is now an Example) *)
Theorem C14_async_getattr_full : forall s c n a,
  fst (vfs_async_op s c (OGetattr n) a) = fst (vfs_op s c (OGetattr n) a).
Proof. exact async_getattr_full. Qed.
Example C14_witness_async_getattr : reachable ex_gmap /\
  fst (vfs_async_op ex_gmap (mkC 0 0) (OGetattr 2) (mkAns 0 (mkE 0 0 0 0 0) (mkA 0 0 0 0) 0 [])) = Ok (RAttr (mkA 2 1000 1000 0)).
Proof. exact async_getattr_pseudo. Qed.
Example C14_async_example : reachable ex_rootmap /\
  vfs_request_async ex_rootmap 1 (mkC 100005 100006) (OLookup 1 (NNorm 3)) (mkAns 0 (mkE 9 9 7 8 0) (mkA 0 0 0 0) 0 []) =
  (Ok (REntry (mkE (mk_vino 1 9) (mk_vino 1 9) 100007 100008 0)), [mkEv 10 (async_tag + m_lookup) 1 0 5 6 0 0]).
Proof. exact async_lookup_example. Qed.

(* non-vacuity; the witnesses that refuted these statements before the fix commits 7179ce2, 549e05a, 0586b56, 94968f8 *)
Example C14_nonvacuous_wf : map_wf (0, 100000, 65536) /\ in_range 5 0 65536 /\ in_range 100005 100000 65536.
Proof. unfold map_wf, in_range, two32. repeat split; discriminate. Qed.
Example C14_witness_root_mount_ctx : reachable ex_rootmap /\ eff ex_rootmap 1 = Some (10, 1, 1) /\
  map (fun ev => (ev_bid ev, ev_cuid ev, ev_cgid ev))
      (snd (vfs_request ex_rootmap 1 (mkC 100005 100006) (OGetattr 1) (mkAns 0 (mkE 0 0 0 0 0) (mkA 1 0 0 0) 0 []))) = [(10, 5, 6)].
Proof. exact in_root_mount. Qed.
Example C14_witness_root_once : reachable ex_double /\
  lookup_pseudo ex_double 1 (NNorm 1) = Ok (mkE (mk_vino 1 1) (mk_vino 1 1) 1005 1006 0).
Proof. exact root_out_once. Qed.
Example C14_witness_pseudo_owner : reachable ex_gmap /\
  lookup_pseudo ex_gmap 1 (NNorm 1) = Ok (mkE 2 2 1000 1000 0) /\
  fst (vfs_op ex_gmap (mkC 0 0) (OGetattr 2) (mkAns 0 (mkE 0 0 0 0 0) (mkA 0 0 0 0) 0 [])) = Ok (RAttr (mkA 2 1000 1000 0)).
Proof. exact pseudo_owner_translated. Qed.
Example C14_witness_slot_reuse :
  snd (grun default_opts false stale_history) 1 = Some None /\
  aget 1 (v_sb (fst (grun default_opts false stale_history))) = Some 12 /\
  effective_mapping (fst (grun default_opts false stale_history)) 1 = None.
Proof. exact slot_reuse_clean. Qed.
Example C14_witness_failed_mount :
  let l := [HMount 10 (mkPath false [CNorm 1]) (Some (0, 100000, 65536)) okm] in
  v_maps (fst (grun default_opts false l)) = [] /\ v_next (fst (grun default_opts false l)) = 2.
Proof. exact failed_mount_clean. Qed.
Example C14_overflow_without_wf : remap_id 10 0 4294967290 100 = None.
Proof. exact remap_overflow. Qed.

(* ---- tie to the source text (Gen/RustPure.v is re-translated from src/api/vfs/mod.rs on every run): evaluating the
   body of `fn remap_id` under rustc's integer semantics gives the model's [remap_id], for all u32 arguments; [None] is
   the debug-build panic "attempt to add with overflow"; the release build wraps instead *)
Theorem C14_src_remap_id : forall v f t r, v < 4294967296 -> f < 4294967296 -> t < 4294967296 -> r < 4294967296 ->
  RustExpr.eval_fn RustExpr.Debug RustPure.remap_id_src
    [RustExpr.VInt RustExpr.U32 v; RustExpr.VInt RustExpr.U32 f; RustExpr.VInt RustExpr.U32 t; RustExpr.VInt RustExpr.U32 r] =
  match remap_id v f t r with
  | Some x => RustExpr.Val (RustExpr.VInt RustExpr.U32 x)
  | None => RustExpr.Panic RustExpr.POverflow
  end.
Proof. exact RustPureIdmap.src_remap_id. Qed.
Theorem C14_src_remap_id_release : forall v f t r, v < 4294967296 -> f < 4294967296 -> t < 4294967296 -> r < 4294967296 ->
  RustExpr.eval_fn RustExpr.Release RustPure.remap_id_src
    [RustExpr.VInt RustExpr.U32 v; RustExpr.VInt RustExpr.U32 f; RustExpr.VInt RustExpr.U32 t; RustExpr.VInt RustExpr.U32 r] =
  RustExpr.Val (RustExpr.VInt RustExpr.U32 (if (f <=? v) && (v - f <? r) then (v - f + t) mod 4294967296 else v)).
Proof. exact RustPureIdmap.src_remap_id_release. Qed.

Print Assumptions C14_remap_algebra.
Print Assumptions C14_in_ctx.
Print Assumptions C14_in_full.
Print Assumptions C14_in_setattr.
Print Assumptions C14_out_entry.
Print Assumptions C14_out_attr.
Print Assumptions C14_out_readdirplus.
Print Assumptions C14_out_mount_root.
Print Assumptions C14_out_root_full.
Print Assumptions C14_pseudo_owner_full.
Print Assumptions C14_mapping_of_full.
Print Assumptions C14_async_same.
Print Assumptions C14_async_in_ctx.
Print Assumptions C14_async_getattr_full.
Print Assumptions C14_src_remap_id.
Print Assumptions C14_src_remap_id_release.
