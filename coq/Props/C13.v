(* C13 -- wire structures and constants match the kernel's FUSE ABI.
   Only statements, closed by [exact]; proofs live in Proofs/ABI*.v. *)
From Coq Require Import List String NArith Bool.
From FB Require Import Lib.Layout Gen.RustABI Spec.KernelABI Proofs.ABI Proofs.ABIInst.
Local Open Scope string_scope.
Local Open Scope N_scope.

(* every crate struct has, field for field, the offsets, widths, signedness, names
   (up to the declared aliases) and total size of the kernel struct (or of the
   declared slice of it) *)
Theorem C13_layouts : forall p, In p struct_pairs -> layout_agrees p.
Proof. exact layouts_all. Qed.
Theorem C13_every_struct_compared : all_structs_paired = true.
Proof. exact structs_all_paired. Qed.

Theorem C13_constants : forall p, In p const_pairs -> const_agrees p.
Proof. exact consts_all. Qed.
Theorem C13_flag_members : forall g ps, In (g, ps) bitflag_pairs ->
  forall p, In p ps -> member_agrees rust_bitflags g p.
Proof. exact bitflags_all. Qed.
Theorem C13_flag_members_covered : bitflags_all_covered = true.
Proof. exact bitflags_covered. Qed.
Theorem C13_crate_only_bits_free : crate_only_bits_free = true.
Proof. exact crate_only_free. Qed.
Theorem C13_opcodes : forall p, In p opcode_pairs -> member_agrees rust_enums "Opcode" p.
Proof. exact opcodes_all. Qed.
Theorem C13_notify_codes : forall p, In p notify_pairs -> member_agrees rust_enums "NotifyOpcode" p.
Proof. exact notify_all. Qed.
Theorem C13_enums_covered : enum_covered = true.
Proof. exact enums_covered. Qed.

(* for every natural number (hence all 2^32 u32 values) *)
Theorem C13_opcode_total : forall n : N,
  opcode_from_disc n = Some (if memN n supported_opcodes then n else unsupported_value).
Proof. exact opcode_total. Qed.
Theorem C13_unsupported_distinct : memN unsupported_value supported_opcodes = false.
Proof. exact unsupported_not_supported. Qed.

Theorem C13_attr_of_stat : forall p, In p attr_stat_pairs -> forall st param,
  exists t, field_ity "Attr" (fst p) = Some t /\
            apply_conv rust_conv_attr_of_stat st param (fst p) = st (snd p) mod 2 ^ bits t.
Proof. exact attr_of_stat_ok. Qed.
Theorem C13_attr_flags : forall st param,
  apply_conv rust_conv_attr_of_stat st param "flags" = param "flags".
Proof. exact attr_flags_param. Qed.
Theorem C13_stat_of_attr : forall p, In p attr_stat_pairs -> forall a param t,
  field_ity "Attr" (fst p) = Some t -> a (fst p) < 2 ^ bits t ->
  apply_conv rust_conv_stat_of_attr a param (snd p) = a (fst p).
Proof. exact stat_of_attr_ok. Qed.
Theorem C13_attr_roundtrip : forall p, In p attr_stat_pairs -> forall a z param t,
  field_ity "Attr" (fst p) = Some t -> a (fst p) < 2 ^ bits t ->
  apply_conv rust_conv_attr_of_stat (apply_conv rust_conv_stat_of_attr a z) param (fst p) = a (fst p).
Proof. exact attr_roundtrip. Qed.
Theorem C13_attr_fields_covered : attr_fields_covered = true.
Proof. exact attr_covered. Qed.
Theorem C13_statfs : forall p, In p kstatfs_statvfs_pairs -> forall st param,
  exists t, field_ity "Kstatfs" (fst p) = Some t /\
            apply_conv rust_conv_kstatfs_of_statvfs st param (fst p) = st (snd p) mod 2 ^ bits t.
Proof. exact kstatfs_ok. Qed.
Theorem C13_setattr : forall p, In p setattr_stat_pairs -> forall a param t,
  field_ity "SetattrIn" (fst p) = Some t -> a (fst p) < 2 ^ bits t ->
  apply_conv rust_conv_stat_of_setattr a param (snd p) = a (fst p).
Proof. exact setattr_ok. Qed.

(* the twin entry points: From<stat64> for Attr and From<Entry> for EntryOut *)
Theorem C13_attr_from_stat : forall p, In p attr_stat_pairs -> forall st param,
  exists t, field_ity "Attr" (fst p) = Some t /\
            apply_conv rust_conv_attr_from_stat st param (fst p) = st (snd p) mod 2 ^ bits t.
Proof. exact attr_from_stat_ok. Qed.
Theorem C13_attr_from_stat_flags : forall st param,
  apply_conv rust_conv_attr_from_stat st param "flags" = 0.
Proof. exact attr_from_stat_flags. Qed.
Theorem C13_entry_out : forall p, In p entry_out_pairs -> forall e param,
  exists t, leaf_ity "EntryOut" (fst p) = Some t /\
            apply_conv rust_conv_entry_out e param (fst p) = e (snd p) mod 2 ^ bits t.
Proof. exact entry_out_ok. Qed.
Theorem C13_entry_out_fields_covered : entry_out_fields_covered = true.
Proof. exact entry_out_covered. Qed.
Example C13_entry_out_nonvacuous :
  List.length entry_out_pairs = 22%nat /\ In ("attr.ino", "attr.st_ino") entry_out_pairs /\
  leaf_ity "EntryOut" "attr.rdev" = Some (4, false) /\ leaf_ity "EntryOut" "entry_valid_nsec" = Some (4, false).
Proof. vm_compute. intuition. Qed.

(* non-vacuity: the tables are non-empty and the hypotheses are satisfiable *)
Example C13_nonvacuous :
  List.length struct_pairs = 60%nat /\ List.length attr_stat_pairs = 15%nat /\
  field_ity "Attr" "nlink" = Some (4, false) /\ In ("nlink", "st_nlink") attr_stat_pairs.
Proof. vm_compute. intuition. Qed.

Print Assumptions C13_layouts.
Print Assumptions C13_every_struct_compared.
Print Assumptions C13_constants.
Print Assumptions C13_flag_members.
Print Assumptions C13_flag_members_covered.
Print Assumptions C13_crate_only_bits_free.
Print Assumptions C13_opcodes.
Print Assumptions C13_notify_codes.
Print Assumptions C13_enums_covered.
Print Assumptions C13_opcode_total.
Print Assumptions C13_unsupported_distinct.
Print Assumptions C13_attr_of_stat.
Print Assumptions C13_attr_flags.
Print Assumptions C13_stat_of_attr.
Print Assumptions C13_attr_roundtrip.
Print Assumptions C13_attr_fields_covered.
Print Assumptions C13_statfs.
Print Assumptions C13_setattr.
Print Assumptions C13_attr_from_stat.
Print Assumptions C13_attr_from_stat_flags.
Print Assumptions C13_entry_out.
Print Assumptions C13_entry_out_fields_covered.
