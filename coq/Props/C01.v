(* C01 -- untrusted request bytes never crash the server nor corrupt the reply stream.
   Statements only; proofs in Proofs/Server*.v.  [handle cfg k cap req fr] is the model of
   Server::handle_message on request bytes [req], reply capacity [cap], transport [k],
   with the filesystem answering [fr] (an arbitrary oracle value). *)
From Coq Require Import List String NArith Bool.
From FB Require Import Lib.Bytes Model.Server Spec.Requests Spec.WfReq Proofs.ServerPerform Proofs.ServerReply Proofs.ServerDecide Proofs.ServerHandle Proofs.ServerDecodeLib Proofs.ServerDecode Proofs.ServerBounds Proofs.ServerInitAnswer.
Import ListNotations.
Local Open Scope N_scope.

(* for ALL request byte strings, capacities, filesystem answers, configurations, both transports *)
Theorem C01_no_panic : forall cfg k cap req fr,
  o_panic (h_outcome (handle cfg k cap req fr)) = false.
Proof. exact handle_no_panic. Qed.

(* at most one write(2)/writev(2) reaches /dev/fuse *)
Theorem C01_at_most_one_write : forall cfg k cap req fr,
  (List.length (o_packets (h_outcome (handle cfg k cap req fr))) <= 1)%nat.
Proof. exact handle_at_most_one_write. Qed.

Theorem C01_virtio_never_writes_fd : forall cfg cap req fr,
  o_packets (h_outcome (handle cfg Virtio cap req fr)) = [].
Proof. exact handle_virtio_no_fd_write. Qed.

(* what is written is one complete message: length field = bytes emitted, unique = the request's,
   error = 0 or a negated errno in 1..4095 *)
Theorem C01_reply_wellformed : forall cfg cap req fr p,
  cap < 2 ^ 32 -> fs_ok fr ->
  In p (o_packets (h_outcome (handle cfg FuseDev cap req fr))) ->
  wellformed_reply (u64 8 req) p.
Proof. exact handle_reply_wellformed. Qed.

(* FORGET / BATCH_FORGET: no reply whatever the content, the length lie, the remap result *)
Theorem C01_forget_silent : forall cfg k cap req fr,
  u32 4 req = 2 \/ u32 4 req = 42 ->
  o_packets (h_outcome (handle cfg k cap req fr)) = [] /\ o_mem (h_outcome (handle cfg k cap req fr)) = [].
Proof. exact handle_forget_silent. Qed.

(* every reply action the dispatcher can choose carries a valid errno *)
Theorem C01_actions_wellformed : forall cfg req fr cap,
  fs_ok fr -> action_wf (snd (fst (decide cfg req fr cap))).
Proof. exact decide_action_wf. Qed.

(* every well-formed request of an opcode the protocol requires an answer for (all but FORGET,
   BATCH_FORGET, INTERRUPT, NOTIFY_REPLY) is answered, by exactly one complete message when the
   reply fits the buffer; [wf_req]/[env_ok] are the boolean well-formedness predicates of Spec/WfReq.v,
   [encode_req] lays the request out with the kernel struct tables *)
Theorem C01_answer_required : forall cfg q fr cap du dg,
  wf_req q = true -> cfg_remap cfg = RemapOk du dg -> env_ok cfg cap q = true ->
  needs_answer (q_op q) = true ->
  replies (snd (fst (decide cfg (encode_req q) fr cap))) = true.
Proof. exact answer_required. Qed.

Theorem C01_answer_exactly_one_message : forall cfg q fr cap du dg,
  wf_req q = true -> cfg_remap cfg = RemapOk du dg -> env_ok cfg cap q = true ->
  needs_answer (q_op q) = true -> cap < 2 ^ 32 -> fs_ok fr ->
  action_size (snd (fst (decide cfg (encode_req q) fr cap))) <= cap ->
  exists p, o_packets (h_outcome (handle cfg FuseDev cap (encode_req q) fr)) = [p]
            /\ wellformed_reply (q_unique q) p.
Proof. exact answer_one_wellformed_packet. Qed.

(* INIT (opcode 26) is not in [wf_ops], so the two theorems above do not speak about it: every INIT that
   carries its 16 fixed bytes is answered, for every major (older -> EPROTO, newer -> the 7.x offer),
   every minor, every flag word, with / without / with a short 7.36 tail, every filesystem answer *)
Theorem C01_init_answered : forall cfg req fr cap hb r du dg,
  read_obj 40 req = Some (hb, r) -> h_opcode (parse_hdr hb) = 26 ->
  h_len (parse_hdr hb) <= MAX_BUFFER_SIZE + BUFFER_HEADER_SIZE ->
  cfg_remap cfg = RemapOk du dg -> (16 <= List.length r)%nat ->
  replies (snd (fst (decide cfg req fr cap))) = true.
Proof. exact init_answered. Qed.

(* the server never asks the writer for more than the supplied reply buffer: whatever the request
   bytes, the filesystem answer and the transport, every packet handed to the fd and the bytes
   placed in the virtio descriptors are at most [cap] bytes (model-level content of "never touches
   memory outside the supplied buffers") *)
Theorem C01_within_capacity : forall cfg k cap req fr,
  (forall p, In p (o_packets (h_outcome (handle cfg k cap req fr))) -> blen p <= cap) /\
  blen (o_mem (h_outcome (handle cfg k cap req fr))) <= cap.
Proof. exact handle_within_capacity. Qed.

(* the virtio twin of C01_answer_exactly_one_message: nothing goes to an fd, the descriptor memory
   holds one complete reply carrying the request's unique, and handle_message returns its length
   (Ok(0) for DESTROY = 38, whose reply result is dropped) *)
Theorem C01_answer_exactly_one_message_virtio : forall cfg q fr cap du dg,
  wf_req q = true -> cfg_remap cfg = RemapOk du dg -> env_ok cfg cap q = true ->
  needs_answer (q_op q) = true -> cap < 2 ^ 32 -> fs_ok fr ->
  action_size (snd (fst (decide cfg (encode_req q) fr cap))) <= cap ->
  let o := h_outcome (handle cfg Virtio cap (encode_req q) fr) in
  o_packets o = [] /\ wellformed_reply (q_unique q) (o_mem o) /\
  o_res o = if q_op q =? 38 then ROk 0 else ROk (blen (o_mem o)).
Proof. exact answer_one_message_virtio. Qed.

Example C01_virtio_nonvacuous :
  let cfg := {| cfg_minor := 33; cfg_remap := RemapOk 0 0; cfg_vu_req := false; cfg_fsopt_mask := 0 |} in
  wf_req sample_rename2 = true /\ env_ok cfg 4096 sample_rename2 = true /\
  needs_answer (q_op sample_rename2) = true /\
  (action_size (snd (fst (decide cfg (encode_req sample_rename2) (FErr (Os 13)) 4096))) <=? 4096) = true /\
  blen (o_mem (h_outcome (handle cfg Virtio 4096 (encode_req sample_rename2) (FErr (Os 13))))) = 16.
Proof. vm_compute. repeat split; reflexivity. Qed.


(* non-vacuity: the hypotheses are satisfiable and replies do occur *)
Example C01_nonvacuous :
  fs_ok (FErr (Os 2)) /\
  exists p, o_packets (h_outcome (handle {| cfg_minor := 33; cfg_remap := RemapOk 0 0; cfg_vu_req := false; cfg_fsopt_mask := 0 |}
                                    FuseDev 4096 (enc 4 41 ++ enc 4 10 ++ enc 8 7 ++ enc 8 1 ++ enc 16 0 ++ [97; 0]) (FErr (Os 2)))) = [p].
Proof. split; [cbn; split; discriminate|]. eexists. vm_compute. reflexivity. Qed.

Print Assumptions C01_no_panic.
Print Assumptions C01_at_most_one_write.
Print Assumptions C01_virtio_never_writes_fd.
Print Assumptions C01_reply_wellformed.
Print Assumptions C01_forget_silent.
Print Assumptions C01_actions_wellformed.
Print Assumptions C01_answer_required.
Print Assumptions C01_init_answered.
Print Assumptions C01_answer_exactly_one_message.
Print Assumptions C01_within_capacity.
Print Assumptions C01_answer_exactly_one_message_virtio.
