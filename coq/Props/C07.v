(* C07 -- the VFS routes every request to the one mount owning the inode, and only to it.
   Only statements, closed by [exact]; proofs live in Proofs/Vfs*.v. *)
From Coq Require Import List NArith Bool.
From FB Require Import Model.Pseudo Gen.VfsTable Model.Vfs Proofs.VfsCodec Proofs.VfsAlloc Proofs.VfsInv Proofs.VfsRouting Proofs.VfsIssued.
Import ListNotations.
Local Open Scope N_scope.

(* inode codec: idx << 56 | ino round trips, numbers above VFS_MAX_INO are refused, 0 stays 0 *)
Theorem C07_ino_codec : forall idx ino,
  (ino = 0 -> convert_inode idx ino = Ok 0) /\
  (VFS_MAX_INO < ino -> convert_inode idx ino = Err EOther) /\
  (0 < ino <= VFS_MAX_INO -> idx < 256 ->
     exists x, convert_inode idx ino = Ok x /\ fs_idx x = idx /\ ino_of x = ino /\ x < two64).
Proof. exact ino_codec. Qed.
Theorem C07_ino_codec_injective : forall i1 n1 i2 n2, i1 < 256 -> i2 < 256 -> n1 <= VFS_MAX_INO -> n2 <= VFS_MAX_INO ->
  mk_vino i1 n1 = mk_vino i2 n2 -> i1 = i2 /\ n1 = n2.
Proof. exact mk_vino_inj. Qed.

(* allocate_fs_idx, the loop as written (u8 counter with wrap-around): the index handed out is non-zero, free,
   the first free one in cyclic order from next_super, the counter is left just behind it; it fails exactly
   when all 255 slots are taken; the fuel of the model is never exhausted *)
Theorem C07_alloc : forall s, v_next s < 256 ->
  (forall i nx, allocate_fs_idx s = (AOk i, nx) ->
      i <> 0 /\ i < 256 /\ slot_free (v_sb s) i /\ nx = (i + 1) mod 256 /\
      exists j, j < 256 /\ i = (v_next s + j) mod 256 /\
                forall j', j' < j -> (v_next s + j') mod 256 = 0 \/ ~ slot_free (v_sb s) ((v_next s + j') mod 256)) /\
  (forall nx, allocate_fs_idx s = (AFull, nx) ->
      nx = (v_next s + 1) mod 256 /\ forall i, 0 < i < 256 -> ~ slot_free (v_sb s) i) /\
  ((forall i, 0 < i < 256 -> ~ slot_free (v_sb s) i) -> fst (allocate_fs_idx s) = AFull) /\
  fst (allocate_fs_idx s) <> AFuel.
Proof. exact alloc_correct. Qed.

(* the mount table invariant holds after every history of mount / over-mount / umount / init / destroy *)
Theorem C07_reachable_wf : forall s, reachable s -> wf s.
Proof. exact reachable_wf. Qed.

(* routing: every call that reaches a backend during a request goes to the backend mounted in the slot the
   inode number names (the root mount for nodeid 1), carries that backend's own inode number(s) and the
   method of the request; for all requests, contexts and backend answers *)
Theorem C07_routing : forall s c o a r evs, wf s -> vfs_op s c o a = (r, evs) -> Forall (routed s o) evs.
Proof. exact routing. Qed.
Theorem C07_routing_reachable : forall s hdr c o a r evs, reachable s -> vfs_request s hdr c o a = (r, evs) ->
  Forall (routed s o) evs.
Proof. exact routing_request. Qed.
Theorem C07_one_call : forall s c o a r evs, vfs_op s c o a = (r, evs) ->
  (length evs <= match o with OBatchForget _ _ => 2 | _ => 1 end)%nat.
Proof. exact one_call. Qed.

(* a request naming an inode whose mount slot is vacant reaches no backend and fails (forget has no reply) *)
Theorem C07_vacant_unreached : forall s c o a r evs n, wf s -> vfs_op s c o a = (r, evs) ->
  In n (op_inodes o) -> vacant s n ->
  match o with
  | OBatchForget _ _ => Forall (fun ev => ~ ev_one s n ev) evs
  | OForget _ => evs = []
  | _ => evs = [] /\ exists e, r = Err e
  end.
Proof. exact vacant_unreached. Qed.

(* rename / link spanning two mounts (or a mount and the pseudo fs) are refused, nothing is reached *)
Theorem C07_cross_mount_refused : forall s c a n1 n2 nm1 nm2 r evs, wf s ->
  ~ vacant s n1 -> ~ vacant s n2 -> slot_of s n1 <> slot_of s n2 ->
  (vfs_op s c (ORename n1 nm1 n2 nm2) a = (r, evs) -> evs = [] /\ r = Err EINVAL) /\
  (vfs_op s c (OLink n1 n2 nm1) a = (r, evs) -> evs = [] /\ r = Err EINVAL).
Proof. exact cross_mount_refused. Qed.

(* every inode number handed to the client identifies one mounted backend and one inode of it:
   in a reply served by a backend, each number (entry.inode, attr.st_ino, dirent.ino) is 0 (negative entry) or
   decodes to (the slot the serving backend is mounted in, an inode number that backend answered in this
   request); in a reply served by the pseudo fs, each number is a pseudo inode (index 0) or the root of a mount
   whose slot is attached (crossing) *)
Theorem C07_issued_by_backend : forall s c o a r ev evs, wf s -> vfs_op s c o a = (Ok r, ev :: evs) ->
  exists idx, 0 < idx < 256 /\ aget idx (v_sb s) = Some (ev_bid ev) /\
              Forall (stands_for s (ev_bid ev) idx (ans_inodes a)) (reply_inodes r).
Proof. exact issued_by_backend. Qed.
Theorem C07_issued_by_pseudo : forall s c o a r, wf s -> vfs_op s c o a = (Ok r, []) ->
  Forall (pseudo_or_root s) (reply_inodes r).
Proof. exact issued_by_pseudo. Qed.

(* scope: lseek/getlk/setlk/setlkw/ioctl/bmap/poll/notify_reply are not implemented by the Vfs; they
   reach no backend and fail *)
Theorem C07_unforwarded : forall s c a m, In m unforwarded ->
  exists e, vfs_op s c (OUnfwd m) a = (Err e, []).
Proof. exact unforwarded_unreached. Qed.

(* non-vacuity: a reachable state with two mounts and a root mount; wrap-around of the index counter *)
Example C07_nonvacuous_alloc :
  allocate_fs_idx (mkV 255 ps_new [] [(255, 7); (1, 8)] [] default_opts false false None) = (AOk 2, 3).
Proof. exact alloc_wraps. Qed.
Example C07_nonvacuous_state : exists s, reachable s /\ eff s (mk_vino 1 5) = Some (10, 1, 5) /\ eff s 1 = Some (11, 2, 7) /\
  vacant s (mk_vino 3 1).
Proof. exact ex_reachable. Qed.

Print Assumptions C07_ino_codec.
Print Assumptions C07_ino_codec_injective.
Print Assumptions C07_alloc.
Print Assumptions C07_reachable_wf.
Print Assumptions C07_routing.
Print Assumptions C07_routing_reachable.
Print Assumptions C07_one_call.
Print Assumptions C07_vacant_unreached.
Print Assumptions C07_cross_mount_refused.
Print Assumptions C07_unforwarded.
Print Assumptions C07_issued_by_backend.
Print Assumptions C07_issued_by_pseudo.
