(* C07 -- the VFS routes every request to the one mount owning the inode, and only to it.
   Only statements, closed by [exact]; proofs live in Proofs/Vfs*.v. *)
From Coq Require Import List NArith Bool.
From FB Require Import Model.Pseudo Gen.VfsTable Model.Vfs Proofs.VfsCodec Proofs.VfsAlloc Proofs.VfsInv Proofs.VfsRouting Proofs.VfsIssued Proofs.PseudoWalk Proofs.VfsConsistent Proofs.VfsIdmap Proofs.VfsAsync.
From FB Require Lib.RustExpr Gen.RustPure Proofs.RustPure Proofs.RustPureVfs.
Import ListNotations.
Local Open Scope N_scope.

(* inode codec: idx << 56 | ino round trips, numbers above VFS_MAX_INO are refused, 0 stays 0 *)
Theorem C07_ino_codec : forall idx ino,
  (ino = 0 -> convert_inode idx ino = Ok 0) /\
  (VFS_MAX_INO < ino -> convert_inode idx ino = Err EOther) /\
  (0 < ino <= VFS_MAX_INO -> idx < 256 ->
     exists x, convert_inode idx ino = Ok x /\ fs_idx x = idx /\ ino_of x = ino /\ x < two64).
Proof. exact ino_codec. Qed.
Theorem C07_ino_codec_injective : forall i1 n1 i2 n2, i1 < 256 -> i2 < 256 -> n1 <= VFS_MAX_INO -> n2 <= VFS_MAX_INO ->
  mk_vino i1 n1 = mk_vino i2 n2 -> i1 = i2 /\ n1 = n2.
Proof. exact mk_vino_inj. Qed.

(* allocate_fs_idx, the loop as written (u8 counter with wrap-around): the index handed out is non-zero, free,
   the first free one in cyclic order from next_super, the counter is left just behind it; it fails exactly
   when all 255 slots are taken; the fuel of the model is never exhausted *)
Theorem C07_alloc : forall s, v_next s < 256 ->
  (forall i nx, allocate_fs_idx s = (AOk i, nx) ->
      i <> 0 /\ i < 256 /\ slot_free (v_sb s) i /\ nx = (i + 1) mod 256 /\
      exists j, j < 256 /\ i = (v_next s + j) mod 256 /\
                forall j', j' < j -> (v_next s + j') mod 256 = 0 \/ ~ slot_free (v_sb s) ((v_next s + j') mod 256)) /\
  (forall nx, allocate_fs_idx s = (AFull, nx) ->
      nx = (v_next s + 1) mod 256 /\ forall i, 0 < i < 256 -> ~ slot_free (v_sb s) i) /\
  ((forall i, 0 < i < 256 -> ~ slot_free (v_sb s) i) -> fst (allocate_fs_idx s) = AFull) /\
  fst (allocate_fs_idx s) <> AFuel.
Proof. exact alloc_correct. Qed.

(* the mount table invariant holds after every history of mount / over-mount / umount / init / destroy *)
Theorem C07_reachable_wf : forall s, reachable s -> wf s.
Proof. exact reachable_wf. Qed.

(* routing: every call that reaches a backend during a request goes to the backend mounted in the slot the
   inode number names (the root mount for nodeid 1), carries that backend's own inode number(s) and the
   method of the request; for all requests, contexts and backend answers *)
Theorem C07_routing : forall s c o a r evs, wf s -> vfs_op s c o a = (r, evs) -> Forall (routed s o) evs.
Proof. exact routing. Qed.
Theorem C07_routing_reachable : forall s hdr c o a r evs, reachable s -> vfs_request s hdr c o a = (r, evs) ->
  Forall (routed s o) evs.
Proof. exact routing_request. Qed.
Theorem C07_one_call : forall s c o a r evs, vfs_op s c o a = (r, evs) ->
  (length evs <= match o with OBatchForget _ _ => 2 | _ => 1 end)%nat.
Proof. exact one_call. Qed.

(* a request naming an inode whose mount slot is vacant reaches no backend and fails (forget has no reply) *)
Theorem C07_vacant_unreached : forall s c o a r evs n, wf s -> vfs_op s c o a = (r, evs) ->
  In n (op_inodes o) -> vacant s n ->
  match o with
  | OBatchForget _ _ => Forall (fun ev => ~ ev_one s n ev) evs
  | OForget _ => evs = []
  | _ => evs = [] /\ exists e, r = Err e
  end.
Proof. exact vacant_unreached. Qed.

(* rename / link spanning two mounts (or a mount and the pseudo fs) are refused, nothing is reached *)
Theorem C07_cross_mount_refused : forall s c a n1 n2 nm1 nm2 r evs, wf s ->
  ~ vacant s n1 -> ~ vacant s n2 -> slot_of s n1 <> slot_of s n2 ->
  (vfs_op s c (ORename n1 nm1 n2 nm2) a = (r, evs) -> evs = [] /\ r = Err EINVAL) /\
  (vfs_op s c (OLink n1 n2 nm1) a = (r, evs) -> evs = [] /\ r = Err EINVAL).
Proof. exact cross_mount_refused. Qed.

(* every inode number handed to the client identifies one mounted backend and one inode of it:
   in a reply served by a backend, each number (entry.inode, attr.st_ino, dirent.ino) is 0 (negative entry) or
   decodes to (the slot the serving backend is mounted in, an inode number that backend answered in this
   request); in a reply served by the pseudo fs, each number is a pseudo inode (index 0) or the root of a mount
   whose slot is attached (crossing) *)
Theorem C07_issued_by_backend : forall s c o a r ev evs, wf s -> vfs_op s c o a = (Ok r, ev :: evs) ->
  exists idx, 0 < idx < 256 /\ aget idx (v_sb s) = Some (ev_bid ev) /\
              Forall (stands_for s (ev_bid ev) idx (ans_inodes a)) (reply_inodes r).
Proof. exact issued_by_backend. Qed.
Theorem C07_issued_by_pseudo : forall s c o a r, wf s -> vfs_op s c o a = (Ok r, []) ->
  Forall (pseudo_or_root s) (reply_inodes r).
Proof. exact issued_by_pseudo. Qed.

(* crossing: a client walking a path component by component with LOOKUP from a pseudo directory stays in the pseudo
   fs on every proper prefix that is not a mount point, reaches no backend, and receives the mounted root exactly at
   the mount path (and the pseudo directory itself if nothing is mounted there) *)
Theorem C07_crossing : forall ks s c a cur p, wf s -> pkids_ok (v_ps s) -> aget ROOT_ID (v_mps s) = None ->
  cur <= VFS_MAX_INO -> ks <> [] ->
  ps_walk (v_ps s) cur (map CNorm ks) = Ok (Some p) ->
  (forall n q, (0 < n < length ks)%nat ->
     ps_walk (v_ps s) cur (map CNorm (firstn n ks)) = Ok (Some q) -> aget q (v_mps s) = None) ->
  forall r evs, client_walk s c a cur ks = (r, evs) -> r <> Panic ->
    evs = [] /\ r = Ok (match aget p (v_mps s) with Some m => root_vino m | None => p end).
Proof. exact crossing. Qed.
(* a path that was just mounted resolves, walked from the root, to the mount point of the new mount *)
Theorem C07_mount_resolves : forall s bid p map a s' idx evs, keys_lt (v_ps s) ->
  ps_next (v_ps s) + N.of_nat (length (p_comps p)) <= two56 ->
  vfs_mount s bid p map a = (s', VOk idx, evs) ->
  exists pino m, ps_walk (v_ps s') ROOT_ID (p_comps p) = Ok (Some pino) /\
                 aget pino (v_mps s') = Some m /\ mp_idx m = idx /\ mp_ino m = ma_ino a /\ keys_lt (v_ps s').
Proof. exact mount_resolves. Qed.
(* the side conditions on the pseudo fs hold along every history that creates fewer than 2^56 pseudo directories *)
Theorem C07_pseudo_side_conditions : forall s, breach s -> keys_lt (v_ps s) /\ pkids_ok (v_ps s) /\ 0 < ps_next (v_ps s).
Proof. exact breach_ps_ok. Qed.

(* inode-number consistency.  Backend side: the number shown for backend inode y of slot idx is `shown idx y` in
   lookup (entry.inode = attr.st_ino), in readdir (from dirent.ino), in readdirplus (from entry.inode, copied to the
   dirent and to st_ino), and getattr answers st_ino = the number asked for: so a backend with
   dirent.ino = entry.inode = y gets the same number everywhere.  Pseudo side: a child ci of a pseudo directory is
   shown as `child_number s ci` (the mounted root if ci is a mount point) by lookup, readdir and readdirplus *)
Theorem C07_ino_consistent_lookup : forall s c n nm a e ev evs, wf s -> vfs_op s c (OLookup n nm) a = (Ok (REntry e), ev :: evs) ->
  exists b idx i, eff s n = Some (b, idx, i) /\ e_ino e = shown idx (e_ino (n_ent a)) /\ e_stino e = e_ino e.
Proof. exact lookup_number. Qed.
Theorem C07_ino_consistent_readdir : forall s c plus n size off lim a l ev evs, wf s ->
  vfs_op s c (OReaddir plus n size off lim) a = (Ok (RDir l), ev :: evs) ->
  exists b idx i, eff s n = Some (b, idx, i) /\
    Forall (fun y => exists dino nm e, In (dino, nm, e) (n_dir a) /\ d_name (fst y) = nm /\
                       d_ino (fst y) = shown idx (if plus then e_ino e else dino) /\
                       (if plus then exists e', snd y = Some e' /\ e_ino e' = d_ino (fst y) /\ e_stino e' = d_ino (fst y)
                        else snd y = None)) l.
Proof. exact readdir_numbers. Qed.
Theorem C07_ino_consistent_getattr : forall s c n a x ev evs, wf s -> n < two64 ->
  vfs_op s c (OGetattr n) a = (Ok (RAttr x), ev :: evs) ->
  exists b idx i, eff s n = Some (b, idx, i) /\ a_ino x = mk_vino idx i /\ (fs_idx n <> 0 -> a_ino x = n).
Proof. exact getattr_number. Qed.
Theorem C07_ino_consistent_pseudo_lookup : forall s c a cur k pn ci, wf s -> pkids_ok (v_ps s) -> aget ROOT_ID (v_mps s) = None ->
  cur <= VFS_MAX_INO -> aget cur (ps_inodes (v_ps s)) = Some pn -> find_child k (pi_children pn) = Some ci ->
  exists res, vfs_op s c (OLookup cur (NNorm k)) a = (res, []) /\
    (res = Panic \/ exists e, res = Ok (REntry e) /\ e_ino e = child_number s ci).
Proof. exact pseudo_lookup_number. Qed.
Theorem C07_ino_consistent_pseudo_readdir : forall s c a plus cur size off lim pn l evs, wf s -> pkids_ok (v_ps s) ->
  aget ROOT_ID (v_mps s) = None -> cur <= VFS_MAX_INO -> aget cur (ps_inodes (v_ps s)) = Some pn ->
  vfs_op s c (OReaddir plus cur size off lim) a = (Ok (RDir l), evs) ->
  evs = [] /\
  Forall (fun y => exists ci, In (ci, d_name (fst y)) (pi_children pn) /\ d_ino (fst y) = child_number s ci /\
                     (if plus then exists e', snd y = Some e' /\ e_ino e' = d_ino (fst y) /\ e_stino e' = d_ino (fst y)
                      else snd y = None)) l.
Proof. exact pseudo_readdir_numbers. Qed.

(* the async twin (impl AsyncFileSystem for Vfs, ten methods): the same answer and the same backend calls as the sync
   method, made through the backend's async method ([tagged]: method number + async_tag), for every one of them on every state; so every theorem above about vfs_op
   speaks about the async entry points too, and in particular every async call goes to the owner with its own inode *)
Theorem C07_async_same : forall s c o a, has_async_twin o = true -> vfs_async_op s c o a = tagged (vfs_op s c o a).
Proof. exact vfs_async_same. Qed.
Theorem C07_async_calls : forall s c o a, has_async_twin o = true ->
  snd (vfs_async_op s c o a) = map tag_async (snd (vfs_op s c o a)).
Proof. exact vfs_async_events. Qed.
Theorem C07_async_routing : forall s c o a r evs, wf s -> has_async_twin o = true -> vfs_async_op s c o a = (r, evs) ->
  Forall (fun ev => exists ev0, routed s o ev0 /\ ev = tag_async ev0) evs.
Proof. exact async_routing. Qed.

(* scope: lseek/getlk/setlk/setlkw/ioctl/bmap/poll/notify_reply are not implemented by the Vfs; they
   reach no backend and fail *)
Theorem C07_unforwarded : forall s c a m, In m unforwarded ->
  exists e, vfs_op s c (OUnfwd m) a = (Err e, []).
Proof. exact unforwarded_unreached. Qed.

(* non-vacuity: a reachable state with two mounts and a root mount; wrap-around of the index counter *)
Example C07_nonvacuous_alloc :
  allocate_fs_idx (mkV 255 ps_new [] [(255, 7); (1, 8)] [] default_opts false false None) = (AOk 2, 3).
Proof. exact alloc_wraps. Qed.
Example C07_nonvacuous_state : exists s, reachable s /\ eff s (mk_vino 1 5) = Some (10, 1, 5) /\ eff s 1 = Some (11, 2, 7) /\
  vacant s (mk_vino 3 1).
Proof. exact ex_reachable. Qed.

Example C07_nonvacuous_crossing : exists s, breach s /\ aget ROOT_ID (v_mps s) = None /\
  ps_walk (v_ps s) ROOT_ID (map CNorm [2; 3]) = Ok (Some 4) /\ aget 4 (v_mps s) <> None /\ aget 3 (v_mps s) = None.
Proof. exact ex_crossing. Qed.

(* ---- tie to the source text (Gen/RustPure.v is re-translated from src/api/vfs/mod.rs on every run): the model's
   inode codec ([mk_vino], [fs_idx], [ino_of], the pseudo-fs test, [convert_inode]) is what the bodies of VfsInode::new /
   fs_idx / ino / is_pseudo_fs and Vfs::convert_inode compute under rustc's integer semantics, for all arguments *)
Theorem C07_src_vfs_inode_new : forall idx ino, idx < 256 -> ino < 18446744073709551616 ->
  RustExpr.eval_fn RustExpr.Debug RustPure.vfs_inode_new_src [RustExpr.VInt RustExpr.U8 idx; RustExpr.VInt RustExpr.U64 ino] =
  if N.land ino (N.lnot VFS_MAX_INO 64) =? 0 then RustExpr.Val (RustExpr.VInt RustExpr.U64 (mk_vino idx ino))
  else RustExpr.Panic RustExpr.PAssert.
Proof. exact RustPureVfs.src_vfs_inode_new. Qed.
Theorem C07_src_vfs_inode_fs_idx : forall x, x < 18446744073709551616 ->
  RustExpr.eval_fn RustExpr.Debug RustPure.vfs_inode_fs_idx_src [RustExpr.VInt RustExpr.U64 x] =
  RustExpr.Val (RustExpr.VInt RustExpr.U8 (fs_idx x)).
Proof. exact RustPureVfs.src_vfs_inode_fs_idx. Qed.
Theorem C07_src_vfs_inode_ino : forall x, x < 18446744073709551616 ->
  RustExpr.eval_fn RustExpr.Debug RustPure.vfs_inode_ino_src [RustExpr.VInt RustExpr.U64 x] =
  RustExpr.Val (RustExpr.VInt RustExpr.U64 (ino_of x)).
Proof. exact RustPureVfs.src_vfs_inode_ino. Qed.
Theorem C07_src_vfs_inode_is_pseudo_fs : forall x, x < 18446744073709551616 ->
  RustExpr.eval_fn RustExpr.Debug RustPure.vfs_inode_is_pseudo_fs_src [RustExpr.VInt RustExpr.U64 x] =
  RustExpr.Val (RustExpr.VBool (fs_idx x =? 0)).
Proof. exact RustPureVfs.src_vfs_inode_is_pseudo_fs. Qed.
Theorem C07_src_vfs_convert_inode : forall idx ino, idx < 256 -> ino < 18446744073709551616 ->
  RustExpr.eval_fn RustExpr.Debug RustPure.vfs_convert_inode_src [RustExpr.VInt RustExpr.U8 idx; RustExpr.VInt RustExpr.U64 ino] =
  RustPureVfs.conv_result (convert_inode idx ino).
Proof. exact RustPureVfs.src_vfs_convert_inode. Qed.
Theorem C07_src_codec_roundtrip : forall idx ino, idx < 256 -> ino <= VFS_MAX_INO ->
  exists x, RustExpr.eval_fn RustExpr.Debug RustPure.vfs_inode_new_src [RustExpr.VInt RustExpr.U8 idx; RustExpr.VInt RustExpr.U64 ino] =
              RustExpr.Val (RustExpr.VInt RustExpr.U64 x) /\
            RustExpr.eval_fn RustExpr.Debug RustPure.vfs_inode_fs_idx_src [RustExpr.VInt RustExpr.U64 x] =
              RustExpr.Val (RustExpr.VInt RustExpr.U8 idx) /\
            RustExpr.eval_fn RustExpr.Debug RustPure.vfs_inode_ino_src [RustExpr.VInt RustExpr.U64 x] =
              RustExpr.Val (RustExpr.VInt RustExpr.U64 ino).
Proof. exact RustPureVfs.src_codec_roundtrip. Qed.

Print Assumptions C07_ino_codec.
Print Assumptions C07_ino_codec_injective.
Print Assumptions C07_alloc.
Print Assumptions C07_reachable_wf.
Print Assumptions C07_routing.
Print Assumptions C07_routing_reachable.
Print Assumptions C07_one_call.
Print Assumptions C07_vacant_unreached.
Print Assumptions C07_cross_mount_refused.
Print Assumptions C07_unforwarded.
Print Assumptions C07_issued_by_backend.
Print Assumptions C07_issued_by_pseudo.
Print Assumptions C07_crossing.
Print Assumptions C07_mount_resolves.
Print Assumptions C07_pseudo_side_conditions.
Print Assumptions C07_ino_consistent_lookup.
Print Assumptions C07_ino_consistent_readdir.
Print Assumptions C07_ino_consistent_getattr.
Print Assumptions C07_ino_consistent_pseudo_lookup.
Print Assumptions C07_ino_consistent_pseudo_readdir.
Print Assumptions C07_async_same.
Print Assumptions C07_async_calls.
Print Assumptions C07_async_routing.
Print Assumptions C07_src_vfs_inode_new.
Print Assumptions C07_src_vfs_inode_fs_idx.
Print Assumptions C07_src_vfs_inode_ino.
Print Assumptions C07_src_vfs_inode_is_pseudo_fs.
Print Assumptions C07_src_vfs_convert_inode.
Print Assumptions C07_src_codec_roundtrip.
