(* C15 -- handles and descriptors are released when the client releases them.
   Only statements, closed by [exact]; proofs live in Proofs/Handles.v. *)
From Coq Require Import List NArith Bool.
From FB Require Import Model.Inodes Model.Handles Proofs.Inodes Proofs.InodesNum Proofs.Handles.
Import ListNotations.
Local Open Scope N_scope.

(* ---- handle discipline *)
(* the handle table is, request by request, the client's ledger of handles (added by the
   replies of open / opendir / create, removed by a successful release, emptied by destroy) *)
Theorem C15_handle_table_is_ledger : forall c s o,
  handles (snd (hstep c s o)) = hspec_step (handles s) o (fst (hstep c s o)).
Proof. exact handles_refine_ledger. Qed.
(* get(handle, inode) succeeds exactly for the pairs in that ledger *)
Theorem C15_handle_get_iff : forall s h i, handle_get s h i = true <-> hget s h = Some i.
Proof. exact handle_get_iff. Qed.
(* distinct opens get distinct handles: a new handle is not in the table, exceeds every handle
   in it, and the counter moves past it *)
Theorem C15_new_handle_fresh : forall c s o h,
  HBound s -> next_handle s < U64MAX ->
  (fst (hstep c s o) = HOk (Some h) \/ exists i, fst (hstep c s o) = HCreated i (Some h)) ->
  h = next_handle s /\ hget s h = None /\ next_handle (snd (hstep c s o)) = h + 1.
Proof. exact new_handle_fresh. Qed.

(* ---- descriptor balance, in every (no_open, no_opendir, inode_file_handles, use_host_ino) mode,
   for every request including failing ones *)
Theorem C15_balanced_step : forall c s o, HInv s -> next_handle s < U64MAX -> HInv (snd (hstep c s o)).
Proof. exact hstep_inv. Qed.
Theorem C15_balanced : forall c h s,
  HInv s -> next_handle s + N.of_nat (length h) <= U64MAX ->
  HInv (snd (hrun c s h)) /\ leaked (snd (hrun c s h)) = leaked s.
Proof. exact hrun_inv. Qed.
(* no request ever produces a descriptor that no table entry owns (MountFds::get used to: D8, fixed) *)
Theorem C15_no_unowned_descriptor : forall c s o, HInv s -> leaked (snd (hstep c s o)) = leaked s.
Proof. exact leaked_const. Qed.
Theorem C15_all_descriptors_owned : forall c root h,
  1 + N.of_nat (length h) <= U64MAX ->
  let s := snd (hrun c (h_fresh c root) h) in
  HInv s /\ leaked s = 0 /\ fds s = fds_owned s.
Proof. exact all_descriptors_owned. Qed.

(* a RELEASE / RELEASEDIR of a held pair always releases, with any flush flag: it allocates no descriptor *)
Theorem C15_release_always_releases : forall c s (dir : bool) i h fl,
  (if dir then no_opendir c else no_open c) = false -> handle_get s h i = true ->
  fst (hstep c s (HRelease dir i h fl)) = HUnit /\
  hget (snd (hstep c s (HRelease dir i h fl))) h = None /\
  mget N.eqb (cookies (snd (hstep c s (HRelease dir i h fl)))) h = None /\
  fds (snd (hstep c s (HRelease dir i h fl))) = fds s - 1.
Proof. exact release_always_releases. Qed.

(* ---- quiescence: full strength (it was refuted by defect D8 until the fix 872fe91, and by D9 until cecedb6).
   Host hypothesis [wf_t]/[hop_wf]: with inode_file_handles every file of the export yields a file handle. *)
Definition C15_full : Prop := quiescent_full.
Theorem C15_full_holds : C15_full.
Proof. exact quiescent_full_holds. Qed.
Theorem C15_quiescent_tables : forall s,
  HInv s -> handles s = [] ->
  cookies s = [] /\ fds s = 2 + file_inodes (ino s) + (if mount_live s then 1 else 0) + leaked s.
Proof. exact quiescent_tables. Qed.
(* the inode-side invariant (root present, keys consistent, no duplicate list entries, mount fd iff handle mode) *)
Theorem C15_inode_invariant : forall c h s, IInv c s -> Forall (hop_wf c) h -> IInv c (snd (hrun c s h)).
Proof. exact hrun_iinv. Qed.

(* witnesses / non-vacuity *)
Example C15_d8_fixed_witness :
  fds (h_fresh d8_cfg d8_root) = 3 /\ leaked (h_fresh d8_cfg d8_root) = 0 /\
  fds (snd (hrun d8_cfg (h_fresh d8_cfg d8_root) d8_hist)) = 3 /\
  leaked (snd (hrun d8_cfg (h_fresh d8_cfg d8_root) d8_hist)) = 0 /\
  fds_owned (snd (hrun d8_cfg (h_fresh d8_cfg d8_root) d8_hist)) = 3.
Proof. exact d8_witness_shape. Qed.
Example C15_nonvacuous :
  let c := mkHC d9_cfg false false in
  wf_t (hc c) d9_root /\ Forall (hop_wf c) ex15_hist /\
  fst (hrun c (h_fresh c d9_root) ex15_hist) =
    [HR (RIno 2); HOk (Some 1); HHost; HUnit; HCreated 2 (Some 2); HUnit; HR (RErr EBADF); HR RUnit; HUnit] /\
  handles (snd (hrun c (h_fresh c d9_root) ex15_hist)) = [] /\
  fds (snd (hrun c (h_fresh c d9_root) ex15_hist)) = fds (h_fresh c d9_root).
Proof. exact ex15_ok. Qed.
Example C15_fresh_inv : forall c root, HInv (h_fresh c root) /\ leaked (h_fresh c root) = 0 /\ next_handle (h_fresh c root) = 1.
Proof. exact h_fresh_inv. Qed.

Print Assumptions C15_handle_table_is_ledger.
Print Assumptions C15_handle_get_iff.
Print Assumptions C15_new_handle_fresh.
Print Assumptions C15_balanced_step.
Print Assumptions C15_balanced.
Print Assumptions C15_no_unowned_descriptor.
Print Assumptions C15_all_descriptors_owned.
Print Assumptions C15_full_holds.
Print Assumptions C15_quiescent_tables.
Print Assumptions C15_inode_invariant.
Print Assumptions C15_release_always_releases.
