(* C15 -- handles and descriptors are released when the client releases them.
   Only statements, closed by [exact]; proofs live in Proofs/Handles.v. *)
From Coq Require Import List NArith Bool.
From FB Require Import Model.Inodes Model.Handles Proofs.Inodes Proofs.Handles.
Import ListNotations.
Local Open Scope N_scope.

(* ---- handle discipline *)
(* the handle table is, request by request, the client's ledger of handles (added by the
   replies of open / opendir / create, removed by a successful release, emptied by destroy) *)
Theorem C15_handle_table_is_ledger : forall c s o,
  handles (snd (hstep c s o)) = hspec_step (handles s) o (fst (hstep c s o)).
Proof. exact handles_refine_ledger. Qed.
(* get(handle, inode) succeeds exactly for the pairs in that ledger *)
Theorem C15_handle_get_iff : forall s h i, handle_get s h i = true <-> hget s h = Some i.
Proof. exact handle_get_iff. Qed.
(* distinct opens get distinct handles: a new handle is not in the table, exceeds every handle
   in it, and the counter moves past it *)
Theorem C15_new_handle_fresh : forall c s o h,
  HBound s -> next_handle s < U64MAX ->
  (fst (hstep c s o) = HOk (Some h) \/ exists i, fst (hstep c s o) = HCreated i (Some h)) ->
  h = next_handle s /\ hget s h = None /\ next_handle (snd (hstep c s o)) = h + 1.
Proof. exact new_handle_fresh. Qed.

(* ---- descriptor balance, in every (no_open, no_opendir, inode_file_handles, use_host_ino) mode,
   for every request including failing ones *)
Theorem C15_balanced_step : forall c s o, HInv s -> next_handle s < U64MAX -> HInv (snd (hstep c s o)).
Proof. exact hstep_inv. Qed.
Theorem C15_balanced : forall c h s,
  HInv s -> next_handle s + N.of_nat (length h) <= U64MAX ->
  HInv (snd (hrun c s h)) /\
  leaked (snd (hrun c s h)) = leaked s + N.of_nat (length (filter (known_d8 c) h)).
Proof. exact hrun_inv. Qed.
Theorem C15_leak_only_in_mount_get : forall c s o,
  HInv s ->
  leaked (snd (hstep c s o)) =
  leaked s + match o with HDestroy root => if is_none (eff_fh (hc c) root) then 0 else 1 | _ => 0 end.
Proof. exact leaked_only_in_import. Qed.

(* ---- quiescence *)
Definition C15_full : Prop := quiescent_full.
(* refuted on the current tree by defect D8 (MountFds::get leaks its O_PATH probe at every
   destroy + re-init with inode_file_handles) *)
Theorem C15_refuted : ~ C15_full.
Proof. exact quiescent_full_refuted. Qed.
(* outside that class no descriptor is ever unowned beyond a fresh server's *)
Theorem C15_partial : forall c root h,
  1 + N.of_nat (length h) <= U64MAX -> filter (known_d8 c) h = [] ->
  let s := snd (hrun c (h_fresh c root) h) in
  HInv s /\ leaked s = leaked (h_fresh c root) /\ fds s = fds_owned s + leaked (h_fresh c root).
Proof. exact no_leak_outside_d8. Qed.
Theorem C15_quiescent_tables : forall s,
  HInv s -> handles s = [] ->
  cookies s = [] /\ fds s = 2 + file_inodes (ino s) + (if mount_live s then 1 else 0) + leaked s.
Proof. exact quiescent_tables. Qed.
(* all handles released and all inodes forgotten: the tables and the descriptor count are a fresh
   server's, up to the leaked descriptors.  (NoDup of the inode list is a hypothesis here: it holds
   by construction of mset/mdel but is not carried as an invariant through Model/Inodes.v yet.) *)
Theorem C15_quiescent_partial : forall c root s d,
  HInv s -> handles s = [] -> NoDup (map fst (data (ino s))) ->
  dget (ino s) ROOT_ID = Some d -> i_fh d = eff_fh (hc c) root ->
  (forall i, i <> ROOT_ID -> dget (ino s) i = None) ->
  mount_live s = mount_live (h_fresh c root) ->
  cookies s = [] /\ length (data (ino s)) = 1%nat /\
  fds s + leaked (h_fresh c root) = fds (h_fresh c root) + leaked s.
Proof. exact quiescent_partial. Qed.

(* witnesses / non-vacuity *)
Example C15_d8_witness :
  fds (h_fresh d8_cfg d8_root) = 4 /\ leaked (h_fresh d8_cfg d8_root) = 1 /\
  fds (snd (hrun d8_cfg (h_fresh d8_cfg d8_root) d8_hist)) = 5 /\
  leaked (snd (hrun d8_cfg (h_fresh d8_cfg d8_root) d8_hist)) = 2 /\
  fds_owned (snd (hrun d8_cfg (h_fresh d8_cfg d8_root) d8_hist)) = 3.
Proof. exact d8_witness_shape. Qed.
Example C15_nonvacuous :
  let c := mkHC d9_cfg false false in
  filter (known_d8 c) ex15_hist = [] /\
  fst (hrun c (h_fresh c d9_root) ex15_hist) =
    [HR (RIno 2); HOk (Some 1); HHost; HUnit; HCreated 2 (Some 2); HUnit; HR RUnit; HUnit] /\
  fds (snd (hrun c (h_fresh c d9_root) ex15_hist)) = fds (h_fresh c d9_root).
Proof. exact ex15_ok. Qed.
Example C15_fresh_inv : forall c root, HInv (h_fresh c root) /\
  leaked (h_fresh c root) = (if is_none (eff_fh (hc c) root) then 0 else 1) /\ next_handle (h_fresh c root) = 1.
Proof. exact h_fresh_inv. Qed.

Print Assumptions C15_handle_table_is_ledger.
Print Assumptions C15_handle_get_iff.
Print Assumptions C15_new_handle_fresh.
Print Assumptions C15_balanced_step.
Print Assumptions C15_balanced.
Print Assumptions C15_leak_only_in_mount_get.
Print Assumptions C15_refuted.
Print Assumptions C15_partial.
Print Assumptions C15_quiescent_tables.
Print Assumptions C15_quiescent_partial.
