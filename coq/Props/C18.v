(* C18 -- a size-sealed export never lets a client change a file's size.
   Only statements, closed by [exact]; proofs live in Proofs/Seal.v.

   [step H C s r]: one request (open / create on an existing name / write / fallocate / setattr /
   release) of Model/Seal.v; [H] the host (fallocate oracle, s_maxbytes), [C] = {seal, no_open};
   [sizes s f] the size of pre-existing regular file f. *)
From Coq Require Import List NArith Bool.
From FB Require Import Model.Seal Proofs.Seal.
Import ListNotations.
Local Open Scope N_scope.

(* [c_fx C : fixes] records which refusals the source tree contains: do_open / create-on-existing refuse
   O_TRUNC and write refuses a non-empty O_APPEND write under seal_size (commit 4429c29).  The code has all
   three ([all_fixes]); props/c18.py checks that against the source on every run and the tie runs the model
   with [all_fixes], so a tree without one of them is reported as a broken tie with a failing history. *)

(* The statement as given, for the code as it is: with sealing on, no history of requests (any flags,
   offsets, lengths, fallocate modes, setattr, open/create/release, with or without no_open) changes the
   size of any pre-existing file. *)
Definition C18_full_for (fx : fixes) : Prop := sealed_sizes_full fx.
Theorem C18_full : C18_full_for all_fixes.
Proof. exact sealed_sizes_full_fixed. Qed.

(* Each of the refusals is needed: without them the statement is false (this is what the tree did before
   commit 4429c29: OPEN or CREATE carrying O_TRUNC truncated, a WRITE whose request flags carry O_APPEND
   was checked against its offset but appended at EOF). *)
Theorem C18_unrepaired_refuted : ~ C18_full_for no_fixes.
Proof. exact sealed_sizes_refuted. Qed.

(* Proved part for any tree: the invariant holds for ALL histories whose requests are [covered]: outside
   the narrow known class [known] (O_TRUNC in open/create flags, O_APPEND in a write's flags) or of a kind
   the tree refuses; for every host whose fallocate inside the file keeps the size, from any state whose
   fds agree with their stored flags *)
Theorem C18_partial : forall H C, c_seal C = true -> falloc_within H ->
  forall rs s, slots_ok s -> forallb (covered C) rs = true ->
  forall f, sizes (snd (run H C s rs)) f = sizes s f.
Proof. exact sealed_sizes_partial. Qed.
Theorem C18_partial_outside_known : forall H C, c_seal C = true -> falloc_within H ->
  forall rs s, slots_ok s -> forallb (fun r => negb (known r)) rs = true ->
  forall f, sizes (snd (run H C s rs)) f = sizes s f.
Proof. exact sealed_sizes_outside_known. Qed.

(* requests that stay within the current size (and do not ask for truncation / appending) behave exactly
   as without sealing (result and state), on any tree *)
Theorem C18_within_size_same : forall H no_open fx wb s r,
  size_bounded s -> stays_within s r ->
  step H (mk_cfg true no_open fx wb) s r = step H (mk_cfg false no_open fx wb) s r.
Proof. exact within_size_same. Qed.

(* requests that would change a size are refused with EPERM/EINVAL and change no size, on any tree *)
Theorem C18_refused : forall H no_open fx wb s r,
  would_change s r ->
  (get_data (mk_cfg true no_open fx wb) s (match r with Write k _ _ _ _ | Fallocate k _ _ _ _ => k | _ => 0 end)
            (match r with Write _ f _ _ _ | Fallocate _ f _ _ _ => f | _ => 0 end) <> None \/
   match r with Setattr _ _ _ => True | _ => False end) ->
  (fst (step H (mk_cfg true no_open fx wb) s r) = EPERM \/ fst (step H (mk_cfg true no_open fx wb) s r) = EINVAL) /\
  forall f, sizes (snd (step H (mk_cfg true no_open fx wb) s r)) f = sizes s f.
Proof. exact refused_no_effect. Qed.

(* the concrete linux/ext4 host model used by the tie satisfies the host hypothesis *)
Theorem C18_host_model_ok : falloc_within tie_host.
Proof. exact tie_host_falloc_within. Qed.

(* the three witnesses on the unrepaired model: a 10-byte file ends with 0, 0 and 14 bytes *)
Example C18_unrepaired_witnesses :
  sizes (snd (run tie_host (mk_cfg true false no_fixes false) w_state [Open 0 0 (N.lor 1 O_TRUNC)])) 0 = 0 /\
  sizes (snd (run tie_host (mk_cfg true true no_fixes false) w_state [Create 0 0 (N.lor 2 O_TRUNC)])) 0 = 0 /\
  sizes (snd (run tie_host (mk_cfg true false no_fixes false) w_state [Open 0 0 2; Write 0 0 0 4 (N.lor 2 O_APPEND)])) 0 = 14.
Proof. exact (conj witness_open_trunc (conj witness_create_trunc (proj2 witness_write_append))). Qed.

(* non-vacuity of the partial theorem: a history outside the known class on a satisfiable state, with
   an accepted in-size write, a refused write, a refused fallocate and a refused setattr *)
Example C18_nonvacuous :
  slots_ok w_state /\
  forallb (covered (mk_cfg true false all_fixes false))
          [Open 0 0 2; Write 0 0 2 8 2; Write 0 0 8 8 2; Fallocate 0 0 0 0 11; Setattr 0 true 3] = true /\
  fst (run tie_host (mk_cfg true false all_fixes false) w_state
           [Open 0 0 2; Write 0 0 2 8 2; Write 0 0 8 8 2; Fallocate 0 0 0 0 11; Setattr 0 true 3])
  = [0; 0; EPERM; EPERM; EPERM].
Proof. split; [exact w_state_ok|split; reflexivity]. Qed.

(* on the code as it is the three requests are answered EPERM and nothing changes *)
Example C18_witnesses :
  fst (run tie_host (mk_cfg true false all_fixes false) w_state
           [Open 0 0 (N.lor 1 O_TRUNC); Create 0 0 (N.lor 2 O_TRUNC); Open 0 0 2; Write 0 0 0 4 (N.lor 2 O_APPEND)])
  = [EPERM; EPERM; 0; EPERM] /\
  sizes (snd (run tie_host (mk_cfg true false all_fixes false) w_state
           [Open 0 0 (N.lor 1 O_TRUNC); Create 0 0 (N.lor 2 O_TRUNC); Open 0 0 2; Write 0 0 0 4 (N.lor 2 O_APPEND)])) 0 = 10.
Proof. split; reflexivity. Qed.

Print Assumptions C18_full.
Print Assumptions C18_unrepaired_refuted.
Print Assumptions C18_partial.
Print Assumptions C18_partial_outside_known.
Print Assumptions C18_within_size_same.
Print Assumptions C18_refused.
Print Assumptions C18_host_model_ok.
