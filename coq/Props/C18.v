(* C18 -- a size-sealed export never lets a client change a file's size.
   Only statements, closed by [exact]; proofs live in Proofs/Seal.v.

   [step H C s r]: one request (open / create on an existing name / write / fallocate / setattr /
   release) of Model/Seal.v; [H] the host (fallocate oracle, s_maxbytes), [C] = {seal, no_open, fixes, writeback,
   allow_direct_io}; [sizes s f] the size of pre-existing regular file f.  Every request carries its whole 32-bit
   flag word; [openat_word] / [setfl_word] say which bits reach openat(2) / fcntl(F_SETFL), [host_open] /
   [host_setfl] what linux does with them. *)
From Coq Require Import List NArith Bool.
From FB Require Import Model.Seal Proofs.Seal.
From FB Require Lib.RustExpr Gen.RustPure Proofs.RustPure Proofs.RustPureSeal.
Import ListNotations.
Local Open Scope N_scope.

(* [c_fx C : fixes] records which refusals the source tree contains: do_open / create-on-existing refuse
   O_TRUNC and write refuses a non-empty O_APPEND write under seal_size (commit 4429c29).  The code has all
   three ([all_fixes]); props/c18.py checks that against the source on every run and the tie runs the model
   with [all_fixes], so a tree without one of them is reported as a broken tie with a failing history. *)

(* The statement as given, for the code as it is: with sealing on, no history of requests (ANY flag words - all
   32 bits, open-time bits such as O_TRUNC / O_CREAT / O_PATH in the words of READ and WRITE included -, offsets,
   lengths, fallocate modes, setattr with or without a handle, open/create/release, with or without no_open,
   writeback, allow_direct_io) changes the size of any pre-existing file. *)
Definition C18_full_for (fx : fixes) : Prop := sealed_sizes_full fx.
Theorem C18_full : C18_full_for all_fixes.
Proof. exact sealed_sizes_full_fixed. Qed.

(* Each of the refusals is needed: without them the statement is false (this is what the tree did before
   commit 4429c29: OPEN or CREATE carrying O_TRUNC truncated, a WRITE whose request flags carry O_APPEND
   was checked against its offset but appended at EOF). *)
Theorem C18_unrepaired_refuted : ~ C18_full_for no_fixes.
Proof. exact sealed_sizes_refuted. Qed.

(* Proved part for any tree: the invariant holds for ALL histories whose requests are [covered]: outside
   the narrow known class [known] (O_TRUNC in open/create flags, O_APPEND in a write's flags) or of a kind
   the tree refuses; for every host whose fallocate inside the file keeps the size, from any state whose
   fds agree with their stored flags *)
Theorem C18_partial : forall H C, c_seal C = true -> falloc_within H ->
  forall rs s, slots_ok s -> forallb (covered C) rs = true ->
  forall f, sizes (snd (run H C s rs)) f = sizes s f.
Proof. exact sealed_sizes_partial. Qed.
Theorem C18_partial_outside_known : forall H C, c_seal C = true -> falloc_within H ->
  forall rs s, slots_ok s -> forallb (fun r => negb (known r)) rs = true ->
  forall f, sizes (snd (run H C s rs)) f = sizes s f.
Proof. exact sealed_sizes_outside_known. Qed.

(* requests that stay within the current size (and do not ask for truncation / appending) behave exactly
   as without sealing (result and state), on any tree *)
Theorem C18_within_size_same : forall H no_open fx wb dio s r,
  size_bounded s -> stays_within s r ->
  step H (mk_cfg true no_open fx wb dio) s r = step H (mk_cfg false no_open fx wb dio) s r.
Proof. exact within_size_same. Qed.

(* requests that would change a size and reach a descriptor ([has_data]: a handle of the inode, or no_open) are
   refused - EPERM/EINVAL from the seal, or EBADF when F_SETFL of the request's word fails on an O_PATH descriptor
   before the seal is consulted - and change no size, on any tree *)
Theorem C18_refused : forall H no_open fx wb dio s r,
  would_change s r -> has_data (mk_cfg true no_open fx wb dio) s r ->
  (fst (step H (mk_cfg true no_open fx wb dio) s r) = EPERM \/ fst (step H (mk_cfg true no_open fx wb dio) s r) = EINVAL
   \/ fst (step H (mk_cfg true no_open fx wb dio) s r) = EBADF) /\
  forall f, sizes (snd (step H (mk_cfg true no_open fx wb dio) s r)) f = sizes s f.
Proof. exact refused_no_effect. Qed.

(* the concrete linux/ext4 host model used by the tie satisfies the host hypothesis *)
Theorem C18_host_model_ok : falloc_within tie_host.
Proof. exact tie_host_falloc_within. Qed.

(* the three witnesses on the unrepaired model: a 10-byte file ends with 0, 0 and 14 bytes *)
Example C18_unrepaired_witnesses :
  sizes (snd (run tie_host (mk_cfg true false no_fixes false true) w_state [Open 0 0 (N.lor 1 O_TRUNC)])) 0 = 0 /\
  sizes (snd (run tie_host (mk_cfg true true no_fixes false true) w_state [Create 0 0 (N.lor 2 O_TRUNC)])) 0 = 0 /\
  sizes (snd (run tie_host (mk_cfg true false no_fixes false true) w_state [Open 0 0 2; Write 0 0 0 4 (N.lor 2 O_APPEND)])) 0 = 14.
Proof. exact (conj witness_open_trunc (conj witness_create_trunc (proj2 witness_write_append))). Qed.

(* non-vacuity of the partial theorem: a history outside the known class on a satisfiable state, with
   an accepted in-size write, a refused write, a refused fallocate and a refused setattr *)
Example C18_nonvacuous :
  slots_ok w_state /\
  forallb (covered (mk_cfg true false all_fixes false true))
          [Open 0 0 2; Write 0 0 2 8 2; Write 0 0 8 8 2; Fallocate 0 0 0 0 11; Setattr 0 true 3 None] = true /\
  fst (run tie_host (mk_cfg true false all_fixes false true) w_state
           [Open 0 0 2; Write 0 0 2 8 2; Write 0 0 8 8 2; Fallocate 0 0 0 0 11; Setattr 0 true 3 None])
  = [0; 0; EPERM; EPERM; EPERM].
Proof. split; [exact w_state_ok|split; reflexivity]. Qed.

(* on the code as it is the three requests are answered EPERM and nothing changes *)
Example C18_witnesses :
  fst (run tie_host (mk_cfg true false all_fixes false true) w_state
           [Open 0 0 (N.lor 1 O_TRUNC); Create 0 0 (N.lor 2 O_TRUNC); Open 0 0 2; Write 0 0 0 4 (N.lor 2 O_APPEND)])
  = [EPERM; EPERM; 0; EPERM] /\
  sizes (snd (run tie_host (mk_cfg true false all_fixes false true) w_state
           [Open 0 0 (N.lor 1 O_TRUNC); Create 0 0 (N.lor 2 O_TRUNC); Open 0 0 2; Write 0 0 0 4 (N.lor 2 O_APPEND)])) 0 = 10.
Proof. split; reflexivity. Qed.

(* the flag words of READ / WRITE / FALLOCATE are under the quantifier of [C18_full]: a READ and a WRITE whose words
   carry O_TRUNC (or every bit at once, or O_TRUNC|O_CREAT), with ordinary handles and under no_open where the
   descriptor is opened for the request - for every host, writeback and allow_direct_io setting no size changes *)
Example C18_io_flag_words_covered : forall H no_open wb dio, falloc_within H ->
  forall f, sizes (snd (run H (mk_cfg true no_open all_fixes wb dio) w_state
    (Open 0 0 2 :: [Read 0 0 O_TRUNC; Write 0 0 0 1 (N.lor 2 O_TRUNC); Read 0 0 ALL_BITS; Write 0 0 0 1 ALL_BITS;
                    Write 0 0 0 1 (N.lor (N.lor 2 O_TRUNC) O_CREAT); Fallocate 0 0 0 0 1]))) f = sizes w_state f.
Proof. exact io_flag_words_covered. Qed.
(* those requests are served, not merely refused (F_SETFL ignores O_TRUNC; the all-ones word carries O_APPEND: EPERM) *)
Example C18_io_flag_words_served :
  fst (run tie_host (mk_cfg true true all_fixes false true) w_state io_flag_history) = [0; 0; 0; EPERM; 0; 0] /\
  fst (run tie_host (mk_cfg true false all_fixes false true) w_state (Open 0 0 2 :: io_flag_history)) = [0; 0; 0; 0; EPERM; 0; 0].
Proof. exact io_flag_words_served. Qed.
(* what the theorem rules out: were the word of the request merged into the word given to open_inode
   (access | (flags & !O_ACCMODE)), openat(2) would receive O_TRUNC and cut the 10-byte file to 0; as coded
   ([io_open_flags]) the host is handed the fixed access mode only *)
Example C18_io_flag_leak_would_truncate : forall wb dio,
  snd (fst (host_open 10 (openat_word wb dio (N.lor 2 (clear_bits (N.lor 2 O_TRUNC) O_ACCMODE))))) = 0 /\
  snd (fst (host_open 10 (openat_word wb dio (io_open_flags 2 (N.lor 2 O_TRUNC))))) = 10.
Proof. exact io_flag_leak_would_truncate. Qed.
(* which bits of a word reach the host: O_TRUNC survives open_inode's adjustments, F_SETFL never sees more than status bits *)
Theorem C18_openat_word_keeps_trunc : forall wb dio fl, has (openat_word wb dio fl) O_TRUNC = has fl O_TRUNC.
Proof. exact openat_word_trunc. Qed.

(* ---- tie to the source text (Gen/RustPure.v is re-translated from src/passthrough/mod.rs on every run): the model's
   [seal_size_check] is what the body of PassthroughFs::seal_size_check computes under rustc's integer semantics, for all
   sizes, offsets and fallocate modes, in debug and in release builds ([seal_result e]: Ok(()) for 0, Err(errno e)) *)
Theorem C18_src_seal_size_check_write : forall fsz off len mode,
  fsz < 18446744073709551616 -> off < 18446744073709551616 -> len < 18446744073709551616 -> mode < 4294967296 ->
  RustExpr.eval_fn RustExpr.Debug RustPure.seal_size_check_src
    [RustExpr.VEnum RustPureSeal.op_write; RustExpr.VInt RustExpr.U64 fsz; RustExpr.VInt RustExpr.U64 off; RustExpr.VInt RustExpr.U64 len; RustExpr.VInt RustExpr.I32 mode] =
  RustPureSeal.seal_result (seal_size_check true fsz off len mode).
Proof. exact RustPureSeal.src_seal_size_check_write. Qed.
Theorem C18_src_seal_size_check_fallocate : forall fsz off len mode,
  fsz < 18446744073709551616 -> off < 18446744073709551616 -> len < 18446744073709551616 -> mode < 4294967296 ->
  RustExpr.eval_fn RustExpr.Debug RustPure.seal_size_check_src
    [RustExpr.VEnum RustPureSeal.op_fallocate; RustExpr.VInt RustExpr.U64 fsz; RustExpr.VInt RustExpr.U64 off; RustExpr.VInt RustExpr.U64 len; RustExpr.VInt RustExpr.I32 mode] =
  RustPureSeal.seal_result (seal_size_check false fsz off len mode).
Proof. exact RustPureSeal.src_seal_size_check_fallocate. Qed.
Theorem C18_src_seal_size_check_release : forall (w : bool) fsz off len mode,
  fsz < 18446744073709551616 -> off < 18446744073709551616 -> len < 18446744073709551616 -> mode < 4294967296 ->
  RustExpr.eval_fn RustExpr.Release RustPure.seal_size_check_src
    [RustExpr.VEnum (if w then RustPureSeal.op_write else RustPureSeal.op_fallocate); RustExpr.VInt RustExpr.U64 fsz; RustExpr.VInt RustExpr.U64 off; RustExpr.VInt RustExpr.U64 len; RustExpr.VInt RustExpr.I32 mode] =
  RustPureSeal.seal_result (seal_size_check w fsz off len mode).
Proof. exact RustPureSeal.src_seal_size_check_release. Qed.

Print Assumptions C18_full.
Print Assumptions C18_unrepaired_refuted.
Print Assumptions C18_partial.
Print Assumptions C18_partial_outside_known.
Print Assumptions C18_within_size_same.
Print Assumptions C18_refused.
Print Assumptions C18_host_model_ok.
Print Assumptions C18_openat_word_keeps_trunc.
Print Assumptions C18_src_seal_size_check_write.
Print Assumptions C18_src_seal_size_check_fallocate.
Print Assumptions C18_src_seal_size_check_release.
