(* C09 -- concurrent lookups and forgets never lose a reference or duplicate an inode.
   Only statements, closed by [exact]; proofs live in Proofs/Conc.v.
   The model (Model/Conc.v) is sequentially consistent: the property is PARTIAL with respect to
   weak memory.  Any number of threads, any programs, any interleaving of the atomic steps. *)
From Coq Require Import List NArith Bool Arith.
From FB Require Import Model.Conc Proofs.Conc.
Import ListNotations.
Local Open Scope N_scope.

(* the invariant is inductive over the step relation *)
Theorem C09_inv_step : forall s t s', Body s -> tstep s t = Some s' -> linc s' < U64MAX -> Body s'.
Proof. exact tstep_body. Qed.
(* hence holds in every state reachable from an initial state (file absent, or present with any
   count), for any thread programs, while fewer than 2^64-1 increments were applied *)
Theorem C09_inv : forall r0 progs s,
  reachable (cinit r0 progs) s -> linc s < U64MAX -> Body s.
Proof. exact reachable_body. Qed.

(* no duplicate: at most one inode object of the file carries references (and it is the one in the map) *)
Theorem C09_no_duplicate : forall s g g', Body s -> rcs s g <> 0 -> rcs s g' <> 0 -> g = g'.
Proof. exact no_duplicate. Qed.
(* no lost reference: at every moment the count in the map = references before the run +
   lookups that returned - references actually dropped by the forgets applied so far *)
Theorem C09_count_exact : forall s, Body s ->
  rc_now s + fdec s = base s + ldone s /\ fdec s <= fnom s.
Proof. exact count_exact. Qed.
(* a returned number stays usable until the client forgets it, also when a concurrent forget
   dropped what was the last previous reference *)
Theorem C09_reference_survives : forall s, Body s -> fnom s < base s + ldone s ->
  exists g, cur s = Some g /\ 0 < rcs s g.
Proof. exact reference_survives. Qed.
Theorem C09_lock_exclusive : forall s t t', Body s ->
  locked_pc (pc (thr s t)) = true -> locked_pc (pc (thr s t')) = true -> t = t'.
Proof. exact lock_exclusive. Qed.
(* every state the schedule replay of the tie visits is a reachable state of the step relation *)
Theorem C09_replay_reachable : forall s0 sched s l s',
  reachable s0 s -> run_sched s sched = Some (l, s') -> reachable s0 s'.
Proof. exact run_sched_reach. Qed.

(* non-vacuity: the race of the property text (forget between a lookup's probe and its CAS) *)
Example C09_race :
  match run_sched (cinit 1 ex_progs) ex_sched with
  | Some (tr, s) => tr = [0; 4; 1; 5; 9; 0; 3; 9] /\ rc_now s = 1 /\ ngen s = 2%nat /\ rcs s 0%nat = 0 /\
                    ldone s = 1 /\ fnom s = 1 /\ fdec s = 1
  | None => False
  end.
Proof. exact ex_race. Qed.
Example C09_forget_retry :
  match run_sched (cinit 1 ex_progs) ex_retry_sched with
  | Some (tr, s) => tr = [0; 1; 2; 4; 5; 9; 5; 9] /\ rc_now s = 1 /\ ngen s = 1%nat /\
                    ldone s = 1 /\ fnom s = 1 /\ fdec s = 1
  | None => False
  end.
Proof. exact ex_retry. Qed.
(* readdirplus: an entry that is delivered is a lookup; an entry that does not fit is a lookup followed at once
   (no yield point before the write lock) by forget_one(1) on the same object: both are thread operations of the
   model ([CRdp]), so every theorem above covers them; [ldone] counts the lookups applied (returned, delivered or
   about to be undone), [fnom]/[fdec] include the undo forgets *)
Example C09_readdirplus_undo_race :
  match run_sched (cinit 1 ex_rdp_progs) ex_rdp_sched with
  | Some (tr, s) => tr = [0; 1; 4; 5; 9; 0; 3; 5; 9] /\ rc_now s = 0 /\ cur s = None /\ ngen s = 2%nat /\
                    ldone s = 1 /\ fnom s = 2 /\ fdec s = 2
  | None => False
  end.
Proof. exact ex_rdp. Qed.
Example C09_readdirplus_deliver_race :
  match run_sched (cinit 1 ex_rdp2_progs) [0; 1; 1; 1; 0; 0]%nat with
  | Some (tr, s) => tr = [0; 4; 5; 9; 3; 9] /\ rc_now s = 1 /\ ngen s = 2%nat /\ ldone s = 1 /\ fdec s = 1
  | None => False
  end.
Proof. exact ex_rdp2. Qed.
Example C09_init_body : forall r0 progs, Body (cinit r0 progs).
Proof. exact cinit_body. Qed.

Print Assumptions C09_inv_step.
Print Assumptions C09_inv.
Print Assumptions C09_no_duplicate.
Print Assumptions C09_count_exact.
Print Assumptions C09_reference_survives.
Print Assumptions C09_lock_exclusive.
Print Assumptions C09_replay_reachable.
