(* C03 -- each reply is the exact wire encoding of what the filesystem returned.
   Statements only; proofs in Proofs/Server*.v. *)
From Coq Require Import List String NArith Bool.
From FB Require Import Lib.Bytes Gen.RustDispatch Model.Server Model.ServerCmp Spec.Requests Spec.Replies
  Proofs.ServerPerform Proofs.ServerReply Proofs.ServerDecide Proofs.ServerHandle
  Proofs.ServerDispatch Proofs.ServerEncode Proofs.ServerEncodeDir Proofs.ServerEncodeLift.
From FB Require Import Spec.WfReq Model.Notify Spec.Notify Proofs.ServerEndToEnd Proofs.NotifyProofs.
From FB Require Lib.RustExpr Gen.RustPure Proofs.RustPure Proofs.RustPureServer.
Import ListNotations.
Local Open Scope string_scope.
Local Open Scope list_scope.
Local Open Scope N_scope.

(* errors: the error field of an error reply is the negated errno, for every errno 1..4095 *)
Theorem C03_errno_negated : forall u e, 1 <= e <= 4095 ->
  wellformed_reply u (out_header 16 (neg32 e) u) /\
  dec (firstn 4 (skipn 4 (out_header 16 (neg32 e) u ++ []))) = 2 ^ 32 - e.
Proof.
  intros u e H. split; [apply wf_err_msg; exact H|].
  rewrite hdr_err_field. apply neg32_small. exact H.
Qed.

(* errors without an OS code: the errno is the one the source's encode_io_error_kind table gives
   (table re-read from src/lib.rs on every run), and it is always a valid errno *)
Theorem C03_error_kind_table : forall k,
  encode_io_error_kind k = match lookupNN k rust_error_kinds with Some v => v | None => rust_error_kind_default end.
Proof. exact model_error_kinds. Qed.
Theorem C03_error_kind_valid : forall k, 1 <= encode_io_error_kind k <= 4095.
Proof. exact kind_errno_range. Qed.


(* ====================================================================== universal round trips
   [reply_ok q minor fs msg] (Spec/Replies.v) is the kernel-side decoder: it reads the reply
   message by field NAME through the kernel struct tables and compares with the filesystem
   result [fs].  Below, for ALL values, the bytes the model's encoders produce are accepted.
   [u] is the request's unique; the only side condition on it is that it is a 64-bit value. *)

(* --- errors: FErr (Os n) for every n, FErr (Kind k) for every k *)
Theorem C03_rt_err : forall q minor, q_unique q < 2 ^ 64 -> forall e,
  reply_ok q minor (FErr e) (out_header 16 (neg32 (errno_of e)) (q_unique q)) = true.
Proof. exact rt_err. Qed.

(* --- success replies, one per result kind: header(16 + body length, 0, unique) ++ body *)
Theorem C03_rt_unit : forall q minor, q_unique q < 2 ^ 64 ->
  reply_ok q minor FUnit (out_header (16 + blen []) 0 (q_unique q) ++ []) = true.
Proof. exact rt_unit. Qed.

(* entries (LOOKUP, SYMLINK, MKNOD, MKDIR, LINK): 128 bytes incl. attr flags and both timeouts;
   the exception is a negative entry to a pre-7.4 client on LOOKUP, answered ENOENT *)
Theorem C03_rt_entry : forall q minor, q_unique q < 2 ^ 64 -> forall e,
  (q_op q =? 1) && (minor <? 4) && (e_inode e =? 0) = false ->
  reply_ok q minor (FEntry e)
    (out_header (16 + blen (entry_out e (e_attr_flags e))) 0 (q_unique q) ++ entry_out e (e_attr_flags e)) = true.
Proof. exact rt_entry. Qed.
Theorem C03_rt_entry_enoent : forall q minor, q_unique q < 2 ^ 64 -> forall e,
  (q_op q =? 1) && (minor <? 4) && (e_inode e =? 0) = true ->
  reply_ok q minor (FEntry e) (out_header 16 (neg32 ENOENT) (q_unique q)) = true.
Proof. exact rt_entry_enoent. Qed.

Theorem C03_rt_attr : forall q minor, q_unique q < 2 ^ 64 -> forall st s n,
  reply_ok q minor (FAttr st s n)
    (out_header (16 + blen (attr_out st s n)) 0 (q_unique q) ++ attr_out st s n) = true.
Proof. exact rt_attr. Qed.

(* readlink / xattr value / xattr name list, and read data: the bytes themselves *)
Theorem C03_rt_bytes : forall q minor, q_unique q < 2 ^ 64 -> forall v, 16 + blen v < 2 ^ 32 ->
  reply_ok q minor (FBytes v) (out_header (16 + blen v) 0 (q_unique q) ++ v) = true.
Proof. exact rt_bytes. Qed.
Theorem C03_rt_read : forall q minor, q_unique q < 2 ^ 64 -> forall d, 16 + blen d < 2 ^ 32 ->
  reply_ok q minor (FRead d) (out_header (16 + blen d) 0 (q_unique q) ++ d) = true.
Proof. exact rt_read. Qed.

(* write count (fuse_write_out) and xattr size query (fuse_getxattr_out): for every opcode *)
Theorem C03_rt_count : forall q minor, q_unique q < 2 ^ 64 -> forall n,
  reply_ok q minor (FCount n) (out_header (16 + blen (enc 4 n ++ enc 4 0)) 0 (q_unique q) ++ enc 4 n ++ enc 4 0) = true.
Proof. exact rt_count. Qed.

(* OPEN carries the passthrough value in the padding word; OPENDIR never does *)
Theorem C03_rt_open : forall q minor, q_unique q < 2 ^ 64 -> forall fh o pt, (q_op q =? 27) = false ->
  reply_ok q minor (FOpen fh o pt)
    (out_header (16 + blen (open_out fh o pt)) 0 (q_unique q) ++ open_out fh o pt) = true.
Proof. exact rt_open. Qed.
Theorem C03_rt_opendir : forall q minor, q_unique q < 2 ^ 64 -> forall fh o pt, (q_op q =? 27) = true ->
  reply_ok q minor (FOpen fh o pt)
    (out_header (16 + blen (open_out fh o None)) 0 (q_unique q) ++ open_out fh o None) = true.
Proof. exact rt_opendir. Qed.

Theorem C03_rt_create : forall q minor, q_unique q < 2 ^ 64 -> forall e fh o pt,
  reply_ok q minor (FCreate e fh o pt)
    (out_header (16 + blen (entry_out e (e_attr_flags e) ++ open_out fh o pt)) 0 (q_unique q) ++
     entry_out e (e_attr_flags e) ++ open_out fh o pt) = true.
Proof. exact rt_create. Qed.

Theorem C03_rt_statfs : forall q minor, q_unique q < 2 ^ 64 -> forall s,
  reply_ok q minor (FStatfs s) (out_header (16 + blen (kstatfs_bytes s)) 0 (q_unique q) ++ kstatfs_bytes s) = true.
Proof. exact rt_statfs. Qed.

Theorem C03_rt_lock : forall q minor, q_unique q < 2 ^ 64 -> forall l,
  reply_ok q minor (FLock l) (out_header (16 + blen (flock_bytes l)) 0 (q_unique q) ++ flock_bytes l) = true.
Proof. exact rt_lock. Qed.

Theorem C03_rt_ioctl : forall q minor, q_unique q < 2 ^ 64 -> forall res d, 32 + blen d < 2 ^ 32 ->
  reply_ok q minor (FIoctl res d)
    (out_header (16 + blen (enc 4 res ++ enc 12 0 ++ d)) 0 (q_unique q) ++ enc 4 res ++ enc 12 0 ++ d) = true.
Proof. exact rt_ioctl. Qed.

(* BMAP block / LSEEK offset (8 bytes), POLL revents (4 + 4 bytes) *)
Theorem C03_rt_bmap_lseek : forall q minor, q_unique q < 2 ^ 64 -> forall n, (q_op q =? 40) = false ->
  reply_ok q minor (FNum n) (out_header (16 + blen (enc 8 n)) 0 (q_unique q) ++ enc 8 n) = true.
Proof. exact rt_num8. Qed.
Theorem C03_rt_poll : forall q minor, q_unique q < 2 ^ 64 -> forall n, (q_op q =? 40) = true ->
  reply_ok q minor (FNum n) (out_header (16 + blen (enc 4 n ++ enc 4 0)) 0 (q_unique q) ++ enc 4 n ++ enc 4 0) = true.
Proof. exact rt_poll. Qed.

(* --- directory replies, for every entry list (induction over the list), flag and size:
   at most [size] bytes, a multiple of 8, exactly the records of the longest fitting prefix.
   [names_ok ds]: every name length is below 2^32 (the width of the namelen field). *)
Theorem C03_dirents : forall ds plus size, names_ok ds = true ->
  let p := fill_dirents ds plus size [] in
  blen p <= size /\ blen p mod 8 = 0 /\ dirents_are plus (fitting_prefix plus ds size) p = true.
Proof. exact fill_dirents_ok. Qed.

(* the model's bit-mask padding = the specification's arithmetic rounding *)
Theorem C03_pad8 : forall n, n + 7 < 2 ^ 64 -> pad8 n = ((n + 7) / 8) * 8.
Proof. exact pad8_spec. Qed.

Theorem C03_rt_dirents : forall q minor ds, q_unique q < 2 ^ 64 -> names_ok ds = true ->
  let data := fill_dirents ds (q_op q =? 44) (fld q "size") [] in
  16 + blen data < 2 ^ 32 ->
  reply_ok q minor (FDirents ds) (out_header (16 + blen data) 0 (q_unique q) ++ data) = true.
Proof. exact rt_dirents. Qed.

(* ====================================================================== through the model
   [post_action op minor cap size fs]: the reply action of opcode [op] once the filesystem
   answered [fs] (Proofs/ServerEncodeLift.v; None for opcodes that never send the
   filesystem's result).  "The handler reached its filesystem call" = its call list is not empty. *)
Theorem C03_handler_action : forall cfg h ctx r fr wcap a,
  fst (handler cfg h ctx r fr wcap) <> [] ->
  post_action (h_opcode h) (cfg_minor cfg) wcap (u32 16 r) fr = Some a ->
  snd (handler cfg h ctx r fr wcap) = a.
Proof. exact handler_post. Qed.

(* with enough room, the single packet of an action is header ++ body / the bare error header;
   for READ and READDIR (ReplySplit) this is header(16 + count) ++ exactly the bytes produced *)
Theorem C03_perform_packet : forall cap u a p,
  cap < 2 ^ 32 -> action_msg u a = Some p -> action_len a <= cap ->
  o_packets (perform FuseDev cap u a) = [p].
Proof. exact perform_packet. Qed.
Theorem C03_read_reply_exact : forall cap u data, cap < 2 ^ 32 -> 16 + blen data <= cap ->
  o_packets (perform FuseDev cap u (ReplySplit data)) = [out_header (16 + blen data) 0 u ++ data].
Proof. exact perform_split_packet. Qed.
Theorem C03_perform_mem_virtio : forall cap u a p,
  cap < 2 ^ 32 -> action_msg u a = Some p -> action_len a <= cap ->
  o_mem (perform Virtio cap u a) = p.
Proof. exact perform_mem_virtio. Qed.

(* READDIR / READDIRPLUS since fix 65c0776 (the gate is size + 16 <= buffer, [readdir_room]): the
   records the filesystem adds (at most [size] bytes) always fit the data half of the buffer, so the
   model's EIO branch after the call is unreachable, and a listing handler that reached its call
   answers with exactly the records -- for every request byte string and entry list *)
Theorem C03_readdir_never_overruns : forall ds plus size wcap,
  names_ok ds = true -> size + OUT_HDR <= wcap ->
  (wcap - OUT_HDR <? blen (fill_dirents ds plus size [])) = false.
Proof. exact readdir_never_overruns. Qed.
Theorem C03_readdir_reached_room : forall cfg h ctx r fs wcap,
  h_opcode h = 28 \/ h_opcode h = 44 ->
  fst (handler cfg h ctx r fs wcap) <> [] -> u32 16 r + OUT_HDR <= wcap.
Proof. exact readdir_reached_room. Qed.
Theorem C03_readdir_reply_is_listing : forall cfg h ctx r wcap ds,
  h_opcode h = 28 \/ h_opcode h = 44 -> names_ok ds = true ->
  fst (handler cfg h ctx r (FDirents ds) wcap) <> [] ->
  snd (handler cfg h ctx r (FDirents ds) wcap) =
    ReplySplit (fill_dirents ds (h_opcode h =? 44) (u32 16 r) []).
Proof. exact readdir_reply_is_listing. Qed.

(* the action of every opcode round-trips for every result kind that opcode returns
   ([reply_fits]: read data fits the buffer; names of a listing are shorter than 2^32) *)
Theorem C03_action_roundtrip : forall q minor cap fs a,
  q_unique q < 2 ^ 64 -> cap < 2 ^ 32 ->
  kind_ok (q_op q) fs = true -> reply_fits q cap fs -> readdir_room q cap ->
  post_action (q_op q) minor cap (fld q "size") fs = Some a -> action_len a <= cap ->
  exists p, action_msg (q_unique q) a = Some p /\ reply_ok q minor fs p = true.
Proof. exact post_action_roundtrip. Qed.

(* The property on the model of handle_message, for ALL request bytes [req]: if the request
   carries the opcode / unique / size of [q], the operation was called (two calls: the id
   translation and the operation), the filesystem answered [fs] of a kind that operation
   returns ([kind_ok]; [reply_fits]: read data fits the buffer, names of a listing < 2^32
   bytes -- directory records always fit, C03_readdir_never_overruns) and the reply fits the reply buffer, then exactly one packet reaches /dev/fuse and
   the kernel-side decoder reads [fs] back out of it. *)
Theorem C03_roundtrip : forall cfg cap req q fs,
  q_unique q < 2 ^ 64 -> cap < 2 ^ 32 ->
  u32 4 req = q_op q -> u64 8 req = q_unique q -> u32 56 req = fld q "size" ->
  kind_ok (q_op q) fs = true -> reply_fits q cap fs ->
  (2 <= List.length (h_calls (handle cfg FuseDev cap req fs)))%nat ->
  action_len (snd (fst (decide cfg req fs cap))) <= cap ->
  exists p, o_packets (h_outcome (handle cfg FuseDev cap req fs)) = [p] /\
            reply_ok q (cfg_minor cfg) fs p = true.
Proof. exact handle_roundtrip. Qed.

Theorem C03_roundtrip_virtio : forall cfg cap req q fs,
  q_unique q < 2 ^ 64 -> cap < 2 ^ 32 ->
  u32 4 req = q_op q -> u64 8 req = q_unique q -> u32 56 req = fld q "size" ->
  kind_ok (q_op q) fs = true -> reply_fits q cap fs ->
  (2 <= List.length (h_calls (handle cfg Virtio cap req fs)))%nat ->
  action_len (snd (fst (decide cfg req fs cap))) <= cap ->
  reply_ok q (cfg_minor cfg) fs (o_mem (h_outcome (handle cfg Virtio cap req fs))) = true.
Proof. exact handle_roundtrip_virtio. Qed.

(* LOOKUP, SYMLINK, MKNOD, MKDIR, LINK, CREATE and READDIRPLUS all encode an entry with the
   same function, [entry_out e (e_attr_flags e)] *)
Theorem C03_entry_paths_agree :
  (forall cfg h ctx r wcap e,
     In (h_opcode h) [1; 6; 8; 9; 13] ->
     fst (handler cfg h ctx r (FEntry e) wcap) <> [] ->
     (h_opcode h =? 1) && (cfg_minor cfg <? 4) && (e_inode e =? 0) = false ->
     snd (handler cfg h ctx r (FEntry e) wcap) = ReplyOk (entry_out e (e_attr_flags e))) /\
  (forall cfg h ctx r wcap e fh o pt,
     h_opcode h = 35 ->
     fst (handler cfg h ctx r (FCreate e fh o pt) wcap) <> [] ->
     snd (handler cfg h ctx r (FCreate e fh o pt) wcap) =
     ReplyOk (entry_out e (e_attr_flags e) ++ open_out fh o pt)) /\
  (forall cfg h ctx r wcap ds,
     h_opcode h = 44 ->
     fst (handler cfg h ctx r (FDirents ds) wcap) <> [] ->
     names_ok ds = true ->
     snd (handler cfg h ctx r (FDirents ds) wcap) = ReplySplit (fill_dirents ds true (u32 16 r) [])) /\
  (forall ds size, names_ok ds = true ->
     fill_dirents ds true size [] = flat_map (rec_bytes true) (fitting_prefix true ds size)) /\
  (forall d e, rec_bytes true (d, e) = entry_out e (e_attr_flags e) ++ rec_bytes false (d, e)).
Proof. exact entry_paths_agree. Qed.

(* non-vacuity: the hypotheses of C03_roundtrip hold for a real LOOKUP and a real READDIRPLUS
   request (built with the kernel-side encoder of Spec/Requests.v), and of C03_dirents for a
   list that does not fit entirely *)
Definition ex_cfg : config := {| cfg_minor := 33; cfg_remap := RemapOk 0 0; cfg_vu_req := false; cfg_fsopt_mask := 0 |}.
Definition ex_stat : stat :=
  {| st_ino := 7; st_size := 4096; st_blocks := 8; st_atime := 1; st_mtime := 2; st_ctime := 3;
     st_atime_nsec := 4; st_mtime_nsec := 5; st_ctime_nsec := 6; st_mode := 33188; st_nlink := 1;
     st_uid := 1000; st_gid := 1000; st_rdev := 0; st_blksize := 4096 |}.
Definition ex_entry : entry :=
  {| e_inode := 7; e_generation := 1; e_attr := ex_stat; e_attr_flags := 1;
     e_attr_secs := 5; e_attr_nsecs := 6; e_entry_secs := 7; e_entry_nsecs := 8 |}.
Definition ex_lookup : wfreq :=
  {| q_op := 1; q_unique := 99; q_nodeid := 1; q_uid := 0; q_gid := 0; q_pid := 1; q_fields := [];
     q_name1 := [97; 98]; q_name2 := []; q_payload := []; q_pairs := []; q_flags2 := None |}.
Definition ex_readdirplus : wfreq :=
  {| q_op := 44; q_unique := 100; q_nodeid := 1; q_uid := 0; q_gid := 0; q_pid := 1;
     q_fields := [("fh", 3); ("offset", 0); ("size", 400)];
     q_name1 := []; q_name2 := []; q_payload := []; q_pairs := []; q_flags2 := None |}.
Definition ex_dirents : list (dirent * entry) :=
  [({| d_ino := 7; d_off := 1; d_type := 8; d_name := [97] |}, ex_entry);
   ({| d_ino := 8; d_off := 2; d_type := 4; d_name := [98; 99; 100; 101; 102; 103; 104; 105; 106] |}, ex_entry);
   ({| d_ino := 9; d_off := 3; d_type := 8; d_name := [120] |}, ex_entry)].

Example C03_roundtrip_nonvacuous_lookup :
  let q := ex_lookup in let req := encode_req q in let fs := FEntry ex_entry in
  q_unique q < 2 ^ 64 /\ 8192 < 2 ^ 32 /\
  u32 4 req = q_op q /\ u64 8 req = q_unique q /\ u32 56 req = fld q "size" /\
  kind_ok (q_op q) fs = true /\ reply_fits q 8192 fs /\
  Nat.leb 2 (List.length (h_calls (handle ex_cfg FuseDev 8192 req fs))) = true /\
  (action_len (snd (fst (decide ex_cfg req fs 8192))) <=? 8192) = true.
Proof. vm_compute. repeat split; reflexivity. Qed.

Example C03_roundtrip_nonvacuous_readdirplus :
  let q := ex_readdirplus in let req := encode_req q in let fs := FDirents ex_dirents in
  q_unique q < 2 ^ 64 /\ 8192 < 2 ^ 32 /\
  u32 4 req = q_op q /\ u64 8 req = q_unique q /\ u32 56 req = fld q "size" /\
  kind_ok (q_op q) fs = true /\
  reply_fits q 8192 fs /\
  Nat.leb 2 (List.length (h_calls (handle ex_cfg FuseDev 8192 req fs))) = true /\
  (action_len (snd (fst (decide ex_cfg req fs 8192))) <=? 8192) = true /\
  (* two of the three entries fit 400 bytes: 2 records = 160 + 168 bytes *)
  List.length (fitting_prefix true ex_dirents 400) = 2%nat /\
  blen (fill_dirents ex_dirents true 400 []) = 328.
Proof. vm_compute. repeat split; reflexivity. Qed.


(* ====================================================================== end to end (C02 + C03)
   For EVERY well-formed request [q] (Spec/WfReq.v), laid out by the kernel-side encoder
   [encode_req]: the side hypotheses of C03_roundtrip about the request bytes are theorems ... *)
Theorem C03_encode_req_facts : forall q, wf_req q = true ->
  u32 4 (encode_req q) = q_op q /\ u64 8 (encode_req q) = q_unique q /\
  (q_op q = 28 \/ q_op q = 44 -> u32 56 (encode_req q) = fld q "size").
Proof. exact encode_req_facts. Qed.

(* ... the action handle_message takes is the one of the opcode's line in [post_action]
   (the operation is reached: C02_decode_exact) ... *)
Theorem C03_decide_action : forall cfg q fs cap du dg,
  wf_req q = true -> cfg_remap cfg = RemapOk du dg -> env_ok cfg cap q = true ->
  kind_ok (q_op q) fs = true ->
  exists a, post_action (q_op q) (cfg_minor cfg) cap (fld q "size") fs = Some a /\
            snd (fst (decide cfg (encode_req q) fs cap)) = a.
Proof. exact decide_action_post. Qed.

(* ... and so: request in, filesystem answer [fs] of a kind the operation returns, reply fits
   the buffer  ==>  exactly one packet, from which the kernel reads [fs] back.
   ([kind_ok] implies the opcode is one the client waits on: C03_kind_ok_needs_answer.) *)
Theorem C03_end_to_end : forall cfg q fs cap du dg minor,
  wf_req q = true -> cfg_remap cfg = RemapOk du dg -> env_ok cfg cap q = true ->
  cfg_minor cfg = minor ->
  kind_ok (q_op q) fs = true -> reply_fits q cap fs -> cap < 2 ^ 32 ->
  action_len (snd (fst (decide cfg (encode_req q) fs cap))) <= cap ->
  exists p, o_packets (h_outcome (handle cfg FuseDev cap (encode_req q) fs)) = [p] /\
            reply_ok q minor fs p = true.
Proof. exact end_to_end. Qed.

Theorem C03_end_to_end_virtio : forall cfg q fs cap du dg minor,
  wf_req q = true -> cfg_remap cfg = RemapOk du dg -> env_ok cfg cap q = true ->
  cfg_minor cfg = minor ->
  kind_ok (q_op q) fs = true -> reply_fits q cap fs -> cap < 2 ^ 32 ->
  action_len (snd (fst (decide cfg (encode_req q) fs cap))) <= cap ->
  o_packets (h_outcome (handle cfg Virtio cap (encode_req q) fs)) = [] /\
  reply_ok q minor fs (o_mem (h_outcome (handle cfg Virtio cap (encode_req q) fs))) = true.
Proof. exact end_to_end_virtio. Qed.

Theorem C03_kind_ok_needs_answer : forall op fs, kind_ok op fs = true -> needs_answer op = true.
Proof. exact kind_ok_needs_answer. Qed.

(* instances, computed: a MKDIR answered with an entry; a READDIRPLUS offered two entries
   (160 and 168 bytes) with size 300, which cuts the second *)
Definition ex_mkdir : wfreq :=
  {| q_op := 9; q_unique := 18446744073709551615; q_nodeid := 1; q_uid := 1000; q_gid := 1000; q_pid := 77;
     q_fields := [("mode", 493); ("umask", 18)];
     q_name1 := [100; 105; 114]; q_name2 := []; q_payload := []; q_pairs := []; q_flags2 := None |}.
Definition ex_readdirplus_cut : wfreq :=
  {| q_op := 44; q_unique := 101; q_nodeid := 1; q_uid := 0; q_gid := 0; q_pid := 1;
     q_fields := [("fh", 3); ("offset", 0); ("size", 300)];
     q_name1 := []; q_name2 := []; q_payload := []; q_pairs := []; q_flags2 := None |}.
Definition ex_dirents2 : list (dirent * entry) := firstn 2 ex_dirents.

Example C03_end_to_end_mkdir :
  let q := ex_mkdir in let fs := FEntry ex_entry in
  (wf_req q = true /\ env_ok ex_cfg 8192 q = true /\ kind_ok (q_op q) fs = true /\ reply_fits q 8192 fs /\
   action_len (snd (fst (decide ex_cfg (encode_req q) fs 8192))) <= 8192) /\
  exists p, o_packets (h_outcome (handle ex_cfg FuseDev 8192 (encode_req q) fs)) = [p] /\
            List.length p = 144%nat /\ reply_ok q 33 fs p = true.
Proof.
  split; [vm_compute; repeat split; try reflexivity; discriminate|].
  eexists. split; [vm_compute; reflexivity|]. split; vm_compute; reflexivity.
Qed.

Example C03_end_to_end_readdirplus_cut :
  let q := ex_readdirplus_cut in let fs := FDirents ex_dirents2 in
  (wf_req q = true /\ env_ok ex_cfg 8192 q = true /\ kind_ok (q_op q) fs = true /\ reply_fits q 8192 fs /\
   action_len (snd (fst (decide ex_cfg (encode_req q) fs 8192))) <= 8192) /\
  List.length (fitting_prefix true ex_dirents2 300) = 1%nat /\
  exists p, o_packets (h_outcome (handle ex_cfg FuseDev 8192 (encode_req q) fs)) = [p] /\
            List.length p = 176%nat /\ reply_ok q 33 fs p = true.
Proof.
  split; [vm_compute; repeat split; try reflexivity; discriminate|].
  split; [vm_compute; reflexivity|].
  eexists. split; [vm_compute; reflexivity|]. split; vm_compute; reflexivity.
Qed.

(* ====================================================================== notifications
   The three notification builders (Model/Notify.v), for ALL arguments: a message that fits the
   writer goes out as exactly one write call carrying the whole message; one that does not fit
   fails (FailedToWrite) with nothing written; and the message is what the kernel reads
   (Spec/Notify.v: unique 0, error field = the notify code, length field = total size, the
   struct fields by kernel field name, the name with its NUL). *)
Theorem C03_notify_one_write : forall cap n,
  blen (notify_msg n) <= cap -> run_notify cap n = Some [notify_msg n].
Proof. exact notify_one_write. Qed.

Theorem C03_notify_too_big : forall cap n,
  cap < blen (notify_msg n) -> run_notify cap n = None.
Proof. exact notify_too_big. Qed.

Theorem C03_notify_msg_ok : forall n,
  blen (notify_msg n) < 2 ^ 32 -> notify_ok n (notify_msg n) = true.
Proof. exact notify_msg_ok. Qed.

Theorem C03_notify_len : forall n,
  blen (notify_msg n) =
  match n with NInvalEntry _ name => 33 + blen name | NInvalInode _ _ _ => 40 | NResend => 16 end.
Proof. exact notify_msg_len. Qed.

Theorem C03_notify : forall cap n,
  cap < 2 ^ 32 -> blen (notify_msg n) <= cap ->
  exists p, run_notify cap n = Some [p] /\ notify_ok n p = true.
Proof. exact notify_run_ok. Qed.

Example C03_notify_nonvacuous :
  let n := NInvalEntry 18446744073709551615 [102; 111; 111] in
  blen (notify_msg n) = 36 /\ (exists p, run_notify 36 n = Some [p] /\ notify_ok n p = true) /\
  run_notify 35 n = None /\
  run_notify 40 (NInvalInode 7 4096 18446744073709551615) = Some [notify_msg (NInvalInode 7 4096 18446744073709551615)] /\
  run_notify 15 NResend = None.
Proof.
  split; [vm_compute; reflexivity|]. split; [eexists; split; vm_compute; reflexivity|].
  vm_compute. repeat split; reflexivity.
Qed.

(* ---- tie to the source text (Gen/RustPure.v is re-translated from src/api/server/sync_io.rs on every run): the size
   arithmetic of add_dirent (size_of::<Dirent>() + name length, padded to 8, + size_of::<EntryOut>() for readdirplus; the
   entry is skipped with Ok(0) iff max.saturating_sub(bytes_written) < total) is [pad8] / [dirent_total] / the skip test
   of [fill_dirents]; the struct sizes are recomputed from src/abi on every run *)
Theorem C03_src_add_dirent : forall max nl plus written,
  max < 4294967296 -> nl <= 4294967295 -> written < 18446744073709551616 ->
  RustExpr.eval_fn RustExpr.Debug RustPure.add_dirent_src
    [RustExpr.VInt RustExpr.U32 max; RustExpr.VInt RustExpr.Usize nl; RustExpr.VBool plus; RustExpr.VInt RustExpr.Usize written] =
  RustPureServer.add_dirent_spec (pad8 (24 + nl) + (if plus then 128 else 0)) max written.
Proof. exact RustPureServer.src_add_dirent_server. Qed.
Theorem C03_src_add_dirent_long_name : forall max nl plus written,
  max < 4294967296 -> 4294967295 < nl -> nl < 18446744073709551616 -> written < 18446744073709551616 ->
  RustExpr.eval_fn RustExpr.Debug RustPure.add_dirent_src
    [RustExpr.VInt RustExpr.U32 max; RustExpr.VInt RustExpr.Usize nl; RustExpr.VBool plus; RustExpr.VInt RustExpr.Usize written] =
  RustExpr.Val (RustExpr.VErr (RustExpr.VInt RustExpr.I32 75)).
Proof. exact RustPureServer.src_add_dirent_long_name. Qed.

Print Assumptions C03_errno_negated.
Print Assumptions C03_error_kind_table.
Print Assumptions C03_error_kind_valid.
Print Assumptions C03_rt_err.
Print Assumptions C03_rt_unit.
Print Assumptions C03_rt_entry.
Print Assumptions C03_rt_entry_enoent.
Print Assumptions C03_rt_attr.
Print Assumptions C03_rt_bytes.
Print Assumptions C03_rt_read.
Print Assumptions C03_rt_count.
Print Assumptions C03_rt_open.
Print Assumptions C03_rt_opendir.
Print Assumptions C03_rt_create.
Print Assumptions C03_rt_statfs.
Print Assumptions C03_rt_lock.
Print Assumptions C03_rt_ioctl.
Print Assumptions C03_rt_bmap_lseek.
Print Assumptions C03_rt_poll.
Print Assumptions C03_dirents.
Print Assumptions C03_pad8.
Print Assumptions C03_rt_dirents.
Print Assumptions C03_handler_action.
Print Assumptions C03_perform_packet.
Print Assumptions C03_read_reply_exact.
Print Assumptions C03_perform_mem_virtio.
Print Assumptions C03_readdir_never_overruns.
Print Assumptions C03_readdir_reached_room.
Print Assumptions C03_readdir_reply_is_listing.
Print Assumptions C03_action_roundtrip.
Print Assumptions C03_roundtrip.
Print Assumptions C03_roundtrip_virtio.
Print Assumptions C03_entry_paths_agree.
Print Assumptions C03_encode_req_facts.
Print Assumptions C03_decide_action.
Print Assumptions C03_end_to_end.
Print Assumptions C03_end_to_end_virtio.
Print Assumptions C03_kind_ok_needs_answer.
Print Assumptions C03_notify_one_write.
Print Assumptions C03_notify_too_big.
Print Assumptions C03_notify_msg_ok.
Print Assumptions C03_notify_len.
Print Assumptions C03_notify.
Print Assumptions C03_src_add_dirent.
Print Assumptions C03_src_add_dirent_long_name.
