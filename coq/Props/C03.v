(* C03 -- each reply is the exact wire encoding of what the filesystem returned.
   Statements only; proofs in Proofs/Server*.v. *)
From Coq Require Import List String NArith Bool.
From FB Require Import Lib.Bytes Gen.RustDispatch Model.Server Proofs.ServerPerform Proofs.ServerReply Proofs.ServerDecide
  Proofs.ServerDispatch.
Import ListNotations.
Local Open Scope N_scope.

(* errors: the error field of an error reply is the negated errno, for every errno 1..4095 *)
Theorem C03_errno_negated : forall u e, 1 <= e <= 4095 ->
  wellformed_reply u (out_header 16 (neg32 e) u) /\
  dec (firstn 4 (skipn 4 (out_header 16 (neg32 e) u ++ []))) = 2 ^ 32 - e.
Proof.
  intros u e H. split; [apply wf_err_msg; exact H|].
  rewrite hdr_err_field. apply neg32_small. exact H.
Qed.

(* errors without an OS code: the errno is the one the source's encode_io_error_kind table gives
   (table re-read from src/lib.rs on every run), and it is always a valid errno *)
Theorem C03_error_kind_table : forall k,
  encode_io_error_kind k = match lookupNN k rust_error_kinds with Some v => v | None => rust_error_kind_default end.
Proof. exact model_error_kinds. Qed.
Theorem C03_error_kind_valid : forall k, 1 <= encode_io_error_kind k <= 4095.
Proof. exact kind_errno_range. Qed.

Print Assumptions C03_errno_negated.
Print Assumptions C03_error_kind_table.
Print Assumptions C03_error_kind_valid.
