(* C06 -- nothing outside the exported directory is reachable; names are single components.
   Only statements, closed by [exact]; proofs live in Proofs/Names.v, Proofs/HostFs.v,
   Proofs/PassthroughConfined.v, Proofs/PassthroughHistory.v. *)
From Coq Require Import List String NArith Bool.
From FB Require Import Gen.Validators Model.Names Model.HostFs Model.Passthrough
  Proofs.Names Proofs.HostFs Proofs.PassthroughConfined Proofs.PassthroughHistory.
Import ListNotations.
Local Open Scope N_scope.

(* (a) what the name predicates accept, for ALL byte lists a &CStr can hold *)
Theorem C06_name_predicate : forall n, nul_free n ->
  (is_safe_path_component n = true <-> ~ In 47 n /\ n <> dot /\ n <> dotdot).
Proof. exact names_safe_iff. Qed.
Theorem C06_validate : forall n, nul_free n ->
  (validate_path_component n = None <-> ~ In 47 n /\ n <> dot /\ n <> dotdot) /\
  (validate_path_component n <> None -> validate_path_component n = Some Names.EINVAL).
Proof. exact validate_iff. Qed.
Theorem C06_lookup_check : forall n,
  (lookup_check n = None <-> ~ In 47 n) /\ (lookup_check n <> None -> lookup_check n = Some Names.EINVAL).
Proof. exact lookup_check_iff. Qed.
Theorem C06_dotdot_root_name : forall n, nul_free n ->
  lookup_name true dotdot = dot /\ (n <> dotdot -> lookup_name true n = n) /\ lookup_name false n = n.
Proof. exact lookup_name_spec. Qed.

(* (b) the translated tables cover the required validations, each before the first effect *)
Theorem C06_validators_vfs : forall m a r, In (m, a, r) required -> r <> RFree ->
  validated_before_effect false vfs_methods m a r.
Proof. exact validators_vfs. Qed.
Theorem C06_validators_passthrough : forall m a r, In (m, a, r) required -> r <> RFree ->
  validated_before_effect true pt_methods m a r.
Proof. exact validators_pt. Qed.
Theorem C06_validators_no_unknown_name_argument :
  (forall vm a, In vm vfs_methods -> In a (m_names vm) -> lookup_req (m_name vm) a <> None) /\
  (forall vm a, In vm pt_methods -> In a (m_names vm) -> lookup_req (m_name vm) a <> None).
Proof. exact validators_no_unknown_name_args. Qed.

(* unsafe names are rejected with EINVAL and nothing happens *)
Theorem C06_lookup_rejects_slash : forall cf s parent n, In 47 n ->
  pstep cf s (QLookup parent n) = (RpErr HostFs.EINVAL, None, None, s).
Proof. exact lookup_rejects_slash. Qed.
Theorem C06_mutators_reject_unsafe : forall cf s q n, c_do_import cf = true ->
  (forall m, In m (mutator_names q) -> nul_free m) -> In n (mutator_names q) -> unsafe n ->
  pstep cf s q = (RpErr HostFs.EINVAL, None, None, s).
Proof. exact mutators_reject_unsafe. Qed.
Theorem C06_vfs_first : forall cf s q e, vfs_check q = Some e -> vfs_pstep cf s q = (RpErr e, None, None, s).
Proof. exact vfs_rejects_first. Qed.
Theorem C06_vfs_rejects_unsafe : forall q n, (forall m, In m (mutator_names q) -> nul_free m) ->
  In n (mutator_names q) -> unsafe n -> vfs_check q = Some Names.EINVAL.
Proof. exact vfs_check_unsafe. Qed.
Theorem C06_single_component : forall c h d n dots, has_slash n = false -> dots <> EMULTI ->
  lookup1 c h d n <> Err EMULTI /\ create_check c h d n <> Err EMULTI /\ remove_check c h d n dots <> Err EMULTI.
Proof. exact single_component_fronts. Qed.

(* the creating open always carries O_EXCL: the only form for which the host model (and the kernel) refuses to
   follow a symlink in the final component *)
Theorem C06_create_never_follows : forall c h d n flags mode,
  fst (sys_openat_creat_excl c h d n (N.lor (N.lor flags O_CREAT) O_EXCL) mode) <> Err EFOLLOW.
Proof. exact create_excl_never_follows. Qed.

(* (c) confinement: for every inside set E (E0 plus everything allocated later), every state
   satisfying the invariant, every request: the invariant is kept, every inode outside E is left
   exactly as it was, and every attribute returned is that of an inode of E *)
Theorem C06_confined_step : forall E0 n0 root cf s q rp io ho s', Inv E0 n0 root s ->
  pstep cf s q = (rp, io, ho, s') ->
  (Inv E0 n0 root s' /\ frameE E0 n0 (p_host s) (p_host s')) /\ reply_ok E0 n0 rp.
Proof. exact pstep_good. Qed.
Theorem C06_confined : forall E0 n0 root cf qs r out rf, Inv E0 n0 root (r_p r) -> run cf r qs = (out, rf) ->
  Inv E0 n0 root (r_p rf) /\ frameE E0 n0 (p_host (r_p r)) (p_host (r_p rf)) /\
  Forall (fun o => reply_ok E0 n0 (fst o)) out.
Proof. exact run_confined. Qed.
Theorem C06_confined_behind_vfs : forall E0 n0 root cf s q rp io ho s', Inv E0 n0 root s ->
  vfs_pstep cf s q = (rp, io, ho, s') ->
  Inv E0 n0 root s' /\ frameE E0 n0 (p_host s) (p_host s') /\ reply_ok E0 n0 rp.
Proof. exact vfs_pstep_good. Qed.
Theorem C06_invariant_decidable : forall E0 n0 root s, inv_check E0 n0 root s = true -> Inv E0 n0 root s.
Proof. exact inv_check_sound. Qed.
(* a single component under O_PATH|O_NOFOLLOW lands on the directory itself, its parent or a child:
   inside E unless it is ".." of the export root *)
Theorem C06_lookup_inside : forall E0 n0 root c h d n i, closedE E0 n0 root h -> inE E0 n0 d ->
  (d <> root \/ is_dotdot n = false) -> lookup1 c h d n = Ok i -> inE E0 n0 i.
Proof. exact lookup1_inE. Qed.
Theorem C06_dotdot_root : forall n, is_dotdot (lookup_name true n) = false.
Proof. exact lookup_name_root_not_dotdot. Qed.

(* non-vacuity: the invariant holds on a sentinel tree with planted links pointing outside, and a
   history with "..", a planted link, a rejected mkdir and a rename of a directory leaves the
   outside inodes untouched *)
Example C06_nonvacuous : Inv ex_E0 17 12 (init_state ex_host 12).
Proof. exact ex_inv. Qed.
Example C06_nonvacuous_run :
  let rf := snd (run (mkCfg true false false false false true 2 true false) (start ex_host 12) ex_history) in
  get (p_host (r_p rf)) 10 = get ex_host 10 /\ get (p_host (r_p rf)) 11 = get ex_host 11 /\
  map fst (fst (run (mkCfg true false false false false true 2 true false) (start ex_host 12) ex_history)) <> [].
Proof. exact ex_run_outside_unchanged. Qed.

Print Assumptions C06_name_predicate.
Print Assumptions C06_validate.
Print Assumptions C06_lookup_check.
Print Assumptions C06_dotdot_root_name.
Print Assumptions C06_validators_vfs.
Print Assumptions C06_validators_passthrough.
Print Assumptions C06_validators_no_unknown_name_argument.
Print Assumptions C06_lookup_rejects_slash.
Print Assumptions C06_mutators_reject_unsafe.
Print Assumptions C06_vfs_first.
Print Assumptions C06_vfs_rejects_unsafe.
Print Assumptions C06_single_component.
Print Assumptions C06_create_never_follows.
Print Assumptions C06_confined_step.
Print Assumptions C06_confined.
Print Assumptions C06_confined_behind_vfs.
Print Assumptions C06_invariant_decidable.
Print Assumptions C06_lookup_inside.
Print Assumptions C06_dotdot_root.
