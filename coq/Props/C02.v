(* C02 -- each request is decoded into exactly the operation and arguments the client sent.
   Statements only; proofs in Proofs/Server*.v. *)
From Coq Require Import List String NArith Bool.
From FB Require Import Lib.Bytes Lib.Layout Gen.RustDispatch Gen.RustABI Model.Server Spec.KernelABI Spec.Requests
  Spec.WfReq Proofs.ServerDispatch Proofs.ServerPerform Proofs.ServerReply Proofs.ServerDecide Proofs.ServerHandle
  Proofs.ServerDecodeLib Proofs.ServerDecodeOps Proofs.ServerDecodeOps2 Proofs.ServerDecode
  Model.ServerSrc Gen.RustHandlers Proofs.ServerHandlersSrc Proofs.ServerHandlersSrcSpec.
Import ListNotations.
Local Open Scope string_scope.
Local Open Scope list_scope.
Local Open Scope N_scope.

(* The dispatch `match` of handle_message, re-read from the source on every run: every arm calls
   the filesystem operation its opcode denotes (and no other), e.g. SETLKW -> setlkw. *)
Theorem C02_dispatch_table : forallb dispatch_entry_ok rust_dispatch = true.
Proof. exact dispatch_all_ok. Qed.

(* every opcode of the protocol revision (except COPY_FILE_RANGE, answered ENOSYS) has an arm, and no other number has *)
Theorem C02_dispatch_complete : listN_eqb (sort dispatched) (sort spec_opcodes) = true.
Proof. exact dispatch_complete. Qed.
Theorem C02_unknown_opcodes_enosys : rust_dispatch_default_errno = ENOSYS.
Proof. exact dispatch_default_enosys. Qed.

(* the model dispatches exactly the opcodes the source dispatches, with the source's constants *)
Theorem C02_model_dispatch_matches_source : listN_eqb (sort (26 :: map fst handlers)) (sort dispatched) = true.
Proof. exact model_table_matches. Qed.

(* Arc<FS> forwards every trait method to the same method with the arguments in order *)
Theorem C02_arc_forwarding : forallb (fun e => String.eqb (fst (fst e)) (snd (fst e)) && snd e) rust_arc_forward = true.
Proof. exact arc_forwarding_identity. Qed.

Print Assumptions C02_dispatch_table.
Print Assumptions C02_dispatch_complete.
Print Assumptions C02_unknown_opcodes_enosys.
Print Assumptions C02_model_dispatch_matches_source.
Print Assumptions C02_arc_forwarding.

(* ---------------------------------------------------------------------------------------------
   Universal decode theorem.  For EVERY well-formed request [q] (Spec/WfReq.v: any of the 45
   request opcodes, any header and field values that fit their kernel widths, any NUL-free names,
   any payload / pair list consistent with its length field), every filesystem answer, every
   id-remap offsets: the server, given the kernel layout of [q], makes the caller-id translation
   call and then exactly the filesystem operation [expected_call q] with exactly the specified
   arguments -- and nothing else. *)
Theorem C02_decode_exact : forall cfg q fr cap du dg,
  wf_req q = true -> cfg_remap cfg = RemapOk du dg -> env_ok cfg cap q = true ->
  fst (fst (decide cfg (encode_req q) fr cap)) =
    remap_call q ::
    match expected_call q ((q_uid q + du) mod 2 ^ 32, (q_gid q + dg) mod 2 ^ 32, q_pid q) with
    | Some c => [c] | None => [] end.
Proof. exact decode_exact. Qed.

(* [wf_req] admits every opcode the server dispatches except INIT (whose decoding is C12 / Spec/Init.v) *)
Theorem C02_wf_ops_all_dispatched : wf_ops = map fst handlers.
Proof. exact wf_ops_are_the_table. Qed.

(* the same, per handler: for every opcode [k] in the dispatch table, its handler run on the body of
   an encoded well-formed request makes exactly the expected call (all 45 table entries) *)
Theorem C02_every_handler_exact : Forall (fun e => handler_exact (fst e) (snd e)) handlers.
Proof. exact handlers_all_exact. Qed.

(* C01 corollary: a well-formed request the client waits on (every opcode except FORGET,
   BATCH_FORGET, INTERRUPT, NOTIFY_REPLY) is answered: the action is never NoReply ... *)
Theorem C01_answer_required : forall cfg q fr cap du dg,
  wf_req q = true -> cfg_remap cfg = RemapOk du dg -> env_ok cfg cap q = true ->
  needs_answer (q_op q) = true ->
  replies (snd (fst (decide cfg (encode_req q) fr cap))) = true.
Proof. exact answer_required. Qed.

(* ... a replying action that fits the buffer is exactly one write ... *)
Theorem C01_reply_is_one_packet : forall cap u a,
  replies a = true -> action_size a <= cap ->
  exists p, o_packets (perform FuseDev cap u a) = [p].
Proof. exact perform_one_packet. Qed.

(* ... hence handle_message emits exactly one packet, a complete reply carrying the request's unique *)
Theorem C01_answer_exactly_one_packet : forall cfg q fr cap du dg,
  wf_req q = true -> cfg_remap cfg = RemapOk du dg -> env_ok cfg cap q = true ->
  needs_answer (q_op q) = true -> cap < 2 ^ 32 -> fs_ok fr ->
  action_size (snd (fst (decide cfg (encode_req q) fr cap))) <= cap ->
  exists p, o_packets (h_outcome (handle cfg FuseDev cap (encode_req q) fr)) = [p]
            /\ wellformed_reply (q_unique q) p.
Proof. exact answer_one_wellformed_packet. Qed.

(* non-vacuity: non-trivial requests (boundary values in header and fields, names, payload, pairs)
   are well-formed, for five opcodes; and the theorem's conclusion on one of them, computed *)
Example C02_wf_req_nonvacuous :
  wf_req sample_lookup = true /\ wf_req sample_write = true /\ wf_req sample_rename2 = true /\
  wf_req sample_readdirplus = true /\ wf_req sample_batch_forget = true /\
  env_ok sample_cfg 8192 sample_readdirplus = true /\ env_ok sample_cfg 0 sample_write = true.
Proof. vm_compute. repeat split; reflexivity. Qed.

Example C02_decode_exact_instance :
  fst (fst (decide sample_cfg (encode_req sample_write) FUnit 0)) =
  [mk "id_remap" (1000, 4294967295, 4242) [AN 4660];
   mk "write" (0, 0, 4242)
      [AN 4660; AN 18446744073709551615; AB [104; 101; 108; 108; 111]; AN 5; AN 4096;
       AO (Some 81985529216486895); ABool true; AN 32769; AN 3]].
Proof. vm_compute. reflexivity. Qed.

Example C01_answer_nonvacuous :
  needs_answer (q_op sample_rename2) = true /\ fs_ok (FErr (Os 13)) /\
  action_size (snd (fst (decide sample_cfg (encode_req sample_rename2) (FErr (Os 13)) 4096))) <= 4096.
Proof. vm_compute. repeat split; discriminate. Qed.

Print Assumptions C02_decode_exact.
Print Assumptions C02_wf_ops_all_dispatched.
Print Assumptions C02_every_handler_exact.
Print Assumptions C01_answer_required.
Print Assumptions C01_reply_is_one_packet.
Print Assumptions C01_answer_exactly_one_packet.

(* ---------------------------------------------------------------------------------------------
   Tie of the hand model to the SOURCE of the handlers.  Gen/RustHandlers.v is re-translated from the
   bodies of the handler functions of src/api/server/sync_io.rs on every run: per dispatch arm the
   ordered request reads, the tests that guard the filesystem call, and the call itself as a function
   of the decoded request (struct fields by NAME through the translated layouts, translated constants).
   [src_calls e cfg h ctx r wcap] = the calls the source's handler makes on request body [r].

   For every row of that table and ALL configurations, headers, caller contexts, request bodies,
   filesystem answers and reply capacities: the model's handler makes exactly these calls. *)
Theorem C02_src_calls :
  Forall (fun e => match find_handler (se_op e) handlers with
                   | Some f => forall cfg h ctx r fr wcap, bytes_ok r ->
                                 fst (f cfg h ctx r fr wcap) = src_calls e cfg h ctx r wcap
                   | None => False
                   end) src_handlers.
Proof. exact src_ties_all. Qed.

(* every opcode the model dispatches is in the translated table or in the translator's explicit list of handlers
   outside its subset; that list is exactly these three (INIT's decoding is C12) *)
Theorem C02_src_table_covers_model :
  forallb (fun op => existsb (N.eqb op) (map se_op src_handlers) || existsb (N.eqb op) (map fst untranslated_handlers))
          (26 :: map fst handlers) = true.
Proof. exact src_table_covers. Qed.
Theorem C02_src_untranslated_are :
  untranslated_handlers = [(21, "setxattr"); (26, "init"); (39, "ioctl")].
Proof. exact src_untranslated_pinned. Qed.

(* the same at the level of handle_message, for arbitrary (not only well-formed) requests: after the header read,
   the id remap and the size gate, the calls are the id-remap call and then what the source's handler body does *)
Theorem C02_src_decide_calls : forall e, In e src_handlers ->
  forall cfg req fr wcap hb r du dg,
    bytes_ok req -> read_obj 40 req = Some (hb, r) ->
    h_opcode (parse_hdr hb) = se_op e ->
    cfg_remap cfg = RemapOk du dg ->
    h_len (parse_hdr hb) <= MAX_BUFFER_SIZE + BUFFER_HEADER_SIZE ->
    let h := parse_hdr hb in
    fst (fst (decide cfg req fr wcap)) =
      mk "id_remap" (h_uid h, h_gid h, h_pid h) [AN (h_nodeid h)] ::
      src_calls e cfg h ((h_uid h + du) mod 4294967296, (h_gid h + dg) mod 4294967296, h_pid h) r wcap.
Proof. exact src_decide_calls. Qed.

(* composition with C02_every_handler_exact: on every well-formed request the call read off the Rust handler body
   (crate layouts, crate constants) is exactly the call the specification prescribes (kernel layouts, kernel names) *)
Theorem C02_src_calls_meet_spec : forall e, In e src_handlers ->
  forall q cfg cap ctx,
    wf_req q = true -> q_op q = se_op e -> env_ok cfg cap q = true ->
    src_calls e cfg (qhdr q) ctx (body q) cap =
    match expected_call q ctx with Some c => [c] | None => [] end.
Proof. exact src_calls_meet_spec. Qed.

Theorem C02_src_decide_encoded : forall e, In e src_handlers ->
  forall q cfg fr cap du dg,
    wf_req q = true -> q_op q = se_op e -> cfg_remap cfg = RemapOk du dg ->
    fst (fst (decide cfg (encode_req q) fr cap)) =
      remap_call q ::
      src_calls e cfg (qhdr q) ((q_uid q + du) mod 2 ^ 32, (q_gid q + dg) mod 2 ^ 32, q_pid q) (body q) cap.
Proof. exact src_decide_encoded. Qed.

(* non-vacuity: 43 rows; the WRITE row evaluated on the sample WRITE (header, struct, 5-byte payload) *)
Example C02_src_table_nonvacuous :
  List.length src_handlers = 43%nat /\
  match find (fun e => se_op e =? 16) src_handlers with
  | Some e => src_calls e sample_cfg (qhdr sample_write) (0, 0, 4242) (body sample_write) 0
  | None => []
  end =
  [mk "write" (0, 0, 4242)
      [AN 4660; AN 18446744073709551615; AB [104; 101; 108; 108; 111]; AN 5; AN 4096;
       AO (Some 81985529216486895); ABool true; AN 32769; AN 3]].
Proof. split; [reflexivity|exact src_calls_sample_write]. Qed.

Print Assumptions C02_src_calls.
Print Assumptions C02_src_table_covers_model.
Print Assumptions C02_src_untranslated_are.
Print Assumptions C02_src_decide_calls.
Print Assumptions C02_src_calls_meet_spec.
Print Assumptions C02_src_decide_encoded.
