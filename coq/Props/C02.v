(* C02 -- each request is decoded into exactly the operation and arguments the client sent.
   Statements only; proofs in Proofs/Server*.v. *)
From Coq Require Import List String NArith Bool.
From FB Require Import Lib.Bytes Lib.Layout Gen.RustDispatch Gen.RustABI Model.Server Spec.KernelABI Spec.Requests
  Proofs.ServerDispatch.
Import ListNotations.
Local Open Scope string_scope.
Local Open Scope N_scope.

(* The dispatch `match` of handle_message, re-read from the source on every run: every arm calls
   the filesystem operation its opcode denotes (and no other), e.g. SETLKW -> setlkw. *)
Theorem C02_dispatch_table : forallb dispatch_entry_ok rust_dispatch = true.
Proof. exact dispatch_all_ok. Qed.

(* every opcode of the protocol revision (except COPY_FILE_RANGE, answered ENOSYS) has an arm, and no other number has *)
Theorem C02_dispatch_complete : listN_eqb (sort dispatched) (sort spec_opcodes) = true.
Proof. exact dispatch_complete. Qed.
Theorem C02_unknown_opcodes_enosys : rust_dispatch_default_errno = ENOSYS.
Proof. exact dispatch_default_enosys. Qed.

(* the model dispatches exactly the opcodes the source dispatches, with the source's constants *)
Theorem C02_model_dispatch_matches_source : listN_eqb (sort (26 :: map fst handlers)) (sort dispatched) = true.
Proof. exact model_table_matches. Qed.

(* Arc<FS> forwards every trait method to the same method with the arguments in order *)
Theorem C02_arc_forwarding : forallb (fun e => String.eqb (fst (fst e)) (snd (fst e)) && snd e) rust_arc_forward = true.
Proof. exact arc_forwarding_identity. Qed.

Print Assumptions C02_dispatch_table.
Print Assumptions C02_dispatch_complete.
Print Assumptions C02_unknown_opcodes_enosys.
Print Assumptions C02_model_dispatch_matches_source.
Print Assumptions C02_arc_forwarding.
