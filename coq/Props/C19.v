(* C19 -- saving and restoring VFS state reproduces the same namespace (feature persist).
   Only statements, closed by [exact]; proofs live in Proofs/VfsPersist.v. *)
From Coq Require Import List NArith Bool.
From FB Require Import Model.Pseudo Gen.VfsTable Model.Vfs Model.Persist Model.VfsRun Model.VfsLive
  Proofs.VfsCodec Proofs.VfsAlloc Proofs.VfsInv Proofs.VfsRouting Proofs.PseudoWalk Proofs.VfsPersist Proofs.PseudoTree
  Proofs.VfsEq Proofs.VfsEqOps Proofs.VfsLiveInv Proofs.VfsRoundtrip Proofs.VfsObsEq Proofs.VfsObsEx.
Import ListNotations.
Local Open Scope N_scope.

(* what restore_from_bytes puts back from a snapshot of ANY state s into ANY target Vfs t: the index counter, the
   pseudo inode counter, the negotiated options, the per-mount id mappings; `initialized` is re-derived from the
   options; the global id mapping, remove_pseudo_root and the (empty) mount table stay as t was constructed *)
Theorem C19_restored_fields : forall t s t', vfs_restore t (vfs_save s) = (t', Ok tt) ->
  v_next t' = v_next s /\ ps_next (v_ps t') = ps_next (v_ps s) /\ v_opts t' = v_opts s /\ v_maps t' = v_maps s /\
  v_init t' = negb (o_in (v_opts s) =? 0) /\
  v_gmap t' = v_gmap t /\ v_rm t' = v_rm t /\ v_sb t' = v_sb t /\ v_mps t' = v_mps t.
Proof. exact restore_fields. Qed.

(* re-attaching a backend with restore_mount puts it in the recorded slot and touches neither the counters, the
   mappings nor the options; an inode number issued before the save then routes to it *)
Theorem C19_reattach : forall t bid idx p a t' evs, vfs_restore_mount t bid idx p a = (t', Ok tt, evs) ->
  aget idx (v_sb t') = Some bid /\ v_next t' = v_next t /\ v_maps t' = v_maps t /\ v_opts t' = v_opts t /\
  v_init t' = v_init t /\
  exists pino m, aget pino (v_mps t') = Some m /\ mp_idx m = idx /\ mp_ino m = ma_ino a.
Proof. exact reattach_slot. Qed.
Theorem C19_issued_inodes_route : forall t bid idx ino, 0 < idx < 256 -> 0 < ino <= VFS_MAX_INO ->
  aget idx (v_sb t) = Some bid -> eff t (mk_vino idx ino) = Some (bid, idx, ino).
Proof. exact reattached_routes. Qed.

(* mounts and pseudo directories created afterwards get the indices and numbers they would have got without the
   save/restore: the allocator (the loop as written) depends only on the counter and on which slots are occupied *)
Theorem C19_future_same : forall s t, v_next t = v_next s -> (forall i, aget i (v_sb t) = aget i (v_sb s)) ->
  ps_next (v_ps t) = ps_next (v_ps s) ->
  allocate_fs_idx t = allocate_fs_idx s /\ ps_next (v_ps t) = ps_next (v_ps s).
Proof. exact future_same. Qed.

(* state written in the previous format version (no per-mount mappings) still loads, as the same state without them *)
Theorem C19_v1_loads : forall t s, vfs_restore t (as_v1 (vfs_save s)) = vfs_restore t (vfs_save (with_maps s [])).
Proof. exact v1_loads. Qed.

(* the pseudo tree: connecting the saved inodes in inode-number order appends to every directory exactly its
   children in that order, and succeeds whenever every saved inode's parent is present *)
Theorem C19_pseudo_connect : forall l tbl,
  (forall x, In x l -> aget (fst (fst x)) tbl <> None /\ aget (snd (fst x)) tbl <> None) ->
  exists tbl', connect tbl l = Ok tbl' /\
    forall j, aget j tbl' = option_map (add_kids l j) (aget j tbl).
Proof. exact connect_spec. Qed.

(* the namespace round trip: after ANY history (fewer than 2^56 pseudo directories) of a Vfs that keeps its pseudo
   directories (remove_pseudo_root not set: the default), restoring its snapshot into ANY freshly constructed Vfs
   succeeds and yields the same entry for every pseudo inode number (parent, name, children in the same order) and
   the same counters; and everything the pseudo fs answers (path walks, lookup, getattr, readdir order and offsets,
   parent) depends only on those entries: the same paths resolve to the same pseudo inode numbers *)
Theorem C19_pseudo_roundtrip : forall s o rm, kreach s ->
  exists t', vfs_restore (vfs_new o rm) (vfs_save s) = (t', Ok tt) /\
             same_table (v_ps t') (v_ps s) /\ ps_next (v_ps t') = ps_next (v_ps s) /\ v_next t' = v_next s.
Proof. exact vfs_pseudo_roundtrip. Qed.
Theorem C19_same_table_same_answers : forall a b, same_table a b ->
  (forall p, ps_path_walk a p = ps_path_walk b p) /\
  (forall parent nm, ps_lookup a parent nm = ps_lookup b parent nm) /\
  (forall ino, ps_getattr a ino = ps_getattr b ino) /\
  (forall ino size off, ps_readdir a ino size off = ps_readdir b ino size off) /\
  (forall ino, ps_parent a ino = ps_parent b ino).
Proof. exact ps_answers_same. Qed.
(* the same with remove_pseudo_root set, for histories in which an evicted mount point has no pseudo children (no mount
   path runs through another mount point; nested mounts are unsupported by the Vfs) *)
Theorem C19_pseudo_roundtrip_rm : forall s o rm, lreach s ->
  exists t', vfs_restore (vfs_new o rm) (vfs_save s) = (t', Ok tt) /\
             same_table (v_ps t') (v_ps s) /\ ps_next (v_ps t') = ps_next (v_ps s) /\ v_next t' = v_next s.
Proof. exact vfs_pseudo_roundtrip_rm. Qed.
Theorem C19_tree_invariant_rm : forall s, lreach s -> tree_ok (v_ps s) /\ ps_ok (v_ps s).
Proof. exact lreach_tree. Qed.
(* the tree invariant behind it (children lists = the inodes with that parent in increasing inode order, every parent
   present, no duplicate keys) holds along all those histories, and any pseudo fs satisfying it round-trips *)
Theorem C19_tree_invariant : forall s, kreach s -> tree_ok (v_ps s) /\ keys_lt (v_ps s) /\ v_rm s = false.
Proof. exact kreach_tree. Qed.
Theorem C19_tree_roundtrip : forall ps st, tree_ok ps ->
  st_inodes st = save_inodes ps -> st_next_inode st = ps_next ps ->
  exists ps', ps_restore ps_new st = Ok ps' /\ ps_next ps' = ps_next ps /\
              forall j, aget j (ps_inodes ps') = aget j (ps_inodes ps).
Proof. exact pseudo_roundtrip. Qed.

(* `initialized` is the same after restore: refuted (it is re-derived as in_opts <> 0: an INIT without capability
   bits, or init followed by destroy, is not reproduced); proved when it agrees with the options *)
Definition C19_initialized_full : Prop := initialized_full.
Theorem C19_initialized_refuted : ~ C19_initialized_full.
Proof. exact initialized_refuted. Qed.
Theorem C19_initialized_partial : forall t s t', vfs_restore t (vfs_save s) = (t', Ok tt) ->
  v_init s = negb (o_in (v_opts s) =? 0) -> v_init t' = v_init s.
Proof. exact initialized_partial. Qed.

(* the global id mapping in force after restore is the one the restored options name: refuted when the fresh Vfs
   was built with other options (e.g. VfsOptions::default(), as in the crate's example); proved when the caller
   constructs it with the same id_mapping option *)
Definition C19_global_mapping_full : Prop := global_mapping_full.
Theorem C19_global_mapping_refuted : ~ C19_global_mapping_full.
Proof. exact global_mapping_refuted. Qed.
Theorem C19_global_mapping_partial : forall o rm s t', vfs_restore (vfs_new o rm) (vfs_save s) = (t', Ok tt) ->
  o_idmap o = o_idmap (v_opts s) -> v_gmap t' = gmap_of_opts (v_opts t').
Proof. exact global_mapping_partial. Qed.

(* non-vacuity: a reachable state with two mounts restores, and the restored Vfs allocates what the original would *)
Example C19_nonvacuous_lreach : lreach ex_rm /\ aget 2 (ps_inodes (v_ps ex_rm)) = None /\ aget 4 (ps_inodes (v_ps ex_rm)) <> None.
Proof. exact ex_lreach. Qed.
Example C19_nonvacuous_kreach : exists s, kreach s /\ aget 4 (ps_inodes (v_ps s)) <> None.
Proof. exact ex_kreach. Qed.
Example C19_nonvacuous : exists s t', reachable s /\ vfs_restore (vfs_new default_opts false) (vfs_save s) = (t', Ok tt) /\
  v_next t' = 3 /\ ps_next (v_ps t') = 5.
Proof. exact ex_restore. Qed.

(* ======================================================================================================
   The property as ONE statement.  [run_hist] is the executable history runner of Model/VfsRun.v (mount, over-mount,
   umount, init, destroy, state query, every client request sync and async; its output is the list of per-step
   observations the correspondence check compares with the implementation: results, inode numbers, owner ids, backend
   call logs).  [fill ord c l] gives every save/restore step of l the re-attach list of the caller at that moment
   (Model/VfsLive.v: the bookkeeping of harness/src/bin/vfs.rs), in the order [ord] -- ANY order.
   For every history h before the save, every future fut (further save/restores included), every snapshot version and
   either way of constructing the fresh Vfs: from the save/restore on, every step is observed exactly as in the history
   without it.  [good] (a boolean, Model/VfsLive.v) excludes: the two recorded findings (initialized not persisted when
   it disagrees with in_opts; global id mapping when the fresh Vfs is default-constructed and the saved one had one),
   evictions of pseudo directories that still have children (nested mounts, documented unsupported), version-1
   snapshots of states with per-mount mappings (a version-1 writer had none), recorded mount paths that no longer lead
   to their mount point (only possible with remove_pseudo_root and ".." in a mount path), and histories creating 2^56
   pseudo directories. *)
Theorem C19_observational_equivalence : forall ord, perm_order ord -> forall c h ver dflt hint fut,
  good ord c (h ++ SSaveRestore ver dflt hint :: fut) = true ->
  skipn (S (length h)) (run_hist c (fill ord c (h ++ SSaveRestore ver dflt hint :: fut))) =
  skipn (length h) (run_hist c (fill ord c (h ++ fut))).
Proof. exact obs_equiv. Qed.

(* the unrestricted statement, refuted by the recorded finding (INIT without capability bits); the theorem above is
   its covered part *)
Definition C19_full : Prop := obs_equiv_full.
Theorem C19_full_refuted : ~ C19_full.
Proof. exact obs_equiv_refuted. Qed.
Theorem C19_partial : forall ord, perm_order ord -> forall c h ver dflt hint fut,
  good ord c (h ++ SSaveRestore ver dflt hint :: fut) = true ->
  skipn (S (length h)) (run_hist c (fill ord c (h ++ SSaveRestore ver dflt hint :: fut))) =
  skipn (length h) (run_hist c (fill ord c (h ++ fut))).
Proof. exact obs_equiv. Qed.

(* the pieces of the bisimulation.  R = [veq]: same counters, options, flags and mappings; pseudo inode table, mount
   point table and superblock table give the same entry for every key (the restored tables are built in another order) *)
(* 1. the round trip establishes R, the save/restore step reports success for every backend, and the invariant holds
      again (so it can be repeated): any re-attachment order, any value of the index counter *)
Theorem C19_restore_related : forall c s live ver dflt live', inv c s live -> Permutation.Permutation live' live ->
  save_good c s live ver dflt = true ->
  exists t, run_step c s (SSaveRestore ver dflt (reattach_of live')) = (t, save_ok_obs live', false) /\ veq s t /\ inv c t live.
Proof. exact save_step. Qed.
(* 2. R is preserved by every step that is not a save/restore, with equal observations *)
Theorem C19_step_preserves : forall c s t st, is_save st = false -> veq s t ->
  veq (st_of (run_step c s st)) (st_of (run_step c t st)) /\
  obs_of (run_step c s st) = obs_of (run_step c t st) /\ dead_of (run_step c s st) = dead_of (run_step c t st).
Proof. exact run_step_cong. Qed.
(* 3. hence related states are observed identically for every covered future *)
Theorem C19_bisimulation : forall ord, perm_order ord -> forall c l s t live dead, veq s t -> inv c s live -> inv c t live ->
  good_from ord c s live dead l = true ->
  run_from c s dead (fill_from ord c s live dead l) = run_from c t dead (fill_from ord c t live dead l).
Proof. exact bisim. Qed.
(* 4. idempotence: saving and restoring a restored Vfs gives a related state again *)
Theorem C19_restore_idempotent : forall c s live ver dflt ver2 dflt2, inv c s live ->
  save_good c s live ver dflt = true -> save_good c s live ver2 dflt2 = true ->
  let t1 := restore_and_reattach c ver dflt s live in
  let t2 := restore_and_reattach c ver2 dflt2 t1 live in
  veq s t1 /\ veq s t2 /\ inv c t2 live.
Proof. exact restore_idempotent. Qed.
(* 5. the save/restore step of a covered history succeeds and re-attaches every backend *)
Theorem C19_save_succeeds : forall ord, perm_order ord -> forall c h s live dead ver dflt hint, inv c s live ->
  good_from ord c s live dead (h ++ [SSaveRestore ver dflt hint]) = true ->
  let o := nth (length h) (run_from c s dead (fill_from ord c s live dead (h ++ [SSaveRestore ver dflt hint]))) [] in
  o = [3] \/ exists live', o = save_ok_obs live'.
Proof. exact save_succeeds. Qed.
(* 6. restore_mount leaves the index counter alone: whatever list of backends is re-attached (all, a subset, any order,
      failing ones included), next_super is what restore_from_bytes stored *)
Theorem C19_reattach_keeps_counter : forall l t, v_next (fst (fst (fst (reattach_all t l)))) = v_next t.
Proof. exact reattach_keeps_counter. Qed.

(* the clause "recorded mount paths still lead to their mount point" of [good] is needed: with remove_pseudo_root and
   ".." in a mount path, restore_mount re-creates an evicted pseudo directory (reproduced on the implementation,
   fixes/C19-restore-mount-recreates-evicted-dir.patch): after the save/restore LOOKUP n1 answers inode 4, without it ENOENT *)
Theorem C19_stale_path_diverges :
  good ord_idx cfg_rm (dotdot_h ++ SSaveRestore 2 false [] :: dotdot_fut) = false /\
  skipn (S (length dotdot_h)) (run_hist cfg_rm (fill ord_idx cfg_rm (dotdot_h ++ SSaveRestore 2 false [] :: dotdot_fut))) = [[0; 4; 4; 0; 0; 0; 0]] /\
  skipn (length dotdot_h) (run_hist cfg_rm (fill ord_idx cfg_rm (dotdot_h ++ dotdot_fut))) = [[1; 0; 2; 0]].
Proof. exact stale_path_diverges. Qed.

(* non-vacuity: a covered history in which the index counter has wrapped -- /n1 attached at index 200, counter at 5,
   indices 5..199 free -- with one and with two save/restores (version 1 into a default-constructed Vfs, then version 2);
   evaluated, the mount after the save/restore gets index 5 *)
Example C19_nonvacuous_wrap : let s := state_after cfg0 (vfs_of cfg0 false) wrap_h in
  v_next s = 5 /\ aget 200 (v_sb s) = Some 10 /\ aget 5 (v_sb s) = None /\ aget 199 (v_sb s) = None.
Proof. exact wrap_state. Qed.
Example C19_nonvacuous_good : good ord_idx cfg0 (wrap_h ++ SSaveRestore 2 false [] :: wrap_fut) = true /\
  good ord_idx cfg0 (wrap_h ++ SSaveRestore 1 true [] :: SSaveRestore 2 false [] :: wrap_fut) = true.
Proof. exact wrap_good. Qed.
Example C19_wrap_next_index :
  nth 0 (skipn (S (length wrap_h)) (run_hist cfg0 (fill ord_idx cfg0 (wrap_h ++ SSaveRestore 2 false [] :: wrap_fut)))) [] =
  [0; 5; 1; 11; 100; 0; 0; 0; 0; 0; 0].
Proof. exact wrap_next_index. Qed.
Example C19_nonvacuous_order : perm_order ord_idx.
Proof. exact ord_idx_perm. Qed.
Example C19_nonvacuous_inv : forall c, inv c (vfs_of c false) [].
Proof. exact inv_new. Qed.

Print Assumptions C19_restored_fields.
Print Assumptions C19_reattach.
Print Assumptions C19_issued_inodes_route.
Print Assumptions C19_future_same.
Print Assumptions C19_v1_loads.
Print Assumptions C19_pseudo_connect.
Print Assumptions C19_pseudo_roundtrip.
Print Assumptions C19_same_table_same_answers.
Print Assumptions C19_tree_invariant.
Print Assumptions C19_tree_roundtrip.
Print Assumptions C19_pseudo_roundtrip_rm.
Print Assumptions C19_tree_invariant_rm.
Print Assumptions C19_initialized_refuted.
Print Assumptions C19_initialized_partial.
Print Assumptions C19_global_mapping_refuted.
Print Assumptions C19_global_mapping_partial.
Print Assumptions C19_observational_equivalence.
Print Assumptions C19_full_refuted.
Print Assumptions C19_partial.
Print Assumptions C19_restore_related.
Print Assumptions C19_step_preserves.
Print Assumptions C19_bisimulation.
Print Assumptions C19_restore_idempotent.
Print Assumptions C19_save_succeeds.
Print Assumptions C19_reattach_keeps_counter.
Print Assumptions C19_stale_path_diverges.
