(* C19 -- saving and restoring VFS state reproduces the same namespace (feature persist).
   Only statements, closed by [exact]; proofs live in Proofs/VfsPersist.v. *)
From Coq Require Import List NArith Bool.
From FB Require Import Model.Pseudo Gen.VfsTable Model.Vfs Model.Persist
  Proofs.VfsCodec Proofs.VfsAlloc Proofs.VfsInv Proofs.VfsRouting Proofs.PseudoWalk Proofs.VfsPersist Proofs.PseudoTree.
Import ListNotations.
Local Open Scope N_scope.

(* what restore_from_bytes puts back from a snapshot of ANY state s into ANY target Vfs t: the index counter, the
   pseudo inode counter, the negotiated options, the per-mount id mappings; `initialized` is re-derived from the
   options; the global id mapping, remove_pseudo_root and the (empty) mount table stay as t was constructed *)
Theorem C19_restored_fields : forall t s t', vfs_restore t (vfs_save s) = (t', Ok tt) ->
  v_next t' = v_next s /\ ps_next (v_ps t') = ps_next (v_ps s) /\ v_opts t' = v_opts s /\ v_maps t' = v_maps s /\
  v_init t' = negb (o_in (v_opts s) =? 0) /\
  v_gmap t' = v_gmap t /\ v_rm t' = v_rm t /\ v_sb t' = v_sb t /\ v_mps t' = v_mps t.
Proof. exact restore_fields. Qed.

(* re-attaching a backend with restore_mount puts it in the recorded slot and touches neither the counters, the
   mappings nor the options; an inode number issued before the save then routes to it *)
Theorem C19_reattach : forall t bid idx p a t' evs, vfs_restore_mount t bid idx p a = (t', Ok tt, evs) ->
  aget idx (v_sb t') = Some bid /\ v_next t' = v_next t /\ v_maps t' = v_maps t /\ v_opts t' = v_opts t /\
  v_init t' = v_init t /\
  exists pino m, aget pino (v_mps t') = Some m /\ mp_idx m = idx /\ mp_ino m = ma_ino a.
Proof. exact reattach_slot. Qed.
Theorem C19_issued_inodes_route : forall t bid idx ino, 0 < idx < 256 -> 0 < ino <= VFS_MAX_INO ->
  aget idx (v_sb t) = Some bid -> eff t (mk_vino idx ino) = Some (bid, idx, ino).
Proof. exact reattached_routes. Qed.

(* mounts and pseudo directories created afterwards get the indices and numbers they would have got without the
   save/restore: the allocator (the loop as written) depends only on the counter and on which slots are occupied *)
Theorem C19_future_same : forall s t, v_next t = v_next s -> (forall i, aget i (v_sb t) = aget i (v_sb s)) ->
  ps_next (v_ps t) = ps_next (v_ps s) ->
  allocate_fs_idx t = allocate_fs_idx s /\ ps_next (v_ps t) = ps_next (v_ps s).
Proof. exact future_same. Qed.

(* state written in the previous format version (no per-mount mappings) still loads, as the same state without them *)
Theorem C19_v1_loads : forall t s, vfs_restore t (as_v1 (vfs_save s)) = vfs_restore t (vfs_save (with_maps s [])).
Proof. exact v1_loads. Qed.

(* the pseudo tree: connecting the saved inodes in inode-number order appends to every directory exactly its
   children in that order, and succeeds whenever every saved inode's parent is present *)
Theorem C19_pseudo_connect : forall l tbl,
  (forall x, In x l -> aget (fst (fst x)) tbl <> None /\ aget (snd (fst x)) tbl <> None) ->
  exists tbl', connect tbl l = Ok tbl' /\
    forall j, aget j tbl' = option_map (add_kids l j) (aget j tbl).
Proof. exact connect_spec. Qed.

(* the namespace round trip: after ANY history (fewer than 2^56 pseudo directories) of a Vfs that keeps its pseudo
   directories (remove_pseudo_root not set: the default), restoring its snapshot into ANY freshly constructed Vfs
   succeeds and yields the same entry for every pseudo inode number (parent, name, children in the same order) and
   the same counters; and everything the pseudo fs answers (path walks, lookup, getattr, readdir order and offsets,
   parent) depends only on those entries: the same paths resolve to the same pseudo inode numbers *)
Theorem C19_pseudo_roundtrip : forall s o rm, kreach s ->
  exists t', vfs_restore (vfs_new o rm) (vfs_save s) = (t', Ok tt) /\
             same_table (v_ps t') (v_ps s) /\ ps_next (v_ps t') = ps_next (v_ps s) /\ v_next t' = v_next s.
Proof. exact vfs_pseudo_roundtrip. Qed.
Theorem C19_same_table_same_answers : forall a b, same_table a b ->
  (forall p, ps_path_walk a p = ps_path_walk b p) /\
  (forall parent nm, ps_lookup a parent nm = ps_lookup b parent nm) /\
  (forall ino, ps_getattr a ino = ps_getattr b ino) /\
  (forall ino size off, ps_readdir a ino size off = ps_readdir b ino size off) /\
  (forall ino, ps_parent a ino = ps_parent b ino).
Proof. exact ps_answers_same. Qed.
(* the same with remove_pseudo_root set, for histories in which an evicted mount point has no pseudo children (no mount
   path runs through another mount point; nested mounts are unsupported by the Vfs) *)
Theorem C19_pseudo_roundtrip_rm : forall s o rm, lreach s ->
  exists t', vfs_restore (vfs_new o rm) (vfs_save s) = (t', Ok tt) /\
             same_table (v_ps t') (v_ps s) /\ ps_next (v_ps t') = ps_next (v_ps s) /\ v_next t' = v_next s.
Proof. exact vfs_pseudo_roundtrip_rm. Qed.
Theorem C19_tree_invariant_rm : forall s, lreach s -> tree_ok (v_ps s) /\ ps_ok (v_ps s).
Proof. exact lreach_tree. Qed.
(* the tree invariant behind it (children lists = the inodes with that parent in increasing inode order, every parent
   present, no duplicate keys) holds along all those histories, and any pseudo fs satisfying it round-trips *)
Theorem C19_tree_invariant : forall s, kreach s -> tree_ok (v_ps s) /\ keys_lt (v_ps s) /\ v_rm s = false.
Proof. exact kreach_tree. Qed.
Theorem C19_tree_roundtrip : forall ps st, tree_ok ps ->
  st_inodes st = save_inodes ps -> st_next_inode st = ps_next ps ->
  exists ps', ps_restore ps_new st = Ok ps' /\ ps_next ps' = ps_next ps /\
              forall j, aget j (ps_inodes ps') = aget j (ps_inodes ps).
Proof. exact pseudo_roundtrip. Qed.

(* `initialized` is the same after restore: refuted (it is re-derived as in_opts <> 0: an INIT without capability
   bits, or init followed by destroy, is not reproduced); proved when it agrees with the options *)
Definition C19_initialized_full : Prop := initialized_full.
Theorem C19_initialized_refuted : ~ C19_initialized_full.
Proof. exact initialized_refuted. Qed.
Theorem C19_initialized_partial : forall t s t', vfs_restore t (vfs_save s) = (t', Ok tt) ->
  v_init s = negb (o_in (v_opts s) =? 0) -> v_init t' = v_init s.
Proof. exact initialized_partial. Qed.

(* the global id mapping in force after restore is the one the restored options name: refuted when the fresh Vfs
   was built with other options (e.g. VfsOptions::default(), as in the crate's example); proved when the caller
   constructs it with the same id_mapping option *)
Definition C19_global_mapping_full : Prop := global_mapping_full.
Theorem C19_global_mapping_refuted : ~ C19_global_mapping_full.
Proof. exact global_mapping_refuted. Qed.
Theorem C19_global_mapping_partial : forall o rm s t', vfs_restore (vfs_new o rm) (vfs_save s) = (t', Ok tt) ->
  o_idmap o = o_idmap (v_opts s) -> v_gmap t' = gmap_of_opts (v_opts t').
Proof. exact global_mapping_partial. Qed.

(* non-vacuity: a reachable state with two mounts restores, and the restored Vfs allocates what the original would *)
Example C19_nonvacuous_lreach : lreach ex_rm /\ aget 2 (ps_inodes (v_ps ex_rm)) = None /\ aget 4 (ps_inodes (v_ps ex_rm)) <> None.
Proof. exact ex_lreach. Qed.
Example C19_nonvacuous_kreach : exists s, kreach s /\ aget 4 (ps_inodes (v_ps s)) <> None.
Proof. exact ex_kreach. Qed.
Example C19_nonvacuous : exists s t', reachable s /\ vfs_restore (vfs_new default_opts false) (vfs_save s) = (t', Ok tt) /\
  v_next t' = 3 /\ ps_next (v_ps t') = 5.
Proof. exact ex_restore. Qed.

Print Assumptions C19_restored_fields.
Print Assumptions C19_reattach.
Print Assumptions C19_issued_inodes_route.
Print Assumptions C19_future_same.
Print Assumptions C19_v1_loads.
Print Assumptions C19_pseudo_connect.
Print Assumptions C19_pseudo_roundtrip.
Print Assumptions C19_same_table_same_answers.
Print Assumptions C19_tree_invariant.
Print Assumptions C19_tree_roundtrip.
Print Assumptions C19_pseudo_roundtrip_rm.
Print Assumptions C19_tree_invariant_rm.
Print Assumptions C19_initialized_refuted.
Print Assumptions C19_initialized_partial.
Print Assumptions C19_global_mapping_refuted.
Print Assumptions C19_global_mapping_partial.
