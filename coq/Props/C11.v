(* C11 -- overlay disk state matches the live view across restart; copy-up preserves files.
   Only statements, closed by [exact]; proofs live in Proofs/Overlay*.v. *)
From Coq Require Import List String NArith Bool.
From FB Require Import Model.Overlay Proofs.OverlayInv Proofs.OverlayRestart.
Import ListNotations.
Local Open Scope string_scope.
Local Open Scope N_scope.
Local Open Scope list_scope.

(* the full statement (Definition C11_full in Proofs/OverlayRestart.v):
     forall u ls nx ops, restart_same_view u ls nx ops
   is refuted by the faithful model; both witnesses reproduce on the real code *)
Theorem C11_refuted : ~ C11_full.
Proof. exact restart_refuted. Qed.
Theorem C11_witness_mkdir_over_whiteout :
  let s := run_dumps w_ops (load_all (fresh (Some w_upper) [w_lower] 1000)) in
  ser_opt (view (load_all s)) = "d1ed(d=d1ed(),)" /\
  ser_opt (view (load_all (restart s))) = "d1ed(d=d1ed(old=f1a4:6f,),)".
Proof. exact witness_mkdir. Qed.
Theorem C11_witness_unlink_shadowing_file :
  let s := run_dumps [(true, OUnlink ["c"])] (load_all (fresh (Some w2_upper) [w2_lower] 1000)) in
  ser_opt (view (load_all s)) = "d1ed()" /\
  ser_opt (view (load_all (restart s))) = "d1ed(c=f1a4:6c,)".
Proof. exact witness_unlink. Qed.

Print Assumptions C11_refuted.
Print Assumptions C11_witness_mkdir_over_whiteout.
Print Assumptions C11_witness_unlink_shadowing_file.
