(* C11 -- overlay disk state matches the live view across restart; copy-up preserves files.
   Only statements, closed by [exact]; proofs live in Proofs/Overlay*.v. *)
From Coq Require Import List String NArith Bool.
From FB Require Import Model.Overlay Proofs.OverlayInv Proofs.OverlayScan Proofs.OverlayRestart Proofs.OverlayCopyUp Proofs.OverlayReadOnly Proofs.OverlayCoh Proofs.OverlayCohView Proofs.OverlayCohOps Proofs.OverlayCohSteps.
Import ListNotations.
Local Open Scope string_scope.
Local Open Scope N_scope.
Local Open Scope list_scope.

(* The full statement is Definition C11_full (Proofs/OverlayRestart.v):
     forall u ls nx ops, restart_same_view u ls nx ops.
   It does NOT hold for the code as it is: a client that sets one of the overlay's own opaque markers
   (e.g. user.overlay.opaque) on a merged directory refutes it - see C11_refuted below, reproduced on
   the implementation by every run (known finding "client-sets-opaque-marker").  For all other
   operations of the model it is proved up to the order of directory entries
   (C11_restart_partial_mkdir below).
   The two histories that refuted it before the fix: commits 7b264a9 and 2d8d33e are now instances of it:
   the re-created directory is opaque on disk, the unlinked shadowing file leaves a whiteout. *)
Example C11_fixed_mkdir_over_whiteout :
  let s := run_dumps w_ops (load_all (fresh (Some w_upper) [w_lower] 1000)) in
  ser_opt (view (load_all s)) = "d1ed(d=d1ed(),)" /\
  ser_opt (view (load_all (restart s))) = "d1ed(d=d1ed(),)" /\
  upper s = Some (Dir 493 [] [("d", Dir 493 [("user.fuseoverlayfs.opaque", [121])] [])]).
Proof. exact witness_mkdir. Qed.
Example C11_fixed_unlink_shadowing_file :
  let s := run_dumps [(true, OUnlink ["c"])] (load_all (fresh (Some w2_upper) [w2_lower] 1000)) in
  ser_opt (view (load_all s)) = "d1ed()" /\
  ser_opt (view (load_all (restart s))) = "d1ed()" /\
  upper s = Some (Dir 493 [] [("c", Wh)]).
Proof. exact witness_unlink. Qed.

(* SETXATTR of an opaque marker on a merged directory: written to the upper directory, the cached node
   is kept (sync_io.rs: "TODO: recreate node since setxattr may made dir opaque"); the live instance
   goes on showing the lower children, a freshly started one hides them. *)
Example C11_opaque_marker_witness :
  let s := run_dumps w3_ops (load_all (fresh (Some w3_upper) [w3_lower] 1000)) in
  ser_opt (view (load_all s)) = "d1ed(d=d1ed(n=f1a4:6e,o=f1a4:6f,),)" /\
  ser_opt (view (load_all (restart s))) = "d1ed(d=d1ed(n=f1a4:6e,),)" /\
  upper s = Some (Dir 493 [] [("d", Dir 493 [("user.overlay.opaque", [121])] [("n", File 1 420 [110] [])])]).
Proof. exact witness_opaque_marker. Qed.
Theorem C11_refuted : ~ C11_full.
Proof. exact C11_full_refuted. Qed.

(* Restart equivalence, proved part: for ALL layer contents (layer roots are directories with
   distinct names per directory) and all histories made of
     lookup, getattr, readdir, read, readlink, open(O_RDONLY), getxattr, listxattr
   (with or without tree walks in between) a freshly started overlay shows the tree the live one
   shows.  Histories containing modifying operations: stated (C11_full), not proved. *)
Theorem C11_restart_partial : forall u ls nx ops,
  Forall layer_ok (all_layers u ls) -> readonly_history ops = true -> restart_same_view u ls nx ops.
Proof. exact restart_partial. Qed.
(* Restart equivalence from the coherence invariant: EVERY coherent state shows, after a restart, the
   tree it shows live (trees compared as finite maps, [teq]: directory entries by name, not position) ... *)
Theorem C11_coherent_restart : forall s, Coherent s -> oteq (view (load_all (restart s))) (view (load_all s)).
Proof. exact coherent_restart. Qed.
(* ... hence for all layer contents and all histories over the operations of [coh_op]
   (the read-only ones, MKDIR, CREATE, MKNOD, SYMLINK, LINK, UNLINK, RMDIR, RENAME (always refused), OPEN
   with every flag, WRITE, CHMOD, TRUNCATE, SETXATTR / REMOVEXATTR of names other than the opaque
   markers - i.e. everything outside the class of C11_refuted; with or without tree walks in between): *)
Theorem C11_restart_partial_mkdir : forall u ls nx ops, Forall layer_ok (u :: ls) -> coh_history ops = true ->
  let s := run_dumps ops (load_all (fresh (Some u) ls nx)) in
  oteq (view (load_all (restart s))) (view (load_all s)).
Proof. exact restart_coherent_history. Qed.
(* the same in the form of C11_full: equal serialisations ([ser] lists the entries of a directory sorted by
   name; [teq] trees serialise alike: Proofs/OverlayCohSteps.v teq_ser).  So C11_full holds for every history
   over [coh_op], from every fresh overlay over well-formed layers; it fails only in the class of C11_refuted. *)
Theorem C11_restart_coh_history : forall u ls nx ops, Forall layer_ok (u :: ls) -> coh_history ops = true ->
  restart_same_view (Some u) ls nx ops.
Proof. exact restart_same_view_history. Qed.
Example C11_restart_partial_nonvacuous :
  let u := Dir 493 [] [("d", Dir 493 [] [("n", File 1 420 [] [])]); ("w", Wh)] in
  let l := Dir 493 [] [("d", Dir 448 [] [("o", File 2 420 [] [])]); ("w", Lnk [97])] in
  Forall layer_ok (all_layers (Some u) [l]) /\
  readonly_history [(false, OLookup ["d"; "o"]); (true, OReaddir ["d"]); (false, ORead ["d"; "n"] 0 4)] = true.
Proof.
  cbv zeta. split; [|reflexivity].
  repeat (first [apply Forall_cons | apply Forall_nil | split | apply wf_dir | apply wf_file | apply wf_lnk | apply wf_wh
                | apply NoDup_cons | apply NoDup_nil | (cbn; intuition discriminate) | reflexivity ]).
Qed.

Example C11_restart_coh_nonvacuous :
  let u := Dir 493 [] [("d", Dir 493 [] [("n", File 1 420 [] [])]); ("w", Wh)] in
  let l := Dir 493 [] [("d", Dir 448 [] [("o", File 2 420 [] [])]); ("w", Lnk [97])] in
  let ops := [(false, OUnlink ["d"; "o"]); (true, OUnlink ["d"; "n"]); (false, ORmdir ["d"]); (true, OMkdir ["d"] 448);
              (false, OSymlink ["w"] [100]); (true, OLink ["w"] ["d"; "l"]); (true, OWrite ["d"; "l"] 0 [1])] in
  Forall layer_ok [u; l] /\ coh_history ops = true /\
  ser_opt (view (load_all (run_dumps ops (load_all (fresh (Some u) [l] 1000))))) = "d1ed(d=d1c0(l=l:64,),w=l:64,)".
Proof.
  cbv zeta. split; [|split; [reflexivity|vm_compute; reflexivity]].
  repeat (first [apply Forall_cons | apply Forall_nil | split | apply wf_dir | apply wf_file | apply wf_lnk | apply wf_wh
                | apply NoDup_cons | apply NoDup_nil | (cbn; intuition discriminate) | reflexivity ]).
Qed.

(* What a restarted instance shows is exactly the overlayfs union of the layer directories as they
   are on disk, in EVERY state: restart equivalence therefore fails exactly where the live cache
   disagrees with the union of the disk state. *)
Theorem C11_restart_shows_union : forall s, Forall layer_ok (all_layers (upper s) (lowers s)) ->
  view (load_all (restart s)) = merge (all_layers (upper s) (lowers s)).
Proof. exact restart_shows_union. Qed.

(* Copy-up preserves what it copies (under the cache invariant of C10, for a node whose first
   backing inode is in a lower layer):  regular file -> same permission bits (07777) and content, ... *)
Theorem C11_copy_up_preserves_file : forall hu s p n lr rest i m d x s',
  Inv hu s -> nget p (root s) = Some n -> in_upper n = false ->
  n_reals n = lr :: rest -> r_layer lr <> 0%nat -> real_tree s lr = Some (File i m d x) ->
  copy_regfile_up p s = (Ok tt, s') ->
  forall n', nget p (root s') = Some n' ->
  exists r' i', n_reals n' = [r'] /\ r_upper r' = true /\
                real_tree s' r' = Some (File i' (N.land m 4095) d []).
Proof. exact copy_regfile_up_preserves. Qed.
(* ... symbolic link -> same target, ... *)
Theorem C11_copy_up_preserves_symlink : forall hu s p n lr rest tg s',
  Inv hu s -> nget p (root s) = Some n -> in_upper n = false ->
  n_reals n = lr :: rest -> r_layer lr <> 0%nat -> real_tree s lr = Some (Lnk tg) ->
  copy_symlink_up p s = (Ok tt, s') ->
  forall n', nget p (root s') = Some n' ->
  exists r', n_reals n' = [r'] /\ r_upper r' = true /\ real_tree s' r' = Some (Lnk tg).
Proof. exact copy_symlink_up_preserves. Qed.
(* ... directory (and each missing ancestor, created by the recursive call of the same function)
   -> created with the mode of its lower instance and kept merged with it: [cu_mode m] = m & 07777 when the lower mode has
   set-uid / set-gid bits (mkdir, then chmod: repaired by 61854eb), m & 01777 otherwise (what mkdirat keeps: the same value
   when there are no such bits). *)
Theorem C11_copy_up_preserves_dir : forall hu fuel s p n m x ch s',
  Inv hu s -> nget p (root s) = Some n -> in_upper n = false ->
  node_stat s n = Some (Dir m x ch) ->
  create_upper_dir fuel p s = (Ok tt, s') ->
  forall n', nget p (root s') = Some n' ->
  exists r' rs', n_reals n' = r' :: rs' /\ r_upper r' = true /\
                 real_tree s' r' = Some (Dir (cu_mode m) [] []).
Proof. exact create_upper_dir_preserves. Qed.
Example C11_copy_up_dir_modes :
  cu_mode 1517 = 1517 /\ cu_mode 2541 = 2541 /\ cu_mode 3565 = 3565 /\ cu_mode 2047 = 2047 /\ cu_mode 1023 = 1023 /\ cu_mode 33261 = 493.
Proof. repeat split. Qed.

(* non-vacuity of the copy-up hypotheses: a lower-only file two directories deep is copied up *)
Example C11_copy_up_nonvacuous :
  let l := Dir 493 [] [("a", Dir 448 [] [("f", File 7 416 [1; 2; 3] [])])] in
  let s := load_all (fresh (Some (Dir 493 [] [])) [l] 1000) in
  Inv true s /\
  (exists n lr, nget ["a"; "f"] (root s) = Some n /\ in_upper n = false /\ n_reals n = [lr] /\
                r_layer lr = 1%nat /\ real_tree s lr = Some (File 7 416 [1; 2; 3] [])) /\
  fst (copy_regfile_up ["a"; "f"] s) = Ok tt /\
  upper (snd (copy_regfile_up ["a"; "f"] s)) = Some (Dir 493 [] [("a", Dir 448 [] [("f", File 1000 416 [1; 2; 3] [])])]).
Proof.
  cbv zeta. split; [apply (proj1 (load_all_inv true _ (fresh_inv (Some _) _ _)))|].
  split; [eexists; eexists; vm_compute; repeat split|]. vm_compute. split; reflexivity.
Qed.

Print Assumptions C11_restart_shows_union.
Print Assumptions C11_copy_up_preserves_file.
Print Assumptions C11_copy_up_preserves_symlink.
Print Assumptions C11_copy_up_preserves_dir.
Print Assumptions C11_refuted.
Print Assumptions C11_restart_partial.
Print Assumptions C11_coherent_restart.
Print Assumptions C11_restart_partial_mkdir.
Print Assumptions C11_restart_coh_history.
