(* C04 -- transport readers/writers move every byte exactly once, in order, within bounds.
   Only statements, closed by [exact]; proofs live in Proofs/Transport*.v.
   Vocabulary: [flat (segs b)] is the list of addresses an IoBuffers value still covers, in order
   (the concatenation of its segments); [adv k b b'] says b' is b with the first k of them consumed. *)
From Coq Require Import List String NArith Bool Permutation.
From FB Require Import Gen.BytesDelegation Gen.AsyncTransport Model.Transport Proofs.Transport Proofs.TransportMachine
     Proofs.TransportFamily Proofs.TransportLoops Proofs.TransportFuse Proofs.TransportAsync Proofs.TransportAdapter.
Import ListNotations.
Local Open Scope N_scope.

(* ================= IoBuffers on the flat view ================= *)
Theorem C04_take : forall r l, flat (take_segs r l) = firstn (N.to_nat r) (flat l).
Proof. exact take_segs_flat. Qed.
Theorem C04_drop : forall r l, flat (drop_bytes r l) = skipn (N.to_nat r) (flat l).
Proof. exact drop_bytes_flat. Qed.
Theorem C04_available : forall b, avail b = lenN (flat (segs b)).
Proof. exact avail_flat. Qed.
(* available + consumed is invariant under every non-split operation (all of them are [adv] steps) *)
Theorem C04_counters : forall k b b', adv k b b' -> avail b' + consumed b' = avail b + consumed b.
Proof. exact adv_counters. Qed.
(* chains accepted at construction are well formed (sum of lengths fits a usize); kept by every run *)
Theorem C04_chain_wf : forall regions ds w n x b, from_chain regions ds w = (ROk n x, b) -> wf_io b.
Proof. exact from_chain_wf. Qed.
Theorem C04_wf_preserved : forall ops st, wf_st st -> wf_st (snd (vrun ops st)).
Proof. exact vrun_wf. Qed.

(* ================= readers ================= *)
(* read(n): exactly the next min(n, available) bytes of the request, in order *)
Theorem C04_read : forall n m b, wf_io b ->
  let k := N.min n (avail b) in
  exists b', rd_read n m b = (ROk k (map (mget m) (firstn (N.to_nat k) (flat (segs b)))), b') /\
             adv k b b' /\ wf_io b'.
Proof. exact rd_read_spec. Qed.
(* read_exact / read_obj: all n bytes, or UnexpectedEof (and the rest of the buffer consumed, as std does) *)
Theorem C04_read_exact : forall n m b, wf_io b ->
  exists b', adv (N.min n (avail b)) b b' /\ wf_io b' /\
    rd_read_exact n m b =
      ((if avail b <? n then RErr EEof else ROk n (map (mget m) (firstn (N.to_nat n) (flat (segs b))))), b').
Proof. exact rd_read_exact_spec. Qed.
(* justification of the collapsed read_exact loop: after a short read, read returns 0 *)
Theorem C04_read_exact_loop : forall n m b b' k data, wf_io b -> rd_read n m b = (ROk k data, b') -> k < n ->
  avail b' = 0 /\ forall n2, exists b'', rd_read n2 m b' = (ROk 0 [], b'') /\ adv 0 b' b''.
Proof. exact read_after_short. Qed.
(* read_to(file, count): the sink receives the next min(count, what it accepts, available) bytes *)
Theorem C04_read_to : forall count k m b, wf_io b ->
  let n := N.min (N.min count k) (avail b) in
  exists b', io_read count (Some k) m b = (ROk n (map (mget m) (firstn (N.to_nat n) (flat (segs b)))), b') /\
             flat (segs b') = skipn (N.to_nat n) (flat (segs b)) /\ consumed b' = consumed b + n /\ wf_io b'.
Proof. exact io_read_spec. Qed.
Theorem C04_read_to_failing_sink : forall count m b,
  exists r, io_read count None m b = (r, b) /\ (r = RErr EFile \/ r = ROk 0 []).
Proof. exact io_read_fail. Qed.
(* read_exact_to(file, count), the library loop over read_to, with a sink taking at least one byte per call:
   all count bytes in order (in however many pieces), or UnexpectedEof with the rest consumed; never out of fuel *)
Theorem C04_read_exact_to : forall count lim m b, wf_io b -> 1 <= lim ->
  exists b', rd_read_exact_to count (Some lim) m b =
               ((if avail b <? count then RErr EEof
                 else ROk count (map (mget m) (firstn (N.to_nat count) (flat (segs b))))), b') /\
             adv (N.min count (avail b)) b b' /\ wf_io b'.
Proof. exact read_exact_to_spec. Qed.
(* any sequence of reads on one reader: pieces delivered ++ what is unread = the request bytes, in order *)
Theorem C04_reader_stream : forall l m b, wf_io b ->
  let '(ds, b') := reads l m b in
  List.concat ds ++ map (mget m) (flat (segs b')) = map (mget m) (flat (segs b)) /\
  consumed b' = consumed b + lenN (List.concat ds) /\ List.length ds = List.length l.
Proof. exact reads_stream. Qed.

(* ================= split_at (readers and virtio writers) ================= *)
Theorem C04_split_partition : forall off b, wf_io b ->
  (off <= avail b ->
   exists a o, io_split off b = Some (a, o) /\
     flat (segs a) = firstn (N.to_nat off) (flat (segs b)) /\ flat (segs o) = skipn (N.to_nat off) (flat (segs b)) /\
     consumed a = consumed b /\ consumed o = 0 /\ wf_io a /\ wf_io o) /\
  (avail b < off -> io_split off b = None).
Proof. exact io_split_spec. Qed.

(* ================= virtio writers: one operation ================= *)
(* [wpost m d b k log m' d' b']: k bytes consumed, memory = m + the stores in log (in order), the stored
   addresses are the next k addresses of the writer, dirty log grew by exactly their pages *)
Theorem C04_write : forall data m d b, wf_io b ->
  (avail b < lenN data -> vw_write data m d b = (RErr ENoSpace, m, d, b)) /\
  (lenN data <= avail b ->
   exists m' d' b' log, vw_write data m d b = (ROk (lenN data) [], m', d', b') /\
     wpost m d b (lenN data) log m' d' b' /\ map snd log = data).
Proof. exact vw_write_spec. Qed.
Theorem C04_write_vectored : forall datas m d b, wf_io b ->
  (avail b < lenN (List.concat datas) -> vw_write_vectored datas m d b = (RErr ENoSpace, m, d, b)) /\
  (lenN (List.concat datas) <= avail b ->
   exists m' d' b' log, vw_write_vectored datas m d b = (ROk (lenN (List.concat datas)) [], m', d', b') /\
     wpost m d b (lenN (List.concat datas)) log m' d' b' /\ map snd log = List.concat datas).
Proof. exact vw_write_vectored_spec. Qed.
Theorem C04_write_from : forall count src m d b, wf_io b ->
  (avail b < count -> vw_write_from count src m d b = (RErr ENoSpace, m, d, b)) /\
  (count <= avail b ->
   match src with
   | Some data =>
       let k := N.min count (lenN data) in
       exists m' d' b' log, vw_write_from count src m d b = (ROk k [], m', d', b') /\
         wpost m d b k log m' d' b' /\ map snd log = firstn (N.to_nat k) data
   | None => exists r, vw_write_from count src m d b = (r, m, d, b) /\ (r = RErr EFile \/ r = ROk 0 [])
   end).
Proof. exact vw_write_from_spec. Qed.
(* write_all_from(file, count), the library loop over write_from: refused without effect when it does not fit;
   otherwise exactly the first count bytes of the source are stored at the next count addresses, or - short
   source - WriteZero after storing all of it *)
Theorem C04_write_all_from : forall count data m d b, wf_io b ->
  (avail b < count -> vw_write_all_from count (Some data) m d b = (RErr ENoSpace, m, d, b)) /\
  (count <= avail b ->
   exists m' d' b' log,
     vw_write_all_from count (Some data) m d b = ((if lenN data <? count then RErr EEof else ROk 0 []), m', d', b') /\
     wpost m d b (N.min count (lenN data)) log m' d' b' /\
     map snd log = firstn (N.to_nat (N.min count (lenN data))) data).
Proof. exact write_all_from_spec. Qed.
(* reading back what one store sequence wrote (distinct addresses) gives the data *)
Theorem C04_stores_read_back : forall m l d, NoDup l -> List.length l = List.length d ->
  map (mget (write_addrs m (combine l d))) l = d.
Proof. exact write_addrs_read. Qed.

(* ================= virtio machine: any operation sequence over the family of handles ================= *)
Theorem C04_run : forall ops st, wf_st st -> exists log rlog, step_post st (snd (vrun ops st)) log rlog.
Proof. exact vrun_post. Qed.
(* memory outside the writable segments is never touched *)
Theorem C04_frame : forall ops st, wf_st st ->
  forall a, (forall b, In b (v_wr st) -> ~ In a (flat (segs b))) ->
            mget (v_mem (snd (vrun ops st))) a = mget (v_mem st) a.
Proof. exact frame. Qed.
(* pairwise disjoint writable segments: no address is stored twice and every stored byte is in place at the end *)
Theorem C04_stores_persist : forall ops st, wf_st st -> NoDup (live (v_wr st)) ->
  exists log rlog, step_post st (snd (vrun ops st)) log rlog /\
    NoDup (map fst log) /\ forall a v, In (a, v) log -> mget (v_mem (snd (vrun ops st))) a = v.
Proof. exact stores_persist. Qed.
(* order along one handle, for any interleaving of operations on the whole family (reads, splits, writes, ...):
   the addresses consumed through reader i in time order ([fst (h_trace ...)], each delivery being the bytes at
   these addresses by C04_read/_read_exact/_read_to), then what it still covers, then what it handed to readers
   split off from it (latest split first) are exactly what it covered at the start, in order; same for writers *)
Theorem C04_reader_order : forall ops st i b, wf_st st -> nth_error (v_rd st) i = Some b ->
  exists b', nth_error (v_rd (snd (vrun ops st))) i = Some b' /\
    flat (segs b) = fst (h_trace v_rd i ops st) ++ flat (segs b') ++ snd (h_trace v_rd i ops st).
Proof. exact reader_order. Qed.
Theorem C04_writer_order : forall ops st i b, wf_st st -> nth_error (v_wr st) i = Some b ->
  exists b', nth_error (v_wr (snd (vrun ops st))) i = Some b' /\
    flat (segs b) = fst (h_trace v_wr i ops st) ++ flat (segs b') ++ snd (h_trace v_wr i ops st).
Proof. exact writer_order. Qed.
(* operations that are not writes leave memory alone *)
Theorem C04_nonwrite_keeps_memory : forall op st, is_write_op op = false ->
  v_mem (snd (vstep op st)) = v_mem st /\ v_dirty (snd (vstep op st)) = v_dirty st.
Proof. exact nonwrite_keeps. Qed.

(* ================= segmentation is irrelevant ================= *)
Theorem C04_segmentation_irrelevant_read : forall count k m b1 b2, wf_io b1 -> wf_io b2 ->
  flat (segs b1) = flat (segs b2) -> consumed b1 = consumed b2 ->
  fst (io_read count (Some k) m b1) = fst (io_read count (Some k) m b2) /\
  flat (segs (snd (io_read count (Some k) m b1))) = flat (segs (snd (io_read count (Some k) m b2))) /\
  consumed (snd (io_read count (Some k) m b1)) = consumed (snd (io_read count (Some k) m b2)).
Proof. exact seg_irrelevant_read. Qed.
Theorem C04_segmentation_irrelevant_write : forall mark count data m d b1 b2, wf_io b1 -> wf_io b2 ->
  flat (segs b1) = flat (segs b2) -> consumed b1 = consumed b2 ->
  let r1 := io_write mark count (Some data) m d b1 in
  let r2 := io_write mark count (Some data) m d b2 in
  fst (fst (fst r1)) = fst (fst (fst r2)) /\ snd (fst (fst r1)) = snd (fst (fst r2)) /\
  (forall p, snd (fst r1) p = snd (fst r2) p) /\
  flat (segs (snd r1)) = flat (segs (snd r2)) /\ consumed (snd r1) = consumed (snd r2).
Proof. exact seg_irrelevant_write. Qed.

(* ================= FuseDevWriter ================= *)
Theorem C04_fusedev_assert : forall w sz,
  (f_check w sz = Some RPanic <-> ~ f_oneshot_ok w) /\
  (f_oneshot_ok w -> f_avail w < sz -> f_check w sz = Some (RErr ENoSpace)) /\
  (f_oneshot_ok w -> sz <= f_avail w -> f_check w sz = None).
Proof. exact f_check_spec. Qed.
Theorem C04_fusedev_panic_iff : forall data m w,
  fst (fst (fst (fw_write data m w))) = RPanic <-> ~ f_oneshot_ok w.
Proof. exact panic_iff. Qed.
Theorem C04_fusedev_write : forall data m w, f_inv w -> f_oneshot_ok w ->
  (f_avail w < lenN data -> fw_write data m w = (RErr ENoSpace, m, w, [])) /\
  (lenN data <= f_avail w ->
   exists m' w', fw_write data m w = (ROk (lenN data) [], m', w', if f_buffered w then [] else [data]) /\
     f_inv w' /\ f_len w' = f_len w + lenN data /\ f_base w' = f_base w /\ f_cap w' = f_cap w /\
     f_buffered w' = f_buffered w /\
     (f_buffered w = true -> read_range m' (f_base w) (f_len w') = read_range m (f_base w) (f_len w) ++ data) /\
     (f_buffered w = false -> m' = m) /\
     (forall x, ~ (f_base w + f_len w <= x < f_base w + f_len w + lenN data) -> mget m' x = mget m x)).
Proof. exact fw_write_spec. Qed.
Theorem C04_fusedev_write_vectored : forall datas m w, f_inv w -> f_oneshot_ok w ->
  let data := List.concat datas in
  (f_avail w < lenN data -> fw_write_vectored datas m w = (RErr ENoSpace, m, w, [])) /\
  (lenN data <= f_avail w ->
   exists m' w' ps, fw_write_vectored datas m w = (ROk (lenN data) [], m', w', ps) /\
     ps = (if f_buffered w then [] else match data with [] => [] | _ => [data] end) /\
     f_inv w' /\ f_len w' = f_len w + lenN data /\ f_base w' = f_base w /\ f_cap w' = f_cap w /\
     f_buffered w' = f_buffered w /\
     (f_buffered w = true -> read_range m' (f_base w) (f_len w') = read_range m (f_base w) (f_len w) ++ data) /\
     (f_buffered w = false -> m' = m) /\
     (forall x, ~ (f_base w + f_len w <= x < f_base w + f_len w + lenN data) -> mget m' x = mget m x)).
Proof. exact fw_write_vectored_spec. Qed.
Theorem C04_fusedev_write_from : forall count src m w, f_inv w -> f_oneshot_ok w ->
  (f_avail w < count -> fw_write_from count src m w = (RErr ENoSpace, m, w, [])) /\
  (count <= f_avail w ->
   match src with
   | None => fw_write_from count src m w = (RErr EFile, m, w, [])
   | Some sd =>
       let data := firstn (N.to_nat count) sd in
       exists m' w', fw_write_from count src m w = (ROk (lenN data) [], m', w', if f_buffered w then [] else [data]) /\
         f_inv w' /\ f_len w' = f_len w + lenN data /\ f_base w' = f_base w /\ f_cap w' = f_cap w /\
         f_buffered w' = f_buffered w /\
         read_range m' (f_base w) (f_len w') = read_range m (f_base w) (f_len w) ++ data /\
         (forall x, ~ (f_base w + f_len w <= x < f_base w + f_len w + lenN data) -> mget m' x = mget m x)
   end).
Proof. exact fw_write_from_spec. Qed.
Theorem C04_fusedev_split : forall off w, f_inv w ->
  (f_cap w < off -> fw_split off w = None) /\
  (off <= f_cap w ->
   exists a o, fw_split off w = Some (a, o) /\
     f_buffered a = true /\ f_buffered o = true /\
     f_base a = f_base w /\ f_cap a = off /\ f_base o = f_base w + off /\ f_cap o = f_cap w - off /\
     f_len a + f_len o = f_len w /\ f_len a = N.min (f_len w) off /\ f_inv a /\ f_inv o /\
     (forall x, f_owns w x <-> f_owns a x \/ f_owns o x) /\ (forall x, ~ (f_owns a x /\ f_owns o x))).
Proof. exact fw_split_spec. Qed.
Theorem C04_fusedev_split_content : forall off w a o m, f_inv w -> fw_split off w = Some (a, o) ->
  read_range m (f_base a) (f_len a) ++ read_range m (f_base o) (f_len o) = read_range m (f_base w) (f_len w).
Proof. exact fw_split_content. Qed.
Theorem C04_fusedev_commit : forall m w other,
  let s := read_range m (f_base w) (f_len w) in
  let o := match other with Some x => read_range m (f_base x) (f_len x) | None => [] end in
  fw_commit m w other =
    if negb (f_buffered w) then (ROk 0 [], [])
    else match s ++ o with [] => (ROk 0 [], []) | p => (ROk (lenN p) [], [p]) end.
Proof. exact fw_commit_spec. Qed.
(* any operation sequence: len <= cap everywhere, memory outside the reply buffer untouched, windows never
   grow, at most one packet per operation *)
Theorem C04_fusedev_run : forall ops st, f_wf st ->
  f_wf (snd (frun ops st)) /\
  (forall x, (forall w, In w (f_ws st) -> ~ f_owns w x) -> mget (f_mem (snd (frun ops st))) x = mget (f_mem st) x) /\
  (forall w' x, In w' (f_ws (snd (frun ops st))) -> f_owns w' x -> exists w, In w (f_ws st) /\ f_owns w x) /\
  (exists ps, f_pkts (snd (frun ops st)) = f_pkts st ++ ps /\ (List.length ps <= List.length ops)%nat).
Proof. exact frun_post. Qed.

(* ================= async variants (feature async-io) =================
   Model/Transport.v has the async methods written from their own code ([avstep], [afstep]); they are the state
   transformers of the synchronous operations [desugar a] / [fdesugar a], so everything above applies to runs
   that mix in async operations. *)
Theorem C04_async_op_same : forall a st, avstep a st = vstep (desugar a) st.
Proof. exact async_op_same. Qed.
Theorem C04_async_run_same : forall ops st, avrun ops st = vrun (map desugar ops) st.
Proof. exact async_run_same. Qed.
Theorem C04_async_run : forall ops st, wf_st st -> exists log rlog, step_post st (snd (avrun ops st)) log rlog.
Proof. exact async_run_post. Qed.
Theorem C04_async_stores_persist : forall ops st, wf_st st -> NoDup (live (v_wr st)) ->
  exists log rlog, step_post st (snd (avrun ops st)) log rlog /\
    NoDup (map fst log) /\ forall a v, In (a, v) log -> mget (v_mem (snd (avrun ops st))) a = v.
Proof. exact async_stores_persist. Qed.
(* FuseDevWriter.  Full statement: every regular async operation (all but async_write_all of an empty buffer, which
   does nothing at all) is its synchronous counterpart, for every state.  Where async_write_from_at puts the file data
   is read from the source on every run (Gen/AsyncTransport.v); it was refuted while that was the start of the buffer
   (bytes buffered earlier overwritten, stale bytes committed) and is proved outright since the fix c67a85c. *)
Definition C04_async_fusedev_full : Prop := async_fusedev_full async_wfrom_at_len.
Theorem C04_async_fusedev : C04_async_fusedev_full.
Proof. exact async_fusedev_full_now. Qed.
(* how that defect would show up again: the statement fails exactly when the data goes to the start of the buffer *)
Theorem C04_async_fusedev_refuted_iff : forall at_len, ~ async_fusedev_full at_len <-> at_len = false.
Proof. exact async_fusedev_refuted_iff. Qed.
Theorem C04_async_fusedev_write_all_empty : forall at_len i st w, nth_error (f_ws st) i = Some w ->
  afstep at_len (FAWriteAll i []) st = (fobs (ROk 0 []) w, st).
Proof. exact async_write_all_empty. Qed.
(* and unconditionally, for runs mixing sync and async operations: len <= cap, memory outside the reply buffer
   untouched, windows never grow, at most one packet per operation (async_commit included) *)
Theorem C04_async_fusedev_run : forall at_len ops st, f_wf st ->
  f_wf (snd (afrun at_len ops st)) /\
  (forall x, (forall w, In w (f_ws st) -> ~ f_owns w x) -> mget (f_mem (snd (afrun at_len ops st))) x = mget (f_mem st) x) /\
  (forall w' x, In w' (f_ws (snd (afrun at_len ops st))) -> f_owns w' x -> exists w, In w (f_ws st) /\ f_owns w x) /\
  (exists ps, f_pkts (snd (afrun at_len ops st)) = f_pkts st ++ ps /\ (List.length ps <= List.length ops)%nat).
Proof. exact afrun_post. Qed.
(* FuseDevWriter::write_all_from (loop over write_from) and flush, mixed with everything else ([xfrun]): len <= cap for
   every writer, nothing outside the reply buffer written, windows never grow.  (On an unbuffered writer a source that
   ends early makes the second loop iteration hit the assert!: the model returns RPanic there, as the code does.) *)
Theorem C04_fusedev_xrun : forall at_len ops st, f_wf st -> x_step_post st (snd (xfrun at_len ops st)).
Proof. exact xfrun_post. Qed.
Example C04_async_nonvacuous :
  fa_regular (FAWriteFromAt 0 2 (Some [7; 8])) = true /\
  (* at the start of the buffer: the byte buffered before is lost *)
  f_pkts (snd (afrun false [FSync (FSplit 0 8); FAWrite 0 [1]; FAWriteFromAt 0 2 (Some [7; 8]); FACommit 0 None]
                     (mkf (mem_init 0) [mkfdw false 100 0 16] []))) = [[7; 8; pat 0 102]] /\
  (* behind what is buffered: the concatenation written *)
  f_pkts (snd (afrun true [FSync (FSplit 0 8); FAWrite 0 [1]; FAWriteFromAt 0 2 (Some [7; 8]); FACommit 0 None]
                     (mkf (mem_init 0) [mkfdw false 100 0 16] []))) = [[1; 7; 8]].
Proof. split; [reflexivity|]. split; vm_compute; reflexivity. Qed.

(* ================= the Bytes<usize> adapter of FileVolatileSlice is a plain view ================= *)
(* full statement: every trait method forwards to the VolatileSlice method of the same name.
   It was refuted while read_slice forwarded to write_slice (defect D3); since the fix 88a9593 the table
   regenerated from src/common/file_buf.rs is the identity and the statement is proved outright. *)
Definition C04_adapter_full : Prop := adapter_full.
Theorem C04_adapter : C04_adapter_full.
Proof. exact adapter_full_holds. Qed.
(* every one of the ten trait methods is the plain-view (VolatileSlice) method *)
Theorem C04_adapter_view_all : forall method, In method bytes_methods ->
  forall m base size buf addr count,
  fvs_call bytes_delegation method m base size buf addr count = vs_call method m base size buf addr count.
Proof. exact adapter_view_every. Qed.
(* still true, and the way the old defect would show up again: the full statement fails exactly when the pair
   (read_slice, write_slice) is in the source *)
Theorem C04_adapter_refuted_iff : ~ C04_adapter_full <-> In ("read_slice", "write_slice")%string bytes_delegation.
Proof. exact adapter_refuted_iff. Qed.
Theorem C04_adapter_partial : forall m d, In (m, d) bytes_delegation ->
  (m, d) <> ("read_slice", "write_slice")%string -> d = m.
Proof. exact adapter_partial. Qed.
Theorem C04_adapter_methods : map fst bytes_delegation = bytes_methods.
Proof. exact adapter_methods. Qed.
Theorem C04_adapter_view : forall method, In method bytes_methods -> method <> "read_slice"%string ->
  forall m base size buf addr count,
  fvs_call bytes_delegation method m base size buf addr count = vs_call method m base size buf addr count.
Proof. exact adapter_view_all. Qed.

(* ================= non-vacuity ================= *)
(* a two-region chain (readable 5 + 0 + 3 bytes, writable 4 + 6 bytes) is accepted, well formed, its writable
   part is duplicate free, and a run with reads, a split and writes goes through the non-error paths *)
Definition ex_regions : list (N * N) := [(4096, 8192); (65536, 4096)].
Definition ex_descs : list desc :=
  [mkdesc 4100 5 false; mkdesc 4200 0 false; mkdesc 65540 3 false; mkdesc 8190 4 true; mkdesc 65600 6 true].
Definition ex_state : vstate := snd (v_init 7 ex_regions ex_descs).
Definition ex_ops : list vop :=
  [RRead 0 3; RSplit 0 4; RReadExact 1 1; WWrite 0 [1; 2; 3]; WSplit 0 2; WWriteV 1 [[4]; []; [5; 6]];
   WWriteFrom 0 2 (Some [9; 9; 9]); WWrite 1 [1; 2; 3]].
Example C04_nonvacuous :
  fst (v_init 7 ex_regions ex_descs) = ROk 0 [] /\ wf_st ex_state /\ NoDup (live (v_wr ex_state)) /\
  map o_res (fst (vrun ex_ops ex_state)) =
    [ROk 3 [pat 7 4100; pat 7 4101; pat 7 4102]; ROk 0 []; ROk 1 [pat 7 65542]; ROk 3 []; ROk 0 []; ROk 3 [];
     ROk 2 []; RErr ENoSpace] /\
  map (mget (v_mem (snd (vrun ex_ops ex_state)))) [8190; 8191; 8192; 8193; 65600; 65601; 65602; 65603; 65604] = [1; 2; 3; 9; 9; 4; 5; 6; pat 7 65604].
Proof.
  split; [vm_compute; reflexivity|]. split.
  - split; repeat constructor; apply wf_io_b; vm_compute; reflexivity.
  - split; [apply nodupb_sound; vm_compute; reflexivity|].
    split; vm_compute; reflexivity.
Qed.
Example C04_nonvacuous_order :
  h_trace v_rd 0 ex_ops ex_state = ([4100; 4101; 4102], [65542]) /\
  h_trace v_wr 0 ex_ops ex_state = ([8190; 8191; 8192; 8193; 65600], [65601; 65602; 65603; 65604; 65605]).
Proof. split; vm_compute; reflexivity. Qed.
Example C04_nonvacuous_fusedev :
  let w := mkfdw false 1000 0 16 in
  f_inv w /\ f_oneshot_ok w /\ f_wf (mkf (mem_init 1) [w] []) /\
  f_pkts (snd (frun [FSplit 0 4; FWrite 1 [7; 8]; FWrite 0 [1; 2; 3; 4]; FCommit 0 (Some 1%nat)] (mkf (mem_init 1) [w] [])))
    = [[1; 2; 3; 4; 7; 8]] /\
  map o_res (fst (frun [FWrite 0 [1]; FWrite 0 [2]] (mkf (mem_init 1) [w] []))) = [ROk 1 []; RPanic].
Proof.
  cbn zeta. split; [apply N.leb_le; vm_compute; reflexivity|]. split; [right; reflexivity|].
  split; [repeat constructor; apply N.leb_le; vm_compute; reflexivity|]. split; vm_compute; reflexivity.
Qed.
Example C04_nonvacuous_adapter :
  In "write_slice"%string bytes_methods /\ "write_slice"%string <> "read_slice"%string /\
  delegate bytes_delegation "write_slice"%string = Some "write_slice"%string.
Proof. split; [vm_compute; tauto|]. split; [discriminate|vm_compute; reflexivity]. Qed.

Print Assumptions C04_take.
Print Assumptions C04_drop.
Print Assumptions C04_available.
Print Assumptions C04_counters.
Print Assumptions C04_chain_wf.
Print Assumptions C04_wf_preserved.
Print Assumptions C04_read.
Print Assumptions C04_read_exact.
Print Assumptions C04_read_exact_loop.
Print Assumptions C04_read_to.
Print Assumptions C04_read_to_failing_sink.
Print Assumptions C04_read_exact_to.
Print Assumptions C04_write_all_from.
Print Assumptions C04_reader_stream.
Print Assumptions C04_split_partition.
Print Assumptions C04_write.
Print Assumptions C04_write_vectored.
Print Assumptions C04_write_from.
Print Assumptions C04_stores_read_back.
Print Assumptions C04_run.
Print Assumptions C04_reader_order.
Print Assumptions C04_writer_order.
Print Assumptions C04_frame.
Print Assumptions C04_stores_persist.
Print Assumptions C04_nonwrite_keeps_memory.
Print Assumptions C04_segmentation_irrelevant_read.
Print Assumptions C04_segmentation_irrelevant_write.
Print Assumptions C04_fusedev_assert.
Print Assumptions C04_fusedev_panic_iff.
Print Assumptions C04_fusedev_write.
Print Assumptions C04_fusedev_write_vectored.
Print Assumptions C04_fusedev_write_from.
Print Assumptions C04_fusedev_split.
Print Assumptions C04_fusedev_split_content.
Print Assumptions C04_fusedev_commit.
Print Assumptions C04_fusedev_run.
Print Assumptions C04_async_op_same.
Print Assumptions C04_async_run_same.
Print Assumptions C04_async_run.
Print Assumptions C04_async_stores_persist.
Print Assumptions C04_async_fusedev.
Print Assumptions C04_async_fusedev_refuted_iff.
Print Assumptions C04_async_fusedev_write_all_empty.
Print Assumptions C04_async_fusedev_run.
Print Assumptions C04_fusedev_xrun.
Print Assumptions C04_adapter.
Print Assumptions C04_adapter_view_all.
Print Assumptions C04_adapter_refuted_iff.
Print Assumptions C04_adapter_partial.
Print Assumptions C04_adapter_methods.
Print Assumptions C04_adapter_view.

(* ================================================================================================================
   The environment made explicit (Model/TransportEnv.v): the fuse descriptor as an oracle of per-call verdicts,
   virtio-queue's descriptor chain iteration over the driver's tables, the retry loops of file_traits.rs over an
   oracle of per-call answers.  Proofs in Proofs/TransportDev.v and Proofs/TransportEnv.v.
   ================================================================================================================ *)
From FB Require Import Gen.DevShort Gen.FtLoops Model.TransportEnv Proofs.TransportEnv Proofs.TransportDev.

(* ================= the fuse descriptor may refuse or short-write =================
   [dev k] is the verdict on the k-th write(2)/writev(2) of the run: DAll | DShort k | DFail errno.
   [strict] = the writer turns a short count into EIO (Gen/DevShort.v says what the current source does). *)
(* the bytes the device took on a call are a prefix of the packet it was offered; a refused call took nothing *)
Theorem C04_dev_emitted_prefix : forall c, exists rest, dc_offered c = (emitted c ++ rest)%list.
Proof. exact emitted_prefix. Qed.
Theorem C04_dev_refused_took_nothing : forall c e, dc_ret c = DErrno e -> emitted c = [].
Proof. exact emitted_fail. Qed.
(* one operation, EVERY oracle: at most one device call (made with the next verdict); a reported success implies
   that call's own result was a success, a reported device error is that call's result ([op_out]); len <= cap kept,
   nothing outside the windows written, windows never grow ([d_frame]) *)
Theorem C04_dev_step : forall strict dev op st, d_wf st ->
  exists ext, d_calls (snd (dstep strict dev op st)) = (d_calls st ++ ext)%list /\
    op_out strict (op_raw op) (dev (List.length (d_calls st))) (do_res (fst (dstep strict dev op st))) ext /\
    d_frame st (snd (dstep strict dev op st)).
Proof. exact dstep_out. Qed.
Theorem C04_dev_one_call : forall strict raw v r cs, op_out strict raw v r cs -> (List.length cs <= 1)%nat.
Proof. exact op_out_length. Qed.
(* any operation list, every oracle: never more device calls than operations, and the invariants of C04_fusedev_run *)
Theorem C04_dev_run : forall strict dev ops st, d_wf st ->
  (exists ext, d_calls (snd (drun strict dev ops st)) = (d_calls st ++ ext)%list /\ (List.length ext <= List.length ops)%nat) /\
  d_frame st (snd (drun strict dev ops st)).
Proof. exact drun_inv. Qed.
(* commit: no call for an unbuffered writer or an empty reply; otherwise exactly one call offering self ++ other;
   what it returns is what the kernel answered (errno kept: from_raw_os_error) *)
Theorem C04_dev_commit : forall strict v m w other,
  let s := read_range m (f_base w) (f_len w) in
  let o := match other with Some x => read_range m (f_base x) (f_len x) | None => [] end in
  dw_commit strict v m w other =
    if negb (f_buffered w) then (DR (ROk 0 []), [])
    else match (s ++ o)%list with
         | [] => (DR (ROk 0 []), [])
         | p => let c := dev_call v (match s, o with _ :: _, _ :: _ => KWritev | _, _ => KWrite end) p in
                (dev_result strict true c, [c])
         end.
Proof. exact dw_commit_spec. Qed.
(* THE PROPERTY: "success is reported only if the device took the whole packet" holds exactly when short counts are
   checked; for the source as it is: [dev_strict] *)
Theorem C04_dev_full_iff : forall strict, dev_full strict <-> strict = true.
Proof. exact dev_full_iff. Qed.
Theorem C04_dev_current : dev_full dev_strict <-> dev_strict = true.
Proof. exact (dev_full_iff dev_strict). Qed.
(* witness: a split writer holding 4 bytes commits, the device takes 2: Ok(2), and the caller of commit drops the count *)
Theorem C04_dev_refuted : ~ dev_full false.
Proof. exact dev_full_refuted. Qed.
(* what remains true without the check: every device that never short-writes *)
Theorem C04_dev_partial : forall dev op st, d_wf st -> no_short (dev (List.length (d_calls st))) ->
  forall ext, d_calls (snd (dstep false dev op st)) = (d_calls st ++ ext)%list ->
  dres_ok (do_res (fst (dstep false dev op st))) -> Forall dev_whole ext.
Proof. exact dev_full_no_short. Qed.
(* a reported device error: exactly one call was made, it failed with that errno, the device took nothing *)
Theorem C04_dev_error_means_refused : forall dev op st, d_wf st ->
  dres_dev_err (do_res (fst (dstep false dev op st))) ->
  exists c e, d_calls (snd (dstep false dev op st)) = (d_calls st ++ [c])%list /\ dc_ret c = DErrno e /\ emitted c = [] /\
              do_res (fst (dstep false dev op st)) = (if op_raw op then DRaw e else DOther e).
Proof. exact dev_error_means_refused. Qed.
(* no second packet: an unbuffered writer that accounted for bytes refuses every write (the assert!) and its commit
   does nothing -- it never reaches the device again *)
Theorem C04_dev_poisoned : forall strict dev op st i w, nth_error (d_ws st) i = Some w -> f_buffered w = false -> f_len w <> 0 ->
  match op with
  | DWrite j _ | DWriteV j _ | DWriteFrom j _ _ | DWriteAllFrom j _ _ => j = i /\ True
  | DWriteAll j data => j = i /\ data <> []
  | _ => False
  end ->
  dstep strict dev op st = (dobs1 (DR RPanic) w, mkd (d_mem st) (set_nth i w (d_ws st)) ((d_calls st ++ [])%list)).
Proof. exact dev_poisoned_silent. Qed.
Theorem C04_dev_commit_unbuffered : forall strict dev st i w other, nth_error (d_ws st) i = Some w -> f_buffered w = false ->
  dstep strict dev (DCommit i other) st = (dobs1 (DR (ROk 0 [])) w, mkd (d_mem st) (d_ws st) ((d_calls st ++ [])%list)).
Proof. exact dev_commit_unbuffered_silent. Qed.
(* counters: unbuffered write accounts exactly for what the device took; unbuffered write_from accounts for the file
   data whatever the device took (and reports the device's count) *)
Theorem C04_dev_write_counts : forall v data m w, f_buffered w = false -> f_check w (lenN data) = None ->
  let '(r, m', w', cs) := dw_write false v data m w in
  exists c, cs = [c] /\ dc_offered c = data /\ m' = m /\ f_len w' = f_len w + lenN (emitted c) /\
            r = (match dc_ret c with DRet k => DR (ROk k []) | DErrno e => DOther e end).
Proof. exact dev_write_counts. Qed.
Theorem C04_dev_write_from_counts : forall v count sd m w, f_buffered w = false -> f_check w count = None ->
  let got := firstn (N.to_nat count) sd in
  let '(r, m', w', cs) := dw_write_from false v count (Some sd) m w in
  exists c, cs = [c] /\ dc_offered c = got /\ f_len w' = f_len w + lenN got /\ lenN (emitted c) <= lenN got /\
            r = (match dc_ret c with DRet k => DR (ROk k []) | DErrno e => DOther e end).
Proof. exact dev_write_from_counts. Qed.
(* a device that takes everything: the machine of the theorems above (fw_write, fw_write_from, fw_commit) *)
Theorem C04_dev_all_write : forall strict data m w,
  dw_write strict DAll data m w = let '(r, m', w', ps) := fw_write data m w in (DR r, m', w', map (pkt_call KWrite) ps).
Proof. exact dev_all_write. Qed.
Theorem C04_dev_all_write_from : forall strict count src m w,
  dw_write_from strict DAll count src m w = let '(r, m', w', ps) := fw_write_from count src m w in (DR r, m', w', map (pkt_call KWrite) ps).
Proof. exact dev_all_write_from. Qed.
Theorem C04_dev_all_commit : forall strict m w other,
  fst (dw_commit strict DAll m w other) = DR (fst (fw_commit m w other)) /\
  map dc_offered (snd (dw_commit strict DAll m w other)) = snd (fw_commit m w other) /\
  Forall dev_whole (snd (dw_commit strict DAll m w other)).
Proof. exact dev_all_commit. Qed.
(* non-vacuity: header/payload split; the first commit is refused with EPIPE (32), the second is cut after 3 of 6
   bytes and still reports Ok(3); an unbuffered write_from whose packet is refused leaves a writer that panics *)
Example C04_dev_nonvacuous :
  let st := mkd (mem_init 1) [mkfdw false 1000 0 16] [] in
  d_wf st /\
  map do_res (fst (drun false (dev_of [DFail 32; DShort 3]) [DSplit 0 4; DWrite 1 [7; 8]; DWriteAll 0 [1; 2; 3; 4]; DCommit 0 (Some 1%nat); DCommit 0 (Some 1%nat)] st))
    = [DR (ROk 0 []); DR (ROk 2 []); DR (ROk 0 []); DRaw 32; DR (ROk 3 [])] /\
  map emitted (d_calls (snd (drun false (dev_of [DFail 32; DShort 3]) [DSplit 0 4; DWrite 1 [7; 8]; DWriteAll 0 [1; 2; 3; 4]; DCommit 0 (Some 1%nat); DCommit 0 (Some 1%nat)] st)))
    = [[]; [1; 2; 3]] /\
  map do_res (fst (drun true (dev_of [DShort 3]) [DSplit 0 4; DWrite 1 [7; 8]; DWriteAll 0 [1; 2; 3; 4]; DCommit 0 (Some 1%nat)] st))
    = [DR (ROk 0 []); DR (ROk 2 []); DR (ROk 0 []); DRaw 5] /\
  map do_res (fst (drun false (dev_of [DFail 19]) [DWriteFrom 0 4 (Some [9; 9; 9; 9]); DWrite 0 [1]] st)) = [DOther 19; DR RPanic] /\
  map do_res (fst (drun false (dev_of [DShort 1]) [DWriteAll 0 [5; 6]] st)) = [DR RPanic].
Proof.
  cbn zeta. split; [repeat constructor; apply N.leb_le; vm_compute; reflexivity|]. repeat split; vm_compute; reflexivity.
Qed.

(* ================= chains as the driver's tables describe them (virtio-queue 0.17 DescriptorChain) ================= *)
(* the model's fuel never runs out: the iterator stops by itself (ttl, at most one switch to an indirect table) *)
Theorem C04_vq_terminates : forall t q, exists ds, vq_collect t q = Some ds.
Proof. exact vq_collect_some. Qed.
(* whatever the tables hold: Error::DescriptorChainOverflow cannot come out of Reader::from_descriptor_chain /
   VirtioFsWriter::new (the iterator stops before 2^32 bytes), and an accepted chain holds fewer than 2^32 bytes *)
Theorem C04_vq_no_overflow : forall regions t table qsize head w, fst (from_vq regions t table qsize head w) <> RErr EOverflow.
Proof. exact from_vq_no_overflow. Qed.
Theorem C04_vq_avail : forall regions t table qsize head w n x b,
  from_vq regions t table qsize head w = (ROk n x, b) -> avail b <= U32_MAX /\ consumed b = 0 /\ wf_io b.
Proof. exact from_vq_avail. Qed.
(* a plain chain in the table (any number of descriptors up to the queue size, fewer than 2^32 bytes) reaches the
   constructors unchanged: the list-level model of all theorems above is the table-level model on such tables *)
Theorem C04_vq_list : forall regions table qsize ds w,
  N.of_nat (List.length ds) <= qsize -> dlen_total ds <= U32_MAX -> table + 16 * N.of_nat (List.length ds) <= USIZE_MAX ->
  from_vq regions (tbl_of_list table 0 ds) table qsize 0 w = from_chain regions ds w.
Proof. exact from_vq_list. Qed.
(* non-vacuity: a direct descriptor followed by an INDIRECT one whose table holds a readable and a writable
   descriptor; a chain cut where 2^32 bytes would be exceeded; a two-descriptor loop cut by the queue size *)
Example C04_vq_nonvacuous :
  let regs := [(1048576, 8388608)] in
  let t1 := [(0, mkrd 1048576 8 true false false 1); (16, mkrd 512 32 false false true 0);
             (512, mkrd 1048600 4 true false false 1); (528, mkrd 1052672 100 false true false 0)] in
  option_map (map desc_of) (vq_collect t1 (vq_new 0 16 0)) =
    Some [mkdesc 1048576 8 false; mkdesc 1048600 4 false; mkdesc 1052672 100 true] /\
  avail (snd (from_vq regs t1 0 16 0 true)) = 100 /\
  (let t2 := [(0, mkrd 1048576 4294967000 true true false 1); (16, mkrd 1048576 296 false true false 0)] in
   option_map (@List.length rdesc) (vq_collect t2 (vq_new 0 16 0)) = Some 1%nat) /\
  (let t3 := [(0, mkrd 1048576 1 true true false 1); (16, mkrd 1048577 1 true true false 0)] in
   option_map (@List.length rdesc) (vq_collect t3 (vq_new 0 4 0)) = Some 4%nat).
Proof. cbn zeta. repeat split; vm_compute; reflexivity. Qed.

(* ================= the retry loops of file_traits.rs, for every sequence of per-call answers ================= *)
(* read_exact_volatile / write_all_volatile (retry = false, at = false), read_exact_at_volatile /
   write_all_at_volatile (retry = at = true): the slice offsets touched by the successful calls are exactly
   0, 1, ..., total-1 in this order (a prefix; nothing repeated, nothing skipped), the file offsets likewise from
   foff; total <= len; success iff everything was transferred; Interrupted surfaces only from the loops without a
   retry arm *)
Theorem C04_ft_loop : forall retry at_ orc fuel len foff r c log,
  (at_ = true -> foff + len <= USIZE_MAX) ->
  ft_loop retry at_ orc fuel 0 len 0 foff [] = (r, c, log) ->
  x_ranges log = addrs 0 (log_total log) /\ f_ranges log = addrs foff (log_total log) /\ log_total log <= len /\
  (r = LOk -> log_total log = len) /\ (r <> LFuel -> log_total log = len -> r = LOk) /\ (r = LIntr -> retry = false).
Proof. exact ft_loop_spec. Qed.
Theorem C04_ft_loop_fuel : forall at_ orc fuel call len done foff log,
  done <= len -> (N.to_nat (len - done) < fuel)%nat -> fst (fst (ft_loop false at_ orc fuel call len done foff log)) <> LFuel.
Proof. exact ft_loop_fuel. Qed.
Theorem C04_ft_loop_fuel_retry : forall at_ orc fuel call len done foff log,
  done <= len -> (forall k, (call <= k < call + fuel)%nat -> orc k <> CIntr) -> (N.to_nat (len - done) < fuel)%nat ->
  fst (fst (ft_loop true at_ orc fuel call len done foff log)) <> LFuel.
Proof. exact ft_loop_fuel_retry. Qed.
(* the default vectored methods: "the first nonempty buffer" (their documentation) holds exactly for those that do
   not use bufs.first(); for the source as it is: the flags of Gen/FtLoops.v *)
Theorem C04_ft_vectored_doc_iff : forall first_only, vectored_doc first_only <-> first_only = false.
Proof. exact vectored_doc_iff. Qed.
Theorem C04_ft_vectored_current :
  (vectored_doc ft_first_only_read_vectored_volatile <-> ft_first_only_read_vectored_volatile = false) /\
  (vectored_doc ft_first_only_write_vectored_volatile <-> ft_first_only_write_vectored_volatile = false) /\
  (vectored_doc ft_first_only_read_vectored_at_volatile <-> ft_first_only_read_vectored_at_volatile = false) /\
  (vectored_doc ft_first_only_write_vectored_at_volatile <-> ft_first_only_write_vectored_at_volatile = false).
Proof. exact (conj (vectored_doc_iff _) (conj (vectored_doc_iff _) (conj (vectored_doc_iff _) (vectored_doc_iff _)))). Qed.
Theorem C04_ft_vectored_first_partial : forall lens, match lens with l :: _ => l <> 0 | [] => True end ->
  dflt_vectored true lens = first_nonempty 0 lens.
Proof. exact vectored_first_partial. Qed.
Example C04_ft_nonvacuous :
  ft_read_exact (orc_of [COk 3; COk 5; COk 2]) 20 10 = (LOk, 3%nat, [mkx 0 0 3; mkx 3 3 5; mkx 8 8 2]) /\
  ft_read_exact (orc_of [COk 3; CIntr; COk 7]) 20 10 = (LIntr, 2%nat, [mkx 0 0 3]) /\
  ft_read_exact_at (orc_of [COk 3; CIntr; COk 7]) 20 10 100 = (LOk, 3%nat, [mkx 0 100 3; mkx 3 103 7]) /\
  ft_write_all_at (orc_of [COk 4; COk 0]) 20 10 7 = (LEof, 2%nat, [mkx 0 7 4]) /\
  ft_write_all (orc_of [COk 11]) 20 10 = (LPanic, 1%nat, []) /\
  dflt_vectored true [0; 5] = Some 0%nat /\ first_nonempty 0 [0; 5] = Some 1%nat.
Proof. repeat split; vm_compute; reflexivity. Qed.

Print Assumptions C04_dev_emitted_prefix.
Print Assumptions C04_dev_refused_took_nothing.
Print Assumptions C04_dev_step.
Print Assumptions C04_dev_one_call.
Print Assumptions C04_dev_run.
Print Assumptions C04_dev_commit.
Print Assumptions C04_dev_full_iff.
Print Assumptions C04_dev_current.
Print Assumptions C04_dev_refuted.
Print Assumptions C04_dev_partial.
Print Assumptions C04_dev_error_means_refused.
Print Assumptions C04_dev_poisoned.
Print Assumptions C04_dev_commit_unbuffered.
Print Assumptions C04_dev_write_counts.
Print Assumptions C04_dev_write_from_counts.
Print Assumptions C04_dev_all_write.
Print Assumptions C04_dev_all_write_from.
Print Assumptions C04_dev_all_commit.
Print Assumptions C04_vq_terminates.
Print Assumptions C04_vq_no_overflow.
Print Assumptions C04_vq_avail.
Print Assumptions C04_vq_list.
Print Assumptions C04_ft_loop.
Print Assumptions C04_ft_loop_fuel.
Print Assumptions C04_ft_loop_fuel_retry.
Print Assumptions C04_ft_vectored_doc_iff.
Print Assumptions C04_ft_vectored_current.
Print Assumptions C04_ft_vectored_first_partial.
