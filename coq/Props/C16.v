(* C16 -- directory listing returns each entry exactly once across any chunking/resumption.
   Only statements, closed by [exact]; proofs live in Proofs/Readdir*.v.

   Reading guide.  [d = pre ++ rest] is the host directory in getdents64 order (records
   name/d_ino/d_off/d_type), [good_dir]: d_off cookies distinct and non-zero (host oracle
   hypothesis), [seekable]: every cookie can be lseek'ed to (<= i64::MAX, lseek succeeds), so the
   linear-scan fallback is not needed for legitimate offsets.  [listing] is a client that sends
   READDIR (or READDIRPLUS) requests, each resuming from the offset of the last entry it received
   ([off_at pre off]: 0 at the start, else the cookie of the entry before the resume point - i.e.
   the offset of ANY previously returned entry), each on an arbitrary open handle, with an arbitrary
   list of other requests (any handle, size, offset, kind: going back, other listings) executed
   before every one of its requests.  [C : cfg] carries no_opendir and the VFS inode-conversion
   closure, so the same theorems cover directories listed through the VFS. *)
From Coq Require Import List NArith Bool Lia.
From FB Require Import Model.Readdir Proofs.Readdir Proofs.ReaddirStep Proofs.ReaddirListing Proofs.ReaddirInst Proofs.ReaddirScan Proofs.ReaddirFallback Proofs.ReaddirAnyHost.
From FB Require Lib.RustExpr Gen.RustPure Proofs.RustPure Proofs.RustPureServer.
Import ListNotations.
Local Open Scope N_scope.

(* [c_rx C : rfixes] records which repairs of do_readdir the source tree contains: the re-read loop for a
   getdents64 batch that holds only "." / ".." (commit 9ef9710) and the scan buffer of max(size, 4096) in
   the linear-scan fallback (commit 55956bc).  The code has both ([all_rfixes]); props/c16.py checks that
   against the source on every run and the tie runs the model with [all_rfixes], so a tree without one of
   them is reported as a broken tie with a failing history. *)

(* The statement as given, for the code as it is (hosts whose cookies can be lseek'ed to): every size only
   has to hold the next entry ([full_size_ok]); then all requests succeed, the concatenated replies are
   exactly the visible entries from the resume point, in order, each once, and the last reply is empty. *)
Definition C16_full_for (X : rfixes) : Prop := C16_full_stmt X.
Theorem C16_full : C16_full_for all_rfixes.
Proof. exact (C16_full_fixed all_rfixes eq_refl). Qed.

(* The re-read loop is needed: without it the statement is false (what the tree did before commit 9ef9710:
   a batch of only "." / ".." gave an empty reply, which the client reads as end of directory). *)
Theorem C16_unrepaired_refuted : ~ C16_full_for no_rfixes.
Proof. exact C16_full_refuted. Qed.

(* Proved part, any tree: exactly-once for every size that is adequate for the tree ([size_ok]: on the
   current tree [step_ok] - host records of the "."/".." entries in front of the next visible entry + its
   own record fit, and the reply holds its fuse_dirent; on a tree with the re-read loop just "holds the
   next entry").  The replies are all successful, their concatenation is exactly
   the visible entries from the resume point, in order, and the last reply is empty. *)
Theorem C16_exactly_once_partial : forall plan H C pre rest st off plus,
  good_dir (pre ++ rest) -> seekable H (pre ++ rest) -> lookups_ok H (pre ++ rest) ->
  wrap_total (c_wrap C) -> InvSt (pre ++ rest) st ->
  (c_noopendir C = false -> forall m, In m plan -> hs_open (st_h st (ms_handle m)) = true) ->
  off_at pre off ->
  plan_ok (size_ok (c_rx C)) H C (pre ++ rest) st off plus plan ->
  (length (visible rest) < length plan)%nat ->
  exists replies,
    listing H C (pre ++ rest) st off plus plan = map ROk (replies ++ [[]]) /\
    concat replies = map (mkd H (c_wrap C) plus) (visible rest).
Proof. exact listing_complete. Qed.

(* what such a complete listing consists of: each entry once (distinct offsets), non-zero offsets,
   no "." / "..", and the name, type and offset of the host entry *)
Theorem C16_listing_content : forall H wrap plus pre rest,
  good_dir (pre ++ rest) ->
  let l := map (mkd H wrap plus) (visible rest) in
  NoDup (map de_off l) /\
  Forall (fun e => de_off e <> 0 /\ list_eqb (de_name e) [46] = false /\ list_eqb (de_name e) [46; 46] = false) l /\
  map (fun e => (de_name e, de_ty e, de_off e)) l = map (fun e => (h_name e, h_ty e, h_off e)) (visible rest).
Proof. exact delivered_props. Qed.

(* Safety for ANY sizes: while no request fails, what the client has is a prefix of the visible
   entries from the resume point (never a duplicate, never a skipped or foreign entry). *)
Theorem C16_resume_safety : forall plan H C pre rest st off plus replies,
  good_dir (pre ++ rest) -> seekable H (pre ++ rest) -> lookups_ok H (pre ++ rest) ->
  wrap_total (c_wrap C) -> InvSt (pre ++ rest) st ->
  (c_noopendir C = false -> forall m, In m plan -> hs_open (st_h st (ms_handle m)) = true) ->
  off_at pre off ->
  listing H C (pre ++ rest) st off plus plan = map ROk replies ->
  exists s, map (mkd H (c_wrap C) plus) (visible rest) = concat replies ++ s.
Proof. exact listing_prefix. Qed.

(* the chunking function itself (this is what the tie compares with the real replies): the reply is the
   visible part of the batch [batchf] (one getdents64; plus the re-read loop on a repaired tree) cut to the
   reply size - or the batch's error *)
Theorem C16_reply_exact : forall H C pre rest st r B,
  good_dir (pre ++ rest) -> seekable H (pre ++ rest) -> InvSt (pre ++ rest) st ->
  lookups_ok H (pre ++ rest) -> wrap_total (c_wrap C) ->
  (c_noopendir C = false -> hs_open (st_h st (r_handle r)) = true) ->
  off_at pre (r_offset r) -> r_size r <> 0 ->
  batchf (c_rx C) (r_size r) rest = ROk B -> (forall e, In e B -> In e rest) ->
  fst (step H C (pre ++ rest) st r) =
  ROk (map (mkd H (c_wrap C) (r_plus r)) (take_fit (dirent_size (r_plus r)) (r_size r) (visible B))).
Proof. exact step_resume. Qed.

(* the two places that test a record name for "." / ".." - the batch-discard decision of the re-read loop
   ([is_dot_batch], only_dot_entries) and the per-record filter ([is_dot]) - agree on EVERY name; C16_full
   rests on this: a name such as "..data" is an ordinary entry for both *)
Theorem C16_dot_tests_agree : forall e, is_dot_batch e = is_dot e.
Proof. exact dot_batch_agrees. Qed.

(* no reply exceeds the requested size: unconditional (any state, request, host) *)
Theorem C16_size_respected : forall H C d st r reply,
  fst (step H C d st r) = ROk reply -> reply_bytes (r_plus r) reply <= r_size r.
Proof. exact step_size. Qed.

(* cookie cache: the invariant "a cached cookie names the entry right before the fd position"
   survives every request (any handle, size, offset - including the fallback and error paths) ... *)
Theorem C16_cache_invariant : forall H C d st r,
  good_dir d -> InvSt d st -> InvSt d (snd (step H C d st r)).
Proof. exact step_inv. Qed.
(* ... hence the lseek-free fast path is taken only when the fd already is where lseek would put it *)
Theorem C16_cookie_cache_sound : forall H d hs offset,
  good_dir d -> Inv_h d hs -> cache_hit true hs offset = true ->
  index_after offset d = Some (hs_pos hs) /\ lseek_pos H d offset = hs_pos hs.
Proof. exact cache_hit_sound. Qed.

(* readdirplus takes a lookup reference for exactly the entries it delivers; readdir takes none *)
Theorem C16_plus_refs : forall H C d st r reply,
  wrap_total (c_wrap C) -> fst (step H C d st r) = ROk reply ->
  forall i, st_refs (snd (step H C d st r)) i = st_refs st i + (if r_plus r then cnt i reply else 0).
Proof. exact step_refs. Qed.

(* linear-scan fallback (offsets > i64::MAX or lseek EINVAL): PARTIAL - shown: whatever batch it
   returns is a contiguous segment of the directory ending at the new fd position (this is what the
   cache invariant needs); not shown: that the segment starts right after the requested cookie. *)
Theorem C16_fallback_segment_partial : forall d size c fuel pre rest found b n,
  d = pre ++ rest ->
  scan fuel rest size c found (length pre) = (ROk b, n) ->
  exists p s, d = p ++ b ++ s /\ n = (length p + length b)%nat.
Proof. exact scan_segment. Qed.

(* ... and, at the level of the scan loop: when every record fits the buffer, the scan started at the
   beginning of the directory returns a prefix (non-empty if anything remains) of the records right
   after the requested cookie, leaving the fd right after that prefix.  (Not lifted to the listing
   theorems, which assume a seekable host; the remainder of the cookie's batch may hold only dots.) *)
Theorem C16_fallback_scan_partial : forall fuel (pre r1 : list hent) e r2 size c,
  (length (r1 ++ e :: r2) < fuel)%nat ->
  h_off e = c -> ~ In c (map h_off r1) ->
  all_fit size (r1 ++ e :: r2) ->
  exists b s, scan fuel (r1 ++ e :: r2) size c false (length pre)
              = (ROk b, (length pre + length r1 + 1 + length b)%nat) /\
              r2 = b ++ s /\ (r2 <> [] -> b <> []).
Proof. exact scan_found. Qed.

(* Safety on ANY host whose lseek either works or answers EINVAL (cookies above i64::MAX included):
   resuming goes through the cache hit, lseek or the linear-scan fallback, and for sizes that hold every
   host record the client always has a prefix of the remaining visible entries. *)
Theorem C16_resume_safety_any_host : forall plan H C pre rest st off plus replies,
  good_dir (pre ++ rest) -> seek_recoverable H -> lookups_ok H (pre ++ rest) ->
  wrap_total (c_wrap C) -> InvSt (pre ++ rest) st ->
  (c_noopendir C = false -> forall m, In m plan -> hs_open (st_h st (ms_handle m)) = true) ->
  (forall m, In m plan -> ms_size m = 0 \/ all_fit (ms_size m) (pre ++ rest)) ->
  off_at pre off ->
  listing H C (pre ++ rest) st off plus plan = map ROk replies ->
  exists s, map (mkd H (c_wrap C) plus) (visible rest) = concat replies ++ s.
Proof. exact listing_prefix_any_host. Qed.

(* The statement as given, for the code as it is, on ANY host whose lseek works or answers EINVAL (cookies
   above i64::MAX included), provided every host record fits 4096 bytes (NAME_MAX = 255 gives at most 280):
   resuming through the cache hit, lseek or the linear-scan fallback, every plan whose sizes hold the next
   entry lists the directory completely, in order, each entry once, ending with an empty reply. *)
Theorem C16_full_any_host : forall plan H C pre rest st off plus,
  c_rx C = all_rfixes ->
  good_dir (pre ++ rest) -> seek_recoverable H -> all_fit 4096 (pre ++ rest) -> lookups_ok H (pre ++ rest) ->
  wrap_total (c_wrap C) -> InvSt (pre ++ rest) st ->
  (c_noopendir C = false -> forall m, In m plan -> hs_open (st_h st (ms_handle m)) = true) ->
  off_at pre off ->
  plan_ok full_size_ok H C (pre ++ rest) st off plus plan ->
  (length (visible rest) < length plan)%nat ->
  exists replies,
    listing H C (pre ++ rest) st off plus plan = map ROk (replies ++ [[]]) /\
    concat replies = map (mkd H (c_wrap C) plus) (visible rest).
Proof. exact listing_complete_any_host. Qed.

(* ... and the scan buffer of max(size, 4096) is needed on such hosts: without it the statement is false
   (before commit 55956bc the scan re-read from the start with the client's size and failed with EINVAL on
   an earlier record that does not fit; reproduced on the real code over a FUSE mount with cookies above
   i64::MAX). *)
Definition C16_full_any_host_for (X : rfixes) : Prop := C16_full_any_host_stmt X.
Theorem C16_unrepaired_refuted_any_host : ~ C16_full_any_host_for no_rfixes.
Proof. exact C16_full_any_host_refuted. Qed.

(* PseudoFs (index offsets), also when reached through the VFS *)
Theorem C16_pseudo_exactly_once : forall sizes pre rest plus,
  N.of_nat (length (pre ++ rest)) < U64_MAX ->
  psizes_ok (pre ++ rest) plus (N.of_nat (length pre)) sizes ->
  (length rest < length sizes)%nat ->
  exists replies,
    plisting (pre ++ rest) plus (N.of_nat (length pre)) sizes = map POk (replies ++ [[]]) /\
    concat replies = pall plus rest (N.of_nat (length pre) + 1).
Proof. exact pseudo_listing_complete. Qed.
Theorem C16_pseudo_size_respected : forall ch plus size off l,
  pseudo_readdir ch plus size off = POk l -> reply_bytes plus l <= size.
Proof. exact pseudo_size. Qed.

(* non-vacuity: the hypotheses of the partial theorem hold for a directory with "." in front of "a",
   a plan with a noise request (readdirplus on the same handle from another offset) and sizes of 48,
   and the listing is the expected one; the refutation witness is the same directory with size 32 *)
Example C16_nonvacuous :
  good_dir w_dir /\ seekable w_host w_dir /\ lookups_ok w_host w_dir /\ InvSt w_dir (init_state [1]) /\
  plan_ok (size_ok no_rfixes) w_host w_cfg w_dir (init_state [1]) 0 false w_plan_ok /\
  listing w_host w_cfg w_dir (init_state [1]) 0 false w_plan_ok = [ROk [mk_dirent 7 2 8 [97] 0]; ROk []] /\
  plan_ok full_size_ok w_host w_cfg_fixed w_dir (init_state [1]) 0 false w_plan.
Proof.
  refine (conj w_good (conj w_seekable (conj w_lookups (conj w_inv (conj w_plan_ok_holds (conj w_listing_value _)))))).
  cbn. unfold full_size_ok, spec_size_ok. cbn. repeat split; try discriminate; try lia.
Qed.
(* a host where no cookie can be lseek'ed to: cookies above i64::MAX; the listing goes through the
   fallback scan (32-byte replies, one entry each) and is complete *)
Definition nfs_dir : list hent :=
  [mk_hent [97] 11 9223372036854775813 8; mk_hent [46] 10 7 4; mk_hent [98] 12 9223372036854775817 8].
Definition nfs_host : host := mk_host (fun _ => 0%nat) (fun c => if c =? 0 then 0 else EINVAL) (fun _ => ROk (7, 11)).
Example C16_fallback_nonvacuous :
  seek_recoverable nfs_host /\
  listing nfs_host w_cfg nfs_dir (init_state [1]) 0 false
          [mk_mstep [] 1 56; mk_mstep [] 1 80; mk_mstep [] 1 80]
  = [ROk [mk_dirent 7 9223372036854775813 8 [97] 0]; ROk [mk_dirent 7 9223372036854775817 8 [98] 0]; ROk []].
Proof.
  split; [split; [reflexivity|intros c; cbn; destruct (c =? 0); auto]|vm_compute; reflexivity].
Qed.

(* the two refutation witnesses evaluated on the code as it is: both listings are complete *)
Example C16_witnesses :
  listing w_host w_cfg_fixed w_dir (init_state [1]) 0 false w_plan = [ROk [mk_dirent 7 2 8 [97] 0]; ROk []] /\
  listing f_host (mk_cfg true (fun i => ROk i) all_rfixes) f_dir (init_state []) 0 false f_plan
  = [ROk [mk_dirent 7 9223372036854775900 8 (repeat 120 100) 0]; ROk [mk_dirent 7 9223372036854775901 8 [97] 0];
     ROk [mk_dirent 7 9223372036854775902 8 [98] 0]; ROk []].
Proof. exact (conj w_listing_fixed f_listing_fixed). Qed.

Example C16_pseudo_nonvacuous :
  psizes_ok ([] ++ [([97], 5); ([98; 99], 6)]) false 0 [32; 32; 32] /\
  plisting [([97], 5); ([98; 99], 6)] false 0 [32; 32; 32]
  = [POk [mk_dirent 5 1 0 [97] 0]; POk [mk_dirent 6 2 0 [98; 99] 0]; POk []].
Proof. split; [cbn; repeat split; try discriminate; cbv; discriminate|reflexivity]. Qed.

(* ---- tie to the source text (Gen/RustPure.v is re-translated from src/api/server/sync_io.rs on every run): the reply
   record size [round8 (24 + namelen) + (128 for readdirplus)] and the skip test [(size - written) <? total] of the
   readdir model are what the body of add_dirent computes under rustc's integer semantics *)
Theorem C16_src_add_dirent : forall max nl plus written,
  max < 4294967296 -> nl <= 4294967295 -> written < 18446744073709551616 ->
  RustExpr.eval_fn RustExpr.Debug RustPure.add_dirent_src
    [RustExpr.VInt RustExpr.U32 max; RustExpr.VInt RustExpr.Usize nl; RustExpr.VBool plus; RustExpr.VInt RustExpr.Usize written] =
  RustPureServer.add_dirent_spec (round8 (24 + nl) + (if plus then 128 else 0)) max written.
Proof. exact RustPureServer.src_add_dirent_readdir. Qed.

Print Assumptions C16_full.
Print Assumptions C16_unrepaired_refuted.
Print Assumptions C16_exactly_once_partial.
Print Assumptions C16_listing_content.
Print Assumptions C16_resume_safety.
Print Assumptions C16_reply_exact.
Print Assumptions C16_dot_tests_agree.
Print Assumptions C16_size_respected.
Print Assumptions C16_cache_invariant.
Print Assumptions C16_cookie_cache_sound.
Print Assumptions C16_plus_refs.
Print Assumptions C16_fallback_segment_partial.
Print Assumptions C16_fallback_scan_partial.
Print Assumptions C16_resume_safety_any_host.
Print Assumptions C16_full_any_host.
Print Assumptions C16_unrepaired_refuted_any_host.
Print Assumptions C16_pseudo_exactly_once.
Print Assumptions C16_pseudo_size_respected.
Print Assumptions C16_src_add_dirent.
