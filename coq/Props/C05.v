(* C05 -- passthrough requests have the effect and result of the same host system call (partial:
   Model/HostFs.v is a validated, not verified, description of Linux).  Only statements. *)
From Coq Require Import List NArith Bool.
From FB Require Import Model.Names Model.HostFs Model.Passthrough Proofs.PassthroughCreds.
Import ListNotations.
Local Open Scope N_scope.

(* the serving thread's euid/egid/CAP_FSETID after every request, on every path, are root's again *)
Theorem C05_creds_restored : forall cf s q rp io ho s',
  p_creds s = root_creds -> pstep cf s q = (rp, io, ho, s') -> p_creds s' = root_creds.
Proof. exact pstep_creds_restored. Qed.
Theorem C05_creds_restored_history : forall cf qs r out rf, p_creds (r_p r) = root_creds -> run cf r qs = (out, rf) ->
  p_creds (r_p rf) = root_creds /\ Forall (fun o => snd o = root_creds) out.
Proof. exact run_creds_restored. Qed.

Print Assumptions C05_creds_restored.
Print Assumptions C05_creds_restored_history.
