(* C05 -- passthrough requests have the effect and result of the same host system call.
   PARTIAL: Model/HostFs.v is a validated, not verified, description of Linux; the tree-refinement
   theorem covers the single-call operations (see notes/C05.md for the list of what is not covered).
   Only statements, closed by [exact]. *)
From Coq Require Import List NArith Bool.
From FB Require Import Model.Names Model.HostFs Model.Passthrough Proofs.PassthroughCreds Proofs.PassthroughRefine.
Import ListNotations.
Local Open Scope N_scope.

(* the serving thread's euid/egid/CAP_FSETID after every request, on every path (including every error
   path) and in every configuration, are root's again *)
Theorem C05_creds_restored : forall cf s q rp io ho s',
  p_creds s = root_creds -> pstep cf s q = (rp, io, ho, s') -> p_creds s' = root_creds.
Proof. exact pstep_creds_restored. Qed.
Theorem C05_creds_restored_history : forall cf qs r out rf, p_creds (r_p r) = root_creds -> run cf r qs = (out, rf) ->
  p_creds (r_p rf) = root_creds /\ Forall (fun o => snd o = root_creds) out.
Proof. exact run_creds_restored. Qed.

(* inside a set_creds scope entered as root the calls run with exactly the caller's ids (and without
   capabilities unless the caller is root) *)
Theorem C05_caller_identity : forall A uid gid s (body : pstate -> res A * pstate),
  p_creds s = root_creds ->
  exists c r0 s1, body (with_creds_of s (caller_creds uid gid)) = (r0, s1) /\
                  with_creds uid gid s body = (r0, with_creds_of s1 c).
Proof. exact with_creds_from_root. Qed.

(* ownership: a node created by mkdirat/mknodat/symlinkat/openat(O_CREAT) belongs to the calling
   credentials: uid = the caller's, gid = the caller's unless the directory is setgid.
   (C05_owner_partial: stated at the level of the creating host call + C05_caller_identity; the
   composition through do_lookup into the Entry returned to the client is checked by the harness only) *)
Theorem C05_owner_partial : forall c h d dv n k mode i h', i <> d ->
  create_node c h d dv n k mode = (i, h') ->
  exists v, get h' i = Some v /\ i_uid v = euid c /\ i_gid v = new_gid c dv /\ i_kind v = k.
Proof. exact create_node_owner. Qed.
Theorem C05_owner_ids : forall uid gid dv, uid <> 0 ->
  euid (caller_creds uid gid) = uid /\
  new_gid (caller_creds uid gid) dv = (if has (i_mode dv) S_ISGID then i_gid dv else gid).
Proof. exact owner_of_caller. Qed.

(* flags *)
Theorem C05_flags_writeback_off : forall cf f, c_writeback cf = false -> get_writeback_open_flags cf f = f.
Proof. exact writeback_flags_off. Qed.
Theorem C05_flags_writeback_no_append : forall cf f, c_writeback cf = true ->
  has (get_writeback_open_flags cf f) O_APPEND = false.
Proof. exact writeback_flags_no_append. Qed.
Theorem C05_flags_writeback_access : forall cf f, c_writeback cf = true -> (N.land f O_ACCMODE =? O_WRONLY) = true ->
  get_writeback_open_flags cf f =
  (if has f O_APPEND then clear (N.lor (clear f O_ACCMODE) O_RDWR) O_APPEND else N.lor (clear f O_ACCMODE) O_RDWR).
Proof. exact writeback_flags_access. Qed.
Theorem C05_flags_check_fd : forall s hid hd flags hd' s', check_fd_flags s hid hd flags = (hd', s') ->
  hd_flags hd' = flags /\ hd_host hd' = hd_host hd /\ hd_acc hd' = hd_acc hd /\
  (hd_flags hd <> flags -> hd_append hd' = has flags O_APPEND) /\ p_host s' = p_host s.
Proof. exact check_fd_flags_sets. Qed.

Theorem C05_special_never_opened : forall cf s inode flags d, assoc inode (p_inodes s) = Some d ->
  is_safe_inode (id_mode d) = false -> open_inode cf s inode flags = (Err EBADF, s).
Proof. exact special_never_opened. Qed.

(* refinement of the exported tree by the direct call: the FULL statement (all configurations) is refuted
   by the inode_file_handles defect; outside that class it holds for the covered operations *)
Theorem C05_refuted : ~ C05_full.
Proof. exact full_refuted. Qed.
Theorem C05_tree_partial : forall cf s q, p_creds s = root_creds -> ~ Known cf q -> C05_tree_statement cf s q.
Proof. exact tree_partial. Qed.

(* non-vacuity *)
Example C05_nonvacuous : Known wit_cfg wit_req /\ direct_host wit_cfg (init_state wit_host 10) wit_req <> None /\
  p_creds (init_state wit_host 10) = root_creds.
Proof. split; [exact wit_known|]. split; [discriminate | reflexivity]. Qed.

Print Assumptions C05_creds_restored.
Print Assumptions C05_creds_restored_history.
Print Assumptions C05_caller_identity.
Print Assumptions C05_owner_partial.
Print Assumptions C05_owner_ids.
Print Assumptions C05_flags_writeback_off.
Print Assumptions C05_flags_writeback_no_append.
Print Assumptions C05_flags_writeback_access.
Print Assumptions C05_flags_check_fd.
Print Assumptions C05_special_never_opened.
Print Assumptions C05_refuted.
Print Assumptions C05_tree_partial.
