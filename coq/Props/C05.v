(* C05 -- passthrough requests have the effect and result of the same host system call.
   PARTIAL only in this sense: Model/HostFs.v is a validated, not verified, description of Linux, and reply
   refinement is proved for the request kinds [direct_reply] covers (see notes/C05.md).
   Only statements, closed by [exact]. *)
From Coq Require Import List NArith Bool.
From FB Require Import Gen.Validators Model.Names Model.HostFs Model.Passthrough Proofs.PassthroughCreds Proofs.PassthroughRefine Proofs.PassthroughWbAppend.
From FB Require Lib.RustExpr Gen.RustPure Proofs.RustPure Proofs.RustPurePassthrough.
Import ListNotations.
Local Open Scope N_scope.

(* the exported tree after EVERY request kind, in EVERY configuration, is the tree after the direct calls
   made with the caller's identity (and with CAP_FSETID dropped exactly where the request asks) *)
Theorem C05_op_refines_syscall : C05_full.
Proof. exact tree_full. Qed.
(* ... and along every history *)
Theorem C05_history : forall cf qs r, p_creds (r_p r) = root_creds -> run_refines cf r qs.
Proof. exact history_refines. Qed.
(* replies (errno, attributes, link target) equal the direct calls' for lookup, getattr, mkdir, mknod, symlink,
   unlink, rmdir, rename, readlink; C05_reply_partial: create, open, read, write, setattr, xattr, fallocate,
   lseek replies are compared differentially only *)
Theorem C05_reply_partial : forall cf s q rp io ho s' dr,
  p_creds s = root_creds -> direct_reply cf s q = Some dr -> pstep cf s q = (rp, io, ho, s') -> rp = dr.
Proof. exact reply_refines. Qed.

(* the serving thread's euid/egid/CAP_FSETID after every request, on every path (including every error
   path) and in every configuration, are root's again *)
Theorem C05_creds_restored : forall cf s q rp io ho s',
  p_creds s = root_creds -> pstep cf s q = (rp, io, ho, s') -> p_creds s' = root_creds.
Proof. exact pstep_creds_restored. Qed.
Theorem C05_creds_restored_history : forall cf qs r out rf, p_creds (r_p r) = root_creds -> run cf r qs = (out, rf) ->
  p_creds (r_p rf) = root_creds /\ Forall (fun o => snd o = root_creds) out.
Proof. exact run_creds_restored. Qed.
Theorem C05_caller_identity : forall A uid gid s (body : pstate -> res A * pstate),
  p_creds s = root_creds ->
  exists c r0 s1, body (with_creds_of s (caller_creds uid gid)) = (r0, s1) /\
                  with_creds uid gid s body = (r0, with_creds_of s1 c).
Proof. exact with_creds_from_root. Qed.

(* ownership, up to the Entry returned to the client: an object created by mkdir / mknod / symlink for a caller
   is owned by that caller (gid: the caller's unless the directory is setgid).
   C05_owner_create_partial: for create() the same is proved at the level of the creating host call only. *)
Theorem C05_owner : forall s uid gid parent n call rp io s' d,
  p_creds s = root_creds -> host_wf (p_host s) -> nul_free n -> creating_call call n ->
  assoc parent (p_inodes s) = Some d ->
  create_then_lookup s uid gid parent n call = (rp, io, s') ->
  forall a, rp = RpEntry a ->
  a_uid a = uid /\ exists dv, get (p_host s) (id_host d) = Some dv /\
                              a_gid a = (if has (i_mode dv) S_ISGID then i_gid dv else gid).
Proof. exact owner_entry. Qed.
Theorem C05_owner_calls : forall n mode rdev t,
  creating_call (fun c h d => sys_mkdirat c h d n mode) n /\
  creating_call (fun c h d => sys_mknodat c h d n mode rdev) n /\
  creating_call (fun c h d => sys_symlinkat c h t d n) n.
Proof. intros n mode rdev t. exact (conj (mkdirat_creating n mode) (conj (mknodat_creating n mode rdev) (symlinkat_creating n t))). Qed.
Theorem C05_owner_create_partial : forall c h d dv n k mode i h', i <> d ->
  create_node c h d dv n k mode = (i, h') ->
  exists v, get h' i = Some v /\ i_uid v = euid c /\ i_gid v = new_gid c dv /\ i_kind v = k.
Proof. exact create_node_owner. Qed.

(* setattr applies exactly the requested subset of the time stamps (utimens abstracted as set / now / omit per
   field): the step runs iff ATIME or MTIME is valid (part of C05_op_refines_syscall via direct_host), and then *)
Theorem C05_setattr_times : forall h i a m h', get h i <> None -> sys_utimens h i a m = (Ok tt, h') ->
  utimes_of h' i = (tv_apply a (fst (utimes_of h i)), tv_apply m (snd (utimes_of h i))) /\
  (forall j, j <> i -> utimes_of h' j = utimes_of h j) /\ (forall j, get h' j = get h j) /\ h_next h' = h_next h.
Proof. exact utimens_exact. Qed.
Theorem C05_setattr_time_spec : forall valid nb sb sec nsec,
  time_spec valid nb sb sec nsec =
  (if has valid nb then TNow else if has valid sb then TSet sec nsec else TKeep) /\
  (has valid nb = false -> has valid sb = false -> forall old, tv_apply (time_spec valid nb sb sec nsec) old = old) /\
  (has valid nb = false -> has valid sb = true -> forall old, tv_apply (time_spec valid nb sb sec nsec) old = TSet sec nsec) /\
  (has valid nb = true -> forall old, tv_apply (time_spec valid nb sb sec nsec) old = TNow).
Proof. exact time_spec_cases. Qed.

(* flags *)
Theorem C05_flags_writeback_off : forall cf f, c_writeback cf = false -> get_writeback_open_flags cf f = f.
Proof. exact writeback_flags_off. Qed.
Theorem C05_flags_writeback_no_append : forall cf f, c_writeback cf = true ->
  has (get_writeback_open_flags cf f) O_APPEND = false.
Proof. exact writeback_flags_no_append. Qed.
Theorem C05_flags_writeback_access : forall cf f, c_writeback cf = true -> (N.land f O_ACCMODE =? O_WRONLY) = true ->
  get_writeback_open_flags cf f =
  (if has f O_APPEND then clear (N.lor (clear f O_ACCMODE) O_RDWR) O_APPEND else N.lor (clear f O_ACCMODE) O_RDWR).
Proof. exact writeback_flags_access. Qed.
Theorem C05_flags_check_fd : forall cf s hid hd flags hd' s', check_fd_flags cf s hid hd flags = (hd', s') ->
  hd_flags hd' = flags /\ hd_host hd' = hd_host hd /\ hd_acc hd' = hd_acc hd /\
  (hd_flags hd <> flags -> hd_append hd' = has (setfl_flags cf flags) O_APPEND) /\ p_host s' = p_host s.
Proof. exact check_fd_flags_sets. Qed.
(* the per-request flags word of READ/WRITE: recorded and applied (F_SETFL) when it differs from the recorded one; the
   write then goes through pwrite on that descriptor (C05_op_refines_syscall: [fd_append] in [direct_host]), and
   pwrite on an O_APPEND descriptor appends whatever the offset (kernel fact of HostFs.v) *)
Theorem C05_write_flags : forall cf s hid hd flags hd' s', check_fd_flags cf s hid hd flags = (hd', s') ->
  hd_flags hd' = flags /\ hd_append hd' = fd_append cf hd flags /\
  (hd_flags hd <> flags -> hd_append hd' = has (setfl_flags cf flags) O_APPEND) /\ (hd_flags hd = flags -> hd' = hd /\ s' = s).
Proof. exact write_flags_status. Qed.
Theorem C05_pwrite_append : forall c h i off off' w, sys_pwrite c h i true off w = sys_pwrite c h i true off' w.
Proof. exact pwrite_append_ignores_offset. Qed.
(* under writeback no descriptor of the handle map ever carries O_APPEND (open and create clear it; since fix 9c6feeb
   check_fd_flags no longer puts it back): for every request kind and configuration with writeback *)
Theorem C05_writeback_append : C05_writeback_append_full.
Proof. exact writeback_append_full. Qed.
Example C05_writeback_append_nonvacuous : c_writeback wb_cfg = true /\ HP wb_state /\ p_handles wb_state <> [] /\
  (let s1 := snd (pstep wb_cfg wb_state (QWrite 2 1 0 [65] (O_WRONLY + O_APPEND) 0)) in
   let s2 := snd (pstep wb_cfg s1 (QWrite 2 1 0 [66] O_WRONLY 0)) in
   let s3 := snd (pstep wb_cfg s2 (QWrite 2 1 0 [67] (O_WRONLY + O_APPEND) 0)) in
   sys_pread (p_host s3) 11 16 0 = Ok [67; 49; 50; 51]).
Proof. exact wb_nonvacuous. Qed.

(* reopening an inode under the caller's credentials (create() on an existing name) fails only when the direct open as the
   caller fails: REFUTED under inode_file_handles for non-root callers (known finding), proved outside that class *)
Theorem C05_reopen_as_caller_refuted : ~ C05_reopen_as_caller_full.
Proof. exact reopen_as_caller_refuted. Qed.
Theorem C05_reopen_as_caller_partial : forall cf s inode flags d e, ~ KnownReopen cf s ->
  assoc inode (p_inodes s) = Some d -> is_safe_inode (id_mode d) = true ->
  fst (open_inode cf s inode flags) = Err e ->
  fst (sys_reopen (p_creds s) (p_host s) (id_host d) (reopen_call_flags cf flags)) = Err e.
Proof. exact reopen_as_caller_partial. Qed.
Example C05_reopen_known_nonvacuous : KnownReopen ro_cfg ro_state.
Proof. exact ro_known. Qed.

Theorem C05_special_never_opened : forall cf s inode flags d, assoc inode (p_inodes s) = Some d ->
  is_safe_inode (id_mode d) = false -> open_inode cf s inode flags = (Err EBADF, s).
Proof. exact special_never_opened. Qed.

(* non-vacuity: root credentials, a well-formed host, a mkdir for uid 1000 under inode_file_handles that
   succeeds and is owned by 1000, a request kind covered by the reply theorem *)
Example C05_nonvacuous : p_creds (init_state wit_host 10) = root_creds /\ host_wf (p_host (init_state wit_host 10)) /\
  (exists a io s', create_then_lookup (init_state wit_host 10) 1000 1000 ROOT_ID [110]
                     (fun c h d => sys_mkdirat c h d [110] 493) = (RpEntry a, io, s') /\ a_uid a = 1000) /\
  direct_reply wit_cfg (init_state wit_host 10) (QMkdir ROOT_ID [110] 493 0 1000 1000) <> None.
Proof. exact wit_ok. Qed.

(* ---- tie to the source text (Gen/RustPure.v is re-translated from src/passthrough/{mod,util}.rs on every run): the
   model's open-flag rewriting under the writeback cache and its safe-inode test are what the bodies of
   get_writeback_open_flags and is_safe_inode compute (libc constants of this platform) *)
Theorem C05_src_get_writeback_open_flags : forall cf flags, flags < 4294967296 ->
  RustExpr.eval_fn RustExpr.Debug RustPure.get_writeback_open_flags_src
    [RustExpr.VInt RustExpr.I32 flags; RustExpr.VBool (c_writeback cf)] =
  RustExpr.Val (RustExpr.VInt RustExpr.I32 (get_writeback_open_flags cf flags)).
Proof. exact RustPurePassthrough.src_get_writeback_open_flags. Qed.
Theorem C05_src_is_safe_inode : forall mode, mode < 4294967296 ->
  RustExpr.eval_fn RustExpr.Debug RustPure.is_safe_inode_src [RustExpr.VInt RustExpr.U32 mode] =
  RustExpr.Val (RustExpr.VBool (is_safe_inode mode)).
Proof. exact RustPurePassthrough.src_is_safe_inode. Qed.

Print Assumptions C05_op_refines_syscall.
Print Assumptions C05_history.
Print Assumptions C05_reply_partial.
Print Assumptions C05_creds_restored.
Print Assumptions C05_creds_restored_history.
Print Assumptions C05_caller_identity.
Print Assumptions C05_owner.
Print Assumptions C05_owner_calls.
Print Assumptions C05_owner_create_partial.
Print Assumptions C05_setattr_times.
Print Assumptions C05_setattr_time_spec.
Print Assumptions C05_flags_writeback_off.
Print Assumptions C05_flags_writeback_no_append.
Print Assumptions C05_flags_writeback_access.
Print Assumptions C05_flags_check_fd.
Print Assumptions C05_write_flags.
Print Assumptions C05_pwrite_append.
Print Assumptions C05_writeback_append.
Print Assumptions C05_reopen_as_caller_refuted.
Print Assumptions C05_reopen_as_caller_partial.
Print Assumptions C05_special_never_opened.
Print Assumptions C05_src_get_writeback_open_flags.
Print Assumptions C05_src_is_safe_inode.
