(* C17 -- guest memory written by the server is always marked dirty (virtio-fs transport).
   Only statements, closed by [exact]; proofs live in Proofs/Transport.v and Proofs/TransportMachine.v.
   The dirty log is page number -> bool, page = guest address / 4096 (PS); [vrun ops st] runs any sequence of
   Reader / VirtioFsWriter operations (plain and split handles) from state st. *)
From Coq Require Import List NArith Bool Permutation.
From FB Require Import Model.Transport Proofs.Transport Proofs.TransportMachine Proofs.TransportServer Proofs.TransportAsync.
From FB Require Model.Server.
Import ListNotations.
Local Open Scope N_scope.

(* vm-memory's set_addr_range as modelled: marks exactly the pages that contain a byte of the range *)
Theorem C17_mark_range : forall a len d p,
  mark_range a len d p = true <-> d p = true \/ exists x, In x (addrs a len) /\ x / PS = p.
Proof. exact mark_range_spec. Qed.
(* IoBuffers::mark_dirty(count): exactly the pages of the first count bytes of the remaining segments *)
Theorem C17_mark_dirty : forall r l d p,
  mark_dirty r l d p = true <-> d p = true \/ exists x, In x (firstn (N.to_nat r) (flat l)) /\ x / PS = p.
Proof. exact mark_dirty_spec. Qed.

(* one write / write_from through a writer: the k bytes stored go to the next k addresses of the writer and
   exactly their pages are added to the dirty log ([wpost], last clause) *)
Theorem C17_write : forall data m d b, wf_io b -> lenN data <= avail b ->
  exists m' d' b' log, vw_write data m d b = (ROk (lenN data) [], m', d', b') /\
    wpost m d b (lenN data) log m' d' b' /\ map snd log = data.
Proof. intros data m d b H. exact (proj2 (vw_write_spec data m d b H)). Qed.
Theorem C17_write_from : forall count data m d b, wf_io b -> count <= avail b ->
  let k := N.min count (lenN data) in
  exists m' d' b' log, vw_write_from count (Some data) m d b = (ROk k [], m', d', b') /\
    wpost m d b k log m' d' b' /\ map snd log = firstn (N.to_nat k) data.
Proof. intros count data m d b H. exact (proj2 (vw_write_from_spec count (Some data) m d b H)). Qed.

(* any chain, any operation sequence: every byte of guest memory that differs afterwards lies in a marked page *)
Theorem C17_written_marked : forall ops st, wf_st st ->
  forall a, mget (v_mem (snd (vrun ops st))) a <> mget (v_mem st) a ->
            v_dirty (snd (vrun ops st)) (a / PS) = true.
Proof. exact written_marked. Qed.
(* ... and a page is newly marked only if it contains an address of a writable segment ... *)
Theorem C17_only_written : forall ops st, wf_st st ->
  forall p, v_dirty (snd (vrun ops st)) p = true -> v_dirty st p = true \/
    exists a b, a / PS = p /\ In b (v_wr st) /\ In a (flat (segs b)).
Proof. exact only_written. Qed.
(* ... more precisely (pairwise disjoint writable segments) an address that was consumed for writing during the
   run: reply space left unused and request buffers do not cause marks *)
Theorem C17_only_consumed_marked : forall ops st, wf_st st -> NoDup (live (v_wr st)) ->
  forall p, v_dirty (snd (vrun ops st)) p = true -> v_dirty st p = true \/
    exists a, a / PS = p /\ In a (live (v_wr st)) /\ ~ In a (live (v_wr (snd (vrun ops st)))).
Proof. exact only_consumed_marked. Qed.
(* reads, splits and commit never mark (and never modify memory) *)
Theorem C17_nonwrite_ops_do_not_mark : forall op st, is_write_op op = false ->
  v_mem (snd (vstep op st)) = v_mem st /\ v_dirty (snd (vstep op st)) = v_dirty st.
Proof. exact nonwrite_keeps. Qed.
(* the exact account: memory = initial + ordered stores [log]; dirty grew by exactly the pages of the stored
   addresses; these addresses all lie in writable segments *)
Theorem C17_run : forall ops st, wf_st st -> exists log rlog, step_post st (snd (vrun ops st)) log rlog.
Proof. exact vrun_post. Qed.

(* ================= async variants (feature async-io) =================
   VirtioFsWriter::async_write_from_at has its own marking code (mark_dirty(cnt); mark_used(cnt)); written from that
   code it is the same state transformer as write_from_at, and so is every other async operation ([desugar]); the
   statements above therefore hold verbatim for runs [avrun] that mix in async operations *)
Theorem C17_async_write_from_at_same : forall count src m d b,
  vw_async_write_from_at count src m d b = vw_write_from count src m d b.
Proof. exact async_write_from_at_same. Qed.
Theorem C17_async_op_same : forall a st, avstep a st = vstep (desugar a) st.
Proof. exact async_op_same. Qed.
Theorem C17_async_written_marked : forall ops st, wf_st st ->
  forall a, mget (v_mem (snd (avrun ops st))) a <> mget (v_mem st) a ->
            v_dirty (snd (avrun ops st)) (a / PS) = true.
Proof. exact async_written_marked. Qed.
Theorem C17_async_only_consumed_marked : forall ops st, wf_st st -> NoDup (live (v_wr st)) ->
  forall p, v_dirty (snd (avrun ops st)) p = true -> v_dirty st p = true \/
    exists a, a / PS = p /\ In a (live (v_wr st)) /\ ~ In a (live (v_wr (snd (avrun ops st)))).
Proof. exact async_only_consumed_marked. Qed.

(* ================= whole requests (bridge to the server model, Model/Server.v) =================
   [Server.handle] = [decide] (which calls are made, which reply action) then [perform] on an abstract writer
   (bytes written so far + capacity), result [o_mem] = the bytes placed in the writable descriptors, in order.
   [issued_ops cap unique a] is the sequence of VirtioFsWriter operations perform issues for action a (one write
   on the fresh writer; or split_at(16), payload into the second half, header into the first half, commit).
   [placed m d F om st']: om sits on the first |om| addresses of F, nothing else changed, and exactly the pages
   of these addresses were added to the dirty log d.
   For every reply action / every request, over an ARBITRARY writable chain b (pairwise distinct addresses): *)
Theorem C17_whole_request_action : forall m d rd b, wf_io b -> NoDup (flat (segs b)) ->
  forall unique (a : Server.action),
  let o := Server.perform Server.Virtio (avail b) unique a in
  Server.o_panic o = false /\
  placed m d (flat (segs b)) (Server.o_mem o) (snd (vrun (issued_ops (avail b) unique a) (mkv m d rd [b]))).
Proof. exact perform_placed. Qed.
Theorem C17_whole_request : forall m d rd b, wf_io b -> NoDup (flat (segs b)) -> forall cfg req fr,
  let a := snd (fst (Server.decide cfg req fr (avail b))) in
  let o := snd (fst (Server.handle cfg Server.Virtio (avail b) req fr)) in
  Server.o_panic o = false /\
  placed m d (flat (segs b)) (Server.o_mem o)
         (snd (vrun (issued_ops (avail b) (Server.u64 8 req) a) (mkv m d rd [b]))).
Proof. exact handle_placed. Qed.
(* every page holding a reply byte is dirty ... *)
Theorem C17_whole_request_reply_pages_dirty : forall m d F om st', placed m d F om st' ->
  forall x, In x (firstn (List.length om) F) -> v_dirty st' (x / PS) = true.
Proof. exact placed_reply_pages_dirty. Qed.
(* ... and a page that holds no reply byte (only unused reply space, request bytes, anything else) keeps its state *)
Theorem C17_whole_request_other_pages_clean : forall m d F om st', placed m d F om st' ->
  forall p, d p = false -> (forall x, In x (firstn (List.length om) F) -> x / PS <> p) -> v_dirty st' p = false.
Proof. exact placed_other_pages_clean. Qed.

(* non-vacuity: a chain whose writable part straddles a page border; a write of 3 bytes marks pages 1 and 2
   (addresses 8190..8192), the 4th writable byte's page stays as it was, request pages stay clean *)
Definition ex_regions : list (N * N) := [(4096, 8192); (65536, 4096)].
Definition ex_descs : list desc :=
  [mkdesc 4100 5 false; mkdesc 65540 3 false; mkdesc 8190 4 true; mkdesc 65600 6 true].
Definition ex_state : vstate := snd (v_init 7 ex_regions ex_descs).
Example C17_nonvacuous :
  wf_st ex_state /\ NoDup (live (v_wr ex_state)) /\
  let st' := snd (vrun [RRead 0 6; WWrite 0 [1; 2; 3]; WSplit 0 1; WWriteFrom 1 4 (Some [5; 6])] ex_state) in
  map (v_dirty st') [0; 1; 2; 3; 16] = [false; true; true; false; true] /\
  map (mget (v_mem st')) [8190; 8191; 8192; 8193; 65600; 65601; 65602] = [1; 2; 3; pat 7 8193; 5; 6; pat 7 65602].
Proof.
  split; [split; repeat constructor; apply wf_io_b; vm_compute; reflexivity|].
  split; [apply nodupb_sound; vm_compute; reflexivity|]. cbn zeta. split; vm_compute; reflexivity.
Qed.

(* non-vacuity of the bridge: a READ-style split reply (16-byte header + 3 payload bytes) over a 40-byte writable
   chain with an empty descriptor in the middle whose first segment crosses a page border: the header lands on
   8180..8195, the payload on 8196..8198, pages 1 and 2 are marked, the pages of the unused rest are not *)
Definition ex_b : iobuf := mkio [mkseg 8180 20; mkseg 12288 0; mkseg 20000 20] 0.
Example C17_whole_request_nonvacuous :
  wf_io ex_b /\ NoDup (flat (segs ex_b)) /\
  let o := Server.perform Server.Virtio (avail ex_b) 9 (Server.ReplySplit [1; 2; 3]) in
  Server.o_mem o = Server.out_header 19 0 9 ++ [1; 2; 3] /\
  let st' := snd (vrun (issued_ops (avail ex_b) 9 (Server.ReplySplit [1; 2; 3])) (mkv (mem_init 1) dirty_none [] [ex_b])) in
  map (mget (v_mem st')) [8180; 8195; 8196; 8197; 8198; 8199] = [19; 0; 1; 2; 3; pat 1 8199] /\
  map (v_dirty st') [0; 1; 2; 3; 4] = [false; true; true; false; false].
Proof.
  split; [apply wf_io_b; vm_compute; reflexivity|]. split; [apply nodupb_sound; vm_compute; reflexivity|].
  cbn zeta. split; [vm_compute; reflexivity|]. split; vm_compute; reflexivity.
Qed.

Print Assumptions C17_mark_range.
Print Assumptions C17_mark_dirty.
Print Assumptions C17_write.
Print Assumptions C17_write_from.
Print Assumptions C17_written_marked.
Print Assumptions C17_only_written.
Print Assumptions C17_only_consumed_marked.
Print Assumptions C17_nonwrite_ops_do_not_mark.
Print Assumptions C17_run.
Print Assumptions C17_async_write_from_at_same.
Print Assumptions C17_async_op_same.
Print Assumptions C17_async_written_marked.
Print Assumptions C17_async_only_consumed_marked.
Print Assumptions C17_whole_request_action.
Print Assumptions C17_whole_request.
Print Assumptions C17_whole_request_reply_pages_dirty.
Print Assumptions C17_whole_request_other_pages_clean.

(* ================= chains as the driver's tables describe them =================
   (Model/TransportEnv.v part 2: INDIRECT tables, loops cut by the queue size, any queue size, any number of guest
   memory regions, chains cut before 2^32 bytes).  If Reader::from_descriptor_chain and VirtioFsWriter::new accept
   what virtio-queue's iterator yields, then for any initial dirty log and any run (async operations included):
   every modified byte lies in a marked page, and a newly marked page holds an address of a writable descriptor. *)
From FB Require Import Model.TransportEnv Proofs.TransportEnv.
Theorem C17_vq_written_marked : forall seed regions t table qsize head r st0 dirty0 ops,
  v_init_vq seed regions t table qsize head = (r, st0) ->
  let st := mkv (v_mem st0) dirty0 (v_rd st0) (v_wr st0) in
  forall a, mget (v_mem (snd (avrun ops st))) a <> mget (v_mem st) a -> v_dirty (snd (avrun ops st)) (a / PS) = true.
Proof. exact vq_written_marked. Qed.
Theorem C17_vq_only_written : forall seed regions t table qsize head r st0 dirty0 ops,
  v_init_vq seed regions t table qsize head = (r, st0) ->
  let st := mkv (v_mem st0) dirty0 (v_rd st0) (v_wr st0) in
  forall p, v_dirty (snd (avrun ops st)) p = true -> dirty0 p = true \/
    exists a b, a / PS = p /\ In b (v_wr st0) /\ In a (flat (segs b)).
Proof. exact vq_only_written. Qed.
(* non-vacuity: the writable descriptor sits in an INDIRECT table and straddles a page border; writing 3 bytes marks
   pages 256 and 257 and nothing else *)
Example C17_vq_nonvacuous :
  let regs := [(1048576, 16384)] in
  let t := [(0, mkrd 1048576 8 true false false 1); (16, mkrd 512 16 false false true 0); (512, mkrd 1052670 6 false true false 0)] in
  exists st0, v_init_vq 3 regs t 0 16 0 = (ROk 0 [], st0) /\
    let st' := snd (avrun [ASync (WWrite 0 [1; 2; 3])] st0) in
    map (v_dirty st') [255; 256; 257; 258] = [false; true; true; false] /\ mget (v_mem st') 1052672 = 3.
Proof. cbn zeta. eexists. split; [vm_compute; reflexivity|]. split; vm_compute; reflexivity. Qed.
Print Assumptions C17_vq_written_marked.
Print Assumptions C17_vq_only_written.

(* ================= operations that fail after they have placed bytes (round 6, seed C17f) =================
   VirtioFsWriter::write_all_from over a source that answers call by call (Model/TransportEnv.v part 4: data -- of
   which a prefix is placed --, an error, ErrorKind::Interrupted; end of file behind the script).  The loop is the run of
   the write_from calls it makes, so everything above holds for it whatever it returns: bytes placed by earlier
   rounds stay placed AND marked when a later round fails or the source runs dry. *)
From FB Require Import Proofs.TransportScript.
Theorem C17_scripted_as_run : forall xs st, wf_st st -> exists ops, snd (srun xs st) = snd (vrun ops st).
Proof. exact srun_as_run. Qed.
Theorem C17_failed_op_marks_what_it_wrote : forall count script m d b, wf_io b ->
  let '(r, m', d', b') := vw_write_all_from_s count script m d b in
  (forall a, mget m' a <> mget m a -> d' (a / PS) = true) /\
  (forall p, d' p = true -> d p = true \/ exists a, a / PS = p /\ In a (flat (segs b))) /\ wf_io b'.
Proof. exact failed_op_marks_what_it_wrote. Qed.
Theorem C17_scripted_written_marked : forall xs st, wf_st st ->
  forall a, mget (v_mem (snd (srun xs st))) a <> mget (v_mem st) a -> v_dirty (snd (srun xs st)) (a / PS) = true.
Proof. exact scripted_written_marked. Qed.
Theorem C17_scripted_only_consumed_marked : forall xs st, wf_st st -> NoDup (live (v_wr st)) ->
  forall p, v_dirty (snd (srun xs st)) p = true -> v_dirty st p = true \/
    exists a, a / PS = p /\ In a (live (v_wr st)) /\ ~ In a (live (v_wr (snd (srun xs st)))).
Proof. exact scripted_only_consumed_marked. Qed.
(* non-vacuity: three writable descriptors (the first ends on a page border, the second lies two pages further);
   write_all_from(12) gets 4 bytes, is interrupted, gets 3 bytes, then the source fails: the operation returns the
   file error, 7 bytes are in guest memory (first descriptor full, second partly, third untouched) and exactly their
   pages 256 and 258 are marked; with a source that runs dry instead: WriteZero, the same marks *)
Example C17_failed_op_nonvacuous :
  let b := mkio [mkseg 1052668 4; mkseg 1056800 5; mkseg 1064960 3] 0 in
  wf_io b /\
  (let '(r, m', d', b') := vw_write_all_from_s 12 [SGive [1; 2; 3; 4]; SIntr; SGive [5; 6; 7]; SFail; SGive [8; 9]] (mem_init 0) dirty_none b in
   r = RErr EFile /\ map (mget m') [1052671; 1056800; 1056802; 1056803] = [4; 5; 7; mget (mem_init 0) 1056803] /\
   map d' [256; 257; 258; 259; 260] = [true; false; true; false; false] /\ consumed b' = 7) /\
  (let '(r, m', d', b') := vw_write_all_from_s 12 [SGive [1; 2; 3; 4; 5; 6; 7]] (mem_init 0) dirty_none b in
   r = RErr EEof /\ map d' [256; 257; 258; 259; 260] = [true; false; true; false; false] /\ consumed b' = 7).
Proof. cbn zeta. split; [apply wf_io_b; vm_compute; reflexivity|]. split; vm_compute; repeat split; reflexivity. Qed.
Print Assumptions C17_scripted_as_run.
Print Assumptions C17_failed_op_marks_what_it_wrote.
Print Assumptions C17_scripted_written_marked.
Print Assumptions C17_scripted_only_consumed_marked.
