(* C12 -- INIT negotiation enables exactly the features both sides asked for.  (statements only) *)
From Coq Require Import List String NArith Bool.
From FB Require Import Lib.Bytes Lib.Layout Gen.RustABI Spec.KernelABI Model.Server Model.ServerCmp
  Spec.Requests Spec.Replies Spec.Init Model.InitToggles
  Proofs.ServerInit Proofs.ServerInitNeg Proofs.ServerInitMsg Proofs.InitToggles.
Import ListNotations.
Local Open Scope N_scope.

(* ================================================================== the server's INIT handler *)

(* the reply form follows the client's minor version: 8 / 24 / 64 bytes *)
Theorem C12_reply_layout_by_minor : forall major minor ra fl mb ct mw tg mp ma f2,
  let out := init_out major minor ra fl mb ct mw tg mp ma f2 in
  List.length out = 64%nat /\ List.length (firstn 8 out) = 8%nat /\ List.length (firstn 24 out) = 24%nat.
Proof. exact init_out_lengths. Qed.

(* the capability mask the server applies is FsOptions::all() of the source, and it contains the INIT_EXT marker *)
Theorem C12_known_bits_contain_marker : N.land fsoptions_all INIT_EXT_BIT = INIT_EXT_BIT.
Proof. exact fsoptions_all_has_ext. Qed.

(* the request bytes the theorems below quantify over are the kernel-table encoding of the
   specification-level request [init_q] *)
Theorem C12_request_encoding : forall major minor ra flags f2,
  struct_bytes (init_q major minor ra flags f2) ++ tail_bytes (init_q major minor ra flags f2)
  = init_req major minor ra flags f2.
Proof. exact init_req_is_encoding. Qed.

(* a successful INIT: one `init` call, a ReplyOk whose body has the form the minor asks for and major 7 *)
Theorem C12_init_runs : forall cfg h minor ra flags f2 want,
  init_fits 7 minor ra flags f2 = true ->
  let offered := N.land (client_capable (init_q 7 minor ra flags f2)) (cfg_fsopt_mask cfg) in
  let body := init_reply_body minor ra (init_enabled offered want) in
  do_init cfg h (init_req 7 minor ra flags f2) (FInit want)
    = (([mk "init" (0, 0, 0) [AN offered]], ReplyOk body), Some minor) /\
  blen body = init_body_len minor /\
  kget "fuse_init_out" "major" O body = 7.
Proof. exact init_runs. Qed.

(* THE INTERSECTION: what the client acts on after reading the reply (Spec/Init.v client_enabled:
   flags2 only together with the marker, only in the 64-byte form) is exactly
   offered /\ known /\ wanted, without the marker itself; for 5 <= minor < 23 its low 32 bits. *)
Theorem C12_intersection : forall cfg minor ra flags f2 want,
  init_fits 7 minor ra flags f2 = true ->
  known_has_marker (cfg_fsopt_mask cfg) = true ->
  5 <= minor ->
  let q := init_q 7 minor ra flags f2 in
  let offered := N.land (client_capable q) (cfg_fsopt_mask cfg) in
  let expect := clear (N.land offered want) INIT_EXT in
  client_enabled (init_reply_body minor ra (init_enabled offered want))
  = if minor <? 23 then m32 expect else expect.
Proof. exact init_success_enabled. Qed.

(* the invariant behind it: bits 32.. of what the client offered are non-zero only with the marker *)
Theorem C12_offered_coherent : forall major minor ra flags f2,
  flags < 2 ^ 32 ->
  N.testbit (client_capable (init_q major minor ra flags f2)) 30 = false ->
  client_capable (init_q major minor ra flags f2) < 2 ^ 32.
Proof. exact client_capable_coherent. Qed.

(* the single `init` call carries what the client offered, restricted to known bits *)
Theorem C12_capable_offered : forall cfg h minor ra flags f2 fr cs a m,
  init_fits 7 minor ra flags f2 = true ->
  do_init cfg h (init_req 7 minor ra flags f2) fr = ((cs, a), m) ->
  cs = [mk "init" (0, 0, 0) [AN (N.land (client_capable (init_q 7 minor ra flags f2)) (cfg_fsopt_mask cfg))]].
Proof. exact init_capable_offered. Qed.

(* readahead is echoed *)
Theorem C12_readahead_echoed : forall cfg minor ra flags f2 want,
  init_fits 7 minor ra flags f2 = true -> 5 <= minor ->
  let offered := N.land (client_capable (init_q 7 minor ra flags f2)) (cfg_fsopt_mask cfg) in
  kget "fuse_init_out" "max_readahead" O (init_reply_body minor ra (init_enabled offered want)) = ra.
Proof. exact init_success_readahead. Qed.

(* write-size limit: max_write plus the header room fits the request buffer (page size 4096) *)
Theorem C12_max_write : forall cfg minor ra flags f2 want,
  5 <= minor ->
  let offered := N.land (client_capable (init_q 7 minor ra flags f2)) (cfg_fsopt_mask cfg) in
  let body := init_reply_body minor ra (init_enabled offered want) in
  kget "fuse_init_out" "max_write" O body = init_max_write (init_enabled offered want) /\
  1 <= kget "fuse_init_out" "max_write" O body /\
  kget "fuse_init_out" "max_write" O body + 4096 <= MAX_BUFFER_SIZE + BUFFER_HEADER_SIZE.
Proof. exact init_success_max_write. Qed.

(* ... and it is false for 64 KiB pages: MAX_REQ_PAGES * pagesize = 16 MiB exceeds MAX_BUFFER_SIZE *)
Theorem C12_max_write_fails_for_64k_pages :
  max_write_for 4096 BIG_WRITES_BIT = init_max_write BIG_WRITES_BIT /\
  max_write_for 65536 BIG_WRITES_BIT + BUFFER_HEADER_SIZE > MAX_BUFFER_SIZE + BUFFER_HEADER_SIZE.
Proof. exact max_write_page_sizes. Qed.

(* major mismatch *)
Theorem C12_major_mismatch : forall cfg h major minor ra flags f2 fr,
  init_fits major minor ra flags f2 = true ->
  (major < 7 -> do_init cfg h (init_req major minor ra flags f2) fr = (([], ReplyErr EPROTO None), None)) /\
  (7 < major -> do_init cfg h (init_req major minor ra flags f2) fr = (([], ReplyOk init_version_only), None)).
Proof. exact init_major_mismatch. Qed.

Theorem C12_version_only_reply :
  List.length init_version_only = 64%nat /\
  kget "fuse_init_out" "major" O init_version_only = 7 /\
  kget "fuse_init_out" "minor" O init_version_only = 33 /\
  client_enabled init_version_only = 0 /\
  kget "fuse_init_out" "max_write" O init_version_only = 0.
Proof. exact init_version_only_fields. Qed.

(* the version is stored only by a successful INIT with major 7, and it is the client's minor *)
Theorem C12_version_stored : forall cfg h r fr d m,
  do_init cfg h r fr = (d, Some m) ->
  exists want body c, fr = FInit want /\ d = ([c], ReplyOk body) /\ c_method c = "init"%string /\
                      Nat.leb 16 (List.length r) = true /\ u32 0 r = 7 /\ m = u32 4 r.
Proof. exact init_version_stored. Qed.

(* all of the above at once, on the whole message (header + body) the model sends: it satisfies the
   specification predicate [init_reply_ok] of Spec/Init.v, the predicate the check evaluates on real replies *)
Theorem C12_model_reply_meets_spec : forall cfg u minor ra flags f2 want,
  u < 2 ^ 64 ->
  init_fits 7 minor ra flags f2 = true ->
  known_has_marker (cfg_fsopt_mask cfg) = true ->
  let q := init_qu u 7 minor ra flags f2 in
  let offered := N.land (client_capable q) (cfg_fsopt_mask cfg) in
  let body := init_reply_body minor ra (init_enabled offered want) in
  init_reply_ok q (cfg_fsopt_mask cfg) (FInit want) (MAX_BUFFER_SIZE + BUFFER_HEADER_SIZE) (ok_message u body) = true.
Proof. exact init_message_ok. Qed.

(* ================================================================== Vfs / passthrough / overlay switches *)

Theorem C12_flag_constants :
  fsopt "WRITEBACK_CACHE" = F_WRITEBACK_CACHE /\ fsopt "ZERO_MESSAGE_OPEN" = F_ZERO_MESSAGE_OPEN /\
  fsopt "ZERO_MESSAGE_OPENDIR" = F_ZERO_MESSAGE_OPENDIR /\ fsopt "HANDLE_KILLPRIV_V2" = F_HANDLE_KILLPRIV_V2 /\
  fsopt "PERFILE_DAX" = F_PERFILE_DAX /\ fsopt "ATOMIC_O_TRUNC" = F_ATOMIC_O_TRUNC.
Proof. exact flag_constants_short. Qed.

Theorem C12_vfs_no_open_negotiated : forall s opts bs r s',
  v_initialized s = false -> vfs_init s opts bs = (r, s') ->
  vfs_open_enosys s' = true -> has opts F_ZERO_MESSAGE_OPEN = true.
Proof. exact vfs_no_open_negotiated. Qed.

Theorem C12_vfs_no_opendir_negotiated : forall s opts bs r s',
  v_initialized s = false -> vfs_init s opts bs = (r, s') ->
  vfs_opendir_enosys s' = true -> has opts F_ZERO_MESSAGE_OPENDIR = true.
Proof. exact vfs_no_opendir_negotiated. Qed.

Theorem C12_vfs_reply_subset : forall s opts bs out s',
  vfs_init s opts bs = (IOk out, s') -> N.land out opts = out /\ vfs_backend_word s opts = out.
Proof. exact vfs_reply_subset. Qed.

Theorem C12_vfs_switch_iff_enabled : forall s opts bs out s',
  vfs_cfg_coherent s -> vfs_init s opts bs = (IOk out, s') ->
  vfs_open_enosys s' = has out F_ZERO_MESSAGE_OPEN /\
  vfs_opendir_enosys s' = has out F_ZERO_MESSAGE_OPENDIR /\
  vfs_cfg_coherent s'.
Proof. exact vfs_switch_iff_enabled. Qed.

Theorem C12_vfs_default_coherent : forall a b c d, vfs_cfg_coherent (vfs_new a b c d vfs_default_out).
Proof. exact vfs_default_coherent. Qed.

Theorem C12_vfs_feature_bits : forall s opts,
  (has (v_out_opts (vfs_negotiate s opts)) F_WRITEBACK_CACHE = true ->
     v_no_writeback s = false /\ has opts F_WRITEBACK_CACHE = true) /\
  (has (v_out_opts (vfs_negotiate s opts)) F_HANDLE_KILLPRIV_V2 = true ->
     v_killpriv_v2 s = true /\ has opts F_HANDLE_KILLPRIV_V2 = true) /\
  (has (v_out_opts (vfs_negotiate s opts)) F_PERFILE_DAX = true -> has opts F_PERFILE_DAX = true) /\
  (v_no_open (vfs_negotiate s opts) = true -> has (v_out_opts (vfs_negotiate s opts)) F_ATOMIC_O_TRUNC = false).
Proof. exact vfs_out_feature_bits. Qed.

Theorem C12_reinit : forall s opts bs out s',
  vfs_init s opts bs = (IOk out, s') ->
  forall opts' bs', vfs_init s' opts' bs' = (IErr EINVAL, s').
Proof. exact vfs_second_init_refused. Qed.

Theorem C12_pt_toggles_first_init : forall c capable, toggles_within (snd (pt_init c toggles_off capable)) capable.
Proof. exact pt_init_fresh. Qed.

Theorem C12_ovl_toggles_first_init : forall c capable, toggles_within (snd (ovl_init c toggles_off capable)) capable.
Proof. exact ovl_init_fresh. Qed.

Theorem C12_pt_under_vfs_exact : forall c capable,
  c_do_import c = false ->
  let t := snd (pt_init c toggles_off capable) in
  t_writeback t = contains capable F_WRITEBACK_CACHE /\
  t_no_open t = contains capable F_ZERO_MESSAGE_OPEN /\
  t_no_opendir t = contains capable F_ZERO_MESSAGE_OPENDIR /\
  t_killpriv_v2 t = contains capable F_HANDLE_KILLPRIV_V2 /\
  t_perfile_dax t = contains capable F_PERFILE_DAX.
Proof. exact pt_under_vfs_exact. Qed.

Theorem C12_pt_standalone_needs_switch : forall c capable,
  c_do_import c = true ->
  let t := snd (pt_init c toggles_off capable) in
  (t_writeback t = true -> c_writeback c = true) /\ (t_no_open t = true -> c_no_open c = true) /\
  (t_no_opendir t = true -> c_no_opendir c = true) /\ (t_killpriv_v2 t = true -> c_killpriv_v2 c = true).
Proof. exact pt_standalone_needs_switch. Qed.

Theorem C12_pt_behaviour_negotiated : forall c capable,
  behaviour_within (pt_behaviour c (snd (pt_init c toggles_off capable))) capable.
Proof. exact pt_behaviour_negotiated. Qed.

Theorem C12_pt_opts_offered : forall c t capable,
  let o := fst (pt_init c t capable) in
  (has o F_WRITEBACK_CACHE = true -> contains capable F_WRITEBACK_CACHE = true) /\
  (has o F_ZERO_MESSAGE_OPEN = true -> contains capable F_ZERO_MESSAGE_OPEN = true) /\
  (has o F_ZERO_MESSAGE_OPENDIR = true -> contains capable F_ZERO_MESSAGE_OPENDIR = true) /\
  (has o F_HANDLE_KILLPRIV_V2 = true -> contains capable F_HANDLE_KILLPRIV_V2 = true) /\
  (has o F_PERFILE_DAX = true -> contains capable F_PERFILE_DAX = true).
Proof. exact pt_opts_offered. Qed.

Theorem C12_ovl_opts_offered : forall c t capable,
  let o := fst (ovl_init c t capable) in
  (has o F_WRITEBACK_CACHE = true -> contains capable F_WRITEBACK_CACHE = true) /\
  (has o F_ZERO_MESSAGE_OPEN = true -> contains capable F_ZERO_MESSAGE_OPEN = true) /\
  (has o F_ZERO_MESSAGE_OPENDIR = true -> contains capable F_ZERO_MESSAGE_OPENDIR = true) /\
  (has o F_HANDLE_KILLPRIV_V2 = true -> contains capable F_HANDLE_KILLPRIV_V2 = true) /\
  (has o F_PERFILE_DAX = true -> contains capable F_PERFILE_DAX = true /\ c_perfile_dax c = true).
Proof. exact ovl_opts_offered. Qed.

(* ---- full statements that the model refuted before the fix: commits 3c323ec / 018111a; now theorems ---- *)

(* across any INIT / DESTROY / INIT history the layer switches follow the LAST negotiation *)
Definition C12_toggles_history_statement : Prop := toggles_history_full.
Theorem C12_toggles_history_full : C12_toggles_history_statement.
Proof. exact toggles_history_holds. Qed.

(* ... indeed they are those of a fresh instance given the last word *)
Theorem C12_toggles_history_last : forall c caps capable,
  snd (pt_init c (pt_run c toggles_off caps) capable) = snd (pt_init c toggles_off capable) /\
  snd (ovl_init c (ovl_run c toggles_off caps) capable) = snd (ovl_init c toggles_off capable).
Proof. exact toggles_history_last. Qed.

(* every passthrough / overlay behaviour is switched on only when negotiated by the last INIT,
   whatever the switches were before *)
Theorem C12_pt_behaviour_full : forall c t capable,
  behaviour_within (pt_behaviour c (snd (pt_init c t capable))) capable.
Proof. exact pt_behaviour_negotiated_any. Qed.

Definition C12_ovl_behaviour_statement : Prop := ovl_behaviour_full.
Theorem C12_ovl_behaviour_full : C12_ovl_behaviour_statement.
Proof. exact ovl_behaviour_holds. Qed.

(* ---- twin entry points: RELEASE / RELEASEDIR / CREATE / SETATTR consult the same switches ---- *)
Theorem C12_pt_twins_agree : forall c t,
  let b := pt_behaviour c t in let w := pt_twins t in
  (w_release w = if b_open_enosys b then UEnosys else UOk) /\
  (w_releasedir w = if b_opendir_enosys b then UEnosys else UOk) /\
  w_create_handle w = negb (b_open_enosys b) /\
  w_create_wb w = tri (negb (b_open_enosys b)) (b_writeback_flags b) /\
  w_create_killpriv w = Some (b_killpriv b) /\ w_setattr_killpriv w = Some (b_killpriv b).
Proof. exact pt_twins_agree. Qed.

Theorem C12_ovl_twins_agree : forall c t,
  let b := ovl_behaviour c t in let w := ovl_twins t in
  (w_release w = if b_open_enosys b then UEnosys else UOk) /\
  (w_releasedir w = if b_opendir_enosys b then UEnosys else UOk) /\
  w_create_handle w = negb (b_open_enosys b) /\
  w_create_wb w = tri (negb (b_open_enosys b)) (b_writeback_flags b) /\
  w_create_killpriv w = None /\ w_setattr_killpriv w = Some (b_killpriv b).
Proof. exact ovl_twins_agree. Qed.

Theorem C12_pt_twins_negotiated : forall c t capable, twins_within (pt_twins (snd (pt_init c t capable))) capable.
Proof. exact pt_twins_negotiated. Qed.

Theorem C12_ovl_twins_negotiated : forall c t capable, twins_within (ovl_twins (snd (ovl_init c t capable))) capable.
Proof. exact ovl_twins_negotiated. Qed.

(* through a Vfs (backend initialised by Vfs::init or, when mounted later, by Vfs::mount with the same word) *)
Theorem C12_vfs_twins_negotiated : forall s s' t c opts,
  twins_within (vfs_twins s' (snd (pt_init c t (vfs_backend_word s opts)))) opts.
Proof. exact vfs_twins_negotiated. Qed.

(* handle-path entry points (FLUSH; GETATTR / FSYNC / READDIR with a handle; WRITE with WRITE_KILL_PRIV): ENOSYS,
   the handle-less data path and the capability drop only with the feature bit in the word of the last INIT *)
Theorem C12_pt_hpaths_agree : forall c t,
  let b := pt_behaviour c t in let w := pt_hpaths t in
  (h_flush w = if b_open_enosys b then UEnosys else UOk) /\
  h_getattr w = Some (b_open_enosys b) /\ h_fsync w = Some (b_open_enosys b) /\
  h_readdir w = Some (b_opendir_enosys b) /\ h_write_kp w = Some (b_killpriv b) /\
  h_write_append w = Some (b_writeback_flags b).
Proof. exact pt_hpaths_agree. Qed.

Theorem C12_ovl_hpaths_agree : forall c t,
  let b := ovl_behaviour c t in let w := ovl_hpaths t in
  (h_flush w = if b_open_enosys b then UEnosys else UOk) /\
  h_getattr w = None /\ h_fsync w = Some (b_open_enosys b) /\ h_readdir w = None /\
  h_write_kp w = (if b_open_enosys b then None else Some (b_killpriv b)) /\
  h_write_append w = (if b_open_enosys b then None else Some false).
Proof. exact ovl_hpaths_agree. Qed.

Theorem C12_pt_hpaths_negotiated : forall c t capable, hpaths_within (pt_hpaths (snd (pt_init c t capable))) capable.
Proof. exact pt_hpaths_negotiated. Qed.

Theorem C12_ovl_hpaths_negotiated : forall c t capable, hpaths_within (ovl_hpaths (snd (ovl_init c t capable))) capable.
Proof. exact ovl_hpaths_negotiated. Qed.

Theorem C12_vfs_hpaths_negotiated : forall s s' t c opts,
  hpaths_within (vfs_hpaths s' (snd (pt_init c t (vfs_backend_word s opts)))) opts.
Proof. exact vfs_hpaths_negotiated. Qed.

(* non-vacuity: with every feature negotiated the handle paths are all in their "on" state *)
Example C12_ex_hpaths_on :
  pt_hpaths (snd (pt_init under_vfs toggles_off 18446744073709551615)) =
  mkH UEnosys (Some true) (Some true) (Some true) (Some true) (Some true).
Proof. vm_compute. reflexivity. Qed.

(* per-file DAX under a dax_file_size threshold *)
Theorem C12_pt_dax_threshold : forall d c t capable,
  behaviour_within (pt_behaviour_d d c (snd (pt_init c t capable))) capable.
Proof. exact pt_behaviour_d_negotiated. Qed.

(* feature async-io: Vfs::async_open is the same test on the same state as Vfs::open *)
Theorem C12_vfs_async_open_twin : forall s, vfs_async_open_enosys s = vfs_open_enosys s.
Proof. exact vfs_async_open_twin. Qed.

Theorem C12_vfs_async_no_open_negotiated : forall s opts bs r s',
  v_initialized s = false -> vfs_init s opts bs = (r, s') ->
  vfs_async_open_enosys s' = true -> has opts F_ZERO_MESSAGE_OPEN = true.
Proof. exact vfs_async_no_open_negotiated. Qed.

(* ================================================================== non-vacuity witnesses *)
Definition ex_cfg : config := {| cfg_minor := 33; cfg_remap := RemapOk 0 0; cfg_vu_req := false; cfg_fsopt_mask := fsoptions_all |}.
Definition ex_hdr : hdr := {| h_len := 104; h_opcode := 26; h_unique := 1; h_nodeid := 0; h_uid := 0; h_gid := 0; h_pid := 0 |}.

(* a 7.38 client with the extended form, offering PERFILE_DAX (bit 33) and ZERO_MESSAGE_OPEN; the
   filesystem wants both: the client ends up with exactly those two bits *)
Example C12_ex_hyps : init_fits 7 38 131072 (N.lor INIT_EXT_BIT 131072) (Some 2) = true /\
                      known_has_marker (cfg_fsopt_mask ex_cfg) = true.
Proof. vm_compute. split; reflexivity. Qed.

Example C12_ex_extended :
  let q := init_q 7 38 131072 (N.lor INIT_EXT_BIT 131072) (Some 2) in
  let offered := N.land (client_capable q) fsoptions_all in
  client_enabled (init_reply_body 38 131072 (init_enabled offered (N.lor F_PERFILE_DAX F_ZERO_MESSAGE_OPEN)))
  = N.lor F_PERFILE_DAX F_ZERO_MESSAGE_OPEN.
Proof. vm_compute. reflexivity. Qed.

Example C12_ex_major : init_fits 6 0 0 0 None = true /\ init_fits 8 0 0 0 None = true.
Proof. vm_compute. split; reflexivity. Qed.

Example C12_ex_version_stored :
  exists d, do_init ex_cfg ex_hdr (init_req 7 38 131072 (N.lor INIT_EXT_BIT 131072) (Some 2)) (FInit 0) = (d, Some 38).
Proof. eexists. vm_compute. reflexivity. Qed.

(* Vfs with its default options, client offering everything: init succeeds, no-open is on *)
Example C12_ex_vfs :
  exists out s', vfs_init (vfs_new true true false false vfs_default_out) all_caps [None] = (IOk out, s') /\
                 vfs_open_enosys s' = true /\ v_initialized (vfs_new true true false false vfs_default_out) = false.
Proof. eexists _, _. vm_compute. repeat split; reflexivity. Qed.

Example C12_ex_pt_under_vfs :
  c_do_import under_vfs = false /\ t_no_open (snd (pt_init under_vfs toggles_off F_ZERO_MESSAGE_OPEN)) = true.
Proof. vm_compute. split; reflexivity. Qed.

Example C12_ex_pt_standalone :
  c_do_import (mkC true true false false false false) = true /\
  t_writeback (snd (pt_init (mkC true true false false false false) toggles_off F_WRITEBACK_CACHE)) = true.
Proof. vm_compute. split; reflexivity. Qed.

(* the former refutation witnesses: INIT(all) switches no-open on, DESTROY + INIT(0) switches everything off *)
Example C12_ex_reinit_pt :
  t_no_open (pt_run under_vfs toggles_off [all_caps]) = true /\
  snd (pt_init under_vfs (pt_run under_vfs toggles_off [all_caps]) 0) = toggles_off.
Proof. exact reinit_witness_pt. Qed.

Example C12_ex_reinit_ovl :
  t_no_open (ovl_run under_vfs toggles_off [all_caps]) = true /\
  snd (ovl_init under_vfs (ovl_run under_vfs toggles_off [all_caps]) 0) = toggles_off.
Proof. exact reinit_witness_ovl. Qed.

(* overlay with writeback configured: flags are rewritten only when WRITEBACK_CACHE was negotiated *)
Example C12_ex_ovl_writeback :
  let c := mkC true true false false false false in
  b_writeback_flags (ovl_behaviour c (snd (ovl_init c toggles_off 0))) = false /\
  b_writeback_flags (ovl_behaviour c (snd (ovl_init c toggles_off F_WRITEBACK_CACHE))) = true.
Proof. exact ovl_writeback_witness. Qed.

Print Assumptions C12_reply_layout_by_minor.
Print Assumptions C12_known_bits_contain_marker.
Print Assumptions C12_request_encoding.
Print Assumptions C12_init_runs.
Print Assumptions C12_intersection.
Print Assumptions C12_offered_coherent.
Print Assumptions C12_capable_offered.
Print Assumptions C12_readahead_echoed.
Print Assumptions C12_max_write.
Print Assumptions C12_max_write_fails_for_64k_pages.
Print Assumptions C12_major_mismatch.
Print Assumptions C12_version_only_reply.
Print Assumptions C12_version_stored.
Print Assumptions C12_model_reply_meets_spec.
Print Assumptions C12_flag_constants.
Print Assumptions C12_vfs_no_open_negotiated.
Print Assumptions C12_vfs_no_opendir_negotiated.
Print Assumptions C12_vfs_reply_subset.
Print Assumptions C12_vfs_switch_iff_enabled.
Print Assumptions C12_vfs_default_coherent.
Print Assumptions C12_vfs_feature_bits.
Print Assumptions C12_reinit.
Print Assumptions C12_pt_toggles_first_init.
Print Assumptions C12_ovl_toggles_first_init.
Print Assumptions C12_pt_under_vfs_exact.
Print Assumptions C12_pt_standalone_needs_switch.
Print Assumptions C12_pt_behaviour_negotiated.
Print Assumptions C12_pt_opts_offered.
Print Assumptions C12_ovl_opts_offered.
Print Assumptions C12_toggles_history_full.
Print Assumptions C12_toggles_history_last.
Print Assumptions C12_pt_behaviour_full.
Print Assumptions C12_ovl_behaviour_full.
Print Assumptions C12_pt_twins_agree.
Print Assumptions C12_ovl_twins_agree.
Print Assumptions C12_pt_twins_negotiated.
Print Assumptions C12_ovl_twins_negotiated.
Print Assumptions C12_vfs_twins_negotiated.
Print Assumptions C12_pt_dax_threshold.
Print Assumptions C12_vfs_async_open_twin.
Print Assumptions C12_vfs_async_no_open_negotiated.
Print Assumptions C12_pt_hpaths_agree.
Print Assumptions C12_ovl_hpaths_agree.
Print Assumptions C12_pt_hpaths_negotiated.
Print Assumptions C12_ovl_hpaths_negotiated.
Print Assumptions C12_vfs_hpaths_negotiated.
