(* C12 -- INIT negotiation enables exactly the features both sides asked for.  (statements only) *)
From Coq Require Import List String NArith Bool.
From FB Require Import Lib.Bytes Gen.RustABI Model.Server Proofs.ServerInit.
Import ListNotations.
Local Open Scope N_scope.

(* the reply form follows the client's minor version: 8 / 24 / 64 bytes *)
Theorem C12_reply_layout_by_minor : forall major minor ra fl mb ct mw tg mp ma f2,
  let out := init_out major minor ra fl mb ct mw tg mp ma f2 in
  List.length out = 64%nat /\ List.length (firstn 8 out) = 8%nat /\ List.length (firstn 24 out) = 24%nat.
Proof. exact init_out_lengths. Qed.

(* the capability mask the server applies is FsOptions::all() of the source, and it contains the INIT_EXT marker *)
Theorem C12_known_bits_contain_marker : N.land fsoptions_all INIT_EXT_BIT = INIT_EXT_BIT.
Proof. exact fsoptions_all_has_ext. Qed.

Print Assumptions C12_reply_layout_by_minor.
Print Assumptions C12_known_bits_contain_marker.
