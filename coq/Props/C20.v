(* C20 -- the asynchronous request path behaves exactly like the synchronous one.
   Statements only; proofs in Proofs/ServerAsync*.v.
   [handle cfg k cap req fr]           model of Server::handle_message        (Model/Server.v)
   [async_handle cfg k cap buf0 req fr] model of Server::async_handle_message  (Model/ServerAsync.v)
   on request bytes [req], reply capacity [cap], transport [k], the filesystem answering [fr] (an
   arbitrary oracle value, the same for the sync and the async trait method), [buf0] = content of the
   caller's reply buffer before the call.  [observable] = filesystem calls with their arguments, result,
   packets written to /dev/fuse or used bytes of the virtio reply area, protocol minor stored by INIT.
   [async_expressible fr]: the answer carries no passthrough backing id (AsyncFileSystem::async_open and
   async_create have no slot for one: Proofs.ServerAsyncEquiv.passthrough_inexpressible). *)
From Coq Require Import List String NArith Bool.
From FB Require Import Lib.Bytes Model.Server Model.ServerCmp Model.ServerAsync
                       Proofs.ServerAsyncPerform Proofs.ServerAsyncHandlers Proofs.ServerAsyncEquiv
                       Proofs.ServerAsyncDispatch.
Import ListNotations.
Local Open Scope N_scope.

(* the full statement: for ALL configurations, transports, capacities, buffers, request byte strings and
   filesystem answers *)
Definition C20_full : Prop :=
  forall cfg k cap buf0 req fr, async_expressible fr = true ->
    observable k (async_handle cfg k cap buf0 req fr) = observable k (handle cfg k cap req fr).

(* it does NOT hold of the code as it is: async_write answers ENOMEM by itself when WriteIn.size >
   MAX_BUFFER_SIZE, the sync write handler calls the filesystem (DESIGN.md section 4, D11; left to the
   maintainers, a known finding).  props/c20.py replays the witness on the real handlers.  The other three
   defects this check found (async gate answering an oversized FORGET, async gate refusing capacity < 16,
   async_commit re-sending stale memory) were repaired in /repo (fix: 2dcabb6, 45bf06c); the model followed
   through its translated [shape] and their former witnesses now agree (repaired_witnesses_agree). *)
Theorem C20_refuted : ~ C20_full.
Proof. exact full_refuted. Qed.

Theorem C20_refuted_write_size :
  observable Virtio (async_handle cfg0 Virtio 4096 [] w_write_req (FCount 0))
  <> observable Virtio (handle cfg0 Virtio 4096 w_write_req (FCount 0)).
Proof. exact witness_write_size. Qed.

Theorem C20_repaired_witnesses_agree :
  async_handle cfg0 Virtio 4096 [] w_forget_req FUnit = handle cfg0 Virtio 4096 w_forget_req FUnit /\
  async_handle cfg0 Virtio 0 [] w_forget_nocap_req FUnit = handle cfg0 Virtio 0 w_forget_nocap_req FUnit /\
  async_handle cfg0 FuseDev 4096 (repeat 165 16) w_getattr_req (FErr (Os 2)) = handle cfg0 FuseDev 4096 w_getattr_req (FErr (Os 2)).
Proof. exact repaired_witnesses_agree. Qed.

(* outside the class of that defect ([known_class]: header parses, id remap succeeds, not oversized, opcode 16,
   size field > MAX_BUFFER_SIZE) the two handlers agree -- on everything, not only observably *)
Theorem C20_partial : forall cfg k cap buf0 req fr,
  async_expressible fr = true -> known_class cfg k cap req fr = false ->
  observable k (async_handle cfg k cap buf0 req fr) = observable k (handle cfg k cap req fr).
Proof. exact async_handle_observable_eq. Qed.

(* the excluded class is exactly the defect: it depends on the request (and the id remap) only -- not on the capacity,
   transport or answer -- and on every member the async handler makes one call (the id remap) where the sync one makes two *)
Theorem C20_known_class_only_request : forall cfg k cap req fr k' cap' fr',
  known_class cfg k cap req fr = known_class cfg k' cap' req fr'.
Proof. exact known_class_only_request. Qed.

Theorem C20_known_class_differs : forall cfg k cap buf0 req fr,
  known_class cfg k cap req fr = true ->
  List.length (fst (fst (async_handle cfg k cap buf0 req fr))) = 1%nat /\
  List.length (fst (fst (handle cfg k cap req fr))) = 2%nat.
Proof. exact known_class_differs. Qed.

Theorem C20_partial_strong : forall cfg k cap buf0 req fr,
  async_expressible fr = true -> known_class cfg k cap req fr = false ->
  async_handle cfg k cap buf0 req fr = handle cfg k cap req fr.
Proof. exact async_handle_eq. Qed.

(* The model is written over a [shape]: six yes/no facts the translator reads off the source on every run
   (gate tests the capacity? gate exempts FORGET? async_write has its size gate? async_commit returns early
   on an unbuffered writer? async_lookup / async_create answer EINVAL for a name without NUL?).  The last two
   have no known-class disjunct: the equivalence needs them true ([names_answered]); for the code that is
   discharged by computation on the translated value, so a source change there breaks C20_partial itself.  [async_handle] = [async_handle_gen code_shape].  For the shape the three
   patches of /verif/fixes/C20-*.patch produce (two are applied; the third is the write gate), the defect class is
   empty and the full statement holds: *)
Theorem C20_full_after_fixes : forall cfg k cap buf0 req fr,
  async_expressible fr = true ->
  observable k (async_handle_gen fixed_shape cfg k cap buf0 req fr) = observable k (handle cfg k cap req fr).
Proof. intros. rewrite async_handle_fixed_eq by assumption. reflexivity. Qed.

(* and for every shape: equality outside that shape's class *)
Theorem C20_partial_any_shape : forall sh cfg k cap buf0 req fr,
  names_answered sh = true -> async_expressible fr = true -> known_class_gen sh cfg k cap req fr = false ->
  async_handle_gen sh cfg k cap buf0 req fr = handle cfg k cap req fr.
Proof. exact async_handle_gen_eq. Qed.

(* the pieces, usable on their own *)
(* dispatch: every async handler makes the same filesystem calls with the same arguments as its sync twin and
   takes the corresponding reply action; every other opcode runs the sync handler itself *)
Theorem C20_dispatch_equiv : forall sh cfg h ctx r fr wcap,
  names_answered sh = true -> async_expressible fr = true -> (h_opcode h = 16 -> (sh_write_gate sh && big_write r) = false) ->
  dec_to_sync (async_handler sh cfg h ctx r fr wcap) = handler cfg h ctx r fr wcap.
Proof. exact async_handler_rel. Qed.

(* reply helpers: async_reply_ok / async_do_reply_error / the split read reply produce the same writes as
   reply_ok / do_reply_error / the sync read reply, except an error reply on the unsplit fusedev writer *)
Theorem C20_reply_helpers_equiv : forall sh k cap buf0 u a,
  k = Virtio \/ is_unsplit_err a = false \/ cap < 16 \/ sh_commit_skips sh = true ->
  async_perform sh k cap buf0 u a = perform k cap u (to_sync a).
Proof. exact aperform_eq. Qed.

(* and exactly what that exception emits *)
Theorem C20_stale_rewrite_shape : forall sh cap buf0 u e, sh_commit_skips sh = false -> 16 <= cap ->
  o_packets (aperform_err sh buf0 (fresh FuseDev cap) u e None) = [out_header OUT_HDR (neg32 e) u; firstn 16 buf0].
Proof. exact aperform_err_fusedev_stale. Qed.

Theorem C20_async_no_panic : forall cfg k cap buf0 req fr,
  o_panic (snd (fst (async_handle cfg k cap buf0 req fr))) = false.
Proof. exact async_handle_no_panic. Qed.

(* the model's table, gate and commit are the translated ones *)
Theorem C20_table_is_the_code :
  list2_eqb (sort2 ((26, false) :: map fst (async_handlers code_shape)))
            (sort2 (map (fun e => (fst (fst e), snd e)) Gen.RustAsyncDispatch.rust_async_dispatch)) = true.
Proof. exact async_table_matches. Qed.

(* non-vacuity: the hypotheses of C20_partial are satisfiable on ordinary requests (a GETATTR error on fusedev,
   a FORGET without reply capacity, an oversized FORGET, a WRITE of exactly MAX_BUFFER_SIZE), and the witness of the
   refutation is inside the excluded class *)
Example C20_nonvacuous :
  async_expressible (FErr (Os 2)) = true /\
  known_class cfg0 FuseDev 4096 w_getattr_req (FErr (Os 2)) = false /\
  known_class cfg0 Virtio 0 w_forget_nocap_req FUnit = false /\
  exists p, v_mem (observable Virtio (async_handle cfg0 Virtio 4096 [] w_getattr_req (FErr (Os 2)))) = p /\ List.length p = 16%nat.
Proof.
  split; [reflexivity|]. split; [vm_compute; reflexivity|]. split; [vm_compute; reflexivity|].
  eexists. split; vm_compute; reflexivity.
Qed.

Example C20_witnesses_in_class :
  known_class cfg0 Virtio 4096 w_write_req (FCount 0) = true /\
  known_class cfg0 FuseDev 4096 w_write_req (FErr (Os 5)) = true.
Proof. exact witnesses_in_class. Qed.

Print Assumptions C20_refuted.
Print Assumptions C20_refuted_write_size.
Print Assumptions C20_repaired_witnesses_agree.
Print Assumptions C20_partial.
Print Assumptions C20_known_class_only_request.
Print Assumptions C20_known_class_differs.
Print Assumptions C20_partial_strong.
Print Assumptions C20_full_after_fixes.
Print Assumptions C20_partial_any_shape.
Print Assumptions C20_dispatch_equiv.
Print Assumptions C20_reply_helpers_equiv.
Print Assumptions C20_stale_rewrite_shape.
Print Assumptions C20_async_no_panic.
Print Assumptions C20_table_is_the_code.
