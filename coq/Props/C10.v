(* C10 -- the overlay shows the overlayfs union of its layers and never modifies lowers.
   Only statements, closed by [exact]; proofs live in Proofs/Overlay*.v. *)
From Coq Require Import List String NArith Bool.
From FB Require Import Model.Overlay Proofs.OverlayInv Proofs.OverlayRoot Proofs.OverlayScan Proofs.OverlayRestart Proofs.OverlayReadOnly Proofs.OverlayCoh Proofs.OverlayCohView Proofs.OverlayCohOps Proofs.OverlayCohSteps Proofs.OverlayRefineTeq Proofs.OverlayRefineMerge Proofs.OverlayRefineRun Proofs.OverlayRefine Proofs.OverlayRefineWh Proofs.OverlayRefineCu Proofs.OverlayRefineCuFile Proofs.OverlayRefineLink Proofs.OverlayRefineRmdir Proofs.OverlayRefineDirAttr Proofs.OverlayRefineCuRm Proofs.OverlayRefineAll Proofs.OverlayRefineFail Proofs.OverlayRefineRead Proofs.OverlayRefineFail2 Proofs.OverlayRefineRerun Proofs.OverlayRefineDirAttr2 Proofs.OverlayRefineRmdirLow Proofs.OverlayRefineCuWh Proofs.OverlayRefineSymlink Proofs.OverlayRefineLinkCu Proofs.OverlayRefineLinkFile.
Import ListNotations.
Local Open Scope string_scope.
Local Open Scope N_scope.
Local Open Scope list_scope.

(* The scan of a fresh overlay yields exactly the overlayfs union, for all layer contents
   (layer roots are directories whose directories have distinct names): top-most entry wins,
   directories merge, whiteouts hide, opaque directories cut off what is below. *)
Theorem C10_scan_is_merge : forall u ls nx, Forall layer_ok (all_layers u ls) ->
  view (load_all (fresh u ls nx)) = merge (all_layers u ls).
Proof. exact scan_is_merge. Qed.

(* Per-operation refinement (Definition C10_op_refines_full in Proofs/OverlayRestart.v: every step
   changes the view and answers as an ordinary in-memory file system would) is NOT proved; the
   faithful model refutes it as stated, because copy-up drops extended attributes (known finding).
   It is checked on every run by evaluating [fs_apply] on the implementation's observations. *)
Theorem C10_op_refines_refuted : ~ C10_op_refines_full.
Proof. exact op_refines_refuted. Qed.

(* Proved part of the per-operation refinement.  Operations covered (readonly_op o = true):
     lookup, getattr, readdir, read, readlink, open(O_RDONLY), getxattr, listxattr.
   For every state (no invariant needed) such an operation leaves upper and lower layers as they
   are, and the client's view afterwards is the view an ordinary file system shows after the same
   operation (namely the unchanged tree).  NOT covered: the modifying operations (mkdir, create,
   mknod, symlink, link, unlink, rmdir, open for writing, write, chmod, truncate, setxattr,
   removexattr) and the equality of result codes / payloads (checked by differential runs only). *)
Theorem C10_op_refines_partial : forall s o, readonly_op o = true ->
  op_refines_view s o /\ upper (run_op o s) = upper s /\ lowers (run_op o s) = lowers s.
Proof. exact op_refines_partial. Qed.
(* histories restricted to those operations, with tree walks in between or not: layers unchanged and
   the root of the cache stays view-equivalent to the initial one *)
Theorem C10_readonly_history : forall ops, readonly_history ops = true -> forall s,
  let s' := run_dumps ops s in
  upper s' = upper s /\ lowers s' = lowers s /\ next_ino s' = next_ino s /\ vs s (root s') (root s).
Proof. exact readonly_run. Qed.

(* The coherence invariant between cache and disk (Proofs/OverlayCoh.v): every node reachable in the
   cache sits at its own path in its layers with the whiteout/dir flags the disk has, starts with the
   top-most candidate layer of that path, cuts the same directory stack as the candidates do, and -
   once loaded - has a child exactly for the names some directory of that stack holds; every backing
   inode after the first one is a directory.
   (a) it holds for a freshly imported overlay over any layer contents; *)
Theorem C10_coherent_fresh : forall u ls nx, Forall layer_ok (u :: ls) -> Coherent (fresh (Some u) ls nx).
Proof. exact fresh_coherent. Qed.
(* (b) it is preserved by every operation of the proved list [coh_op]:
       lookup, getattr, readdir, read, readlink, getxattr, listxattr,
       MKDIR, CREATE, MKNOD, SYMLINK, LINK, UNLINK, RMDIR, RENAME (always refused by this implementation),
       OPEN (every flag: read-only, write, read-write, truncating, appending), WRITE, CHMOD, TRUNCATE,
       SETXATTR / REMOVEXATTR of every name except the overlay's own opaque markers
   (these include: copy-up of the whole chain of parent directories, copy-up of a regular file or a
   symlink with its lower backing inodes dropped, removal of an upper whiteout, the opaque marker of
   the repaired do_mkdir, the whiteout decision of the repaired do_rm with lower_has_child,
   rmdir of a merged directory whose upper part holds only whiteouts, which are deleted first, and
   link with copy-up of both the source and the new parent), by
   the tree walk of a dump, and hence by every history over those operations, successful or failing.
   That is every operation of the model except SETXATTR / REMOVEXATTR of an opaque marker name, for
   which the invariant (and C11) really fails: Props/C11.v, C11_refuted. *)
Theorem C10_coherent_step : forall o s, coh_op o = true -> Coherent s -> Coherent (run_op o s).
Proof. exact coherent_step. Qed.
Theorem C10_coherent_history : forall ops, coh_history ops = true -> forall s, Coherent s -> Coherent (run_dumps ops s).
Proof. exact coherent_history. Qed.
(* (c, first half) in every coherent state - hence after every history over [coh_op] from a fresh overlay
   over any layers - what the client sees IS the overlayfs union (Model [merge]: top-most entry wins,
   directories merge until an opaque one, whiteouts hide) of the current upper directory and the
   lower layers, up to the order of directory entries ([teq]).  What remains of the per-operation
   refinement is therefore a statement about trees only: that the change an operation makes to the
   upper directory changes this union as the operation changes an ordinary file system
   (C10_op_refines_full; not proved, refuted for the copy-up-drops-xattrs class, checked by runs). *)
Theorem C10_view_is_union : forall s, Coherent s ->
  oteq (merge (all_layers (upper s) (lowers s))) (view (load_all s)).
Proof. exact coherent_view_union. Qed.
Theorem C10_view_is_union_history : forall u ls nx ops, Forall layer_ok (u :: ls) -> coh_history ops = true ->
  let s := run_dumps ops (load_all (fresh (Some u) ls nx)) in
  oteq (merge (all_layers (upper s) (lowers s))) (view (load_all s)).
Proof. exact view_union_history. Qed.
Theorem C10_view_is_union_ser : forall u ls nx ops, Forall layer_ok (u :: ls) -> coh_history ops = true ->
  let s := run_dumps ops (load_all (fresh (Some u) ls nx)) in
  ser_opt (view (load_all s)) = ser_opt (merge (all_layers (upper s) (lowers s))).
Proof. exact view_union_history_ser. Qed.
(* (c), the NO-COPY-UP fragment of the per-operation refinement (Proofs/OverlayRefine*.v).
   [direct s o] (a boolean function of the DISK state only, Proofs/OverlayRefine.v) says that the operation works on
   the upper layer alone:
     - MKDIR / CREATE / MKNOD / SYMLINK: the parent is a directory of the upper layer and no layer (through the
       directories that take part in the union at the parent) holds a candidate for the new name;
     - UNLINK (RMDIR): the target is a regular file or symlink (a directory without entries) of the upper layer and
       no lower layer holds a candidate for its name;
     - OPEN with any flag word / WRITE / TRUNCATE / CHMOD / SETXATTR / REMOVEXATTR of a name that is not one of the
       three opaque markers: the target is a regular file of the upper layer and no lower layer contains a file
       with the same hard-link identity (the view puts the identities of all layers into one name space);
     - the path is shorter than DEPTH, the depth to which [view] looks.
   For EVERY coherent state (hence every state reached from a fresh overlay by a history over [coh_op]) and every such
   operation: (i) the answer (error code, or payload of a success) is the one the ordinary in-memory file system
   [fs_apply] gives on the client's view, with the overlay's inode counter as the ordinary file system's;
   (ii) the client's view afterwards is the tree [fs_apply] produces from the view before, as trees of finite maps
   ([teq]: entry order inside a directory is not compared; file identities ARE compared); (iii) the lower layers are
   unchanged.  Failing instances are included (REMOVEXATTR of an absent attribute: ENODATA on both sides, nothing changes).
   Not covered: operations that need a copy-up, a whiteout, the removal of a whiteout or an opaque directory, LINK,
   chmod / setxattr of a directory, and failing operations in general. *)
Theorem C10_op_refines_direct : forall s o v, Coherent s -> direct s o = true -> view (load_all s) = Some v ->
  let spec := fs_apply o (mkFs v (next_ino s)) in
  res_same (fst (step o s)) (fst spec) /\
  oteq (view (load_all (run_op o s))) (Some (f_tree (snd spec))) /\
  lowers (run_op o s) = lowers s.
Proof. exact op_refines_direct. Qed.
(* the same in the form of C10_op_refines_full (equal serialisations; [ser] omits file identities), after any history
   over [coh_op] from a fresh overlay over any well-formed layers *)
Theorem C10_op_refines_direct_history : forall u ls nx ops o, Forall layer_ok (u :: ls) -> coh_history ops = true ->
  direct (run_dumps ops (load_all (fresh (Some u) ls nx))) o = true -> op_refines (Some u) ls nx ops o.
Proof. exact op_refines_direct_history. Qed.
(* (c), the WHITEOUT cases (Proofs/OverlayRefineWh.v): still no copy-up - the parent is a directory of the upper layer -
   but the name has candidates.  [direct_wh s o] (boolean, disk state only; [mstack L p] = the candidates for p, top first):
     - MKDIR / CREATE / MKNOD / SYMLINK where the first candidate is a whiteout, of the upper layer (it is deleted first)
       or of a lower one: the new entry hides what is below; a new directory is made opaque and the union shows it empty;
     - UNLINK where the first candidate is a regular file or symlink of any layer - an upper entry that hides lower
       candidates, or an entry only lower layers hold: a whiteout is written and the union loses the name;
     - RMDIR where the first candidate is a directory and no directory merged into it has any entry (e.g. an empty upper
       directory over an empty lower one, or a lower-only empty directory).
   Same statement as C10_op_refines_direct.  The proof shows in particular that the whiteout IS written whenever lower
   candidates exist (lower_has_child answers true, and a parent cached as opaque is opaque on disk).
   Not covered: RMDIR of a merged directory that is empty in the view only because its upper part holds whiteouts. *)
Theorem C10_op_refines_whiteout : forall s o v, Coherent s -> direct_wh s o = true -> view (load_all s) = Some v ->
  let spec := fs_apply o (mkFs v (next_ino s)) in
  res_same (fst (step o s)) (fst spec) /\
  oteq (view (load_all (run_op o s))) (Some (f_tree (snd spec))) /\
  lowers (run_op o s) = lowers s.
Proof. exact op_refines_whiteout. Qed.
Theorem C10_op_refines_whiteout_history : forall u ls nx ops o, Forall layer_ok (u :: ls) -> coh_history ops = true ->
  direct_wh (run_dumps ops (load_all (fresh (Some u) ls nx))) o = true -> op_refines (Some u) ls nx ops o.
Proof. exact op_refines_whiteout_history. Qed.
Example C10_op_refines_whiteout_nonvacuous :
  let u := Dir 493 [] [("d", Dir 493 [] [("f", File 5 420 [104] []); ("w", Wh); ("e", Dir 448 [] [])]); ("x", Wh)] in
  let l := Dir 493 [] [("d", Dir 448 [] [("f", File 2 420 [111] []); ("w", File 3 420 [] []); ("o", File 4 420 [] []); ("e", Dir 448 [] [])]);
                       ("x", Dir 493 [] [("y", File 6 420 [] [])]); ("z", Dir 493 [] [])] in
  let s := load_all (fresh (Some u) [l] 1000) in
  Coherent s /\
  forallb (direct_wh s) [OUnlink ["d"; "f"]; OUnlink ["d"; "o"]; ORmdir ["d"; "e"]; OMkdir ["x"] 493; OCreate ["d"; "w"] 420;
     OSymlink ["d"; "w"] [1]; OMkdir ["d"; "w"] 448; OMknod ["x"] 420] = true /\
  forallb (fun o => negb (direct_wh s o)) [ORmdir ["x"]; ORmdir ["d"]; OUnlink ["z"; "q"]; OUnlink ["d"; "w"]; OMkdir ["d"; "n"] 493;
     OUnlink ["d"; "e"]; OChmod ["d"; "f"] 384] = true /\
  ser_opt (view s) = "d1ed(d=d1ed(e=d1c0(),f=f1a4:68,o=f1a4:,),z=d1ed(),)" /\
  ser_opt (view (load_all (run_op (OMkdir ["x"] 493) s))) = "d1ed(d=d1ed(e=d1c0(),f=f1a4:68,o=f1a4:,),x=d1ed(),z=d1ed(),)" /\
  ser_opt (view (load_all (run_op (OUnlink ["d"; "f"]) s))) = "d1ed(d=d1ed(e=d1c0(),o=f1a4:,),z=d1ed(),)" /\
  upper (run_op (OUnlink ["d"; "f"]) s) = Some (Dir 493 [] [("d", Dir 493 [] [("w", Wh); ("e", Dir 448 [] []); ("f", Wh)]); ("x", Wh)]).
Proof.
  cbv zeta. split; [|vm_compute; repeat split; reflexivity].
  apply load_all_coherent. apply fresh_coherent.
  repeat (first [apply Forall_cons | apply Forall_nil | split | apply wf_dir | apply wf_file | apply wf_lnk | apply wf_wh
                | apply NoDup_cons | apply NoDup_nil | (cbn; intuition discriminate) | reflexivity ]).
Qed.
(* (c), COPY-UP NEUTRALITY for directories (Proofs/OverlayRefineCu.v).  create_upper_dir / copy_node_up of a visible
   directory (the whole chain of missing ancestors gets an upper copy) succeeds and leaves the client's view unchanged,
   PROVIDED ([cu_disk_ok u ls p]) every directory on the way that the upper layer lacks has, in its first candidate layer,
   no user xattrs and a mode within 01777.  The first hypothesis is exactly the known finding copy-up-drops-xattrs
   (C10_op_refines_refuted): the theorem marks the boundary of the defect; the second is what mkdirat keeps of a mode
   (set-uid / set-gid bits of a lower directory are lost by copy-up in this model). *)
Theorem C10_copy_up_dir_neutral : forall s (p : path) u n md x ch,
  Coherent s -> upper s = Some u -> nget p (root s) = Some n -> node_stat s n = Some (Dir md x ch) ->
  (List.length p < DEPTH)%nat -> cu_disk_ok u (lowers s) p ->
  let s1 := snd (copy_node_up p s) in
  fst (copy_node_up p s) = Ok tt /\ Coherent s1 /\ lowers s1 = lowers s /\ oteq (view (load_all s1)) (view (load_all s)) /\
  (forall n1, nget p (root s1) = Some n1 -> in_upper n1 = true).
Proof. exact copy_up_dir_neutral. Qed.
(* ... and by composition with the no-copy-up fragment: MKDIR / CREATE / MKNOD / SYMLINK of a name without candidates
   below a visible directory that may exist in lower layers only ([direct_cu]: boolean, disk state only; [visb]: every
   component of the parent path is found through a directory and is not a whiteout; [cu_okb]: the hypothesis above).
   Same statement as C10_op_refines_direct, on [teq] (only directories are copied, no file identity changes). *)
Theorem C10_op_refines_copyup : forall s o v, Coherent s -> direct_cu s o = true -> view (load_all s) = Some v ->
  let spec := fs_apply o (mkFs v (next_ino s)) in
  res_same (fst (step o s)) (fst spec) /\
  oteq (view (load_all (run_op o s))) (Some (f_tree (snd spec))) /\
  lowers (run_op o s) = lowers s.
Proof. exact op_refines_copyup. Qed.
Theorem C10_op_refines_copyup_history : forall u ls nx ops o, Forall layer_ok (u :: ls) -> coh_history ops = true ->
  direct_cu (run_dumps ops (load_all (fresh (Some u) ls nx))) o = true -> op_refines (Some u) ls nx ops o.
Proof. exact op_refines_copyup_history. Qed.
(* non-vacuity, and the xattr hypothesis is needed: below y/ (user xattr) the refinement really fails.  Below s/ (mode 04755)
   it failed until 61854eb (copy-up of a directory dropped set-uid / set-gid bits); with the repaired create_upper_dir of the
   model it holds there too, although [direct_cu] (hypothesis "mode within 01777") still excludes that case: the hypothesis is
   now stronger than needed. *)
Example C10_op_refines_copyup_nonvacuous :
  let u := Dir 493 [] [("d", Dir 493 [] [])] in
  let l := Dir 493 [] [("d", Dir 448 [] [("e", Dir 448 [] [("g", Dir 493 [("user.overlay.opaque", [121])] [])])]); ("z", Dir 493 [] []);
                       ("y", Dir 493 [("user.k", [1])] [("q", Dir 493 [] [])]); ("s", Dir 2541 [] [])] in
  let s := load_all (fresh (Some u) [l] 1000) in
  let fails o := match view s with
                 | Some v => negb (String.eqb (ser_opt (view (load_all (run_op o s)))) (ser SER (f_tree (snd (fs_apply o (mkFs v 1000))))))
                 | None => false end in
  Coherent s /\
  forallb (direct_cu s) [OMkdir ["z"; "n"] 493; OCreate ["d"; "e"; "c"] 420; OSymlink ["d"; "e"; "g"; "k"] [1]; OMknod ["d"; "e"; "g"; "c"] 420;
                         OMkdir ["d"; "n"] 493] = true /\
  forallb (fun o => negb (direct_cu s o)) [OMkdir ["y"; "n"] 493; OMkdir ["y"; "q"; "n"] 493; OCreate ["s"; "c"] 420; OMkdir ["z"] 493;
                                          OMkdir ["w"; "n"] 493] = true /\
  forallb fails [OMkdir ["y"; "n"] 493; OMkdir ["y"; "q"; "n"] 493] = true /\ fails (OCreate ["s"; "c"] 420) = false /\
  upper (run_op (OCreate ["d"; "e"; "c"] 420) s) = Some (Dir 493 [] [("d", Dir 493 [] [("e", Dir 448 [] [("c", File 1000 420 [] [])])])]).
Proof.
  cbv zeta. split; [|vm_compute; repeat split; reflexivity].
  apply load_all_coherent. apply fresh_coherent.
  repeat (first [apply Forall_cons | apply Forall_nil | split | apply wf_dir | apply wf_file | apply wf_lnk | apply wf_wh
                | apply NoDup_cons | apply NoDup_nil | (cbn; intuition discriminate) | reflexivity ]).
Qed.
(* (c), COPY-UP OF A REGULAR FILE (Proofs/OverlayRefineCuFile.v): open for writing (any flag word that is not read-only by the
   code's mask) / WRITE / TRUNCATE / CHMOD / SETXATTR / REMOVEXATTR (name not an opaque marker) of a visible path whose first
   candidate is a regular file of a LOWER layer.  The model copies the parent chain and the file up, then changes the copy.
   [direct_cu_file s o] (boolean, disk state): the upper layer has no entry at the path; the lower file has NO USER XATTRS
   (the known finding - with one the statement is false) and a mode within 07777; the directories to be copied satisfy
   [cu_okb]; no lower layer uses the identity the copy will get (the overlay's inode counter).
   [ids_ok s o v] (boolean, on the client's view): the view does not show that fresh identity, and shows the file's own identity
   at its path only - copy-up gives the upper copy a fresh identity and separates it from other names of the same lower
   inode, so for a lower file with two links the statement is false (Example below).
   Conclusion: same answer as the ordinary file system, lowers unchanged, and the views agree UP TO FILE IDENTITIES: equal
   serialisations ([ser] omits identities), not [teq]. *)
Theorem C10_op_refines_copyup_file : forall s o v, Coherent s -> direct_cu_file s o = true -> view (load_all s) = Some v ->
  ids_ok s o v = true ->
  let spec := fs_apply o (mkFs v (next_ino s)) in
  res_same (fst (step o s)) (fst spec) /\ ser_opt (view (load_all (run_op o s))) = ser SER (f_tree (snd spec)) /\
  lowers (run_op o s) = lowers s.
Proof. exact op_refines_copyup_file. Qed.
Example C10_op_refines_copyup_file_nonvacuous :
  let u := Dir 493 [] [("d", Dir 493 [] [])] in
  let l := Dir 493 [] [("d", Dir 448 [] [("f", File 7 420 [104; 105] []); ("e", Dir 448 [] [("g", File 8 416 [1] [])])]);
                       ("h1", File 9 420 [2] []); ("h2", File 9 420 [2] []); ("x", File 10 420 [3] [("user.a", [1])])] in
  let s := load_all (fresh (Some u) [l] 1000) in
  let ok o := match view s with Some v => direct_cu_file s o && ids_ok s o v | None => false end in
  let fails o := match view s with
                 | Some v => negb (String.eqb (ser_opt (view (load_all (run_op o s)))) (ser SER (f_tree (snd (fs_apply o (mkFs v 1000))))))
                 | None => false end in
  Coherent s /\
  forallb ok [OWrite ["d"; "f"] 1 [33]; OChmod ["d"; "e"; "g"] 384; OTruncate ["d"; "f"] 1; OSetxattr ["d"; "f"] "user.k" [1];
              ORemovexattr ["d"; "f"] "user.k"; OOpen ["d"; "e"; "g"] OF_WT; OOpen ["d"; "f"] OF_W] = true /\
  forallb (fun o => negb (ok o)) [OChmod ["h1"] 384; OChmod ["x"] 384; OOpen ["d"; "f"] OF_R; OChmod ["d"] 384] = true /\
  forallb fails [OChmod ["h1"] 384; OChmod ["x"] 384] = true /\
  upper (run_op (OChmod ["d"; "e"; "g"] 384) s) = Some (Dir 493 [] [("d", Dir 493 [] [("e", Dir 448 [] [("g", File 1000 384 [1] [])])])]).
Proof.
  cbv zeta. split; [|vm_compute; repeat split; reflexivity].
  apply load_all_coherent. apply fresh_coherent.
  repeat (first [apply Forall_cons | apply Forall_nil | split | apply wf_dir | apply wf_file | apply wf_lnk | apply wf_wh
                | apply NoDup_cons | apply NoDup_nil | (cbn; intuition discriminate) | reflexivity ]).
Qed.
(* (c) for LINK without copy-up (Proofs/OverlayRefineLink.v): the source is a regular file or symlink of the upper layer, the new
   parent a directory of the upper layer, the new name has no candidate in any layer ([direct_link]); the new name shows the same
   file, identity included.  Same statement as C10_op_refines_direct. *)
Theorem C10_op_refines_link : forall s o v, Coherent s -> direct_link s o = true -> view (load_all s) = Some v ->
  let spec := fs_apply o (mkFs v (next_ino s)) in
  res_same (fst (step o s)) (fst spec) /\
  oteq (view (load_all (run_op o s))) (Some (f_tree (snd spec))) /\
  lowers (run_op o s) = lowers s.
Proof. exact op_refines_link. Qed.
(* (c) for RMDIR of a merged directory that is empty in the view only (Proofs/OverlayRefineRmdir.v): the target is a directory
   of the upper layer (below a directory of the upper layer) and every name that a directory merged into it holds has a whiteout as
   first candidate ([view_emptyb]) - the situation after the entries of a merged directory were unlinked one by one.
   empty_node_directory deletes the upper whiteouts, the directory is removed and, when lower candidates exist, replaced by a
   whiteout; the intermediate states of this operation are NOT coherent, the final one is.  Same statement as C10_op_refines_direct. *)
Theorem C10_op_refines_rmdir_merged : forall s o v, Coherent s -> direct_rmdir_merged s o = true -> view (load_all s) = Some v ->
  let spec := fs_apply o (mkFs v (next_ino s)) in
  res_same (fst (step o s)) (fst spec) /\
  oteq (view (load_all (run_op o s))) (Some (f_tree (snd spec))) /\
  lowers (run_op o s) = lowers s.
Proof. exact op_refines_rmdir_merged. Qed.
Example C10_op_refines_rmdir_merged_nonvacuous :
  let u := Dir 493 [] [("d", Dir 493 [] [("a", Wh); ("b", Wh)]); ("e", Dir 493 [] []); ("g", Dir 493 [] [("a", Wh); ("n", File 1 420 [] [])])] in
  let l := Dir 493 [] [("d", Dir 448 [] [("a", File 2 420 [111] []); ("b", Dir 493 [] [("k", File 3 420 [] [])])]); ("e", Dir 493 [] []);
                       ("g", Dir 493 [] [("a", File 4 420 [] [])])] in
  let s := load_all (fresh (Some u) [l] 1000) in
  Coherent s /\
  forallb (direct_rmdir_merged s) [ORmdir ["d"]; ORmdir ["e"]] = true /\
  forallb (fun o => negb (direct_rmdir_merged s o)) [ORmdir ["g"]; ORmdir ["d"; "b"]; ORmdir ["q"]] = true /\
  ser_opt (view s) = "d1ed(d=d1ed(),e=d1ed(),g=d1ed(n=f1a4:,),)" /\
  upper (run_op (ORmdir ["d"]) s) = Some (Dir 493 [] [("e", Dir 493 [] []); ("g", Dir 493 [] [("a", Wh); ("n", File 1 420 [] [])]); ("d", Wh)]).
Proof.
  cbv zeta. split; [|vm_compute; repeat split; reflexivity].
  apply load_all_coherent. apply fresh_coherent.
  repeat (first [apply Forall_cons | apply Forall_nil | split | apply wf_dir | apply wf_file | apply wf_lnk | apply wf_wh
                | apply NoDup_cons | apply NoDup_nil | (cbn; intuition discriminate) | reflexivity ]).
Qed.
(* (c) for DIRECTORIES of the upper layer other than the root (Proofs/OverlayRefineDirAttr.v): CHMOD, SETXATTR / REMOVEXATTR of a
   name that is not an opaque marker change the directory (its merged entries stay as they are, in the overlay and in the ordinary
   file system), REMOVEXATTR of an absent name answers ENODATA, OPEN for writing / WRITE / TRUNCATE answer EISDIR; [direct_dattr]. *)
Theorem C10_op_refines_dattr : forall s o v, Coherent s -> direct_dattr s o = true -> view (load_all s) = Some v ->
  let spec := fs_apply o (mkFs v (next_ino s)) in
  res_same (fst (step o s)) (fst spec) /\
  oteq (view (load_all (run_op o s))) (Some (f_tree (snd spec))) /\
  lowers (run_op o s) = lowers s.
Proof. exact op_refines_dattr. Qed.
Example C10_op_refines_dattr_nonvacuous :
  let u := Dir 493 [] [("d", Dir 493 [("user.a", [1]); ("user.overlay.opaque", [110])] [("f", File 5 420 [104] []); ("e", Dir 448 [] [])])] in
  let l := Dir 493 [] [("d", Dir 448 [("user.z", [2])] [("o", File 2 420 [111] []); ("e", Dir 448 [] [("y", File 3 420 [] [])])]); ("z", Dir 493 [] [])] in
  let s := load_all (fresh (Some u) [l] 1000) in
  Coherent s /\
  forallb (direct_dattr s) [OChmod ["d"] 448; OSetxattr ["d"; "e"] "user.k" [1]; ORemovexattr ["d"] "user.a"; ORemovexattr ["d"] "user.q";
                            OWrite ["d"] 0 [1]; OTruncate ["d"; "e"] 0; OOpen ["d"] OF_W; OChmod ["d"; "e"] 511] = true /\
  forallb (fun o => negb (direct_dattr s o)) [OChmod ["z"] 448; OChmod [] 448; OChmod ["d"; "f"] 448; OSetxattr ["d"] "user.overlay.opaque" [121];
                                             OOpen ["d"] OF_R] = true /\
  ser_opt (view (load_all (run_op (OChmod ["d"] 448) s))) = "d1ed(d=d1c0[user.a=01,](e=d1c0(y=f1a4:,),f=f1a4:68,o=f1a4:6f,),z=d1ed(),)".
Proof.
  cbv zeta. split; [|vm_compute; repeat split; reflexivity].
  apply load_all_coherent. apply fresh_coherent.
  repeat (first [apply Forall_cons | apply Forall_nil | split | apply wf_dir | apply wf_file | apply wf_lnk | apply wf_wh
                | apply NoDup_cons | apply NoDup_nil | (cbn; intuition discriminate) | reflexivity ]).
Qed.
(* (c) for UNLINK of a visible regular file or symlink below a visible directory that the upper layer does not hold
   (Proofs/OverlayRefineCuRm.v): the parent chain is copied up (hypothesis [cu_okb] as in C10_op_refines_copyup), then a whiteout is
   written.  Proved by RE-RUNNING: from the state after the copy-up the whole operation equals its own tail (its lookups find
   everything loaded, its copy-up is a no-op), and there C10_op_refines_whiteout's run lemma applies.  [direct_cu_rm]. *)
Theorem C10_op_refines_unlink_copyup : forall s o v, Coherent s -> direct_cu_rm s o = true -> view (load_all s) = Some v ->
  let spec := fs_apply o (mkFs v (next_ino s)) in
  res_same (fst (step o s)) (fst spec) /\
  oteq (view (load_all (run_op o s))) (Some (f_tree (snd spec))) /\
  lowers (run_op o s) = lowers s.
Proof. exact op_refines_unlink_cu. Qed.
Example C10_op_refines_unlink_copyup_nonvacuous :
  let u := Dir 493 [] [("d", Dir 493 [] [])] in
  let l := Dir 493 [] [("d", Dir 448 [] [("e", Dir 448 [] [("g", File 8 416 [1] [("user.a", [1])]); ("l", Lnk [1])])]); ("z", Dir 493 [] [("f", File 2 420 [] [])]);
                       ("y", Dir 493 [("user.k", [1])] [("f", File 3 420 [] [])])] in
  let s := load_all (fresh (Some u) [l] 1000) in
  Coherent s /\
  forallb (direct_cu_rm s) [OUnlink ["d"; "e"; "g"]; OUnlink ["z"; "f"]; OUnlink ["d"; "e"; "l"]] = true /\
  forallb (fun o => negb (direct_cu_rm s o)) [OUnlink ["y"; "f"]; OUnlink ["d"; "e"]; OUnlink ["z"; "q"]] = true /\
  upper (run_op (OUnlink ["d"; "e"; "g"]) s) = Some (Dir 493 [] [("d", Dir 493 [] [("e", Dir 448 [] [("g", Wh)])])]).
Proof.
  cbv zeta. split; [|vm_compute; repeat split; reflexivity].
  apply load_all_coherent. apply fresh_coherent.
  repeat (first [apply Forall_cons | apply Forall_nil | split | apply wf_dir | apply wf_file | apply wf_lnk | apply wf_wh
                | apply NoDup_cons | apply NoDup_nil | (cbn; intuition discriminate) | reflexivity ]).
Qed.
(* All fragments proved on [teq] as one statement: [refinable s o] = the disjunction of [direct], [direct_wh], [direct_cu], [direct_link], [direct_rmdir_merged], [direct_dattr], [direct_cu_rm],
   [direct_dattr_more], [direct_rmdir_low], [direct_cu_wh], [direct_symlink], [direct_link_cu], [readable], [invisible], [exists_target], [rmdir_fails], [fails_more] (Proofs/OverlayRefineAll.v), and in the
   form of C10_op_refines_full after any history over [coh_op]: the full refinement statement holds for every operation that
   satisfies [refinable] in the state reached (C10_op_refines_copyup_file adds the lower-file operations, on [ser]). *)
Theorem C10_op_refines_fragments : forall s o v, Coherent s -> refinable s o = true -> view (load_all s) = Some v ->
  let spec := fs_apply o (mkFs v (next_ino s)) in
  res_same (fst (step o s)) (fst spec) /\
  oteq (view (load_all (run_op o s))) (Some (f_tree (snd spec))) /\
  lowers (run_op o s) = lowers s.
Proof. exact op_refines_fragments. Qed.
Theorem C10_op_refines_fragments_history : forall u ls nx ops o, Forall layer_ok (u :: ls) -> coh_history ops = true ->
  refinable (run_dumps ops (load_all (fresh (Some u) ls nx))) o = true -> op_refines (Some u) ls nx ops o.
Proof. exact op_refines_fragments_history. Qed.
Example C10_op_refines_link_nonvacuous :
  let u := Dir 493 [] [("d", Dir 493 [] [("f", File 5 420 [104] [("user.a", [1])]); ("e", Dir 448 [] [])]); ("g", Lnk [97])] in
  let l := Dir 493 [] [("d", Dir 448 [] [("o", File 2 420 [111] [])]); ("z", Dir 493 [] [])] in
  let s := load_all (fresh (Some u) [l] 1000) in
  Coherent s /\
  forallb (direct_link s) [OLink ["d"; "f"] ["d"; "e"; "h"]; OLink ["g"] ["k"]; OLink ["d"; "f"] ["n"]] = true /\
  forallb (fun o => negb (direct_link s o)) [OLink ["d"; "o"] ["n"]; OLink ["d"; "f"] ["z"; "n"]; OLink ["d"; "f"] ["d"; "o"]; OLink ["d"] ["n"]] = true /\
  forallb (refinable s) [OLink ["d"; "f"] ["n"]; OMkdir ["z"; "n"] 493; OUnlink ["d"; "o"]; OChmod ["d"; "f"] 384] = true /\
  ser_opt (view (load_all (run_op (OLink ["d"; "f"] ["n"]) s))) = "d1ed(d=d1ed(e=d1c0(),f=f1a4[user.a=01,]:68,o=f1a4:6f,),g=l:61,n=f1a4[user.a=01,]:68,z=d1ed(),)".
Proof.
  cbv zeta. split; [|vm_compute; repeat split; reflexivity].
  apply load_all_coherent. apply fresh_coherent.
  repeat (first [apply Forall_cons | apply Forall_nil | split | apply wf_dir | apply wf_file | apply wf_lnk | apply wf_wh
                | apply NoDup_cons | apply NoDup_nil | (cbn; intuition discriminate) | reflexivity ]).
Qed.
(* (c), FAILING operations (Proofs/OverlayRefineFail.v).
   [invisible s o]: the path the operation walks first - the path itself for getattr / readdir / read / readlink / open / write /
   chmod / truncate / the xattr operations, the PARENT's path for lookup / create / mkdir / mknod / symlink / unlink / rmdir /
   rename, the SOURCE's path for link - is not visible in the union (some component is missing, hidden by a whiteout, or below a
   non-directory).  Then the operation answers ENOENT, as the ordinary file system does on the view, and nothing changes.
   [exists_target s o]: mkdir / create / mknod / symlink of a name whose first candidate is not a whiteout, below a visible
   directory of any layer: EEXIST on both sides, nothing changes (no copy-up happens before the test). *)
Theorem C10_op_refines_enoent : forall s o v, Coherent s -> invisible s o = true -> view (load_all s) = Some v ->
  (let spec := fs_apply o (mkFs v (next_ino s)) in
   res_same (fst (step o s)) (fst spec) /\
   oteq (view (load_all (run_op o s))) (Some (f_tree (snd spec))) /\
   lowers (run_op o s) = lowers s) /\
  fst (step o s) = Err ENOENT /\ upper (run_op o s) = upper s.
Proof. exact op_refines_enoent. Qed.
Theorem C10_op_refines_eexist : forall s o v, Coherent s -> exists_target s o = true -> view (load_all s) = Some v ->
  (let spec := fs_apply o (mkFs v (next_ino s)) in
   res_same (fst (step o s)) (fst spec) /\
   oteq (view (load_all (run_op o s))) (Some (f_tree (snd spec))) /\
   lowers (run_op o s) = lowers s) /\
  fst (step o s) = Err EEXIST /\ upper (run_op o s) = upper s.
Proof. exact op_refines_eexist. Qed.
(* RMDIR, below a visible directory, of a visible non-directory answers ENOTDIR (load_directory refuses it) and of a directory that shows
   at least one entry ENOTEMPTY, as the ordinary file system does; nothing changes ([rmdir_fails]; the path must end two levels above
   DEPTH so that the view still shows the entries). *)
Theorem C10_op_refines_rmdir_fails : forall s o v, Coherent s -> rmdir_fails s o = true -> view (load_all s) = Some v ->
  (let spec := fs_apply o (mkFs v (next_ino s)) in
   res_same (fst (step o s)) (fst spec) /\
   oteq (view (load_all (run_op o s))) (Some (f_tree (snd spec))) /\
   lowers (run_op o s) = lowers s) /\
  (exists e, fst (step o s) = Err e) /\ upper (run_op o s) = upper s.
Proof. exact op_refines_rmdir_fails. Qed.
Example C10_op_refines_failing_nonvacuous :
  let u := Dir 493 [] [("d", Dir 493 [] [("f", File 5 420 [104] []); ("w", Wh)]); ("x", Wh)] in
  let l := Dir 493 [] [("d", Dir 448 [] [("w", Dir 493 [] [("k", File 3 420 [] [])]); ("o", File 4 420 [] [])]);
                       ("x", Dir 493 [] [("y", File 6 420 [] [])]); ("z", Dir 493 [] [])] in
  let s := load_all (fresh (Some u) [l] 1000) in
  Coherent s /\
  forallb (invisible s) [OMkdir ["x"; "y"; "n"] 493; OCreate ["d"; "w"; "c"] 420; OUnlink ["x"; "y"]; OChmod ["d"; "w"; "k"] 384; OWrite ["q"] 0 [1];
                         OLink ["x"; "y"] ["n"]; ORename ["q"; "a"] ["b"]; OGetattr ["d"; "f"; "g"]; OMkdir ["d"; "f"; "g"; "h"] 493; OLookup ["x"; "y"]] = true /\
  forallb (exists_target s) [OMkdir ["d"] 493; OCreate ["d"; "f"] 420; OSymlink ["d"; "o"] [1]; OMknod ["z"] 420] = true /\
  forallb (fun o => negb (invisible s o) && negb (exists_target s o)) [OMkdir ["d"; "n"] 493; OUnlink ["d"; "f"]; OMkdir ["d"; "w"] 493; OMkdir ["x"] 493] = true /\
  forallb (rmdir_fails s) [ORmdir ["d"]; ORmdir ["d"; "f"]; ORmdir ["d"; "o"]] = true /\ rmdir_fails s (ORmdir ["z"]) = false /\
  fst (step (ORmdir ["d"]) s) = Err ENOTEMPTY /\ fst (step (ORmdir ["d"; "o"]) s) = Err ENOTDIR.
Proof.
  cbv zeta. split; [|vm_compute; repeat split; reflexivity].
  apply load_all_coherent. apply fresh_coherent.
  repeat (first [apply Forall_cons | apply Forall_nil | split | apply wf_dir | apply wf_file | apply wf_lnk | apply wf_wh
                | apply NoDup_cons | apply NoDup_nil | (cbn; intuition discriminate) | reflexivity ]).
Qed.
(* (c) for the READ-ONLY operations, answers included (Proofs/OverlayRefineRead.v).  C10_op_refines_partial above needs no invariant but
   says nothing about result codes and payloads; in a COHERENT state every read-only operation - lookup, getattr, readdir, read,
   readlink, open with a read-only flag word, getxattr, listxattr - answers exactly as the ordinary file system does on the client's
   view (error code or payload: kind and size, sorted entry names, bytes read, link target, attribute value, attribute names), on
   visible and on invisible paths, and changes neither the view nor any layer.  [ro_bounds]: the path is shorter than DEPTH (READDIR:
   by two), LOOKUP is not of the empty path (the harness never sends it; the model answers EINVAL where the specification has the
   root), GETXATTR is not of one of the overlay's three opaque markers (the overlay hands the marker of the backing directory
   through, the union hides it: Example below).  [readable] is the visible-path half (LOOKUP: parent visible, name visible or not). *)
Theorem C10_op_refines_readonly : forall s o v, Coherent s -> readonly_op o = true -> ro_bounds o = true -> view (load_all s) = Some v ->
  (  let spec := fs_apply o (mkFs v (next_ino s)) in
  res_same (fst (step o s)) (fst spec) /\
  oteq (view (load_all (run_op o s))) (Some (f_tree (snd spec))) /\
  lowers (run_op o s) = lowers s) /\ upper (run_op o s) = upper s.
Proof. exact op_refines_readonly. Qed.
Theorem C10_op_refines_readable : forall s o v, Coherent s -> readable s o = true -> view (load_all s) = Some v ->
  (  let spec := fs_apply o (mkFs v (next_ino s)) in
  res_same (fst (step o s)) (fst spec) /\
  oteq (view (load_all (run_op o s))) (Some (f_tree (snd spec))) /\
  lowers (run_op o s) = lowers s) /\ upper (run_op o s) = upper s.
Proof. exact op_refines_readable. Qed.
Example C10_op_refines_readonly_nonvacuous :
  let u := Dir 493 [] [("d", Dir 493 [("user.a", [1]); ("user.overlay.opaque", [110])] [("f", File 5 420 [104] [("user.b", [2])]); ("w", Wh); ("e", Dir 448 [] [])]); ("x", Wh); ("g", Lnk [97])] in
  let l := Dir 493 [] [("d", Dir 448 [] [("o", File 2 420 [111] []); ("w", File 3 420 [] []); ("e", Dir 448 [] [("y", File 4 420 [] [])])]);
                       ("x", Dir 493 [] [("y", File 6 420 [] [])]); ("z", Dir 493 [] [("l", Lnk [98]); ("h", File 7 420 [1; 2; 3] [])])] in
  let s := load_all (fresh (Some u) [l] 1000) in
  let ros := [OLookup ["d"; "f"]; OLookup ["d"; "w"]; OLookup ["z"; "q"]; OGetattr ["d"; "f"]; OGetattr []; OReaddir ["d"]; OReaddir []; OReaddir ["d"; "f"];
              ORead ["z"; "h"] 1 5; ORead ["d"] 0 1; ORead ["g"] 0 1; OReadlink ["z"; "l"]; OReadlink ["d"]; OOpen ["d"; "o"] OF_R; OOpen ["d"] OF_R; OOpen ["g"] OF_R;
              OGetxattr ["d"] "user.a"; OGetxattr ["d"; "f"] "user.q"; OListxattr ["d"]; OListxattr ["g"]] in
  let spec_ans o := match view s with Some v => fst (fs_apply o (mkFs v 1000)) | None => Err 0 end in
  Coherent s /\
  forallb (readable s) ros = true /\ forallb (fun o => readonly_op o && ro_bounds o && negb (readable s o)) [OGetattr ["x"; "y"]; OLookup ["x"; "y"]; OReaddir ["d"; "w"]] = true /\
  map (fun o => fst (step o s)) ros =
    [Ok "f1a4"; Err 2; Err 2; Ok "f1a4:1"; Ok "d1ed:0"; Ok "e,f,o"; Ok "d,g,z"; Err 20; Ok "0203"; Err 21; Err 9; Ok "62"; Err 22; Ok ""; Ok ""; Err 9;
     Ok "01"; Err 61; Ok "user.a"; Ok ""] /\
  (* the two excluded requests really differ *)
  fst (step (OGetxattr ["d"] "user.overlay.opaque") s) = Ok "6e" /\ spec_ans (OGetxattr ["d"] "user.overlay.opaque") = Err ENODATA /\
  fst (step (OLookup []) s) = Err EINVAL /\ spec_ans (OLookup []) = Ok "d1ed".
Proof.
  cbv zeta. split; [|vm_compute; repeat split; reflexivity].
  apply load_all_coherent. apply fresh_coherent.
  repeat (first [apply Forall_cons | apply Forall_nil | split | apply wf_dir | apply wf_file | apply wf_lnk | apply wf_wh
                | apply NoDup_cons | apply NoDup_nil | (cbn; intuition discriminate) | reflexivity ]).
Qed.
(* (c), MORE FAILING operations (Proofs/OverlayRefineFail2.v), [fails_more s o]; the layers and the view stay as they are:
     - MKDIR / CREATE / MKNOD / SYMLINK / LINK below a regular file or symlink of the upper layer: ENOTDIR (the host call refuses; for
       LINK the source is a regular file or symlink of the upper layer too);
     - LINK whose source is a visible DIRECTORY (any layer), new parent visible: EPERM;
     - UNLINK of a directory that the upper layer holds: EISDIR (the host call refuses);
     - RENAME with a visible first parent: EXDEV when the second parent is visible too, else ENOENT (the overlay implements no rename).
   Same statement as C10_op_refines_enoent, with the error the ordinary file system gives. *)
Theorem C10_op_refines_fails_more : forall s o v, Coherent s -> fails_more s o = true -> view (load_all s) = Some v ->
  (  let spec := fs_apply o (mkFs v (next_ino s)) in
  res_same (fst (step o s)) (fst spec) /\
  oteq (view (load_all (run_op o s))) (Some (f_tree (snd spec))) /\
  lowers (run_op o s) = lowers s) /\
  (exists e, fst (step o s) = Err e) /\ upper (run_op o s) = upper s.
Proof. exact op_refines_fails_more. Qed.
(* ... and two classes where the faithful model and the ordinary file system DISAGREE; both witnesses were replayed on the real
   OverlayFs through the harness with the same results (notes/C10.md).  They are requests the kernel's FUSE client never sends
   (it resolves the parent itself and answers ENOTDIR; it sends RMDIR, not UNLINK, for directories), so the harness generator excludes
   them; a raw-protocol client (virtiofs guest) can send them.
   (1) UNLINK / RMDIR below a regular file or symlink: ENOENT instead of ENOTDIR - lookup_node finds no child in the (empty) child
       table of the non-directory.
   (2) UNLINK of a directory that only lower layers hold SUCCEEDS and hides the whole directory behind a whiteout, entries included
       (do_rm has no type check of its own; the upper layer, which would refuse, is not asked because it has nothing to unlink).
   Hence the refinement statement for ALL operations of all coherent states is refuted outside the xattr class as well. *)
Theorem C10_unlink_below_nondir_disagrees :
  exists v, view (load_all WS1) = Some v /\
    fst (step (OUnlink ["f"; "x"]) WS1) = Err ENOENT /\ fst (fs_apply (OUnlink ["f"; "x"]) (mkFs v (next_ino WS1))) = Err ENOTDIR /\
    fst (step (ORmdir ["g"; "x"]) WS1) = Err ENOENT /\ fst (fs_apply (ORmdir ["g"; "x"]) (mkFs v (next_ino WS1))) = Err ENOTDIR.
Proof. exact unlink_below_nondir_disagrees. Qed.
Theorem C10_unlink_lower_dir_disagrees :
  exists v, view (load_all WS1) = Some v /\
    fst (step (OUnlink ["e"]) WS1) = Ok "" /\ fst (fs_apply (OUnlink ["e"]) (mkFs v (next_ino WS1))) = Err EISDIR /\
    upper (run_op (OUnlink ["e"]) WS1) = Some (Dir 493 [] [("f", File 1 420 [104] []); ("d", Dir 493 [] []); ("e", Wh)]).
Proof. exact unlink_lower_dir_disagrees. Qed.
Theorem C10_refines_everywhere_refuted : ~ refines_everywhere.
Proof. exact refines_everywhere_refuted. Qed.
Example C10_op_refines_fails_more_nonvacuous :
  let u := Dir 493 [] [("d", Dir 493 [] [("f", File 5 420 [104] []); ("e", Dir 448 [] [])]); ("x", Wh); ("g", Lnk [97])] in
  let l := Dir 493 [] [("d", Dir 448 [] [("o", File 2 420 [111] [])]); ("x", Dir 493 [] [("y", File 6 420 [] [])]); ("z", Dir 493 [] [("h", File 7 420 [1] [])])] in
  let s := load_all (fresh (Some u) [l] 1000) in
  let fm := [OMkdir ["d"; "f"; "n"] 493; OCreate ["g"; "c"] 420; OSymlink ["d"; "f"; "k"] [1]; OMknod ["g"; "c"] 420; OLink ["d"; "f"] ["g"; "n"]; OLink ["d"] ["n"];
             OLink ["z"] ["d"; "f"; "n"]; OLink ["d"; "e"] ["z"; "n"]; OUnlink ["d"]; OUnlink ["d"; "e"]; ORename ["d"; "f"] ["z"; "n"]; ORename ["d"; "f"] ["q"; "n"]; ORename ["z"; "h"] ["n"]] in
  Coherent s /\ Coherent WS1 /\
  forallb (fails_more s) fm = true /\
  map (fun o => fst (step o s)) fm = [Err 20; Err 20; Err 20; Err 20; Err 20; Err 1; Err 1; Err 1; Err 21; Err 21; Err 18; Err 2; Err 18] /\
  forallb (fun o => negb (fails_more s o)) [OUnlink ["z"]; OUnlink ["d"; "f"]; OMkdir ["z"; "h"; "n"] 493; OLink ["q"] ["n"]; ORename ["q"; "a"] ["b"]; OMkdir ["d"; "n"] 493] = true.
Proof.
  cbv zeta. split; [|split; [exact WS1_coherent|vm_compute; repeat split; reflexivity]].
  apply load_all_coherent. apply fresh_coherent.
  repeat (first [apply Forall_cons | apply Forall_nil | split | apply wf_dir | apply wf_file | apply wf_lnk | apply wf_wh
                | apply NoDup_cons | apply NoDup_nil | (cbn; intuition discriminate) | reflexivity ]).
Qed.
(* (c) for DIRECTORIES once more (Proofs/OverlayRefineDirAttr2.v), [direct_dattr_more]: CHMOD / SETXATTR / REMOVEXATTR (not an opaque marker) /
   OPEN for writing / WRITE / TRUNCATE of the ROOT, and of a visible directory that the upper layer does not hold: the chain of
   directories - the target included - is copied up first (hypothesis [cu_okb]: no user xattrs, mode within 01777; with a user xattr the
   statement is false, Example), then the upper copy is changed.  Proved by re-running (Proofs/OverlayRefineRerun.v): from the state
   after the copy-up the operation runs exactly as from the start - its walk and lookups only read the cache ([walk_noop]), its
   copy-up is a no-op - and there C10_op_refines_dattr applies; the copy-up itself leaves the union alone. *)
Theorem C10_op_refines_dattr_more : forall s o v, Coherent s -> direct_dattr_more s o = true -> view (load_all s) = Some v ->
  let spec := fs_apply o (mkFs v (next_ino s)) in
  res_same (fst (step o s)) (fst spec) /\
  oteq (view (load_all (run_op o s))) (Some (f_tree (snd spec))) /\
  lowers (run_op o s) = lowers s.
Proof. exact op_refines_dattr_more. Qed.
(* (c) for RMDIR of a directory that only lower layers hold (parent in the upper layer) and that shows no entry because lower
   whiteouts hide what lower directories hold ([direct_rmdir_low], Proofs/OverlayRefineRmdirLow.v): nothing is emptied, a whiteout is written. *)
Theorem C10_op_refines_rmdir_low : forall s o v, Coherent s -> direct_rmdir_low s o = true -> view (load_all s) = Some v ->
  let spec := fs_apply o (mkFs v (next_ino s)) in
  res_same (fst (step o s)) (fst spec) /\
  oteq (view (load_all (run_op o s))) (Some (f_tree (snd spec))) /\
  lowers (run_op o s) = lowers s.
Proof. exact op_refines_rmdir_low. Qed.
(* (c) BELOW A DIRECTORY THAT IS COPIED UP FIRST ([direct_cu_wh], Proofs/OverlayRefineCuWh.v; parent visible, not in the upper layer, chain
   within [cu_okb]): MKDIR / CREATE / MKNOD / SYMLINK over a (lower) whiteout, and RMDIR of a directory that shows no entry.  By
   re-running, from C10_op_refines_whiteout and C10_op_refines_rmdir_low. *)
Theorem C10_op_refines_cu_wh : forall s o v, Coherent s -> direct_cu_wh s o = true -> view (load_all s) = Some v ->
  let spec := fs_apply o (mkFs v (next_ino s)) in
  res_same (fst (step o s)) (fst spec) /\
  oteq (view (load_all (run_op o s))) (Some (f_tree (snd spec))) /\
  lowers (run_op o s) = lowers s.
Proof. exact op_refines_cu_wh. Qed.
Example C10_op_refines_dir_more_nonvacuous :
  let u := Dir 493 [("user.r", [7])] [("d", Dir 493 [] [("w", Wh)]); ("f", File 1 420 [] [])] in
  let la := Dir 493 [] [("d", Dir 448 [] [("w", Dir 493 [] [("k", File 3 420 [] [])])]); ("z", Dir 493 [] [("a", Wh); ("q", Dir 448 [] [("b", Wh)]); ("e", Dir 493 [] [])]);
                        ("y", Dir 493 [("user.k", [1])] [("a", Wh)]); ("h", Dir 493 [] [("a", Wh); ("b", Wh)])] in
  let lb := Dir 493 [] [("z", Dir 493 [] [("a", File 8 420 [] []); ("q", Dir 448 [] [("b", File 9 420 [1] [])])]);
                        ("h", Dir 493 [] [("a", File 10 420 [] []); ("b", Dir 493 [] [("c", File 11 420 [] [])])]); ("y", Dir 493 [] [("a", File 12 420 [] [])])] in
  let s := load_all (fresh (Some u) [la; lb] 1000) in
  let fails o := match view s with
                 | Some v => negb (String.eqb (ser_opt (view (load_all (run_op o s)))) (ser SER (f_tree (snd (fs_apply o (mkFs v 1000))))))
                 | None => false end in
  Coherent s /\
  ser_opt (view s) = "d1ed[user.r=07,](d=d1ed(),f=f1a4:,h=d1ed(),y=d1ed[user.k=01,](),z=d1ed(e=d1ed(),q=d1c0(),),)" /\
  forallb (direct_dattr_more s) [OChmod [] 448; OSetxattr [] "user.k" [1]; ORemovexattr [] "user.r"; ORemovexattr [] "user.q"; OChmod ["z"] 448; OSetxattr ["z"; "q"] "user.k" [1];
                                 ORemovexattr ["z"] "user.q"; OWrite ["z"] 0 [1]; OTruncate ["z"; "e"] 0; OOpen ["h"] OF_W; OWrite [] 0 [1]] = true /\
  forallb (fun o => negb (direct_dattr_more s o)) [OChmod ["y"] 448; OChmod ["d"] 448; OChmod ["f"] 448; OSetxattr [] "user.overlay.opaque" [121]; OOpen [] OF_R; OChmod ["q"] 448] = true /\
  fails (OChmod ["y"] 448) = true /\
  upper (run_op (OChmod ["z"; "q"] 448) s) = Some (Dir 493 [("user.r", [7])] [("d", Dir 493 [] [("w", Wh)]); ("f", File 1 420 [] []); ("z", Dir 493 [] [("q", Dir 448 [] [])])]) /\
  forallb (direct_rmdir_low s) [ORmdir ["h"]; ORmdir ["y"]] = true /\ forallb (fun o => negb (direct_rmdir_low s o)) [ORmdir ["z"]; ORmdir ["d"]; ORmdir ["z"; "q"]] = true /\
  upper (run_op (ORmdir ["h"]) s) = Some (Dir 493 [("user.r", [7])] [("d", Dir 493 [] [("w", Wh)]); ("f", File 1 420 [] []); ("h", Wh)]) /\
  forallb (direct_cu_wh s) [OMkdir ["z"; "a"] 493; OCreate ["z"; "a"] 420; OSymlink ["z"; "q"; "b"] [1]; OMknod ["h"; "b"] 420; ORmdir ["z"; "q"]; ORmdir ["z"; "e"]] = true /\
  forallb (fun o => negb (direct_cu_wh s o)) [OMkdir ["y"; "a"] 493; OMkdir ["d"; "w"] 493; OMkdir ["z"; "n"] 493; ORmdir ["h"]; ORmdir ["z"]] = true /\
  fails (OMkdir ["y"; "a"] 493) = true /\
  upper (run_op (OMkdir ["z"; "a"] 493) s) = Some (Dir 493 [("user.r", [7])] [("d", Dir 493 [] [("w", Wh)]); ("f", File 1 420 [] []);
                                                       ("z", Dir 493 [] [("a", Dir 493 [("user.fuseoverlayfs.opaque", [121])] [])])]) /\
  upper (run_op (ORmdir ["z"; "q"]) s) = Some (Dir 493 [("user.r", [7])] [("d", Dir 493 [] [("w", Wh)]); ("f", File 1 420 [] []); ("z", Dir 493 [] [("q", Wh)])]).
Proof.
  cbv zeta. split; [|vm_compute; repeat split; reflexivity].
  apply load_all_coherent. apply fresh_coherent.
  repeat (first [apply Forall_cons | apply Forall_nil | split | apply wf_dir | apply wf_file | apply wf_lnk | apply wf_wh
                | apply NoDup_cons | apply NoDup_nil | (cbn; intuition discriminate) | reflexivity ]).
Qed.
(* (c) for SYMLINKS ([direct_symlink], Proofs/OverlayRefineSymlink.v): CHMOD / TRUNCATE / WRITE / OPEN with a flag word that is not read-only /
   SETXATTR / REMOVEXATTR (not an opaque marker) of a visible path whose first candidate is a symlink.  They fail - EOPNOTSUPP, EBADF, EBADF,
   EBADF, EOPNOTSUPP, ENODATA - on both sides; when only lower layers hold the symlink the overlay has copied it up by then (and its
   missing parent directories, [cu_okb]), which leaves the view as it is: a symlink on top of the same symlink ([symlink_up_merge]).
   Symlinks carry no identity, so the statement is on [teq]. *)
Theorem C10_op_refines_symlink : forall s o v, Coherent s -> direct_symlink s o = true -> view (load_all s) = Some v ->
  let spec := fs_apply o (mkFs v (next_ino s)) in
  res_same (fst (step o s)) (fst spec) /\
  oteq (view (load_all (run_op o s))) (Some (f_tree (snd spec))) /\
  lowers (run_op o s) = lowers s.
Proof. exact op_refines_symlink. Qed.
(* (c) for LINK WITH COPY-UP ([direct_link_cu], Proofs/OverlayRefineLinkCu.v), new name without candidates: (a) source = regular file or
   symlink of the upper layer, new parent = visible directory that the upper layer does not hold (chain within [cu_okb]); (b) source = a
   symlink that only lower layers hold (it is copied up), new parent = directory of the upper layer.  By re-running, from
   C10_op_refines_link.  Not covered: a lower regular file as source (fresh identity of the copy). *)
Theorem C10_op_refines_link_cu : forall s o v, Coherent s -> direct_link_cu s o = true -> view (load_all s) = Some v ->
  let spec := fs_apply o (mkFs v (next_ino s)) in
  res_same (fst (step o s)) (fst spec) /\
  oteq (view (load_all (run_op o s))) (Some (f_tree (snd spec))) /\
  lowers (run_op o s) = lowers s.
Proof. exact op_refines_link_cu. Qed.
Example C10_op_refines_symlink_nonvacuous :
  let u := Dir 493 [] [("d", Dir 493 [] [("f", File 5 420 [104] []); ("k", Lnk [97])])] in
  let l := Dir 493 [] [("d", Dir 448 [] [("l", Lnk [98]); ("o", File 2 420 [111] [])]); ("z", Dir 493 [] [("e", Dir 448 [] [("m", Lnk [99; 100])])]);
                       ("y", Dir 493 [("user.k", [1])] [("m", Lnk [101])])] in
  let s := load_all (fresh (Some u) [l] 1000) in
  let fails o := match view s with
                 | Some v => negb (String.eqb (ser_opt (view (load_all (run_op o s)))) (ser SER (f_tree (snd (fs_apply o (mkFs v 1000))))))
                 | None => false end in
  let sy := [OChmod ["d"; "k"] 384; OChmod ["d"; "l"] 384; OTruncate ["z"; "e"; "m"] 0; OWrite ["d"; "l"] 0 [1]; OOpen ["z"; "e"; "m"] OF_W; OSetxattr ["d"; "l"] "user.a" [1];
             ORemovexattr ["z"; "e"; "m"] "user.a"; OOpen ["d"; "k"] OF_RW] in
  let lc := [OLink ["d"; "f"] ["z"; "n"]; OLink ["d"; "k"] ["z"; "e"; "n"]; OLink ["d"; "l"] ["n"]; OLink ["z"; "e"; "m"] ["d"; "n"]] in
  Coherent s /\
  forallb (direct_symlink s) sy = true /\ map (fun o => fst (step o s)) sy = [Err 95; Err 95; Err 9; Err 9; Err 9; Err 95; Err 61; Err 9] /\
  forallb (fun o => negb (direct_symlink s o)) [OChmod ["y"; "m"] 384; OChmod ["d"; "f"] 384; OOpen ["d"; "l"] OF_R; OSetxattr ["d"; "l"] "user.overlay.opaque" [121]; OChmod ["d"; "q"] 384] = true /\
  fails (OChmod ["y"; "m"] 384) = true /\
  upper (run_op (OTruncate ["z"; "e"; "m"] 0) s) = Some (Dir 493 [] [("d", Dir 493 [] [("f", File 5 420 [104] []); ("k", Lnk [97])]); ("z", Dir 493 [] [("e", Dir 448 [] [("m", Lnk [99; 100])])])]) /\
  forallb (direct_link_cu s) lc = true /\ map (fun o => fst (step o s)) lc = [Ok "f1a4"; Ok "l1ff"; Ok "l1ff"; Ok "l1ff"] /\
  forallb (fun o => negb (direct_link_cu s o)) [OLink ["d"; "f"] ["n"]; OLink ["d"; "o"] ["n"]; OLink ["d"; "l"] ["z"; "n"]; OLink ["d"; "f"] ["y"; "n"]; OLink ["y"; "m"] ["n"]; OLink ["d"; "f"] ["d"; "o"]] = true /\
  fails (OLink ["d"; "f"] ["y"; "n"]) = true /\ fails (OLink ["y"; "m"] ["n"]) = true /\
  ser_opt (view (load_all (run_op (OLink ["z"; "e"; "m"] ["d"; "n"]) s))) = "d1ed(d=d1ed(f=f1a4:68,k=l:61,l=l:62,n=l:6364,o=f1a4:6f,),y=d1ed[user.k=01,](m=l:65,),z=d1ed(e=d1c0(m=l:6364,),),)" /\
  forallb (refinable s) (sy ++ lc) = true.
Proof.
  cbv zeta. split; [|vm_compute; repeat split; reflexivity].
  apply load_all_coherent. apply fresh_coherent.
  repeat (first [apply Forall_cons | apply Forall_nil | split | apply wf_dir | apply wf_file | apply wf_lnk | apply wf_wh
                | apply NoDup_cons | apply NoDup_nil | (cbn; intuition discriminate) | reflexivity ]).
Qed.
(* (c) for LINK OF A REGULAR FILE THAT ONLY LOWER LAYERS HOLD ([direct_link_file], [ids_ok_link]; Proofs/OverlayRefineLinkFile.v): the new parent is a
   directory of the upper layer, the new name has no candidate.  The overlay copies the file up (fresh identity; missing parent directories
   first, [cu_okb]) and links the copy: both names then show the fresh identity where the ordinary file system shows the old one, so - as
   for C10_op_refines_copyup_file and under the same hypotheses (no user xattrs on the lower file: with one the statement is false, Example;
   mode within 07777; fresh identity unused; the file's identity shown at its path only) - the views agree UP TO FILE IDENTITIES: equal
   serialisations.  Proof: re-run from the state after the copy-up, C10_op_refines_link there, and the two result trees differ by renaming
   one identity ([tmap_ino] with [reid], invisible to [ser]: [seqs_tmap_reid]). *)
Theorem C10_op_refines_link_file : forall s o v, Coherent s -> direct_link_file s o = true -> view (load_all s) = Some v ->
  ids_ok_link s o v = true ->
  let spec := fs_apply o (mkFs v (next_ino s)) in
  res_same (fst (step o s)) (fst spec) /\ ser_opt (view (load_all (run_op o s))) = ser SER (f_tree (snd spec)) /\
  lowers (run_op o s) = lowers s.
Proof. exact op_refines_link_file. Qed.
Example C10_op_refines_link_file_nonvacuous :
  let u := Dir 493 [] [("d", Dir 493 [] [("f", File 5 420 [104] []); ("k", Lnk [97])])] in
  let l := Dir 493 [] [("d", Dir 448 [] [("l", Lnk [98]); ("o", File 2 420 [111] [])]); ("z", Dir 493 [] [("e", Dir 448 [] [("g", File 8 416 [1] [])])]);
                       ("h1", File 9 420 [2] []); ("h2", File 9 420 [2] []); ("x", File 10 420 [3] [("user.a", [1])])] in
  let s := load_all (fresh (Some u) [l] 1000) in
  let ok o := match view s with Some v => direct_link_file s o && ids_ok_link s o v | None => false end in
  let fails o := match view s with
                 | Some v => negb (String.eqb (ser_opt (view (load_all (run_op o s)))) (ser SER (f_tree (snd (fs_apply o (mkFs v 1000))))))
                 | None => false end in
  Coherent s /\
  forallb ok [OLink ["d"; "o"] ["n"]; OLink ["z"; "e"; "g"] ["d"; "n"]; OLink ["d"; "o"] ["d"; "n"]] = true /\
  forallb (fun o => negb (ok o)) [OLink ["h1"] ["n"]; OLink ["x"] ["n"]; OLink ["d"; "f"] ["n"]; OLink ["d"; "o"] ["z"; "n"]; OLink ["d"; "o"] ["d"; "f"]] = true /\
  fails (OLink ["x"] ["n"]) = true /\
  upper (run_op (OLink ["z"; "e"; "g"] ["d"; "n"]) s) =
    Some (Dir 493 [] [("d", Dir 493 [] [("f", File 5 420 [104] []); ("k", Lnk [97]); ("n", File 1000 416 [1] [])]); ("z", Dir 493 [] [("e", Dir 448 [] [("g", File 1000 416 [1] [])])])]).
Proof.
  cbv zeta. split; [|vm_compute; repeat split; reflexivity].
  apply load_all_coherent. apply fresh_coherent.
  repeat (first [apply Forall_cons | apply Forall_nil | split | apply wf_dir | apply wf_file | apply wf_lnk | apply wf_wh
                | apply NoDup_cons | apply NoDup_nil | (cbn; intuition discriminate) | reflexivity ]).
Qed.
(* two ingredients, of independent use: the ordinary file system cannot tell [teq] trees apart (same answer, [teq] results) ... *)
Theorem C10_ordinary_fs_respects_teq : forall o a b n, teq a b ->
  res_same (fst (fs_apply o (mkFs a n))) (fst (fs_apply o (mkFs b n))) /\
  teq (f_tree (snd (fs_apply o (mkFs a n)))) (f_tree (snd (fs_apply o (mkFs b n)))) /\
  f_next (snd (fs_apply o (mkFs a n))) = f_next (snd (fs_apply o (mkFs b n))).
Proof. exact fs_apply_teq. Qed.
(* ... and the merge algebra: replacing the entry [nm] of the directory at [pp] of the top layer (by [G], which touches
   no other name) changes the overlayfs union exactly at [pp]/[nm], to what the new group of candidates resolves to
   (a leaf, a merged directory, or nothing when a whiteout is on top); a change of all files with one hard-link
   identity commutes with the union when no lower layer uses the identity. *)
Theorem C10_merge_update : forall nm G f pp u ls m x ch,
  Forall wf (u :: ls) -> tget u pp = Some (Dir m x ch) -> only_at nm G ch -> DEPTH = (S f + List.length pp)%nat ->
  let newgrp := ents nm (dir_stack (Dir m x (G ch) :: tl (mstack (u :: ls) pp))) in
  oteq (merge (tupd pp (chmap G) u :: ls))
       (option_map (tupd pp (setc nm (resolve f newgrp))) (merge (u :: ls))).
Proof. exact merge_tupd. Qed.
Theorem C10_merge_file_change : forall i g u ls, hide_comm g -> forallb (fun l => negb (ino_in i l)) ls = true ->
  merge (tmap_ino i g u :: ls) = option_map (tmap_ino i g) (merge (u :: ls)).
Proof. exact merge_tmap_ino. Qed.
(* non-vacuity: a coherent state over an upper and a lower layer with a merged directory; fourteen operations
   satisfy [direct] there (and seven do not: lower candidates, a lower-only parent, an opaque marker, a merged directory) *)
Example C10_op_refines_direct_nonvacuous :
  let u := Dir 493 [] [("d", Dir 493 [] [("f", File 5 420 [104] [("user.a", [1])]); ("e", Dir 448 [] [])]); ("g", Lnk [97])] in
  let l := Dir 493 [] [("d", Dir 448 [] [("o", File 2 420 [111] [])]); ("z", Dir 493 [] [])] in
  let s := load_all (fresh (Some u) [l] 1000) in
  Coherent s /\
  forallb (direct s) [OMkdir ["d"; "n"] 493; OCreate ["d"; "c"] 420; OMknod ["c"] 420; OSymlink ["k"] [1]; OUnlink ["d"; "f"]; OUnlink ["g"];
     ORmdir ["d"; "e"]; OWrite ["d"; "f"] 1 [33]; OChmod ["d"; "f"] 384; OSetxattr ["d"; "f"] "user.k" [1];
     ORemovexattr ["d"; "f"] "user.a"; ORemovexattr ["d"; "f"] "user.b"; OOpen ["d"; "f"] OF_WT; OTruncate ["d"; "f"] 3] = true /\
  forallb (fun o => negb (direct s o)) [OMkdir ["d"; "o"] 493; OUnlink ["d"; "o"]; OChmod ["d"; "o"] 384; OMkdir ["z"; "q"] 493;
     OSetxattr ["d"; "f"] "user.overlay.opaque" [121]; ORmdir ["d"]; OLookup ["d"]] = true /\
  ser_opt (view s) = "d1ed(d=d1ed(e=d1c0(),f=f1a4[user.a=01,]:68,o=f1a4:6f,),g=l:61,z=d1ed(),)" /\
  ser_opt (view (load_all (run_op (OUnlink ["d"; "f"]) s))) = "d1ed(d=d1ed(e=d1c0(),o=f1a4:6f,),g=l:61,z=d1ed(),)".
Proof.
  cbv zeta. split; [|vm_compute; repeat split; reflexivity].
  apply load_all_coherent. apply fresh_coherent.
  repeat (first [apply Forall_cons | apply Forall_nil | split | apply wf_dir | apply wf_file | apply wf_lnk | apply wf_wh
                | apply NoDup_cons | apply NoDup_nil | (cbn; intuition discriminate) | reflexivity ]).
Qed.
(* The model's OPEN takes the whole flag word (access mode and O_TRUNC, O_APPEND, O_CREAT, O_EXCL) and decides
   "read-only, no copy-up" with the code's own mask, not with the access mode: O_RDONLY|O_TRUNC is NOT read-only. *)
Example C10_open_mask :
  of_readonly (mkOF ARD false false false false) = true /\ of_readonly (mkOF ARD false false false true) = true /\
  of_readonly (mkOF ARD true false false false) = false /\ of_readonly (mkOF ARD false true false false) = false /\
  of_readonly (mkOF ARD false false true false) = false /\ of_readonly (mkOF AWR false false false false) = false /\
  of_readonly (mkOF ARW false false false false) = false /\
  modifying (OOpen ["a"] (mkOF ARD true false false false)) = true.
Proof. repeat split. Qed.
Example C10_coh_op_list :
  coh_op (OMkdir ["a"; "b"] 493) = true /\ coh_op (OLookup ["a"]) = true /\ coh_op (OReaddir []) = true /\
  coh_op (OCreate ["a"] 420) = true /\ coh_op (OSymlink ["a"] []) = true /\ coh_op (OUnlink ["a"]) = true /\ coh_op (ORmdir ["a"]) = true /\ coh_op (OWrite ["a"] 0 []) = true /\
  coh_op (OOpen ["a"] OF_WT) = true /\ coh_op (OChmod ["a"] 0) = true /\ coh_op (OTruncate ["a"] 0) = true /\
  coh_op (OSetxattr ["a"] "user.k" []) = true /\ coh_op (OSetxattr ["a"] "trusted.overlay.opaque" []) = false /\
  coh_op (OLink ["a"] ["b"]) = true /\ coh_op (ORename ["a"] ["b"]) = true /\ coh_op (ORemovexattr ["a"] "user.overlay.opaque") = false.
Proof. repeat split. Qed.

(* Invariant of the node cache: a backing inode flagged in_upper_layer lives in layer 0 and only
   exists when there is an upper layer.  It holds for a freshly imported overlay ... *)
Theorem C10_fresh_invariant : forall u ls nx,
  Inv (match u with Some _ => true | None => false end) (fresh u ls nx).
Proof. exact fresh_inv. Qed.

(* ... and every operation preserves it, leaves every lower layer exactly as it was, and every
   layer mutation it performs is tagged with layer index 0 (the upper). *)
Theorem C10_lowers_untouched : forall hu s o, Inv hu s ->
  Inv hu (run_op o s) /\ lowers (run_op o s) = lowers s /\
  exists l, log (run_op o s) = l ++ log s /\ all_zero l.
Proof. exact lowers_untouched. Qed.

(* for all layer contents and all histories (with or without tree walks in between) *)
Theorem C10_lowers_untouched_history : forall u ls nx ops,
  let s := run_dumps ops (load_all (fresh u ls nx)) in
  lowers s = ls /\ all_zero (log s).
Proof. exact lowers_untouched_history. Qed.

(* without an upper layer: nothing on disk changes, no mutation is emitted, and every modifying
   operation returns an error *)
Theorem C10_no_upper_ro : forall s o, Inv false s ->
  let s' := run_op o s in
  Inv false s' /\ upper s' = upper s /\ lowers s' = lowers s /\ log s' = log s /\
  (modifying o = true -> exists e, fst (step o s) = Err e).
Proof. exact no_upper_ro. Qed.

(* non-vacuity: the invariant holds on a non-trivial state (an upper and a lower layer with a merged
   directory, after a copy-up), and the operations above do mutate layer 0 there *)
Example C10_nonvacuous :
  let u := Dir 493 [] [("d", Dir 493 [] [])] in
  let l := Dir 493 [] [("d", Dir 448 [] [("f", File 1 420 [104; 105] [])])] in
  let s := run_op (OWrite ["d"; "f"] 2 [33]) (load_all (fresh (Some u) [l] 1000)) in
  Inv true (load_all (fresh (Some u) [l] 1000)) /\ log s = [0; 0; 0]%nat /\ lowers s = [l] /\
  ser_opt (view (load_all s)) = "d1ed(d=d1ed(f=f1a4:686921,),)".
Proof.
  cbv zeta. split; [apply (proj1 (load_all_inv true _ (fresh_inv (Some _) _ _)))|].
  vm_compute. repeat split.
Qed.
Example C10_scan_nonvacuous :
  let u := Dir 493 [] [("d", Dir 493 [("user.overlay.opaque", [121])] [("n", File 1 420 [] [])]); ("w", Wh)] in
  let l := Dir 493 [] [("d", Dir 448 [] [("o", File 2 420 [] [])]); ("w", Lnk [97]); ("z", Dir 493 [] [])] in
  Forall layer_ok (all_layers (Some u) [l]) /\
  ser_opt (merge (all_layers (Some u) [l])) = "d1ed(d=d1ed(n=f1a4:,),z=d1ed(),)".
Proof.
  cbv zeta. split; [|vm_compute; reflexivity].
  repeat (first [apply Forall_cons | apply Forall_nil | split | apply wf_dir | apply wf_file | apply wf_lnk | apply wf_wh
                | apply NoDup_cons | apply NoDup_nil | (cbn; intuition discriminate) | reflexivity ]).
Qed.
Example C10_no_upper_nonvacuous :
  let l := Dir 493 [] [("f", File 1 420 [104; 105] [])] in
  Inv false (fresh None [l] 1000) /\ fst (step (OWrite ["f"] 0 [33]) (fresh None [l] 1000)) = Err EOTHER.
Proof. split; [exact (fresh_inv None _ _)|vm_compute; reflexivity]. Qed.

(* The ROOT as target (path []).  The theorems above quantify over every operation, hence over every path including the
   empty one; this is the instance, stated because the code treats the root specially (the only node without a parent):
   SETXATTR / REMOVEXATTR / OPEN for writing have no "upper layer present" test of their own and are refused without an upper
   layer exactly because copy_node_up -> create_upper_dir fails on the parent-less root (seed C10f changed that). *)
Theorem C10_root_no_upper : forall s k v m fl, Inv false s ->
  (exists e, fst (step (OSetxattr [] k v) s) = Err e) /\ (exists e, fst (step (ORemovexattr [] k) s) = Err e) /\
  (exists e, fst (step (OChmod [] m) s) = Err e) /\ (exists e, fst (step (OTruncate [] m) s) = Err e) /\
  (of_readonly fl = false -> exists e, fst (step (OOpen [] fl) s) = Err e) /\
  lowers (run_op (OSetxattr [] k v) s) = lowers s /\ lowers (run_op (ORemovexattr [] k) s) = lowers s /\
  log (run_op (OSetxattr [] k v) s) = log s /\ log (run_op (ORemovexattr [] k) s) = log s.
Proof. exact root_no_upper. Qed.
(* non-vacuity, and what the model answers: two lowers whose roots carry a user xattr, no upper layer; then the same requests
   with an upper layer: they change layer 0 only (the root's first backing inode is the upper directory) *)
Example C10_root_is_covered :
  let l1 := Dir 493 [("user.k1", [76; 49])] [("a", File 1 420 [104; 105] [])] in
  let l2 := Dir 457 [("user.k1", [76; 50])] [("d", Dir 493 [] [])] in
  let s := load_all (fresh None [l1; l2] 1000) in
  Inv false s /\
  fst (step (OSetxattr [] "user.k1" [112]) s) = Err EOTHER /\ fst (step (ORemovexattr [] "user.k1") s) = Err EOTHER /\
  fst (step (OChmod [] 448) s) = Err EROFS /\ fst (step (OTruncate [] 0) s) = Err EROFS /\
  fst (step (OOpen [] OF_W) s) = Err EOTHER /\ fst (step (OMkdir ["e"] 493) s) = Err EROFS /\
  fst (step (OGetxattr [] "user.k1") s) = Ok "4c31" /\
  lowers (run [OSetxattr [] "user.k1" [112]; ORemovexattr [] "user.k1"; OChmod [] 448; OMkdir ["e"] 493; OUnlink ["a"]] s) = [l1; l2] /\
  let u := Dir 488 [] [] in
  let s1 := run [OSetxattr [] "user.k1" [112]; OChmod [] 448] (load_all (fresh (Some u) [l1; l2] 1000)) in
  log s1 = [0; 0]%nat /\ lowers s1 = [l1; l2] /\ upper s1 = Some (Dir 448 [("user.k1", [112])] []).
Proof.
  cbv zeta. split; [apply (proj1 (load_all_inv false _ (fresh_inv None _ _)))|].
  vm_compute. repeat split.
Qed.

Print Assumptions C10_scan_is_merge.
Print Assumptions C10_op_refines_refuted.
Print Assumptions C10_op_refines_partial.
Print Assumptions C10_readonly_history.
Print Assumptions C10_coherent_fresh.
Print Assumptions C10_coherent_step.
Print Assumptions C10_coherent_history.
Print Assumptions C10_view_is_union.
Print Assumptions C10_view_is_union_history.
Print Assumptions C10_view_is_union_ser.
Print Assumptions C10_op_refines_direct.
Print Assumptions C10_op_refines_direct_history.
Print Assumptions C10_op_refines_whiteout.
Print Assumptions C10_op_refines_whiteout_history.
Print Assumptions C10_copy_up_dir_neutral.
Print Assumptions C10_op_refines_copyup.
Print Assumptions C10_op_refines_copyup_history.
Print Assumptions C10_op_refines_copyup_file.
Print Assumptions C10_op_refines_link.
Print Assumptions C10_op_refines_rmdir_merged.
Print Assumptions C10_op_refines_dattr.
Print Assumptions C10_op_refines_unlink_copyup.
Print Assumptions C10_op_refines_fragments.
Print Assumptions C10_op_refines_fragments_history.
Print Assumptions C10_op_refines_enoent.
Print Assumptions C10_op_refines_eexist.
Print Assumptions C10_op_refines_rmdir_fails.
Print Assumptions C10_op_refines_readonly.
Print Assumptions C10_op_refines_readable.
Print Assumptions C10_op_refines_fails_more.
Print Assumptions C10_unlink_below_nondir_disagrees.
Print Assumptions C10_unlink_lower_dir_disagrees.
Print Assumptions C10_refines_everywhere_refuted.
Print Assumptions C10_op_refines_dattr_more.
Print Assumptions C10_op_refines_rmdir_low.
Print Assumptions C10_op_refines_cu_wh.
Print Assumptions C10_op_refines_symlink.
Print Assumptions C10_op_refines_link_cu.
Print Assumptions C10_op_refines_link_file.
Print Assumptions C10_ordinary_fs_respects_teq.
Print Assumptions C10_merge_update.
Print Assumptions C10_merge_file_change.
Print Assumptions C10_fresh_invariant.
Print Assumptions C10_lowers_untouched.
Print Assumptions C10_lowers_untouched_history.
Print Assumptions C10_no_upper_ro.
Print Assumptions C10_root_no_upper.
