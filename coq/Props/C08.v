(* C08 -- an inode stays valid exactly as long as the client holds lookup references to it.
   Only statements, closed by [exact]; proofs live in Proofs/Inodes*.v. *)
From Coq Require Import List NArith Bool.
From FB Require Import Model.Inodes Proofs.Inodes Proofs.InodesNum Proofs.InodesHost.
From FB Require Lib.RustExpr Gen.RustPure Proofs.RustPure Proofs.RustPureInodes.
Import ListNotations.
Local Open Scope N_scope.

(* The full statement: for every configuration with the inode-number counter, every history
   (any host answers) from a fresh server with fewer than 2^64-3 lookups, the count of every
   non-root inode number equals the client's ledger (entries returned minus counts forgotten,
   never below zero; the root's count is of no consequence: it can never be forgotten).
   It was refuted by defect D9 until the fix cecedb6; now it is a theorem. *)
Definition C08_full : Prop := refines_full.
Theorem C08_full_holds : C08_full.
Proof. exact refines_full_holds. Qed.

Theorem C08_history : forall c root h,
  uhi c = false -> 2 + total_allocs h < U64MAX ->
  let r := run c (fresh c root) h in
  I1 (snd r) /\ IRoot (snd r) /\ ~ In RSpin (fst r) /\
  forall j, j <> ROOT_ID -> refs_of (snd r) j = spec_run (refs_of (fresh c root)) h (fst r) j.
Proof. exact run_refines_counter. Qed.

(* any numbering mode (also use_host_ino), from any state satisfying the invariant, given that
   the numbers do_lookup allocates are not in use (proved for the counter modes: C08_counter_fresh;
   still a hypothesis for use_host_ino, hence _partial) *)
Theorem C08_refines_any_mode_partial : forall c h s b,
  I1 s -> IRoot s -> hist_fresh c s h -> RB s b -> 2 <= b -> b + total_allocs h < U64MAX ->
  I1 (snd (run c s h)) /\ IRoot (snd (run c s h)) /\ ~ In RSpin (fst (run c s h)) /\
  forall j, j <> ROOT_ID -> refs_of (snd (run c s h)) j = spec_run (refs_of s) h (fst (run c s h)) j.
Proof. exact run_refines. Qed.

(* one request, every number including the root; [create_undo] names the number whose reference a
   failing create-on-existing took and gave back *)
Theorem C08_step_refines : forall c s o,
  I1 s -> op_fresh c s o ->
  I1 (snd (step c s o)) /\ fst (step c s o) <> RSpin /\
  forall j, refs_of (snd (step c s o)) j =
            spec_step_u (refs_of s) o (fst (step c s o)) (create_undo c s o) j.
Proof. exact step_refines. Qed.
Theorem C08_undo_neutral : forall f i j, j <> ROOT_ID -> f j < U64MAX -> spec_forget (spec_give f i) i 1 j = f j.
Proof. exact undo_neutral. Qed.

Theorem C08_counter_fresh : forall c s o,
  uhi c = false -> Bnd s -> next_inode s + allocs o <= U64MAX ->
  op_fresh c s o /\ Bnd (snd (step c s o)) /\
  next_inode s <= next_inode (snd (step c s o)) /\ next_inode (snd (step c s o)) <= next_inode s + allocs o.
Proof. exact step_bnd. Qed.

(* an inode number resolves iff the ledger holds a reference to it *)
Theorem C08_valid_iff : forall s i, I1 s -> (valid s i = true <-> 0 < refs_of s i).
Proof. exact valid_iff_refs. Qed.

(* the root can never be forgotten *)
Theorem C08_root_stays : forall c s o, IRoot s -> IRoot (snd (step c s o)).
Proof. exact step_root. Qed.
Theorem C08_forget_root_noop : forall c s n, forget_one c s ROOT_ID n = s.
Proof. exact forget_root_noop. Qed.

(* readdirplus takes references for exactly the delivered entries *)
Theorem C08_readdirplus_exact : forall c s ents,
  I1 s -> ents_fresh c true s ents ->
  forall j, j <> ROOT_ID ->
    refs_of s j + N.of_nat (length (fst (readdir_entries c true s ents))) <= U64MAX ->
    refs_of (snd (readdir_entries c true s ents)) j =
    refs_of s j + count_delivered (fst (readdir_entries c true s ents)) j.
Proof. exact readdirplus_exact. Qed.

(* ---- numbers and host identities (hypothesis for handle mode, [wf_t]: every file of the export yields a
   file handle, i.e. a file handle identifies the file; without handles the identity is (ino, dev, mnt)) *)
(* the key invariants hold in a fresh server and are kept by every request, in all four modes *)
Theorem C08_keys_invariant : forall c s o, KInv c s -> op_wf c o -> KInv c (snd (step c s o)).
Proof. exact step_KInv. Qed.
Theorem C08_keys_invariant_fresh : forall c root, wf_t c root -> KInv c (fresh c root).
Proof. exact fresh_KInv. Qed.
(* a host file has one inode number (the converse, one file per number, is the table being a map) *)
Theorem C08_one_number_per_identity : forall c s i j d d',
  IA s -> IFh c s -> dget s i = Some d -> dget s j = Some d' -> same_key c d d' -> i = j.
Proof. exact one_number_per_identity. Qed.
(* counter modes: a key bound to a number stays bound to it through lookups and forgets, a lookup
   returns the bound number and binds its key: a file looked up again after being forgotten gets the same number *)
Theorem C08_stable_lookup_partial : forall c s t r s' id fh i,
  uhi c = false -> is_none fh = is_none (eff_fh c t) ->
  do_lookup c s t = (r, s') -> get_inode_locked s id fh = Some i -> get_inode_locked s' id fh = Some i.
Proof. exact do_lookup_keeps_number. Qed.
Theorem C08_stable_forget_partial : forall c s i n id fh j,
  uhi c = false -> get_inode_locked s id fh = Some j -> get_inode_locked (forget_one c s i n) id fh = Some j.
Proof. exact forget_keeps_number. Qed.
Theorem C08_lookup_returns_bound_number_partial : forall c s t s' i j,
  uhi c = false -> IFh c s -> wf_t c t ->
  do_lookup c s t = (LOk j, s') ->
  (get_inode_locked s (t_id t) (eff_fh c t) = Some i -> j = i) /\
  get_inode_locked s' (t_id t) (eff_fh c t) = Some j.
Proof. exact lookup_returns_bound_number. Qed.

(* ---- use_host_ino modes (number = unique_id << 47 | host ino).  Host hypotheses ([hist_host]): every host
   inode number of the export is <= MAX_HOST_INO (virtual numbers for larger ones are modelled but not covered),
   in handle mode every file yields a file handle and the host does not reuse the inode number of a file that
   is still referenced under another handle ([no_reuse]; automatic without handles: C08_no_reuse_nohandle). *)
Theorem C08_hostino_fresh : forall c s t,
  uhi c = true -> HI s -> KInv c s -> small_t t -> wf_t c t -> no_reuse c s t -> fresh_alloc c s t.
Proof. exact hostino_fresh. Qed.
Theorem C08_hostino_step : forall c s o, uhi c = true -> HInvs c s -> op_host c s o ->
  op_fresh c s o /\ HInvs c (snd (step c s o)).
Proof. exact step_host. Qed.
Theorem C08_no_reuse_nohandle : forall c s t, ifh c = false -> IFh c s -> no_reuse c s t.
Proof. exact no_reuse_nohandle. Qed.
Theorem C08_history_hostino : forall c root h,
  uhi c = true -> wf_t c root -> hist_host c (fresh c root) h -> 2 + total_allocs h < U64MAX ->
  let r := run c (fresh c root) h in
  I1 (snd r) /\ IRoot (snd r) /\ ~ In RSpin (fst r) /\
  forall j, j <> ROOT_ID -> refs_of (snd r) j = spec_run (refs_of (fresh c root)) h (fst r) j.
Proof. exact run_refines_hostino. Qed.
(* without file handles [no_reuse] is not needed: full strength *)
Theorem C08_history_hostino_nohandle : forall c root h,
  uhi c = true -> ifh c = false -> small_t root -> hist_host0 c h -> 2 + total_allocs h < U64MAX ->
  let r := run c (fresh c root) h in
  I1 (snd r) /\ IRoot (snd r) /\ ~ In RSpin (fst r) /\
  forall j, j <> ROOT_ID -> refs_of (snd r) j = spec_run (refs_of (fresh c root)) h (fst r) j.
Proof. exact run_refines_hostino_nohandle. Qed.
(* with file handles AND use_host_ino the statement without [no_reuse] is refuted (known finding): a new file that
   got the recycled host inode number of an unlinked, still referenced file gets the same number, the live entry is
   overwritten.  (In the counter modes no such hypothesis exists: C08_full_holds, C08_one_number_per_identity --
   there the file handle, which carries the generation, is the identity.)  C08_history_hostino is the partial form. *)
Definition C08_hostino_handles_full : Prop := hostino_handles_full.
Theorem C08_hostino_handles_refuted : ~ C08_hostino_handles_full.
Proof. exact hostino_handles_refuted. Qed.
Example C08_inode_number_reuse_witness :
  fst (run (mkCfg true true) (fresh (mkCfg true true) ru_root) ru_hist) = [RIno 140737488355430; RIno 140737488355430] /\
  refs_of (snd (run (mkCfg true true) (fresh (mkCfg true true) ru_root) ru_hist)) 140737488355430 = 1 /\
  fst (run (mkCfg true false) (fresh (mkCfg true false) ru_root) ru_hist) = [RIno 2; RIno 3] /\
  refs_of (snd (run (mkCfg true false) (fresh (mkCfg true false) ru_root) ru_hist)) 2 = 1 /\
  refs_of (snd (run (mkCfg true false) (fresh (mkCfg true false) ru_root) ru_hist)) 3 = 1.
Proof. exact ru_witness_shape. Qed.
Example C08_hostino_nonvacuous :
  hist_host hi_cfg (fresh hi_cfg d9_root) hi_hist /\
  fst (run hi_cfg (fresh hi_cfg d9_root) hi_hist) =
    [RIno 140737488355430; RUnit; RIno 140737488355430; RErr EBADF; REnts [(140737488355430, true); (140737488355429, false)]].
Proof. exact hi_hist_ok. Qed.

(* witnesses / non-vacuity *)
Example C08_d9_fixed_witness :
  fst (run d9_cfg (fresh d9_cfg d9_root) d9_hist) = [RErr EBADF] /\
  refs_of (snd (run d9_cfg (fresh d9_cfg d9_root) d9_hist)) 2 = 0 /\
  valid (snd (run d9_cfg (fresh d9_cfg d9_root) d9_hist)) 2 = false /\
  create_undo d9_cfg (fresh d9_cfg d9_root) (OCreate 1 (Some d9_fifo) true false) = Some 2.
Proof. exact d9_witness_shape. Qed.
Example C08_nonvacuous :
  2 + total_allocs ex_hist < U64MAX /\
  fst (run d9_cfg (fresh d9_cfg d9_root) ex_hist) =
    [RIno 2; RIno 2; REnts [(2, true); (3, false)]; RUnit; RIno 2; RErr EBADF; RUnit] /\
  refs_of (snd (run d9_cfg (fresh d9_cfg d9_root) ex_hist)) 2 = 0 /\
  refs_of (snd (run d9_cfg (fresh d9_cfg d9_root) ex_hist)) 3 = 0 /\
  refs_of (snd (run d9_cfg (fresh d9_cfg d9_root) ex_hist)) 1 = 2.
Proof. exact ex_hist_ok. Qed.

(* ---- tie to the source text (Gen/RustPure.v is re-translated from src/passthrough/util.rs on every run): the bit
   packing of UniqueInodeGenerator::get_unique_inode (unique id << 47 | host inode, or | next virtual inode | 1 << 55
   above MAX_HOST_INO) is the model's [enc_ino] over the same case split *)
Theorem C08_src_unique_inode : forall u ino nv, u < 256 -> ino < 18446744073709551616 -> nv < 18446744073709551616 ->
  RustExpr.eval_fn RustExpr.Debug RustPure.unique_inode_src
    [RustExpr.VInt RustExpr.U64 ino; RustExpr.VInt RustExpr.U64 nv; RustExpr.VInt RustExpr.U8 u] =
  RustPureInodes.unique_inode_spec u ino nv.
Proof. exact RustPureInodes.src_unique_inode. Qed.
Theorem C08_src_unique_inode_model : forall s id u,
  mget pair_eqb (uids s) (hid_dev id, hid_mnt id) = Some u ->
  match fst (get_unique_inode s id) with
  | Some x => RustPureInodes.unique_inode_spec u (hid_ino id) (next_virt s) =
              RustExpr.Val (RustExpr.VOk (RustExpr.VInt RustExpr.U64 x))
  | None => RustPureInodes.unique_inode_spec u (hid_ino id) (next_virt s) =
            RustPureInodes.err_other
  end.
Proof. exact RustPureInodes.unique_inode_spec_model. Qed.

Print Assumptions C08_full_holds.
Print Assumptions C08_history.
Print Assumptions C08_undo_neutral.
Print Assumptions C08_refines_any_mode_partial.
Print Assumptions C08_step_refines.
Print Assumptions C08_counter_fresh.
Print Assumptions C08_valid_iff.
Print Assumptions C08_root_stays.
Print Assumptions C08_forget_root_noop.
Print Assumptions C08_readdirplus_exact.
Print Assumptions C08_keys_invariant.
Print Assumptions C08_keys_invariant_fresh.
Print Assumptions C08_one_number_per_identity.
Print Assumptions C08_stable_lookup_partial.
Print Assumptions C08_stable_forget_partial.
Print Assumptions C08_lookup_returns_bound_number_partial.
Print Assumptions C08_hostino_fresh.
Print Assumptions C08_hostino_step.
Print Assumptions C08_no_reuse_nohandle.
Print Assumptions C08_history_hostino.
Print Assumptions C08_history_hostino_nohandle.
Print Assumptions C08_hostino_handles_refuted.
Print Assumptions C08_src_unique_inode.
Print Assumptions C08_src_unique_inode_model.
