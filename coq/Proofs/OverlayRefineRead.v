(* Per-operation refinement, the READ-ONLY operations: lookup, getattr, readdir, read, readlink, open(read-only flag word),
   getxattr (name not an opaque marker), listxattr answer - error code or payload - as the ordinary file system [fs_apply] does
   on the client's view, and change nothing.  (Proofs/OverlayReadOnly.v has the view part for every state; the answers need the
   coherence invariant: the walk reaches the node of the path, its first backing inode is the top-most candidate, and a loaded
   directory has a child exactly for the names the union shows.)  The invisible paths are Proofs/OverlayRefineFail.v. *)
From Coq Require Import List String Arith NArith Bool Lia Sorted.
From FB Require Import Model.Overlay Proofs.OverlayInv Proofs.OverlayScan Proofs.OverlayRestart
  Proofs.OverlayReadOnly Proofs.OverlayCoh Proofs.OverlayCohView Proofs.OverlayCopyUp Proofs.OverlayCohOps
  Proofs.OverlayCohSteps Proofs.OverlayRefineTeq Proofs.OverlayRefineMerge Proofs.OverlayRefineRun Proofs.OverlayRefine
  Proofs.OverlayRefineWh Proofs.OverlayRefineCu Proofs.OverlayRefineFail.
Import ListNotations.
Local Open Scope N_scope.

(* an operation that left the layers alone refines the ordinary file system as soon as the answers agree on the union
   (generalises [refine_unchanged] to successful answers) *)
Lemma refine_same s o v r s' : Coherent s -> coh_op o = true -> view (load_all s) = Some v ->
  step o s = (r, s') -> upper s' = upper s -> lowers s' = lowers s ->
  (forall mv, merge (all_layers (upper s) (lowers s)) = Some mv ->
     exists r', fs_apply o (mkFs mv (next_ino s)) = (r', mkFs mv (next_ino s)) /\ res_same r r') ->
  refines_at s o v.
Proof.
  intros HC Ho Hv Hrun Hu' Hl' Hfs. unfold refines_at, run_op. rewrite Hrun. cbn [fst snd].
  destruct (refine_from_disk s o v _ s' HC Ho Hv Hrun) as [R T]; [|cbv zeta; auto].
  intros mv Hm. destruct (Hfs mv Hm) as (r' & E & Hr). rewrite E. cbn [fst snd f_tree]. split; [exact Hr|]. rewrite Hu', Hl', Hm. cbn [oteq].
  apply teq_refl. pose proof (coherent_layers_ok s HC) as Hok. eapply resolve_wf; [|exact Hm]. eapply Forall_impl; [|exact Hok]. intros t [A _]. exact A.
Qed.

(* ------------------------------------------------------------------ visible paths *)
Lemma visb_snoc L (p : path) (c : name) : visb L [] (p ++ [c]) = visb L [] p &&
  (match mstack L p with Dir _ _ _ :: _ => true | _ => false end &&
   match mstack L (p ++ [c]) with t :: _ => negb (is_whT t) | [] => false end).
Proof. rewrite !visb_vis_rel. cbn [mstack]. apply vis_rel_snoc. Qed.
Lemma vis_head u ls (p : path) : is_whT u = false -> visb (u :: ls) [] p = true ->
  exists t r, mstack (u :: ls) p = t :: r /\ is_whT t = false.
Proof.
  intros Hu Hv. destruct p as [|a p']; [cbn [mstack]; eauto|].
  destruct (@exists_last _ (a :: p')) as (q & c & E); [discriminate|]. rewrite E in *.
  rewrite visb_snoc in Hv. apply andb_prop in Hv. destruct Hv as [_ Hv]. apply andb_prop in Hv. destruct Hv as [_ Hv].
  destruct (mstack (u :: ls) (q ++ [c])) as [|t r]; [discriminate|]. exists t, r. split; [reflexivity|]. apply negb_true_iff. exact Hv.
Qed.
Lemma tget_merge_vis u ls (p : path) t0 rest f mv : Forall wf (u :: ls) -> visb (u :: ls) [] p = true ->
  mstack (u :: ls) p = t0 :: rest -> is_whT t0 = false -> DEPTH = (S f + List.length p)%nat -> merge (u :: ls) = Some mv ->
  tget mv p = resolve (S f) (t0 :: rest).
Proof.
  intros W Hv Hms Hw Hd Hm. rewrite visb_vis_rel in Hv. cbn [mstack] in Hv.
  destruct (tget_resolve_vis p f (u :: ls) W Hv) as (r & Hr & Ht); [rewrite Hms; eauto|].
  unfold merge in Hm. rewrite Hd, Hr in Hm. inversion Hm; subst r. rewrite Ht, Hms. reflexivity.
Qed.

(* ------------------------------------------------------------------ reaching the node of a visible path *)
Lemma target_run (p : path) s u t0 rest : Coherent s -> upper s = Some u -> visp (u :: lowers s) [] p ->
  mstack (u :: lowers s) p = t0 :: rest -> is_whT t0 = false ->
  exists s1 s2 n2 r rs, walk p s = (Ok tt, s1) /\ Coherent s1 /\ sd s s1 /\
    lookup_node p None s1 = (Ok p, s2) /\ Coherent s2 /\ sd s s2 /\ nget p (root s2) = Some n2 /\ n_wh n2 = false /\
    n_reals n2 = r :: rs /\ real_tree s2 r = Some t0 /\ node_stat s2 n2 = Some t0 /\ (is_dirT t0 = true -> n_loaded n2 = true).
Proof.
  intros HC Hu Hvis Hms Hw.
  destruct (walk_vis_run u p [] s (root s) HC Hu eq_refl Hvis) as (s1 & n1 & E1 & HC1 & Hsd1 & Hg1). cbn [app] in Hg1.
  pose proof Hsd1 as (U1 & L1 & _). assert (Hu1 : upper s1 = Some u) by congruence.
  assert (Hst1 : node_stat s1 n1 = Some t0) by (apply (node_stat_head s1 u p n1 _ rest HC1 Hu1 Hg1); rewrite L1; exact Hms).
  destruct (node_first_real s1 p n1 HC1 Hg1) as (r1 & rs1 & t1 & Er1 & _ & Hst1' & _ & _ & _ & Hd1 & Hw1).
  assert (t1 = t0) by congruence. subst t1. rewrite Hw in Hw1.
  destruct (lookup_run p s1 n1 HC1 Hg1 Hw1) as (s2 & n2 & HC2 & Hsd2 & Hg2 & Hw2 & Hr2 & Hld2 & Hlk).
  pose proof (sd_trans _ _ _ Hsd1 Hsd2) as Hsd02. pose proof Hsd02 as (U2 & L2 & _). assert (Hu2 : upper s2 = Some u) by congruence.
  assert (Hst2 : node_stat s2 n2 = Some t0) by (apply (node_stat_head s2 u p n2 _ rest HC2 Hu2 Hg2); rewrite L2; exact Hms).
  destruct (node_first_real s2 p n2 HC2 Hg2) as (r & rs & t2 & Er & Et & Hst2' & Hp & _).
  assert (t2 = t0) by congruence. subst t2.
  exists s1, s2, n2, r, rs. unfold walk. split; [exact E1|]. split; [exact HC1|]. split; [exact Hsd1|]. split; [exact (Hlk None)|].
  split; [exact HC2|]. split; [exact Hsd02|]. split; [exact Hg2|]. split; [exact Hw2|]. split; [exact Er|].
  split; [rewrite real_tree_ent, Hp; exact Et|]. split; [exact Hst2|].
  intros Hdt. apply Hld2. rewrite Er1. cbn [first_dir]. rewrite Hd1. exact Hdt.
Qed.

(* ------------------------------------------------------------------ the answers of the operations that look at one node *)
Definition ro_ans (o : op) (t0 : tree) : option (path * res string) :=
  match o with
  | OGetattr p => Some (p, Ok (kind_of t0 ++ ":" ++ hexN (size_of t0))%string)
  | ORead p off len =>
      Some (p, match t0 with
               | File _ _ d _ => Ok (hexbytes (firstn (N.to_nat len) (skipn (N.to_nat off) d)))
               | Dir _ _ _ => Err EISDIR
               | _ => Err EBADF
               end)
  | OReadlink p => Some (p, match t0 with Lnk t => Ok (hexbytes t) | _ => Err EINVAL end)
  | OOpen p fl =>
      if of_readonly fl then Some (p, match t0 with File _ _ _ _ | Dir _ _ _ => Ok ""%string | _ => Err EBADF end) else None
  | OGetxattr p k => Some (p, match afind k (xs_of t0) with Some v => Ok (hexbytes v) | None => Err ENODATA end)
  | OListxattr p => Some (p, Ok (sjoin (map fst (ssort (user_xs (xs_of t0))))))
  | _ => None
  end.

Lemma do_open_ro_run (p : path) fl s1 s2 n2 r rs t0 : of_readonly fl = true ->
  lookup_node p None s1 = (Ok p, s2) -> nget p (root s2) = Some n2 -> n_wh n2 = false -> n_reals n2 = r :: rs -> real_tree s2 r = Some t0 ->
  do_open p fl s1 = (match t0 with File _ _ _ _ | Dir _ _ _ => Ok r | _ => Err EBADF end, s2).
Proof.
  intros Hro Elk Hg Hw Er Hrt. unfold do_open. rewrite (bind_ok _ _ _ _ _ Elk), (bind_ok _ _ _ _ _ (get_node_ok p s2 n2 Hg)), Hw, Hro.
  assert (Er0 : ret tt s2 = (Ok tt, s2)) by reflexivity. rewrite (bind_ok _ _ _ _ _ Er0), (bind_ok _ _ _ _ _ (get_node_ok p s2 n2 Hg)).
  unfold first_real. rewrite Er. unfold bind at 1. cbn [ret]. unfold bind at 1. rewrite Hrt.
  destruct t0 as [m x ch|i m d x|tg|]; try reflexivity.
  assert (Htr : of_trunc fl = false) by (destruct (of_trunc fl) eqn:E; [rewrite (of_trunc_not_readonly fl E) in Hro; discriminate|reflexivity]).
  rewrite Htr. reflexivity.
Qed.

Theorem step_ro_run o (p : path) a s u t0 rest : ro_ans o t0 = Some (p, a) ->
  Coherent s -> upper s = Some u -> visp (u :: lowers s) [] p -> mstack (u :: lowers s) p = t0 :: rest -> is_whT t0 = false ->
  exists s', step o s = (a, s') /\ sd s s'.
Proof.
  intros Ho HC Hu Hvis Hms Hw.
  destruct (target_run p s u t0 rest HC Hu Hvis Hms Hw) as (s1 & s2 & n2 & r & rs & E1 & HC1 & Hsd1 & Elk & HC2 & Hsd2 & Hg2 & Hw2 & Er & Hrt & Hst & Hld).
  assert (Eft : first_tree p s2 = (Ok (r, t0), s2)).
  { unfold first_tree. rewrite (bind_ok _ _ _ _ _ (get_node_ok p s2 n2 Hg2)). unfold first_real. rewrite Er. unfold bind, ret. rewrite Hrt. reflexivity. }
  assert (Enc : node_checked p s1 = (Ok tt, s2)).
  { unfold node_checked. rewrite (bind_ok _ _ _ _ _ Elk), (bind_ok _ _ _ _ _ (get_node_ok p s2 n2 Hg2)), Hw2. reflexivity. }
  exists s2. split; [|exact Hsd2].
  destruct o; cbn [ro_ans] in Ho; try discriminate; cbn [step].
  - (* getattr *) inversion Ho; subst p0 a; clear Ho.
    rewrite (bind_ok _ _ _ _ _ E1), (bind_ok _ _ _ _ _ Elk), (bind_ok _ _ _ _ _ Eft). reflexivity.
  - (* read *) inversion Ho; subst p0 a; clear Ho.
    rewrite (bind_ok _ _ _ _ _ E1). pose proof (do_open_ro_run p OF_R s1 s2 n2 r rs t0 eq_refl Elk Hg2 Hw2 Er Hrt) as Eo.
    destruct t0 as [m x ch|i m d x|tg|]; try discriminate.
    + rewrite (bind_ok _ _ _ _ _ Eo), Hrt. reflexivity.
    + rewrite (bind_ok _ _ _ _ _ Eo), Hrt. reflexivity.
    + rewrite (bind_err _ _ _ _ _ Eo). reflexivity.
  - (* readlink *) inversion Ho; subst p0 a; clear Ho.
    rewrite (bind_ok _ _ _ _ _ E1), (bind_ok _ _ _ _ _ Enc), (bind_ok _ _ _ _ _ Eft). cbn [snd]. destruct t0; reflexivity.
  - (* open, read-only flag word *) destruct (of_readonly fl) eqn:Hro; [|discriminate]. inversion Ho; subst p0 a; clear Ho.
    rewrite (bind_ok _ _ _ _ _ E1). pose proof (do_open_ro_run p fl s1 s2 n2 r rs t0 Hro Elk Hg2 Hw2 Er Hrt) as Eo.
    destruct t0 as [m x ch|i m d x|tg|]; try discriminate.
    + rewrite (bind_ok _ _ _ _ _ Eo). reflexivity.
    + rewrite (bind_ok _ _ _ _ _ Eo). reflexivity.
    + rewrite (bind_err _ _ _ _ _ Eo). reflexivity.
  - (* getxattr *) inversion Ho; subst p0 a; clear Ho.
    rewrite (bind_ok _ _ _ _ _ E1), (bind_ok _ _ _ _ _ Enc), (bind_ok _ _ _ _ _ Eft). cbn [snd]. destruct (afind k (xs_of t0)); reflexivity.
  - (* listxattr *) inversion Ho; subst p0 a; clear Ho.
    rewrite (bind_ok _ _ _ _ _ E1), (bind_ok _ _ _ _ _ Enc), (bind_ok _ _ _ _ _ Eft). reflexivity.
Qed.

(* what the ordinary file system answers on the union's entry *)
Lemma user_xs_idem x : user_xs (user_xs x) = user_xs x.
Proof.
  unfold user_xs. induction x as [|[a y] x IH]; cbn [filter fst]; [reflexivity|].
  destruct (negb (is_opq_name a)) eqn:E; cbn [filter fst]; rewrite ?E, IH; reflexivity.
Qed.
Lemma fs_apply_ro o t0 rest (p : path) a f mv nx : ro_ans o t0 = Some (p, a) -> is_whT t0 = false ->
  match o with OGetxattr _ k => is_opq_name k = false | _ => True end ->
  tget mv p = resolve (S f) (t0 :: rest) ->
  exists r', fs_apply o (mkFs mv nx) = (r', mkFs mv nx) /\ res_same a r'.
Proof.
  intros Ho Hw Hk Ht.
  destruct o; cbn [ro_ans] in Ho; try discriminate; cbn [fs_apply f_tree].
  - inversion Ho; subst p0 a; clear Ho. rewrite Ht. destruct t0 as [m x ch|i m d x|tg|]; try discriminate; cbn [resolve hide_xs]; eexists; split; reflexivity.
  - inversion Ho; subst p0 a; clear Ho. rewrite Ht. destruct t0 as [m x ch|i m d x|tg|]; try discriminate; cbn [resolve hide_xs]; eexists; split; reflexivity.
  - inversion Ho; subst p0 a; clear Ho. rewrite Ht. destruct t0 as [m x ch|i m d x|tg|]; try discriminate; cbn [resolve hide_xs]; eexists; split; reflexivity.
  - destruct (of_readonly fl) eqn:Hro; [|discriminate]. inversion Ho; subst p0 a; clear Ho. rewrite Ht.
    assert (Htr : of_trunc fl = false) by (destruct (of_trunc fl) eqn:E; [rewrite (of_trunc_not_readonly fl E) in Hro; discriminate|reflexivity]).
    destruct t0 as [m x ch|i m d x|tg|]; try discriminate; cbn [resolve hide_xs]; rewrite ?Htr, ?Hro; eexists; split; reflexivity.
  - inversion Ho; subst p0 a; clear Ho. rewrite Ht.
    destruct t0 as [m x ch|i m d x|tg|]; try discriminate; cbn [resolve hide_xs xs_of].
    + rewrite (afind_user_xs k x Hk). destruct (afind k x); eexists; split; reflexivity.
    + rewrite (afind_user_xs k x Hk). destruct (afind k x); eexists; split; reflexivity.
    + eexists; split; reflexivity.
  - inversion Ho; subst p0 a; clear Ho. rewrite Ht.
    destruct t0 as [m x ch|i m d x|tg|]; try discriminate; cbn [resolve hide_xs xs_of]; eexists; split; reflexivity.
Qed.
Lemma ro_ans_coh o t0 p a : ro_ans o t0 = Some (p, a) -> coh_op o = true.
Proof. destruct o; cbn [ro_ans coh_op]; try discriminate; reflexivity. Qed.

Theorem refines_ro s o (p : path) a u t0 rest v : ro_ans o t0 = Some (p, a) ->
  match o with OGetxattr _ k => is_opq_name k = false | _ => True end ->
  Coherent s -> upper s = Some u -> visb (u :: lowers s) [] p = true -> mstack (u :: lowers s) p = t0 :: rest -> is_whT t0 = false ->
  (List.length p < DEPTH)%nat -> view (load_all s) = Some v ->
  refines_at s o v /\ upper (run_op o s) = upper s.
Proof.
  intros Ho Hk HC Hu Hvis Hms Hw Hlen Hv.
  destruct (step_ro_run o p a s u t0 rest Ho HC Hu (visb_visp _ _ _ Hvis) Hms Hw) as (s' & Hrun & (U' & L' & _)).
  split; [|unfold run_op; rewrite Hrun; exact U'].
  apply (refine_same s o v a s' HC (ro_ans_coh _ _ _ _ Ho) Hv Hrun U' L').
  intros mv Hm. rewrite Hu in Hm. cbn [all_layers] in Hm.
  assert (Hd : exists f, DEPTH = (S f + List.length p)%nat) by (exists (DEPTH - 1 - List.length p)%nat; lia). destruct Hd as [f Hd].
  pose proof (coherent_wf_layers s u HC Hu) as W.
  apply (fs_apply_ro o t0 rest p a f mv (next_ino s) Ho Hw Hk). exact (tget_merge_vis u (lowers s) p t0 rest f mv W Hvis Hms Hw Hd Hm).
Qed.

(* ------------------------------------------------------------------ READDIR *)
Lemma keys_filter {A} (g : string * A -> bool) (l : list (string * A)) : NoDup (map fst l) -> NoDup (map fst (filter g l)).
Proof.
  induction l as [|kv l IH]; intros H; cbn [filter map]; [constructor|]. cbn [map] in H. inversion H as [|? ? Hn H']; subst.
  destruct (g kv); cbn [map]; [|apply IH; exact H']. constructor; [|apply IH; exact H'].
  intros Hin. apply Hn. apply in_map_iff in Hin. destruct Hin as (y & E & Hy). apply filter_In in Hy. apply in_map_iff. exists y. split; [exact E|exact (proj1 Hy)].
Qed.
Lemma in_keys_afind {A} k (l : list (string * A)) : In k (map fst l) <-> afind k l <> None.
Proof.
  pose proof (afind_none_notin k l) as H. destruct (afind k l) as [a|] eqn:E.
  - split; [discriminate|]. intros _. apply afind_In in E. apply (in_map fst) in E. exact E.
  - split; [intros Hin; exfalso; apply (proj1 H eq_refl); exact Hin|intros Hn; exfalso; apply Hn; reflexivity].
Qed.
Lemma names_sorted_eq {A B} (l1 : list (string * A)) (l2 : list (string * B)) : NoDup (map fst l1) -> NoDup (map fst l2) ->
  (forall k, In k (map fst l1) <-> In k (map fst l2)) -> map fst (ssort l1) = map fst (ssort l2).
Proof.
  intros N1 N2 K. destruct (ssort_spec l1 N1) as (S1 & D1 & K1 & _). destruct (ssort_spec l2 N2) as (S2 & D2 & K2 & _).
  apply sorted_unique; auto. intros k. rewrite K1, K2. apply K.
Qed.

Theorem step_readdir_run (p : path) s u m x ch rest (chs : list (name * tree)) : Coherent s -> upper s = Some u -> visp (u :: lowers s) [] p ->
  mstack (u :: lowers s) p = Dir m x ch :: rest -> NoDup (map fst chs) ->
  (forall k, afind k chs = None <-> match mstack (u :: lowers s) (p ++ [k]) with t :: _ => is_whT t = true | [] => True end) ->
  exists s', step (OReaddir p) s = (Ok (sjoin (map fst (ssort chs))), s') /\ sd s s'.
Proof.
  intros HC Hu Hvis Hms Hnd Hchs.
  destruct (target_run p s u _ rest HC Hu Hvis Hms eq_refl) as (s1 & s2 & n2 & r & rs & E1 & HC1 & Hsd1 & Elk & HC2 & Hsd2 & Hg2 & Hw2 & Er & Hrt & Hst & Hld).
  specialize (Hld eq_refl). pose proof Hsd2 as (U2 & L2 & _). assert (Hu2 : upper s2 = Some u) by congruence.
  exists s2. split; [|exact Hsd2]. cbn [step].
  rewrite (bind_ok _ _ _ _ _ E1), (bind_ok _ _ _ _ _ Elk), (bind_ok _ _ _ _ _ (get_node_ok p s2 n2 Hg2)), Hw2.
  assert (Es : stat_node n2 s2 = (Ok (Dir m x ch), s2)) by (unfold stat_node; rewrite Hst; reflexivity).
  rewrite (bind_ok _ _ _ _ _ Es). cbn [is_dirT negb]. unfold ret. f_equal. f_equal. f_equal.
  pose proof HC2 as (_ & _ & HCT2). pose proof (HCT2 p n2 Hg2) as N2. cbn [app] in N2.
  destruct (ok_ld _ _ _ _ N2 Hld) as (_ & _ & Kids). pose proof (ok_nodup _ _ _ _ N2) as Hnd2.
  apply names_sorted_eq; [apply keys_filter; exact Hnd2|exact Hnd|]. intros k. rewrite (in_keys_afind k chs).
  (* the cached child of a name and the first candidate of that name *)
  assert (Hchild : forall c, afind k (n_ch n2) = Some c -> exists t r', mstack (u :: lowers s) (p ++ [k]) = t :: r' /\ n_wh c = is_whT t).
  { intros c Hc. pose proof (nget_snoc p k (root s2) n2 c Hg2 Hc) as Hgk.
    destruct (lstack (shp s2) (List.length (lowers s2)) (p ++ [k])) as [|i0 ir] eqn:El.
    { exfalso. rewrite lstack_snoc in El. apply Kids in El. congruence. }
    pose proof (lstack_rel s2 u (p ++ [k]) Hu2) as R. rewrite El, L2 in R.
    destruct (mstack (u :: lowers s) (p ++ [k])) as [|t r'] eqn:Em; [inversion R|]. assert (He : entR s2 (p ++ [k]) i0 t) by (inversion R; assumption).
    destruct (cand_node s2 _ c i0 ir t HC2 Hgk El He) as (kr & krs & _ & _ & _ & _ & _ & Hkw & _). eauto. }
  split.
  - intros Hin. apply in_map_iff in Hin. destruct Hin as ([k' c] & E & Hf). cbn [fst] in E. subst k'. apply filter_In in Hf. destruct Hf as [Hin Hnw]. cbn [snd] in Hnw.
    destruct (Hchild c (afind_In_nodup k c _ Hnd2 Hin)) as (t & r' & Em & Hwc). intros Hnone. apply Hchs in Hnone. rewrite Em in Hnone.
    rewrite Hwc, Hnone in Hnw. discriminate.
  - intros Hsome. destruct (afind k (n_ch n2)) as [c|] eqn:Ec.
    + destruct (Hchild c eq_refl) as (t & r' & Em & Hwc). apply in_map_iff. exists (k, c). split; [reflexivity|]. apply filter_In. split; [apply afind_In; exact Ec|].
      cbn [snd]. rewrite Hwc. destruct (is_whT t) eqn:Ew; [|reflexivity]. exfalso. apply Hsome. apply Hchs. rewrite Em. exact Ew.
    + exfalso. apply Hsome. apply Hchs. apply Kids in Ec. rewrite <- lstack_snoc in Ec.
      pose proof (lstack_rel s2 u (p ++ [k]) Hu2) as R. unfold path, name in *. rewrite Ec, L2 in R. inversion R. exact I.
Qed.

Theorem refines_readdir s (p : path) u t0 rest v :
  Coherent s -> upper s = Some u -> visb (u :: lowers s) [] p = true -> mstack (u :: lowers s) p = t0 :: rest -> is_whT t0 = false ->
  (S (List.length p) < DEPTH)%nat -> view (load_all s) = Some v ->
  refines_at s (OReaddir p) v /\ upper (run_op (OReaddir p) s) = upper s.
Proof.
  intros HC Hu Hvis Hms Hw Hlen Hv.
  assert (Hd : exists f, DEPTH = (S (S f) + List.length p)%nat) by (exists (DEPTH - 2 - List.length p)%nat; lia). destruct Hd as [f Hd].
  pose proof (coherent_wf_layers s u HC Hu) as W.
  assert (Wg : Forall wf (t0 :: rest)) by (rewrite <- Hms; apply mstack_wf; exact W).
  destruct (is_dirT t0) eqn:Edir.
  - destruct t0 as [m x ch| | |]; try discriminate.
    destruct (resolve_dir_spec (S f) m x ch rest Wg) as (chs & Er & N & K).
    assert (Hchs : forall k, afind k chs = None <-> match mstack (u :: lowers s) (p ++ [k]) with t :: _ => is_whT t = true | [] => True end).
    { intros k. rewrite K, mstack_snoc, Hms. destruct (ents k (dir_stack (Dir m x ch :: rest))) as [|t l]; [cbn; tauto|].
      destruct t; cbn [resolve is_whT hide_xs]; split; intros H; try discriminate; reflexivity. }
    destruct (step_readdir_run p s u m x ch rest chs HC Hu (visb_visp _ _ _ Hvis) Hms N Hchs) as (s' & Hrun & (U' & L' & _)).
    split; [|unfold run_op; rewrite Hrun; exact U'].
    apply (refine_same s (OReaddir p) v _ s' HC eq_refl Hv Hrun U' L').
    intros mv Hm. rewrite Hu in Hm. cbn [all_layers] in Hm.
    pose proof (tget_merge_vis u (lowers s) p _ rest (S f) mv W Hvis Hms eq_refl Hd Hm) as Ht. rewrite Er in Ht.
    cbn [fs_apply f_tree]. rewrite Ht. eexists. split; reflexivity.
  - (* not a directory: ENOTDIR on both sides *)
    destruct (target_run p s u t0 rest HC Hu (visb_visp _ _ _ Hvis) Hms Hw) as (s1 & s2 & n2 & r & rs & E1 & HC1 & Hsd1 & Elk & HC2 & Hsd2 & Hg2 & Hw2 & Er & Hrt & Hst & Hld).
    assert (Hrun : step (OReaddir p) s = (Err ENOTDIR, s2)).
    { cbn [step]. rewrite (bind_ok _ _ _ _ _ E1), (bind_ok _ _ _ _ _ Elk), (bind_ok _ _ _ _ _ (get_node_ok p s2 n2 Hg2)), Hw2.
      assert (Es : stat_node n2 s2 = (Ok t0, s2)) by (unfold stat_node; rewrite Hst; reflexivity).
      rewrite (bind_ok _ _ _ _ _ Es), Edir. reflexivity. }
    destruct Hsd2 as (U' & L' & _). split; [|unfold run_op; rewrite Hrun; exact U'].
    apply (refine_same s (OReaddir p) v _ s2 HC eq_refl Hv Hrun U' L').
    intros mv Hm. rewrite Hu in Hm. cbn [all_layers] in Hm.
    pose proof (tget_merge_vis u (lowers s) p _ rest (S f) mv W Hvis Hms Hw Hd Hm) as Ht.
    cbn [fs_apply f_tree]. rewrite Ht. destruct t0; try discriminate; cbn [resolve hide_xs]; eexists; split; reflexivity.
Qed.

(* ------------------------------------------------------------------ LOOKUP *)
Theorem refines_lookup s (pp : path) (nm : name) u v :
  Coherent s -> upper s = Some u -> visb (u :: lowers s) [] pp = true ->
  (List.length (pp ++ [nm]) < DEPTH)%nat -> view (load_all s) = Some v ->
  refines_at s (OLookup (pp ++ [nm])) v /\ upper (run_op (OLookup (pp ++ [nm])) s) = upper s.
Proof.
  intros HC Hu Hvis Hlen Hv. set (p := pp ++ [nm]) in *. set (L := u :: lowers s) in *.
  pose proof (coherent_layers_ok s HC) as Hok. rewrite Hu in Hok. cbn [all_layers] in Hok.
  assert (Hud : is_whT u = false) by (destruct (Forall_inv Hok) as [_ Hd]; destruct u; try discriminate; reflexivity).
  pose proof (coherent_wf_layers s u HC Hu) as W.
  destruct (vis_head u (lowers s) pp Hud Hvis) as (tp & rp & Hmp & Hwp). fold L in Hmp.
  destruct (walk_vis_run u pp [] s (root s) HC Hu eq_refl (visb_visp _ _ _ Hvis)) as (s1 & n1 & E1 & HC1 & Hsd1 & Hg1). cbn [app] in Hg1.
  pose proof Hsd1 as (U1 & L1 & _). assert (Hu1 : upper s1 = Some u) by congruence.
  assert (Hd : exists f, DEPTH = (S f + List.length p)%nat) by (exists (DEPTH - 1 - List.length p)%nat; lia). destruct Hd as [f Hd].
  destruct (visb L [] p) eqn:Evp.
  - (* the name is visible *)
    unfold p in Evp. rewrite visb_snoc in Evp. apply andb_prop in Evp. destruct Evp as [_ Evp]. apply andb_prop in Evp. destruct Evp as [Ed Ec].
    fold L in Hmp. rewrite Hmp in Ed. destruct tp as [m x ch| | |]; try discriminate.
    destruct (mstack L (pp ++ [nm])) as [|t r] eqn:Hmc; [discriminate|]. apply negb_true_iff in Ec.
    assert (Hst1 : node_stat s1 n1 = Some (Dir m x ch)) by (apply (node_stat_head s1 u pp n1 _ rp HC1 Hu1 Hg1); rewrite L1; exact Hmp).
    destruct (do_lookup_vis_run pp nm s1 u n1 m x ch t r HC1 Hu1 Hg1 Hst1) as (s2 & n & E & HC2 & Hsd2 & Hn); [rewrite L1; exact Hmc|exact Ec|].
    assert (Hrun : step (OLookup p) s = (Ok (kind_of t), s2)).
    { cbn [step]. unfold p. rewrite with_parent_snoc. unfold walk. rewrite (bind_ok _ _ _ _ _ E1). unfold entry_of. rewrite (bind_ok _ _ _ _ _ E). reflexivity. }
    destruct (sd_trans _ _ _ Hsd1 Hsd2) as (U' & L' & _). split; [|unfold run_op; rewrite Hrun; exact U'].
    apply (refine_same s (OLookup p) v _ s2 HC eq_refl Hv Hrun U' L').
    intros mv Hm. rewrite Hu in Hm. cbn [all_layers] in Hm.
    assert (Evp : visb L [] p = true).
    { unfold p. rewrite visb_snoc, Hvis, Hmp, Hmc, Ec. reflexivity. }
    pose proof (tget_merge_vis u (lowers s) p t r f mv W Evp Hmc Ec Hd Hm) as Ht.
    cbn [fs_apply f_tree]. rewrite Ht. destruct t; try discriminate; cbn [resolve hide_xs]; eexists; split; reflexivity.
  - (* the name is not visible: ENOENT *)
    assert (Estep : match tp with Dir _ _ _ => true | _ => false end &&
              match mstack (u :: lowers s1) (pp ++ [nm]) with t' :: _ => negb (is_whT t') | [] => false end = false).
    { rewrite L1. fold L. unfold p in Evp. rewrite visb_snoc, Hvis, Hmp in Evp. exact Evp. }
    destruct (do_lookup_fail pp nm s1 u n1 tp rp HC1 Hu1 Hg1) as (s2 & E & HC2 & Hsd2); [rewrite L1; exact Hmp|exact Hwp|exact Estep|].
    assert (Hrun : step (OLookup p) s = (Err ENOENT, s2)).
    { cbn [step]. unfold p. rewrite with_parent_snoc. unfold walk. rewrite (bind_ok _ _ _ _ _ E1). unfold entry_of. rewrite (bind_err _ _ _ _ _ E). reflexivity. }
    destruct (sd_trans _ _ _ Hsd1 Hsd2) as (U' & L' & _). split; [|unfold run_op; rewrite Hrun; exact U'].
    apply (refine_same s (OLookup p) v _ s2 HC eq_refl Hv Hrun U' L').
    intros mv Hm. rewrite Hu in Hm. cbn [all_layers] in Hm.
    pose proof (merge_invisible u (lowers s) p mv W Hm Evp) as Ht.
    cbn [fs_apply f_tree]. rewrite Ht. eexists. split; reflexivity.
Qed.

(* ------------------------------------------------------------------ the fragment *)
(* [readable s o]: a read-only operation on a visible path (LOOKUP: the parent is visible, the name may or may not be),
   GETXATTR of a name that is not one of the overlay's opaque markers, the path shorter than DEPTH (READDIR: by two, so that the
   view still shows the entries) *)
Definition readable (s : state) (o : op) : bool :=
  match upper s with
  | None => false
  | Some u =>
      let L := u :: lowers s in
      match o with
      | OLookup p => match split_last p with Some (pp, _) => (List.length p <? DEPTH)%nat && visb L [] pp | None => false end
      | OGetattr p | ORead p _ _ | OReadlink p | OListxattr p => (List.length p <? DEPTH)%nat && visb L [] p
      | OReaddir p => (S (List.length p) <? DEPTH)%nat && visb L [] p
      | OOpen p fl => of_readonly fl && ((List.length p <? DEPTH)%nat && visb L [] p)
      | OGetxattr p k => negb (is_opq_name k) && ((List.length p <? DEPTH)%nat && visb L [] p)
      | _ => false
      end
  end.

Theorem op_refines_readable s o v : Coherent s -> readable s o = true -> view (load_all s) = Some v ->
  refines_at s o v /\ upper (run_op o s) = upper s.
Proof.
  intros HC Hd Hv. unfold readable in Hd. destruct (upper s) as [u|] eqn:Hu; [|discriminate]. cbv zeta in Hd.
  pose proof (coherent_layers_ok s HC) as Hok. rewrite Hu in Hok. cbn [all_layers] in Hok.
  assert (Hud : is_whT u = false) by (destruct (Forall_inv Hok) as [_ Hdd]; destruct u; try discriminate; reflexivity).
  assert (Hone : forall p, (List.length p <? DEPTH)%nat && visb (u :: lowers s) [] p = true ->
            match o with OGetxattr _ k => is_opq_name k = false | _ => True end ->
            (forall t0, exists a, ro_ans o t0 = Some (p, a)) -> refines_at s o v /\ upper (run_op o s) = Some u).
  { intros p H Hk Ho. apply andb_prop in H. destruct H as [H1 H2]. apply Nat.ltb_lt in H1.
    destruct (vis_head u (lowers s) p Hud H2) as (t0 & rest & Hms & Hw). destruct (Ho t0) as [a Hoa].
    destruct (refines_ro s o p a u t0 rest v Hoa Hk HC Hu H2 Hms Hw H1 Hv) as [A B]. split; [exact A|rewrite B; exact Hu]. }
  destruct o; try discriminate.
  - destruct (split_last p) as [[pp nm]|] eqn:Esp; [|discriminate]. apply split_last_spec in Esp. subst p.
    apply andb_prop in Hd. destruct Hd as [H1 H2]. apply Nat.ltb_lt in H1.
    destruct (refines_lookup s pp nm u v HC Hu H2 H1 Hv) as [A B]. split; [exact A|rewrite B; exact Hu].
  - apply (Hone p Hd I). intros t0. cbn [ro_ans]. eauto.
  - apply andb_prop in Hd. destruct Hd as [H1 H2]. apply Nat.ltb_lt in H1.
    destruct (vis_head u (lowers s) p Hud H2) as (t0 & rest & Hms & Hw).
    destruct (refines_readdir s p u t0 rest v HC Hu H2 Hms Hw H1 Hv) as [A B]. split; [exact A|rewrite B; exact Hu].
  - apply (Hone p Hd I). intros t0. cbn [ro_ans]. eauto.
  - apply (Hone p Hd I). intros t0. cbn [ro_ans]. eauto.
  - apply andb_prop in Hd. destruct Hd as [Hro Hd]. apply (Hone p Hd I). intros t0. cbn [ro_ans]. rewrite Hro. eauto.
  - apply andb_prop in Hd. destruct Hd as [Hk Hd]. apply negb_true_iff in Hk. apply (Hone p Hd Hk). intros t0. cbn [ro_ans]. eauto.
  - apply (Hone p Hd I). intros t0. cbn [ro_ans]. eauto.
Qed.

(* All read-only operations, visible path or not: equal answers, same view, nothing changes.  [ro_bounds o]: the path is
   shorter than DEPTH (READDIR: by two), LOOKUP is not of the empty path (the harness never sends it; the model answers EINVAL),
   GETXATTR is not of an opaque marker (the overlay hands the marker through, the union hides it). *)
Definition ro_bounds (o : op) : bool :=
  match o with
  | OLookup p => match split_last p with Some _ => (List.length p <? DEPTH)%nat | None => false end
  | OGetattr p | ORead p _ _ | OReadlink p | OListxattr p | OOpen p _ => (List.length p <? DEPTH)%nat
  | OReaddir p => (S (List.length p) <? DEPTH)%nat
  | OGetxattr p k => negb (is_opq_name k) && (List.length p <? DEPTH)%nat
  | _ => false
  end.
Theorem op_refines_readonly s o v : Coherent s -> readonly_op o = true -> ro_bounds o = true -> view (load_all s) = Some v ->
  refines_at s o v /\ upper (run_op o s) = upper s.
Proof.
  intros HC Hro Hb Hv. pose proof HC as ([u Hu] & _).
  destruct (invisible s o) eqn:Ei; [destruct (op_refines_enoent s o v HC Ei Hv) as (A & _ & B); auto|].
  apply (op_refines_readable s o v HC); [|exact Hv].
  unfold invisible in Ei. unfold readable. rewrite Hu in *. cbv zeta.
  destruct o; cbn [readonly_op modifying negb ro_bounds op_main_path] in *; try discriminate.
  - destruct (split_last p) as [[pp nm]|]; [|discriminate]. cbn [option_map fst] in Ei. apply negb_false_iff in Ei. rewrite Hb, Ei. reflexivity.
  - apply negb_false_iff in Ei. rewrite Hb, Ei. reflexivity.
  - apply negb_false_iff in Ei. rewrite Hb, Ei. reflexivity.
  - apply negb_false_iff in Ei. rewrite Hb, Ei. reflexivity.
  - apply negb_false_iff in Ei. rewrite Hb, Ei. reflexivity.
  - apply negb_false_iff in Ei. apply negb_true_iff in Hro. apply negb_false_iff in Hro. rewrite Hro, Hb, Ei. reflexivity.
  - apply negb_false_iff in Ei. apply andb_prop in Hb. destruct Hb as [Hk Hb]. rewrite Hk, Hb, Ei. reflexivity.
  - apply negb_false_iff in Ei. rewrite Hb, Ei. reflexivity.
Qed.
