(* Per-operation refinement: chmod / setxattr / removexattr (names other than the opaque markers) of a DIRECTORY of the upper
   layer (no copy-up), and the operations that fail on a directory with EISDIR (open for writing, write, truncate). *)
From Coq Require Import List String Arith NArith Bool Lia.
From FB Require Import Model.Overlay Proofs.OverlayInv Proofs.OverlayScan Proofs.OverlayRestart
  Proofs.OverlayReadOnly Proofs.OverlayCoh Proofs.OverlayCohView Proofs.OverlayCopyUp Proofs.OverlayCohOps
  Proofs.OverlayCohSteps Proofs.OverlayRefineTeq Proofs.OverlayRefineMerge Proofs.OverlayRefineRun Proofs.OverlayRefine
  Proofs.OverlayRefineWh Proofs.OverlayRefineCu Proofs.OverlayRefineCuFile.
Import ListNotations.
Local Open Scope N_scope.

(* what the operation does to a directory with mode m and xattrs x: the change (None: nothing) and the answer *)
Definition dattr_eff (o : op) (m : N) (x : xattrs) : option (path * option (tree -> tree) * res string) :=
  match o with
  | OChmod p mode => Some (p, Some (set_mode mode), Ok (kind_of (set_mode mode (Dir m x []))))
  | OSetxattr p k v => if is_opq_name k then None else Some (p, Some (set_xs k v), Ok ""%string)
  | ORemovexattr p k =>
      if is_opq_name k then None
      else match afind k x with
           | Some _ => Some (p, Some (del_xs k), Ok ""%string)
           | None => Some (p, None, Err ENODATA)
           end
  | OOpen p fl => if of_readonly fl then None else Some (p, None, Err EISDIR)
  | OWrite p _ _ | OTruncate p _ => Some (p, None, Err EISDIR)
  | _ => None
  end.
(* the change commutes with hiding the opaque markers and keeps the opaqueness *)
Definition dir_hide_comm (f : tree -> tree) : Prop :=
  forall m x, exists m' x', (forall ch, f (Dir m x ch) = Dir m' x' ch) /\ (forall ch, f (Dir m (user_xs x) ch) = Dir m' (user_xs x') ch) /\
                            xs_opaque x' = xs_opaque x.
Lemma dattr_eff_comm o m x p g r : dattr_eff o m x = Some (p, Some g, r) -> dir_hide_comm g.
Proof.
  destruct o; cbn [dattr_eff]; try discriminate.
  - destruct (of_readonly fl); discriminate.
  - intros H; inversion H; subst. intros m0 x0. exists (N.land mode 4095), x0. repeat split; reflexivity.
  - destruct (is_opq_name k) eqn:E; [discriminate|]. intros H; inversion H; subst. intros m0 x0. exists m0, (aset k v x0).
    split; [reflexivity|]. split; [intros ch; cbn [set_xs]; rewrite (user_xs_aset k v x0 E); reflexivity|apply xs_opaque_aset; exact E].
  - destruct (is_opq_name k) eqn:E; [discriminate|]. destruct (afind k x); intros H; inversion H; subst. intros m0 x0. exists m0, (adel k x0).
    split; [reflexivity|]. split; [intros ch; cbn [del_xs]; rewrite (user_xs_adel k x0); reflexivity|apply xs_opaque_adel; exact E].
Qed.

(* ------------------------------------------------------------------ the run *)
Lemma dir_lookup_run (p : path) s u n m x ch : Coherent s -> upper s = Some u -> nget p (root s) = Some n ->
  tget u p = Some (Dir m x ch) ->
  exists s2 n2 pr prs, lookup_node p None s = (Ok p, s2) /\ Coherent s2 /\ sd s s2 /\ nget p (root s2) = Some n2 /\
    n_wh n2 = false /\ n_reals n2 = pr :: prs /\ r_upper pr = true /\ r_layer pr = 0%nat /\ r_path pr = p.
Proof.
  intros HC Hu Hg Hp.
  destruct (upper_node s u p n _ HC Hu Hg Hp) as (pr0 & prs0 & _ & _ & _ & _ & _ & Hw & _). cbn in Hw.
  destruct (lookup_run p s n HC Hg Hw) as (s2 & n2 & HC2 & Hsd2 & Hg2 & Hw2 & _ & _ & Hlk).
  assert (Hu2 : upper s2 = Some u) by (destruct Hsd2 as (A & _); congruence).
  destruct (upper_node s2 u p n2 _ HC2 Hu2 Hg2 Hp) as (pr & prs & Er & Hup & Hl0 & Hpath & _).
  exists s2, n2, pr, prs. split; [exact (Hlk None)|]. split; [exact HC2|]. split; [exact Hsd2|]. split; [exact Hg2|]. auto.
Qed.

Theorem step_dattr_run o (p : path) og r s u m x ch :
  dattr_eff o m x = Some (p, og, r) ->
  Coherent s -> upper s = Some u -> tget u p = Some (Dir m x ch) ->
  exists s', step o s = (r, s') /\ upper s' = Some (match og with Some g => tupd p g u | None => u end) /\ lowers s' = lowers s.
Proof.
  intros Ho HC Hu Hp.
  destruct (walk_run u p [] s (root s) _ HC Hu eq_refl Hp eq_refl) as (s1 & n1 & E1 & HC1 & (U1 & L1 & I1) & Hg1). cbn [app] in Hg1.
  assert (Hu1 : upper s1 = Some u) by congruence. unfold walk in *.
  destruct (dir_lookup_run p s1 u n1 m x ch HC1 Hu1 Hg1 Hp) as (s2 & n2 & pr & prs & Elk & HC2 & (U2 & L2 & I2) & Hg2 & Hw2 & Er & Hup & Hl0 & Hpath).
  assert (Hu2 : upper s2 = Some u) by congruence.
  pose proof (first_tree_run p s2 u n2 pr prs _ Hu2 Hg2 Er Hl0 Hpath Hp) as Eft.
  assert (Enc : node_checked p s1 = (Ok tt, s2)).
  { unfold node_checked. rewrite (bind_ok _ _ _ _ _ Elk), (bind_ok _ _ _ _ _ (get_node_ok p s2 n2 Hg2)), Hw2. reflexivity. }
  assert (Hmut : forall F u3, F u = Ok u3 -> mutate (r_layer (fst (pr, Dir m x ch))) F s2 = (Ok tt, set_layer s2 0 u3)).
  { intros F u3 HF. cbn [fst]. rewrite Hl0. apply (mutate0_ok F s2 u u3 Hu2 HF). }
  assert (Hmerr : forall F e, F u = Err e -> mutate (r_layer (fst (pr, Dir m x ch))) F s2 = (Err e, s2)).
  { intros F e HF. cbn [fst]. rewrite Hl0. unfold mutate. cbn [get_layer]. rewrite Hu2, HF. reflexivity. }
  assert (Hopen : forall fl, of_readonly fl = false -> do_open p fl s1 = (Err EISDIR, s2)).
  { intros fl Hf. unfold do_open. rewrite (bind_ok _ _ _ _ _ Elk), (bind_ok _ _ _ _ _ (get_node_ok p s2 n2 Hg2)), Hw2, Hf.
    rewrite (bind_ok _ _ _ _ _ (copy_up_noop p s2 n2 pr prs Hg2 Er Hup)), (bind_ok _ _ _ _ _ (get_node_ok p s2 n2 Hg2)).
    unfold first_real. rewrite Er. unfold bind at 1. cbn [ret]. unfold bind at 1. unfold real_tree. rewrite Hl0, Hpath. cbn [get_layer]. rewrite Hu2, Hp. reflexivity. }
  destruct o; cbn [dattr_eff] in Ho; try discriminate; cbn [step].
  - (* open for writing *) destruct (of_readonly fl) eqn:Ero; [discriminate|]. inversion Ho; subst p0 og r; clear Ho.
    exists s2. rewrite (bind_ok _ _ _ _ _ E1), (bind_err _ _ _ _ _ (Hopen fl Ero)). split; [reflexivity|]. split; congruence.
  - (* write *) inversion Ho; subst p0 og r; clear Ho.
    exists s2. rewrite (bind_ok _ _ _ _ _ E1), (bind_err _ _ _ _ _ (Hopen OF_W eq_refl)). split; [reflexivity|]. split; congruence.
  - (* chmod *) inversion Ho; subst p0 og r; clear Ho.
    set (u3 := tupd p (set_mode mode) u).
    assert (HF : h_chmod p mode u = Ok u3) by (unfold h_chmod, h_update; rewrite Hp; reflexivity).
    eexists. rewrite (bind_ok _ _ _ _ _ E1), (bind_ok _ _ _ _ _ (need_upper_ok s1 u Hu1)), (bind_ok _ _ _ _ _ Elk).
    rewrite (bind_ok _ _ _ _ _ (get_node_ok p s2 n2 Hg2)). unfold in_upper. rewrite Er, Hup.
    assert (Er0 : ret tt s2 = (Ok tt, s2)) by reflexivity. rewrite (bind_ok _ _ _ _ _ Er0), (bind_ok _ _ _ _ _ Eft).
    cbn [fst]. rewrite Hpath. rewrite (bind_ok _ _ _ _ _ (Hmut _ u3 HF)).
    assert (Eft3 : first_tree p (set_layer s2 0 u3) = (Ok (pr, set_mode mode (Dir m x ch)), set_layer s2 0 u3)).
    { apply (first_tree_run p _ u3 n2 pr prs); auto; [apply (upper_set_layer _ u); exact Hu2|unfold u3; rewrite tget_tupd, Hp; reflexivity]. }
    rewrite (bind_ok _ _ _ _ _ Eft3). cbn [ret snd]. split; [reflexivity|]. cbn [upper lowers set_layer]. rewrite Hu2. split; [reflexivity|congruence].
  - (* truncate *) inversion Ho; subst p0 og r; clear Ho.
    assert (HF : h_setdata p (resize (N.to_nat size)) u = Err EISDIR) by (unfold h_setdata; rewrite Hp; reflexivity).
    exists s2. rewrite (bind_ok _ _ _ _ _ E1), (bind_ok _ _ _ _ _ (need_upper_ok s1 u Hu1)), (bind_ok _ _ _ _ _ Elk).
    rewrite (bind_ok _ _ _ _ _ (get_node_ok p s2 n2 Hg2)). unfold in_upper. rewrite Er, Hup.
    assert (Er0 : ret tt s2 = (Ok tt, s2)) by reflexivity. rewrite (bind_ok _ _ _ _ _ Er0), (bind_ok _ _ _ _ _ Eft).
    cbn [fst]. rewrite Hpath. rewrite (bind_err _ _ _ _ _ (Hmerr _ _ HF)). split; [reflexivity|]. split; congruence.
  - (* setxattr *) destruct (is_opq_name k) eqn:Ek; [discriminate|]. inversion Ho; subst p0 og r; clear Ho.
    set (u3 := tupd p (set_xs k v) u).
    assert (HF : h_setxattr p k v u = Ok u3) by (unfold h_setxattr, h_update; rewrite Hp; reflexivity).
    eexists. rewrite (bind_ok _ _ _ _ _ E1), (bind_ok _ _ _ _ _ Enc).
    rewrite (bind_ok _ _ _ _ _ (get_node_ok p s2 n2 Hg2)). unfold in_upper. rewrite Er, Hup.
    assert (Er0 : ret tt s2 = (Ok tt, s2)) by reflexivity. rewrite (bind_ok _ _ _ _ _ Er0), (bind_ok _ _ _ _ _ Eft).
    cbn [fst]. rewrite Hpath. rewrite (bind_ok _ _ _ _ _ (Hmut _ u3 HF)). cbn [ret].
    split; [reflexivity|]. cbn [upper lowers set_layer]. rewrite Hu2. split; [reflexivity|congruence].
  - (* removexattr *) destruct (is_opq_name k) eqn:Ek; [discriminate|].
    destruct (afind k x) as [vv|] eqn:Ex; inversion Ho; subst p0 og r; clear Ho.
    + set (u3 := tupd p (del_xs k) u).
      assert (HF : h_removexattr p k u = Ok u3) by (unfold h_removexattr, h_update; rewrite Hp; cbn [xs_of]; rewrite Ex; reflexivity).
      eexists. rewrite (bind_ok _ _ _ _ _ E1), (bind_ok _ _ _ _ _ Enc).
      rewrite (bind_ok _ _ _ _ _ (get_node_ok p s2 n2 Hg2)). unfold in_upper. rewrite Er, Hup.
      assert (Er0 : ret tt s2 = (Ok tt, s2)) by reflexivity. rewrite (bind_ok _ _ _ _ _ Er0), (bind_ok _ _ _ _ _ Eft).
      cbn [fst]. rewrite Hpath. rewrite (bind_ok _ _ _ _ _ (Hmut _ u3 HF)). cbn [ret].
      split; [reflexivity|]. cbn [upper lowers set_layer]. rewrite Hu2. split; [reflexivity|congruence].
    + assert (HF : h_removexattr p k u = Err ENODATA) by (unfold h_removexattr; rewrite Hp; cbn [xs_of]; rewrite Ex; reflexivity).
      exists s2. rewrite (bind_ok _ _ _ _ _ E1), (bind_ok _ _ _ _ _ Enc).
      rewrite (bind_ok _ _ _ _ _ (get_node_ok p s2 n2 Hg2)). unfold in_upper. rewrite Er, Hup.
      assert (Er0 : ret tt s2 = (Ok tt, s2)) by reflexivity. rewrite (bind_ok _ _ _ _ _ Er0), (bind_ok _ _ _ _ _ Eft).
      cbn [fst]. rewrite Hpath. rewrite (bind_err _ _ _ _ _ (Hmerr _ _ HF)). split; [reflexivity|]. split; congruence.
Qed.

(* ------------------------------------------------------------------ the union *)
Lemma dattr_merge u ls (pp : path) (nm : name) m x ch md xd chd g f mv :
  Forall wf (u :: ls) -> tget u pp = Some (Dir m x ch) -> afind nm ch = Some (Dir md xd chd) -> dir_hide_comm g ->
  DEPTH = (S (S f) + List.length pp)%nat -> merge (u :: ls) = Some mv ->
  oteq (merge (tupd (pp ++ [nm]) g u :: ls)) (Some (tupd (pp ++ [nm]) g mv)) /\
  exists mT xT chT, tget mv (pp ++ [nm]) = Some (Dir md (user_xs xd) chT) /\ mT = md /\ xT = user_xs xd.
Proof.
  intros W Hpp Hnm Hg Hd Hm. destruct (mstack_head pp u ls _ Hpp) as [r Hr].
  pose proof (wf_tget _ (Forall_inv W) _ _ Hpp) as Wd.
  assert (Hn : NoDup (map fst ch)) by (inversion Wd; assumption).
  assert (Wdd : wf (Dir md xd chd)). { inversion Wd as [? ? ? _ Hall| | |]; subst. exact (Forall_afind (fun v => wf v) nm ch _ Hall Hnm). }
  destruct (Hg md xd) as (m' & x' & G1 & G2 & Go).
  assert (HG : only_at nm (amap nm g) ch).
  { split; [rewrite keys_amap; exact Hn|]. split.
    - intros k Hk. apply String.eqb_neq in Hk. rewrite String.eqb_sym in Hk. apply (afind_amap_other _ _ _ _ Hk).
    - intros c0 H0. rewrite afind_amap, Hnm in H0. cbn [option_map] in H0. assert (E : c0 = g (Dir md xd chd)) by congruence. rewrite E, G1.
      inversion Wdd; subst. constructor; assumption. }
  pose proof (merge_tupd nm (amap nm g) (S f) pp u ls m x ch W Hpp HG Hd) as M. cbv zeta in M.
  rewrite Hm in M. cbn [option_map] in M. rewrite <- tupd_snoc in M.
  (* the union at pp and at pp/nm *)
  destruct (tget_merge (S f) pp u ls _ W Hpp eq_refl Hd) as (r0 & Hr0 & Ht). rewrite Hm in Hr0. assert (E0 : r0 = mv) by congruence. rewrite E0 in Ht. clear E0 Hr0.
  rewrite Hr in Ht. assert (Wr : Forall wf (Dir m x ch :: r)) by (rewrite <- Hr; apply mstack_wf; exact W).
  destruct (resolve_dir_spec (S f) m x ch r Wr) as (chs & Er & N & K). rewrite Er in Ht.
  set (lowc := ents nm (tl (dir_stack (Dir m x ch :: r)))).
  assert (Wl : Forall wf (Dir md xd chd :: lowc)).
  { constructor; [exact Wdd|]. unfold lowc. apply ents_wf. apply Forall_tl. apply dir_stack_wf. exact Wr. }
  destruct (resolve_dir_spec f md xd chd lowc Wl) as (chT & ET & NT & KT).
  assert (Eold : afind nm chs = Some (Dir md (user_xs xd) chT)).
  { rewrite K, (dir_stack_head m x ch), ents_cons. cbn [dir_children]. rewrite Hnm. fold lowc. exact ET. }
  assert (Enew : resolve (S f) (ents nm (dir_stack (Dir m x (amap nm g ch) :: tl (mstack (u :: ls) pp)))) = Some (g (Dir md (user_xs xd) chT))).
  { rewrite (dir_stack_head m x (amap nm g ch)), ents_cons. cbn [dir_children]. rewrite afind_amap, Hnm. cbn [option_map]. rewrite Hr. cbn [tl].
    rewrite (dir_stack_tl_indep m x ch). fold lowc. rewrite G1, G2.
    cbn [resolve]. f_equal. f_equal. cbn [resolve] in ET. inversion ET as [HT]. cbn [dir_stack]. rewrite Go. destruct (xs_opaque xd); reflexivity. }
  rewrite Enew in M. cbn [setc] in M.
  assert (Wmv : wf mv) by (eapply resolve_wf; [exact W|exact Hm]).
  rewrite <- (tupd_snoc_ins pp nm g mv _ _ chs _ Wmv Ht Eold) in M.
  split; [exact M|]. exists md, (user_xs xd), chT. split; [rewrite tget_app, Ht; exact Eold|auto].
Qed.

Lemma fs_apply_dattr o m x p og r mv nx chT : dattr_eff o m x = Some (p, og, r) ->
  tget mv p = Some (Dir m (user_xs x) chT) ->
  fs_apply o (mkFs mv nx) = (r, mkFs (match og with Some g => tupd p g mv | None => mv end) nx).
Proof.
  intros Ho Hp. destruct o; cbn [dattr_eff] in Ho; try discriminate; cbn [fs_apply f_tree].
  - destruct (of_readonly fl) eqn:E; [discriminate|]. inversion Ho; subst p0 og r; clear Ho. rewrite Hp. reflexivity.
  - inversion Ho; subst p0 og r; clear Ho. unfold fs_mut, h_setdata. cbn [f_tree f_next]. rewrite Hp. reflexivity.
  - inversion Ho; subst p0 og r; clear Ho. unfold fs_mut, h_chmod, h_update. cbn [f_tree f_next]. rewrite Hp. cbn [fs_after f_tree].
    rewrite tget_tupd, Hp. reflexivity.
  - inversion Ho; subst p0 og r; clear Ho. unfold fs_mut, h_setdata. cbn [f_tree f_next]. rewrite Hp. reflexivity.
  - destruct (is_opq_name k); [discriminate|]. inversion Ho; subst p0 og r; clear Ho. unfold fs_mut, h_setxattr, h_update. cbn [f_tree f_next]. rewrite Hp. reflexivity.
  - destruct (is_opq_name k) eqn:Ek; [discriminate|].
    destruct (afind k x) eqn:Ex; inversion Ho; subst p0 og r; clear Ho; unfold fs_mut, h_removexattr, h_update; cbn [f_tree f_next];
      rewrite Hp; cbn [xs_of]; rewrite (afind_user_xs k x Ek), Ex; reflexivity.
Qed.
Lemma dattr_eff_coh o m x p og r : dattr_eff o m x = Some (p, og, r) -> coh_op o = true.
Proof.
  destruct o; cbn [dattr_eff coh_op]; try discriminate; try reflexivity.
  - destruct (is_opq_name k); [discriminate|reflexivity].
  - destruct (is_opq_name k); [discriminate|reflexivity].
Qed.

Theorem refines_dattr s o (pp : path) (nm : name) og r u m x ch md xd chd v :
  Coherent s -> dattr_eff o md xd = Some (pp ++ [nm], og, r) ->
  upper s = Some u -> tget u pp = Some (Dir m x ch) -> afind nm ch = Some (Dir md xd chd) ->
  (List.length (pp ++ [nm]) < DEPTH)%nat -> view (load_all s) = Some v -> refines_at s o v.
Proof.
  intros HC Ho Hu Hpp Hnm Hlen Hv.
  assert (Hp : tget u (pp ++ [nm]) = Some (Dir md xd chd)) by (rewrite tget_app, Hpp; exact Hnm).
  destruct (step_dattr_run o (pp ++ [nm]) og r s u md xd chd Ho HC Hu Hp) as (s' & Hrun & Hu' & Hl').
  unfold refines_at, run_op. rewrite Hrun. cbn [fst snd].
  assert (Hd : exists f, DEPTH = (S (S f) + List.length pp)%nat).
  { rewrite app_length in Hlen. cbn [List.length] in Hlen. exists (DEPTH - 2 - List.length pp)%nat. lia. }
  destruct Hd as [f Hd].
  pose proof (coherent_wf_layers s u HC Hu) as W.
  destruct (refine_from_disk s o v _ s' HC (dattr_eff_coh _ _ _ _ _ _ Ho) Hv Hrun) as [R T]; [|cbv zeta; auto].
  intros mv Hm. rewrite Hu in Hm. cbn [all_layers] in Hm. rewrite Hu', Hl'. cbn [all_layers]. cbv zeta.
  assert (Wmv : wf mv) by (eapply resolve_wf; [exact W|exact Hm]).
  destruct og as [g|].
  - destruct (dattr_merge u (lowers s) pp nm m x ch md xd chd g f mv W Hpp Hnm (dattr_eff_comm _ _ _ _ _ _ Ho) Hd Hm) as (M & mT & xT & chT & HT & _ & _).
    rewrite (fs_apply_dattr o md xd _ _ r mv (next_ino s) chT Ho HT). cbn [fst snd f_tree]. split; [destruct r; reflexivity|exact M].
  - (* nothing changes: any change commuting with hiding gives the union's entry *)
    destruct (dattr_merge u (lowers s) pp nm m x ch md xd chd (set_mode md) f mv W Hpp Hnm) as (_ & mT & xT & chT & HT & _ & _); auto.
    { intros m0 x0. exists (N.land md 4095), x0. repeat split; reflexivity. }
    rewrite (fs_apply_dattr o md xd _ _ r mv (next_ino s) chT Ho HT). cbn [fst snd f_tree]. split; [destruct r; reflexivity|].
    rewrite Hm. cbn [oteq]. apply teq_refl. exact Wmv.
Qed.

(* [direct_dattr s o]: chmod / setxattr / removexattr (not an opaque marker) / open for writing / write / truncate of a directory of
   the upper layer, not the root *)
Definition direct_dattr (s : state) (o : op) : bool :=
  match upper s with
  | None => false
  | Some u =>
      let chk (p : path) := (List.length p <? DEPTH)%nat && match split_last p with Some _ => true | None => false end &&
                            match tget u p with Some (Dir _ _ _) => true | _ => false end in
      match o with
      | OChmod p _ | OWrite p _ _ | OTruncate p _ => chk p
      | OOpen p fl => negb (of_readonly fl) && chk p
      | OSetxattr p k _ | ORemovexattr p k => negb (is_opq_name k) && chk p
      | _ => false
      end
  end.
Theorem op_refines_dattr s o v : Coherent s -> direct_dattr s o = true -> view (load_all s) = Some v -> refines_at s o v.
Proof.
  intros HC Hd Hv. unfold direct_dattr in Hd. destruct (upper s) as [u|] eqn:Hu; [|discriminate]. cbv zeta in Hd.
  assert (Hmain : forall p, (List.length p <? DEPTH)%nat && match split_last p with Some _ => true | None => false end &&
                            match tget u p with Some (Dir _ _ _) => true | _ => false end = true ->
                  (forall md xd, exists og r, dattr_eff o md xd = Some (p, og, r)) -> refines_at s o v).
  { intros p H Ho. apply andb_prop in H. destruct H as [H H3]. apply andb_prop in H. destruct H as [H1 H2]. apply Nat.ltb_lt in H1.
    destruct (split_last p) as [[pp nm]|] eqn:Esp; [|discriminate]. apply split_last_spec in Esp. subst p.
    destruct (tget u (pp ++ [nm])) as [[md xd chd| | |]|] eqn:Hp; try discriminate.
    destruct (tget_snoc_inv u pp nm _ Hp) as (m & x & ch & Hpp & Hnm).
    destruct (Ho md xd) as (og & r & Hoe).
    exact (refines_dattr s o pp nm og r u m x ch md xd chd v HC Hoe Hu Hpp Hnm H1 Hv). }
  destruct o; try discriminate.
  - apply andb_prop in Hd. destruct Hd as [Hro Hd]. apply negb_true_iff in Hro. apply (Hmain p Hd). intros md xd. cbn [dattr_eff]. rewrite Hro. eauto.
  - apply (Hmain p Hd). intros md xd. cbn [dattr_eff]. eauto.
  - apply (Hmain p Hd). intros md xd. cbn [dattr_eff]. eauto.
  - apply (Hmain p Hd). intros md xd. cbn [dattr_eff]. eauto.
  - apply andb_prop in Hd. destruct Hd as [Hk Hd]. apply negb_true_iff in Hk. apply (Hmain p Hd). intros md xd. cbn [dattr_eff]. rewrite Hk. eauto.
  - apply andb_prop in Hd. destruct Hd as [Hk Hd]. apply negb_true_iff in Hk. apply (Hmain p Hd). intros md xd. cbn [dattr_eff]. rewrite Hk. destruct (afind k xd); eauto.
Qed.
