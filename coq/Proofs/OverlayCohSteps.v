(* The operations for which preservation of the coherence invariant is proved, and the history /
   restart theorems over them. *)
From Coq Require Import List String Arith NArith Bool Lia Sorted Ascii.
From FB Require Import Model.Overlay Proofs.OverlayInv Proofs.OverlayScan Proofs.OverlayRestart
  Proofs.OverlayReadOnly Proofs.OverlayCoh Proofs.OverlayCohView Proofs.OverlayCohOps.
Import ListNotations.

Definition coh_op (o : op) : bool :=
  match o with
  | OMkdir _ _ | OCreate _ _ | OMknod _ _ | OSymlink _ _ | OLink _ _ | OUnlink _ | ORmdir _ | ORename _ _
  | OOpen _ _ | OWrite _ _ _ | OChmod _ _ | OTruncate _ _ => true
  | OSetxattr _ k _ | ORemovexattr _ k => negb (is_opq_name k)     (* not one of the overlay's own opaque markers *)
  | _ => readonly_op o
  end.
Theorem coherent_step o s : coh_op o = true -> Coherent s -> Coherent (run_op o s).
Proof.
  intros Ho HC. unfold run_op. destruct o; cbn [coh_op] in Ho; try (apply cpres_readonly; assumption).
  - apply cpres_create. exact HC.
  - apply cpres_mkdir. exact HC.
  - apply cpres_mknod. exact HC.
  - apply cpres_symlink. exact HC.
  - apply cpres_link. exact HC.
  - apply cpres_unlink. exact HC.
  - apply cpres_rmdir. exact HC.
  - cbn [step]. apply cpres_with_parent; [|exact HC]. intros pp nm. apply cpres_with_parent. intros pp2 nm2. apply cpres_fail.
  - apply cpres_open. exact HC.
  - apply cpres_write. exact HC.
  - apply cpres_chmod. exact HC.
  - apply cpres_truncate. exact HC.
  - apply cpres_setxattr; [apply negb_true_iff; exact Ho|exact HC].
  - apply cpres_removexattr; [apply negb_true_iff; exact Ho|exact HC].
Qed.
Definition coh_history (ops : list (bool * op)) : bool := forallb (fun o => coh_op (snd o)) ops.
Theorem coherent_history ops : coh_history ops = true -> forall s, Coherent s -> Coherent (run_dumps ops s).
Proof.
  induction ops as [|[d o] ops IH]; intros Hh s HC; cbn [run_dumps]; [exact HC|].
  cbn [coh_history forallb snd] in Hh. apply andb_prop in Hh. destruct Hh as [Ho Hr].
  apply IH; [exact Hr|]. destruct d; [apply load_all_coherent|]; apply coherent_step; assumption.
Qed.
(* restart equivalence for all layer contents and all histories over those operations *)
Theorem restart_coherent_history u ls nx ops : Forall layer_ok (u :: ls) -> coh_history ops = true ->
  let s := run_dumps ops (load_all (fresh (Some u) ls nx)) in
  oteq (view (load_all (restart s))) (view (load_all s)).
Proof.
  intros Hok Hh. cbv zeta. apply coherent_restart. apply coherent_history; [exact Hh|].
  apply load_all_coherent. apply fresh_coherent. exact Hok.
Qed.

(* The client's view of a coherent state is the overlayfs union of its disk state (the merge of the
   current upper directory and the lower layers), up to the order of directory entries. *)
Lemma coherent_layers_ok s : Coherent s -> Forall layer_ok (all_layers (upper s) (lowers s)).
Proof.
  intros ([u Hu] & Hw & _). rewrite Hu. cbn [all_layers]. constructor.
  - apply (Hw 0%nat u). exact Hu.
  - apply Forall_forall. intros t Ht. destruct (In_nth_error _ _ Ht) as [j Hj]. apply (Hw (S j) t). exact Hj.
Qed.
Theorem coherent_view_union s : Coherent s ->
  oteq (merge (all_layers (upper s) (lowers s))) (view (load_all s)).
Proof.
  intros HC. rewrite <- (restart_shows_union s (coherent_layers_ok s HC)). apply coherent_restart. exact HC.
Qed.
Theorem view_union_history u ls nx ops : Forall layer_ok (u :: ls) -> coh_history ops = true ->
  let s := run_dumps ops (load_all (fresh (Some u) ls nx)) in
  oteq (merge (all_layers (upper s) (lowers s))) (view (load_all s)).
Proof.
  intros Hok Hh. cbv zeta. apply coherent_view_union. apply coherent_history; [exact Hh|].
  apply load_all_coherent. apply fresh_coherent. exact Hok.
Qed.

(* ------------------------------------------------------------------ teq trees have the same serialisation
   (ser sorts the entries of a directory by name; names are distinct) *)
Lemma N_of_ascii_inj x y : Ascii.N_of_ascii x = Ascii.N_of_ascii y -> x = y.
Proof. intros H. rewrite <- (Ascii.ascii_N_embedding x), <- (Ascii.ascii_N_embedding y), H. reflexivity. Qed.
Lemma sleb_refl a : sleb a a = true.
Proof. induction a as [|x a IH]; cbn [sleb]; [reflexivity|]. rewrite N.ltb_irrefl. exact IH. Qed.
Lemma sleb_total a : forall b, sleb a b = true \/ sleb b a = true.
Proof.
  induction a as [|x a IH]; intros b; [left; reflexivity|]. destruct b as [|y b]; [right; reflexivity|]. cbn [sleb].
  destruct (N.ltb_spec (Ascii.N_of_ascii x) (Ascii.N_of_ascii y)) as [H|H]; [left; reflexivity|].
  destruct (N.ltb_spec (Ascii.N_of_ascii y) (Ascii.N_of_ascii x)) as [H'|H']; [right; reflexivity|]. apply IH.
Qed.
Lemma sleb_antisym a : forall b, sleb a b = true -> sleb b a = true -> a = b.
Proof.
  induction a as [|x a IH]; intros b H1 H2; destruct b as [|y b]; try reflexivity; try discriminate. cbn [sleb] in *.
  destruct (N.ltb_spec (Ascii.N_of_ascii x) (Ascii.N_of_ascii y)) as [H|H];
    destruct (N.ltb_spec (Ascii.N_of_ascii y) (Ascii.N_of_ascii x)) as [H'|H']; try discriminate; try lia.
  assert (x = y) by (apply N_of_ascii_inj; lia). subst y. f_equal. apply IH; assumption.
Qed.
Lemma sleb_trans a : forall b c, sleb a b = true -> sleb b c = true -> sleb a c = true.
Proof.
  induction a as [|x a IH]; intros b c H1 H2; [reflexivity|]. destruct b as [|y b]; [discriminate|]. destruct c as [|z c]; [discriminate|].
  cbn [sleb] in *.
  destruct (N.ltb_spec (Ascii.N_of_ascii x) (Ascii.N_of_ascii y)) as [Hxy|Hxy];
    destruct (N.ltb_spec (Ascii.N_of_ascii y) (Ascii.N_of_ascii x)) as [Hyx|Hyx];
    destruct (N.ltb_spec (Ascii.N_of_ascii y) (Ascii.N_of_ascii z)) as [Hyz|Hyz];
    destruct (N.ltb_spec (Ascii.N_of_ascii z) (Ascii.N_of_ascii y)) as [Hzy|Hzy];
    destruct (N.ltb_spec (Ascii.N_of_ascii x) (Ascii.N_of_ascii z)) as [Hxz|Hxz];
    destruct (N.ltb_spec (Ascii.N_of_ascii z) (Ascii.N_of_ascii x)) as [Hzx|Hzx];
    try reflexivity; try discriminate; try (exfalso; lia).
  apply (IH b c); assumption.
Qed.

Definition sle (a b : string) : Prop := sleb a b = true.
Lemma sinsert_keys {A} (kv : string * A) l k : In k (map fst (sinsert kv l)) <-> k = fst kv \/ In k (map fst l).
Proof.
  induction l as [|h r IH]; cbn [sinsert map fst In]; [intuition|].
  destruct (sleb (fst kv) (fst h)); cbn [map fst In]; [intuition|]. rewrite IH. intuition.
Qed.
Lemma sinsert_sorted {A} (kv : string * A) l : StronglySorted sle (map fst l) -> StronglySorted sle (map fst (sinsert kv l)).
Proof.
  induction l as [|h r IH]; intros S; cbn [sinsert map fst]; [constructor; constructor|].
  inversion S as [|? ? S' Hall]; subst. destruct (sleb (fst kv) (fst h)) eqn:E; cbn [map fst].
  - constructor; [exact S|]. constructor; [exact E|]. eapply Forall_impl; [|exact Hall]. intros a Ha. exact (sleb_trans _ _ _ E Ha).
  - constructor; [apply IH; exact S'|]. apply Forall_forall. intros k Hk. apply sinsert_keys in Hk. destruct Hk as [->|Hk].
    + destruct (sleb_total (fst h) (fst kv)) as [H|H]; [exact H|congruence].
    + rewrite Forall_forall in Hall. apply Hall. exact Hk.
Qed.
Lemma sinsert_nodup {A} (kv : string * A) l : ~ In (fst kv) (map fst l) -> NoDup (map fst l) -> NoDup (map fst (sinsert kv l)).
Proof.
  induction l as [|h r IH]; intros Hn Hd; cbn [sinsert map fst]; [constructor; [intros []|constructor]|].
  destruct (sleb (fst kv) (fst h)); cbn [map fst]; [constructor; assumption|].
  inversion Hd as [|? ? Hh Hd']; subst. constructor.
  - intros Hin. apply sinsert_keys in Hin. destruct Hin as [E|Hin]; [apply Hn; left; exact E|contradiction].
  - apply IH; [intros H; apply Hn; right; exact H|exact Hd'].
Qed.
Lemma sinsert_afind {A} (kv : string * A) l k : ~ In (fst kv) (map fst l) ->
  afind k (sinsert kv l) = if String.eqb k (fst kv) then Some (snd kv) else afind k l.
Proof.
  induction l as [|h r IH]; intros Hn; cbn [sinsert].
  - destruct kv as [a v]. cbn [afind fst snd]. reflexivity.
  - destruct (sleb (fst kv) (fst h)).
    + destruct kv as [a v]. cbn [afind fst snd]. reflexivity.
    + destruct h as [hk hv]. cbn [afind fst snd] in *. rewrite IH by (intros H; apply Hn; right; exact H).
      destruct (String.eqb k hk) eqn:E1; [|reflexivity]. destruct (String.eqb k (fst kv)) eqn:E2; [|reflexivity].
      apply String.eqb_eq in E1, E2. subst. exfalso. apply Hn. left. reflexivity.
Qed.
Lemma ssort_spec {A} (l : list (string * A)) : NoDup (map fst l) ->
  StronglySorted sle (map fst (ssort l)) /\ NoDup (map fst (ssort l)) /\
  (forall k, In k (map fst (ssort l)) <-> In k (map fst l)) /\ (forall k, afind k (ssort l) = afind k l).
Proof.
  induction l as [|[a v] r IH]; intros Hd; cbn [ssort fold_right map fst].
  - repeat split; auto; constructor.
  - inversion Hd as [|? ? Hn Hd']; subst. destruct (IH Hd') as (S & N & K & F). fold (ssort r).
    assert (Hn' : ~ In (fst (a, v)) (map fst (ssort r))) by (cbn [fst]; rewrite K; exact Hn).
    split; [apply sinsert_sorted; exact S|]. split; [apply sinsert_nodup; assumption|]. split.
    + intros k. rewrite sinsert_keys, K. cbn [fst In]. intuition.
    + intros k. rewrite (sinsert_afind (a, v) (ssort r) k Hn'), F. cbn [afind fst snd]. reflexivity.
Qed.
Lemma sorted_unique (l1 : list string) : forall l2, StronglySorted sle l1 -> StronglySorted sle l2 -> NoDup l1 -> NoDup l2 ->
  (forall k, In k l1 <-> In k l2) -> l1 = l2.
Proof.
  induction l1 as [|a l1 IH]; intros l2 S1 S2 N1 N2 K.
  - destruct l2 as [|b l2]; [reflexivity|]. exfalso. apply (proj2 (K b)). left. reflexivity.
  - destruct l2 as [|b l2]; [exfalso; apply (proj1 (K a)); left; reflexivity|].
    inversion S1 as [|? ? S1' A1]; subst. inversion S2 as [|? ? S2' A2]; subst.
    inversion N1 as [|? ? Na N1']; subst. inversion N2 as [|? ? Nb N2']; subst.
    rewrite Forall_forall in A1, A2.
    assert (a = b).
    { destruct (proj1 (K a) (or_introl eq_refl)) as [E|Hin]; [symmetry; exact E|].
      destruct (proj2 (K b) (or_introl eq_refl)) as [E|Hin']; [exact E|].
      apply sleb_antisym; [apply A1; exact Hin'|apply A2; exact Hin]. }
    subst b. f_equal. apply IH; auto. intros k. split; intros Hk.
    + destruct (proj1 (K k) (or_intror Hk)) as [E|H]; [subst; contradiction|exact H].
    + destruct (proj2 (K k) (or_intror Hk)) as [E|H]; [subst; contradiction|exact H].
Qed.
Lemma assoc_forall2 {A} (R : A -> A -> Prop) (l1 : list (string * A)) : forall l2, map fst l1 = map fst l2 -> NoDup (map fst l1) ->
  (forall k a, afind k l1 = Some a -> exists b, afind k l2 = Some b /\ R a b) ->
  Forall2 (fun x y => fst x = fst y /\ R (snd x) (snd y)) l1 l2.
Proof.
  induction l1 as [|[k a] l1 IH]; intros l2 Hk Hd H; destruct l2 as [|[k2 b] l2]; try discriminate; [constructor|].
  cbn [map fst] in Hk. inversion Hk as [[E Hk']]. subst k2. inversion Hd as [|? ? Hn Hd']; subst. constructor.
  - cbn [fst snd]. split; [reflexivity|]. destruct (H k a) as (b' & Hb & Rab); [cbn [afind]; rewrite String.eqb_refl; reflexivity|].
    cbn [afind] in Hb. rewrite String.eqb_refl in Hb. inversion Hb; subst. exact Rab.
  - apply IH; [exact Hk'|exact Hd'|]. intros k' a' Ha'.
    assert (Hne : String.eqb k' k = false).
    { apply String.eqb_neq. intros ->. apply Hn. apply afind_In in Ha'. apply (in_map fst) in Ha'. exact Ha'. }
    destruct (H k' a') as (b' & Hb & Rab); [cbn [afind]; rewrite Hne; exact Ha'|]. cbn [afind] in Hb. rewrite Hne in Hb. eauto.
Qed.
Theorem teq_ser f : forall a b, teq a b -> ser f a = ser f b.
Proof.
  induction f as [|f IH]; intros a b H; [reflexivity|]. destruct H as [m x c1 c2 N1 N2 H1 H2|t Ht]; [|reflexivity].
  cbn [ser].
  assert (E : map (fun kv : string * tree => (fst kv ++ "=" ++ ser f (snd kv) ++ ",")%string) (ssort c1) =
              map (fun kv : string * tree => (fst kv ++ "=" ++ ser f (snd kv) ++ ",")%string) (ssort c2)); [|rewrite E; reflexivity].
  destruct (ssort_spec c1 N1) as (S1 & D1 & K1 & F1). destruct (ssort_spec c2 N2) as (S2 & D2 & K2 & F2).
  assert (Hkeys : map fst (ssort c1) = map fst (ssort c2)).
  { apply sorted_unique; auto. intros k. rewrite K1, K2. split; intros Hk.
    - destruct (afind k c2) eqn:E; [apply afind_In in E; apply (in_map fst) in E; exact E|]. exfalso.
      destruct (afind k c1) as [a1|] eqn:E1; [destruct (H1 k a1 E1) as (b1 & Hb & _); congruence|].
      apply afind_none_notin in E1. contradiction.
    - destruct (afind k c1) eqn:E; [apply afind_In in E; apply (in_map fst) in E; exact E|]. exfalso.
      apply H2 in E. apply afind_none_notin in E. contradiction. }
  assert (F : Forall2 (fun x y => fst x = fst y /\ teq (snd x) (snd y)) (ssort c1) (ssort c2)).
  { apply assoc_forall2; [exact Hkeys|exact D1|]. intros k a1 Ha. rewrite F1 in Ha. destruct (H1 k a1 Ha) as (b1 & Hb & T). exists b1. rewrite F2. auto. }
  clear -F IH. induction F as [|x y l1 l2 [E T] _ IHF]; [reflexivity|]. cbn [map]. rewrite IHF, E, (IH _ _ T). reflexivity.
Qed.
Lemma oteq_ser a b : oteq a b -> ser_opt a = ser_opt b.
Proof. destruct a as [a|], b as [b|]; unfold oteq, ser_opt; intros H; try contradiction; [apply teq_ser; exact H|reflexivity]. Qed.

(* restart equivalence in the form of C11_full (equal serialisations), for all histories over [coh_op] *)
Theorem restart_same_view_history u ls nx ops : Forall layer_ok (u :: ls) -> coh_history ops = true ->
  restart_same_view (Some u) ls nx ops.
Proof. intros Hok Hh. unfold restart_same_view. apply oteq_ser. apply (restart_coherent_history u ls nx ops Hok Hh). Qed.
Theorem view_union_history_ser u ls nx ops : Forall layer_ok (u :: ls) -> coh_history ops = true ->
  let s := run_dumps ops (load_all (fresh (Some u) ls nx)) in
  ser_opt (view (load_all s)) = ser_opt (merge (all_layers (upper s) (lowers s))).
Proof. intros Hok Hh. cbv zeta. symmetry. apply oteq_ser. apply (view_union_history u ls nx ops Hok Hh). Qed.
