(* The operations for which preservation of the coherence invariant is proved, and the history /
   restart theorems over them. *)
From Coq Require Import List String Arith NArith Bool Lia.
From FB Require Import Model.Overlay Proofs.OverlayInv Proofs.OverlayScan Proofs.OverlayRestart
  Proofs.OverlayReadOnly Proofs.OverlayCoh Proofs.OverlayCohView Proofs.OverlayCohOps.
Import ListNotations.

Definition coh_op (o : op) : bool :=
  match o with
  | OMkdir _ _ | OCreate _ _ | OMknod _ _ | OSymlink _ _ | OUnlink _ | ORmdir _
  | OOpen _ _ | OWrite _ _ _ | OChmod _ _ | OTruncate _ _ => true
  | OSetxattr _ k _ | ORemovexattr _ k => negb (is_opq_name k)     (* not one of the overlay's own opaque markers *)
  | _ => readonly_op o
  end.
Theorem coherent_step o s : coh_op o = true -> Coherent s -> Coherent (run_op o s).
Proof.
  intros Ho HC. unfold run_op. destruct o; cbn [coh_op] in Ho; try (apply cpres_readonly; assumption).
  - apply cpres_create. exact HC.
  - apply cpres_mkdir. exact HC.
  - apply cpres_mknod. exact HC.
  - apply cpres_symlink. exact HC.
  - apply cpres_unlink. exact HC.
  - apply cpres_rmdir. exact HC.
  - apply cpres_open. exact HC.
  - apply cpres_write. exact HC.
  - apply cpres_chmod. exact HC.
  - apply cpres_truncate. exact HC.
  - apply cpres_setxattr; [apply negb_true_iff; exact Ho|exact HC].
  - apply cpres_removexattr; [apply negb_true_iff; exact Ho|exact HC].
Qed.
Definition coh_history (ops : list (bool * op)) : bool := forallb (fun o => coh_op (snd o)) ops.
Theorem coherent_history ops : coh_history ops = true -> forall s, Coherent s -> Coherent (run_dumps ops s).
Proof.
  induction ops as [|[d o] ops IH]; intros Hh s HC; cbn [run_dumps]; [exact HC|].
  cbn [coh_history forallb snd] in Hh. apply andb_prop in Hh. destruct Hh as [Ho Hr].
  apply IH; [exact Hr|]. destruct d; [apply load_all_coherent|]; apply coherent_step; assumption.
Qed.
(* restart equivalence for all layer contents and all histories over those operations *)
Theorem restart_coherent_history u ls nx ops : Forall layer_ok (u :: ls) -> coh_history ops = true ->
  let s := run_dumps ops (load_all (fresh (Some u) ls nx)) in
  oteq (view (load_all (restart s))) (view (load_all s)).
Proof.
  intros Hok Hh. cbv zeta. apply coherent_restart. apply coherent_history; [exact Hh|].
  apply load_all_coherent. apply fresh_coherent. exact Hok.
Qed.
