(* Proofs/TransportScript.v -- write_all_from over a source that answers call by call (Model/TransportEnv.v part 4):
   the loop is the run of the write_from calls it makes ([unroll]), also when a later call fails, delivers nothing, or
   is interrupted; therefore every statement about arbitrary runs (C04_run, C17_written_marked, ...) covers operations
   that fail after they have placed bytes. *)
From Coq Require Import List Arith NArith Bool Lia ZifyBool ZifyNat ZifyN.
From FB Require Import Model.Transport Model.TransportEnv Proofs.Transport Proofs.TransportMachine Proofs.TransportFamily Proofs.TransportAsync.
Import ListNotations.
Local Open Scope N_scope.
Arguments N.add : simpl never.
Arguments N.sub : simpl never.
Arguments N.min : simpl never.

Lemma set_nth_twice {A} i (x y : A) l : set_nth i x (set_nth i y l) = set_nth i x l.
Proof. revert i; induction l as [|z l IH]; intros [|i]; cbn; try reflexivity. f_equal. apply IH. Qed.

Lemma mkv_eta st : mkv (v_mem st) (v_dirty st) (v_rd st) (v_wr st) = st.
Proof. destruct st; reflexivity. Qed.

Lemma vstep_write_from i count src st b : nth_error (v_wr st) i = Some b ->
  snd (vstep (WWriteFrom i count src) st) =
  let '(r, m', d', b') := vw_write_from count src (v_mem st) (v_dirty st) b in mkv m' d' (v_rd st) (set_nth i b' (v_wr st)).
Proof. intro E. cbn [vstep]. rewrite E. destruct (vw_write_from _ _ _ _ _) as [[[r m'] d'] b']. reflexivity. Qed.

Lemma vrun_one op st : snd (vrun [op] st) = snd (vstep op st).
Proof. rewrite vrun_snd_cons. reflexivity. Qed.

Lemma vrun_snd_app a : forall b st, snd (vrun (a ++ b) st) = snd (vrun b (snd (vrun a st))).
Proof. induction a as [|op a IH]; intros b st; [reflexivity|]. cbn [app]. rewrite !vrun_snd_cons. apply IH. Qed.

Lemma SFail_stops count m d b : wf_io b -> count <= avail b ->
  exists r, vw_write_from count None m d b = (r, m, d, b) /\ (r = RErr EFile \/ r = ROk 0 []).
Proof. intros Hwf Hc. destruct (vw_write_from_spec count None m d b Hwf) as [_ H]. exact (H Hc). Qed.

(* the loop, round by round, is the run of [unroll] *)
Lemma wafs_unroll script : forall count st i b, wf_io b -> count <= avail b -> nth_error (v_wr st) i = Some b ->
  (let '(r, m', d', b') := vw_wafs script count (v_mem st) (v_dirty st) b in mkv m' d' (v_rd st) (set_nth i b' (v_wr st)))
  = snd (vrun (unroll i script count) st).
Proof.
  induction script as [|a r IH]; intros count st i b Hwf Hc E.
  - cbn [vw_wafs unroll]. destruct (N.eqb_spec count 0) as [Hz|Hz].
    + cbn [vrun snd]. rewrite (set_nth_same _ _ _ E). apply mkv_eta.
    + rewrite vrun_one, (vstep_write_from _ _ _ _ _ E).
      destruct (vw_write_from count (Some []) (v_mem st) (v_dirty st) b) as [[[r0 m'] d'] b']. destruct r0; reflexivity.
  - cbn [vw_wafs unroll]. destruct (N.eqb_spec count 0) as [Hz|Hz].
    + cbn [vrun snd]. rewrite (set_nth_same _ _ _ E). apply mkv_eta.
    + destruct a as [data| |].
      * (* data: write_from places min(count, |data|) bytes *)
        cbn [src_of]. rewrite vrun_snd_cons, (vstep_write_from _ _ _ _ _ E).
        destruct (vw_write_from_spec count (Some data) (v_mem st) (v_dirty st) b Hwf) as [_ Hok].
        destruct (Hok Hc) as [m' [d' [b' [log [Ew [Hp _]]]]]]. rewrite Ew.
        destruct Hp as [Hadv [Hwf' _]]. pose proof (adv_counters _ _ _ Hadv) as Hac. destruct Hadv as [_ [Hcons _]].
        destruct (N.min count (lenN data)) as [|p] eqn:Ek.
        -- cbn [N.eqb vrun snd]. reflexivity.
        -- cbn [N.eqb].
           assert (E1 : nth_error (v_wr (mkv m' d' (v_rd st) (set_nth i b' (v_wr st)))) i = Some b')
             by (cbn [v_wr]; eapply nth_error_set_nth_same; eauto).
           assert (Hc1 : count - N.pos p <= avail b') by lia.
           specialize (IH (count - N.pos p) (mkv m' d' (v_rd st) (set_nth i b' (v_wr st))) i b' Hwf' Hc1 E1).
           cbn [v_mem v_dirty v_rd v_wr] in IH. rewrite <- IH.
           destruct (vw_wafs r (count - N.pos p) m' d' b') as [[[r2 m2] d2] b2]. rewrite set_nth_twice. reflexivity.
      * (* the source fails: nothing is consumed, the loop ends *)
        cbn [src_of]. rewrite vrun_one, (vstep_write_from _ _ _ _ _ E).
        destruct (SFail_stops count (v_mem st) (v_dirty st) b Hwf Hc) as [r0 [Ew [-> | ->]]]; rewrite Ew; reflexivity.
      * (* interrupted: the next answer *)
        apply IH; assumption.
Qed.

(* one operation of the extended machine is a run of the basic one *)
Theorem sstep_as_run x st : wf_st st -> exists ops, snd (sstep x st) = snd (vrun ops st).
Proof.
  intro Hwf. destruct x as [a|i count script]; cbn [sstep].
  - exists [desugar a]. rewrite async_op_same, vrun_one. reflexivity.
  - destruct (nth_error (v_wr st) i) as [b|] eqn:E; [|exists []; reflexivity].
    assert (Hb : wf_io b) by (destruct Hwf as [_ Hw]; eapply nth_error_Forall; eauto).
    unfold vw_write_all_from_s. destruct (N.ltb_spec (avail b) count) as [Hl|Hl].
    + exists []. cbn [vrun snd]. rewrite (set_nth_same _ _ _ E). apply mkv_eta.
    + exists (unroll i script count). pose proof (wafs_unroll script count st i b Hb Hl E) as H.
      destruct (vw_wafs script count (v_mem st) (v_dirty st) b) as [[[r m'] d'] b']. exact H.
Qed.
Lemma srun_snd_cons x xs st : snd (srun (x :: xs) st) = snd (srun xs (snd (sstep x st))).
Proof. cbn [srun]. destruct (sstep x st) as [o st1]. cbn [snd]. destruct (srun xs st1) as [os st2]. reflexivity. Qed.
Theorem srun_as_run xs : forall st, wf_st st -> exists ops, snd (srun xs st) = snd (vrun ops st).
Proof.
  induction xs as [|x xs IH]; intros st Hwf; [exists []; reflexivity|].
  rewrite srun_snd_cons. destruct (sstep_as_run x st Hwf) as [o1 E1]. rewrite E1.
  destruct (IH (snd (vrun o1 st)) (vrun_wf _ _ Hwf)) as [o2 E2]. exists (o1 ++ o2). rewrite vrun_snd_app. exact E2.
Qed.

(* C17 for runs with scripted sources: failing, short and interrupted transfers included *)
Theorem scripted_written_marked xs st : wf_st st ->
  forall a, mget (v_mem (snd (srun xs st))) a <> mget (v_mem st) a -> v_dirty (snd (srun xs st)) (a / PS) = true.
Proof. intros Hwf a. destruct (srun_as_run xs st Hwf) as [ops ->]. apply written_marked. exact Hwf. Qed.
Theorem scripted_only_written xs st : wf_st st ->
  forall p, v_dirty (snd (srun xs st)) p = true -> v_dirty st p = true \/
    exists a b, a / PS = p /\ In b (v_wr st) /\ In a (flat (segs b)).
Proof. intros Hwf p. destruct (srun_as_run xs st Hwf) as [ops ->]. apply only_written. exact Hwf. Qed.
Theorem scripted_only_consumed_marked xs st : wf_st st -> NoDup (live (v_wr st)) ->
  forall p, v_dirty (snd (srun xs st)) p = true -> v_dirty st p = true \/
    exists a, a / PS = p /\ In a (live (v_wr st)) /\ ~ In a (live (v_wr (snd (srun xs st)))).
Proof. intros Hwf Hnd p. destruct (srun_as_run xs st Hwf) as [ops ->]. apply only_consumed_marked; assumption. Qed.
Theorem scripted_wf xs st : wf_st st -> wf_st (snd (srun xs st)).
Proof. intro Hwf. destruct (srun_as_run xs st Hwf) as [ops ->]. apply vrun_wf. exact Hwf. Qed.

(* the single operation, whatever it returns: what it modified is marked, and what it marked it consumed *)
Theorem failed_op_marks_what_it_wrote count script m d b : wf_io b ->
  let '(r, m', d', b') := vw_write_all_from_s count script m d b in
  (forall a, mget m' a <> mget m a -> d' (a / PS) = true) /\
  (forall p, d' p = true -> d p = true \/ exists a, a / PS = p /\ In a (flat (segs b))) /\ wf_io b'.
Proof.
  intro Hwf. set (st := mkv m d [] [b]).
  assert (Hst : wf_st st) by (split; cbn; repeat constructor; exact Hwf).
  pose proof (scripted_written_marked [SWriteAllFromS 0 count script] st Hst) as H1.
  pose proof (scripted_only_written [SWriteAllFromS 0 count script] st Hst) as H2.
  pose proof (scripted_wf [SWriteAllFromS 0 count script] st Hst) as H3.
  rewrite srun_snd_cons in H1, H2, H3. cbn [srun snd sstep st v_wr nth_error v_mem v_dirty v_rd] in H1, H2, H3.
  destruct (vw_write_all_from_s count script m d b) as [[[r m'] d'] b']. cbn [snd v_mem v_dirty v_wr set_nth] in H1, H2, H3.
  split; [exact H1|]. split.
  - intros p Hp. destruct (H2 p Hp) as [Hd|[a [b0 [Ha [[<-|[]] Hin]]]]]; [auto|]. right. eauto.
  - destruct H3 as [_ Hw]. inversion Hw; assumption.
Qed.
