(* Read-only operations (lookup, getattr, readdir, read, readlink, open O_RDONLY, getxattr,
   listxattr) only load directories into the cache: they change neither the layers nor the tree a
   client sees.  Consequences: per-operation refinement (view part) and restart equivalence for
   histories of read-only operations over arbitrary layer contents. *)
From Coq Require Import List String Arith NArith Bool Lia.
From FB Require Import Model.Overlay Proofs.OverlayInv Proofs.OverlayScan Proofs.OverlayRestart.
Import ListNotations.
Local Open Scope N_scope.

Section VS.
Variable s : state.

(* the view of a node once everything below it is loaded, at every depth *)
Definition V (f : nat) (n : node) : option tree := view_node f s (load_node f s n).
Definition vs (a b : node) : Prop := forall f, V f a = V f b.
Lemma vs_refl a : vs a a. Proof. intros f; reflexivity. Qed.
Lemma vs_trans a b c : vs a b -> vs b c -> vs a c.
Proof. intros H1 H2 f. rewrite H1. apply H2. Qed.

Definition crel (l l' : list (name * node)) : Prop :=
  Forall2 (fun a b => fst a = fst b /\ vs (snd a) (snd b)) l l'.
Lemma crel_refl l : crel l l.
Proof. induction l; constructor; auto using vs_refl. Qed.
Lemma crel_aset k v l l' : crel l l' -> crel (aset k v l) (aset k v l').
Proof.
  induction 1 as [|[a x] [b y] l l' [H1 H2] H IH]; cbn [aset].
  - constructor; [split; [reflexivity|apply vs_refl]|constructor].
  - cbn [fst snd] in *. subst b. destruct (String.eqb k a).
    + constructor; [split; [reflexivity|apply vs_refl]|exact H].
    + constructor; [split; [reflexivity|exact H2]|exact IH].
Qed.
Lemma crel_fold (cs : list (name * node)) : forall l l', crel l l' ->
  crel (fold_left (fun acc kv => aset (fst kv) (snd kv) acc) cs l)
       (fold_left (fun acc kv => aset (fst kv) (snd kv) acc) cs l').
Proof. induction cs as [|kv cs IH]; intros l l' H; cbn [fold_left]; [exact H|]. apply IH. apply crel_aset. exact H. Qed.
Lemma crel_views f l l' : crel l l' ->
  filter_map (fun kv => match view_node f s (snd kv) with Some t => Some (fst kv, t) | None => None end)
             (map (fun kv => (fst kv, load_node f s (snd kv))) l) =
  filter_map (fun kv => match view_node f s (snd kv) with Some t => Some (fst kv, t) | None => None end)
             (map (fun kv => (fst kv, load_node f s (snd kv))) l').
Proof.
  induction 1 as [|[a x] [b y] l l' [H1 H2] H IH]; cbn [map filter_map fst snd]; [reflexivity|].
  cbn [fst snd] in *. subst b. specialize (H2 f). unfold V in H2. rewrite H2, IH. reflexivity.
Qed.

Lemma first_real_stat n t : first_real_tree s n = Some t -> node_stat s n = Some t.
Proof.
  unfold first_real_tree, node_stat. destruct (n_reals n) as [|r rs]; [discriminate|].
  cbn [map first_some]. intros ->. reflexivity.
Qed.
(* what view_node shows of a node that is not (known to be) a directory does not depend on children *)
Lemma view_nondir f a b : n_reals a = n_reals b -> n_wh a = n_wh b ->
  (forall m x ch, node_stat s a <> Some (Dir m x ch)) ->
  view_node (S f) s a = view_node (S f) s b.
Proof.
  intros Hr Hw Hnd. cbn [view_node]. rewrite Hw. destruct (n_wh b); [reflexivity|].
  assert (Hf : first_real_tree s a = first_real_tree s b) by (unfold first_real_tree; rewrite Hr; reflexivity).
  rewrite <- Hf. destruct (first_real_tree s a) as [[m x ch| | |]|] eqn:E; try reflexivity.
  exfalso. exact (Hnd m x ch (first_real_stat a _ E)).
Qed.

(* same backing inodes, flags and view-equivalent children: same view *)
Lemma node_congr a b : n_reals a = n_reals b -> n_wh a = n_wh b -> n_loaded a = n_loaded b ->
  crel (n_ch a) (n_ch b) -> vs a b.
Proof.
  intros Hr Hw Hl Hc f. destruct f as [|f]; [reflexivity|]. unfold V. cbn [load_node]. rewrite Hw.
  assert (Hst : node_stat s a = node_stat s b) by (unfold node_stat; rewrite Hr; reflexivity).
  destruct (n_wh b) eqn:Ew.
  - cbn [view_node]. rewrite Hw, Ew. reflexivity.
  - rewrite <- Hst. destruct (node_stat s a) as [[m x ch| | |]|] eqn:Es;
      try (apply view_nondir; [assumption|congruence|intros ? ? ?; rewrite Es; discriminate]).
    assert (H1 : n_reals (load1 s a) = n_reals (load1 s b) /\ n_wh (load1 s a) = n_wh (load1 s b) /\
                 n_loaded (load1 s a) = n_loaded (load1 s b) /\ crel (n_ch (load1 s a)) (n_ch (load1 s b))).
    { unfold load1. rewrite Hl. destruct (n_loaded b) eqn:Elb; [repeat split; try assumption; congruence|].
      rewrite (scan_children_reals s a b Hr). destruct (scan_children s b) as [cs|e]; [|repeat split; try assumption; congruence].
      unfold set_loaded; cbn [n_reals n_wh n_loaded n_ch]. split; [exact Hr|]. split; [congruence|]. split; [reflexivity|]. apply crel_fold. exact Hc. }
    destruct H1 as (R1 & R2 & R3 & R4). cbn [view_node n_wh]. rewrite R2.
    destruct (n_wh (load1 s b)); [reflexivity|]. unfold first_real_tree; cbn [n_reals]. rewrite R1.
    destruct (n_reals (load1 s b)) as [|r rs]; [reflexivity|].
    destruct (real_tree s r) as [[m' x' ch'| | |]|]; try reflexivity.
    cbn [n_ch]. rewrite (crel_views f _ _ R4). reflexivity.
Qed.

(* loading one directory somewhere in the cache does not change the view *)
Lemma load1_vs r : vs (load1 s r) r.
Proof.
  intros f. destruct f as [|f]; [reflexivity|]. unfold V. cbn [load_node].
  destruct (load1_reals s r) as [Hr Hw]. rewrite Hw.
  assert (Hst : node_stat s (load1 s r) = node_stat s r) by (unfold node_stat; rewrite Hr; reflexivity).
  rewrite Hst, load1_idem. destruct (n_wh r) eqn:Ew.
  - cbn [view_node]. rewrite Hw, Ew. reflexivity.
  - destruct (node_stat s r) as [[m x ch| | |]|] eqn:Es; [rewrite ?Hw; reflexivity| | | |];
      (apply view_nondir; [assumption|congruence|intros ? ? ? HH; congruence]).
Qed.
Lemma nupd_load_vs p : forall r, vs (nupd p (load1 s) r) r.
Proof.
  induction p as [|c p IH]; intros r; cbn [nupd]; [apply load1_vs|].
  destruct r as [rs w l ch]; cbn [n_reals n_wh n_loaded n_ch].
  apply node_congr; cbn [n_reals n_wh n_loaded n_ch]; try reflexivity.
  unfold amap. induction ch as [|[k x] ch IHc]; cbn [map]; constructor; [|exact IHc].
  cbn [fst snd]. destruct (String.eqb c k); cbn [fst snd]; split; auto using vs_refl.
Qed.
(* ... nor does loading everything *)
Lemma load_node_vs D : forall r, vs (load_node D s r) r.
Proof.
  induction D as [|D IH]; intros r; [apply vs_refl|]. cbn [load_node].
  destruct (n_wh r); [apply vs_refl|].
  destruct (node_stat s r) as [[m x ch| | |]|]; try apply vs_refl.
  eapply vs_trans; [|apply load1_vs].
  apply node_congr; cbn [n_reals n_wh n_loaded n_ch]; try reflexivity.
  induction (n_ch (load1 s r)) as [|[k y] l IHl]; cbn [map]; constructor; [|exact IHl].
  cbn [fst snd]. split; [reflexivity|apply IH].
Qed.
End VS.

Lemma vs_ext s s' a b : same_layers s s' -> vs s a b -> vs s' a b.
Proof.
  intros H Hv f. unfold V. specialize (Hv f). unfold V in Hv.
  assert (H' : same_layers s' s) by (destruct H; split; auto).
  rewrite (load_node_ext s' s f H' a), (load_node_ext s' s f H' b).
  rewrite (view_node_ext s' s f H'), (view_node_ext s' s f H'). exact Hv.
Qed.

(* ------------------------------------------------------------------ operations that keep layers and view *)
Definition keeps {A} (m : M A) : Prop := forall s,
  upper (snd (m s)) = upper s /\ lowers (snd (m s)) = lowers s /\
  next_ino (snd (m s)) = next_ino s /\ log (snd (m s)) = log s /\ vs s (root (snd (m s))) (root s).

Lemma keeps_same {A} (m : M A) : (forall s, snd (m s) = s) -> keeps m.
Proof. intros H s. rewrite H. repeat split; auto; try apply vs_refl. Qed.
Lemma keeps_bind {A B} (m : M A) (f : A -> M B) : keeps m -> (forall a, keeps (f a)) -> keeps (bind m f).
Proof.
  intros Hm Hf s. unfold bind. destruct (Hm s) as (A1 & A2 & A3 & A4 & A5).
  destruct (m s) as [[a|e] s1]; cbn [snd] in *; [|repeat split; auto].
  destruct (Hf a s1) as (B1 & B2 & B3 & B4 & B5). repeat split; try congruence.
  eapply vs_trans; [|exact A5]. apply (vs_ext s1 s); [split; assumption|exact B5].
Qed.
Lemma keeps_if {A} (b : bool) (m1 m2 : M A) : keeps m1 -> keeps m2 -> keeps (if b then m1 else m2).
Proof. destruct b; auto. Qed.
Lemma keeps_ret {A} (a : A) : keeps (ret a). Proof. apply keeps_same; reflexivity. Qed.
Lemma keeps_fail {A} e : keeps (@fail A e). Proof. apply keeps_same; reflexivity. Qed.
Lemma keeps_get_node p : keeps (get_node p).
Proof. apply keeps_same. intros s. unfold get_node. destruct (nget p (root s)); reflexivity. Qed.
Lemma keeps_stat_node n : keeps (stat_node n).
Proof. apply keeps_same. intros s. unfold stat_node. destruct (node_stat s n); reflexivity. Qed.
Lemma keeps_load_dir p : keeps (load_dir p).
Proof.
  unfold load_dir. apply keeps_bind; [apply keeps_get_node|]. intros n.
  destruct (n_loaded n); [apply keeps_ret|]. intros s.
  destruct (scan_children s n); [|cbn; repeat split; auto; try apply vs_refl].
  unfold mod_node; cbn [snd upper lowers next_ino log root]. repeat split; auto. apply nupd_load_vs.
Qed.
Lemma keeps_load_if_dir p n st : keeps (load_if_dir p n st).
Proof. unfold load_if_dir. apply keeps_if; [apply keeps_load_dir|apply keeps_ret]. Qed.
Lemma keeps_lookup_node p nm : keeps (lookup_node p nm).
Proof.
  unfold lookup_node. apply keeps_bind; [apply keeps_get_node|]. intros pn.
  apply keeps_if; [apply keeps_fail|]. apply keeps_bind; [apply keeps_stat_node|]. intros st.
  apply keeps_bind; [apply keeps_load_if_dir|]. intros _.
  destruct nm as [c|]; [|apply keeps_ret]. apply keeps_bind; [apply keeps_get_node|]. intros pn'.
  destruct (afind c (n_ch pn')); [apply keeps_ret|apply keeps_fail].
Qed.
Lemma keeps_do_lookup p nm : keeps (do_lookup p nm).
Proof.
  unfold do_lookup. apply keeps_bind; [apply keeps_lookup_node|]. intros q.
  apply keeps_bind; [apply keeps_get_node|]. intros n. apply keeps_if; [apply keeps_fail|].
  apply keeps_bind; [apply keeps_stat_node|]. intros st.
  apply keeps_bind; [apply keeps_load_if_dir|]. intros _. apply keeps_ret.
Qed.
Lemma keeps_walk_from p : forall cur, keeps (walk_from cur p).
Proof.
  induction p as [|c p IH]; intros cur; cbn [walk_from]; [apply keeps_ret|].
  apply keeps_bind; [apply keeps_do_lookup|]. intros _. apply IH.
Qed.
Lemma keeps_walk p : keeps (walk p). Proof. apply keeps_walk_from. Qed.
Lemma keeps_with_parent {A} p (f : path -> name -> M A) : (forall pp nm, keeps (f pp nm)) -> keeps (with_parent p f).
Proof.
  intros H. unfold with_parent. destruct (split_last p) as [[pp nm]|]; [|apply keeps_fail].
  apply keeps_bind; [apply keeps_walk|]. intros _. apply H.
Qed.
Lemma keeps_first_real n : keeps (first_real n).
Proof. unfold first_real. destruct (n_reals n); [apply keeps_fail|apply keeps_ret]. Qed.
Lemma keeps_first_tree p : keeps (first_tree p).
Proof.
  unfold first_tree. apply keeps_bind; [apply keeps_get_node|]. intros n.
  apply keeps_bind; [apply keeps_first_real|]. intros r.
  apply keeps_same. intros s. destruct (real_tree s r); reflexivity.
Qed.
Lemma keeps_node_checked p : keeps (node_checked p).
Proof.
  unfold node_checked. apply keeps_bind; [apply keeps_lookup_node|]. intros _.
  apply keeps_bind; [apply keeps_get_node|]. intros n. apply keeps_if; [apply keeps_fail|apply keeps_ret].
Qed.
Lemma ro_not_trunc fl : of_readonly fl = true -> of_trunc fl = false.
Proof. intros H. destruct (of_trunc fl) eqn:E; [|reflexivity]. rewrite (of_trunc_not_readonly fl E) in H. discriminate. Qed.
Lemma keeps_open_ro p fl : of_readonly fl = true -> keeps (do_open p fl).
Proof.
  intros Hro. unfold do_open. rewrite Hro, (ro_not_trunc fl Hro).
  apply keeps_bind; [apply keeps_lookup_node|]. intros _.
  apply keeps_bind; [apply keeps_get_node|]. intros n. apply keeps_if; [apply keeps_fail|].
  apply keeps_bind; [apply keeps_ret|]. intros _.
  apply keeps_bind; [apply keeps_get_node|]. intros n'.
  apply keeps_bind; [apply keeps_first_real|]. intros r.
  apply keeps_bind; [apply keeps_same; intros s; destruct (real_tree s r); reflexivity|]. intros t.
  destruct t; try apply keeps_fail; [apply keeps_ret|].
  apply keeps_bind; [apply keeps_ret|]. intros _. apply keeps_ret.
Qed.

(* the proved class of operations *)
Definition readonly_op (o : op) : bool := negb (modifying o).

Theorem readonly_keeps o : readonly_op o = true -> keeps (step o).
Proof.
  unfold readonly_op. destruct o; cbn [modifying negb]; try discriminate; intros Hro; cbn [step].
  - (* lookup *) apply keeps_with_parent. intros pp nm. unfold entry_of.
    apply keeps_bind; [apply keeps_do_lookup|]. intros e. apply keeps_ret.
  - (* getattr *) apply keeps_bind; [apply keeps_walk|]; intros _. apply keeps_bind; [apply keeps_lookup_node|]; intros _.
    apply keeps_bind; [apply keeps_first_tree|]. intros rt. apply keeps_ret.
  - (* readdir *) apply keeps_bind; [apply keeps_walk|]; intros _. apply keeps_bind; [apply keeps_lookup_node|]; intros _.
    apply keeps_bind; [apply keeps_get_node|]. intros n. apply keeps_if; [apply keeps_fail|].
    apply keeps_bind; [apply keeps_stat_node|]. intros st. apply keeps_if; [apply keeps_fail|apply keeps_ret].
  - (* read *) apply keeps_bind; [apply keeps_walk|]; intros _. apply keeps_bind; [apply keeps_open_ro; reflexivity|]. intros r.
    apply keeps_same. intros s. destruct (real_tree s r) as [[]|]; reflexivity.
  - (* readlink *) apply keeps_bind; [apply keeps_walk|]; intros _. apply keeps_bind; [apply keeps_node_checked|]; intros _.
    apply keeps_bind; [apply keeps_first_tree|]. intros rt. destruct (snd rt); try apply keeps_fail. apply keeps_ret.
  - (* open, read-only by the code's own mask *)
    assert (Hro' : of_readonly fl = true) by (destruct (of_readonly fl); [reflexivity|discriminate Hro]).
    apply keeps_bind; [apply keeps_walk|]; intros _. apply keeps_bind; [apply keeps_open_ro; exact Hro'|]. intros r. apply keeps_ret.
  - (* getxattr *) apply keeps_bind; [apply keeps_walk|]; intros _. apply keeps_bind; [apply keeps_node_checked|]; intros _.
    apply keeps_bind; [apply keeps_first_tree|]. intros rt. destruct (afind k (xs_of (snd rt))); [apply keeps_ret|apply keeps_fail].
  - (* listxattr *) apply keeps_bind; [apply keeps_walk|]; intros _. apply keeps_bind; [apply keeps_node_checked|]; intros _.
    apply keeps_bind; [apply keeps_first_tree|]. intros rt. apply keeps_ret.
Qed.

(* ------------------------------------------------------------------ consequences *)
Lemma view_load_all_vs s r' :
  upper s = upper s -> vs s r' (root s) ->
  forall s', upper s' = upper s -> lowers s' = lowers s -> root s' = r' ->
  view (load_all s') = view (load_all s).
Proof.
  intros _ Hv s' Hu Hl Hr. unfold view, load_all. cbn [root]. subst r'.
  assert (L1 : same_layers (mkState (upper s') (lowers s') (load_node DEPTH s' (root s')) (next_ino s') (log s')) s)
    by (split; cbn; assumption).
  assert (L2 : same_layers (mkState (upper s) (lowers s) (load_node DEPTH s (root s)) (next_ino s) (log s)) s)
    by (split; reflexivity).
  assert (L3 : same_layers s' s) by (split; assumption).
  rewrite (view_node_ext _ s DEPTH L1), (view_node_ext _ s DEPTH L2), (load_node_ext s' s DEPTH L3).
  exact (Hv DEPTH).
Qed.

(* one read-only operation: layers, log and the client's view are unchanged *)
Theorem readonly_step o s : readonly_op o = true ->
  upper (run_op o s) = upper s /\ lowers (run_op o s) = lowers s /\ log (run_op o s) = log s /\
  view (load_all (run_op o s)) = view (load_all s).
Proof.
  intros H. destruct (readonly_keeps o H s) as (A1 & A2 & A3 & A4 & A5). unfold run_op.
  repeat split; auto. eapply view_load_all_vs; [reflexivity|exact A5|assumption|assumption|reflexivity].
Qed.

Definition readonly_history (ops : list (bool * op)) : bool := forallb (fun o => readonly_op (snd o)) ops.

Lemma readonly_run ops : readonly_history ops = true -> forall s,
  let s' := run_dumps ops s in
  upper s' = upper s /\ lowers s' = lowers s /\ next_ino s' = next_ino s /\ vs s (root s') (root s).
Proof.
  induction ops as [|[d o] ops IH]; intros Hro s; cbn [run_dumps]; [repeat split; auto; try apply vs_refl|].
  cbn [readonly_history forallb snd] in Hro. apply andb_prop in Hro. destruct Hro as [Ho Hr].
  destruct (readonly_keeps o Ho s) as (A1 & A2 & A3 & A4 & A5). fold (run_op o s) in *.
  set (s1 := if d then load_all (run_op o s) else run_op o s).
  assert (H1 : upper s1 = upper s /\ lowers s1 = lowers s /\ next_ino s1 = next_ino s /\ vs s (root s1) (root s)).
  { unfold s1. destruct d; [|auto]. unfold load_all; cbn [upper lowers next_ino root]. repeat split; auto.
    eapply vs_trans; [|exact A5]. apply (vs_ext (run_op o s) s); [split; assumption|apply load_node_vs]. }
  destruct H1 as (B1 & B2 & B3 & B4). destruct (IH Hr s1) as (C1 & C2 & C3 & C4). cbv zeta in *.
  repeat split; try congruence. eapply vs_trans; [|exact B4]. apply (vs_ext s1 s); [split; assumption|exact C4].
Qed.

(* restart equivalence for all layer contents and all histories of read-only operations *)
Theorem restart_partial u ls nx ops :
  Forall layer_ok (all_layers u ls) -> readonly_history ops = true -> restart_same_view u ls nx ops.
Proof.
  intros Hok Hro. unfold restart_same_view. cbv zeta. f_equal.
  set (s0 := load_all (fresh u ls nx)).
  destruct (readonly_run ops Hro s0) as (A1 & A2 & A3 & A4). cbv zeta in *.
  set (s := run_dumps ops s0) in *.
  assert (Hu0 : upper s0 = u /\ lowers s0 = ls).
  { unfold s0, load_all; cbn [upper lowers]. unfold fresh, load_dir, bind, get_node. cbn [nget root fresh0].
    match goal with |- context [n_loaded ?n] => destruct (n_loaded n) end; cbn; [auto|].
    match goal with |- context [scan_children ?a ?b] => destruct (scan_children a b) end; cbn; auto. }
  destruct Hu0 as [U0 L0].
  rewrite restart_shows_union by (rewrite A1, A2, U0, L0; exact Hok).
  rewrite A1, A2, U0, L0, <- (scan_is_merge u ls nx Hok).
  transitivity (view (load_all s0)).
  - unfold s0. symmetry. eapply view_load_all_vs; [reflexivity| |reflexivity|reflexivity|reflexivity].
    unfold load_all; cbn [root]. apply load_node_vs.
  - symmetry. eapply view_load_all_vs; [reflexivity|exact A4|assumption|assumption|reflexivity].
Qed.

(* per-operation refinement, view part, for the read-only operations: the ordinary file system step
   leaves the tree unchanged and so does the overlay *)
Lemma fs_apply_readonly o f : readonly_op o = true -> f_tree (snd (fs_apply o f)) = f_tree f.
Proof.
  unfold readonly_op. destruct o; cbn [modifying negb]; try discriminate; intros Hro; cbn [fs_apply].
  - destruct (tget (f_tree f) p); reflexivity.
  - destruct (tget (f_tree f) p); reflexivity.
  - destruct (tget (f_tree f) p) as [[]|]; reflexivity.
  - destruct (tget (f_tree f) p) as [[]|]; reflexivity.
  - destruct (tget (f_tree f) p) as [[]|]; reflexivity.
  - assert (Hro' : of_readonly fl = true) by (destruct (of_readonly fl); [reflexivity|discriminate Hro]).
    rewrite Hro', (ro_not_trunc fl Hro'). destruct (tget (f_tree f) p) as [[]|]; reflexivity.
  - destruct (tget (f_tree f) p) as [t|]; [destruct (afind k (xs_of t))|]; reflexivity.
  - destruct (tget (f_tree f) p); reflexivity.
Qed.
Definition op_refines_view (s : state) (o : op) : Prop :=
  match view (load_all s) with
  | Some v => ser_opt (view (load_all (run_op o s))) = ser SER (f_tree (snd (fs_apply o (mkFs v (next_ino s)))))
  | None => True
  end.
Theorem op_refines_partial s o : readonly_op o = true ->
  op_refines_view s o /\ upper (run_op o s) = upper s /\ lowers (run_op o s) = lowers s.
Proof.
  intros H. destruct (readonly_step o s H) as (A1 & A2 & _ & A4). split; [|auto].
  unfold op_refines_view. destruct (view (load_all s)) as [v|] eqn:E; [|exact I].
  rewrite A4, fs_apply_readonly by exact H. rewrite ?E. reflexivity.
Qed.
