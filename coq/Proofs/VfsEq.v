(* Observational equality of Vfs states: two states with the same counters, options and mappings whose three
   tables (pseudo inodes, mount points, superblocks) give the same entry for every key answer every request
   identically.  The tables of a restored Vfs are built in another order than those of the original (HashMap
   iteration order, re-attachment order), so this is the relation of the C19 bisimulation.
   This file: the relation and every read-only operation (all FileSystem methods of Vfs, sync and async). *)
From Coq Require Import List NArith Bool Lia.
From FB Require Import Model.Pseudo Gen.VfsTable Model.Vfs Proofs.VfsInv.
Import ListNotations.
Local Open Scope N_scope.

Definition tbl_eq (a b : pseudo) : Prop := forall j, aget j (ps_inodes a) = aget j (ps_inodes b).

Record veq (s t : vfs) : Prop := mkVeq {
  q_next : v_next s = v_next t;
  q_psn : ps_next (v_ps s) = ps_next (v_ps t);
  q_tbl : tbl_eq (v_ps s) (v_ps t);
  q_mps : forall j, aget j (v_mps s) = aget j (v_mps t);
  q_sb : forall j, aget j (v_sb s) = aget j (v_sb t);
  q_maps : v_maps s = v_maps t;
  q_opts : v_opts s = v_opts t;
  q_init : v_init s = v_init t;
  q_rm : v_rm s = v_rm t;
  q_gmap : v_gmap s = v_gmap t }.

Lemma veq_refl s : veq s s.
Proof. constructor; try reflexivity; intros j; reflexivity. Qed.
Lemma veq_sym s t : veq s t -> veq t s.
Proof. intros [A B C D E F G H I J]. constructor; try (symmetry; assumption); intros j; symmetry; auto. Qed.
Lemma veq_trans s t u : veq s t -> veq t u -> veq s u.
Proof.
  intros [A B C D E F G H I J] [A' B' C' D' E' F' G' H' I' J'].
  constructor; try (etransitivity; eassumption); intros j; [rewrite C|rewrite D|rewrite E]; auto.
Qed.

Section Cong.
Variables s t : vfs.
Hypothesis Q : veq s t.

Lemma effective_mapping_veq idx : effective_mapping s idx = effective_mapping t idx.
Proof. unfold effective_mapping. rewrite (q_maps _ _ Q), (q_gmap _ _ Q). reflexivity. Qed.

Lemma convert_entry_veq idx inode e : convert_entry s idx inode e = convert_entry t idx inode e.
Proof. unfold convert_entry. rewrite effective_mapping_veq. reflexivity. Qed.

Lemma convert_attr_veq nodeid idx a : convert_attr s nodeid idx a = convert_attr t nodeid idx a.
Proof. unfold convert_attr. rewrite effective_mapping_veq. reflexivity. Qed.

Lemma ctx_idx_veq hdr : ctx_idx s hdr = ctx_idx t hdr.
Proof. unfold ctx_idx. rewrite (q_mps _ _ Q). reflexivity. Qed.

Lemma srv_remap_ctx_veq hdr c : srv_remap_ctx s hdr c = srv_remap_ctx t hdr c.
Proof. unfold srv_remap_ctx. rewrite ctx_idx_veq, effective_mapping_veq. reflexivity. Qed.

Lemma get_fs_by_idx_veq idx : get_fs_by_idx s idx = get_fs_by_idx t idx.
Proof. unfold get_fs_by_idx. rewrite (q_sb _ _ Q). reflexivity. Qed.

Lemma get_real_rootfs_veq n : get_real_rootfs s n = get_real_rootfs t n.
Proof.
  unfold get_real_rootfs. rewrite (q_mps _ _ Q).
  destruct (fs_idx n =? 0); [|rewrite get_fs_by_idx_veq; reflexivity].
  destruct (ino_of n =? ROOT_ID); [|reflexivity].
  destruct (aget ROOT_ID (v_mps t)); [|reflexivity]. rewrite get_fs_by_idx_veq. reflexivity.
Qed.

Lemma ps_lookup_veq parent nm : ps_lookup (v_ps s) parent nm = ps_lookup (v_ps t) parent nm.
Proof. unfold ps_lookup. rewrite (q_tbl _ _ Q parent). reflexivity. Qed.
Lemma ps_getattr_veq ino : ps_getattr (v_ps s) ino = ps_getattr (v_ps t) ino.
Proof. unfold ps_getattr. rewrite (q_tbl _ _ Q ino). reflexivity. Qed.
Lemma ps_readdir_veq ino size off : ps_readdir (v_ps s) ino size off = ps_readdir (v_ps t) ino size off.
Proof. unfold ps_readdir. rewrite (q_tbl _ _ Q ino). reflexivity. Qed.

Lemma lookup_pseudo_veq n nm : lookup_pseudo s n nm = lookup_pseudo t n nm.
Proof.
  unfold lookup_pseudo. rewrite ps_lookup_veq. destruct (ps_lookup (v_ps t) (ino_of n) nm) as [ino| |]; try reflexivity.
  cbn [bind]. rewrite (q_mps _ _ Q ino), convert_entry_veq. reflexivity.
Qed.

Lemma backend_entry_veq a idx : backend_entry s a idx = backend_entry t a idx.
Proof. unfold backend_entry. rewrite convert_entry_veq. reflexivity. Qed.

Lemma feed_ext {A} (f g : A -> outcome (dirent * option entry)) : (forall x, f x = g x) ->
  forall l limit, feed f limit l = feed g limit l.
Proof.
  intros E. induction l as [|x r IH]; intros limit; [reflexivity|]. cbn [feed]. rewrite (E x).
  destruct (g x); try reflexivity. destruct limit; [reflexivity|]. rewrite IH. reflexivity.
Qed.

Lemma readdir_pseudo_veq plus n size off limit : readdir_pseudo s plus n size off limit = readdir_pseudo t plus n size off limit.
Proof.
  unfold readdir_pseudo. rewrite ps_readdir_veq.
  destruct (ps_readdir (v_ps t) (ino_of n) size off) as [cands| |]; try reflexivity. cbn [bind].
  erewrite feed_ext; [reflexivity|]. intros [[ino nm] o]. rewrite (q_mps _ _ Q ino), effective_mapping_veq. reflexivity.
Qed.

Lemma readdir_backend_veq plus idx a off limit : readdir_backend s plus idx a off limit = readdir_backend t plus idx a off limit.
Proof.
  unfold readdir_backend. destruct (negb (n_err a =? 0)); [reflexivity|].
  erewrite feed_ext; [reflexivity|]. intros [[[dino nm] e] o]. rewrite effective_mapping_veq. reflexivity.
Qed.

Lemma gate_closed_veq g : gate_closed s g = gate_closed t g.
Proof. unfold gate_closed. rewrite (q_opts _ _ Q). reflexivity. Qed.

Lemma forget_one_veq c ino : forget_one s c ino = forget_one t c ino.
Proof. unfold forget_one. rewrite get_real_rootfs_veq. reflexivity. Qed.

Ltac veq_crush :=
  repeat first
    [ reflexivity
    | progress (rewrite ?get_real_rootfs_veq, ?forget_one_veq, ?lookup_pseudo_veq, ?backend_entry_veq, ?ps_getattr_veq,
                  ?convert_attr_veq, ?effective_mapping_veq, ?gate_closed_veq, ?readdir_pseudo_veq, ?readdir_backend_veq)
    | match goal with |- context [match ?x with _ => _ end] => destruct x end
    | match goal with |- context [bind ?x _] => destruct x; cbn [bind] end ].

Lemma vfs_op_veq c o a : vfs_op s c o a = vfs_op t c o a.
Proof. destruct o; cbn [vfs_op]; veq_crush. Qed.

Lemma vfs_request_veq hdr c o a : vfs_request s hdr c o a = vfs_request t hdr c o a.
Proof. unfold vfs_request. rewrite srv_remap_ctx_veq. destruct (srv_remap_ctx t hdr c); try reflexivity. apply vfs_op_veq. Qed.

Lemma vfs_request_async_veq hdr c o a : vfs_request_async s hdr c o a = vfs_request_async t hdr c o a.
Proof.
  unfold vfs_request_async, vfs_async_op. rewrite srv_remap_ctx_veq. destruct (srv_remap_ctx t hdr c); try reflexivity.
  rewrite vfs_op_veq. reflexivity.
Qed.

End Cong.
