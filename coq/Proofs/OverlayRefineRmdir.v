(* Per-operation refinement: RMDIR of a directory of the upper layer that is empty IN THE VIEW although its parts are not -
   every name that a directory merged into it holds is hidden by a whiteout (typically: the files of a merged directory were
   unlinked one by one, which left whiteouts in its upper part).  empty_node_directory deletes the upper whiteouts first, then
   the directory is removed and, if lower candidates exist, replaced by a whiteout. *)
From Coq Require Import List String Arith NArith Bool Lia.
From FB Require Import Model.Overlay Proofs.OverlayInv Proofs.OverlayScan Proofs.OverlayRestart
  Proofs.OverlayReadOnly Proofs.OverlayCoh Proofs.OverlayCohView Proofs.OverlayCopyUp Proofs.OverlayCohOps
  Proofs.OverlayCohSteps Proofs.OverlayRefineTeq Proofs.OverlayRefineMerge Proofs.OverlayRefineRun Proofs.OverlayRefine
  Proofs.OverlayRefineWh Proofs.OverlayRefineCu.
Import ListNotations.
Local Open Scope N_scope.

(* every name of the merged directory has a whiteout as first candidate *)
Definition view_empty (g : list tree) : Prop :=
  forall k, match ents k (dir_stack g) with [] => True | t :: _ => t = Wh end.
Definition view_emptyb (g : list tree) : bool :=
  forallb (fun kg : name * list tree => match snd kg with Wh :: _ => true | _ => false end) (collect_trees (dir_stack g)).
Lemma view_emptyb_ok g : Forall wf g -> view_emptyb g = true -> view_empty g.
Proof.
  intros W H k. unfold view_emptyb in H. rewrite forallb_forall in H.
  assert (Hnd : Forall nodup_dir (dir_stack g)) by (eapply Forall_impl; [|apply dir_stack_wf; exact W]; apply wf_nodup_dir).
  destruct (collect_trees_spec _ Hnd) as [A B]. specialize (B k).
  destruct (ents k (dir_stack g)) as [|t l] eqn:E; [exact I|].
  specialize (H (k, t :: l) (afind_In' _ _ _ B)). cbn [snd] in H. destruct t; try discriminate. reflexivity.
Qed.
Lemma resolve_view_empty f m x ch rest : Forall wf (Dir m x ch :: rest) -> view_empty (Dir m x ch :: rest) ->
  resolve (S (S f)) (Dir m x ch :: rest) = Some (Dir m (user_xs x) []).
Proof.
  intros W He. destruct (resolve_dir_spec (S f) m x ch rest W) as (chs & E & N & K). rewrite E. f_equal. f_equal.
  apply all_none_nil. intros k. rewrite K. specialize (He k). destruct (ents k (dir_stack (Dir m x ch :: rest))) as [|t l]; [reflexivity|].
  subst t. reflexivity.
Qed.

Lemma tupd_del_inner (pp : path) (nm : name) g : forall u, tupd pp (dir_del nm) (tupd (pp ++ [nm]) g u) = tupd pp (dir_del nm) u.
Proof.
  intros u. rewrite tupd_snoc, tupd_tupd. apply tupd_ext. intros d. destruct d; cbn [chmap dir_del]; try reflexivity. rewrite adel_amap. reflexivity.
Qed.

Lemma filter_all_false {A} (f : A -> bool) l : (forall a, In a l -> f a = false) -> filter f l = [].
Proof. induction l as [|a l IH]; intros H; cbn [filter]; [reflexivity|]. rewrite (H a (or_introl eq_refl)). apply IH. intros b Hb. apply H. right. exact Hb. Qed.
Lemma filter_all_true {A} (f : A -> bool) l : (forall a, In a l -> f a = true) -> filter f l = l.
Proof. induction l as [|a l IH]; intros H; cbn [filter]; [reflexivity|]. rewrite (H a (or_introl eq_refl)). f_equal. apply IH. intros b Hb. apply H. right. exact Hb. Qed.

Lemma do_rmdir_emptied_run (pp : path) (nm : name) s u pn m x ch mq xq chq rest0 :
  Coherent s -> upper s = Some u -> nget pp (root s) = Some pn ->
  tget u pp = Some (Dir m x ch) -> afind nm ch = Some (Dir mq xq chq) ->
  mstack (u :: lowers s) (pp ++ [nm]) = Dir mq xq chq :: rest0 -> view_empty (Dir mq xq chq :: rest0) ->
  exists s' (b : bool), do_rm pp nm true s = (Ok tt, s') /\
    upper s' = Some (tupd pp (chmap (Grm nm true b)) u) /\ lowers s' = lowers s /\
    (b = false -> ents nm (tl (dir_stack (mstack (u :: lowers s) pp))) = []).
Proof.
  intros HC Hu Hg Hpp Hnm Hms Hemp.
  set (q := pp ++ [nm]) in *.
  assert (Hq : tget u q = Some (Dir mq xq chq)) by (unfold q; rewrite tget_app, Hpp; exact Hnm).
  destruct (upper_node s u pp pn _ HC Hu Hg Hpp) as (pr0 & prs0 & _ & _ & _ & _ & _ & Hw & Hfd). cbn in Hw, Hfd.
  destruct (lookup_run pp s pn HC Hg Hw) as (s1 & pn1 & HC1 & Hsd1 & Hg1 & Hw1 & Hr1 & _ & Hlk1).
  assert (Hu1 : upper s1 = Some u) by (destruct Hsd1 as (A & _); congruence).
  assert (Hl1 : lowers s1 = lowers s) by (destruct Hsd1 as (_ & B & _); exact B).
  destruct (lookup_cand_run pp nm s1 u pn1 m x ch (Dir mq xq chq) rest0 HC1 Hu1 Hg1 Hpp) as (s2 & pn2 & pr2 & prs2 & c & Elk2 & HC2 & Hsd2 & Hg2 & Hw2 & Hld2 & _ & _ & _ & _ & Hgq);
    [rewrite Hl1; exact Hms|]. fold q in Hgq, Elk2.
  pose proof (sd_trans _ _ _ Hsd1 Hsd2) as Hsd02. destruct Hsd02 as (U2 & L2 & I2).
  assert (Hu2 : upper s2 = Some u) by congruence.
  destruct (upper_node s2 u q c _ HC2 Hu2 Hgq Hq) as (cr & crs & Ecr & Hcup & _ & _ & Hstc & Hwc & _). cbn in Hwc.
  destruct (load_dir_run q s2 c _ _ _ HC2 Hgq Hstc) as (s3 & c3 & E3 & HC3 & Hsd3 & Hg3 & Hld3 & Hroot3).
  assert (Hu3 : upper s3 = Some u) by (destruct Hsd3 as (A & _); congruence).
  assert (Hl3 : lowers s3 = lowers s) by (destruct Hsd3 as (_ & B & _); congruence).
  assert (Hms3 : mstack (u :: lowers s3) q = Dir mq xq chq :: rest0) by (rewrite Hl3; exact Hms).
  assert (Hpn3 : exists pn3, nget pp (root s3) = Some pn3).
  { destruct Hroot3 as [->|[g ->]]; [eauto|]. unfold q. apply (nget_parent_nupd pp nm g (root s2) pn2 Hg2). }
  destruct Hpn3 as [pn3 Hgp3].
  destruct (upper_node s3 u q c3 _ HC3 Hu3 Hg3 Hq) as (cr3 & crs3 & Ecr3 & Hcup3 & Hcl03 & Hcpath3 & Hstc3 & _ & _).
  destruct (upper_node s3 u pp pn3 _ HC3 Hu3 Hgp3 Hpp) as (pr & prs & Er & Hup & Hl0 & Hpath & _ & Hw3 & _).
  pose proof HC3 as (_ & Hwl3 & HCT3). pose proof (HCT3 q c3 Hg3) as Nc3. cbn [app] in Nc3.
  destruct (ok_ld _ _ _ _ Nc3 Hld3) as (_ & _ & K3). pose proof (ok_nodup _ _ _ _ Nc3) as Hnd3.
  (* every child of the directory is a whiteout node *)
  assert (Hchild : forall k ck, afind k (n_ch c3) = Some ck -> n_wh ck = true /\ (in_upper ck = true -> afind k chq = Some Wh)).
  { intros k ck Hk. pose proof (nget_snoc q k (root s3) c3 ck Hg3 Hk) as Hgk.
    assert (Hne : lstack (shp s3) (List.length (lowers s3)) (q ++ [k]) <> []).
    { rewrite lstack_snoc. intros E. apply K3 in E. congruence. }
    destruct (lstack (shp s3) (List.length (lowers s3)) (q ++ [k])) as [|i0 ir] eqn:El; [contradiction|].
    pose proof (lstack_rel s3 u (q ++ [k]) Hu3) as R. rewrite El in R.
    destruct (mstack (u :: lowers s3) (q ++ [k])) as [|t' r'] eqn:Em; [inversion R|]. assert (He : entR s3 (q ++ [k]) i0 t') by (inversion R; assumption).
    rewrite mstack_snoc, Hms3 in Em. specialize (Hemp k). rewrite Em in Hemp. subst t'.
    destruct (cand_node s3 _ ck i0 ir Wh HC3 Hgk El He) as (kr & krs & Ekr & _ & _ & Hkup & _ & Hkw & _).
    split; [exact Hkw|]. unfold in_upper. rewrite Ekr, Hkup. intros H0. apply Nat.eqb_eq in H0. subst i0.
    unfold entR, ent in He. cbn [get_layer] in He. rewrite Hu3, tget_app, Hq in He. exact He. }
  assert (Hcnt : filter (fun kv : name * node => negb (n_wh (snd kv))) (n_ch c3) = []).
  { apply filter_all_false. intros [k ck] Hin. cbn [snd]. destruct (Hchild k ck (afind_In_nodup k ck _ Hnd3 Hin)) as [A _]. rewrite A. reflexivity. }
  assert (Hwhs : filter (fun kv : name * node => n_wh (snd kv)) (n_ch c3) = n_ch c3).
  { apply filter_all_true. intros [k ck] Hin. cbn [snd]. exact (proj1 (Hchild k ck (afind_In_nodup k ck _ Hnd3 Hin))). }
  assert (Hin3 : in_upper c3 = true) by (unfold in_upper; rewrite Ecr3; exact Hcup3).
  (* an upper entry of the directory has a cached child that is backed by the upper layer *)
  assert (Hupch : forall k e, afind k chq = Some e -> exists ck, afind k (n_ch c3) = Some ck /\ in_upper ck = true).
  { intros k e Hk. assert (Hqk : tget u (q ++ [k]) = Some e) by (rewrite tget_app, Hq; exact Hk).
    destruct (lstack_upper s3 u (q ++ [k]) Hu3 e Hqk) as [ir El].
    destruct (afind k (n_ch c3)) as [ck|] eqn:Eck.
    - exists ck. split; [reflexivity|]. pose proof (nget_snoc q k (root s3) c3 ck Hg3 Eck) as Hgk.
      destruct (upper_node s3 u (q ++ [k]) ck e HC3 Hu3 Hgk Hqk) as (kr & krs & Ekr & Hkup & _). unfold in_upper. rewrite Ekr. exact Hkup.
    - exfalso. apply K3 in Eck. rewrite <- lstack_snoc in Eck. unfold path, name in *. rewrite El in Eck. discriminate. }
  (* the emptying step *)
  assert (Hemptied : exists s4 D,
     (if negb (Nat.eqb (List.length (filter (fun kv : name * node => n_wh (snd kv)) (n_ch c3))) 0) && in_upper c3 then empty_node_directory q else ret tt) s3 = (Ok tt, s4) /\
     upper s4 = Some (tupd q (chmap (dels D)) u) /\ lowers s4 = lowers s3 /\ root s4 = nupd q (delsn D) (root s3) /\ dels D chq = []).
  { rewrite Hwhs, Hin3, andb_true_r. destruct (n_ch c3) as [|kc0 l0] eqn:Ech.
    - cbn [List.length Nat.eqb negb ret]. exists s3, []. split; [reflexivity|].
      assert (Hchq : chq = []). { apply all_none_nil. intros k. destruct (afind k chq) as [e|] eqn:E; [|reflexivity]. destruct (Hupch k e E) as (ck & A & _). discriminate. }
      split; [rewrite Hu3; f_equal; rewrite (tupd_ext q _ (fun t => t)); [rewrite tupd_id; reflexivity|]; intros d; destruct d; reflexivity|].
      split; [reflexivity|]. split; [|rewrite Hchq; reflexivity].
      rewrite (nupd_ext q _ (fun n => n)); [rewrite nupd_id; reflexivity|]. intros n. destruct n; reflexivity.
    - cbn [List.length Nat.eqb negb]. rewrite <- Ech in *.
      destruct (empty_children_run q (n_ch c3) s3 u mq xq chq Hu3 Hq) as (s4 & E4 & U4 & L4 & R4).
      { intros k c' Hin Hiu. destruct (Hchild k c' (afind_In_nodup k c' _ Hnd3 Hin)) as [A B]. split; [exact A|exact (B Hiu)]. }
      { exact Hnd3. }
      set (D := map fst (filter (fun kv : name * node => in_upper (snd kv)) (n_ch c3))) in *.
      exists s4, D. unfold empty_node_directory. rewrite (bind_ok _ _ _ _ _ (get_node_ok q s3 c3 Hg3)).
      assert (Es : stat_node c3 s3 = (Ok (Dir mq xq chq), s3)) by (unfold stat_node; rewrite Hstc3; reflexivity).
      rewrite (bind_ok _ _ _ _ _ Es). cbn [is_dirT negb].
      assert (Efr : first_real c3 s3 = (Ok cr3, s3)) by (unfold first_real; rewrite Ecr3; reflexivity).
      rewrite (bind_ok _ _ _ _ _ Efr), Hcup3, Hcl03, Hcpath3. cbn [negb]. split; [exact E4|]. split; [exact U4|]. split; [exact L4|]. split; [exact R4|].
      apply all_none_nil. intros k. rewrite afind_dels. destruct (afind k chq) as [e|] eqn:E; [|destruct (existsb (String.eqb k) D); reflexivity].
      destruct (Hupch k e E) as (ck & A & B).
      assert (Hex : existsb (String.eqb k) D = true).
      { apply existsb_exists. exists k. split; [|apply String.eqb_refl]. unfold D. apply in_map_iff. exists (k, ck). split; [reflexivity|].
        apply filter_In. split; [apply afind_In'; exact A|exact B]. }
      rewrite Hex. reflexivity. }
  destruct Hemptied as (s4 & D & E4 & U4 & L4 & R4 & HD).
  set (u4 := tupd q (chmap (dels D)) u) in *.
  assert (Hl4 : lowers s4 = lowers s) by congruence.
  set (pn4 := Node (n_reals pn3) (n_wh pn3) (n_loaded pn3) (amap nm (delsn D) (n_ch pn3))).
  assert (Hgp4 : nget pp (root s4) = Some pn4) by (rewrite R4; unfold q; rewrite nupd_app, nget_nupd, Hgp3; reflexivity).
  assert (Hg4 : nget q (root s4) = Some (delsn D c3)) by (rewrite R4, nget_nupd, Hg3; reflexivity).
  assert (Er4 : n_reals pn4 = pr :: prs) by exact Er.
  (* need0, decided in the coherent state before the emptying *)
  pose proof (HCT3 pp pn3 Hgp3) as N3. cbn [app] in N3.
  destruct (lstack_upper s3 u pp Hu3 _ Hpp) as [rest Hstk].
  assert (Hpd : shp s3 0%nat pp = Some (SDir (xs_opaque x))) by (apply (sh_dir_of_tget s3 u pp m x ch Hu3 Hpp)).
  assert (Hlhc : lower_has_child s4 (n_reals pn3) nm = lower_has_child s3 (n_reals pn3) nm).
  { apply lhc_lowers; [exact L4|]. pose proof (ok_reals _ _ _ _ N3) as G. eapply Forall_impl; [|exact G]. intros r (_ & A & _). exact A. }
  assert (Hneed0 : exists need0, (if upper_only (delsn D c3)
            then fun s => match lower_has_child s (n_reals pn4) nm with Ok b => (Ok b, s) | Err e => (Err e, s) end
            else ret true) s4 = (Ok need0, s4) /\
            (need0 = false -> ents nm (tl (dir_stack (mstack (u :: lowers s) pp))) = [])).
  { destruct (upper_only (delsn D c3)) eqn:Euo; [|exists true; split; [reflexivity|discriminate]].
    change (n_reals pn4) with (n_reals pn3). rewrite Hlhc.
    destruct (lower_has_child s3 (n_reals pn3) nm) as [b|e] eqn:El.
    - exists b. split; [reflexivity|]. intros ->. rewrite <- Hl3.
      apply (lowcands_of_lowerc s3 u pp nm rest Hu3 Hstk). apply (lowerc_of_lhc s3 pp nm pn3 rest _ Hwl3 N3 Hstk Hpd El).
    - exfalso. revert El. apply (lhc_no_err s3 pp).
      pose proof (ok_reals _ _ _ _ N3) as G. pose proof (ok_tl _ _ _ _ N3) as T. rewrite Er in *. cbn [tl] in T.
      inversion G as [|? ? G1 G2]; subst. constructor; [split; [exact G1|left; exact Hup]|].
      clear -G2 T. induction G2 as [|a l Ha _ IH]; [constructor|]. inversion T; subst. constructor; [split; [exact Ha|right; assumption]|auto]. }
  destruct Hneed0 as (need0 & En0 & Hn0).
  (* the directory itself is removed *)
  set (u5 := tupd pp (dir_del nm) u).
  assert (Hrm : h_rmdir pp nm u4 = Ok u5).
  { unfold h_rmdir, u4, q. rewrite tupd_snoc, tget_tupd, Hpp. cbn [option_map chmap]. rewrite afind_amap, Hnm. cbn [option_map chmap]. rewrite HD.
    f_equal. unfold u5. rewrite <- tupd_snoc. apply tupd_del_inner. }
  set (need := need0 && negb (r_opq pr)).
  set (s5 := set_layer s4 0 u5).
  assert (E5 : mutate (r_layer pr) (h_rmdir (r_path pr) nm) s4 = (Ok tt, s5)).
  { rewrite Hl0, Hpath. apply (mutate0_ok _ s4 u4 u5 U4). exact Hrm. }
  assert (Hu5 : upper s5 = Some u5) by (apply (upper_set_layer _ u4); exact U4).
  assert (Hnb : need = false -> ents nm (tl (dir_stack (mstack (u :: lowers s) pp))) = []).
  { unfold need. intros Hf. apply andb_false_iff in Hf. destruct Hf as [Hf|Hf]; [exact (Hn0 Hf)|].
    apply negb_false_iff in Hf. pose proof (ok_reals _ _ _ _ N3) as G. rewrite Er in G. pose proof (Forall_inv G) as (_ & _ & G1).
    rewrite Hl0, Hpd in G1. destruct G1 as (_ & _ & Ho). specialize (Ho Hf).
    destruct (mstack_head pp u (lowers s) _ Hpp) as [r Hr]. rewrite Hr. cbn [dir_stack]. rewrite Ho. reflexivity. }
  (* the run *)
  unfold do_rm. rewrite (bind_ok _ _ _ _ _ (need_upper_ok s u Hu)), (bind_ok _ _ _ _ _ (Hlk1 None)).
  rewrite (bind_ok _ _ _ _ _ (get_node_ok pp s1 pn1 Hg1)), Hw1.
  rewrite (bind_ok _ _ _ _ _ Elk2), (bind_ok _ _ _ _ _ (get_node_ok q s2 c Hgq)), Hwc.
  assert (Emid : (load_dir q;;; n1 <- get_node q;; st <- stat_node n1;;
      (if negb (is_dirT st) then fail ENOTDIR else
       if negb (Nat.eqb (List.length (filter (fun kv : name * node => negb (n_wh (snd kv))) (n_ch n1))) 0) then fail ENOTEMPTY else
       if negb (Nat.eqb (List.length (filter (fun kv : name * node => n_wh (snd kv)) (n_ch n1))) 0) && in_upper n1 then empty_node_directory q else ret tt)) s2 = (Ok tt, s4)).
  { rewrite (bind_ok _ _ _ _ _ E3), (bind_ok _ _ _ _ _ (get_node_ok q s3 c3 Hg3)).
    assert (Es : stat_node c3 s3 = (Ok (Dir mq xq chq), s3)) by (unfold stat_node; rewrite Hstc3; reflexivity).
    rewrite (bind_ok _ _ _ _ _ Es). cbn [is_dirT negb]. rewrite Hcnt. cbn [List.length Nat.eqb negb]. exact E4. }
  rewrite (bind_ok _ _ _ _ _ Emid).
  rewrite (bind_ok _ _ _ _ _ (copy_up_noop pp s4 pn4 pr prs Hgp4 Er4 Hup)).
  rewrite (bind_ok _ _ _ _ _ (get_node_ok q s4 _ Hg4)), (bind_ok _ _ _ _ _ (get_node_ok pp s4 pn4 Hgp4)).
  rewrite (bind_ok _ _ _ _ _ En0).
  assert (Hin4 : in_upper (delsn D c3) = true) by exact Hin3. rewrite Hin4.
  assert (En : (pr0 <- upper_real pn4 EINVAL;; mutate (r_layer pr0) (h_rmdir (r_path pr0) nm);;; ret (need0 && negb (r_opq pr0))) s4 = (Ok need, s5)).
  { rewrite (bind_ok _ _ _ _ _ (upper_real_ok pn4 pr prs EINVAL s4 Er4 Hup)), (bind_ok _ _ _ _ _ E5). reflexivity. }
  rewrite (bind_ok _ _ _ _ _ En).
  unfold remove_child at 1. unfold mod_node at 1. unfold bind at 1.
  set (s6 := mkState (upper s5) (lowers s5) (nupd pp (fun n => Node (n_reals n) (n_wh n) (n_loaded n) (adel nm (n_ch n))) (root s5)) (next_ino s5) (log s5)).
  destruct need eqn:Eneed.
  - assert (Hg6 : nget pp (root s6) = Some (Node (n_reals pn4) (n_wh pn4) (n_loaded pn4) (adel nm (n_ch pn4)))).
    { cbn [root s6 s5 set_layer]. rewrite nget_nupd, Hgp4. reflexivity. }
    rewrite (bind_ok _ _ _ _ _ (get_node_ok pp s6 _ Hg6)).
    rewrite (bind_ok _ _ _ _ _ (upper_real_ok _ pr prs EINVAL s6 Er4 Hup)).
    assert (T5 : tget u5 pp = Some (Dir m x (adel nm ch))) by (unfold u5; rewrite tget_tupd, Hpp; reflexivity).
    assert (E7 : ri_whiteout pr nm s6 = (Ok (mkReal 0 true (pp ++ [nm]) true false false), set_layer s6 0 (tupd pp (dir_ins nm Wh) u5))).
    { unfold ri_whiteout, ri_guard. rewrite Hup. unfold bind at 1. cbn [ret]. unfold bind at 1. rewrite Hl0, Hpath.
      rewrite (mutate0_ok (h_create_whiteout pp nm) s6 u5 (tupd pp (dir_ins nm Wh) u5)); [reflexivity|exact Hu5|].
      unfold h_create_whiteout. rewrite tget_app, T5, afind_adel, String.eqb_refl. unfold h_insert. rewrite T5, afind_adel, String.eqb_refl. reflexivity. }
    rewrite (bind_ok _ _ _ _ _ E7). unfold insert_child, mod_node. eexists. exists true. split; [reflexivity|].
    cbn [upper lowers set_layer s6 s5]. rewrite U4. split; [|split; [exact Hl4|discriminate]].
    unfold u5. rewrite tupd_tupd. apply f_equal. apply tupd_ext. intros d. destruct d; reflexivity.
  - cbn [ret]. exists s6, false. split; [reflexivity|]. cbn [upper lowers s6 s5 set_layer]. rewrite U4. split; [|split; [exact Hl4|intros _; apply Hnb; reflexivity]].
    unfold u5. apply f_equal. apply tupd_ext. intros d. destruct d; reflexivity.
Qed.

Lemma resolve_view_empty' f m x ch rest : Forall wf (Dir m x ch :: rest) -> view_empty (Dir m x ch :: rest) ->
  resolve (S f) (Dir m x ch :: rest) = Some (Dir m (user_xs x) []).
Proof.
  intros W He. destruct (resolve_dir_spec f m x ch rest W) as (chs & E & N & K). rewrite E. f_equal. f_equal.
  apply all_none_nil. intros k. rewrite K. specialize (He k). destruct (ents k (dir_stack (Dir m x ch :: rest))) as [|t l]; [destruct f; reflexivity|].
  subst t. destruct f; reflexivity.
Qed.

Theorem step_rmdir_merged_run (pp : path) (nm : name) s u m x ch mq xq chq rest0 :
  Coherent s -> upper s = Some u -> tget u pp = Some (Dir m x ch) -> afind nm ch = Some (Dir mq xq chq) ->
  mstack (u :: lowers s) (pp ++ [nm]) = Dir mq xq chq :: rest0 -> view_empty (Dir mq xq chq :: rest0) ->
  exists s' (b : bool), step (ORmdir (pp ++ [nm])) s = (Ok ""%string, s') /\
    upper s' = Some (tupd pp (chmap (Grm nm true b)) u) /\ lowers s' = lowers s /\
    (b = false -> ents nm (tl (dir_stack (mstack (u :: lowers s) pp))) = []).
Proof.
  intros HC Hu Hpp Hnm Hms Hemp.
  destruct (walk_run u pp [] s (root s) _ HC Hu eq_refl Hpp eq_refl) as (s1 & n1 & E1 & HC1 & (U1 & L1 & I1) & Hg1). cbn [app] in Hg1.
  assert (Hu1 : upper s1 = Some u) by congruence.
  destruct (do_rmdir_emptied_run pp nm s1 u n1 m x ch mq xq chq rest0 HC1 Hu1 Hg1 Hpp Hnm) as (s' & b & E & U' & L' & Hb); try assumption; [rewrite L1; exact Hms|].
  exists s', b. split; [|split; [exact U'|split; [congruence|rewrite <- L1; exact Hb]]].
  cbn [step]. rewrite with_parent_snoc. unfold walk. rewrite (bind_ok _ _ _ _ _ E1), (bind_ok _ _ _ _ _ E). reflexivity.
Qed.

Lemma rm_merged_merge u ls (pp : path) (nm : name) m x ch mq xq chq rest0 f (b : bool) mv :
  Forall wf (u :: ls) -> tget u pp = Some (Dir m x ch) -> afind nm ch = Some (Dir mq xq chq) ->
  mstack (u :: ls) (pp ++ [nm]) = Dir mq xq chq :: rest0 -> view_empty (Dir mq xq chq :: rest0) ->
  (b = false -> ents nm (tl (dir_stack (mstack (u :: ls) pp))) = []) ->
  DEPTH = (S (S f) + List.length pp)%nat -> merge (u :: ls) = Some mv ->
  oteq (merge (tupd pp (chmap (Grm nm true b)) u :: ls)) (Some (tupd pp (dir_del nm) mv)) /\
  h_rmdir pp nm mv = Ok (tupd pp (dir_del nm) mv).
Proof.
  intros W Hpp Hnm Hms Hemp Hb Hd Hm. destruct (mstack_head pp u ls _ Hpp) as [r Hr].
  pose proof (wf_tget _ (Forall_inv W) _ _ Hpp) as Wd.
  assert (Hn : NoDup (map fst ch)) by (inversion Wd; assumption).
  assert (Hn1 : NoDup (map fst (adel nm ch))) by (apply keys_adel_nd; exact Hn).
  assert (Hnone1 : afind nm (adel nm ch) = None) by (rewrite afind_adel, String.eqb_refl; reflexivity).
  set (G := Grm nm true b).
  split.
  - assert (HG : only_at nm G ch).
    { unfold G, Grm. cbv zeta. split; [destruct b; [apply keys_aset|]; exact Hn1|]. split.
      - intros k Hk. apply String.eqb_neq in Hk. destruct b; rewrite ?afind_aset, ?Hk, afind_adel, Hk; reflexivity.
      - intros c0 H0. destruct b; [rewrite afind_aset_same in H0; assert (E : c0 = Wh) by congruence; rewrite E; constructor|].
        rewrite Hnone1 in H0. discriminate. }
    pose proof (merge_tupd nm G (S f) pp u ls m x ch W Hpp HG Hd) as M. cbv zeta in M.
    rewrite Hm in M. cbn [option_map] in M.
    assert (Eg : resolve (S f) (ents nm (dir_stack (Dir m x (G ch) :: tl (mstack (u :: ls) pp)))) = None).
    { rewrite (dir_stack_head m x (G ch)), ents_cons. cbn [dir_children]. unfold G, Grm. cbv zeta. destruct b.
      - rewrite afind_aset_same. reflexivity.
      - rewrite Hnone1. specialize (Hb eq_refl). rewrite Hr in *. cbn [tl] in *.
        rewrite (dir_stack_tl_indep m x ch). rewrite (dir_stack_head m x ch) in Hb. cbn [tl] in Hb. rewrite Hb. reflexivity. }
    rewrite Eg in M. exact M.
  - destruct (tget_merge (S f) pp u ls _ W Hpp eq_refl Hd) as (r0 & Hr0 & Ht). rewrite Hm in Hr0. assert (E0 : r0 = mv) by congruence. rewrite E0 in Ht. clear E0 Hr0.
    rewrite Hr in Ht. assert (Wr : Forall wf (Dir m x ch :: r)) by (rewrite <- Hr; apply mstack_wf; exact W).
    destruct (resolve_dir_spec (S f) m x ch r Wr) as (chs & Er & N & K). rewrite Er in Ht.
    assert (Wq : Forall wf (Dir mq xq chq :: rest0)) by (rewrite <- Hms; apply mstack_wf; exact W).
    assert (E0 : afind nm chs = Some (Dir mq (user_xs xq) [])).
    { rewrite K. pose proof Hms as H. rewrite mstack_snoc, Hr in H. rewrite H. apply resolve_view_empty'; assumption. }
    unfold h_rmdir. rewrite Ht, E0. reflexivity.
Qed.

Theorem refines_rmdir_merged s (pp : path) (nm : name) u m x ch mq xq chq rest0 v :
  Coherent s -> upper s = Some u -> tget u pp = Some (Dir m x ch) -> afind nm ch = Some (Dir mq xq chq) ->
  mstack (u :: lowers s) (pp ++ [nm]) = Dir mq xq chq :: rest0 -> view_empty (Dir mq xq chq :: rest0) ->
  (List.length (pp ++ [nm]) < DEPTH)%nat -> view (load_all s) = Some v -> refines_at s (ORmdir (pp ++ [nm])) v.
Proof.
  intros HC Hu Hpp Hnm Hms Hemp Hlen Hv.
  destruct (step_rmdir_merged_run pp nm s u m x ch mq xq chq rest0 HC Hu Hpp Hnm Hms Hemp) as (s' & b & Hrun & Hu' & Hl' & Hb).
  unfold refines_at, run_op. rewrite Hrun. cbn [fst snd].
  assert (Hd : exists f, DEPTH = (S (S f) + List.length pp)%nat).
  { rewrite app_length in Hlen. cbn [List.length] in Hlen. exists (DEPTH - 2 - List.length pp)%nat. lia. }
  destruct Hd as [f Hd].
  pose proof (coherent_wf_layers s u HC Hu) as W.
  destruct (refine_from_disk s (ORmdir (pp ++ [nm])) v _ s' HC eq_refl Hv Hrun) as [R T]; [|cbv zeta; auto].
  intros mv Hm. rewrite Hu in Hm. cbn [all_layers] in Hm. rewrite Hu', Hl'. cbn [all_layers]. cbv zeta.
  destruct (rm_merged_merge u (lowers s) pp nm m x ch mq xq chq rest0 f b mv W Hpp Hnm Hms Hemp Hb Hd Hm) as [M I].
  cbn [fs_apply]. rewrite split_last_snoc. unfold fs_mut. cbn [f_tree f_next]. rewrite I. cbn [fst snd f_tree]. split; [reflexivity|exact M].
Qed.

(* [direct_rmdir_merged s o]: rmdir of a directory of the upper layer, below a directory of the upper layer, whose merged
   parts show no entry: every name they hold has a whiteout as first candidate *)
Definition direct_rmdir_merged (s : state) (o : op) : bool :=
  match upper s, o with
  | Some u, ORmdir p =>
      match split_last p with
      | Some (pp, nm) =>
          (List.length p <? DEPTH)%nat && match tget u pp with Some (Dir _ _ _) => true | _ => false end &&
          match tget u p with Some (Dir _ _ _) => true | _ => false end && view_emptyb (mstack (u :: lowers s) p)
      | None => false
      end
  | _, _ => false
  end.
Theorem op_refines_rmdir_merged s o v : Coherent s -> direct_rmdir_merged s o = true -> view (load_all s) = Some v -> refines_at s o v.
Proof.
  intros HC Hd Hv. unfold direct_rmdir_merged in Hd. destruct (upper s) as [u|] eqn:Hu; [|discriminate]. destruct o; try discriminate.
  destruct (split_last p) as [[pp nm]|] eqn:Esp; [|discriminate]. apply split_last_spec in Esp. subst p.
  apply andb_prop in Hd. destruct Hd as [Hd H4]. apply andb_prop in Hd. destruct Hd as [Hd H3]. apply andb_prop in Hd. destruct Hd as [H1 H2]. apply Nat.ltb_lt in H1.
  destruct (tget u pp) as [[m x ch| | |]|] eqn:Hpp; try discriminate.
  destruct (tget u (pp ++ [nm])) as [[mq xq chq| | |]|] eqn:Hq; try discriminate.
  assert (Hnm : afind nm ch = Some (Dir mq xq chq)) by (rewrite tget_app, Hpp in Hq; exact Hq).
  destruct (mstack_head (pp ++ [nm]) u (lowers s) _ Hq) as [rest0 Hms].
  pose proof (coherent_wf_layers s u HC Hu) as W.
  assert (Hemp : view_empty (Dir mq xq chq :: rest0)) by (rewrite <- Hms; apply view_emptyb_ok; [apply mstack_wf; exact W|exact H4]).
  exact (refines_rmdir_merged s pp nm u m x ch mq xq chq rest0 v HC Hu Hpp Hnm Hms Hemp H1 Hv).
Qed.
