(* Invariant of the node cache and a small Hoare logic for the state monad of Model/Overlay.v.
   Main results: every operation leaves the lower layers untouched and logs only mutations of
   layer 0 (lowers_untouched); without an upper layer no operation mutates anything and every
   modifying operation fails (no_upper_ro). *)
From Coq Require Import List String NArith Bool Lia.
From FB Require Import Model.Overlay.
Import ListNotations.
Local Open Scope N_scope.

(* ------------------------------------------------------------------ association lists *)
Lemma Forall_aset {A} (P : string * A -> Prop) k v l :
  Forall P l -> P (k, v) -> Forall P (aset k v l).
Proof.
  induction l as [|[k' v'] l IH]; intros HF HP; cbn [aset].
  - constructor; [exact HP|constructor].
  - inversion HF as [|? ? H1 H2]; subst. destruct (String.eqb k k'); constructor; auto.
Qed.
Lemma Forall_adel {A} (P : string * A -> Prop) k l : Forall P l -> Forall P (adel k l).
Proof.
  induction l as [|[k' v'] l IH]; intros HF; cbn [adel]; [constructor|].
  inversion HF as [|? ? H1 H2]; subst. destruct (String.eqb k k'); auto.
Qed.
Lemma Forall_snd_amap {A} (Q : A -> Prop) k (f : A -> A) l :
  (forall a, Q a -> Q (f a)) ->
  Forall (fun kv => Q (snd kv)) l -> Forall (fun kv => Q (snd kv)) (amap k f l).
Proof.
  intros Hf HF. unfold amap. induction HF as [|[k' v'] l H1 H2 IH]; cbn [map]; constructor; auto.
  cbn [fst snd]. destruct (String.eqb k k'); cbn [snd]; auto.
Qed.
Lemma afind_Forall_snd {A} (Q : A -> Prop) k l v :
  Forall (fun kv => Q (snd kv)) l -> afind k l = Some v -> Q v.
Proof.
  induction l as [|[k' v'] l IH]; intros HF HA; cbn [afind] in HA; [discriminate|].
  inversion HF as [|? ? H1 H2]; subst. destruct (String.eqb k k').
  - inversion HA; subst. exact H1.
  - auto.
Qed.
Lemma afind_amap {A} k (f : A -> A) l : afind k (amap k f l) = option_map f (afind k l).
Proof.
  unfold amap. induction l as [|[k' v'] l IH]; cbn [map afind fst snd option_map]; [reflexivity|].
  destruct (String.eqb k k') eqn:E; cbn [afind fst snd]; rewrite E; [reflexivity|exact IH].
Qed.

(* ------------------------------------------------------------------ the invariant *)
Section WithUpper.
Variable hu : bool.   (* is there an upper layer *)

(* a backing inode flagged "upper" really is in layer 0, and only exists when there is an upper layer *)
Definition rok (r : real) : Prop := r_upper r = true -> r_layer r = 0%nat /\ hu = true.
Inductive nok : node -> Prop :=
| nok_intro rs w l ch : Forall rok rs -> Forall (fun kv => nok (snd kv)) ch -> nok (Node rs w l ch).

Lemma nok_reals n : nok n -> Forall rok (n_reals n).
Proof. intros H; inversion H; subst; assumption. Qed.
Lemma nok_ch n : nok n -> Forall (fun kv => nok (snd kv)) (n_ch n).
Proof. intros H; inversion H; subst; assumption. Qed.
Lemma nok_mk rs w l ch : Forall rok rs -> Forall (fun kv => nok (snd kv)) ch -> nok (Node rs w l ch).
Proof. apply nok_intro. Qed.

Lemma nok_nget p : forall n m, nok n -> nget p n = Some m -> nok m.
Proof.
  induction p as [|c p IH]; intros n m Hn Hg; cbn [nget] in Hg.
  - inversion Hg; subst; exact Hn.
  - destruct (afind c (n_ch n)) as [x|] eqn:E; [|discriminate].
    apply (IH x m); [|exact Hg]. eapply afind_Forall_snd; [apply nok_ch; exact Hn|exact E].
Qed.
Lemma nok_nupd p f : (forall m, nok m -> nok (f m)) -> forall n, nok n -> nok (nupd p f n).
Proof.
  intros Hf. induction p as [|c p IH]; intros n Hn; cbn [nupd]; [auto|].
  apply nok_mk; [apply nok_reals; exact Hn|].
  apply Forall_snd_amap; [exact IH|apply nok_ch; exact Hn].
Qed.
Lemma nget_nupd p f : forall n, nget p (nupd p f n) = option_map f (nget p n).
Proof.
  induction p as [|c p IH]; intros n; cbn [nget nupd option_map]; [reflexivity|].
  destruct n as [rs w l ch]; cbn [n_ch n_reals n_wh n_loaded].
  rewrite afind_amap. destruct (afind c ch) as [x|]; cbn [option_map]; [apply IH|reflexivity].
Qed.

Definition hu_of (s : state) : bool := match upper s with Some _ => true | None => false end.
Definition Inv (s : state) : Prop := hu_of s = hu /\ nok (root s).

(* what one step may do to the layers *)
Definition step_ok (s s' : state) : Prop :=
  lowers s' = lowers s /\ hu_of s' = hu_of s /\
  (exists l, log s' = l ++ log s /\ Forall (fun k => k = 0%nat) l) /\
  (hu = false -> upper s' = upper s /\ log s' = log s).

Lemma step_ok_refl s : step_ok s s.
Proof. repeat split; auto. exists []; split; [reflexivity|constructor]. Qed.
Lemma step_ok_trans s1 s2 s3 : step_ok s1 s2 -> step_ok s2 s3 -> step_ok s1 s3.
Proof.
  intros (A1 & A2 & (l1 & A3 & A4) & A5) (B1 & B2 & (l2 & B3 & B4) & B5).
  repeat split; try congruence.
  - exists (l2 ++ l1). split; [rewrite B3, A3, app_assoc; reflexivity|apply Forall_app; split; assumption].
  - destruct (A5 H), (B5 H); congruence.
  - destruct (A5 H), (B5 H); congruence.
Qed.

Definition hoare {A} (P : state -> Prop) (m : M A) (Q : A -> state -> Prop) : Prop :=
  forall s, Inv s -> P s ->
    Inv (snd (m s)) /\ step_ok s (snd (m s)) /\ (forall a, fst (m s) = Ok a -> Q a (snd (m s))).
Definition TT : state -> Prop := fun _ => True.
Ltac same_state := (split; [first [assumption|split; assumption]|split; [apply step_ok_refl|]]; auto).

Lemma h_conseq {A} (P P' : state -> Prop) (m : M A) (Q Q' : A -> state -> Prop) :
  hoare P' m Q' -> (forall s, P s -> P' s) -> (forall a s, Q' a s -> Q a s) -> hoare P m Q.
Proof. intros H HP HQ s Hi Hp. destruct (H s Hi (HP s Hp)) as (A1 & A2 & A3). split; [|split]; auto. Qed.
Lemma h_ret {A} (a : A) (P : state -> Prop) : hoare P (ret a) (fun x s => x = a /\ P s).
Proof. intros s Hi Hp; cbn. same_state. intros x Hx; inversion Hx; auto. Qed.
Lemma h_ret' {A} (a : A) (P : state -> Prop) : hoare P (ret a) (fun _ _ => True).
Proof. intros s Hi Hp; cbn. same_state. Qed.
Lemma h_fail {A} e (P : state -> Prop) (Q : A -> state -> Prop) : hoare P (fail e) Q.
Proof. intros s Hi Hp; cbn. same_state. intros x Hx; discriminate. Qed.
Lemma h_bind {A B} (P : state -> Prop) (m : M A) (Q : A -> state -> Prop) (f : A -> M B) (R : B -> state -> Prop) :
  hoare P m Q -> (forall a, hoare (Q a) (f a) R) -> hoare P (bind m f) R.
Proof.
  intros Hm Hf s Hi Hp. unfold bind. destruct (Hm s Hi Hp) as (A1 & A2 & A3).
  destruct (m s) as [[a|e] s'] eqn:E; cbn [fst snd] in *.
  - destruct (Hf a s' A1 (A3 a eq_refl)) as (B1 & B2 & B3).
    split; [|split]; auto. eapply step_ok_trans; eassumption.
  - split; [|split]; auto. intros b Hb; discriminate.
Qed.
Lemma h_if {A} (b : bool) (P : state -> Prop) (m1 m2 : M A) (Q : A -> state -> Prop) :
  (b = true -> hoare P m1 Q) -> (b = false -> hoare P m2 Q) -> hoare P (if b then m1 else m2) Q.
Proof. destruct b; auto. Qed.
(* a precondition that does not mention the state can be pulled out *)
Lemma h_pure {A} (F : Prop) (P : state -> Prop) (m : M A) (Q : A -> state -> Prop) :
  (F -> hoare P m Q) -> hoare (fun s => F /\ P s) m Q.
Proof. intros H s Hi [Hf Hp]. exact (H Hf s Hi Hp). Qed.

(* state functions that neither touch layers nor root *)
Lemma h_read {A} (g : state -> res A) (P : state -> Prop) :
  hoare P (fun s => (g s, s)) (fun a s => g s = Ok a /\ P s).
Proof. intros s Hi Hp; cbn. same_state. Qed.

Lemma h_pure_fn {A} (m : M A) : (forall s, snd (m s) = s) -> hoare TT m (fun _ _ => True).
Proof. intros H s Hi _. rewrite H. same_state. Qed.
Lemma h_get_node p (P : state -> Prop) :
  hoare P (get_node p) (fun n s => nok n /\ nget p (root s) = Some n /\ P s).
Proof.
  intros s [Hh Hn] Hp. unfold get_node. destruct (nget p (root s)) as [n|] eqn:E; cbn [fst snd].
  - same_state. intros a Ha; inversion Ha; subst. split; [eapply nok_nget; eassumption|auto].
  - same_state. intros a Ha; discriminate.
Qed.
Lemma h_stat_node n (P : state -> Prop) : hoare P (stat_node n) (fun _ s => P s).
Proof.
  intros s Hi Hp. unfold stat_node. destruct (node_stat s n); cbn; same_state.
Qed.
Lemma h_mod_node p f :
  (forall m, nok m -> nok (f m)) ->
  hoare TT (mod_node p f) (fun _ s => forall n, nget p (root s) = Some n -> exists n0, n = f n0).
Proof.
  intros Hf s [Hh Hn] _. unfold mod_node; cbn [fst snd]. repeat split; cbn; auto.
  - apply nok_nupd; assumption.
  - exists []; split; [reflexivity|constructor].
  - intros _ _ n Hg. rewrite nget_nupd in Hg. destruct (nget p (root s)) as [n0|]; cbn in Hg; [|discriminate].
    inversion Hg; eauto.
Qed.
Lemma h_mod_node' p f (P : state -> Prop) :
  (forall m, nok m -> nok (f m)) -> hoare TT (mod_node p f) (fun _ _ => True).
Proof. intros Hf. eapply h_conseq; [apply h_mod_node; exact Hf|auto|auto]. Qed.
Lemma h_fresh_ino : hoare TT fresh_ino (fun _ _ => True).
Proof.
  intros s [Hh Hn] _. unfold fresh_ino; cbn. repeat split; auto.
  exists []; split; [reflexivity|constructor].
Qed.
Lemma h_has_upper : hoare TT has_upper (fun b _ => b = hu).
Proof.
  intros s [Hh Hn] _. unfold has_upper; cbn. same_state.
  intros a Ha; inversion Ha. exact Hh.
Qed.
Lemma h_need_upper : hoare TT need_upper (fun _ _ => hu = true).
Proof.
  intros s Hi _. pose proof Hi as [Hh Hn]. unfold need_upper, bind, has_upper, hu_of in *.
  destruct (upper s); cbn [fst snd ret fail]; same_state.
  intros a Ha; discriminate.
Qed.

(* the only way layers change: [mutate], and it is only ever reached for layer 0 with an upper layer *)
Lemma h_mutate k f : k = 0%nat -> hu = true -> hoare TT (mutate k f) (fun _ _ => True).
Proof.
  intros -> Hu s Hi _. pose proof Hi as [Hh Hn]. unfold mutate. cbn [get_layer].
  destruct (upper s) as [t|] eqn:E; [|same_state].
  destruct (f t) as [t'|e]; cbn [fst snd]; [|same_state].
  assert (Hu' : hu_of (set_layer s 0 t') = hu_of s).
  { unfold hu_of, set_layer; cbn. rewrite E. reflexivity. }
  split; [split; [congruence|unfold set_layer; cbn; exact Hn]|].
  split; [|auto].
  split; [unfold set_layer; reflexivity|]. split; [exact Hu'|].
  split; [exists [0%nat]; split; [reflexivity|repeat constructor]|].
  intros Hf; congruence.
Qed.
Lemma h_mutate_real (r : real) f : rok r -> r_upper r = true -> hoare TT (mutate (r_layer r) f) (fun _ _ => True).
Proof. intros Hr Hu. destruct (Hr Hu) as [H0 H1]. apply h_mutate; assumption. Qed.
Lemma h_ignore {A} (m : M A) (P : state -> Prop) (Q : A -> state -> Prop) :
  hoare P m Q -> hoare P (ignore m) (fun _ _ => True).
Proof. intros H s Hi Hp. destruct (H s Hi Hp) as (A1 & A2 & _). unfold ignore; cbn. auto. Qed.

Ltac hsimpl := eapply h_conseq; [|intros ? HH; exact HH| cbn beta; intros; auto].

(* ------------------------------------------------------------------ loading *)
Lemma rok_child r nm c : rok r -> rok (child_real r nm c).
Proof. unfold rok, child_real; cbn. auto. Qed.
Lemma take_lowers_ok rs : Forall rok rs -> Forall rok (take_lowers rs).
Proof.
  induction 1 as [|q rs H1 H2 IH]; cbn [take_lowers]; [constructor|].
  destruct (r_wh q); [constructor|]. destruct (negb (r_dir q)); [constructor|].
  destruct (r_opq q); constructor; auto.
Qed.
Lemma new_from_reals_ok rs : Forall rok rs -> nok (new_from_reals rs).
Proof.
  intros H. unfold new_from_reals. destruct H as [|r rest H1 H2].
  - apply nok_mk; constructor.
  - destruct (r_wh r || negb (r_dir r) || r_opq r); apply nok_mk; try constructor; auto using take_lowers_ok.
Qed.
Lemma readdir_real_ok s r ents :
  rok r -> readdir_real s r = Ok ents -> Forall (fun e => rok (snd e)) ents.
Proof.
  intros Hr. unfold readdir_real. destruct (r_wh r); [discriminate|]. destruct (negb (r_dir r)); [discriminate|].
  destruct (real_tree s r) as [[m x ch| | |]|]; try discriminate.
  intros H; inversion H; subst. clear H. induction ch as [|[k v] ch IH]; cbn [map]; constructor; auto.
Qed.
Definition acc_ok (acc : list (name * list real)) : Prop := Forall (fun kv => Forall rok (snd kv)) acc.
Lemma add_entry_ok acc e : acc_ok acc -> rok (snd e) -> acc_ok (add_entry acc e).
Proof.
  intros Ha He. unfold add_entry, acc_ok. apply Forall_aset; [exact Ha|]. cbn [snd].
  destruct (afind (fst e) acc) as [l|] eqn:E.
  - apply Forall_app; split; [|constructor; auto].
    eapply (afind_Forall_snd (fun l => Forall rok l)); eassumption.
  - constructor; auto.
Qed.
Lemma fold_add_entry_ok ents : forall acc, acc_ok acc -> Forall (fun e => rok (snd e)) ents -> acc_ok (fold_left add_entry ents acc).
Proof.
  induction ents as [|e ents IH]; intros acc Ha He; cbn [fold_left]; [exact Ha|].
  inversion He; subst. apply IH; auto using add_entry_ok.
Qed.
Lemma scan_reals_ok s rs : forall acc all, Forall rok rs -> acc_ok acc -> scan_reals s rs acc = Ok all -> acc_ok all.
Proof.
  induction rs as [|r rs IH]; intros acc all Hr Ha H; cbn [scan_reals] in H.
  - inversion H; subst; exact Ha.
  - inversion Hr as [|? ? R1 R2]; subst.
    destruct (r_wh r); [inversion H; subst; exact Ha|].
    destruct (negb (r_dir r)); [inversion H; subst; exact Ha|].
    destruct (readdir_real s r) as [ents|e] eqn:E; [|discriminate].
    pose proof (fold_add_entry_ok ents acc Ha (readdir_real_ok s r ents R1 E)) as Hacc.
    destruct (r_opq r); [inversion H; subst; exact Hacc|]. eapply IH; eassumption.
Qed.
Lemma scan_children_ok s n cs : nok n -> scan_children s n = Ok cs -> Forall (fun kv => nok (snd kv)) cs.
Proof.
  intros Hn. unfold scan_children. destruct (node_stat s n) as [st|]; [|discriminate].
  destruct (negb (is_dirT st)); [discriminate|].
  destruct (scan_reals s (n_reals n) []) as [all|e] eqn:E; [|discriminate].
  intros H; inversion H; subst; clear H.
  assert (Ha : acc_ok all) by (eapply scan_reals_ok; [apply nok_reals; exact Hn|constructor|exact E]).
  clear E. induction Ha as [|kv all H1 H2 IH]; cbn [map]; constructor; auto. cbn [snd]. apply new_from_reals_ok; exact H1.
Qed.
Lemma set_loaded_ok cs n : Forall (fun kv => nok (snd kv)) cs -> nok n -> nok (set_loaded cs n).
Proof.
  intros Hc Hn. unfold set_loaded. apply nok_mk; [apply nok_reals; exact Hn|].
  pose proof (nok_ch n Hn) as Hch. revert Hch. generalize (n_ch n).
  induction Hc as [|kv cs H1 H2 IH]; intros acc Hacc; cbn [fold_left]; [exact Hacc|].
  apply IH. apply Forall_aset; [exact Hacc|]. destruct kv; exact H1.
Qed.
Lemma load1_ok s n : nok n -> nok (load1 s n).
Proof.
  intros Hn. unfold load1. destruct (n_loaded n); [exact Hn|].
  destruct (scan_children s n) as [cs|e] eqn:E; [|exact Hn].
  apply set_loaded_ok; [eapply scan_children_ok; eassumption|exact Hn].
Qed.
Lemma h_load_dir p : hoare TT (load_dir p) (fun _ _ => True).
Proof.
  unfold load_dir. eapply h_bind; [apply h_get_node|]. intros n. cbn beta.
  intros s Hi (Hn & Hg & _). destruct (n_loaded n).
  - cbn. same_state.
  - destruct (scan_children s n) as [cs|e] eqn:E.
    + destruct (h_mod_node p (load1 s) (fun m Hm => load1_ok s m Hm) s Hi I) as (A1 & A2 & A3).
      split; [exact A1|split; [exact A2|auto]].
    + cbn. same_state.
Qed.
Lemma h_load_if_dir p n st : hoare TT (load_if_dir p n st) (fun _ _ => True).
Proof.
  unfold load_if_dir. apply h_if; intros _; [apply h_load_dir|apply h_ret'].
Qed.

Ltac hret := apply h_ret'.

Lemma h_pre_pure {A} (F : Prop) (m : M A) (Q : A -> state -> Prop) :
  (F -> hoare TT m Q) -> hoare (fun _ => F) m Q.
Proof. intros H s Hi Hf. exact (H Hf s Hi I). Qed.
Lemma h_pre_any {A} (P : state -> Prop) (m : M A) (Q : A -> state -> Prop) : hoare TT m Q -> hoare P m Q.
Proof. intros H s Hi _. exact (H s Hi I). Qed.
(* sequencing when only state-independent facts about the intermediate value are needed *)
Lemma h_bind_pure {A B} (m : M A) (F : A -> Prop) (f : A -> M B) (R : B -> state -> Prop) :
  hoare TT m (fun a _ => F a) -> (forall a, F a -> hoare TT (f a) R) -> hoare TT (bind m f) R.
Proof. intros Hm Hf. eapply h_bind; [exact Hm|]. intros a. cbn beta. apply h_pre_pure. apply Hf. Qed.
Lemma h_seq {A B} (m : M A) (f : A -> M B) (R : B -> state -> Prop) :
  hoare TT m (fun _ _ => True) -> (forall a, hoare TT (f a) R) -> hoare TT (bind m f) R.
Proof. intros Hm Hf. eapply h_bind_pure with (F := fun _ => True); [exact Hm|auto]. Qed.
Lemma h_weaken {A} (m : M A) (Q : A -> state -> Prop) : hoare TT m Q -> hoare TT m (fun _ _ => True).
Proof. intros H. eapply h_conseq; [exact H|auto|auto]. Qed.
Lemma h_get_node_pure p : hoare TT (get_node p) (fun n _ => nok n).
Proof. eapply h_conseq; [apply (h_get_node p TT)|auto|]. cbn beta; intros a s (H & _); exact H. Qed.
Lemma h_stat_node' n : hoare TT (stat_node n) (fun _ _ => True).
Proof. eapply h_conseq; [apply (h_stat_node n TT)|auto|auto]. Qed.

Lemma h_lookup_node p nm : hoare TT (lookup_node p nm) (fun _ _ => True).
Proof.
  unfold lookup_node.
  eapply h_bind_pure; [apply h_get_node_pure|]. intros pn Hpn.
  apply h_if; intros _; [apply h_fail|].
  eapply h_seq; [apply h_stat_node'|]. intros st.
  eapply h_seq; [apply h_load_if_dir|]. intros _.
  destruct nm as [c|]; [|hret].
  eapply h_bind_pure; [apply h_get_node_pure|]. intros pn' Hpn'.
  destruct (afind c (n_ch pn')); [hret|apply h_fail].
Qed.
Lemma h_lookup_node_ignore p nm : hoare TT (lookup_node_ignore_enoent p nm) (fun _ _ => True).
Proof.
  intros s Hi _. destruct (h_lookup_node p (Some nm) s Hi I) as (A1 & A2 & _).
  unfold lookup_node_ignore_enoent. destruct (lookup_node p (Some nm) s) as [[q|e] s']; cbn [fst snd] in *.
  - auto.
  - destruct (e =? ENOENT); cbn; auto.
Qed.
Lemma h_do_lookup p nm : hoare TT (do_lookup p nm) (fun _ _ => True).
Proof.
  unfold do_lookup.
  eapply h_seq; [apply h_lookup_node|]. intros q.
  eapply h_bind_pure; [apply h_get_node_pure|]. intros n Hn.
  apply h_if; intros _; [apply h_fail|].
  eapply h_seq; [apply h_stat_node'|]. intros st.
  eapply h_seq; [apply h_load_if_dir|]. intros _.
  hret.
Qed.
Lemma h_walk_from p : forall cur, hoare TT (walk_from cur p) (fun _ _ => True).
Proof.
  induction p as [|c p IH]; intros cur; cbn [walk_from]; [hret|].
  eapply h_seq; [apply h_do_lookup|]. intros _. apply IH.
Qed.
Lemma h_walk p : hoare TT (walk p) (fun _ _ => True).
Proof. apply h_walk_from. Qed.

(* ------------------------------------------------------------------ mutators *)
Lemma h_first_real n : nok n -> hoare TT (first_real n) (fun r _ => rok r /\ exists rs, n_reals n = r :: rs).
Proof.
  intros Hn. unfold first_real. pose proof (nok_reals n Hn) as Hr.
  destruct (n_reals n) as [|r rs]; [apply h_fail|]. inversion Hr; subst.
  eapply h_conseq; [apply (h_ret r TT)|auto|]. cbn beta; intros a s [-> _]; eauto.
Qed.
Lemma h_upper_real n e : nok n -> hoare TT (upper_real n e) (fun r _ => rok r /\ r_upper r = true).
Proof.
  intros Hn. unfold upper_real. pose proof (nok_reals n Hn) as Hr.
  destruct (n_reals n) as [|r rs]; [apply h_fail|]. inversion Hr; subst.
  destruct (r_upper r) eqn:E; [|apply h_fail].
  eapply h_conseq; [apply (h_ret r TT)|auto|]. cbn beta; intros a s [-> _]; auto.
Qed.
Lemma h_ri_guard pr : hoare TT (ri_guard pr) (fun _ _ => r_upper pr = true).
Proof.
  unfold ri_guard. destruct (r_upper pr); [|apply h_fail].
  eapply h_conseq; [apply (h_ret tt TT)|auto|auto].
Qed.
Lemma rok_new pr p w o d : rok pr -> r_upper pr = true -> rok (mkReal (r_layer pr) true p w o d).
Proof. intros H Hu _. cbn. exact (H Hu). Qed.
Lemma rok_new' pr p w o d : rok pr -> r_upper pr = true -> rok (mkReal (r_layer pr) (r_upper pr) p w o d).
Proof. intros H Hu _. cbn. exact (H Hu). Qed.
Definition goodreal (r : real) : Prop := rok r /\ r_upper r = true.

Ltac ret_real := eapply h_conseq; [apply (h_ret _ TT)|auto|cbn beta; intros ? ? [-> _]; split; [first [apply rok_new|apply rok_new']; assumption|cbn; auto]].

Lemma h_ri_mkdir pr nm mode : rok pr -> hoare TT (ri_mkdir pr nm mode) (fun r _ => goodreal r).
Proof.
  intros Hr. unfold ri_mkdir.
  eapply h_bind_pure; [apply h_ri_guard|]. intros ? Hu. cbn beta in Hu.
  eapply h_seq; [apply h_mutate_real; assumption|]. intros _. ret_real.
Qed.
Lemma h_ri_mkdir_cu pr nm mode : rok pr -> hoare TT (ri_mkdir_cu pr nm mode) (fun r _ => goodreal r).
Proof.
  intros Hr. unfold ri_mkdir_cu.
  eapply h_bind_pure; [apply h_ri_mkdir; exact Hr|]. intros ri [Hri Hru].
  eapply h_seq; [destruct (has_setid mode); [apply h_mutate_real; assumption|hret]|]. intros _.
  eapply h_conseq; [apply (h_ret ri TT)|auto|]. cbn beta; intros a s [-> _]. split; assumption.
Qed.
Lemma h_ri_create pr nm mode : rok pr -> hoare TT (ri_create pr nm mode) (fun r _ => goodreal r).
Proof.
  intros Hr. unfold ri_create.
  eapply h_bind_pure; [apply h_ri_guard|]. intros ? Hu. cbn beta in Hu.
  eapply h_seq; [apply h_fresh_ino|]. intros i.
  eapply h_seq; [apply h_mutate_real; assumption|]. intros _. ret_real.
Qed.
Lemma h_ri_symlink pr nm t : rok pr -> hoare TT (ri_symlink pr nm t) (fun r _ => goodreal r).
Proof.
  intros Hr. unfold ri_symlink.
  eapply h_bind_pure; [apply h_ri_guard|]. intros ? Hu. cbn beta in Hu.
  eapply h_seq; [apply h_mutate_real; assumption|]. intros _. ret_real.
Qed.
Lemma h_ri_link pr src nm : rok pr -> hoare TT (ri_link pr src nm) (fun r _ => goodreal r).
Proof.
  intros Hr. unfold ri_link.
  eapply h_bind_pure; [apply h_ri_guard|]. intros ? Hu. cbn beta in Hu.
  eapply h_seq; [destruct (Nat.eqb (r_layer src) (r_layer pr)); [hret|apply h_fail]|]. intros _.
  eapply h_seq; [apply h_mutate_real; assumption|]. intros _. ret_real.
Qed.
Lemma h_ri_whiteout pr nm : rok pr -> hoare TT (ri_whiteout pr nm) (fun r _ => goodreal r).
Proof.
  intros Hr. unfold ri_whiteout.
  eapply h_bind_pure; [apply h_ri_guard|]. intros ? Hu. cbn beta in Hu.
  eapply h_seq; [apply h_mutate_real; assumption|]. intros _. ret_real.
Qed.

Lemma add_upper_ok ri clear n : rok ri -> nok n -> nok (add_upper ri clear n).
Proof.
  intros Hr Hn. unfold add_upper. apply nok_mk; [|apply nok_ch; exact Hn].
  destruct clear; constructor; auto using nok_reals.
Qed.
Lemma new_node_ok ri : rok ri -> nok (new_node ri).
Proof. intros H. unfold new_node. apply nok_mk; [constructor; [exact H|constructor]|constructor]. Qed.
Lemma h_insert_child pp nm c : nok c -> hoare TT (insert_child pp nm c) (fun _ _ => True).
Proof.
  intros Hc. unfold insert_child. eapply h_weaken. apply h_mod_node. intros m Hm.
  apply nok_mk; [apply nok_reals; exact Hm|]. apply Forall_aset; [apply nok_ch; exact Hm|exact Hc].
Qed.
Lemma h_remove_child pp nm : hoare TT (remove_child pp nm) (fun _ _ => True).
Proof.
  unfold remove_child. eapply h_weaken. apply h_mod_node. intros m Hm.
  apply nok_mk; [apply nok_reals; exact Hm|]. apply Forall_adel. apply nok_ch; exact Hm.
Qed.
Lemma h_mod_add_upper p ri clear : rok ri -> hoare TT (mod_node p (add_upper ri clear)) (fun _ _ => True).
Proof. intros H. eapply h_weaken. apply h_mod_node. intros m Hm. apply add_upper_ok; assumption. Qed.

(* ------------------------------------------------------------------ copy-up *)
Definition upper_at (p : path) (s : state) : Prop := forall n, nget p (root s) = Some n -> in_upper n = true.

Lemma h_get_node_then {B} p (f : node -> M B) (R : B -> state -> Prop) :
  (forall n, nok n -> hoare (fun s => nget p (root s) = Some n) (f n) R) ->
  hoare TT (bind (get_node p) f) R.
Proof.
  intros H. eapply h_bind; [apply (h_get_node p TT)|]. intros n. cbn beta.
  intros s Hi (Hn & Hg & _). exact (H n Hn s Hi Hg).
Qed.
Lemma h_ret_upper_at p n : in_upper n = true ->
  hoare (fun s => nget p (root s) = Some n) (ret tt) (fun _ s => upper_at p s).
Proof.
  intros Hin. eapply h_conseq; [apply h_ret|intros s H; exact H|].
  cbn beta. intros a s [_ Hg] n' Hn'. rewrite Hg in Hn'. inversion Hn'; subst. exact Hin.
Qed.
Lemma h_mod_add_upper_post p ri clear : rok ri -> r_upper ri = true ->
  hoare TT (mod_node p (add_upper ri clear)) (fun _ s => upper_at p s).
Proof.
  intros Hr Hu. eapply h_conseq; [apply h_mod_node; intros m Hm; apply add_upper_ok; assumption|auto|].
  cbn beta. intros _ s H n Hn. destruct (H n Hn) as [n0 ->]. unfold in_upper, add_upper; cbn.
  destruct clear; exact Hu.
Qed.
Lemma h_stat_keep n (P : state -> Prop) {B} (f : tree -> M B) R :
  (forall st, hoare P (f st) R) -> hoare P (bind (stat_node n) f) R.
Proof. intros H. eapply h_bind; [apply h_stat_node|]. intros st. cbn beta. apply H. Qed.

Lemma h_create_upper_dir fuel : forall p, hoare TT (create_upper_dir fuel p) (fun _ s => upper_at p s).
Proof.
  induction fuel as [|f IH]; intros p; cbn [create_upper_dir]; [apply h_fail|].
  apply h_get_node_then. intros n Hn.
  apply h_stat_keep. intros st.
  apply h_if; intros _; [apply h_fail|].
  apply h_if; intros Hin; [apply h_ret_upper_at; exact Hin|]. apply h_pre_any.
  destruct (split_last p) as [[pp nm]|]; [|apply h_fail].
  eapply h_bind_pure; [apply h_get_node_pure|]. intros pn Hpn.
  eapply h_seq; [apply h_if; intros _; [hret|eapply h_weaken; apply IH]|]. intros _.
  eapply h_bind_pure; [apply h_get_node_pure|]. intros pn' Hpn'.
  eapply h_bind_pure; [apply h_upper_real; exact Hpn'|]. intros pr [Hpr Hu].
  eapply h_bind_pure; [apply h_ri_mkdir_cu; exact Hpr|]. intros ri [Hri Hru].
  apply h_mod_add_upper_post; assumption.
Qed.
Lemma h_create_upper_dir' fuel p : hoare TT (create_upper_dir fuel p) (fun _ _ => True).
Proof. eapply h_weaken. apply h_create_upper_dir. Qed.
Lemma h_copy_symlink_up p : hoare TT (copy_symlink_up p) (fun _ s => upper_at p s).
Proof.
  unfold copy_symlink_up.
  apply h_get_node_then. intros n Hn.
  apply h_if; intros Hin; [apply h_ret_upper_at; exact Hin|]. apply h_pre_any.
  destruct (split_last p) as [[pp nm]|]; [|apply h_fail].
  eapply h_seq; [eapply h_weaken; apply h_first_real; exact Hn|]. intros lr.
  eapply h_bind_pure; [apply h_get_node_pure|]. intros pn Hpn.
  eapply h_seq; [apply h_if; intros _; [hret|apply h_create_upper_dir']|]. intros _.
  eapply h_seq; [apply h_pure_fn; intros s; destruct (real_tree s lr) as [[]|]; reflexivity|]. intros target.
  eapply h_bind_pure; [apply h_get_node_pure|]. intros pn' Hpn'.
  eapply h_bind_pure; [apply h_upper_real; exact Hpn'|]. intros pr [Hpr Hu].
  eapply h_bind_pure; [apply h_ri_symlink; exact Hpr|]. intros ri [Hri Hru].
  apply h_mod_add_upper_post; assumption.
Qed.
Lemma h_copy_regfile_up p : hoare TT (copy_regfile_up p) (fun _ s => upper_at p s).
Proof.
  unfold copy_regfile_up.
  apply h_get_node_then. intros n Hn.
  apply h_if; intros Hin; [apply h_ret_upper_at; exact Hin|]. apply h_pre_any.
  destruct (split_last p) as [[pp nm]|]; [|apply h_fail].
  eapply h_seq; [apply h_stat_node'|]. intros st.
  eapply h_seq; [eapply h_weaken; apply h_first_real; exact Hn|]. intros lr.
  eapply h_bind_pure; [apply h_get_node_pure|]. intros pn Hpn.
  eapply h_seq; [apply h_if; intros _; [hret|apply h_create_upper_dir']|]. intros _.
  eapply h_bind_pure; [apply h_get_node_pure|]. intros pn' Hpn'.
  eapply h_bind_pure; [apply h_upper_real; exact Hpn'|]. intros pr [Hpr Hu].
  eapply h_bind_pure; [apply h_ri_create; exact Hpr|]. intros ri [Hri Hru].
  eapply h_seq; [apply h_pure_fn; intros s; destruct (real_tree s lr) as [[]|]; reflexivity|]. intros data.
  eapply h_seq; [apply h_mutate_real; assumption|]. intros _.
  apply h_mod_add_upper_post; assumption.
Qed.
Lemma h_copy_node_up p : hoare TT (copy_node_up p) (fun _ s => upper_at p s).
Proof.
  unfold copy_node_up.
  apply h_get_node_then. intros n Hn.
  apply h_if; intros Hin; [apply h_ret_upper_at; exact Hin|]. apply h_pre_any.
  eapply h_seq; [apply h_stat_node'|]. intros st.
  destruct st; [apply h_create_upper_dir|apply h_copy_regfile_up|apply h_copy_symlink_up|apply h_copy_regfile_up].
Qed.
Lemma h_copy_node_up' p : hoare TT (copy_node_up p) (fun _ _ => True).
Proof. eapply h_weaken. apply h_copy_node_up. Qed.

(* a node known to be backed by the upper layer yields an upper backing inode *)
Lemma h_first_tree p :
  hoare (upper_at p) (first_tree p) (fun rt _ => goodreal (fst rt)).
Proof.
  unfold first_tree.
  eapply h_bind; [apply (h_get_node p (upper_at p))|]. intros n. cbn beta.
  intros s Hi (Hn & Hg & Hup). specialize (Hup n Hg). revert s Hi Hg.
  cut (hoare TT (r <- first_real n;; (fun s => match real_tree s r with Some t => (Ok (r, t), s) | None => (Err ENOENT, s) end)) (fun rt _ => goodreal (fst rt))).
  { intros H s Hi _. exact (H s Hi I). }
  eapply h_bind_pure; [apply h_first_real; exact Hn|]. intros r [Hr [rs Hrs]].
  assert (Hu : r_upper r = true) by (unfold in_upper in Hup; rewrite Hrs in Hup; exact Hup).
  intros s Hi _. destruct (real_tree s r); cbn [fst snd]; same_state.
  - intros a Ha; inversion Ha; subst; cbn. split; assumption.
  - intros a Ha; discriminate.
Qed.
Lemma h_first_tree' p : hoare TT (first_tree p) (fun rt _ => rok (fst rt)).
Proof.
  unfold first_tree.
  eapply h_bind_pure; [apply h_get_node_pure|]. intros n Hn.
  eapply h_bind_pure; [apply h_first_real; exact Hn|]. intros r [Hr _].
  intros s Hi _. destruct (real_tree s r); cbn [fst snd]; same_state.
  - intros a Ha; inversion Ha; subst; cbn. assumption.
  - intros a Ha; discriminate.
Qed.
(* "copy up unless already upper", as in setattr / setxattr / removexattr *)
Lemma h_ensure_upper p :
  hoare TT (n <- get_node p;; (if in_upper n then ret tt else copy_node_up p)) (fun _ s => upper_at p s).
Proof.
  apply h_get_node_then. intros n Hn.
  apply h_if; intros Hin; [apply h_ret_upper_at; exact Hin|]. apply h_pre_any. apply h_copy_node_up.
Qed.

(* ------------------------------------------------------------------ directory operations *)
Lemma h_delete_whiteout_ignored pr nm : goodreal pr -> hoare TT (delete_whiteout_ignored pr nm) (fun _ _ => True).
Proof. intros [Hr Hu]. unfold delete_whiteout_ignored. eapply h_ignore. apply h_mutate_real; assumption. Qed.

Lemma h_do_mkdir pp nm mode : hoare TT (do_mkdir pp nm mode) (fun _ _ => hu = true).
Proof.
  unfold do_mkdir.
  eapply h_bind_pure; [apply h_need_upper|]. intros ? Hhu. cbn beta in Hhu.
  eapply h_bind_pure; [apply h_get_node_pure|]. intros pn Hpn.
  apply h_if; intros _; [apply h_fail|].
  eapply h_seq; [apply h_lookup_node_ignore|]. intros found.
  eapply h_seq.
  { destruct found as [q|]; [|hret].
    eapply h_bind_pure; [apply h_get_node_pure|]. intros n Hn.
    apply h_if; intros _; [apply h_fail|hret]. }
  intros [delete_whiteout set_opaque].
  eapply h_seq; [apply h_copy_node_up'|]. intros _.
  eapply h_bind_pure; [apply h_get_node_pure|]. intros pn' Hpn'.
  eapply h_bind_pure; [apply h_upper_real; exact Hpn'|]. intros pr Hpr.
  eapply h_seq; [apply h_if; intros _; [apply h_delete_whiteout_ignored; exact Hpr|hret]|]. intros _.
  eapply h_bind_pure; [apply h_ri_mkdir; apply Hpr|]. intros ri [Hri Hru].
  eapply h_seq; [apply h_if; intros _; [apply h_mutate_real; apply Hpr|hret]|]. intros _.
  eapply h_conseq; [apply h_insert_child; apply new_node_ok; exact Hri|auto|auto].
Qed.

Lemma h_do_make pp nm mk :
  (forall pr, rok pr -> hoare TT (mk pr) (fun r _ => goodreal r)) ->
  hoare TT (do_make pp nm mk) (fun _ _ => hu = true).
Proof.
  intros Hmk. unfold do_make.
  eapply h_bind_pure; [apply h_need_upper|]. intros ? Hhu. cbn beta in Hhu.
  eapply h_bind_pure; [apply h_get_node_pure|]. intros pn Hpn.
  apply h_if; intros _; [apply h_fail|].
  eapply h_seq; [apply h_lookup_node_ignore|]. intros found.
  destruct found as [q|].
  - eapply h_bind_pure; [apply h_get_node_pure|]. intros n Hn.
    apply h_if; intros _; [apply h_fail|].
    eapply h_seq; [apply h_copy_node_up'|]. intros _.
    eapply h_bind_pure; [apply h_get_node_pure|]. intros pn' Hpn'.
    eapply h_bind_pure; [apply h_upper_real; exact Hpn'|]. intros pr Hpr.
    eapply h_seq; [apply h_if; intros _; [apply h_delete_whiteout_ignored; exact Hpr|hret]|]. intros _.
    eapply h_bind_pure; [apply Hmk; apply Hpr|]. intros ri [Hri Hru].
    eapply h_conseq; [apply h_mod_add_upper; exact Hri|auto|auto].
  - eapply h_seq; [apply h_copy_node_up'|]. intros _.
    eapply h_bind_pure; [apply h_get_node_pure|]. intros pn' Hpn'.
    eapply h_bind_pure; [apply h_upper_real; exact Hpn'|]. intros pr Hpr.
    eapply h_bind_pure; [apply Hmk; apply Hpr|]. intros ri [Hri Hru].
    eapply h_conseq; [apply h_insert_child; apply new_node_ok; exact Hri|auto|auto].
Qed.

Lemma h_do_link src pp nm : hoare TT (do_link src pp nm) (fun _ _ => hu = true).
Proof.
  unfold do_link.
  eapply h_bind_pure; [apply h_need_upper|]. intros ? Hhu. cbn beta in Hhu.
  eapply h_bind_pure; [apply h_get_node_pure|]. intros sn Hsn.
  eapply h_bind_pure; [apply h_get_node_pure|]. intros pn Hpn.
  apply h_if; intros _; [apply h_fail|].
  eapply h_seq; [apply h_stat_node'|]. intros st.
  apply h_if; intros _; [apply h_fail|].
  eapply h_seq; [apply h_copy_node_up'|]. intros _.
  eapply h_seq; [apply h_copy_node_up'|]. intros _.
  eapply h_bind_pure; [apply h_get_node_pure|]. intros sn' Hsn'.
  eapply h_seq; [eapply h_weaken; apply h_first_real; exact Hsn'|]. intros sr.
  eapply h_seq; [apply h_lookup_node_ignore|]. intros found.
  destruct found as [q|].
  - eapply h_bind_pure; [apply h_get_node_pure|]. intros n Hn.
    apply h_if; intros _; [apply h_fail|].
    eapply h_bind_pure; [apply h_get_node_pure|]. intros pn' Hpn'.
    eapply h_bind_pure; [apply h_upper_real; exact Hpn'|]. intros pr Hpr.
    eapply h_seq; [apply h_if; intros _; [apply h_delete_whiteout_ignored; exact Hpr|hret]|]. intros _.
    eapply h_bind_pure; [apply h_ri_link; apply Hpr|]. intros ri [Hri Hru].
    eapply h_conseq; [apply h_mod_add_upper; exact Hri|auto|auto].
  - eapply h_bind_pure; [apply h_get_node_pure|]. intros pn' Hpn'.
    eapply h_bind_pure; [apply h_upper_real; exact Hpn'|]. intros pr Hpr.
    eapply h_bind_pure; [apply h_ri_link; apply Hpr|]. intros ri [Hri Hru].
    eapply h_conseq; [apply h_insert_child; apply new_node_ok; exact Hri|auto|auto].
Qed.

Lemma h_empty_children p layer rp cs : layer = 0%nat -> hu = true ->
  hoare TT (empty_children p layer rp cs) (fun _ _ => True).
Proof.
  intros Hl Hhu. induction cs as [|[nm c] cs IH]; cbn [empty_children]; [hret|].
  eapply h_seq; [|intros _; exact IH].
  apply h_if; intros _; [|hret].
  eapply h_seq; [apply h_if; intros _; [apply h_mutate; assumption|apply h_fail]|]. intros _.
  apply h_remove_child.
Qed.
Lemma h_empty_node_directory p : hoare TT (empty_node_directory p) (fun _ _ => True).
Proof.
  unfold empty_node_directory.
  eapply h_bind_pure; [apply h_get_node_pure|]. intros n Hn.
  eapply h_seq; [apply h_stat_node'|]. intros st.
  apply h_if; intros _; [apply h_fail|].
  eapply h_bind_pure; [apply h_first_real; exact Hn|]. intros r [Hr _].
  destruct (r_upper r) eqn:E; cbn [negb]; [|hret].
  destruct (Hr E) as [H0 H1]. apply h_empty_children; assumption.
Qed.

Lemma h_do_rm pp nm dir : hoare TT (do_rm pp nm dir) (fun _ _ => hu = true).
Proof.
  unfold do_rm.
  eapply h_bind_pure; [apply h_need_upper|]. intros ? Hhu. cbn beta in Hhu.
  eapply h_seq; [apply h_lookup_node|]. intros _.
  eapply h_bind_pure; [apply h_get_node_pure|]. intros pn Hpn.
  apply h_if; intros _; [apply h_fail|].
  eapply h_seq; [apply h_lookup_node|]. intros q.
  eapply h_bind_pure; [apply h_get_node_pure|]. intros n Hn.
  apply h_if; intros _; [apply h_fail|].
  eapply h_seq.
  { apply h_if; intros _; [|hret].
    eapply h_seq; [apply h_load_dir|]. intros _.
    eapply h_bind_pure; [apply h_get_node_pure|]. intros n1 Hn1.
    eapply h_seq; [apply h_stat_node'|]. intros st.
    apply h_if; intros _; [apply h_fail|].
    apply h_if; intros _; [apply h_fail|].
    apply h_if; intros _; [apply h_empty_node_directory|hret]. }
  intros _.
  eapply h_seq; [apply h_copy_node_up'|]. intros _.
  eapply h_bind_pure; [apply h_get_node_pure|]. intros n2 Hn2.
  eapply h_bind_pure; [apply h_get_node_pure|]. intros pn' Hpn'.
  eapply h_seq.
  { apply h_if; intros _; [|hret]. apply h_pure_fn. intros s. destruct (lower_has_child s (n_reals pn') nm); reflexivity. }
  intros need0.
  eapply h_seq.
  { apply h_if; intros _; [|hret].
    eapply h_bind_pure; [apply h_upper_real; exact Hpn'|]. intros pr Hpr.
    eapply h_seq; [apply h_mutate_real; apply Hpr|]. intros _. hret. }
  intros need.
  eapply h_seq; [apply h_remove_child|]. intros _.
  destruct need.
  - eapply h_bind_pure; [apply h_get_node_pure|]. intros pn'' Hpn''.
    eapply h_bind_pure; [apply h_upper_real; exact Hpn''|]. intros pr Hpr.
    eapply h_bind_pure; [apply h_ri_whiteout; apply Hpr|]. intros ri [Hri Hru].
    eapply h_conseq; [apply h_insert_child; apply new_node_ok; exact Hri|auto|auto].
  - eapply h_conseq; [apply (h_ret tt TT)|auto|auto].
Qed.

(* open: a handle obtained for writing refers to an upper backing inode *)
Lemma h_do_open p fl :
  hoare TT (do_open p fl) (fun r _ => rok r /\ (of_readonly fl = false -> r_upper r = true)).
Proof.
  unfold do_open.
  eapply h_seq; [apply h_lookup_node|]. intros _.
  eapply h_bind_pure; [apply h_get_node_pure|]. intros n Hn.
  apply h_if; intros _; [apply h_fail|].
  eapply h_bind with (Q := fun _ s => of_readonly fl = false -> upper_at p s).
  { destruct (of_readonly fl).
    - eapply h_conseq; [apply (h_ret tt TT)|auto|]. cbn beta; intros; discriminate.
    - eapply h_conseq; [apply h_copy_node_up|auto|]. cbn beta; auto. }
  intros _. cbn beta.
  eapply h_bind; [apply h_get_node|]. intros n'. cbn beta.
  intros s Hi (Hn' & Hg & Hup).
  assert (Hin : of_readonly fl = false -> in_upper n' = true) by (intros H; exact (Hup H n' Hg)).
  revert s Hi Hg Hup.
  cut (hoare TT (r <- first_real n';; t <- (fun s => match real_tree s r with Some t => (Ok t, s) | None => (Err ENOENT, s) end);;
                 match t with
                 | File _ _ _ _ => (if of_trunc fl then mutate (r_layer r) (h_setdata (r_path r) (fun _ => [])) else ret tt);;; ret r
                 | Dir _ _ _ => if of_readonly fl then ret r else fail EISDIR
                 | _ => fail EBADF
                 end) (fun r _ => rok r /\ (of_readonly fl = false -> r_upper r = true))).
  { intros H s Hi _ _. exact (H s Hi I). }
  eapply h_bind_pure; [apply h_first_real; exact Hn'|]. intros r [Hr [rs Hrs]].
  assert (Hu : of_readonly fl = false -> r_upper r = true).
  { intros H. specialize (Hin H). unfold in_upper in Hin. rewrite Hrs in Hin. exact Hin. }
  eapply h_seq; [apply h_pure_fn; intros s; destruct (real_tree s r); reflexivity|]. intros t.
  destruct t.
  - destruct (of_readonly fl); [|apply h_fail].
    eapply h_conseq; [apply (h_ret r TT)|auto|]. cbn beta; intros a s [-> _]. split; [exact Hr|intros; discriminate].
  - eapply h_seq.
    + destruct (of_trunc fl) eqn:Et; [|hret]. apply h_mutate_real; [exact Hr|apply Hu; apply of_trunc_not_readonly; exact Et].
    + intros _. eapply h_conseq; [apply (h_ret r TT)|auto|]. cbn beta; intros a s [-> _]. split; assumption.
  - apply h_fail.
  - apply h_fail.
Qed.

Lemma h_with_parent {A} p (f : path -> name -> M A) (R : A -> state -> Prop) :
  (forall pp nm, hoare TT (f pp nm) R) -> hoare TT (with_parent p f) R.
Proof.
  intros H. unfold with_parent. destruct (split_last p) as [[pp nm]|]; [|apply h_fail].
  eapply h_seq; [apply h_walk|]. intros _. apply H.
Qed.
Lemma h_entry_of pp nm (R : Prop) : R -> hoare TT (entry_of pp nm) (fun _ _ => R).
Proof.
  intros HR. unfold entry_of. eapply h_seq; [apply h_do_lookup|]. intros e.
  eapply h_conseq; [apply (h_ret _ TT)|auto|auto].
Qed.
Lemma h_sync_parent pp : hoare TT (sync_parent pp) (fun _ _ => True).
Proof.
  unfold sync_parent. eapply h_seq; [apply h_lookup_node|]. intros _.
  eapply h_bind_pure; [apply h_get_node_pure|]. intros pn Hpn.
  apply h_if; intros _; [apply h_fail|hret].
Qed.
Lemma h_node_checked p : hoare TT (node_checked p) (fun _ _ => True).
Proof.
  unfold node_checked. eapply h_seq; [apply h_lookup_node|]. intros _.
  eapply h_bind_pure; [apply h_get_node_pure|]. intros pn Hpn.
  apply h_if; intros _; [apply h_fail|hret].
Qed.
(* a successful result of a modifying operation implies that an upper layer exists *)
Definition post_of (o : op) : Prop := if modifying o then hu = true else True.

Lemma h_then_pure {A B} (m : M A) (F : Prop) (f : A -> M B) :
  hoare TT m (fun _ _ => F) -> (forall a, F -> hoare TT (f a) (fun _ _ => True)) -> hoare TT (bind m f) (fun _ _ => F).
Proof.
  intros Hm Hf. eapply h_bind_pure; [exact Hm|]. intros a HF. cbn beta in HF.
  eapply h_conseq; [apply Hf; exact HF|auto|auto].
Qed.

(* chmod / truncate / setxattr / removexattr: copy up if needed, then act on the first backing inode *)
Lemma h_ensure_then {B} p n (rest : M B) (R : B -> state -> Prop) :
  hoare (upper_at p) rest R ->
  hoare (fun s => nget p (root s) = Some n) ((if in_upper n then ret tt else copy_node_up p);;; rest) R.
Proof.
  intros H. eapply h_bind with (Q := fun _ s => upper_at p s).
  - apply h_if; intros Hin; [apply h_ret_upper_at; exact Hin|apply h_pre_any; apply h_copy_node_up].
  - intros _. exact H.
Qed.
Lemma h_on_upper p (g : real -> tree -> tree -> res tree) {B} (k : M B) :
  hoare TT k (fun _ _ => True) ->
  hoare TT (n <- get_node p;; (if in_upper n then ret tt else copy_node_up p);;;
            rt <- first_tree p;; mutate (r_layer (fst rt)) (g (fst rt) (snd rt));;; k) (fun _ _ => hu = true).
Proof.
  intros Hk. apply h_get_node_then. intros n Hn. apply h_ensure_then.
  eapply h_bind; [apply h_first_tree|]. intros rt. cbn beta. apply h_pre_pure. intros [Hr Hu].
  destruct (Hr Hu) as [_ Hhu].
  eapply h_seq; [apply h_mutate_real; assumption|]. intros _.
  eapply h_conseq; [exact Hk|auto|auto].
Qed.

Lemma h_first_tree_ret p {B} (f : real * tree -> B) : hoare TT (rt <- first_tree p;; ret (f rt)) (fun _ _ => True).
Proof. eapply h_seq; [eapply h_weaken; apply h_first_tree'|]. intros rt. hret. Qed.

Theorem step_safe o : hoare TT (step o) (fun _ _ => post_of o).
Proof.
  unfold post_of. destruct o; cbn [step modifying].
  - (* lookup *) apply h_with_parent; intros pp nm. apply h_entry_of; exact I.
  - (* getattr *) eapply h_seq; [apply h_walk|]; intros _. eapply h_seq; [apply h_lookup_node|]; intros _.
    eapply h_seq; [eapply h_weaken; apply h_first_tree'|]. intros rt. hret.
  - (* readdir *) eapply h_seq; [apply h_walk|]; intros _. eapply h_seq; [apply h_lookup_node|]; intros _.
    eapply h_bind_pure; [apply h_get_node_pure|]. intros n Hn.
    apply h_if; intros _; [apply h_fail|]. eapply h_seq; [apply h_stat_node'|]. intros st.
    apply h_if; intros _; [apply h_fail|hret].
  - (* read *) eapply h_seq; [apply h_walk|]; intros _.
    eapply h_seq; [eapply h_weaken; apply h_do_open|]. intros r.
    apply h_pure_fn. intros s. destruct (real_tree s r) as [[]|]; reflexivity.
  - (* readlink *) eapply h_seq; [apply h_walk|]; intros _. eapply h_seq; [apply h_node_checked|]; intros _.
    eapply h_seq; [eapply h_weaken; apply h_first_tree'|]. intros rt. destruct (snd rt); try apply h_fail. hret.
  - (* create *) apply h_with_parent; intros pp nm. eapply h_seq; [apply h_sync_parent|]; intros _.
    eapply h_then_pure; [apply h_do_make; intros pr Hpr; apply h_ri_create; exact Hpr|]. intros _ _. apply h_entry_of; exact I.
  - (* mkdir *) apply h_with_parent; intros pp nm. eapply h_seq; [apply h_sync_parent|]; intros _.
    eapply h_then_pure; [apply h_do_mkdir|]. intros _ _. apply h_entry_of; exact I.
  - (* mknod *) apply h_with_parent; intros pp nm. eapply h_seq; [apply h_sync_parent|]; intros _.
    eapply h_then_pure; [apply h_do_make; intros pr Hpr; apply h_ri_create; exact Hpr|]. intros _ _. apply h_entry_of; exact I.
  - (* symlink *) apply h_with_parent; intros pp nm. eapply h_seq; [apply h_lookup_node|]; intros _.
    eapply h_then_pure; [apply h_do_make; intros pr Hpr; apply h_ri_symlink; exact Hpr|]. intros _ _. apply h_entry_of; exact I.
  - (* link *) eapply h_seq; [apply h_walk|]; intros _. apply h_with_parent; intros pp nm.
    eapply h_seq; [apply h_node_checked|]; intros _. eapply h_seq; [apply h_sync_parent|]; intros _.
    eapply h_then_pure; [apply h_do_link|]. intros _ _. apply h_entry_of; exact I.
  - (* unlink *) apply h_with_parent; intros pp nm. eapply h_then_pure; [apply h_do_rm|]. intros _ _. hret.
  - (* rmdir *) apply h_with_parent; intros pp nm. eapply h_then_pure; [apply h_do_rm|]. intros _ _. hret.
  - (* rename *) apply h_with_parent; intros pp nm. apply h_with_parent; intros pp' nm'. apply h_fail.
  - (* open *) eapply h_seq; [apply h_walk|]; intros _.
    eapply h_bind_pure; [apply h_do_open|]. intros r [Hr Hu].
    eapply h_conseq; [apply (h_ret _ TT)|auto|]. cbn beta. intros _ _ _.
    destruct (of_readonly fl) eqn:Ero; cbn [negb]; [exact I|]. destruct (Hr (Hu eq_refl)) as [_ H]; exact H.
  - (* write *) eapply h_seq; [apply h_walk|]; intros _.
    eapply h_bind_pure; [apply h_do_open|]. intros r [Hr Hu]. specialize (Hu eq_refl). destruct (Hr Hu) as [_ Hhu].
    eapply h_seq; [apply h_mutate_real; assumption|]. intros _.
    eapply h_conseq; [apply (h_ret _ TT)|auto|auto].
  - (* chmod *) eapply h_seq; [apply h_walk|]; intros _. eapply h_seq; [eapply h_weaken; apply h_need_upper|]; intros _.
    eapply h_seq; [apply h_lookup_node|]; intros _.
    apply (h_on_upper p (fun r _ => h_chmod (r_path r) mode)). apply h_first_tree_ret.
  - (* truncate *) eapply h_seq; [apply h_walk|]; intros _. eapply h_seq; [eapply h_weaken; apply h_need_upper|]; intros _.
    eapply h_seq; [apply h_lookup_node|]; intros _.
    apply (h_on_upper p (fun r _ => h_setdata (r_path r) (resize (N.to_nat size)))). apply h_first_tree_ret.
  - (* setxattr *) eapply h_seq; [apply h_walk|]; intros _. eapply h_seq; [apply h_node_checked|]; intros _.
    apply (h_on_upper p (fun r _ => h_setxattr (r_path r) k v)). hret.
  - (* getxattr *) eapply h_seq; [apply h_walk|]; intros _. eapply h_seq; [apply h_node_checked|]; intros _.
    eapply h_seq; [eapply h_weaken; apply h_first_tree'|]. intros rt. destruct (afind k (xs_of (snd rt))); [hret|apply h_fail].
  - (* listxattr *) eapply h_seq; [apply h_walk|]; intros _. eapply h_seq; [apply h_node_checked|]; intros _.
    eapply h_seq; [eapply h_weaken; apply h_first_tree'|]. intros rt. hret.
  - (* removexattr *) eapply h_seq; [apply h_walk|]; intros _. eapply h_seq; [apply h_node_checked|]; intros _.
    apply (h_on_upper p (fun r _ => h_removexattr (r_path r) k)). hret.
Qed.
End WithUpper.

(* ------------------------------------------------------------------ the statements used by Props/C10.v *)
Definition all_zero (l : list nat) : Prop := Forall (fun k => k = 0%nat) l.

Lemma lower_reals_ok hu k ls : Forall (rok hu) (lower_reals k ls).
Proof.
  revert k; induction ls as [|t ls IH]; intros k; cbn [lower_reals]; constructor; auto.
  unfold rok, root_real; cbn. discriminate.
Qed.
Lemma fresh_inv u ls nx : Inv (match u with Some _ => true | None => false end) (fresh u ls nx).
Proof.
  set (hu := match u with Some _ => true | None => false end).
  assert (H0 : Inv hu (fresh0 u ls nx)).
  { split; [unfold hu_of, fresh0; cbn; reflexivity|]. unfold fresh0; cbn [root].
    apply nok_mk; [|constructor]. apply Forall_app; split; [|apply lower_reals_ok].
    destruct u as [t|]; constructor; [|constructor]. unfold rok, root_real; cbn. intros _; split; reflexivity. }
  unfold fresh. exact (proj1 (h_load_dir hu [] (fresh0 u ls nx) H0 I)).
Qed.
Lemma load_node_ok hu fuel s : forall n, nok hu n -> nok hu (load_node fuel s n).
Proof.
  induction fuel as [|f IH]; intros n Hn; cbn [load_node]; [exact Hn|].
  destruct (n_wh n); [exact Hn|].
  destruct (node_stat s n) as [[m x ch| | |]|]; try exact Hn.
  set (n1 := load1 s n).
  assert (Hn1 : nok hu n1) by (apply load1_ok; exact Hn).
  apply nok_mk; [apply nok_reals; exact Hn1|].
  pose proof (nok_ch hu n1 Hn1) as Hc. induction Hc as [|kv l H1 H2 IHl]; cbn [map]; constructor; auto.
  cbn [snd]. apply IH; exact H1.
Qed.
Lemma load_all_inv hu s : Inv hu s -> Inv hu (load_all s) /\ step_ok hu s (load_all s).
Proof.
  intros [Hh Hn]. unfold load_all. split; [split; [exact Hh|cbn [root]; apply load_node_ok; exact Hn]|].
  unfold step_ok; cbn. repeat split; auto. exists []; split; [reflexivity|constructor].
Qed.

(* every operation: lower layers byte-for-byte unchanged, every logged mutation is on layer 0 *)
Theorem lowers_untouched hu s o : Inv hu s ->
  Inv hu (run_op o s) /\ lowers (run_op o s) = lowers s /\
  exists l, log (run_op o s) = l ++ log s /\ all_zero l.
Proof.
  intros Hi. destruct (step_safe hu o s Hi I) as (A1 & (B1 & B2 & B3 & B4) & _).
  unfold run_op. auto.
Qed.
(* whole histories, with a tree dump (load_all) after any step *)
Fixpoint run_dumps (ops : list (bool * op)) (s : state) : state :=
  match ops with
  | [] => s
  | (d, o) :: r => let s1 := run_op o s in run_dumps r (if d then load_all s1 else s1)
  end.
Theorem lowers_untouched_history u ls nx ops :
  let s := run_dumps ops (load_all (fresh u ls nx)) in
  lowers s = ls /\ all_zero (log s).
Proof.
  set (hu := match u with Some _ => true | None => false end).
  assert (G : forall ops s, Inv hu s -> Inv hu (run_dumps ops s) /\ step_ok hu s (run_dumps ops s)).
  { induction ops0 as [|[d o] r IH]; intros s Hi; cbn [run_dumps]; [split; [exact Hi|apply step_ok_refl]|].
    destruct (step_safe hu o s Hi I) as (A1 & A2 & _). fold (run_op o s) in A1, A2.
    destruct d.
    - destruct (load_all_inv hu _ A1) as [B1 B2]. destruct (IH _ B1) as [C1 C2].
      split; [exact C1|]. exact (step_ok_trans hu _ _ _ A2 (step_ok_trans hu _ _ _ B2 C2)).
    - destruct (IH _ A1) as [C1 C2]. split; [exact C1|]. exact (step_ok_trans hu _ _ _ A2 C2). }
  cbn zeta. pose proof (fresh_inv u ls nx) as H0. fold hu in H0.
  destruct (load_all_inv hu _ H0) as [H1 H2]. destruct (G ops _ H1) as [_ H3].
  pose proof (step_ok_trans hu _ _ _ H2 H3) as (L1 & _ & (l & L2 & L3) & _).
  assert (Hf : lowers (fresh u ls nx) = ls /\ log (fresh u ls nx) = []).
  { unfold fresh, load_dir, bind, get_node. cbn [nget root fresh0].
    match goal with |- context [n_loaded ?n] => destruct (n_loaded n) end; cbn; [auto|].
    match goal with |- context [scan_children ?a ?b] => destruct (scan_children a b) end; cbn; auto. }
  destruct Hf as [F1 F2]. split; [congruence|]. rewrite L2, F2, app_nil_r. exact L3.
Qed.

(* without an upper layer: nothing on disk changes, nothing is logged, modifying operations fail *)
Theorem no_upper_ro s o : Inv false s ->
  let s' := run_op o s in
  Inv false s' /\ upper s' = upper s /\ lowers s' = lowers s /\ log s' = log s /\
  (modifying o = true -> exists e, fst (step o s) = Err e).
Proof.
  intros Hi. destruct (step_safe false o s Hi I) as (A1 & (B1 & B2 & B3 & B4) & A3).
  destruct (B4 eq_refl) as [C1 C2]. unfold run_op. cbn zeta.
  split; [exact A1|]. split; [exact C1|]. split; [exact B1|]. split; [exact C2|].
  intros Hm. destruct (fst (step o s)) as [a|e] eqn:E; [|eauto].
  specialize (A3 a eq_refl). unfold post_of in A3. rewrite Hm in A3. discriminate.
Qed.
