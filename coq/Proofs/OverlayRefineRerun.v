(* Re-running: an operation that copies a directory chain up before its real work behaves, from the start, exactly as it
   does from the state AFTER that copy-up - there its walk and its lookups find everything loaded and change nothing, and its
   copy-up is a no-op.  So the refinement theorems for "parent in the upper layer" lift to "parent visible in any layer".
   This file: what the copy-up of a directory chain does to the disk below the directory (nothing: [cu_disk_rel]), walks and
   lookups that only read the cache ([walk_noop]), the state after the copy-up ([cu_prestate]) and the transfer of [refines_at]
   between two states that run the operation alike ([refines_transfer]). *)
From Coq Require Import List String Arith NArith Bool Lia.
From FB Require Import Model.Overlay Proofs.OverlayInv Proofs.OverlayScan Proofs.OverlayRestart
  Proofs.OverlayReadOnly Proofs.OverlayCoh Proofs.OverlayCohView Proofs.OverlayCopyUp Proofs.OverlayCohOps
  Proofs.OverlayCohSteps Proofs.OverlayRefineTeq Proofs.OverlayRefineMerge Proofs.OverlayRefineRun Proofs.OverlayRefine
  Proofs.OverlayRefineWh Proofs.OverlayRefineCu Proofs.OverlayRefineCuRm.
Import ListNotations.
Local Open Scope N_scope.

(* ------------------------------------------------------------------ candidates after an update of the top layer *)
Lemma mstack_app (a : path) : forall es (b : path), mstack es (a ++ b) = mstack (mstack es a) b.
Proof. induction a as [|k a IH]; intros es b; cbn [app mstack]; [reflexivity|apply IH]. Qed.
Lemma mstack_tupd (pp : path) g : forall e0 es d, tget e0 pp = Some d ->
  mstack (tupd pp g e0 :: es) pp = g d :: tl (mstack (e0 :: es) pp).
Proof.
  induction pp as [|k pp IH]; intros e0 es d H; cbn [tget tupd mstack] in *; [inversion H; subst; reflexivity|].
  destruct e0 as [m x ch| | |]; try discriminate. destruct (afind k ch) as [e1|] eqn:Ek; [|discriminate].
  rewrite (dir_stack_head m x (amap k (tupd pp g) ch)), (dir_stack_head m x ch), !ents_cons. cbn [dir_children].
  rewrite afind_amap, Ek. cbn [option_map]. rewrite (dir_stack_tl_indep m x ch). apply IH. exact H.
Qed.
(* an empty directory without xattrs on top of a group of candidates shows what the group shows *)
Lemma mstack_empty_top md es (k : name) (r : path) : mstack (Dir md [] [] :: es) (k :: r) = mstack es (k :: r).
Proof. cbn [mstack]. change (dir_stack (Dir md [] [] :: es)) with (Dir md [] [] :: dir_stack es). rewrite ents_cons. reflexivity. Qed.

(* the upper directory [u1] after a copy-up towards [p], compared with [u] before: same candidates below [p], same leaves *)
Definition cu_disk_rel (u : tree) (ls : list tree) (p : path) (u1 : tree) : Prop :=
  (forall (k : name) (r : path), mstack (u1 :: ls) (p ++ k :: r) = mstack (u :: ls) (p ++ k :: r)) /\
  (forall (q : path) t, tget u q = Some t -> is_dirT t = false -> tget u1 q = Some t) /\
  (forall (q : path) m x ch, tget u q = Some (Dir m x ch) -> exists ch', tget u1 q = Some (Dir m x ch')).
Lemma cu_disk_rel_refl u ls p : cu_disk_rel u ls p u.
Proof. split; [auto|split; [auto|eauto]]. Qed.
Lemma tget_tupd_ins_dir (nm : name) D0 : forall (pp : path) U (q : path) m x ch mq xq chq, tget U pp = Some (Dir m x ch) -> afind nm ch = None ->
  tget U q = Some (Dir mq xq chq) -> exists ch', tget (tupd pp (dir_ins nm D0) U) q = Some (Dir mq xq ch').
Proof.
  induction pp as [|c pp IH]; intros U q m x ch mq xq chq Hpp Hnone Hq; cbn [tget tupd] in *.
  - inversion Hpp; subst U. cbn [dir_ins]. destruct q as [|k q]; cbn [tget] in *; [inversion Hq; subst; eauto|].
    rewrite afind_aset. destruct (String.eqb k nm) eqn:E; [|eauto]. apply String.eqb_eq in E. subst k. rewrite Hnone in Hq. discriminate.
  - destruct U as [m0 x0 ch0| | |]; try discriminate. destruct (afind c ch0) as [e1|] eqn:Ec; [|discriminate].
    destruct q as [|k q]; cbn [tget] in *; [inversion Hq; subst; eauto|].
    destruct (String.eqb c k) eqn:E.
    + apply String.eqb_eq in E. subst k. rewrite afind_amap, Ec in *. cbn [option_map]. apply (IH e1 q m x ch mq xq chq); assumption.
    + rewrite (afind_amap_other _ _ _ _ E). eauto.
Qed.
Lemma tget_tupd_ins_leaf (nm : name) D0 : forall (pp : path) U (q : path) t m x ch, tget U pp = Some (Dir m x ch) -> afind nm ch = None ->
  tget U q = Some t -> is_dirT t = false -> tget (tupd pp (dir_ins nm D0) U) q = Some t.
Proof.
  induction pp as [|c pp IH]; intros U q t m x ch Hpp Hnone Hq Hnd; cbn [tget tupd] in *.
  - inversion Hpp; subst U. cbn [dir_ins]. destruct q as [|k q]; cbn [tget] in *; [inversion Hq; subst; discriminate|].
    rewrite afind_aset. destruct (String.eqb k nm) eqn:E; [|exact Hq]. apply String.eqb_eq in E. subst k. rewrite Hnone in Hq. discriminate.
  - destruct U as [m0 x0 ch0| | |]; try discriminate. destruct (afind c ch0) as [e1|] eqn:Ec; [|discriminate].
    destruct q as [|k q]; cbn [tget] in *; [inversion Hq; subst; discriminate|].
    destruct (String.eqb c k) eqn:E.
    + apply String.eqb_eq in E. subst k. rewrite afind_amap, Ec in *. cbn [option_map]. apply (IH e1 q t m x ch); assumption.
    + rewrite (afind_amap_other _ _ _ _ E). exact Hq.
Qed.
Lemma cu_disk_rel_step u ls (pp : path) (nm : name) U m x ch md : cu_disk_rel u ls pp U ->
  tget U pp = Some (Dir m x ch) -> afind nm ch = None ->
  cu_disk_rel u ls (pp ++ [nm]) (tupd pp (dir_ins nm (Dir md [] [])) U).
Proof.
  intros (R1 & R2 & R3) Hpp Hnone. set (D0 := Dir md [] []). split; [|split].
  - intros k r. rewrite <- app_assoc. cbn [app]. rewrite <- (R1 nm (k :: r)).
    change (pp ++ nm :: k :: r) with (pp ++ [nm] ++ k :: r). rewrite (app_assoc pp [nm] (k :: r)), !(mstack_app (pp ++ [nm])).
    assert (E : mstack (tupd pp (dir_ins nm D0) U :: ls) (pp ++ [nm]) = D0 :: mstack (U :: ls) (pp ++ [nm])).
    { rewrite !mstack_snoc, (mstack_tupd pp (dir_ins nm D0) U ls _ Hpp). destruct (mstack_head pp U ls _ Hpp) as [R HR]. rewrite HR. cbn [tl dir_ins].
      rewrite (dir_stack_head m x (aset nm D0 ch)), (dir_stack_head m x ch), !ents_cons. cbn [dir_children]. rewrite afind_aset_same, Hnone.
      rewrite (dir_stack_tl_indep m x ch). reflexivity. }
    rewrite E. apply mstack_empty_top.
  - intros q t Hq Hnd. apply (tget_tupd_ins_leaf nm D0 pp U q t m x ch Hpp Hnone); [apply R2; assumption|exact Hnd].
  - intros q mq xq chq Hq. destruct (R3 q mq xq chq Hq) as [ch1 H1]. exact (tget_tupd_ins_dir nm D0 pp U q m x ch mq xq ch1 Hpp Hnone H1).
Qed.

Lemma cud_disk fuel : forall (p : path) s s' u, Coherent s -> upper s = Some u -> create_upper_dir fuel p s = (Ok tt, s') ->
  exists u', upper s' = Some u' /\ cu_disk_rel u (lowers s) p u'.
Proof.
  induction fuel as [|f IH]; intros p s s' u HC Hu Hrun; cbn [create_upper_dir] in Hrun; [discriminate|].
  unfold bind at 1 in Hrun. unfold get_node at 1 in Hrun. destruct (nget p (root s)) as [n|] eqn:Hg; [|discriminate].
  unfold bind at 1 in Hrun. unfold stat_node in Hrun. destruct (node_stat s n) as [st|] eqn:Hst; [|discriminate].
  destruct (is_dirT st) eqn:Edir; cbn [negb] in Hrun; [|discriminate].
  destruct (in_upper n) eqn:Eup.
  { inversion Hrun; subst. exists u. split; [exact Hu|apply cu_disk_rel_refl]. }
  destruct (split_last p) as [[pp nm]|] eqn:Esp; [|discriminate].
  pose proof (split_last_spec _ _ _ Esp) as Hp. subst p.
  unfold bind at 1 in Hrun. unfold get_node at 1 in Hrun. destruct (nget pp (root s)) as [pn|] eqn:Hgp; [|discriminate].
  unfold bind at 1 in Hrun.
  destruct ((if in_upper pn then ret tt else create_upper_dir f pp) s) as [[[]|e] s1] eqn:E1; [|discriminate].
  assert (H1 : Coherent s1 /\ lowers s1 = lowers s /\ upper_at' pp s1 /\ exists U, upper s1 = Some U /\ cu_disk_rel u (lowers s) pp U).
  { destruct (in_upper pn) eqn:Epu.
    - inversion E1; subst s1. split; [exact HC|]. split; [reflexivity|]. split; [intros n' Hn'; rewrite Hgp in Hn'; inversion Hn'; subst; exact Epu|].
      exists u. split; [exact Hu|apply cu_disk_rel_refl].
    - destruct (cud_coherent f pp s _ _ HC E1) as (A & _ & L & _ & C). destruct (IH pp s s1 u HC Hu E1) as (U & HU & R).
      split; [exact A|]. split; [exact L|]. split; [apply C; reflexivity|eauto]. }
  destruct H1 as (HC1 & Hlo1 & Hup1 & U & HU & RU).
  unfold bind at 1 in Hrun. unfold get_node at 1 in Hrun. destruct (nget pp (root s1)) as [pn'|] eqn:Hgp1; [|discriminate].
  pose proof (Hup1 pn' Hgp1) as Hpu.
  pose proof HC1 as (_ & Hw1 & HCT1). pose proof (HCT1 pp pn' Hgp1) as Npn.
  unfold bind at 1 in Hrun. unfold upper_real in Hrun. unfold in_upper in Hpu.
  destruct (n_reals pn') as [|pr prs] eqn:Epr; [discriminate|]. rewrite Hpu in Hrun. cbn [ret] in Hrun.
  destruct (first_upper_stack s1 pp pn' pr prs Npn Epr Hpu) as (Hl0 & Hpp & _).
  unfold bind at 1 in Hrun.
  destruct (ri_mkdir_cu pr nm (mode_of st) s1) as [[ri|e] s2] eqn:Emk; [|discriminate].
  destruct (ri_mkdir_cu_spec _ _ _ _ _ _ Hw1 Hpu Hl0 Emk) as (U0 & U1 & HU0 & Hmk & -> & HU2 & Hlow2 & Hroot2).
  rewrite Hpp in *. assert (U0 = U) by congruence. subst U0.
  unfold h_insert in Hmk. destruct (tget U pp) as [[m x ch| | |]|] eqn:Etg; try discriminate.
  destruct (afind nm ch) eqn:Enm; [discriminate|]. inversion Hmk; subst U1; clear Hmk.
  unfold mod_node in Hrun. inversion Hrun; subst s'. cbn [upper]. eexists. split; [exact HU2|].
  apply (cu_disk_rel_step u (lowers s) pp nm U m x ch _ RU Etg Enm).
Qed.

(* ------------------------------------------------------------------ walks and lookups that only read the cache *)
Lemma nget_app_inv (a : path) : forall (b : path) r n, nget (a ++ b) r = Some n -> exists m, nget a r = Some m /\ nget b m = Some n.
Proof.
  induction a as [|k a IH]; intros b r n H; cbn [app nget] in *; [eauto|].
  destruct (afind k (n_ch r)) as [c|]; [apply IH; exact H|discriminate].
Qed.
Lemma has_child_loaded s (q : path) n (k : name) c : Coherent s -> nget q (root s) = Some n -> afind k (n_ch n) = Some c ->
  n_loaded n = true /\ n_wh n = false.
Proof.
  intros (_ & _ & HCT) Hg Hc. pose proof (HCT q n Hg) as N. cbn [app] in N.
  assert (Hld : n_loaded n = true) by (destruct (n_loaded n) eqn:El; [reflexivity|rewrite (ok_unl _ _ _ _ N El) in Hc; discriminate]).
  split; [exact Hld|]. exact (proj1 (ok_ld _ _ _ _ N Hld)).
Qed.
Lemma do_lookup_noop (cur : path) (c : name) s pn cn st : Coherent s -> nget cur (root s) = Some pn -> afind c (n_ch pn) = Some cn ->
  n_wh cn = false -> node_stat s cn = Some st -> (is_dirT st = true -> n_loaded cn = true) ->
  do_lookup cur (Some c) s = (Ok (cur ++ [c], st), s).
Proof.
  intros HC Hg Hc Hw Hst Hld. destruct (has_child_loaded s cur pn c cn HC Hg Hc) as [Hlp Hwp].
  pose proof (lookup_loaded cur s pn HC Hg Hwp Hlp (Some c)) as Hlk. cbn beta iota in Hlk. rewrite Hc in Hlk.
  unfold do_lookup. rewrite (bind_ok _ _ _ _ _ Hlk), (bind_ok _ _ _ _ _ (get_node_ok _ s cn (nget_snoc cur c (root s) pn cn Hg Hc))), Hw.
  assert (Es : stat_node cn s = (Ok st, s)) by (unfold stat_node; rewrite Hst; reflexivity).
  rewrite (bind_ok _ _ _ _ _ Es). unfold load_if_dir. destruct (is_dirT st) eqn:Ed; cbn [andb]; [rewrite (Hld eq_refl)|]; reflexivity.
Qed.
(* a walk to a node that is loaded (or not a directory) reads the cache only *)
Lemma walk_noop s : forall (p cur : path) n st, Coherent s -> nget (cur ++ p) (root s) = Some n -> n_wh n = false ->
  node_stat s n = Some st -> (is_dirT st = true -> n_loaded n = true) -> walk_from cur p s = (Ok tt, s).
Proof.
  induction p as [|c p IH]; intros cur n st HC Hg Hw Hst Hld; cbn [walk_from]; [reflexivity|].
  replace (cur ++ c :: p) with ((cur ++ [c]) ++ p) in Hg by (rewrite <- app_assoc; reflexivity).
  destruct (nget_app_inv (cur ++ [c]) p (root s) n Hg) as (cn & Hgc & Hgn).
  destruct (nget_app_inv cur [c] (root s) cn Hgc) as (pn & Hgp & Hpc). cbn [nget] in Hpc.
  destruct (afind c (n_ch pn)) as [cn'|] eqn:Ec; [|discriminate]. inversion Hpc; subst cn'.
  assert (Hcn : exists stc, n_wh cn = false /\ node_stat s cn = Some stc /\ (is_dirT stc = true -> n_loaded cn = true)).
  { destruct p as [|k p'].
    - cbn [nget] in Hgn. inversion Hgn; subst cn. eauto.
    - cbn [nget] in Hgn. destruct (afind k (n_ch cn)) as [gc|] eqn:Ek; [|discriminate].
      destruct (has_child_loaded s (cur ++ [c]) cn k gc HC Hgc Ek) as [A B].
      destruct (node_first_real s (cur ++ [c]) cn HC Hgc) as (r0 & rs0 & t0 & _ & _ & Hst0 & _). eauto. }
  destruct Hcn as (stc & Hwc & Hstc & Hldc).
  rewrite (bind_ok _ _ _ _ _ (do_lookup_noop cur c s pn cn stc HC Hgp Ec Hwc Hstc Hldc)).
  apply (IH (cur ++ [c]) n st HC Hg Hw Hst Hld).
Qed.

(* ------------------------------------------------------------------ the state after the copy-up of a visible, loaded directory *)
Lemma cu_prestate (pp : path) s u pn m x ch : Coherent s -> upper s = Some u -> nget pp (root s) = Some pn ->
  node_stat s pn = Some (Dir m x ch) -> n_loaded pn = true -> (List.length pp < DEPTH)%nat -> cu_disk_ok u (lowers s) pp ->
  exists s3 u3 pn3 pr prs m3 x3 ch3, copy_node_up pp s = (Ok tt, s3) /\ Coherent s3 /\ upper s3 = Some u3 /\ lowers s3 = lowers s /\
    next_ino s3 = next_ino s /\ oteq (merge (u3 :: lowers s)) (merge (u :: lowers s)) /\ cu_disk_rel u (lowers s) pp u3 /\
    nget pp (root s3) = Some pn3 /\ n_loaded pn3 = true /\ n_wh pn3 = false /\
    n_reals pn3 = pr :: prs /\ r_upper pr = true /\ r_layer pr = 0%nat /\ r_path pr = pp /\ tget u3 pp = Some (Dir m3 x3 ch3) /\
    cache_frame pp s s3 /\ same_paths s s3 /\
    walk pp s3 = (Ok tt, s3) /\ copy_node_up pp s3 = (Ok tt, s3) /\
    (forall nmo, lookup_node pp nmo s3 =
       (match nmo with
        | None => Ok pp
        | Some nm => match afind nm (n_ch pn3) with Some _ => Ok (pp ++ [nm]) | None => Err ENOENT end
        end, s3)).
Proof.
  intros HC Hu Hg Hst Hld Hdep Hcu.
  destruct (cnu_dir_run pp s u pn m x ch HC Hu Hg Hst Hdep Hcu) as (s3 & u3 & Ecu & HC3 & Hu3 & L3 & I3 & M3 & SP & Up).
  assert (Hnwp : forall n0, nget pp (root s) = Some n0 -> n_wh n0 = false).
  { intros n0 H0. rewrite Hg in H0. inversion H0; subst n0.
    destruct (node_first_real s pp pn HC Hg) as (r & rs & t & _ & _ & Hst' & _ & _ & _ & _ & Hw). rewrite Hst in Hst'. inversion Hst'; subst t. exact Hw. }
  destruct (cnu_coherent pp s _ s3 HC Hnwp Ecu) as (_ & _ & _ & Fr & _).
  (* the disk below pp *)
  assert (Hrel : cu_disk_rel u (lowers s) pp u3).
  { unfold copy_node_up in Ecu. rewrite (bind_ok _ _ _ _ _ (get_node_ok pp s pn Hg)) in Ecu. destruct (in_upper pn) eqn:Eup.
    - inversion Ecu; subst s3. assert (u3 = u) by congruence. subst u3. apply cu_disk_rel_refl.
    - assert (Es : stat_node pn s = (Ok (Dir m x ch), s)) by (unfold stat_node; rewrite Hst; reflexivity).
      rewrite (bind_ok _ _ _ _ _ Es) in Ecu. destruct (cud_disk _ pp s s3 u HC Hu Ecu) as (u' & Hu' & R). assert (u' = u3) by congruence. subst u'. exact R. }
  destruct (same_paths_some s s3 pp pn SP Hg) as (pn3 & Hg3 & Hsig). unfold nsig in Hsig. inversion Hsig as [[Hld3 Hfd3]]. rewrite Hld in Hld3.
  pose proof (Up pn3 Hg3) as Hpu3.
  destruct (node_first_real s3 pp pn3 HC3 Hg3) as (pr & prs & tp & Er & _ & Hstp & Hpath & Hupr & _ & Hd & Hw3).
  assert (Hup : r_upper pr = true) by (unfold in_upper in Hpu3; rewrite Er in Hpu3; exact Hpu3).
  assert (Hl0 : r_layer pr = 0%nat) by (rewrite Hup in Hupr; symmetry in Hupr; apply Nat.eqb_eq in Hupr; exact Hupr).
  pose proof HC3 as (_ & _ & HCT3). pose proof (HCT3 pp pn3 Hg3) as N3. cbn [app] in N3.
  destruct (ok_ld _ _ _ _ N3 Hld3) as (Hw3' & Hfd & _).
  assert (Htp : is_dirT tp = true) by (rewrite <- Hd; rewrite Er in Hfd; exact Hfd).
  destruct tp as [m3 x3 ch3| | |]; try discriminate.
  pose proof (upper_dir_of_node s3 u3 pp pn3 _ HC3 Hu3 Hg3 Hpu3 Hstp) as Hpp3.
  exists s3, u3, pn3, pr, prs, m3, x3, ch3.
  split; [exact Ecu|]. split; [exact HC3|]. split; [exact Hu3|]. split; [exact L3|]. split; [exact I3|]. split; [exact M3|]. split; [exact Hrel|].
  split; [exact Hg3|]. split; [exact Hld3|]. split; [exact Hw3'|]. split; [exact Er|]. split; [exact Hup|]. split; [exact Hl0|]. split; [exact Hpath|].
  split; [exact Hpp3|]. split; [exact Fr|]. split; [exact SP|].
  split; [|split; [exact (copy_up_noop pp s3 pn3 pr prs Hg3 Er Hup)|exact (lookup_loaded pp s3 pn3 HC3 Hg3 Hw3' Hld3)]].
  unfold walk. apply (walk_noop s3 pp [] pn3 (Dir m3 x3 ch3) HC3); auto.
Qed.
(* a child of the directory is the same node before and after *)
Lemma cache_frame_child (pp : path) (nm : name) s s3 pn pn3 : cache_frame pp s s3 -> nget pp (root s) = Some pn -> nget pp (root s3) = Some pn3 ->
  afind nm (n_ch pn3) = afind nm (n_ch pn).
Proof.
  intros Fr Hg Hg3. pose proof (Fr (pp ++ [nm]) (not_prefix_snoc pp nm)) as H.
  destruct (afind nm (n_ch pn)) as [c|] eqn:Ec.
  - rewrite (nget_snoc pp nm (root s) pn c Hg Ec) in H. exact (nget_child pp nm (root s3) pn3 c Hg3 H).
  - rewrite (nget_snoc_none pp nm (root s) pn Hg Ec) in H. destruct (afind nm (n_ch pn3)) as [c3|] eqn:E3; [|reflexivity].
    rewrite (nget_snoc pp nm (root s3) pn3 c3 Hg3 E3) in H. discriminate.
Qed.

(* ------------------------------------------------------------------ two states that run the operation alike *)
Lemma refines_transfer s s3 o v v3 : step o s = step o s3 -> lowers s3 = lowers s -> next_ino s3 = next_ino s ->
  teq v3 v -> refines_at s3 o v3 -> refines_at s o v.
Proof.
  intros Hrun Hl Hn T (R3 & T3 & L3). unfold refines_at, run_op in *. rewrite Hrun. rewrite Hn in *.
  destruct (fs_apply_teq o v3 v (next_ino s) T) as (R2 & T2 & _).
  split; [exact (res_same_trans _ _ _ R3 R2)|]. split; [|congruence].
  apply (oteq_trans _ (Some (f_tree (snd (fs_apply o (mkFs v3 (next_ino s))))))); [exact T3|exact T2].
Qed.
(* the views of two coherent states whose unions agree *)
Lemma views_teq s s3 u u3 v : Coherent s -> Coherent s3 -> upper s = Some u -> upper s3 = Some u3 -> lowers s3 = lowers s ->
  oteq (merge (u3 :: lowers s)) (merge (u :: lowers s)) -> view (load_all s) = Some v ->
  exists v3, view (load_all s3) = Some v3 /\ teq v3 v.
Proof.
  intros HC HC3 Hu Hu3 Hl M Hv.
  pose proof (coherent_view_union s HC) as A. pose proof (coherent_view_union s3 HC3) as B.
  rewrite Hu, Hv in A. rewrite Hu3, Hl in B. cbn [all_layers] in A, B.
  pose proof (oteq_trans _ _ _ (oteq_sym _ _ B) (oteq_trans _ _ _ M A)) as T.
  destruct (view (load_all s3)) as [v3|]; [|contradiction]. exists v3. split; [reflexivity|exact T].
Qed.
