(* Symbolic runs of the overlay operations from a coherent state, for targets reached through the
   upper layer: what the operation answers and what it does to the upper directory, as a function
   of the disk state.  (The coherence proofs of Proofs/OverlayCohOps.v conclude [Coherent] only.) *)
From Coq Require Import List String Arith NArith Bool Lia.
From FB Require Import Model.Overlay Proofs.OverlayInv Proofs.OverlayScan Proofs.OverlayRestart
  Proofs.OverlayReadOnly Proofs.OverlayCoh Proofs.OverlayCohView Proofs.OverlayCopyUp Proofs.OverlayCohOps
  Proofs.OverlayCohSteps Proofs.OverlayRefineTeq Proofs.OverlayRefineMerge.
Import ListNotations.
Local Open Scope N_scope.

(* ------------------------------------------------------------------ candidates: indices (lstack) and trees (mstack) *)
Section Bridge.
Variable s : state.
Definition entR (p : path) (i : nat) (t : tree) : Prop := ent s i p = Some t.

Lemma dcut_rel p st es : Forall2 (entR p) st es -> Forall2 (entR p) (dcut (shp s) p st) (dir_stack es).
Proof.
  induction 1 as [|i t st es Hi _ IH]; cbn [dcut dir_stack]; [constructor|].
  unfold shp. rewrite Hi. cbn [option_map]. destruct t as [m x ch| | |]; cbn [sh]; try constructor.
  destruct (xs_opaque x); constructor; auto.
Qed.
Lemma ents_rel p k ds es : Forall2 (entR p) ds es ->
  Forall2 (entR (p ++ [k])) (filter (present (shp s) (p ++ [k])) ds) (ents k es).
Proof.
  induction 1 as [|i t ds es Hi _ IH]; cbn [filter ents filter_map]; [constructor|]. fold (ents k es).
  unfold present, shp. rewrite (ent_child s i p k), Hi.
  destruct t as [m x ch| | |]; cbn [dir_children afind option_map]; try exact IH.
  destruct (afind k ch) as [c|] eqn:E; cbn [option_map]; [|exact IH]. constructor; [|exact IH].
  unfold entR. rewrite (ent_child s i p k), Hi. exact E.
Qed.
Lemma kids_rel p k st es : Forall2 (entR p) st es -> Forall2 (entR (p ++ [k])) (kids (shp s) p st k) (ents k (dir_stack es)).
Proof. intros H. unfold kids. apply ents_rel. apply dcut_rel. exact H. Qed.
Lemma lstk_rel p : forall st p0 es, Forall2 (entR p0) st es -> Forall2 (entR (p0 ++ p)) (lstk (shp s) st p0 p) (mstack es p).
Proof.
  induction p as [|k p IH]; intros st p0 es H; cbn [lstk mstack]; [rewrite app_nil_r; exact H|].
  replace (p0 ++ k :: p) with ((p0 ++ [k]) ++ p) by (rewrite <- app_assoc; reflexivity).
  apply IH. apply kids_rel. exact H.
Qed.
Lemma nth_seq_rel (l : list tree) : forall j, (forall i t, nth_error l i = Some t -> ent s (j + i) [] = Some t) ->
  Forall2 (entR []) (seq j (List.length l)) l.
Proof.
  induction l as [|t l IH]; intros j H; cbn [List.length seq]; constructor.
  - unfold entR. specialize (H 0%nat t eq_refl). rewrite Nat.add_0_r in H. exact H.
  - apply IH. intros i t' Hi. specialize (H (S i) t' Hi). replace (S j + i)%nat with (j + S i)%nat by lia. exact H.
Qed.
Lemma lstack_rel u p : upper s = Some u ->
  Forall2 (entR p) (lstack (shp s) (List.length (lowers s)) p) (mstack (u :: lowers s) p).
Proof.
  intros Hu. unfold lstack. change p with ([] ++ p) at 1. apply lstk_rel. cbn [seq]. constructor.
  - unfold entR, ent. cbn. rewrite Hu. reflexivity.
  - apply nth_seq_rel. intros i t Hi. unfold ent. cbn [get_layer Nat.add tget]. rewrite Hi. reflexivity.
Qed.

(* a path that exists in the upper tree has layer 0 as its first candidate *)
Lemma lstack_upper u p : upper s = Some u -> forall t, tget u p = Some t ->
  exists rest, lstack (shp s) (List.length (lowers s)) p = 0%nat :: rest.
Proof.
  intros Hu. induction p as [|k q IH] using rev_ind; intros t Ht.
  - unfold lstack. cbn. eauto.
  - rewrite tget_app in Ht. destruct (tget u q) as [[m x ch| | |]|] eqn:Eq; try discriminate.
    destruct (IH _ eq_refl) as [rest Hr]. rewrite lstack_snoc, Hr. unfold kids. cbn [dcut].
    assert (H0 : shp s 0%nat q = Some (SDir (xs_opaque x))) by (unfold shp, ent; cbn [get_layer]; rewrite Hu, Eq; reflexivity).
    assert (H1 : present (shp s) (q ++ [k]) 0%nat = true).
    { unfold present, shp, ent. cbn [get_layer]. rewrite Hu, tget_app, Eq, Ht. reflexivity. }
    rewrite H0. destruct (xs_opaque x); cbn [filter]; rewrite H1; eauto.
Qed.
Lemma kids_nil_of_mstack u (pp : path) (nm : name) : upper s = Some u -> mstack (u :: lowers s) (pp ++ [nm]) = [] ->
  kids (shp s) pp (lstack (shp s) (List.length (lowers s)) pp) nm = [].
Proof.
  intros Hu H. rewrite <- lstack_snoc. pose proof (lstack_rel u (pp ++ [nm]) Hu) as R. rewrite H in R. inversion R. reflexivity.
Qed.
End Bridge.

(* ------------------------------------------------------------------ running the monad *)
Lemma bind_ok {A B} (m : M A) (f : A -> M B) s a s1 : m s = (Ok a, s1) -> bind m f s = f a s1.
Proof. unfold bind. intros ->. reflexivity. Qed.
Lemma bind_err {A B} (m : M A) (f : A -> M B) s e s1 : m s = (Err e, s1) -> bind m f s = (Err e, s1).
Proof. unfold bind. intros ->. reflexivity. Qed.
Lemma get_node_ok p s n : nget p (root s) = Some n -> get_node p s = (Ok n, s).
Proof. unfold get_node. intros ->. reflexivity. Qed.
Lemma split_last_snoc (pp : path) (nm : name) : split_last (pp ++ [nm]) = Some (pp, nm).
Proof.
  induction pp as [|a pp IH]; [reflexivity|]. cbn [app split_last]. rewrite IH.
  destruct (pp ++ [nm]) eqn:E; [destruct pp; discriminate|reflexivity].
Qed.

(* same disk and same inode counter *)
Definition sd (s s1 : state) : Prop := upper s1 = upper s /\ lowers s1 = lowers s /\ next_ino s1 = next_ino s.
Lemma sd_refl s : sd s s. Proof. repeat split. Qed.
Lemma sd_trans a b c : sd a b -> sd b c -> sd a c.
Proof. intros (A1 & A2 & A3) (B1 & B2 & B3). repeat split; congruence. Qed.
Lemma keeps_sd {A} (m : M A) s : keeps m -> sd s (snd (m s)).
Proof. intros K. destruct (K s) as (A1 & A2 & A3 & _). repeat split; assumption. Qed.

(* ------------------------------------------------------------------ a cached node whose path exists in the upper tree *)
Lemma upper_node s u (pp : path) pn t : Coherent s -> upper s = Some u -> nget pp (root s) = Some pn -> tget u pp = Some t ->
  exists pr prs, n_reals pn = pr :: prs /\ r_upper pr = true /\ r_layer pr = 0%nat /\ r_path pr = pp /\
    node_stat s pn = Some t /\ n_wh pn = is_whT t /\ first_dir (n_reals pn) = is_dirT t.
Proof.
  intros (_ & _ & HCT) Hu Hg Ht. pose proof (HCT pp pn Hg) as N. cbn [app] in N.
  destruct (first_good_stat s _ pp pn N) as (r & rs & t' & Er & Et & Hst & Hw & Hd & Hp).
  destruct (lstack_upper s u pp Hu t Ht) as [rest Hl].
  pose proof (ok_hd _ _ _ _ N) as Hh. rewrite Er, Hl in Hh. cbn [map hd_error] in Hh. inversion Hh as [H0].
  assert (t' = t). { rewrite H0 in Et. unfold ent in Et. cbn [get_layer] in Et. rewrite Hu, Ht in Et. inversion Et. reflexivity. }
  subst t'. exists r, rs. split; [exact Er|].
  pose proof (ok_reals _ _ _ _ N) as Hr. rewrite Er in Hr. inversion Hr as [|? ? (_ & Hup & _) _]; subst.
  rewrite H0 in Hup. repeat split; auto.
  - rewrite (ok_wh _ _ _ _ N), Er. exact Hw.
  - rewrite Er. exact Hd.
Qed.

(* lookup_node on a cached, visible parent: the directory gets loaded, the answer is read off the children *)
Lemma lookup_run (pp : path) s pn : Coherent s -> nget pp (root s) = Some pn -> n_wh pn = false ->
  exists s1 pn1, Coherent s1 /\ sd s s1 /\ nget pp (root s1) = Some pn1 /\ n_wh pn1 = false /\ n_reals pn1 = n_reals pn /\
    (first_dir (n_reals pn) = true -> n_loaded pn1 = true) /\
    forall nmo, lookup_node pp nmo s =
      (match nmo with
       | None => Ok pp
       | Some nm => match afind nm (n_ch pn1) with Some _ => Ok (pp ++ [nm]) | None => Err ENOENT end
       end, s1).
Proof.
  intros HC Hg Hw. pose proof HC as (_ & Hwl & HCT). pose proof (HCT pp pn Hg) as N. cbn [app] in N.
  destruct (first_good_stat s _ pp pn N) as (r0 & rs0 & st & Er0 & _ & Hst & _ & Hd0 & _).
  assert (Hfd : first_dir (n_reals pn) = is_dirT st) by (rewrite Er0; exact Hd0).
  assert (Hl : exists s1 pn1, load_if_dir pp pn st s = (Ok tt, s1) /\ nget pp (root s1) = Some pn1 /\ n_wh pn1 = false /\
             n_reals pn1 = n_reals pn /\ (is_dirT st = true -> n_loaded pn1 = true)).
  { unfold load_if_dir. destruct (is_dirT st) eqn:Ed; cbn [andb].
    - destruct (n_loaded pn) eqn:Eld; cbn [negb]; [exists s, pn; cbn [ret]; auto|].
      unfold load_dir, bind, get_node. rewrite Hg, Eld. destruct st; try discriminate.
      destruct (scan_ok s (wf_layers_wf s Hwl) _ pp pn _ _ _ N Hst) as [cs Hcs]. rewrite Hcs. unfold mod_node.
      eexists. exists (load1 s pn). split; [reflexivity|]. cbn [root]. rewrite nget_nupd, Hg. cbn [option_map].
      destruct (load1_reals s pn) as [R W]. rewrite W, R. repeat split; auto. intros _. unfold load1. rewrite Eld, Hcs. reflexivity.
    - exists s, pn. cbn [ret]. repeat split; auto. discriminate. }
  destruct Hl as (s1 & pn1 & El & Hg1 & Hw1 & Hr1 & Hld1).
  exists s1, pn1.
  assert (HC1 : Coherent s1).
  { pose proof (cpres_load_if_dir pp pn st s HC) as H. rewrite El in H. exact H. }
  assert (Hsd : sd s s1).
  { pose proof (keeps_sd (load_if_dir pp pn st) s (keeps_load_if_dir pp pn st)) as H. rewrite El in H. exact H. }
  split; [exact HC1|]. split; [exact Hsd|]. split; [exact Hg1|]. split; [exact Hw1|]. split; [exact Hr1|].
  split; [intros H; apply Hld1; congruence|].
  intros nmo. unfold lookup_node. rewrite (bind_ok _ _ _ _ _ (get_node_ok pp s pn Hg)), Hw.
  assert (Es : stat_node pn s = (Ok st, s)) by (unfold stat_node; rewrite Hst; reflexivity).
  rewrite (bind_ok _ _ _ _ _ Es), (bind_ok _ _ _ _ _ El).
  destruct nmo as [nm|]; [|reflexivity].
  rewrite (bind_ok _ _ _ _ _ (get_node_ok pp s1 pn1 Hg1)). destruct (afind nm (n_ch pn1)); reflexivity.
Qed.

(* LOOKUP of a name that the upper directory holds *)
Lemma do_lookup_run (pp : path) (nm : name) s u pn m x ch t :
  Coherent s -> upper s = Some u -> nget pp (root s) = Some pn ->
  tget u pp = Some (Dir m x ch) -> afind nm ch = Some t -> is_whT t = false ->
  exists s2 n, do_lookup pp (Some nm) s = (Ok (pp ++ [nm], t), s2) /\ Coherent s2 /\ sd s s2 /\
    nget (pp ++ [nm]) (root s2) = Some n.
Proof.
  intros HC Hu Hg Hpp Hnm Hnw.
  destruct (upper_node s u pp pn _ HC Hu Hg Hpp) as (pr & prs & Er & _ & _ & _ & _ & Hw & Hfd). cbn in Hw, Hfd.
  destruct (lookup_run pp s pn HC Hg Hw) as (s1 & pn1 & HC1 & Hsd1 & Hg1 & Hw1 & Hr1 & Hld1 & Hlk).
  specialize (Hld1 Hfd). destruct Hsd1 as (U1 & L1 & I1).
  assert (Hu1 : upper s1 = Some u) by congruence.
  assert (Hq : tget u (pp ++ [nm]) = Some t) by (rewrite tget_app, Hpp; exact Hnm).
  pose proof HC1 as (_ & Hwl1 & HCT1). pose proof (HCT1 pp pn1 Hg1) as N1. cbn [app] in N1.
  destruct (ok_ld _ _ _ _ N1 Hld1) as (_ & _ & Kids).
  destruct (afind nm (n_ch pn1)) as [c|] eqn:Ec.
  2:{ exfalso. apply Kids in Ec. rewrite <- lstack_snoc in Ec.
      destruct (lstack_upper s1 u (pp ++ [nm]) Hu1 t Hq) as [rest Hr]. rewrite Hr in Ec. discriminate. }
  pose proof (nget_snoc pp nm (root s1) pn1 c Hg1 Ec) as Hgq.
  destruct (upper_node s1 u (pp ++ [nm]) c t HC1 Hu1 Hgq Hq) as (cr & crs & Ecr & _ & _ & _ & Hstc & Hwc & Hfdc).
  unfold do_lookup. specialize (Hlk (Some nm)). cbn beta iota in Hlk. rewrite Ec in Hlk. rewrite (bind_ok _ _ _ _ _ Hlk).
  rewrite (bind_ok _ _ _ _ _ (get_node_ok _ s1 c Hgq)). rewrite Hwc, Hnw.
  assert (Es : stat_node c s1 = (Ok t, s1)) by (unfold stat_node; rewrite Hstc; reflexivity).
  rewrite (bind_ok _ _ _ _ _ Es).
  assert (Hl : exists s2 n, load_if_dir (pp ++ [nm]) c t s1 = (Ok tt, s2) /\ nget (pp ++ [nm]) (root s2) = Some n).
  { unfold load_if_dir. destruct (is_dirT t) eqn:Ed; cbn [andb]; [|exists s1, c; cbn [ret]; auto].
    destruct (n_loaded c) eqn:Eld; cbn [negb]; [exists s1, c; cbn [ret]; auto|].
    unfold load_dir, bind, get_node. rewrite Hgq, Eld. destruct t; try discriminate.
    destruct (scan_ok s1 (wf_layers_wf s1 Hwl1) _ (pp ++ [nm]) c _ _ _ (HCT1 _ c Hgq) Hstc) as [cs Hcs]. rewrite Hcs. unfold mod_node.
    eexists. eexists. split; [reflexivity|]. cbn [root]. rewrite nget_nupd, Hgq. reflexivity. }
  destruct Hl as (s2 & n & El & Hn). rewrite (bind_ok _ _ _ _ _ El). cbn [ret].
  exists s2, n. split; [reflexivity|].
  split; [pose proof (cpres_load_if_dir (pp ++ [nm]) c t s1 HC1) as H; rewrite El in H; exact H|].
  split; [|exact Hn].
  apply (sd_trans s s1 s2); [repeat split; assumption|].
  pose proof (keeps_sd (load_if_dir (pp ++ [nm]) c t) s1 (keeps_load_if_dir _ _ _)) as H. rewrite El in H. exact H.
Qed.

(* the harness' walk along a path of the upper tree *)
Lemma walk_run u : forall (p cur : path) s n0 t, Coherent s -> upper s = Some u -> nget cur (root s) = Some n0 ->
  tget u (cur ++ p) = Some t -> is_whT t = false ->
  exists s1 n, walk_from cur p s = (Ok tt, s1) /\ Coherent s1 /\ sd s s1 /\ nget (cur ++ p) (root s1) = Some n.
Proof.
  induction p as [|c p IH]; intros cur s n0 t HC Hu Hg Ht Hw; cbn [walk_from].
  - rewrite app_nil_r. exists s, n0. split; [reflexivity|]. split; [exact HC|]. split; [apply sd_refl|exact Hg].
  - assert (Hcur : exists m x ch t1, tget u cur = Some (Dir m x ch) /\ afind c ch = Some t1 /\ tget t1 p = Some t).
    { destruct (tget u cur) as [tc|] eqn:Ec; [|rewrite (tget_none_app u cur (c :: p) Ec) in Ht; discriminate].
      rewrite (tget_app_gen cur u tc (c :: p) Ec) in Ht. cbn [tget] in Ht. destruct tc as [m x ch| | |]; try discriminate.
      destruct (afind c ch) as [t1|] eqn:E1; [|discriminate]. eauto 8. }
    destruct Hcur as (m & x & ch & t1 & Hc & H1 & Hp).
    assert (Hw1 : is_whT t1 = false). { destruct p; cbn [tget] in Hp; [inversion Hp; subst; exact Hw|destruct t1; try discriminate; reflexivity]. }
    destruct (do_lookup_run cur c s u n0 m x ch t1 HC Hu Hg Hc H1 Hw1) as (s2 & n & E & HC2 & Hsd2 & Hn).
    rewrite (bind_ok _ _ _ _ _ E).
    assert (Hu2 : upper s2 = Some u) by (destruct Hsd2 as (A & _); congruence).
    replace (cur ++ c :: p) with ((cur ++ [c]) ++ p) in * by (rewrite <- app_assoc; reflexivity).
    destruct (IH (cur ++ [c]) s2 n t HC2 Hu2 Hn Ht Hw) as (s3 & n3 & E3 & HC3 & Hsd3 & Hn3).
    exists s3, n3. split; [exact E3|]. split; [exact HC3|]. split; [exact (sd_trans _ _ _ Hsd2 Hsd3)|exact Hn3].
Qed.

(* ------------------------------------------------------------------ pieces shared by the operations *)
Lemma mstack_nil_afind u ls (pp : path) (nm : name) m x ch :
  tget u pp = Some (Dir m x ch) -> mstack (u :: ls) (pp ++ [nm]) = [] -> afind nm ch = None.
Proof.
  intros Hpp H. rewrite mstack_snoc in H. destruct (mstack_head pp u ls _ Hpp) as [r Hr]. rewrite Hr, (dir_stack_head m x ch), ents_cons in H.
  cbn [dir_children] in H. destruct (afind nm ch); [discriminate|reflexivity].
Qed.
Lemma need_upper_ok s u : upper s = Some u -> need_upper s = (Ok tt, s).
Proof. intros H. unfold need_upper, bind, has_upper. rewrite H. reflexivity. Qed.
Lemma sync_parent_run (pp : path) s u pn m x ch : Coherent s -> upper s = Some u -> nget pp (root s) = Some pn ->
  tget u pp = Some (Dir m x ch) ->
  exists s1 pn1, sync_parent pp s = (Ok tt, s1) /\ Coherent s1 /\ sd s s1 /\ nget pp (root s1) = Some pn1.
Proof.
  intros HC Hu Hg Hpp.
  destruct (upper_node s u pp pn _ HC Hu Hg Hpp) as (pr & prs & Er & _ & _ & _ & _ & Hw & _). cbn in Hw.
  destruct (lookup_run pp s pn HC Hg Hw) as (s1 & pn1 & HC1 & Hsd1 & Hg1 & Hw1 & _ & _ & Hlk).
  exists s1, pn1. unfold sync_parent. rewrite (bind_ok _ _ _ _ _ (Hlk None)), (bind_ok _ _ _ _ _ (get_node_ok pp s1 pn1 Hg1)), Hw1.
  split; [reflexivity|]. split; [exact HC1|]. split; [exact Hsd1|exact Hg1].
Qed.
Lemma entry_run (pp : path) (nm : name) s u pn m x ch t :
  Coherent s -> upper s = Some u -> nget pp (root s) = Some pn ->
  tget u pp = Some (Dir m x ch) -> afind nm ch = Some t -> is_whT t = false ->
  exists s2, entry_of pp nm s = (Ok (kind_of t), s2) /\ Coherent s2 /\ sd s s2.
Proof.
  intros HC Hu Hg Hpp Hnm Hw. destruct (do_lookup_run pp nm s u pn m x ch t HC Hu Hg Hpp Hnm Hw) as (s2 & n & E & HC2 & Hsd & _).
  exists s2. unfold entry_of. rewrite (bind_ok _ _ _ _ _ E). cbn [ret snd]. auto.
Qed.
(* the name is not there: lookup_node_ignore_enoent answers None and loads the parent *)
Lemma lookup_absent_run (pp : path) (nm : name) s u pn m x ch :
  Coherent s -> upper s = Some u -> nget pp (root s) = Some pn ->
  tget u pp = Some (Dir m x ch) -> mstack (u :: lowers s) (pp ++ [nm]) = [] ->
  exists s1 pn1 pr prs, lookup_node_ignore_enoent pp nm s = (Ok None, s1) /\ Coherent s1 /\ sd s s1 /\
    nget pp (root s1) = Some pn1 /\ n_wh pn1 = false /\ n_reals pn1 = pr :: prs /\ r_upper pr = true /\ r_layer pr = 0%nat /\ r_path pr = pp.
Proof.
  intros HC Hu Hg Hpp Hms.
  destruct (upper_node s u pp pn _ HC Hu Hg Hpp) as (pr & prs & Er & Hup & Hl0 & Hpath & _ & Hw & Hfd). cbn in Hw, Hfd.
  destruct (lookup_run pp s pn HC Hg Hw) as (s1 & pn1 & HC1 & Hsd1 & Hg1 & Hw1 & Hr1 & Hld1 & Hlk).
  specialize (Hld1 Hfd). pose proof Hsd1 as (U1 & L1 & I1).
  assert (Hu1 : upper s1 = Some u) by congruence.
  pose proof HC1 as (_ & _ & HCT1). pose proof (HCT1 pp pn1 Hg1) as N1. cbn [app] in N1.
  destruct (ok_ld _ _ _ _ N1 Hld1) as (_ & _ & Kids).
  assert (Ec : afind nm (n_ch pn1) = None).
  { apply Kids. apply (kids_nil_of_mstack s1 u pp nm Hu1). rewrite L1. exact Hms. }
  exists s1, pn1, pr, prs. unfold lookup_node_ignore_enoent. specialize (Hlk (Some nm)). cbn beta iota in Hlk. rewrite Ec in Hlk. rewrite Hlk.
  change (ENOENT =? ENOENT) with true. cbn iota. rewrite Hr1.
  split; [reflexivity|]. split; [exact HC1|]. split; [exact Hsd1|]. split; [exact Hg1|]. split; [exact Hw1|]. auto.
Qed.
Lemma copy_up_noop (pp : path) s pn pr prs : nget pp (root s) = Some pn -> n_reals pn = pr :: prs -> r_upper pr = true ->
  copy_node_up pp s = (Ok tt, s).
Proof.
  intros Hg Er Hup. unfold copy_node_up. rewrite (bind_ok _ _ _ _ _ (get_node_ok pp s pn Hg)). unfold in_upper. rewrite Er, Hup. reflexivity.
Qed.
Lemma upper_real_ok pn pr prs e s : n_reals pn = pr :: prs -> r_upper pr = true -> upper_real pn e s = (Ok pr, s).
Proof. intros Er Hup. unfold upper_real. rewrite Er, Hup. reflexivity. Qed.

(* ------------------------------------------------------------------ create / mknod / symlink without copy-up and whiteout *)
Lemma do_make_run (pp : path) (nm : name) mk cleaf s u pn m x ch :
  mk_spec pp nm mk cleaf -> (forall a b, next_ino b = next_ino a -> cleaf b = cleaf a) ->
  Coherent s -> upper s = Some u -> nget pp (root s) = Some pn ->
  tget u pp = Some (Dir m x ch) -> mstack (u :: lowers s) (pp ++ [nm]) = [] ->
  exists s5 pn5, do_make pp nm mk s = (Ok tt, s5) /\ upper s5 = Some (tupd pp (dir_ins nm (cleaf s)) u) /\
    lowers s5 = lowers s /\ nget pp (root s5) = Some pn5.
Proof.
  intros Hmk Hcl HC Hu Hg Hpp Hms.
  destruct (upper_node s u pp pn _ HC Hu Hg Hpp) as (pr0 & prs0 & _ & _ & _ & _ & _ & Hw & _). cbn in Hw.
  destruct (lookup_absent_run pp nm s u pn m x ch HC Hu Hg Hpp Hms) as (s1 & pn1 & pr & prs & Elk & HC1 & (U1 & L1 & I1) & Hg1 & Hw1 & Er & Hup & Hl0 & Hpath).
  assert (Hu1 : upper s1 = Some u) by congruence.
  pose proof (mstack_nil_afind u (lowers s) pp nm m x ch Hpp Hms) as Hnone.
  destruct (Hmk pr s1 u Hup Hl0 Hpath Hu1) as [_ Hrun]. unfold h_insert in Hrun. rewrite Hpp, Hnone in Hrun.
  destruct Hrun as (s4 & E4 & U4 & L4 & R4).
  unfold do_make. rewrite (bind_ok _ _ _ _ _ (need_upper_ok s u Hu)), (bind_ok _ _ _ _ _ (get_node_ok pp s pn Hg)), Hw.
  rewrite (bind_ok _ _ _ _ _ Elk), (bind_ok _ _ _ _ _ (copy_up_noop pp s1 pn1 pr prs Hg1 Er Hup)).
  rewrite (bind_ok _ _ _ _ _ (get_node_ok pp s1 pn1 Hg1)), (bind_ok _ _ _ _ _ (upper_real_ok pn1 pr prs EINVAL s1 Er Hup)).
  rewrite (bind_ok _ _ _ _ _ E4). unfold insert_child, mod_node. eexists. eexists. split; [reflexivity|]. cbn [upper lowers root].
  rewrite (Hcl s s1 I1) in U4. split; [exact U4|]. split; [congruence|]. rewrite R4, nget_nupd, Hg1. reflexivity.
Qed.

Lemma do_mkdir_run (pp : path) (nm : name) mode s u pn m x ch :
  Coherent s -> upper s = Some u -> nget pp (root s) = Some pn ->
  tget u pp = Some (Dir m x ch) -> mstack (u :: lowers s) (pp ++ [nm]) = [] ->
  exists s5 pn5, do_mkdir pp nm mode s = (Ok tt, s5) /\ upper s5 = Some (tupd pp (dir_ins nm (Dir (N.land mode 1023) [] [])) u) /\
    lowers s5 = lowers s /\ nget pp (root s5) = Some pn5.
Proof.
  intros HC Hu Hg Hpp Hms.
  destruct (upper_node s u pp pn _ HC Hu Hg Hpp) as (pr0 & prs0 & _ & _ & _ & _ & _ & Hw & _). cbn in Hw.
  destruct (lookup_absent_run pp nm s u pn m x ch HC Hu Hg Hpp Hms) as (s1 & pn1 & pr & prs & Elk & HC1 & (U1 & L1 & I1) & Hg1 & Hw1 & Er & Hup & Hl0 & Hpath).
  assert (Hu1 : upper s1 = Some u) by congruence.
  pose proof (mstack_nil_afind u (lowers s) pp nm m x ch Hpp Hms) as Hnone.
  set (c0 := Dir (N.land mode 1023) [] []).
  assert (E4 : ri_mkdir pr nm mode s1 = (Ok (mkReal 0 true (pp ++ [nm]) false false true), set_layer s1 0 (tupd pp (dir_ins nm c0) u))).
  { unfold ri_mkdir, ri_guard. rewrite Hup. unfold bind at 1. cbn [ret]. unfold bind at 1. rewrite Hl0, Hpath.
    rewrite (mutate0_ok (h_mkdir pp nm mode) s1 u (tupd pp (dir_ins nm c0) u) Hu1); [reflexivity|].
    unfold h_mkdir, h_insert. rewrite Hpp, Hnone. reflexivity. }
  unfold do_mkdir. rewrite (bind_ok _ _ _ _ _ (need_upper_ok s u Hu)), (bind_ok _ _ _ _ _ (get_node_ok pp s pn Hg)), Hw.
  rewrite (bind_ok _ _ _ _ _ Elk).
  assert (Efl : ret (A := bool * bool) (false, false) s1 = (Ok (false, false), s1)) by reflexivity.
  rewrite (bind_ok _ _ _ _ _ Efl).
  rewrite (bind_ok _ _ _ _ _ (copy_up_noop pp s1 pn1 pr prs Hg1 Er Hup)).
  rewrite (bind_ok _ _ _ _ _ (get_node_ok pp s1 pn1 Hg1)), (bind_ok _ _ _ _ _ (upper_real_ok pn1 pr prs EINVAL s1 Er Hup)).
  assert (Er0 : ret tt s1 = (Ok tt, s1)) by reflexivity. rewrite (bind_ok _ _ _ _ _ Er0).
  rewrite (bind_ok _ _ _ _ _ E4).
  assert (Er1 : ret tt (set_layer s1 0 (tupd pp (dir_ins nm c0) u)) = (Ok tt, set_layer s1 0 (tupd pp (dir_ins nm c0) u))) by reflexivity.
  rewrite (bind_ok _ _ _ _ _ Er1).
  unfold insert_child, mod_node. eexists. eexists. split; [reflexivity|]. cbn [upper lowers root set_layer].
  rewrite Hu1. split; [reflexivity|]. split; [exact L1|]. rewrite nget_nupd, Hg1. reflexivity.
Qed.

Lemma with_parent_snoc {A} (pp : path) (nm : name) (f : path -> name -> M A) : with_parent (pp ++ [nm]) f = walk pp ;;; f pp nm.
Proof. unfold with_parent. rewrite split_last_snoc. reflexivity. Qed.
(* the frame of mkdir / create / mknod / symlink: walk to the parent, [pre], [body], LOOKUP of the new entry *)
Lemma parent_op_run {A} (pre : path -> M A) (body : path -> name -> M unit) (pp : path) (nm : name) c s u m x ch :
  Coherent s -> upper s = Some u -> tget u pp = Some (Dir m x ch) -> is_whT c = false ->
  (forall s1 pn1, Coherent s1 -> sd s s1 -> nget pp (root s1) = Some pn1 ->
     exists s2 pn2 a, pre pp s1 = (Ok a, s2) /\ Coherent s2 /\ sd s1 s2 /\ nget pp (root s2) = Some pn2) ->
  (forall s2 pn2, Coherent s2 -> sd s s2 -> nget pp (root s2) = Some pn2 ->
     exists s5 pn5, body pp nm s2 = (Ok tt, s5) /\ upper s5 = Some (tupd pp (dir_ins nm c) u) /\ lowers s5 = lowers s /\
                    nget pp (root s5) = Some pn5) ->
  (forall s0, Coherent s0 -> Coherent (snd (body pp nm s0))) ->
  exists s', (walk pp ;;; (pre pp ;;; body pp nm ;;; entry_of pp nm)) s = (Ok (kind_of c), s') /\
    upper s' = Some (tupd pp (dir_ins nm c) u) /\ lowers s' = lowers s.
Proof.
  intros HC Hu Hpp Hcw Hpre Hbody Hcp.
  destruct (walk_run u pp [] s (root s) _ HC Hu eq_refl Hpp eq_refl) as (s1 & n1 & E1 & HC1 & Hsd1 & Hg1). cbn [app] in Hg1.
  destruct (Hpre s1 n1 HC1 Hsd1 Hg1) as (s2 & pn2 & a & E2 & HC2 & Hsd2 & Hg2).
  pose proof (sd_trans _ _ _ Hsd1 Hsd2) as Hsd02.
  destruct (Hbody s2 pn2 HC2 Hsd02 Hg2) as (s5 & pn5 & E5 & U5 & L5 & Hg5).
  assert (HC5 : Coherent s5) by (pose proof (Hcp s2 HC2) as H; rewrite E5 in H; exact H).
  assert (Hpp5 : tget (tupd pp (dir_ins nm c) u) pp = Some (Dir m x (aset nm c ch))) by (rewrite tget_tupd, Hpp; reflexivity).
  destruct (entry_run pp nm s5 _ pn5 m x _ c HC5 U5 Hg5 Hpp5 (afind_aset_same nm c ch) Hcw) as (s6 & E6 & _ & (U6 & L6 & _)).
  exists s6. unfold walk. rewrite (bind_ok _ _ _ _ _ E1), (bind_ok _ _ _ _ _ E2), (bind_ok _ _ _ _ _ E5), E6.
  split; [reflexivity|]. split; congruence.
Qed.

Lemma pre_sync_ok (pp : path) s u m x ch : upper s = Some u -> tget u pp = Some (Dir m x ch) ->
  forall s1 pn1, Coherent s1 -> sd s s1 -> nget pp (root s1) = Some pn1 ->
     exists s2 pn2 a, sync_parent pp s1 = (Ok a, s2) /\ Coherent s2 /\ sd s1 s2 /\ nget pp (root s2) = Some pn2.
Proof.
  intros Hu Hpp s1 pn1 HC1 (U1 & _) Hg1. assert (Hu1 : upper s1 = Some u) by congruence.
  destruct (sync_parent_run pp s1 u pn1 m x ch HC1 Hu1 Hg1 Hpp) as (s2 & pn2 & E & HC2 & Hsd & Hg2). exists s2, pn2, tt. auto.
Qed.
Lemma pre_lookup_ok (pp : path) s u m x ch : upper s = Some u -> tget u pp = Some (Dir m x ch) ->
  forall s1 pn1, Coherent s1 -> sd s s1 -> nget pp (root s1) = Some pn1 ->
     exists s2 pn2 a, lookup_node pp None s1 = (Ok a, s2) /\ Coherent s2 /\ sd s1 s2 /\ nget pp (root s2) = Some pn2.
Proof.
  intros Hu Hpp s1 pn1 HC1 (U1 & _) Hg1. assert (Hu1 : upper s1 = Some u) by congruence.
  destruct (upper_node s1 u pp pn1 _ HC1 Hu1 Hg1 Hpp) as (pr & prs & Er & _ & _ & _ & _ & Hw & _). cbn in Hw.
  destruct (lookup_run pp s1 pn1 HC1 Hg1 Hw) as (s2 & pn2 & HC2 & Hsd & Hg2 & _ & _ & _ & Hlk).
  exists s2, pn2, pp. split; [exact (Hlk None)|]. auto.
Qed.

Theorem step_mkdir_run (pp : path) (nm : name) mode s u m x ch :
  Coherent s -> upper s = Some u -> tget u pp = Some (Dir m x ch) -> mstack (u :: lowers s) (pp ++ [nm]) = [] ->
  let c := Dir (N.land mode 1023) [] [] in
  exists s', step (OMkdir (pp ++ [nm]) mode) s = (Ok (kind_of c), s') /\
    upper s' = Some (tupd pp (dir_ins nm c) u) /\ lowers s' = lowers s.
Proof.
  intros HC Hu Hpp Hms c. cbn [step]. rewrite with_parent_snoc.
  apply (parent_op_run sync_parent (fun pp nm => do_mkdir pp nm mode) pp nm c s u m x ch HC Hu Hpp eq_refl).
  - apply (pre_sync_ok pp s u m x ch Hu Hpp).
  - intros s2 pn2 HC2 (U2 & L2 & I2) Hg2. assert (Hu2 : upper s2 = Some u) by congruence.
    destruct (do_mkdir_run pp nm mode s2 u pn2 m x ch HC2 Hu2 Hg2 Hpp) as (s5 & pn5 & E & U5 & L5 & Hg5); [rewrite L2; exact Hms|].
    exists s5, pn5. repeat split; auto; congruence.
  - intros s0 HC0. apply cpres_do_mkdir. exact HC0.
Qed.
Lemma make_step_run {A} (pre : path -> M A) mk cleaf (pp : path) (nm : name) s u m x ch :
  mk_spec pp nm mk cleaf -> (forall a b, next_ino b = next_ino a -> cleaf b = cleaf a) ->
  (forall s1 pn1, Coherent s1 -> sd s s1 -> nget pp (root s1) = Some pn1 ->
     exists s2 pn2 a, pre pp s1 = (Ok a, s2) /\ Coherent s2 /\ sd s1 s2 /\ nget pp (root s2) = Some pn2) ->
  Coherent s -> upper s = Some u -> tget u pp = Some (Dir m x ch) -> mstack (u :: lowers s) (pp ++ [nm]) = [] ->
  exists s', (walk pp ;;; (pre pp ;;; do_make pp nm mk ;;; entry_of pp nm)) s = (Ok (kind_of (cleaf s)), s') /\
    upper s' = Some (tupd pp (dir_ins nm (cleaf s)) u) /\ lowers s' = lowers s.
Proof.
  intros Hmk Hcl Hpre HC Hu Hpp Hms.
  destruct (Hmk (mkReal 0 true pp false false true) s u eq_refl eq_refl eq_refl Hu) as [(_ & Hcw & _) _].
  apply (parent_op_run pre (fun pp nm => do_make pp nm mk) pp nm (cleaf s) s u m x ch HC Hu Hpp Hcw Hpre).
  - intros s2 pn2 HC2 (U2 & L2 & I2) Hg2. assert (Hu2 : upper s2 = Some u) by congruence.
    destruct (do_make_run pp nm mk cleaf s2 u pn2 m x ch Hmk Hcl HC2 Hu2 Hg2 Hpp) as (s5 & pn5 & E & U5 & L5 & Hg5); [rewrite L2; exact Hms|].
    exists s5, pn5. rewrite (Hcl s s2 I2) in U5. repeat split; auto; congruence.
  - intros s0 HC0. apply (cpres_do_make pp nm mk cleaf Hmk). exact HC0.
Qed.

Theorem step_create_run (pp : path) (nm : name) mode s u m x ch :
  Coherent s -> upper s = Some u -> tget u pp = Some (Dir m x ch) -> mstack (u :: lowers s) (pp ++ [nm]) = [] ->
  let c := File (next_ino s) (N.land mode 4095) [] [] in
  exists s', step (OCreate (pp ++ [nm]) mode) s = (Ok (kind_of c), s') /\
    upper s' = Some (tupd pp (dir_ins nm c) u) /\ lowers s' = lowers s.
Proof.
  intros HC Hu Hpp Hms c. cbn [step]. rewrite with_parent_snoc.
  apply (make_step_run sync_parent _ (fun s => File (next_ino s) (N.land mode 4095) [] []) pp nm s u m x ch (mk_spec_create pp nm mode)); auto.
  - intros a b E. rewrite E. reflexivity.
  - apply (pre_sync_ok pp s u m x ch Hu Hpp).
Qed.
Theorem step_mknod_run (pp : path) (nm : name) mode s u m x ch :
  Coherent s -> upper s = Some u -> tget u pp = Some (Dir m x ch) -> mstack (u :: lowers s) (pp ++ [nm]) = [] ->
  let c := File (next_ino s) (N.land mode 4095) [] [] in
  exists s', step (OMknod (pp ++ [nm]) mode) s = (Ok (kind_of c), s') /\
    upper s' = Some (tupd pp (dir_ins nm c) u) /\ lowers s' = lowers s.
Proof.
  intros HC Hu Hpp Hms c. cbn [step]. rewrite with_parent_snoc.
  apply (make_step_run sync_parent _ (fun s => File (next_ino s) (N.land mode 4095) [] []) pp nm s u m x ch (mk_spec_create pp nm mode)); auto.
  - intros a b E. rewrite E. reflexivity.
  - apply (pre_sync_ok pp s u m x ch Hu Hpp).
Qed.
Theorem step_symlink_run (pp : path) (nm : name) tg s u m x ch :
  Coherent s -> upper s = Some u -> tget u pp = Some (Dir m x ch) -> mstack (u :: lowers s) (pp ++ [nm]) = [] ->
  exists s', step (OSymlink (pp ++ [nm]) tg) s = (Ok (kind_of (Lnk tg)), s') /\
    upper s' = Some (tupd pp (dir_ins nm (Lnk tg)) u) /\ lowers s' = lowers s.
Proof.
  intros HC Hu Hpp Hms. cbn [step]. rewrite with_parent_snoc.
  apply (make_step_run (fun pp => lookup_node pp None) _ (fun _ => Lnk tg) pp nm s u m x ch (mk_spec_symlink pp nm tg)); auto.
  apply (pre_lookup_ok pp s u m x ch Hu Hpp).
Qed.

(* ------------------------------------------------------------------ unlink / rmdir of an upper entry without lower candidates *)
Lemma nget_parent_nupd (pp : path) (nm : name) f r pn : nget pp r = Some pn ->
  exists pn', nget pp (nupd (pp ++ [nm]) f r) = Some pn'.
Proof. intros H. rewrite nupd_app, nget_nupd, H. cbn [option_map]. eauto. Qed.
Lemma load_dir_run (q : path) s c m x ch : Coherent s -> nget q (root s) = Some c -> node_stat s c = Some (Dir m x ch) ->
  exists s1 c1, load_dir q s = (Ok tt, s1) /\ Coherent s1 /\ sd s s1 /\ nget q (root s1) = Some c1 /\ n_loaded c1 = true /\
    (s1 = s \/ exists g, root s1 = nupd q g (root s)).
Proof.
  intros HC Hg Hst. pose proof HC as (_ & Hwl & HCT).
  assert (HCS : forall r s1, load_dir q s = (r, s1) -> Coherent s1 /\ sd s s1).
  { intros r s1 E. split.
    - pose proof (cpres_load_dir q s HC) as H. rewrite E in H. exact H.
    - pose proof (keeps_sd (load_dir q) s (keeps_load_dir q)) as H. rewrite E in H. exact H. }
  unfold load_dir in *. rewrite (bind_ok _ _ _ _ _ (get_node_ok q s c Hg)) in *.
  destruct (n_loaded c) eqn:El.
  - exists s, c. cbn [ret]. destruct (HCS _ _ eq_refl) as [A B].
    split; [reflexivity|]. split; [exact A|]. split; [exact B|]. split; [exact Hg|]. split; [exact El|left; reflexivity].
  - destruct (scan_ok s (wf_layers_wf s Hwl) _ q c _ _ _ (HCT q c Hg) Hst) as [cs Hcs]. rewrite Hcs in *.
    unfold mod_node in *. eexists. exists (load1 s c). destruct (HCS _ _ eq_refl) as [A B].
    split; [reflexivity|]. split; [exact A|]. split; [exact B|]. cbn [root]. rewrite nget_nupd, Hg. split; [reflexivity|].
    split; [unfold load1; rewrite El, Hcs; reflexivity|]. right. eauto.
Qed.

Lemma do_rm_run (pp : path) (nm : name) (dir : bool) s u pn m x ch t :
  Coherent s -> upper s = Some u -> nget pp (root s) = Some pn ->
  tget u pp = Some (Dir m x ch) -> afind nm ch = Some t ->
  (if dir then exists m' x', t = Dir m' x' [] else is_dirT t = false /\ is_whT t = false) ->
  ents nm (tl (dir_stack (mstack (u :: lowers s) pp))) = [] ->
  exists s' (b : bool), do_rm pp nm dir s = (Ok tt, s') /\
    upper s' = Some (tupd pp (chmap (fun l => if b then aset nm Wh (adel nm l) else adel nm l)) u) /\ lowers s' = lowers s.
Proof.
  intros HC Hu Hg Hpp Hnm Hkind Hlow.
  set (q := pp ++ [nm]).
  assert (Hq : tget u q = Some t) by (unfold q; rewrite tget_app, Hpp; exact Hnm).
  assert (Hnw : is_whT t = false) by (destruct dir; [destruct Hkind as (m' & x' & ->); reflexivity|apply Hkind]).
  destruct (upper_node s u pp pn _ HC Hu Hg Hpp) as (pr0 & prs0 & _ & _ & _ & _ & _ & Hw & Hfd). cbn in Hw, Hfd.
  (* lookup_node pp None *)
  destruct (lookup_run pp s pn HC Hg Hw) as (s1 & pn1 & HC1 & Hsd1 & Hg1 & Hw1 & Hr1 & _ & Hlk1).
  assert (Hu1 : upper s1 = Some u) by (destruct Hsd1 as (A & _); congruence).
  (* lookup_node pp (Some nm) *)
  destruct (lookup_run pp s1 pn1 HC1 Hg1 Hw1) as (s2 & pn2 & HC2 & Hsd2 & Hg2 & Hw2 & Hr2 & Hld2 & Hlk2).
  rewrite Hr1 in Hld2. specialize (Hld2 Hfd).
  pose proof (sd_trans _ _ _ Hsd1 Hsd2) as Hsd02. destruct Hsd02 as (U2 & L2 & I2).
  assert (Hu2 : upper s2 = Some u) by congruence.
  pose proof HC2 as (_ & Hwl2 & HCT2). pose proof (HCT2 pp pn2 Hg2) as N2. cbn [app] in N2.
  destruct (ok_ld _ _ _ _ N2 Hld2) as (_ & _ & Kids).
  destruct (afind nm (n_ch pn2)) as [c|] eqn:Ec.
  2:{ exfalso. apply Kids in Ec. rewrite <- lstack_snoc in Ec.
      destruct (lstack_upper s2 u q Hu2 t Hq) as [rest Hr]. unfold q in Hr. rewrite Hr in Ec. discriminate. }
  pose proof (nget_snoc pp nm (root s2) pn2 c Hg2 Ec) as Hgq. fold q in Hgq.
  destruct (upper_node s2 u q c t HC2 Hu2 Hgq Hq) as (cr & crs & Ecr & Hcup & _ & _ & Hstc & Hwc & Hfdc).
  (* the directory branch *)
  assert (Hmid : exists s3 c3 pn3, (if dir then
     load_dir q ;;;
     n1 <- get_node q ;;
     st <- stat_node n1 ;;
     if negb (is_dirT st) then fail ENOTDIR else
     let count := List.length (filter (fun kv => negb (n_wh (snd kv))) (n_ch n1)) in
     let whiteouts := List.length (filter (fun kv => n_wh (snd kv)) (n_ch n1)) in
     if negb (Nat.eqb count 0) then fail ENOTEMPTY else
     if negb (Nat.eqb whiteouts 0) && in_upper n1 then empty_node_directory q else ret tt
   else ret tt) s2 = (Ok tt, s3) /\ Coherent s3 /\ sd s2 s3 /\ nget q (root s3) = Some c3 /\ nget pp (root s3) = Some pn3).
  { destruct dir.
    - destruct Hkind as (m' & x' & ->).
      destruct (load_dir_run q s2 c _ _ _ HC2 Hgq Hstc) as (s3 & c3 & E3 & HC3 & Hsd3 & Hg3 & Hld3 & Hroot3).
      assert (Hu3 : upper s3 = Some u) by (destruct Hsd3 as (A & _); congruence).
      destruct (upper_node s3 u q c3 _ HC3 Hu3 Hg3 Hq) as (cr3 & crs3 & Ecr3 & _ & _ & _ & Hstc3 & _ & _).
      assert (Hpn3 : exists pn3, nget pp (root s3) = Some pn3).
      { destruct Hroot3 as [->|[g ->]]; [eauto|]. unfold q. apply (nget_parent_nupd pp nm g (root s2) pn2 Hg2). }
      destruct Hpn3 as [pn3 Hpn3].
      assert (Hch3 : n_ch c3 = []).
      { apply all_none_nil. intros k. pose proof HC3 as (_ & _ & HCT3). pose proof (HCT3 q c3 Hg3) as N3. cbn [app] in N3.
        destruct (ok_ld _ _ _ _ N3 Hld3) as (_ & _ & K3). apply K3.
        assert (Hl3 : lowers s3 = lowers s) by (destruct Hsd3 as (_ & B & _); congruence).
        assert (Hst : mstack (u :: lowers s3) q = [Dir m' x' []]).
        { rewrite Hl3. unfold q. rewrite mstack_snoc. destruct (mstack_head pp u (lowers s) _ Hpp) as [r Hr]. rewrite Hr in *.
          rewrite (dir_stack_head m x ch), ents_cons. cbn [dir_children tl] in *. rewrite Hnm.
          rewrite (dir_stack_head m x ch) in Hlow. cbn [tl] in Hlow. rewrite Hlow. reflexivity. }
        pose proof (lstack_rel s3 u q Hu3) as R. rewrite Hst in R.
        destruct (lstack_upper s3 u q Hu3 _ Hq) as [rest Hrest]. rewrite Hrest in R. inversion R as [|? ? ? ? _ R']; subst. inversion R'; subst.
        unfold kids. rewrite Hrest. cbn [dcut].
        assert (S0 : shp s3 0%nat q = Some (SDir (xs_opaque x'))) by (unfold shp, ent; cbn [get_layer]; rewrite Hu3, Hq; reflexivity).
        rewrite S0.
        assert (P0 : present (shp s3) (q ++ [k]) 0%nat = false).
        { unfold present, shp, ent. cbn [get_layer]. rewrite Hu3, tget_app, Hq. reflexivity. }
        destruct (xs_opaque x'); cbn [filter]; unfold path, name in *; rewrite P0; reflexivity. }
      exists s3, c3, pn3. rewrite (bind_ok _ _ _ _ _ E3), (bind_ok _ _ _ _ _ (get_node_ok q s3 c3 Hg3)).
      assert (Es : stat_node c3 s3 = (Ok (Dir m' x' []), s3)) by (unfold stat_node; rewrite Hstc3; reflexivity).
      rewrite (bind_ok _ _ _ _ _ Es). cbn [is_dirT negb]. rewrite Hch3. cbn [filter List.length Nat.eqb negb andb ret].
      split; [reflexivity|]. split; [exact HC3|]. split; [exact Hsd3|]. split; [exact Hg3|exact Hpn3].
    - exists s2, c, pn2. cbn [ret]. split; [reflexivity|]. split; [exact HC2|]. split; [apply sd_refl|]. split; [exact Hgq|exact Hg2]. }
  destruct Hmid as (s3 & c3 & pn3 & E3 & HC3 & Hsd3 & Hg3 & Hgp3).
  assert (Hu3 : upper s3 = Some u) by (destruct Hsd3 as (A & _); congruence).
  assert (Hl3 : lowers s3 = lowers s) by (destruct Hsd3 as (_ & B & _); congruence).
  destruct (upper_node s3 u pp pn3 _ HC3 Hu3 Hgp3 Hpp) as (pr & prs & Er & Hup & Hl0 & Hpath & _ & Hw3 & _).
  destruct (upper_node s3 u q c3 t HC3 Hu3 Hg3 Hq) as (cr3 & crs3 & Ecr3 & Hcup3 & _ & _ & _ & _ & _).
  (* need0 *)
  assert (Hneed0 : exists need0, (if upper_only c3
            then fun s => match lower_has_child s (n_reals pn3) nm with Ok b => (Ok b, s) | Err e => (Err e, s) end
            else ret true) s3 = (Ok need0, s3)).
  { destruct (upper_only c3); [|exists true; reflexivity].
    destruct (lower_has_child s3 (n_reals pn3) nm) as [b|e] eqn:El; [eauto|]. exfalso. revert El. apply (lhc_no_err s3 pp).
    pose proof HC3 as (_ & _ & HCT3). pose proof (HCT3 pp pn3 Hgp3) as N3. cbn [app] in N3.
    pose proof (ok_reals _ _ _ _ N3) as G. pose proof (ok_tl _ _ _ _ N3) as T. rewrite Er in *. cbn [tl] in T.
    inversion G as [|? ? G1 G2]; subst. constructor; [split; [exact G1|left; exact Hup]|].
    clear -G2 T. induction G2 as [|a l Ha _ IH]; [constructor|]. inversion T; subst. constructor; [split; [exact Ha|right; assumption]|auto]. }
  destruct Hneed0 as [need0 En0].
  (* the host call *)
  set (u4 := tupd pp (dir_del nm) u).
  assert (Hrm : (if dir then h_rmdir pp nm else h_unlink pp nm) u = Ok u4).
  { destruct dir.
    - destruct Hkind as (m' & x' & ->). unfold h_rmdir. rewrite Hpp, Hnm. reflexivity.
    - destruct Hkind as [Hd _]. unfold h_unlink. rewrite Hpp, Hnm. destruct t; try discriminate; reflexivity. }
  set (need := need0 && negb (r_opq pr)).
  set (s4 := set_layer s3 0 u4).
  assert (E4 : mutate (r_layer pr) (if dir then h_rmdir (r_path pr) nm else h_unlink (r_path pr) nm) s3 = (Ok tt, s4)).
  { rewrite Hl0, Hpath. apply (mutate0_ok _ s3 u u4 Hu3). exact Hrm. }
  assert (Hu4 : upper s4 = Some u4) by (apply (upper_set_layer _ u); exact Hu3).
  unfold do_rm. rewrite (bind_ok _ _ _ _ _ (need_upper_ok s u Hu)), (bind_ok _ _ _ _ _ (Hlk1 None)).
  rewrite (bind_ok _ _ _ _ _ (get_node_ok pp s1 pn1 Hg1)), Hw1.
  pose proof (Hlk2 (Some nm)) as Hlk2'. cbn beta iota in Hlk2'. rewrite Ec in Hlk2'. rewrite (bind_ok _ _ _ _ _ Hlk2').
  fold q. rewrite (bind_ok _ _ _ _ _ (get_node_ok q s2 c Hgq)), Hwc, Hnw.
  rewrite (bind_ok _ _ _ _ _ E3).
  rewrite (bind_ok _ _ _ _ _ (copy_up_noop pp s3 pn3 pr prs Hgp3 Er Hup)).
  rewrite (bind_ok _ _ _ _ _ (get_node_ok q s3 c3 Hg3)), (bind_ok _ _ _ _ _ (get_node_ok pp s3 pn3 Hgp3)).
  rewrite (bind_ok _ _ _ _ _ En0).
  assert (Hin : in_upper c3 = true) by (unfold in_upper; rewrite Ecr3; exact Hcup3). rewrite Hin.
  assert (En : (pr0 <- upper_real pn3 EINVAL;; mutate (r_layer pr0) (if dir then h_rmdir (r_path pr0) nm else h_unlink (r_path pr0) nm);;; ret (need0 && negb (r_opq pr0))) s3 = (Ok need, s4)).
  { rewrite (bind_ok _ _ _ _ _ (upper_real_ok pn3 pr prs EINVAL s3 Er Hup)), (bind_ok _ _ _ _ _ E4). reflexivity. }
  rewrite (bind_ok _ _ _ _ _ En).
  unfold remove_child at 1. unfold mod_node at 1. unfold bind at 1.
  set (s5 := mkState (upper s4) (lowers s4) (nupd pp (fun n => Node (n_reals n) (n_wh n) (n_loaded n) (adel nm (n_ch n))) (root s4)) (next_ino s4) (log s4)).
  destruct need eqn:Eneed.
  - (* a whiteout is written *)
    assert (Hg5 : nget pp (root s5) = Some (Node (n_reals pn3) (n_wh pn3) (n_loaded pn3) (adel nm (n_ch pn3)))).
    { cbn [root s5 s4 set_layer]. rewrite nget_nupd, Hgp3. reflexivity. }
    rewrite (bind_ok _ _ _ _ _ (get_node_ok pp s5 _ Hg5)).
    rewrite (bind_ok _ _ _ _ _ (upper_real_ok _ pr prs EINVAL s5 Er Hup)).
    set (u6 := tupd pp (dir_ins nm Wh) u4).
    assert (E6 : ri_whiteout pr nm s5 = (Ok (mkReal 0 true (pp ++ [nm]) true false false), set_layer s5 0 u6)).
    { unfold ri_whiteout, ri_guard. rewrite Hup. unfold bind at 1. cbn [ret]. unfold bind at 1. rewrite Hl0, Hpath.
      rewrite (mutate0_ok (h_create_whiteout pp nm) s5 u4 u6); [reflexivity|exact Hu4|].
      assert (T4 : tget u4 pp = Some (Dir m x (adel nm ch))) by (unfold u4; rewrite tget_tupd, Hpp; reflexivity).
      unfold h_create_whiteout. rewrite tget_app, T4, afind_adel, String.eqb_refl. unfold h_insert. rewrite T4, afind_adel, String.eqb_refl. reflexivity. }
    rewrite (bind_ok _ _ _ _ _ E6). unfold insert_child, mod_node. eexists. exists true. split; [reflexivity|].
    cbn [upper lowers set_layer s5 s4]. rewrite Hu3. split; [|exact Hl3].
    unfold u6, u4. rewrite tupd_tupd. apply f_equal. apply tupd_ext. intros d. destruct d; reflexivity.
  - cbn [ret]. exists s5, false. split; [reflexivity|]. cbn [upper lowers s5 s4 set_layer]. rewrite Hu3. split; [|exact Hl3].
    unfold u4. apply f_equal. apply tupd_ext. intros d. destruct d; reflexivity.
Qed.

Theorem step_rm_run (pp : path) (nm : name) (dir : bool) s u m x ch t :
  Coherent s -> upper s = Some u -> tget u pp = Some (Dir m x ch) -> afind nm ch = Some t ->
  (if dir then exists m' x', t = Dir m' x' [] else is_dirT t = false /\ is_whT t = false) ->
  ents nm (tl (dir_stack (mstack (u :: lowers s) pp))) = [] ->
  exists s' (b : bool), step (if dir then ORmdir (pp ++ [nm]) else OUnlink (pp ++ [nm])) s = (Ok ""%string, s') /\
    upper s' = Some (tupd pp (chmap (fun l => if b then aset nm Wh (adel nm l) else adel nm l)) u) /\ lowers s' = lowers s.
Proof.
  intros HC Hu Hpp Hnm Hkind Hlow.
  destruct (walk_run u pp [] s (root s) _ HC Hu eq_refl Hpp eq_refl) as (s1 & n1 & E1 & HC1 & (U1 & L1 & I1) & Hg1). cbn [app] in Hg1.
  assert (Hu1 : upper s1 = Some u) by congruence.
  destruct (do_rm_run pp nm dir s1 u n1 m x ch t HC1 Hu1 Hg1 Hpp Hnm Hkind) as (s' & b & E & U' & L'); [rewrite L1; exact Hlow|].
  exists s', b. split; [|split; congruence].
  destruct dir; cbn [step]; rewrite with_parent_snoc; unfold walk; rewrite (bind_ok _ _ _ _ _ E1), (bind_ok _ _ _ _ _ E); reflexivity.
Qed.

(* ------------------------------------------------------------------ content / attribute changes of an upper regular file *)
Definition attr_eff (o : op) (i m : N) (d : bytes) (x : xattrs) : option (path * option (tree -> tree) * res string) :=
  match o with
  | OChmod p mode => Some (p, Some (set_mode mode), Ok (kind_of (set_mode mode (File i m d x))))
  | OTruncate p size => Some (p, Some (set_data (resize (N.to_nat size))), Ok (hexN size))
  | OWrite p off data => Some (p, Some (set_data (write_at (N.to_nat off) data)), Ok (hexN (N.of_nat (List.length data))))
  | OSetxattr p k v => if is_opq_name k then None else Some (p, Some (set_xs k v), Ok ""%string)
  | ORemovexattr p k =>
      if is_opq_name k then None
      else match afind k x with
           | Some _ => Some (p, Some (del_xs k), Ok ""%string)
           | None => Some (p, None, Err ENODATA)
           end
  | OOpen p fl => Some (p, (if of_trunc fl then Some (set_data (fun _ => [])) else None), Ok ""%string)
  | _ => None
  end.

Lemma file_lookup_run (p : path) s u n i m d x : Coherent s -> upper s = Some u -> nget p (root s) = Some n ->
  tget u p = Some (File i m d x) ->
  exists s2 n2 pr prs, lookup_node p None s = (Ok p, s2) /\ Coherent s2 /\ sd s s2 /\ nget p (root s2) = Some n2 /\
    n_wh n2 = false /\ n_reals n2 = pr :: prs /\ r_upper pr = true /\ r_layer pr = 0%nat /\ r_path pr = p.
Proof.
  intros HC Hu Hg Hp.
  destruct (upper_node s u p n _ HC Hu Hg Hp) as (pr0 & prs0 & _ & _ & _ & _ & _ & Hw & _). cbn in Hw.
  destruct (lookup_run p s n HC Hg Hw) as (s2 & n2 & HC2 & Hsd2 & Hg2 & Hw2 & _ & _ & Hlk).
  assert (Hu2 : upper s2 = Some u) by (destruct Hsd2 as (A & _); congruence).
  destruct (upper_node s2 u p n2 _ HC2 Hu2 Hg2 Hp) as (pr & prs & Er & Hup & Hl0 & Hpath & _).
  exists s2, n2, pr, prs. split; [exact (Hlk None)|]. split; [exact HC2|]. split; [exact Hsd2|]. split; [exact Hg2|]. auto.
Qed.
Lemma first_tree_run (p : path) s u n pr prs t : upper s = Some u -> nget p (root s) = Some n -> n_reals n = pr :: prs ->
  r_layer pr = 0%nat -> r_path pr = p -> tget u p = Some t -> first_tree p s = (Ok (pr, t), s).
Proof.
  intros Hu Hg Er Hl0 Hpath Ht. unfold first_tree. rewrite (bind_ok _ _ _ _ _ (get_node_ok p s n Hg)).
  unfold first_real. rewrite Er. unfold bind, ret, real_tree. rewrite Hl0, Hpath. cbn [get_layer]. rewrite Hu, Ht. reflexivity.
Qed.
Lemma ensure_upper_noop (p : path) s n pr prs : nget p (root s) = Some n -> n_reals n = pr :: prs -> r_upper pr = true ->
  (n0 <- get_node p;; (if in_upper n0 then ret tt else copy_node_up p)) s = (Ok tt, s).
Proof. intros Hg Er Hup. rewrite (bind_ok _ _ _ _ _ (get_node_ok p s n Hg)). unfold in_upper. rewrite Er, Hup. reflexivity. Qed.
Lemma tget_tmap_file i g u (p : path) m d x : tget u p = Some (File i m d x) -> tget (tmap_ino i g u) p = Some (g (File i m d x)).
Proof. intros H. rewrite (tget_tmap_ino i g p u _ H). cbn [tmap_ino]. rewrite N.eqb_refl. reflexivity. Qed.
Lemma length_resize n d : List.length (resize n d) = n.
Proof.
  unfold resize. rewrite app_length, firstn_length.
  assert (H : forall k, List.length (zeros k) = k) by (induction k; cbn; auto). rewrite H. lia.
Qed.

(* do_open on an upper regular file *)
Lemma do_open_file_run (p : path) fl s u n i m d x : Coherent s -> upper s = Some u -> nget p (root s) = Some n ->
  tget u p = Some (File i m d x) ->
  exists s' pr, do_open p fl s = (Ok pr, s') /\ r_layer pr = 0%nat /\ r_path pr = p /\
    upper s' = Some (if of_trunc fl then tmap_ino i (set_data (fun _ => [])) u else u) /\ lowers s' = lowers s /\ next_ino s' = next_ino s.
Proof.
  intros HC Hu Hg Hp.
  destruct (file_lookup_run p s u n i m d x HC Hu Hg Hp) as (s2 & n2 & pr & prs & Elk & HC2 & (U2 & L2 & I2) & Hg2 & Hw2 & Er & Hup & Hl0 & Hpath).
  assert (Hu2 : upper s2 = Some u) by congruence.
  unfold do_open. rewrite (bind_ok _ _ _ _ _ Elk), (bind_ok _ _ _ _ _ (get_node_ok p s2 n2 Hg2)), Hw2.
  assert (Ecu : (if of_readonly fl then ret tt else copy_node_up p) s2 = (Ok tt, s2)).
  { destruct (of_readonly fl); [reflexivity|]. apply (copy_up_noop p s2 n2 pr prs Hg2 Er Hup). }
  rewrite (bind_ok _ _ _ _ _ Ecu), (bind_ok _ _ _ _ _ (get_node_ok p s2 n2 Hg2)).
  unfold first_real. rewrite Er. unfold bind at 1. cbn [ret]. unfold bind at 1. unfold real_tree. rewrite Hl0, Hpath. cbn [get_layer]. rewrite Hu2, Hp.
  destruct (of_trunc fl).
  - rewrite (bind_ok _ _ _ _ _ (mutate0_ok (h_setdata p (fun _ => [])) s2 u (tmap_ino i (set_data (fun _ => [])) u) Hu2 ltac:(unfold h_setdata; rewrite Hp; reflexivity))).
    cbn [ret]. eexists. exists pr. split; [reflexivity|]. cbn [upper lowers next_ino set_layer]. rewrite Hu2. auto.
  - cbn [ret bind]. exists s2, pr. auto 7.
Qed.

Theorem step_attr_run o (p : path) og r s u i m d x :
  attr_eff o i m d x = Some (p, og, r) ->
  Coherent s -> upper s = Some u -> tget u p = Some (File i m d x) ->
  exists s', step o s = (r, s') /\ upper s' = Some (match og with Some g => tmap_ino i g u | None => u end) /\ lowers s' = lowers s.
Proof.
  intros Ho HC Hu Hp.
  destruct (walk_run u p [] s (root s) _ HC Hu eq_refl Hp eq_refl) as (s1 & n1 & E1 & HC1 & (U1 & L1 & I1) & Hg1). cbn [app] in Hg1.
  assert (Hu1 : upper s1 = Some u) by congruence. unfold walk in *.
  (* the prefix shared by chmod / truncate / setxattr / removexattr *)
  destruct (file_lookup_run p s1 u n1 i m d x HC1 Hu1 Hg1 Hp) as (s2 & n2 & pr & prs & Elk & HC2 & (U2 & L2 & I2) & Hg2 & Hw2 & Er & Hup & Hl0 & Hpath).
  assert (Hu2 : upper s2 = Some u) by congruence.
  pose proof (first_tree_run p s2 u n2 pr prs _ Hu2 Hg2 Er Hl0 Hpath Hp) as Eft.
  assert (Enc : node_checked p s1 = (Ok tt, s2)).
  { unfold node_checked. rewrite (bind_ok _ _ _ _ _ Elk), (bind_ok _ _ _ _ _ (get_node_ok p s2 n2 Hg2)), Hw2. reflexivity. }
  assert (Hmut : forall F u3, F u = Ok u3 -> mutate (r_layer (fst (pr, File i m d x))) F s2 = (Ok tt, set_layer s2 0 u3)).
  { intros F u3 HF. cbn [fst]. rewrite Hl0. apply (mutate0_ok F s2 u u3 Hu2 HF). }
  destruct o; cbn [attr_eff] in Ho; try discriminate; cbn [step].
  - (* open *) inversion Ho; subst p0 og r; clear Ho.
    destruct (do_open_file_run p fl s1 u n1 i m d x HC1 Hu1 Hg1 Hp) as (s' & pr' & E & _ & _ & U' & L' & _).
    exists s'. rewrite (bind_ok _ _ _ _ _ E1), (bind_ok _ _ _ _ _ E). split; [reflexivity|].
    split; [destruct (of_trunc fl); exact U'|congruence].
  - (* write *) inversion Ho; subst p0 og r; clear Ho.
    destruct (do_open_file_run p OF_W s1 u n1 i m d x HC1 Hu1 Hg1 Hp) as (s' & pr' & E & Hl' & Hp' & U' & L' & _). cbn in U'.
    eexists. rewrite (bind_ok _ _ _ _ _ E1), (bind_ok _ _ _ _ _ E), Hl', Hp'.
    rewrite (bind_ok _ _ _ _ _ (mutate0_ok (h_setdata p (write_at (N.to_nat off) data)) s' u _ U' ltac:(unfold h_setdata; rewrite Hp; reflexivity))).
    split; [reflexivity|]. cbn [upper lowers set_layer]. rewrite U'. split; [reflexivity|congruence].
  - (* chmod *) inversion Ho; subst p0 og r; clear Ho.
    set (u3 := tmap_ino i (set_mode mode) u).
    assert (HF : h_chmod p mode u = Ok u3) by (unfold h_chmod, h_update; rewrite Hp; reflexivity).
    eexists. rewrite (bind_ok _ _ _ _ _ E1), (bind_ok _ _ _ _ _ (need_upper_ok s1 u Hu1)), (bind_ok _ _ _ _ _ Elk).
    rewrite (bind_ok _ _ _ _ _ (get_node_ok p s2 n2 Hg2)). unfold in_upper. rewrite Er, Hup.
    assert (Er0 : ret tt s2 = (Ok tt, s2)) by reflexivity. rewrite (bind_ok _ _ _ _ _ Er0), (bind_ok _ _ _ _ _ Eft).
    cbn [fst]. rewrite Hpath. rewrite (bind_ok _ _ _ _ _ (Hmut _ u3 HF)).
    assert (Eft3 : first_tree p (set_layer s2 0 u3) = (Ok (pr, set_mode mode (File i m d x)), set_layer s2 0 u3)).
    { apply (first_tree_run p _ u3 n2 pr prs); auto; [apply (upper_set_layer _ u); exact Hu2|apply tget_tmap_file; exact Hp]. }
    rewrite (bind_ok _ _ _ _ _ Eft3). cbn [ret snd]. split; [reflexivity|]. cbn [upper lowers set_layer]. rewrite Hu2. split; [reflexivity|congruence].
  - (* truncate *) inversion Ho; subst p0 og r; clear Ho.
    set (u3 := tmap_ino i (set_data (resize (N.to_nat size))) u).
    assert (HF : h_setdata p (resize (N.to_nat size)) u = Ok u3) by (unfold h_setdata; rewrite Hp; reflexivity).
    eexists. rewrite (bind_ok _ _ _ _ _ E1), (bind_ok _ _ _ _ _ (need_upper_ok s1 u Hu1)), (bind_ok _ _ _ _ _ Elk).
    rewrite (bind_ok _ _ _ _ _ (get_node_ok p s2 n2 Hg2)). unfold in_upper. rewrite Er, Hup.
    assert (Er0 : ret tt s2 = (Ok tt, s2)) by reflexivity. rewrite (bind_ok _ _ _ _ _ Er0), (bind_ok _ _ _ _ _ Eft).
    cbn [fst]. rewrite Hpath. rewrite (bind_ok _ _ _ _ _ (Hmut _ u3 HF)).
    assert (Eft3 : first_tree p (set_layer s2 0 u3) = (Ok (pr, set_data (resize (N.to_nat size)) (File i m d x)), set_layer s2 0 u3)).
    { apply (first_tree_run p _ u3 n2 pr prs); auto; [apply (upper_set_layer _ u); exact Hu2|apply tget_tmap_file; exact Hp]. }
    rewrite (bind_ok _ _ _ _ _ Eft3). cbn [ret snd set_data size_of]. rewrite length_resize, N2Nat.id.
    split; [reflexivity|]. cbn [upper lowers set_layer]. rewrite Hu2. split; [reflexivity|congruence].
  - (* setxattr *) destruct (is_opq_name k) eqn:Ek; [discriminate|]. inversion Ho; subst p0 og r; clear Ho.
    set (u3 := tmap_ino i (set_xs k v) u).
    assert (HF : h_setxattr p k v u = Ok u3) by (unfold h_setxattr, h_update; rewrite Hp; reflexivity).
    eexists. rewrite (bind_ok _ _ _ _ _ E1), (bind_ok _ _ _ _ _ Enc).
    rewrite (bind_ok _ _ _ _ _ (get_node_ok p s2 n2 Hg2)). unfold in_upper. rewrite Er, Hup.
    assert (Er0 : ret tt s2 = (Ok tt, s2)) by reflexivity. rewrite (bind_ok _ _ _ _ _ Er0), (bind_ok _ _ _ _ _ Eft).
    cbn [fst]. rewrite Hpath. rewrite (bind_ok _ _ _ _ _ (Hmut _ u3 HF)). cbn [ret].
    split; [reflexivity|]. cbn [upper lowers set_layer]. rewrite Hu2. split; [reflexivity|congruence].
  - (* removexattr *) destruct (is_opq_name k) eqn:Ek; [discriminate|].
    destruct (afind k x) as [vv|] eqn:Ex; inversion Ho; subst p0 og r; clear Ho.
    + set (u3 := tmap_ino i (del_xs k) u).
      assert (HF : h_removexattr p k u = Ok u3) by (unfold h_removexattr, h_update; rewrite Hp; cbn [xs_of]; rewrite Ex; reflexivity).
      eexists. rewrite (bind_ok _ _ _ _ _ E1), (bind_ok _ _ _ _ _ Enc).
      rewrite (bind_ok _ _ _ _ _ (get_node_ok p s2 n2 Hg2)). unfold in_upper. rewrite Er, Hup.
      assert (Er0 : ret tt s2 = (Ok tt, s2)) by reflexivity. rewrite (bind_ok _ _ _ _ _ Er0), (bind_ok _ _ _ _ _ Eft).
      cbn [fst]. rewrite Hpath. rewrite (bind_ok _ _ _ _ _ (Hmut _ u3 HF)). cbn [ret].
      split; [reflexivity|]. cbn [upper lowers set_layer]. rewrite Hu2. split; [reflexivity|congruence].
    + assert (HF : h_removexattr p k u = Err ENODATA) by (unfold h_removexattr; rewrite Hp; cbn [xs_of]; rewrite Ex; reflexivity).
      exists s2. rewrite (bind_ok _ _ _ _ _ E1), (bind_ok _ _ _ _ _ Enc).
      rewrite (bind_ok _ _ _ _ _ (get_node_ok p s2 n2 Hg2)). unfold in_upper. rewrite Er, Hup.
      assert (Er0 : ret tt s2 = (Ok tt, s2)) by reflexivity. rewrite (bind_ok _ _ _ _ _ Er0), (bind_ok _ _ _ _ _ Eft).
      cbn [fst]. rewrite Hpath, Hl0.
      assert (Em : mutate 0 (h_removexattr p k) s2 = (Err ENODATA, s2)) by (unfold mutate; cbn [get_layer]; rewrite Hu2, HF; reflexivity).
      rewrite (bind_err _ _ _ _ _ Em). split; [reflexivity|]. split; congruence.
Qed.
