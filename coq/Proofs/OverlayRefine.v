(* Per-operation refinement for modifying operations that need neither copy-up nor (for creation) a
   whiteout removal: the operation answers as the ordinary file system [fs_apply] does on the client's
   view, and changes the view the way [fs_apply] changes an ordinary tree.
   Route: the run lemmas (Proofs/OverlayRefineRun.v) give the answer and the new upper directory; both
   states are coherent, so both views are the union of their layers (coherent_view_union); the merge
   algebra (Proofs/OverlayRefineMerge.v) relates the two unions; [fs_apply] respects [teq]
   (Proofs/OverlayRefineTeq.v). *)
From Coq Require Import List String Arith NArith Bool Lia.
From FB Require Import Model.Overlay Proofs.OverlayInv Proofs.OverlayScan Proofs.OverlayRestart
  Proofs.OverlayReadOnly Proofs.OverlayCoh Proofs.OverlayCohView Proofs.OverlayCopyUp Proofs.OverlayCohOps
  Proofs.OverlayCohSteps Proofs.OverlayRefineTeq Proofs.OverlayRefineMerge Proofs.OverlayRefineRun.
Import ListNotations.
Local Open Scope N_scope.

Lemma res_same_trans a b c : res_same a b -> res_same b c -> res_same a c.
Proof. destruct a, b, c; cbn; try tauto; congruence. Qed.

(* from a statement about the unions of the layers to the statement about the client's views *)
Lemma refine_from_disk s o v r s' :
  Coherent s -> coh_op o = true -> view (load_all s) = Some v -> step o s = (r, s') ->
  (forall mv, merge (all_layers (upper s) (lowers s)) = Some mv ->
     let spec := fs_apply o (mkFs mv (next_ino s)) in
     res_same r (fst spec) /\ oteq (merge (all_layers (upper s') (lowers s'))) (Some (f_tree (snd spec)))) ->
  let spec := fs_apply o (mkFs v (next_ino s)) in
  res_same r (fst spec) /\ oteq (view (load_all s')) (Some (f_tree (snd spec))).
Proof.
  intros HC Ho Hv Hrun Hdisk. cbv zeta.
  pose proof (coherent_view_union s HC) as A. rewrite Hv in A.
  destruct (merge (all_layers (upper s) (lowers s))) as [mv|] eqn:Em; [|contradiction]. cbn [oteq] in A.
  destruct (Hdisk mv eq_refl) as [R1 T1]. cbv zeta in R1, T1.
  assert (HC' : Coherent s') by (pose proof (coherent_step o s Ho HC) as H; unfold run_op in H; rewrite Hrun in H; exact H).
  pose proof (coherent_view_union s' HC') as B.
  destruct (fs_apply_teq o mv v (next_ino s) A) as (R2 & T2 & _).
  split; [exact (res_same_trans _ _ _ R1 R2)|].
  apply (oteq_trans _ (merge (all_layers (upper s') (lowers s')))); [apply oteq_sym; exact B|].
  apply (oteq_trans _ (Some (f_tree (snd (fs_apply o (mkFs mv (next_ino s))))))); [exact T1|exact T2].
Qed.

(* ------------------------------------------------------------------ a new entry in an upper directory, no candidate in any layer *)
Definition plain_leaf (c : tree) : Prop :=
  match c with
  | File _ _ _ xs => xs = []
  | Lnk _ => True
  | Dir _ xs ch => xs = [] /\ ch = []
  | Wh => False
  end.
Lemma plain_leaf_wf c : plain_leaf c -> wf c.
Proof. destruct c; cbn; intros H; try constructor; destruct H; subst; constructor. Qed.
Lemma resolve_plain f c : plain_leaf c -> resolve (S f) [c] = Some c.
Proof.
  destruct c as [m x ch|i m d x|tg|]; cbn [plain_leaf]; intros H; try contradiction.
  - destruct H; subst. reflexivity.
  - subst. reflexivity.
  - reflexivity.
Qed.

Lemma resolve_empty_dir f m x : resolve (S f) [Dir m x []] = Some (Dir m (user_xs x) []).
Proof. cbn [resolve dir_stack]. destruct (xs_opaque x); reflexivity. Qed.

Section Insert.
Variables (u : tree) (ls : list tree) (pp : path) (nm : name) (m : N) (x : xattrs) (ch : list (name * tree)) (c : tree) (f : nat).
Hypothesis W : Forall wf (u :: ls).
Hypothesis Hpp : tget u pp = Some (Dir m x ch).
Hypothesis Hms : mstack (u :: ls) (pp ++ [nm]) = [].
Hypothesis Hc : plain_leaf c.
Hypothesis Hd : DEPTH = (S (S f) + List.length pp)%nat.

Lemma ins_low_nil : ents nm (tl (dir_stack (mstack (u :: ls) pp))) = [] /\ afind nm ch = None.
Proof.
  pose proof Hms as H. rewrite mstack_snoc in H. destruct (mstack_head pp u ls _ Hpp) as [r Hr]. rewrite Hr in *.
  rewrite (dir_stack_head m x ch), ents_cons in H. cbn [dir_children] in H. rewrite (dir_stack_head m x ch). cbn [tl].
  destruct (afind nm ch); [discriminate|]. auto.
Qed.
Lemma ins_merge mv : merge (u :: ls) = Some mv ->
  oteq (merge (tupd pp (dir_ins nm c) u :: ls)) (Some (tupd pp (dir_ins nm c) mv)) /\
  h_insert pp nm c mv = Ok (tupd pp (dir_ins nm c) mv).
Proof.
  intros Hm. destruct ins_low_nil as [Hlow Hnone]. destruct (mstack_head pp u ls _ Hpp) as [r Hr].
  split.
  - assert (HG : only_at nm (aset nm c) ch).
    { inversion W as [|? ? Wu _]; subst. pose proof (wf_tget _ Wu _ _ Hpp) as Wd. inversion Wd as [? ? ? Hn Hall| | |]; subst.
      split; [apply keys_aset; exact Hn|]. split.
      - intros k Hk. rewrite afind_aset. apply String.eqb_neq in Hk. rewrite Hk. reflexivity.
      - intros c0 H0. rewrite afind_aset_same in H0. inversion H0; subst. apply plain_leaf_wf. exact Hc. }
    pose proof (merge_tupd nm (aset nm c) (S f) pp u ls m x ch W Hpp HG Hd) as M. cbv zeta in M.
    rewrite Hm in M. cbn [option_map] in M.
    assert (E : tupd pp (chmap (aset nm c)) u = tupd pp (dir_ins nm c) u) by (apply tupd_ext; intros d; symmetry; apply dir_ins_chmap).
    rewrite E in M.
    assert (Eg : ents nm (dir_stack (Dir m x (aset nm c ch) :: tl (mstack (u :: ls) pp))) = [c]).
    { rewrite (dir_stack_head m x (aset nm c ch)), ents_cons. cbn [dir_children]. rewrite afind_aset_same.
      rewrite Hr in *. cbn [tl] in *. rewrite (dir_stack_tl_indep m x ch). rewrite (dir_stack_head m x ch) in Hlow. cbn [tl] in Hlow.
      rewrite Hlow. reflexivity. }
    rewrite Eg, (resolve_plain f c Hc) in M. exact M.
  - destruct (tget_merge (S f) pp u ls _ W Hpp eq_refl Hd) as (r0 & Hr0 & Ht). rewrite Hm in Hr0. inversion Hr0; subst r0.
    rewrite Hr in Ht. assert (Wr : Forall wf (Dir m x ch :: r)) by (rewrite <- Hr; apply mstack_wf; exact W).
    destruct (resolve_dir_spec (S f) m x ch r Wr) as (chs & Er & N & K). rewrite Er in Ht.
    unfold h_insert. rewrite Ht, K.
    assert (E0 : ents nm (dir_stack (Dir m x ch :: r)) = []).
    { pose proof Hms as H. rewrite mstack_snoc, Hr in H. exact H. }
    rewrite E0. reflexivity.
Qed.
End Insert.

(* the four creating operations and the entry they create *)
Definition ins_leaf (o : op) (nx : N) : option (path * tree) :=
  match o with
  | OMkdir p mode => Some (p, Dir (N.land mode 1023) [] [])
  | OCreate p mode | OMknod p mode => Some (p, File nx (N.land mode 4095) [] [])
  | OSymlink p tg => Some (p, Lnk tg)
  | _ => None
  end.
Lemma ins_leaf_plain o nx p c : ins_leaf o nx = Some (p, c) -> plain_leaf c.
Proof. destruct o; cbn; intros H; inversion H; subst; cbn; auto. Qed.
Lemma ins_leaf_coh o nx p c : ins_leaf o nx = Some (p, c) -> coh_op o = true.
Proof. destruct o; cbn; intros H; inversion H; reflexivity. Qed.
Lemma fs_apply_ins o nx (pp : path) (nm : name) c mv t' : ins_leaf o nx = Some (pp ++ [nm], c) ->
  h_insert pp nm c mv = Ok t' ->
  fst (fs_apply o (mkFs mv nx)) = Ok (kind_of c) /\ f_tree (snd (fs_apply o (mkFs mv nx))) = t'.
Proof.
  intros Ho Hi. pose proof (h_insert_get _ _ _ _ _ Hi) as Hg.
  destruct o; cbn [ins_leaf] in Ho; inversion Ho; subst; cbn [fs_apply]; rewrite split_last_snoc;
    unfold fs_mut, h_mkdir, h_create, h_symlink; cbn [f_tree f_next]; rewrite Hi; cbn [fs_after f_tree]; rewrite Hg; auto.
Qed.
Lemma step_ins_run o (pp : path) (nm : name) c s u m x ch :
  ins_leaf o (next_ino s) = Some (pp ++ [nm], c) ->
  Coherent s -> upper s = Some u -> tget u pp = Some (Dir m x ch) -> mstack (u :: lowers s) (pp ++ [nm]) = [] ->
  exists s', step o s = (Ok (kind_of c), s') /\ upper s' = Some (tupd pp (dir_ins nm c) u) /\ lowers s' = lowers s.
Proof.
  intros Ho HC Hu Hpp Hms. destruct o; cbn [ins_leaf] in Ho; inversion Ho; subst.
  - apply (step_create_run pp nm mode s u m x ch); assumption.
  - apply (step_mkdir_run pp nm mode s u m x ch); assumption.
  - apply (step_mknod_run pp nm mode s u m x ch); assumption.
  - apply (step_symlink_run pp nm target s u m x ch); assumption.
Qed.

Lemma coherent_wf_layers s u : Coherent s -> upper s = Some u -> Forall wf (u :: lowers s).
Proof.
  intros HC Hu. pose proof (coherent_layers_ok s HC) as H. rewrite Hu in H. cbn [all_layers] in H.
  eapply Forall_impl; [|exact H]. intros t [A _]. exact A.
Qed.

Theorem refines_insert s o (pp : path) (nm : name) c u m x ch v :
  Coherent s -> ins_leaf o (next_ino s) = Some (pp ++ [nm], c) ->
  upper s = Some u -> tget u pp = Some (Dir m x ch) -> mstack (u :: lowers s) (pp ++ [nm]) = [] ->
  (List.length (pp ++ [nm]) < DEPTH)%nat -> view (load_all s) = Some v ->
  let spec := fs_apply o (mkFs v (next_ino s)) in
  res_same (fst (step o s)) (fst spec) /\ oteq (view (load_all (run_op o s))) (Some (f_tree (snd spec))) /\
  lowers (run_op o s) = lowers s.
Proof.
  intros HC Ho Hu Hpp Hms Hlen Hv.
  destruct (step_ins_run o pp nm c s u m x ch Ho HC Hu Hpp Hms) as (s' & Hrun & Hu' & Hl').
  unfold run_op. rewrite Hrun. cbn [fst snd].
  assert (Hd : exists f, DEPTH = (S (S f) + List.length pp)%nat).
  { rewrite app_length in Hlen. cbn [List.length] in Hlen. exists (DEPTH - 2 - List.length pp)%nat. lia. }
  destruct Hd as [f Hd].
  pose proof (coherent_wf_layers s u HC Hu) as W.
  pose proof (ins_leaf_plain _ _ _ _ Ho) as Hc.
  destruct (refine_from_disk s o v _ s' HC (ins_leaf_coh _ _ _ _ Ho) Hv Hrun) as [R T]; [|cbv zeta; auto].
  intros mv Hm. rewrite Hu in Hm. cbn [all_layers] in Hm. rewrite Hu', Hl'. cbn [all_layers]. cbv zeta.
  destruct (ins_merge u (lowers s) pp nm m x ch c f W Hpp Hms Hc Hd mv Hm) as [M I].
  destruct (fs_apply_ins o (next_ino s) pp nm c mv _ Ho I) as [F1 F2]. rewrite F1, F2. split; [reflexivity|exact M].
Qed.

(* ------------------------------------------------------------------ removal of an upper entry that has no lower candidates
   (with or without a whiteout left behind: the cache may make do_rm write one, the union does not see it) *)
Section Remove.
Variables (u : tree) (ls : list tree) (pp : path) (nm : name) (m : N) (x : xattrs) (ch : list (name * tree)) (t : tree) (f : nat) (dir b : bool).
Hypothesis W : Forall wf (u :: ls).
Hypothesis Hpp : tget u pp = Some (Dir m x ch).
Hypothesis Hnm : afind nm ch = Some t.
Hypothesis Hkind : if dir then exists m' x', t = Dir m' x' [] else is_dirT t = false /\ is_whT t = false.
Hypothesis Hlow : ents nm (tl (dir_stack (mstack (u :: ls) pp))) = [].
Hypothesis Hd : DEPTH = (S (S f) + List.length pp)%nat.
Let G := fun l : list (name * tree) => if b then aset nm Wh (adel nm l) else adel nm l.

Lemma rm_merge mv : merge (u :: ls) = Some mv ->
  oteq (merge (tupd pp (chmap G) u :: ls)) (Some (tupd pp (dir_del nm) mv)) /\
  (if dir then h_rmdir pp nm else h_unlink pp nm) mv = Ok (tupd pp (dir_del nm) mv).
Proof.
  intros Hm. destruct (mstack_head pp u ls _ Hpp) as [r Hr]. rewrite Hr in Hlow. rewrite (dir_stack_head m x ch) in Hlow. cbn [tl] in Hlow.
  split.
  - assert (HG : only_at nm G ch).
    { inversion W as [|? ? Wu _]; subst. pose proof (wf_tget _ Wu _ _ Hpp) as Wd. inversion Wd as [? ? ? Hn Hall| | |]; subst.
      unfold G. split; [destruct b; [apply keys_aset|]; apply keys_adel_nd; exact Hn|]. split.
      - intros k Hk. apply String.eqb_neq in Hk. destruct b; rewrite ?afind_aset, ?afind_adel, ?Hk; rewrite ?afind_adel, ?Hk; reflexivity.
      - intros c0 H0. destruct b; [rewrite afind_aset_same in H0; inversion H0; constructor|].
        rewrite afind_adel, String.eqb_refl in H0. discriminate. }
    pose proof (merge_tupd nm G (S f) pp u ls m x ch W Hpp HG Hd) as M. cbv zeta in M.
    rewrite Hm in M. cbn [option_map] in M.
    assert (Eg : resolve (S f) (ents nm (dir_stack (Dir m x (G ch) :: tl (mstack (u :: ls) pp)))) = None).
    { rewrite (dir_stack_head m x (G ch)), ents_cons. cbn [dir_children]. rewrite Hr. cbn [tl].
      rewrite (dir_stack_tl_indep m x ch), Hlow. unfold G. destruct b.
      - rewrite afind_aset_same. reflexivity.
      - rewrite afind_adel, String.eqb_refl. reflexivity. }
    rewrite Eg in M. exact M.
  - destruct (tget_merge (S f) pp u ls _ W Hpp eq_refl Hd) as (r0 & Hr0 & Ht). rewrite Hm in Hr0. inversion Hr0; subst r0.
    rewrite Hr in Ht. assert (Wr : Forall wf (Dir m x ch :: r)) by (rewrite <- Hr; apply mstack_wf; exact W).
    destruct (resolve_dir_spec (S f) m x ch r Wr) as (chs & Er & N & K). rewrite Er in Ht.
    assert (E0 : afind nm chs = resolve (S f) [t]).
    { rewrite K, (dir_stack_head m x ch), ents_cons. cbn [dir_children]. rewrite Hnm, Hlow. reflexivity. }
    destruct dir.
    + destruct Hkind as (m' & x' & ->). unfold h_rmdir. rewrite Ht, E0, resolve_empty_dir. reflexivity.
    + destruct Hkind as [Hdt Hwt]. unfold h_unlink. rewrite Ht, E0. destruct t; try discriminate; reflexivity.
Qed.
End Remove.

Theorem refines_remove s (dir : bool) (pp : path) (nm : name) t u m x ch v :
  Coherent s -> upper s = Some u -> tget u pp = Some (Dir m x ch) -> afind nm ch = Some t ->
  (if dir then exists m' x', t = Dir m' x' [] else is_dirT t = false /\ is_whT t = false) ->
  ents nm (tl (dir_stack (mstack (u :: lowers s) pp))) = [] ->
  (List.length (pp ++ [nm]) < DEPTH)%nat -> view (load_all s) = Some v ->
  let o := if dir then ORmdir (pp ++ [nm]) else OUnlink (pp ++ [nm]) in
  let spec := fs_apply o (mkFs v (next_ino s)) in
  res_same (fst (step o s)) (fst spec) /\ oteq (view (load_all (run_op o s))) (Some (f_tree (snd spec))) /\
  lowers (run_op o s) = lowers s.
Proof.
  intros HC Hu Hpp Hnm Hkind Hlow Hlen Hv o.
  destruct (step_rm_run pp nm dir s u m x ch t HC Hu Hpp Hnm Hkind Hlow) as (s' & b & Hrun & Hu' & Hl'). fold o in Hrun.
  unfold run_op. rewrite Hrun. cbn [fst snd].
  assert (Hd : exists f, DEPTH = (S (S f) + List.length pp)%nat).
  { rewrite app_length in Hlen. cbn [List.length] in Hlen. exists (DEPTH - 2 - List.length pp)%nat. lia. }
  destruct Hd as [f Hd].
  pose proof (coherent_wf_layers s u HC Hu) as W.
  assert (Ho : coh_op o = true) by (unfold o; destruct dir; reflexivity).
  destruct (refine_from_disk s o v _ s' HC Ho Hv Hrun) as [R T]; [|cbv zeta; auto].
  intros mv Hm. rewrite Hu in Hm. cbn [all_layers] in Hm. rewrite Hu', Hl'. cbn [all_layers]. cbv zeta.
  destruct (rm_merge u (lowers s) pp nm m x ch t f dir b W Hpp Hnm Hkind Hlow Hd mv Hm) as [M I].
  unfold o. destruct dir; cbn [fs_apply]; rewrite split_last_snoc; unfold fs_mut; cbn [f_tree f_next]; rewrite I; cbn [fst snd f_tree]; (split; [reflexivity|exact M]).
Qed.

(* ------------------------------------------------------------------ content / attribute change of an upper regular file *)
Lemma attr_eff_coh o i m d x p og r : attr_eff o i m d x = Some (p, og, r) -> coh_op o = true.
Proof. destruct o; cbn [attr_eff coh_op]; try discriminate; try reflexivity; destruct (is_opq_name k); try discriminate; reflexivity. Qed.
Lemma attr_eff_hide_comm o i m d x p g r : attr_eff o i m d x = Some (p, Some g, r) -> hide_comm g.
Proof.
  destruct o; cbn [attr_eff]; try discriminate.
  - destruct (of_trunc fl); intros H; inversion H; subst. apply hide_comm_set_data.
  - intros H; inversion H; subst. apply hide_comm_set_data.
  - intros H; inversion H; subst. apply hide_comm_set_mode.
  - intros H; inversion H; subst. apply hide_comm_set_data.
  - destruct (is_opq_name k) eqn:E; [discriminate|]. intros H; inversion H; subst. apply hide_comm_set_xs. exact E.
  - destruct (is_opq_name k) eqn:E; [discriminate|]. destruct (afind k x); intros H; inversion H; subst. apply hide_comm_del_xs.
Qed.
Lemma fs_apply_attr o i m d x p og r mv nx : attr_eff o i m d x = Some (p, og, r) ->
  tget mv p = Some (File i m d (user_xs x)) ->
  fs_apply o (mkFs mv nx) = (r, mkFs (match og with Some g => tmap_ino i g mv | None => mv end) nx).
Proof.
  intros Ho Hp. destruct o; cbn [attr_eff] in Ho; try discriminate; cbn [fs_apply f_tree].
  - inversion Ho; subst p0 og r; clear Ho. rewrite Hp. destruct (of_trunc fl); [|reflexivity].
    unfold fs_mut, h_setdata. cbn [f_tree f_next]. rewrite Hp. reflexivity.
  - inversion Ho; subst p0 og r; clear Ho. unfold fs_mut, h_setdata. cbn [f_tree f_next]. rewrite Hp. reflexivity.
  - inversion Ho; subst p0 og r; clear Ho. unfold fs_mut, h_chmod, h_update. cbn [f_tree f_next]. rewrite Hp. cbn [fs_after f_tree].
    rewrite (tget_tmap_file i (set_mode mode) mv p m d (user_xs x) Hp). reflexivity.
  - inversion Ho; subst p0 og r; clear Ho. unfold fs_mut, h_setdata. cbn [f_tree f_next]. rewrite Hp. reflexivity.
  - destruct (is_opq_name k); [discriminate|]. inversion Ho; subst p0 og r; clear Ho. unfold fs_mut, h_setxattr, h_update. cbn [f_tree f_next]. rewrite Hp. reflexivity.
  - destruct (is_opq_name k) eqn:Ek; [discriminate|].
    destruct (afind k x) eqn:Ex; inversion Ho; subst p0 og r; clear Ho; unfold fs_mut, h_removexattr, h_update; cbn [f_tree f_next];
      rewrite Hp; cbn [xs_of]; rewrite (afind_user_xs k x Ek), Ex; reflexivity.
Qed.

Theorem refines_attr s o (p : path) og r u i m d x v :
  Coherent s -> attr_eff o i m d x = Some (p, og, r) ->
  upper s = Some u -> tget u p = Some (File i m d x) ->
  forallb (fun l => negb (ino_in i l)) (lowers s) = true ->
  (List.length p < DEPTH)%nat -> view (load_all s) = Some v ->
  let spec := fs_apply o (mkFs v (next_ino s)) in
  res_same (fst (step o s)) (fst spec) /\ oteq (view (load_all (run_op o s))) (Some (f_tree (snd spec))) /\
  lowers (run_op o s) = lowers s.
Proof.
  intros HC Ho Hu Hp Hino Hlen Hv.
  destruct (step_attr_run o p og r s u i m d x Ho HC Hu Hp) as (s' & Hrun & Hu' & Hl').
  unfold run_op. rewrite Hrun. cbn [fst snd].
  assert (Hd : exists f, DEPTH = (S f + List.length p)%nat) by (exists (DEPTH - 1 - List.length p)%nat; lia).
  destruct Hd as [f Hd].
  pose proof (coherent_wf_layers s u HC Hu) as W.
  destruct (refine_from_disk s o v _ s' HC (attr_eff_coh _ _ _ _ _ _ _ _ Ho) Hv Hrun) as [R T]; [|cbv zeta; auto].
  intros mv Hm. rewrite Hu in Hm. cbn [all_layers] in Hm. rewrite Hu', Hl'. cbn [all_layers]. cbv zeta.
  destruct (tget_merge f p u (lowers s) _ W Hp eq_refl Hd) as (r0 & Hr0 & Ht). rewrite Hm in Hr0. inversion Hr0; subst r0.
  destruct (mstack_head p u (lowers s) _ Hp) as [rr Hrr]. rewrite Hrr in Ht. cbn [resolve hide_xs] in Ht.
  rewrite (fs_apply_attr o i m d x p og r mv (next_ino s) Ho Ht). cbn [fst snd f_tree].
  split; [destruct r; reflexivity|].
  destruct og as [g|]; [|rewrite Hm; apply teq_refl; eapply resolve_wf; [exact W|exact Hm]].
  rewrite (merge_tmap_ino i g u (lowers s) (attr_eff_hide_comm _ _ _ _ _ _ _ _ Ho) Hino), Hm. cbn [option_map oteq].
  apply teq_refl. assert (Wm : wf mv) by (eapply resolve_wf; [exact W|exact Hm]).
  assert (E : merge (tmap_ino i g u :: lowers s) = Some (tmap_ino i g mv)) by (rewrite (merge_tmap_ino i g u (lowers s) (attr_eff_hide_comm _ _ _ _ _ _ _ _ Ho) Hino), Hm; reflexivity).
  eapply resolve_wf; [|exact E]. inversion W; subst. constructor; [|assumption].
  apply wf_tmap_ino; [|assumption]. intros j m0 d0 x0. destruct (attr_eff_hide_comm _ _ _ _ _ _ _ _ Ho j m0 d0 x0) as (m' & d' & x' & E1 & _). eauto.
Qed.

(* ------------------------------------------------------------------ the side condition, on the disk state *)
(* no layer holds a candidate for the path (through the directories that take part in the union) *)
Definition no_cand (L : list tree) (p : path) : bool := match mstack L p with [] => true | _ => false end.
(* no lower layer holds a candidate for [pp]/[nm] *)
Definition no_lower_cand (L : list tree) (pp : path) (nm : name) : bool :=
  match ents nm (tl (dir_stack (mstack L pp))) with [] => true | _ => false end.
Definition upper_file_ok (u : tree) (ls : list tree) (p : path) : bool :=
  match tget u p with
  | Some (File i _ _ _) => forallb (fun l => negb (ino_in i l)) ls     (* no lower file shares the identity *)
  | _ => false
  end.
(* [direct s o]: the operation works on the upper layer alone - no copy-up, no whiteout needed:
   - mkdir / create / mknod / symlink: the parent is a directory of the upper layer and no layer has a candidate for the name;
   - unlink (rmdir): the target is a regular file or symlink (an empty directory) of the upper layer and no lower
     layer has a candidate for the name;
   - open (any flag word) / write / truncate / chmod / setxattr / removexattr of a name that is not an opaque marker:
     the target is a regular file of the upper layer whose hard-link identity no lower layer uses;
   and the path is shorter than the depth DEPTH to which [view] looks. *)
Definition direct (s : state) (o : op) : bool :=
  match upper s with
  | None => false
  | Some u =>
      let L := u :: lowers s in
      match o with
      | OMkdir p _ | OCreate p _ | OMknod p _ | OSymlink p _ =>
          match split_last p with
          | Some (pp, nm) =>
              (List.length p <? DEPTH)%nat && match tget u pp with Some (Dir _ _ _) => true | _ => false end && no_cand L p
          | None => false
          end
      | OUnlink p =>
          match split_last p with
          | Some (pp, nm) =>
              (List.length p <? DEPTH)%nat &&
              match tget u p with Some (File _ _ _ _) | Some (Lnk _) => true | _ => false end && no_lower_cand L pp nm
          | None => false
          end
      | ORmdir p =>
          match split_last p with
          | Some (pp, nm) =>
              (List.length p <? DEPTH)%nat &&
              match tget u p with Some (Dir _ _ []) => true | _ => false end && no_lower_cand L pp nm
          | None => false
          end
      | OOpen p _ | OWrite p _ _ | OTruncate p _ | OChmod p _ => (List.length p <? DEPTH)%nat && upper_file_ok u (lowers s) p
      | OSetxattr p k _ | ORemovexattr p k => negb (is_opq_name k) && (List.length p <? DEPTH)%nat && upper_file_ok u (lowers s) p
      | _ => false
      end
  end.

Lemma tget_snoc_inv u (pp : path) (nm : name) t : tget u (pp ++ [nm]) = Some t ->
  exists m x ch, tget u pp = Some (Dir m x ch) /\ afind nm ch = Some t.
Proof. rewrite tget_app. destruct (tget u pp) as [[m x ch| | |]|]; try discriminate. eauto. Qed.

Definition refines_at (s : state) (o : op) (v : tree) : Prop :=
  let spec := fs_apply o (mkFs v (next_ino s)) in
  res_same (fst (step o s)) (fst spec) /\ oteq (view (load_all (run_op o s))) (Some (f_tree (snd spec))) /\
  lowers (run_op o s) = lowers s.

Theorem op_refines_direct s o v : Coherent s -> direct s o = true -> view (load_all s) = Some v -> refines_at s o v.
Proof.
  intros HC Hd Hv. unfold direct in Hd. destruct (upper s) as [u|] eqn:Hu; [|discriminate]. cbv zeta in Hd.
  assert (Hins : forall p, match split_last p with
          | Some (pp, nm) => (List.length p <? DEPTH)%nat && match tget u pp with Some (Dir _ _ _) => true | _ => false end && no_cand (u :: lowers s) p
          | None => false end = true ->
          forall c, ins_leaf o (next_ino s) = Some (p, c) -> refines_at s o v).
  { intros p H c Ho. destruct (split_last p) as [[pp nm]|] eqn:Esp; [|discriminate]. apply split_last_spec in Esp. subst p.
    apply andb_prop in H. destruct H as [H H3]. apply andb_prop in H. destruct H as [H1 H2]. apply Nat.ltb_lt in H1.
    destruct (tget u pp) as [[m x ch| | |]|] eqn:Hpp; try discriminate.
    unfold no_cand in H3. destruct (mstack (u :: lowers s) (pp ++ [nm])) eqn:Hms; [|discriminate].
    exact (refines_insert s o pp nm c u m x ch v HC Ho Hu Hpp Hms H1 Hv). }
  assert (Hrm : forall (dir : bool) p, match split_last p with
          | Some (pp, nm) => (List.length p <? DEPTH)%nat &&
              (if dir then match tget u p with Some (Dir _ _ []) => true | _ => false end
               else match tget u p with Some (File _ _ _ _) | Some (Lnk _) => true | _ => false end) && no_lower_cand (u :: lowers s) pp nm
          | None => false end = true -> o = (if dir then ORmdir p else OUnlink p) -> refines_at s o v).
  { intros dir p H Ho. destruct (split_last p) as [[pp nm]|] eqn:Esp; [|discriminate]. apply split_last_spec in Esp. subst p.
    apply andb_prop in H. destruct H as [H H3]. apply andb_prop in H. destruct H as [H1 H2]. apply Nat.ltb_lt in H1.
    unfold no_lower_cand in H3. destruct (ents nm (tl (dir_stack (mstack (u :: lowers s) pp)))) eqn:Hlow; [|discriminate].
    destruct (tget u (pp ++ [nm])) as [t|] eqn:Ht; [|destruct dir; discriminate].
    destruct (tget_snoc_inv u pp nm t Ht) as (m & x & ch & Hpp & Hnm).
    assert (Hkind : if dir then exists m' x', t = Dir m' x' [] else is_dirT t = false /\ is_whT t = false).
    { destruct dir; destruct t as [m' x' [|? ?]| | |]; try discriminate; eauto. }
    subst o. exact (refines_remove s dir pp nm t u m x ch v HC Hu Hpp Hnm Hkind Hlow H1 Hv). }
  assert (Hat : forall p, (List.length p <? DEPTH)%nat && upper_file_ok u (lowers s) p = true ->
          (forall i m d x, exists og r, attr_eff o i m d x = Some (p, og, r)) -> refines_at s o v).
  { intros p H Ho. apply andb_prop in H. destruct H as [H1 H2]. apply Nat.ltb_lt in H1. unfold upper_file_ok in H2.
    destruct (tget u p) as [[| i m d x | |]|] eqn:Hp; try discriminate. destruct (Ho i m d x) as (og & r & Hoe).
    exact (refines_attr s o p og r u i m d x v HC Hoe Hu Hp H2 H1 Hv). }
  destruct o; try discriminate.
  - apply (Hins p Hd _ eq_refl).
  - apply (Hins p Hd _ eq_refl).
  - apply (Hins p Hd _ eq_refl).
  - apply (Hins p Hd _ eq_refl).
  - apply (Hrm false p Hd eq_refl).
  - apply (Hrm true p Hd eq_refl).
  - apply (Hat p Hd). intros i m d x. cbn [attr_eff]. eauto.
  - apply (Hat p Hd). intros i m d x. cbn [attr_eff]. eauto.
  - apply (Hat p Hd). intros i m d x. cbn [attr_eff]. eauto.
  - apply (Hat p Hd). intros i m d x. cbn [attr_eff]. eauto.
  - apply andb_prop in Hd. destruct Hd as [Hd H3]. apply andb_prop in Hd. destruct Hd as [Hk H1]. apply negb_true_iff in Hk.
    apply (Hat p); [rewrite H1, H3; reflexivity|]. intros i m d x. cbn [attr_eff]. rewrite Hk. eauto.
  - apply andb_prop in Hd. destruct Hd as [Hd H3]. apply andb_prop in Hd. destruct Hd as [Hk H1]. apply negb_true_iff in Hk.
    apply (Hat p); [rewrite H1, H3; reflexivity|]. intros i m d x. cbn [attr_eff]. rewrite Hk. destruct (afind k x); eauto.
Qed.

(* in the form of [op_refines] (Proofs/OverlayRestart.v): equal serialisations, after any history over [coh_op] *)
Theorem op_refines_direct_history u ls nx ops o : Forall layer_ok (u :: ls) -> coh_history ops = true ->
  direct (run_dumps ops (load_all (fresh (Some u) ls nx))) o = true -> op_refines (Some u) ls nx ops o.
Proof.
  intros Hok Hh Hd. unfold op_refines. cbv zeta. set (s := run_dumps ops (load_all (fresh (Some u) ls nx))) in *.
  assert (HC : Coherent (load_all s)).
  { apply load_all_coherent. apply coherent_history; [exact Hh|]. apply load_all_coherent. apply fresh_coherent. exact Hok. }
  destruct (view (load_all s)) as [v|] eqn:Hv; [|exact I].
  assert (Hv' : view (load_all (load_all s)) = Some v).
  { rewrite <- Hv. apply (view_load_all_vs s (root (load_all s))); try reflexivity.
    unfold load_all. cbn [root]. apply load_node_vs. }
  assert (Hd' : direct (load_all s) o = true) by exact Hd.
  destruct (op_refines_direct (load_all s) o v HC Hd' Hv') as (R & T & _).
  split; [exact R|]. change (ser SER ?t) with (ser_opt (Some t)). apply oteq_ser. exact T.
Qed.
