(* Copy-up preserves what it copies: a regular file copied up for modification has, in the upper
   layer, the permission bits and content of its lower instance; a symlink its target; a directory
   created by create_upper_dir the mode of its lower instance. *)
From Coq Require Import List String Arith NArith Bool Lia.
From FB Require Import Model.Overlay Proofs.OverlayInv Proofs.OverlayScan.
Import ListNotations.
Local Open Scope N_scope.

(* ------------------------------------------------------------------ trees *)
Lemma afind_aset_same {A} k (v : A) l : afind k (aset k v l) = Some v.
Proof.
  induction l as [|[k' v'] l IH]; cbn [aset afind]; [rewrite String.eqb_refl; reflexivity|].
  destruct (String.eqb k k') eqn:E; cbn [afind]; rewrite ?String.eqb_refl, ?E; auto.
Qed.
Lemma tget_tupd pp f : forall t, tget (tupd pp f t) pp = option_map f (tget t pp).
Proof.
  induction pp as [|c pp IH]; intros t; cbn [tget tupd option_map]; [reflexivity|].
  destruct t; try reflexivity. cbn [tget]. rewrite afind_amap.
  destruct (afind c ch) as [x|]; cbn [option_map]; [apply IH|reflexivity].
Qed.
Lemma h_insert_get pp n c t t1 : h_insert pp n c t = Ok t1 -> tget t1 (pp ++ [n]) = Some c.
Proof.
  unfold h_insert. destruct (tget t pp) as [[m x ch| | |]|] eqn:E; try discriminate.
  destruct (afind n ch); [discriminate|]. intros H; inversion H; subst; clear H.
  rewrite tget_app, tget_tupd, E. cbn [option_map dir_ins]. apply afind_aset_same.
Qed.
Lemma afind_map_snd {A B} (g : A -> B) k l :
  afind k (map (fun kv => (fst kv, g (snd kv))) l) = option_map g (afind k l).
Proof.
  induction l as [|[k' v] l IH]; cbn [map afind fst snd option_map]; [reflexivity|].
  destruct (String.eqb k k'); [reflexivity|exact IH].
Qed.
Lemma tget_tmap_ino i f q : forall t c, tget t q = Some c -> tget (tmap_ino i f t) q = Some (tmap_ino i f c).
Proof.
  induction q as [|k q IH]; intros t c H; cbn [tget] in *.
  - inversion H; subst. reflexivity.
  - destruct t; try discriminate. cbn [tmap_ino tget]. rewrite afind_map_snd.
    destruct (afind k ch) as [y|]; [|discriminate]. cbn [option_map]. apply IH. exact H.
Qed.

(* ------------------------------------------------------------------ primitives *)
Lemma mutate0_spec f s s3 : mutate 0 f s = (Ok tt, s3) ->
  exists t t', upper s = Some t /\ f t = Ok t' /\ upper s3 = Some t' /\ lowers s3 = lowers s /\ root s3 = root s.
Proof.
  unfold mutate. cbn [get_layer]. destruct (upper s) as [t|] eqn:E; [|discriminate].
  destruct (f t) as [t'|e] eqn:Ef; [|discriminate]. intros H; inversion H; subst; clear H.
  exists t, t'. unfold set_layer; rewrite E; cbn. auto.
Qed.
Lemma ri_create_spec pr nm m s r s2 : r_upper pr = true -> r_layer pr = 0%nat ->
  ri_create pr nm m s = (Ok r, s2) ->
  exists t t1, upper s = Some t /\ h_create (r_path pr) nm (next_ino s) m t = Ok t1 /\
    r = mkReal 0 true (r_path pr ++ [nm]) false false false /\
    upper s2 = Some t1 /\ lowers s2 = lowers s /\ root s2 = root s.
Proof.
  intros Hu Hl. unfold ri_create, ri_guard. rewrite Hu, Hl. unfold bind at 1. cbn [ret].
  unfold bind at 1. unfold fresh_ino. unfold bind at 1.
  destruct (mutate 0 _ _) as [[[]|e] s3] eqn:Em; [|discriminate].
  destruct (mutate0_spec _ _ _ Em) as (t & t1 & A & B & C & D & E). cbn [upper lowers root next_ino] in *.
  cbn [ret]. intros H; inversion H; subst; clear H. exists t, t1. repeat split; assumption.
Qed.
Lemma ri_symlink_spec pr nm tg s r s2 : r_upper pr = true -> r_layer pr = 0%nat ->
  ri_symlink pr nm tg s = (Ok r, s2) ->
  exists t t1, upper s = Some t /\ h_symlink (r_path pr) nm tg t = Ok t1 /\
    r = mkReal 0 true (r_path pr ++ [nm]) false false false /\
    upper s2 = Some t1 /\ lowers s2 = lowers s /\ root s2 = root s.
Proof.
  intros Hu Hl. unfold ri_symlink, ri_guard. rewrite Hu, Hl. unfold bind at 1. cbn [ret]. unfold bind at 1.
  destruct (mutate 0 _ _) as [[[]|e] s3] eqn:Em; [|discriminate].
  destruct (mutate0_spec _ _ _ Em) as (t & t1 & A & B & C & D & E).
  cbn [ret]. intros H; inversion H; subst; clear H. exists t, t1. repeat split; assumption.
Qed.
Lemma ri_mkdir_spec pr nm m s r s2 : r_upper pr = true -> r_layer pr = 0%nat ->
  ri_mkdir pr nm m s = (Ok r, s2) ->
  exists t t1, upper s = Some t /\ h_mkdir (r_path pr) nm m t = Ok t1 /\
    r = mkReal 0 true (r_path pr ++ [nm]) false false true /\
    upper s2 = Some t1 /\ lowers s2 = lowers s /\ root s2 = root s.
Proof.
  intros Hu Hl. unfold ri_mkdir, ri_guard. rewrite Hu, Hl. unfold bind at 1. cbn [ret]. unfold bind at 1.
  destruct (mutate 0 _ _) as [[[]|e] s3] eqn:Em; [|discriminate].
  destruct (mutate0_spec _ _ _ Em) as (t & t1 & A & B & C & D & E).
  cbn [ret]. intros H; inversion H; subst; clear H. exists t, t1. repeat split; assumption.
Qed.
(* the copy-up mkdir of the repaired create_upper_dir: mkdir, then chmod when the lower mode has set-uid / set-gid bits *)
Lemma ri_mkdir_cu_get pr nm m s r s2 : r_upper pr = true -> r_layer pr = 0%nat ->
  ri_mkdir_cu pr nm m s = (Ok r, s2) ->
  exists t1, r = mkReal 0 true (r_path pr ++ [nm]) false false true /\
    upper s2 = Some t1 /\ lowers s2 = lowers s /\ root s2 = root s /\
    tget t1 (r_path pr ++ [nm]) = Some (Dir (cu_mode m) [] []).
Proof.
  intros Hu Hl. unfold ri_mkdir_cu. unfold bind at 1.
  destruct (ri_mkdir pr nm m s) as [[ri|e] s1] eqn:Ec; [|discriminate].
  destruct (ri_mkdir_spec _ _ _ _ _ _ Hu Hl Ec) as (t & t1 & Eu & Hc & -> & Eu1 & Hlow1 & Hroot1).
  pose proof (h_insert_get _ _ _ _ _ Hc) as Hg1. unfold cu_mode.
  destruct (has_setid m).
  - unfold bind at 1. cbn [r_layer r_path].
    destruct (mutate 0 (h_chmod (r_path pr ++ [nm]) m) s1) as [[[]|e] s3] eqn:Em; [|discriminate].
    destruct (mutate0_spec _ _ _ Em) as (u & u' & A & B & C & D & E). rewrite Eu1 in A. inversion A; subst u.
    unfold h_chmod, h_update in B. rewrite Hg1 in B. inversion B; subst u'.
    cbn [ret]. intros H; inversion H; subst. exists (tupd (r_path pr ++ [nm]) (set_mode m) t1).
    split; [reflexivity|]. split; [exact C|]. split; [congruence|]. split; [congruence|].
    rewrite tget_tupd, Hg1. reflexivity.
  - unfold bind at 1. cbn [ret]. intros H; inversion H; subst. exists t1. auto.
Qed.
Lemma get_node_same p s r s0 : get_node p s = (r, s0) -> s0 = s.
Proof. unfold get_node. destruct (nget p (root s)); intros H; inversion H; reflexivity. Qed.
(* the parent's upper backing inode, as the copy-up functions obtain it *)
Lemma parent_upper hu s1 pp pn' e pr s1' : Inv hu s1 -> get_node pp s1 = (Ok pn', s1) ->
  upper_real pn' e s1 = (Ok pr, s1') -> s1' = s1 /\ r_upper pr = true /\ r_layer pr = 0%nat.
Proof.
  intros Hinv Eg H. assert (Hpn' : nok hu pn').
  { unfold get_node in Eg. destruct (nget pp (root s1)) eqn:Egg; inversion Eg; subst. eapply nok_nget; [apply Hinv|exact Egg]. }
  unfold upper_real in H. pose proof (nok_reals hu pn' Hpn') as Hrok.
  destruct (n_reals pn') as [|r rs]; [discriminate|]. inversion Hrok as [|? ? Hr _]; subst.
  destruct (r_upper r) eqn:Eu; [|discriminate]. inversion H; subst. destruct (Hr Eu). auto.
Qed.
Lemma lower_real_tree s s2 r : r_layer r <> 0%nat -> lowers s2 = lowers s -> real_tree s2 r = real_tree s r.
Proof. intros Hl H. unfold real_tree. destruct (r_layer r) as [|j]; [contradiction|]. cbn [get_layer]. rewrite H. reflexivity. Qed.

(* ------------------------------------------------------------------ regular files *)
Theorem copy_regfile_up_preserves hu s p n lr rest i m d x s' :
  Inv hu s -> nget p (root s) = Some n -> in_upper n = false ->
  n_reals n = lr :: rest -> r_layer lr <> 0%nat -> real_tree s lr = Some (File i m d x) ->
  copy_regfile_up p s = (Ok tt, s') ->
  forall n', nget p (root s') = Some n' ->
  exists r' i', n_reals n' = [r'] /\ r_upper r' = true /\
                real_tree s' r' = Some (File i' (N.land m 4095) d []).
Proof.
  intros Hinv Hg Hup Hrs Hlow Hlr Hrun n' Hn'.
  unfold copy_regfile_up in Hrun. unfold bind at 1 in Hrun. unfold get_node at 1 in Hrun. rewrite Hg in Hrun.
  rewrite Hup in Hrun. destruct (split_last p) as [[pp nm]|]; [|discriminate].
  unfold bind at 1 in Hrun. unfold stat_node, node_stat in Hrun. rewrite Hrs in Hrun. cbn [map first_some] in Hrun.
  rewrite Hlr in Hrun. cbn [first_some] in Hrun.
  unfold bind at 1 in Hrun. unfold first_real in Hrun. rewrite Hrs in Hrun. cbn [ret] in Hrun.
  unfold bind at 1 in Hrun. destruct (get_node pp s) as [[pn|e] s0] eqn:Eg; [|discriminate].
  assert (s0 = s) by (unfold get_node in Eg; destruct (nget pp (root s)); inversion Eg; reflexivity). subst s0.
  unfold bind at 1 in Hrun.
  destruct ((if in_upper pn then ret tt else create_upper_dir (S (List.length pp)) pp) s) as [[[]|e] s1] eqn:E1; [|discriminate].
  assert (H1 : Inv hu s1 /\ step_ok hu s s1).
  { destruct (in_upper pn).
    - inversion E1; subst. split; [exact Hinv|apply step_ok_refl].
    - destruct (h_create_upper_dir' hu (S (List.length pp)) pp s Hinv I) as (A1 & A2 & _). rewrite E1 in A1, A2. split; assumption. }
  destruct H1 as [Hinv1 (Hlow1 & _)].
  unfold bind at 1 in Hrun. destruct (get_node pp s1) as [[pn'|e] s1'] eqn:Eg1; [|discriminate].
  assert (s1' = s1) by (unfold get_node in Eg1; destruct (nget pp (root s1)); inversion Eg1; reflexivity). subst s1'.
  unfold bind at 1 in Hrun. destruct (upper_real pn' EINVAL s1) as [[pr|e] s1'] eqn:Eur; [|discriminate].
  destruct (parent_upper hu s1 pp pn' EINVAL pr s1' Hinv1 Eg1 Eur) as (-> & Epu & Hl0).
  unfold bind at 1 in Hrun.
  set (rest_m := fun ri => _) in Hrun.
  destruct (ri_create pr nm (mode_of (File i m d x)) s1) as [[ri|e] s2] eqn:Ec; [|discriminate].
  destruct (ri_create_spec _ _ _ _ _ _ Epu Hl0 Ec) as (t & t1 & Eu & Hc & -> & Eu2 & Hlow2 & Hroot2).
  subst rest_m. cbn beta in Hrun. cbn [mode_of r_layer r_path] in *.
  (* the content is read from the lower backing inode, which no step so far has touched *)
  unfold bind at 1 in Hrun.
  rewrite (lower_real_tree s s2 lr Hlow) in Hrun by congruence. rewrite Hlr in Hrun.
  unfold bind at 1 in Hrun.
  destruct (mutate 0 _ s2) as [[[]|e] s3] eqn:Em; [|discriminate].
  destruct (mutate0_spec _ _ _ Em) as (t1' & t2 & Eu2' & Hd & Eu3 & Hlow3 & Hroot3).
  rewrite Eu2 in Eu2'. inversion Eu2'; subst t1'; clear Eu2'.
  pose proof (h_insert_get _ _ _ _ _ Hc) as Hget1.
  unfold h_setdata in Hd. rewrite Hget1 in Hd. inversion Hd; subst t2; clear Hd.
  unfold mod_node in Hrun. inversion Hrun; subst s'; clear Hrun.
  cbn [root] in Hn'. rewrite nget_nupd in Hn'.
  destruct (nget p (root s3)) as [n0|]; cbn [option_map] in Hn'; [|discriminate]. inversion Hn'; subst n'; clear Hn'.
  eexists; eexists. split; [reflexivity|]. split; [reflexivity|].
  unfold real_tree; cbn [r_layer r_path get_layer upper]. rewrite Eu3.
  rewrite (tget_tmap_ino _ _ _ _ _ Hget1). cbn [tmap_ino]. rewrite N.eqb_refl. reflexivity.
Qed.

(* ------------------------------------------------------------------ symbolic links *)
Theorem copy_symlink_up_preserves hu s p n lr rest tg s' :
  Inv hu s -> nget p (root s) = Some n -> in_upper n = false ->
  n_reals n = lr :: rest -> r_layer lr <> 0%nat -> real_tree s lr = Some (Lnk tg) ->
  copy_symlink_up p s = (Ok tt, s') ->
  forall n', nget p (root s') = Some n' ->
  exists r', n_reals n' = [r'] /\ r_upper r' = true /\ real_tree s' r' = Some (Lnk tg).
Proof.
  intros Hinv Hg Hup Hrs Hlow Hlr Hrun n' Hn'.
  unfold copy_symlink_up in Hrun. unfold bind at 1 in Hrun. unfold get_node at 1 in Hrun. rewrite Hg in Hrun.
  rewrite Hup in Hrun. destruct (split_last p) as [[pp nm]|]; [|discriminate].
  unfold bind at 1 in Hrun. unfold first_real in Hrun. rewrite Hrs in Hrun. cbn [ret] in Hrun.
  unfold bind at 1 in Hrun. destruct (get_node pp s) as [[pn|e] s0] eqn:Eg; [|discriminate].
  pose proof (get_node_same _ _ _ _ Eg); subst s0.
  unfold bind at 1 in Hrun.
  destruct ((if in_upper pn then ret tt else create_upper_dir (S (List.length pp)) pp) s) as [[[]|e] s1] eqn:E1; [|discriminate].
  assert (H1 : Inv hu s1 /\ step_ok hu s s1).
  { destruct (in_upper pn).
    - inversion E1; subst. split; [exact Hinv|apply step_ok_refl].
    - destruct (h_create_upper_dir' hu (S (List.length pp)) pp s Hinv I) as (A1 & A2 & _). rewrite E1 in A1, A2. split; assumption. }
  destruct H1 as [Hinv1 (Hlow1 & _)].
  unfold bind at 1 in Hrun. rewrite (lower_real_tree s s1 lr Hlow Hlow1), Hlr in Hrun.
  unfold bind at 1 in Hrun. destruct (get_node pp s1) as [[pn'|e] s1'] eqn:Eg1; [|discriminate].
  pose proof (get_node_same _ _ _ _ Eg1); subst s1'.
  unfold bind at 1 in Hrun. destruct (upper_real pn' EROFS s1) as [[pr|e] s1'] eqn:Eur; [|discriminate].
  destruct (parent_upper hu s1 pp pn' EROFS pr s1' Hinv1 Eg1 Eur) as (-> & Epu & Hl0).
  unfold bind at 1 in Hrun.
  destruct (ri_symlink pr nm tg s1) as [[ri|e] s2] eqn:Ec; [|discriminate].
  destruct (ri_symlink_spec _ _ _ _ _ _ Epu Hl0 Ec) as (t & t1 & Eu & Hc & -> & Eu2 & Hlow2 & Hroot2).
  unfold mod_node in Hrun. inversion Hrun; subst s'; clear Hrun.
  cbn [root] in Hn'. rewrite nget_nupd in Hn'.
  destruct (nget p (root s2)) as [n0|]; cbn [option_map] in Hn'; [|discriminate]. inversion Hn'; subst n'; clear Hn'.
  eexists. split; [reflexivity|]. split; [reflexivity|].
  unfold real_tree; cbn [r_layer r_path get_layer upper]. rewrite Eu2.
  exact (h_insert_get _ _ _ _ _ Hc).
Qed.

(* ------------------------------------------------------------------ directories (also every missing ancestor:
   create_upper_dir calls itself on the parent, so each created ancestor is an instance) *)
Theorem create_upper_dir_preserves hu fuel s p n m x ch s' :
  Inv hu s -> nget p (root s) = Some n -> in_upper n = false ->
  node_stat s n = Some (Dir m x ch) ->
  create_upper_dir fuel p s = (Ok tt, s') ->
  forall n', nget p (root s') = Some n' ->
  exists r' rs', n_reals n' = r' :: rs' /\ r_upper r' = true /\
                 real_tree s' r' = Some (Dir (cu_mode m) [] []).
Proof.
  intros Hinv Hg Hup Hst Hrun n' Hn'. destruct fuel as [|f]; [discriminate|]. cbn [create_upper_dir] in Hrun.
  unfold bind at 1 in Hrun. unfold get_node at 1 in Hrun. rewrite Hg in Hrun.
  unfold bind at 1 in Hrun. unfold stat_node in Hrun. rewrite Hst in Hrun. cbn [is_dirT negb] in Hrun.
  rewrite Hup in Hrun. destruct (split_last p) as [[pp nm]|]; [|discriminate].
  unfold bind at 1 in Hrun. destruct (get_node pp s) as [[pn|e] s0] eqn:Eg; [|discriminate].
  pose proof (get_node_same _ _ _ _ Eg); subst s0.
  unfold bind at 1 in Hrun.
  destruct ((if in_upper pn then ret tt else create_upper_dir f pp) s) as [[[]|e] s1] eqn:E1; [|discriminate].
  assert (Hinv1 : Inv hu s1).
  { destruct (in_upper pn).
    - inversion E1; subst. exact Hinv.
    - destruct (h_create_upper_dir' hu f pp s Hinv I) as (A1 & _). rewrite E1 in A1. exact A1. }
  unfold bind at 1 in Hrun. destruct (get_node pp s1) as [[pn'|e] s1'] eqn:Eg1; [|discriminate].
  pose proof (get_node_same _ _ _ _ Eg1); subst s1'.
  unfold bind at 1 in Hrun. destruct (upper_real pn' EINVAL s1) as [[pr|e] s1'] eqn:Eur; [|discriminate].
  destruct (parent_upper hu s1 pp pn' EINVAL pr s1' Hinv1 Eg1 Eur) as (-> & Epu & Hl0).
  unfold bind at 1 in Hrun. cbn [mode_of] in Hrun.
  destruct (ri_mkdir_cu pr nm m s1) as [[ri|e] s2] eqn:Ec; [|discriminate].
  destruct (ri_mkdir_cu_get _ _ _ _ _ _ Epu Hl0 Ec) as (t1 & -> & Eu2 & Hlow2 & Hroot2 & Hc).
  unfold mod_node in Hrun. inversion Hrun; subst s'; clear Hrun.
  cbn [root] in Hn'. rewrite nget_nupd in Hn'.
  destruct (nget p (root s2)) as [n0|]; cbn [option_map] in Hn'; [|discriminate]. inversion Hn'; subst n'; clear Hn'.
  eexists; eexists. split; [reflexivity|]. split; [reflexivity|].
  unfold real_tree; cbn [r_layer r_path get_layer upper]. rewrite Eu2.
  exact Hc.
Qed.
