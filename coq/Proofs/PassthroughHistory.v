(* C06: confinement over whole histories, rejection of unsafe names before any effect, a decidable
   sufficient condition for the invariant at start, and a concrete non-vacuity instance. *)
From Coq Require Import List NArith Bool Lia.
From FB Require Import Gen.Validators Model.Names Model.HostFs Model.Passthrough Proofs.Names Proofs.HostFs Proofs.PassthroughConfined.
Import ListNotations.
Local Open Scope N_scope.

Section History.
  Variable E0 : list N.
  Variable n0 : N.
  Variable root : N.
  Notation Inv := (Inv E0 n0 root).
  Notation inE := (inE E0 n0).
  Notation frameE := (frameE E0 n0).
  Notation reply_ok := (reply_ok E0 n0).

  Lemma rstep_good : forall cf r q rp c r', Inv (r_p r) -> rstep cf r q = (rp, c, r') ->
    Inv (r_p r') /\ frameE (p_host (r_p r)) (p_host (r_p r')) /\ reply_ok rp.
  Proof.
    intros cf r q rp c r' HI H. unfold rstep in H.
    destruct (pstep cf (r_p r) (resolve (r_is r) (r_hs r) q)) as [[[rp0 io] ho] s'] eqn:Hp.
    inversion H; subst. cbn.
    destruct (pstep_good E0 n0 root _ _ _ _ _ _ _ HI Hp) as [[Hi Hf] Hr]. auto.
  Qed.

  Theorem run_confined : forall cf qs r out rf, Inv (r_p r) -> run cf r qs = (out, rf) ->
    Inv (r_p rf) /\ frameE (p_host (r_p r)) (p_host (r_p rf)) /\ Forall (fun o => reply_ok (fst o)) out.
  Proof.
    intros cf qs. induction qs as [|q qs IH]; intros r out rf HI H; cbn in H.
    - inversion H; subst. split; [exact HI|]. split; [apply frameE_refl | constructor].
    - destruct (rstep cf r q) as [[rp c] r1] eqn:Hs.
      destruct (run cf r1 qs) as [out1 rf1] eqn:Hr. inversion H; subst.
      destruct (rstep_good _ _ _ _ _ _ HI Hs) as [HI1 [Hf1 Hrp]].
      destruct (IH _ _ _ HI1 Hr) as [HI2 [Hf2 Hall]].
      split; [exact HI2|]. split; [eapply frameE_trans; eassumption|]. constructor; [exact Hrp | exact Hall].
  Qed.

  (* with a Vfs in front *)
  Theorem vfs_pstep_good : forall cf s q rp io ho s', Inv s -> vfs_pstep cf s q = (rp, io, ho, s') ->
    Inv s' /\ frameE (p_host s) (p_host s') /\ reply_ok rp.
  Proof.
    intros cf s q rp io ho s' HI H. unfold vfs_pstep in H. destruct (vfs_check q).
    - inversion H; subst. split; [exact HI|]. split; [apply frameE_refl | exact I].
    - destruct (pstep_good E0 n0 root _ _ _ _ _ _ _ HI H) as [[Hi Hf] Hr]. auto.
  Qed.

  (* ---- a decidable sufficient condition for Inv *)
  Definition memN (i : N) (l : list N) : bool := existsb (fun x => x =? i) l.
  Definition inEb (i : N) : bool := memN i E0 || (n0 <=? i).
  Definition closed_b (i : N) (v : inode) : bool :=
    match i_kind v with
    | KDir ents par _ => forallb (fun e => inEb (snd e)) ents && ((i =? root) || inEb par)
    | _ => true
    end.
  Definition inv_check (s : pstate) : bool :=
    (n0 <=? h_next (p_host s)) &&
    forallb (fun p => negb (inEb (fst p)) || closed_b (fst p) (snd p)) (h_nodes (p_host s)) &&
    forallb (fun p => inEb (id_host (snd p)) && Bool.eqb (id_host (snd p) =? root) (fst p =? ROOT_ID)) (p_inodes s) &&
    existsb (fun p => fst p =? ROOT_ID) (p_inodes s) &&
    forallb (fun p => negb (snd p =? ROOT_ID) || (fst p =? root)) (p_idmap s) &&
    (2 <=? p_next_inode s) &&
    forallb (fun p => inEb (hd_host (snd p))) (p_handles s).

  Lemma inEb_inE : forall i, inEb i = true <-> inE i.
  Proof.
    intros i. unfold inEb, Proofs.HostFs.inE, memN. rewrite orb_true_iff, existsb_exists, N.leb_le. split.
    - intros [[x [Hin Heq]] | H]; [apply N.eqb_eq in Heq; subst; left; exact Hin | right; exact H].
    - intros [H | H]; [left; exists i; split; [exact H | apply N.eqb_refl] | right; exact H].
  Qed.

  Lemma inv_check_sound : forall s, inv_check s = true -> Inv s.
  Proof.
    intros s H. unfold inv_check in H.
    repeat (apply andb_prop in H; destruct H as [H ?]).
    rename H into Hn. rename H0 into Hh. rename H1 into Hnext. rename H2 into Hmap. rename H3 into Hex. rename H4 into Hin. rename H5 into Hnodes.
    rewrite forallb_forall in Hnodes, Hin, Hmap, Hh.
    split.
    - split; [apply N.leb_le; exact Hn|].
      intros i v Hi Hg. apply assoc_In in Hg. specialize (Hnodes _ Hg). cbn in Hnodes.
      apply inEb_inE in Hi. rewrite Hi in Hnodes. cbn in Hnodes.
      unfold closed_b in Hnodes. unfold closed_inode. destruct (i_kind v); try exact I.
      apply andb_prop in Hnodes. destruct Hnodes as [H1 H2]. rewrite forallb_forall in H1. split.
      + intros n c Hc. apply inEb_inE. apply (H1 (n, c) Hc).
      + intros Hne. apply orb_prop in H2. destruct H2 as [H2 | H2]; [apply N.eqb_eq in H2; contradiction | apply inEb_inE; exact H2].
    - repeat split.
      + intros f d Hfd. specialize (Hin _ Hfd). apply andb_prop in Hin. apply inEb_inE. apply Hin.
      + intros f d Hfd Hr. specialize (Hin _ Hfd). apply andb_prop in Hin. destruct Hin as [_ Hin]. cbn in Hin.
        apply Bool.eqb_prop in Hin. apply N.eqb_eq. rewrite <- Hin. apply N.eqb_eq. exact Hr.
      + intros i f Hif Hf. specialize (Hmap _ Hif). cbn in Hmap. apply orb_prop in Hmap.
        destruct Hmap as [Hm | Hm]; [apply negb_true_iff in Hm; apply N.eqb_neq in Hm; contradiction | apply N.eqb_eq; exact Hm].
      + apply N.leb_le. exact Hnext.
      + intros k hd Hk. apply inEb_inE. apply (Hh _ Hk).
      + intros d Hd. specialize (Hin _ Hd). apply andb_prop in Hin. destruct Hin as [_ Hin]. cbn in Hin.
        apply Bool.eqb_prop in Hin. apply N.eqb_eq. rewrite Hin. reflexivity.
      + apply existsb_exists in Hex. destruct Hex as [[f d] [Hfd Hf]]. cbn in Hf. apply N.eqb_eq in Hf. subst f. exists d. exact Hfd.
  Qed.
End History.

(* ---- unsafe names are rejected before anything happens (standalone: do_import) *)
Theorem lookup_rejects_slash : forall cf s parent n, In 47 n ->
  pstep cf s (QLookup parent n) = (RpErr EINVAL, None, None, s).
Proof.
  intros cf s parent n Hin. unfold pstep. destruct (lookup_check_iff n) as [[H1 _] H2].
  destruct (lookup_check n) as [e|] eqn:Hl.
  - assert (He : Some e = Some Names.EINVAL) by (apply H2; discriminate). inversion He; subst. reflexivity.
  - exfalso. apply H1; [reflexivity | exact Hin].
Qed.

Definition unsafe (n : name) : Prop := In 47 n \/ n = dot \/ n = dotdot.

Lemma validate_unsafe : forall cf n, c_do_import cf = true -> nul_free n -> unsafe n -> validate cf n = Some EINVAL.
Proof.
  intros cf n Hdi Hnf Hu. unfold validate. rewrite Hdi. unfold pt_validate. cbn [negb].
  destruct (validate_iff n Hnf) as [[H1 _] H2].
  destruct (validate_path_component n) as [e|] eqn:Hv; [apply H2; discriminate|].
  exfalso. destruct (H1 eq_refl) as [Ha [Hb Hc]]. destruct Hu as [Hu | [Hu | Hu]]; contradiction.
Qed.

Lemma validate_safe_or_einval : forall cf n, validate cf n = None \/ validate cf n = Some EINVAL.
Proof.
  intros cf n. unfold validate, pt_validate, validate_path_component.
  destruct (negb (c_do_import cf)); [left; reflexivity|]. destruct (is_safe_path_component n); [left | right]; reflexivity.
Qed.

Theorem mutators_reject_unsafe : forall cf s q n, c_do_import cf = true ->
  (forall m, In m (mutator_names q) -> nul_free m) ->
  In n (mutator_names q) -> unsafe n ->
  pstep cf s q = (RpErr EINVAL, None, None, s).
Proof.
  intros cf s q n Hdi Hnf Hin Hu.
  destruct q; cbn [mutator_names] in Hin, Hnf; try contradiction;
    try (destruct Hin as [<- | []]; unfold pstep; rewrite (validate_unsafe cf _ Hdi (Hnf _ (or_introl eq_refl)) Hu); reflexivity).
  (* rename: either name *)
  unfold pstep. destruct Hin as [<- | [<- | []]].
  - rewrite (validate_unsafe cf _ Hdi (Hnf _ (or_introl eq_refl)) Hu). reflexivity.
  - destruct (validate_safe_or_einval cf on) as [-> | ->]; [|reflexivity].
    rewrite (validate_unsafe cf _ Hdi (Hnf _ (or_intror (or_introl eq_refl))) Hu). reflexivity.
Qed.

(* behind a Vfs: a request whose name the Vfs rejects causes no backend call (state unchanged) *)
Theorem vfs_rejects_first : forall cf s q e, vfs_check q = Some e -> vfs_pstep cf s q = (RpErr e, None, None, s).
Proof. intros cf s q e H. unfold vfs_pstep. rewrite H. reflexivity. Qed.

Theorem vfs_check_unsafe : forall q n, (forall m, In m (mutator_names q) -> nul_free m) ->
  In n (mutator_names q) -> unsafe n -> vfs_check q = Some EINVAL.
Proof.
  intros q n Hnf Hin Hu.
  assert (Hv : forall m, nul_free m -> unsafe m -> validate_path_component m = Some EINVAL).
  { intros m Hm Hum. destruct (validate_iff m Hm) as [[H1 _] H2].
    destruct (validate_path_component m) as [e|] eqn:Hv; [apply H2; discriminate|].
    exfalso. destruct (H1 eq_refl) as [Ha [Hb Hc]]. destruct Hum as [Hx | [Hx | Hx]]; contradiction. }
  destruct q; cbn [mutator_names] in Hin, Hnf; try contradiction;
    try (destruct Hin as [<- | []]; cbn [vfs_check]; apply Hv; [apply Hnf; left; reflexivity | exact Hu]).
  cbn [vfs_check]. destruct Hin as [<- | [<- | []]].
  - rewrite (Hv _ (Hnf _ (or_introl eq_refl)) Hu). reflexivity.
  - destruct (validate_path_component on) as [e|] eqn:Hon.
    + unfold validate_path_component in Hon. destruct (is_safe_path_component on); inversion Hon; reflexivity.
    + apply Hv; [apply Hnf; right; left; reflexivity | exact Hu].
Qed.

(* a multi-component name reaches none of the three name-consuming fronts of the host model unless it
   contains '/': names that passed the checks above are single components *)
Theorem fronts_single_component : forall c h d n dots,
  has_slash n = false ->
  lookup1 c h d n <> Err EMULTI /\ create_check c h d n <> Err EMULTI /\ remove_check c h d n dots <> Err EMULTI \/ dots = EMULTI.
Proof.
  intros c h d n dots Hs. destruct (N.eq_dec dots EMULTI) as [->|Hd]; [right; reflexivity|]. left.
  unfold lookup1, create_check, remove_check. rewrite Hs.
  repeat split; intros H;
    repeat match type of H with
    | (if ?b then _ else _) = _ => destruct b
    | (match ?x with _ => _ end) = _ => destruct x
    end; try discriminate H; inversion H; congruence.
Qed.

Theorem single_component_fronts : forall c h d n dots, has_slash n = false -> dots <> EMULTI ->
  lookup1 c h d n <> Err EMULTI /\ create_check c h d n <> Err EMULTI /\ remove_check c h d n dots <> Err EMULTI.
Proof.
  intros c h d n dots Hs Hd. destruct (fronts_single_component c h d n dots Hs) as [H | H]; [exact H | contradiction].
Qed.

(* create() always asks for O_CREAT|O_EXCL: the host call can neither follow a final-component symlink nor
   produce the unmodelled outcome *)
Lemma has_lor_r : forall a b, b <> 0 -> has (N.lor a b) b = true.
Proof.
  intros a b Hb. unfold has. apply negb_true_iff. apply N.eqb_neq. intros H. apply Hb.
  apply N.bits_inj. intros n. rewrite N.bits_0.
  assert (Hn : N.testbit (N.land (N.lor a b) b) n = false) by (rewrite H; apply N.bits_0).
  rewrite N.land_spec, N.lor_spec in Hn. destruct (N.testbit b n); [rewrite orb_true_r in Hn; discriminate Hn | reflexivity].
Qed.

Lemma create_check_not_follow : forall c h d n e, create_check c h d n = Err e -> e <> EFOLLOW.
Proof.
  intros c h d n e H. unfold create_check in H.
  repeat match type of H with
  | (if ?b then _ else _) = _ => destruct b
  | (match ?x with _ => _ end) = _ => destruct x
  end; inversion H; subst; discriminate.
Qed.

Theorem create_excl_never_follows : forall c h d n flags mode,
  fst (sys_openat_creat_excl c h d n (N.lor (N.lor flags O_CREAT) O_EXCL) mode) <> Err EFOLLOW.
Proof.
  intros c h d n flags mode. unfold sys_openat_creat_excl.
  rewrite (has_lor_r (N.lor flags O_CREAT) O_EXCL) by discriminate. cbn [negb].
  destruct (has _ O_DIRECTORY); [cbn; discriminate|].
  destruct (create_check c h d n) as [dv|e] eqn:Hck.
  - destruct (create_node c h d dv n (KReg []) (init_mode c dv mode)). cbn. discriminate.
  - cbn. intros E. inversion E. apply (create_check_not_follow _ _ _ _ _ Hck). assumption.
Qed.

Lemma has_slash_In : forall n, has_slash n = true <-> In 47 n.
Proof.
  intros n. unfold has_slash. rewrite existsb_exists. split.
  - intros [x [Hin Heq]]. apply N.eqb_eq in Heq. subst. exact Hin.
  - intros H. exists 47. split; [exact H | reflexivity].
Qed.

(* ---- non-vacuity: a sentinel tree around an export with planted links pointing outside *)
Definition ex_file (d : list N) : inode := mkInode (KReg d) 420 0 0 [].
Definition ex_host : host := mkHost
  [ (10, mkInode (KDir [([97], 11); ([101], 12)] 10 false) 493 0 0 []);      (* sentinel/: a, e(xport) *)
    (11, ex_file [115; 101; 99]);                                             (* sentinel/a: secret *)
    (12, mkInode (KDir [([102], 13); ([100], 14); ([114], 15); ([115], 16)] 10 false) 493 0 0 []);
    (13, ex_file [104; 105]);
    (14, mkInode (KDir [] 12 false) 493 0 0 []);
    (15, mkInode (KLnk [46; 46; 47; 97]) 511 0 0 []);                          (* r -> ../a *)
    (16, mkInode (KLnk [47; 97]) 511 0 0 []) ]                                 (* s -> /a *)
  17 [].
Definition ex_E0 : list N := [12; 13; 14; 15; 16].

Lemma ex_inv : Inv ex_E0 17 12 (init_state ex_host 12).
Proof. apply inv_check_sound. vm_compute. reflexivity. Qed.

Definition ex_history : list sreq :=
  [ SLookup (Slot 0) [46; 46];                       (* ".." at the root *)
    SLookup (Slot 0) [114];                          (* the planted relative link *)
    SOpen (Slot 2) 0 0;                              (* opening it is refused *)
    SMkdir (Slot 0) [46; 46] 493 0 0 0;              (* rejected *)
    SMkdir (Slot 0) [110] 493 0 0 0;
    SRename (Slot 0) [100] (Slot 3) [109] 0;         (* move d under the new directory *)
    SLookup (Slot 3) [46; 46] ].

Lemma ex_run_outside_unchanged :
  let rf := snd (run (mkCfg true false false false false true 2 true false) (start ex_host 12) ex_history) in
  get (p_host (r_p rf)) 10 = get ex_host 10 /\ get (p_host (r_p rf)) 11 = get ex_host 11 /\
  map fst (fst (run (mkCfg true false false false false true 2 true false) (start ex_host 12) ex_history)) <> [].
Proof. vm_compute. repeat split; discriminate. Qed.
