(* allocate_fs_idx: the loop as written returns the first free non-zero index in cyclic order
   from next_super, leaves next_super just behind it, and fails exactly when all 255 are taken. *)
From Coq Require Import List NArith Bool Lia.
From FB Require Import Model.Pseudo Gen.VfsTable Model.Vfs.
Import ListNotations.
Local Open Scope N_scope.

Definition busy (sb : amap N) (i : N) : bool :=
  (i =? 0) || match aget i sb with Some _ => true | None => false end.

(* the candidates in the order the loop visits them: (start + k) mod 256 for k, k+1, ... *)
Fixpoint scan (n : nat) (sb : amap N) (start k : N) : option N :=
  match n with
  | O => None
  | S m => let index := (start + k) mod 256 in
           if busy sb index then scan m sb start (k + 1) else Some index
  end.

Lemma mod_succ a : ((a mod 256) + 1) mod 256 = (a + 1) mod 256.
Proof. rewrite N.add_mod_idemp_l by lia. reflexivity. Qed.

Lemma cyc_ne_start start k : start < 256 -> 0 < k < 256 -> (start + k) mod 256 <> start.
Proof.
  intros Hs Hk E.
  destruct (N.lt_ge_cases (start + k) 256) as [Hl | Hg].
  - rewrite N.mod_small in E by exact Hl. lia.
  - assert (Hm : (start + k) mod 256 = start + k - 256).
    { symmetry. apply N.mod_unique with (q := 1); lia. }
    lia.
Qed.

Lemma alloc_loop_scan : forall n fuel sb start next found k,
  start < 256 -> next = (start + k) mod 256 -> found = (0 <? k) -> k + N.of_nat n = 256 ->
  (S n <= fuel)%nat ->
  alloc_loop fuel sb start next found =
    match scan n sb start k with
    | Some i => (AOk i, (i + 1) mod 256)
    | None => (AFull, (start + 1) mod 256)
    end.
Proof.
  induction n as [|n IH]; intros fuel sb start next found k Hs Hn Hf Hk Hfuel.
  - destruct fuel as [|f]; [lia|]. cbn [alloc_loop scan].
    assert (k = 256) by lia. subst k.
    assert (Enext : next = start).
    { rewrite Hn. replace (start + 256) with (start + 1 * 256) by lia. rewrite N.mod_add by lia. apply N.mod_small; lia. }
    rewrite Enext, N.eqb_refl, Hf. cbn. reflexivity.
  - destruct fuel as [|f]; [lia|]. cbn [alloc_loop scan].
    assert (Hk256 : k < 256) by lia.
    assert (Hgate : (next =? start) && found = false).
    { destruct (N.eq_dec k 0) as [-> | Hk0].
      - rewrite Hf. cbn. apply andb_false_r.
      - assert (next <> start) by (rewrite Hn; apply cyc_ne_start; lia).
        apply N.eqb_neq in H. rewrite H. reflexivity. }
    rewrite Hgate.
    set (found' := if next =? start then true else found).
    assert (Hf' : found' = (0 <? k + 1)).
    { assert (E : (0 <? k + 1) = true) by (apply N.ltb_lt; lia). rewrite E. unfold found'.
      destruct (next =? start) eqn:En; [reflexivity|].
      rewrite Hf. apply N.ltb_lt. destruct (N.eq_dec k 0) as [-> | Hk0]; [|lia].
      exfalso. apply N.eqb_neq in En. apply En. rewrite Hn, N.add_0_r. apply N.mod_small; lia. }
    assert (Hn' : (next + 1) mod 256 = (start + (k + 1)) mod 256).
    { rewrite Hn, mod_succ. f_equal. lia. }
    rewrite <- Hn. unfold busy.
    destruct (next =? 0) eqn:E0.
    + cbn [orb]. apply IH; try assumption; lia.
    + cbn [orb]. destruct (aget next sb) eqn:Eg.
      * apply IH; try assumption; lia.
      * reflexivity.
Qed.

Definition alloc_spec (sb : amap N) (start : N) : option N := scan 256 sb start 0.

Lemma allocate_eq s : v_next s < 256 ->
  allocate_fs_idx s = match alloc_spec (v_sb s) (v_next s) with
                      | Some i => (AOk i, (i + 1) mod 256)
                      | None => (AFull, (v_next s + 1) mod 256)
                      end.
Proof.
  intros H. unfold allocate_fs_idx, alloc_spec.
  apply alloc_loop_scan; try lia; try reflexivity.
  rewrite N.add_0_r. symmetry. apply N.mod_small. exact H.
Qed.

Lemma scan_some : forall n sb start k i, scan n sb start k = Some i ->
  exists j, k <= j < k + N.of_nat n /\ i = (start + j) mod 256 /\ busy sb i = false /\
            (forall j', k <= j' < j -> busy sb ((start + j') mod 256) = true).
Proof.
  induction n as [|n IH]; intros sb start k i H; [discriminate|].
  cbn [scan] in H. destruct (busy sb ((start + k) mod 256)) eqn:Eb.
  - destruct (IH _ _ _ _ H) as (j & Hj & Hi & Hb & Hall).
    exists j. repeat split; try lia; try assumption.
    intros j' Hj'. destruct (N.eq_dec j' k) as [-> | Hne]; [exact Eb|]. apply Hall. lia.
  - inversion H; subst i. exists k. repeat split; try lia; try assumption; try (intros j' Hj'; lia).
Qed.

Lemma scan_none : forall n sb start k, scan n sb start k = None ->
  forall j, k <= j < k + N.of_nat n -> busy sb ((start + j) mod 256) = true.
Proof.
  induction n as [|n IH]; intros sb start k H j Hj; [lia|].
  cbn [scan] in H. destruct (busy sb ((start + k) mod 256)) eqn:Eb; [|discriminate].
  destruct (N.eq_dec j k) as [-> | Hne]; [exact Eb|]. apply (IH _ _ _ H). lia.
Qed.

Lemma scan_none_conv : forall n sb start k,
  (forall j, k <= j < k + N.of_nat n -> busy sb ((start + j) mod 256) = true) -> scan n sb start k = None.
Proof.
  induction n as [|n IH]; intros sb start k H; [reflexivity|].
  cbn [scan]. rewrite (H k) by lia. apply IH. intros j Hj. apply H. lia.
Qed.

(* every index below 256 is visited within one round *)
Lemma cyc_cover start i : start < 256 -> i < 256 -> exists j, 0 <= j < 256 /\ i = (start + j) mod 256.
Proof.
  intros Hs Hi. destruct (N.le_gt_cases start i) as [Hle | Hgt].
  - exists (i - start). split; [lia|]. replace (start + (i - start)) with i by lia. symmetry. apply N.mod_small. exact Hi.
  - exists (256 + i - start). split; [lia|]. replace (start + (256 + i - start)) with (i + 1 * 256) by lia.
    rewrite N.mod_add by lia. symmetry. apply N.mod_small. exact Hi.
Qed.

Definition slot_free (sb : amap N) (i : N) : Prop := aget i sb = None.

Lemma busy_false sb i : busy sb i = false <-> i <> 0 /\ slot_free sb i.
Proof.
  unfold busy, slot_free. destruct (i =? 0) eqn:E0.
  - apply N.eqb_eq in E0. cbn. split; [discriminate|]. intros [H _]. contradiction.
  - apply N.eqb_neq in E0. cbn. destruct (aget i sb); split; try discriminate; try tauto. intros [_ H]. discriminate.
Qed.

(* The statement used by Props/C07.v *)
Theorem alloc_correct : forall s, v_next s < 256 ->
  (forall i nx, allocate_fs_idx s = (AOk i, nx) ->
      i <> 0 /\ i < 256 /\ slot_free (v_sb s) i /\ nx = (i + 1) mod 256 /\
      exists j, j < 256 /\ i = (v_next s + j) mod 256 /\
                forall j', j' < j -> (v_next s + j') mod 256 = 0 \/ ~ slot_free (v_sb s) ((v_next s + j') mod 256)) /\
  (forall nx, allocate_fs_idx s = (AFull, nx) ->
      nx = (v_next s + 1) mod 256 /\ forall i, 0 < i < 256 -> ~ slot_free (v_sb s) i) /\
  ((forall i, 0 < i < 256 -> ~ slot_free (v_sb s) i) -> fst (allocate_fs_idx s) = AFull) /\
  fst (allocate_fs_idx s) <> AFuel.
Proof.
  intros s Hn. rewrite (allocate_eq s Hn). unfold alloc_spec.
  destruct (scan 256 (v_sb s) (v_next s) 0) as [i0|] eqn:Es.
  - destruct (scan_some _ _ _ _ _ Es) as (j & Hj & Hi & Hb & Hall).
    apply busy_false in Hb. destruct Hb as [Hnz Hfree].
    split; [|split; [|split]].
    + intros i nx H. inversion H; subst i nx.
      split; [exact Hnz|]. split; [rewrite Hi; apply N.mod_lt; lia|]. split; [exact Hfree|]. split; [reflexivity|].
      exists j. split; [lia|]. split; [exact Hi|].
      intros j' Hj'. specialize (Hall j' ltac:(lia)). set (c := (v_next s + j') mod 256) in *.
      destruct (N.eq_dec c 0) as [Hc | Hc]; [left; exact Hc|]. right. intros Hf.
      assert (busy (v_sb s) c = false) by (apply busy_false; split; assumption). congruence.
    + intros nx H. inversion H.
    + intros Hocc. exfalso. apply (Hocc i0); [|exact Hfree]. split; [lia|]. rewrite Hi. apply N.mod_lt. lia.
    + cbn. discriminate.
  - split; [|split; [|split]].
    + intros i nx H. inversion H.
    + intros nx H. inversion H. split; [reflexivity|].
      intros i Hi Hfree.
      destruct (cyc_cover (v_next s) i Hn ltac:(lia)) as (j & Hj & Ei).
      pose proof (scan_none _ _ _ _ Es j ltac:(lia)) as Hb. rewrite <- Ei in Hb.
      assert (busy (v_sb s) i = false) by (apply busy_false; split; [lia|exact Hfree]). congruence.
    + intros _. reflexivity.
    + cbn. discriminate.
Qed.

(* wrap-around witness: counter at 255, slots 255 and 1 taken: index 0 is skipped, 2 is handed out *)
Example alloc_wraps :
  allocate_fs_idx (mkV 255 ps_new [] [(255, 7); (1, 8)] [] default_opts false false None) = (AOk 2, 3).
Proof. vm_compute. reflexivity. Qed.
