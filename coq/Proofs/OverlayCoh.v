(* The coherence invariant between the node cache and the layer directories.

   For a path p, [lstack p] is the list of layer indices (top first) whose entry at p takes part in
   the overlay at p: what a fresh scan would collect as candidates for the node at p.  A node at p
   is coherent ([NodeOK]) when its backing inodes sit at path p in their layers with the cached
   whiteout/dir flags the disk has, start with the top-most candidate, cut the same directory
   stack as the candidates do, and - once loaded - have a child exactly for the names some
   directory of that stack holds.  [Coherent s]: every node reachable in the cache is coherent. *)
From Coq Require Import List String Arith NArith Bool Lia.
From FB Require Import Model.Overlay Proofs.OverlayInv Proofs.OverlayScan.
Import ListNotations.

Inductive shape := SDir (o : bool) | SNon (w : bool).
Definition sh (t : tree) : shape :=
  match t with Dir _ x _ => SDir (xs_opaque x) | Wh => SNon true | _ => SNon false end.
Definition ent (s : state) (i : nat) (p : path) : option tree :=
  match get_layer s i with Some t => tget t p | None => None end.
Definition shp (s : state) : nat -> path -> option shape := fun i p => option_map sh (ent s i p).

Lemma real_tree_ent s r : real_tree s r = ent s (r_layer r) (r_path r).
Proof. reflexivity. Qed.

(* ------------------------------------------------------------------ association lists *)
Lemma afind_aset {A} k k' (v : A) l : afind k (aset k' v l) = if String.eqb k k' then Some v else afind k l.
Proof.
  induction l as [|[a x] l IH]; cbn [aset afind].
  - destruct (String.eqb k k'); reflexivity.
  - destruct (String.eqb k' a) eqn:E1; cbn [afind].
    + apply String.eqb_eq in E1; subst a. destruct (String.eqb k k'); reflexivity.
    + destruct (String.eqb k a) eqn:E2; [|exact IH].
      apply String.eqb_eq in E2; subst a. rewrite String.eqb_sym in E1. rewrite E1. reflexivity.
Qed.
Lemma afind_adel {A} k k' (l : list (string * A)) : afind k (adel k' l) = if String.eqb k k' then None else afind k l.
Proof.
  induction l as [|[a x] l IH]; cbn [adel afind].
  - destruct (String.eqb k k'); reflexivity.
  - destruct (String.eqb k' a) eqn:E1.
    + apply String.eqb_eq in E1; subst a. rewrite IH. destruct (String.eqb k k'); reflexivity.
    + cbn [afind]. rewrite IH. destruct (String.eqb k a) eqn:E2; [|reflexivity].
      apply String.eqb_eq in E2; subst a. rewrite String.eqb_sym in E1. rewrite E1. reflexivity.
Qed.
Lemma afind_none_notin {A} k (l : list (string * A)) : afind k l = None <-> ~ In k (map fst l).
Proof.
  induction l as [|[a x] l IH]; cbn [afind map fst]; [split; auto|].
  destruct (String.eqb k a) eqn:E.
  - apply String.eqb_eq in E; subst. split; [discriminate|]. intros H. exfalso. apply H. left; reflexivity.
  - rewrite IH. apply String.eqb_neq in E. split; intros H.
    + intros [H1|H1]; [congruence|auto].
    + intros H1. apply H. right; exact H1.
Qed.
Lemma afind_map_snd' {A B} (g : A -> B) k l :
  afind k (map (fun kv => (fst kv, g (snd kv))) l) = option_map g (afind k l).
Proof.
  induction l as [|[k' v] l IH]; cbn [map afind fst snd option_map]; [reflexivity|].
  destruct (String.eqb k k'); [reflexivity|exact IH].
Qed.
Lemma keys_map_snd {A B} (g : A -> B) (l : list (string * A)) :
  map fst (map (fun kv => (fst kv, g (snd kv))) l) = map fst l.
Proof. rewrite map_map. reflexivity. Qed.

(* ------------------------------------------------------------------ candidates per path *)
Section Idx.
Variable Sh : nat -> path -> option shape.
Variable nl : nat.

Fixpoint dcut (p : path) (st : list nat) : list nat :=
  match st with
  | [] => []
  | i :: r => match Sh i p with
              | Some (SDir true) => [i]
              | Some (SDir false) => i :: dcut p r
              | _ => []
              end
  end.
Definition present (p : path) (i : nat) : bool := match Sh i p with Some _ => true | None => false end.
Definition kids (p : path) (st : list nat) (k : name) : list nat := filter (present (p ++ [k])) (dcut p st).
Fixpoint lstk (st : list nat) (p0 p : path) : list nat :=
  match p with [] => st | k :: r => lstk (kids p0 st k) (p0 ++ [k]) r end.
Definition lstack (p : path) : list nat := lstk (seq 0 (S nl)) [] p.

Lemma lstk_snoc p : forall st p0 k, lstk st p0 (p ++ [k]) = kids (p0 ++ p) (lstk st p0 p) k.
Proof.
  induction p as [|c p IH]; intros st p0 k; cbn [app lstk].
  - rewrite app_nil_r. reflexivity.
  - rewrite IH. rewrite <- app_assoc. reflexivity.
Qed.
Lemma lstack_snoc p k : lstack (p ++ [k]) = kids p (lstack p) k.
Proof. unfold lstack. rewrite lstk_snoc. reflexivity. Qed.

Lemma dcut_idem p st : dcut p (dcut p st) = dcut p st.
Proof.
  induction st as [|i r IH]; [reflexivity|]. cbn [dcut].
  destruct (Sh i p) as [[[|]|]|] eqn:E; cbn [dcut]; rewrite ?E; [reflexivity| |reflexivity|reflexivity].
  rewrite IH. reflexivity.
Qed.

Definition rgood (p : path) (r : real) : Prop :=
  r_path r = p /\ r_upper r = Nat.eqb (r_layer r) 0 /\
  match Sh (r_layer r) p with
  | Some (SDir o) => r_wh r = false /\ r_dir r = true /\ (r_opq r = true -> o = true)
  | Some (SNon w) => r_wh r = w /\ r_dir r = false /\ r_opq r = false
  | None => False
  end.
Fixpoint opq_ok (p : path) (rs : list real) : Prop :=
  match rs with
  | r :: ((_ :: _) as rest) => (Sh (r_layer r) p = Some (SDir true) -> r_opq r = true) /\ opq_ok p rest
  | _ => True
  end.
Definition first_wh (rs : list real) : bool := match rs with r :: _ => r_wh r | [] => false end.
Definition first_dir (rs : list real) : bool := match rs with r :: _ => r_dir r | [] => false end.

Record NodeOK (p : path) (n : node) : Prop := mkNodeOK {
  ok_reals : Forall (rgood p) (n_reals n);
  ok_ne : n_reals n <> [];
  ok_hd : hd_error (map r_layer (n_reals n)) = hd_error (lstack p);
  ok_cut : dcut p (map r_layer (n_reals n)) = dcut p (lstack p);
  ok_opq : opq_ok p (n_reals n);
  ok_wh : n_wh n = first_wh (n_reals n);
  ok_unl : n_loaded n = false -> n_ch n = [];
  ok_nodup : NoDup (map fst (n_ch n));
  ok_ld : n_loaded n = true ->
          n_wh n = false /\ first_dir (n_reals n) = true /\
          forall k, afind k (n_ch n) = None <-> kids p (lstack p) k = [];
  (* every backing inode after the first is a directory (new_from_real_inodes stops at anything else) *)
  ok_tl : Forall (fun r => r_dir r = true) (tl (n_reals n))
}.
(* a coherent subtree of the cache rooted at path p *)
Definition CohT (p : path) (n : node) : Prop := forall q m, nget q n = Some m -> NodeOK (p ++ q) m.

Lemma CohT_node p n : CohT p n -> NodeOK p n.
Proof. intros H. specialize (H [] n eq_refl). rewrite app_nil_r in H. exact H. Qed.
Lemma CohT_child p n k c : CohT p n -> afind k (n_ch n) = Some c -> CohT (p ++ [k]) c.
Proof.
  intros H Hk q m Hq. rewrite <- app_assoc. cbn [app]. apply H. cbn [nget]. rewrite Hk. exact Hq.
Qed.
Lemma CohT_intro p n : NodeOK p n -> (forall k c, afind k (n_ch n) = Some c -> CohT (p ++ [k]) c) -> CohT p n.
Proof.
  intros Hn Hc q m Hq. destruct q as [|k q]; cbn [nget] in Hq.
  - inversion Hq; subst. rewrite app_nil_r. exact Hn.
  - destruct (afind k (n_ch n)) as [c|] eqn:E; [|discriminate].
    specialize (Hc k c E q m Hq). rewrite <- app_assoc in Hc. exact Hc.
Qed.

(* the backing inodes scan_childrens actually reads, by the cached flags *)
Fixpoint scut (rs : list real) : list real :=
  match rs with
  | [] => []
  | r :: rest => if r_wh r then [] else if negb (r_dir r) then [] else if r_opq r then [r] else r :: scut rest
  end.
Lemma scut_dcut p rs : Forall (rgood p) rs -> opq_ok p rs -> map r_layer (scut rs) = dcut p (map r_layer rs).
Proof.
  induction rs as [|r rest IH]; intros Hg Ho; [reflexivity|].
  inversion Hg as [|? ? (Hp & Hu & Hs) Hg']; subst. cbn [scut map dcut].
  destruct (Sh (r_layer r) (r_path r)) as [[o|w]|] eqn:E; [| |contradiction].
  - destruct Hs as (Hw & Hd & Hq). rewrite Hw, Hd. cbn [negb].
    destruct (r_opq r) eqn:Eq.
    + rewrite (Hq eq_refl). reflexivity.
    + destruct o.
      * destruct rest as [|r2 rest2]; [reflexivity|]. cbn [opq_ok] in Ho. destruct Ho as [Ho _].
        rewrite (Ho E) in Eq. discriminate.
      * cbn [map]. f_equal. apply IH; [exact Hg'|]. destruct rest as [|r2 rest2]; [exact I|]. exact (proj2 Ho).
  - destruct Hs as (Hw & Hd & _). rewrite Hd. destruct (r_wh r); reflexivity.
Qed.
Lemma scut_dirs p rs : Forall (rgood p) rs ->
  Forall (fun r => rgood p r /\ exists o, Sh (r_layer r) p = Some (SDir o)) (scut rs).
Proof.
  induction rs as [|r rest IH]; intros Hg; [constructor|].
  inversion Hg as [|? ? Hr Hg']; subst. cbn [scut].
  destruct (r_wh r) eqn:Ew; [constructor|]. destruct (r_dir r) eqn:Ed; cbn [negb]; [|constructor].
  assert (Hs : exists o, Sh (r_layer r) p = Some (SDir o)).
  { destruct Hr as (_ & _ & Hs). destruct (Sh (r_layer r) p) as [[o|w]|]; [eauto| |contradiction].
    destruct Hs as (_ & Hd & _). congruence. }
  destruct (r_opq r); constructor; auto.
Qed.
End Idx.

(* ------------------------------------------------------------------ what scan_childrens builds *)
Lemma wf_tget t : wf t -> forall p c, tget t p = Some c -> wf c.
Proof.
  intros Hw p; revert t Hw. induction p as [|k p IH]; intros t Hw c H; cbn [tget] in H.
  - inversion H; subst; exact Hw.
  - destruct t; try discriminate. destruct (afind k ch) as [y|] eqn:E; [|discriminate].
    inversion Hw as [? ? ? Hn Hall| | |]; subst. apply (IH y); [|exact H].
    eapply (afind_Forall_snd (fun v => wf v)); eassumption.
Qed.

Section Scan2.
Variable s : state.
Hypothesis Hwf : forall i t, get_layer s i = Some t -> wf t.
Let Sh := shp s.

Lemma ent_wf i p t : ent s i p = Some t -> wf t.
Proof.
  unfold ent. destruct (get_layer s i) as [t0|] eqn:E; [|discriminate]. intros H.
  eapply wf_tget; [apply (Hwf i t0 E)|exact H].
Qed.
Lemma ent_child i p k : ent s i (p ++ [k]) =
  match ent s i p with Some (Dir _ _ ch) => afind k ch | _ => None end.
Proof. unfold ent. destruct (get_layer s i); [apply tget_app|reflexivity]. Qed.

Definition kreal (k : name) (r : real) : option real :=
  match real_tree s r with
  | Some (Dir _ _ ch) => match afind k ch with Some c => Some (child_real r k c) | None => None end
  | _ => None
  end.
Definition kreals (vis : list real) (k : name) : list real := filter_map (kreal k) vis.

Lemma fold_add_dir r ch : NoDup (map fst ch) -> forall acc k,
  afind k (fold_left add_entry (map (fun kv => (fst kv, child_real r (fst kv) (snd kv))) ch) acc) =
  match afind k ch with
  | Some c => Some (match afind k acc with Some a => a ++ [child_real r k c] | None => [child_real r k c] end)
  | None => afind k acc
  end.
Proof.
  induction ch as [|[k' c'] ch IH]; intros Hn acc k; cbn [map fold_left afind fst snd]; [reflexivity|].
  cbn [map fst] in Hn. inversion Hn as [|? ? Hnot Hn']; subst.
  rewrite (IH Hn'). unfold add_entry at 1 2. cbn [fst snd]. rewrite afind_aset.
  destruct (String.eqb k k') eqn:E.
  - apply String.eqb_eq in E; subst k'.
    assert (Hnone : afind k ch = None) by (apply afind_none_notin; exact Hnot).
    rewrite Hnone. reflexivity.
  - reflexivity.
Qed.

Lemma scan_char rs : forall acc,
  (forall r, In r (scut rs) -> exists m x ch, real_tree s r = Some (Dir m x ch) /\ NoDup (map fst ch)) ->
  exists all, scan_reals s rs acc = Ok all /\
    forall k, afind k all =
      match kreals (scut rs) k with
      | [] => afind k acc
      | l => Some (match afind k acc with Some a => a ++ l | None => l end)
      end.
Proof.
  induction rs as [|r rest IH]; intros acc Hd; cbn [scan_reals scut].
  - exists acc. split; [reflexivity|]. intros k. reflexivity.
  - destruct (r_wh r) eqn:Ew; [exists acc; split; [reflexivity|intros k; reflexivity]|].
    destruct (r_dir r) eqn:Edir; cbn [negb]; [|exists acc; split; [reflexivity|intros k; reflexivity]].
    cbn [scut] in Hd. rewrite Ew, Edir in Hd. cbn [negb] in Hd.
    assert (Hr : exists m x ch, real_tree s r = Some (Dir m x ch) /\ NoDup (map fst ch)).
    { apply Hd. destruct (r_opq r); left; reflexivity. }
    destruct Hr as (m & x & ch & Hrt & Hnd).
    unfold readdir_real. rewrite Ew, Edir, Hrt. cbn [negb].
    set (acc' := fold_left add_entry (map (fun kv => (fst kv, child_real r (fst kv) (snd kv))) ch) acc).
    assert (Hacc' : forall k, afind k acc' = match afind k ch with
              | Some c => Some (match afind k acc with Some a => a ++ [child_real r k c] | None => [child_real r k c] end)
              | None => afind k acc end) by (intros k; apply fold_add_dir; exact Hnd).
    destruct (r_opq r) eqn:Eo.
    + exists acc'. split; [reflexivity|]. intros k. rewrite Hacc'. unfold kreals. cbn [filter_map]. unfold kreal at 1.
      rewrite Hrt. destruct (afind k ch); reflexivity.
    + destruct (IH acc') as (all & Hall & Hk).
      { intros r' Hin. apply Hd. right; exact Hin. }
      exists all. split; [exact Hall|]. intros k. rewrite Hk, Hacc'. unfold kreals. cbn [filter_map].
      unfold kreal at 2. rewrite Hrt. fold (kreals (scut rest) k).
      destruct (afind k ch) as [c|]; [|reflexivity].
      destruct (kreals (scut rest) k) as [|y l]; [reflexivity|].
      destruct (afind k acc); cbn [app]; rewrite <- ?app_assoc; reflexivity.
Qed.

(* backing inodes whose cached flags are exactly what the disk says *)
Definition rexact (p : path) (r : real) : Prop :=
  rgood Sh p r /\ (Sh (r_layer r) p = Some (SDir true) -> r_opq r = true).

Lemma kreal_exact p k r c : rgood Sh p r -> kreal k r = Some c ->
  rexact (p ++ [k]) c /\ r_layer c = r_layer r /\ present Sh (p ++ [k]) (r_layer r) = true.
Proof.
  intros (Hp & Hu & _) H. unfold kreal in H. rewrite real_tree_ent, Hp in H.
  destruct (ent s (r_layer r) p) as [[m x ch| | |]|] eqn:E; try discriminate.
  destruct (afind k ch) as [y|] eqn:Ek; [|discriminate]. inversion H; subst c; clear H.
  assert (He : ent s (r_layer r) (p ++ [k]) = Some y) by (rewrite ent_child, E; exact Ek).
  unfold rexact, rgood, present, child_real, Sh, shp; cbn [r_path r_layer r_upper r_wh r_dir r_opq].
  rewrite He, Hp. cbn [option_map]. repeat split; auto.
  - destruct y; cbn; repeat split; auto.
  - destruct y; cbn; try discriminate. intros H; inversion H. reflexivity.
Qed.
Lemma kreal_none p k r : rgood Sh p r -> (exists o, Sh (r_layer r) p = Some (SDir o)) -> kreal k r = None ->
  present Sh (p ++ [k]) (r_layer r) = false.
Proof.
  intros (Hp & _) [o Ho] H. unfold kreal in H. rewrite real_tree_ent, Hp in H.
  unfold present, Sh, shp in *. rewrite ent_child.
  destruct (ent s (r_layer r) p) as [[m x ch| | |]|]; try reflexivity.
  destruct (afind k ch); [discriminate|reflexivity].
Qed.
Lemma kreals_layers p k vis :
  Forall (fun r => rgood Sh p r /\ exists o, Sh (r_layer r) p = Some (SDir o)) vis ->
  map r_layer (kreals vis k) = filter (present Sh (p ++ [k])) (map r_layer vis) /\
  Forall (rexact (p ++ [k])) (kreals vis k).
Proof.
  induction 1 as [|r vis [Hg Hd] H [IH1 IH2]]; cbn [kreals filter_map map filter]; [split; [reflexivity|constructor]|].
  fold (kreals vis k). destruct (kreal k r) as [c|] eqn:E.
  - destruct (kreal_exact p k r c Hg E) as (A & B & C). rewrite C. cbn [map]. rewrite B, IH1.
    split; [reflexivity|constructor; assumption].
  - rewrite (kreal_none p k r Hg Hd E). split; assumption.
Qed.

Lemma exact_opq_ok p rs : Forall (rexact p) rs -> opq_ok Sh p rs.
Proof.
  induction 1 as [|r rs [_ H] Hrs IH]; [exact I|]. destruct rs as [|r2 rs]; [exact I|]. split; assumption.
Qed.
Lemma take_lowers_exact p rs : Forall (rexact p) rs ->
  Forall (rexact p) (take_lowers rs) /\ dcut Sh p (map r_layer (take_lowers rs)) = dcut Sh p (map r_layer rs).
Proof.
  induction 1 as [|q rs Hq Hrs [IH1 IH2]]; cbn [take_lowers map dcut]; [split; [constructor|reflexivity]|].
  pose proof Hq as [(Hp & Hu & Hs) Hx].
  destruct (Sh (r_layer q) p) as [[o|w]|] eqn:E; [| |contradiction].
  - destruct Hs as (Hw & Hd & Ho). rewrite Hw, Hd. cbn [negb]. destruct o.
    + rewrite (Hx eq_refl). cbn [map dcut]. rewrite E. split; [|reflexivity].
      constructor; [exact Hq|constructor].
    + destruct (r_opq q) eqn:Eq; [specialize (Ho eq_refl); discriminate|].
      cbn [map dcut]. rewrite E, IH2. split; [|reflexivity].
      constructor; [exact Hq|exact IH1].
  - destruct Hs as (Hw & Hd & _). rewrite Hd. destruct (r_wh q); cbn [negb map dcut]; split; try constructor; reflexivity.
Qed.

Lemma take_lowers_dirs rs : Forall (fun r => r_dir r = true) (take_lowers rs).
Proof.
  induction rs as [|q rs IH]; cbn [take_lowers]; [constructor|].
  destruct (r_wh q); [constructor|]. destruct (r_dir q) eqn:E; cbn [negb]; [|constructor].
  destruct (r_opq q); constructor; auto.
Qed.
(* a freshly scanned child is coherent *)
Lemma new_from_reals_ok2 nl p l :
  l <> [] -> Forall (rexact p) l -> map r_layer l = lstack Sh nl p -> NodeOK Sh nl p (new_from_reals l).
Proof.
  intros Hne Hex Hl. destruct l as [|r rest]; [contradiction|]. clear Hne.
  inversion Hex as [|? ? Hr Hrest]; subst.
  destruct (take_lowers_exact p rest Hrest) as [T1 T2].
  pose proof Hr as [(Hp & Hu & Hs) Hx].
  unfold new_from_reals.
  assert (Hcase : (r_wh r || negb (r_dir r) || r_opq r = true /\
                   dcut Sh p (map r_layer [r]) = dcut Sh p (map r_layer (r :: rest))) \/
                  (r_wh r || negb (r_dir r) || r_opq r = false /\
                   dcut Sh p (map r_layer (r :: take_lowers rest)) = dcut Sh p (map r_layer (r :: rest)))).
  { cbn [map dcut]. destruct (Sh (r_layer r) p) as [[o|w]|] eqn:E; [| |contradiction].
    - destruct Hs as (Hw & Hd & Ho). rewrite Hw, Hd. cbn [negb orb]. destruct o.
      + left. rewrite (Hx eq_refl). auto.
      + destruct (r_opq r) eqn:Eq; [specialize (Ho eq_refl); discriminate|]. right. rewrite T2. auto.
    - destruct Hs as (Hw & Hd & _). rewrite Hd. left. cbn [negb]. rewrite orb_true_r. auto. }
  destruct Hcase as [[Hc Hcut]|[Hc Hcut]]; rewrite Hc.
  - constructor; cbn [n_reals n_wh n_loaded n_ch first_wh].
    + constructor; [apply Hr|constructor].
    + discriminate.
    + rewrite <- Hl. reflexivity.
    + rewrite <- Hl. exact Hcut.
    + exact I.
    + reflexivity.
    + reflexivity.
    + constructor.
    + discriminate.
    + constructor.
  - constructor; cbn [n_reals n_wh n_loaded n_ch first_wh].
    + constructor; [apply Hr|]. eapply Forall_impl; [|exact T1]. intros a [Ha _]; exact Ha.
    + discriminate.
    + rewrite <- Hl. reflexivity.
    + rewrite <- Hl. exact Hcut.
    + apply exact_opq_ok. constructor; assumption.
    + reflexivity.
    + reflexivity.
    + constructor.
    + discriminate.
    + cbn [tl]. apply take_lowers_dirs.
Qed.
End Scan2.

(* ------------------------------------------------------------------ load_directory keeps a subtree coherent *)
Section Load.
Variable s : state.
Hypothesis Hwf : forall i t, get_layer s i = Some t -> wf t.
Variable nl : nat.
Let Sh := shp s.

Lemma shp_dir i p o : Sh i p = Some (SDir o) -> exists m x ch, ent s i p = Some (Dir m x ch) /\ xs_opaque x = o.
Proof.
  unfold Sh, shp. destruct (ent s i p) as [[m x ch| | |]|]; cbn; try discriminate.
  intros H; inversion H. eauto.
Qed.

Lemma first_good_stat p n : NodeOK Sh nl p n ->
  exists r rs t, n_reals n = r :: rs /\ ent s (r_layer r) p = Some t /\ node_stat s n = Some t /\
                 r_wh r = is_whT t /\ r_dir r = is_dirT t /\ r_path r = p.
Proof.
  intros N. pose proof (ok_reals _ _ _ _ N) as Hg. pose proof (ok_ne _ _ _ _ N) as Hne.
  destruct (n_reals n) as [|r rs] eqn:E; [contradiction|]. inversion Hg as [|? ? (Hp & Hu & Hs) _]; subst.
  unfold Sh, shp in Hs. destruct (ent s (r_layer r) (r_path r)) as [t|] eqn:Et; cbn [option_map] in Hs; [|contradiction].
  exists r, rs, t. repeat split; auto.
  - unfold node_stat. rewrite E. cbn [map first_some]. rewrite real_tree_ent, Et. reflexivity.
  - destruct t; cbn in *; tauto.
  - destruct t; cbn in *; tauto.
Qed.

Lemma load1_CohT p n : CohT Sh nl p n -> CohT Sh nl p (load1 s n).
Proof.
  intros HC. pose proof (CohT_node _ _ _ _ HC) as N. unfold load1.
  destruct (n_loaded n) eqn:El; [exact HC|].
  destruct (scan_children s n) as [cs|e] eqn:Esc; [|exact HC].
  destruct (first_good_stat p n N) as (r1 & rs1 & t1 & Er & Et1 & Hst & Hw1 & Hd1 & Hp1).
  unfold scan_children in Esc. rewrite Hst in Esc.
  destruct (is_dirT t1) eqn:Edir; cbn [negb] in Esc; [|discriminate].
  pose proof (scut_dirs Sh p (n_reals n) (ok_reals _ _ _ _ N)) as Hvis.
  destruct (scan_char s (n_reals n) []) as (all & Hall & Hk).
  { intros r Hin. rewrite Forall_forall in Hvis. destruct (Hvis r Hin) as [(Hp & _) [o Ho]].
    destruct (shp_dir _ _ _ Ho) as (m & x & ch & He & _). exists m, x, ch. rewrite real_tree_ent, Hp. split; [exact He|].
    pose proof (ent_wf s Hwf _ _ _ He) as W. inversion W; assumption. }
  rewrite Hall in Esc. inversion Esc; subst cs; clear Esc.
  assert (Hkeys : NoDup (map fst all)) by (eapply keys_scan; [|exact Hall]; constructor).
  assert (Hkid : forall k, map r_layer (kreals s (scut (n_reals n)) k) = kids Sh p (lstack Sh nl p) k /\
                           Forall (rexact s (p ++ [k])) (kreals s (scut (n_reals n)) k)).
  { intros k. destruct (kreals_layers s p k _ Hvis) as [A B]. split; [|exact B].
    rewrite A, (scut_dcut Sh p _ (ok_reals _ _ _ _ N) (ok_opq _ _ _ _ N)), (ok_cut _ _ _ _ N). reflexivity. }
  assert (Hch : n_ch (set_loaded (map (fun kv => (fst kv, new_from_reals (snd kv))) all) n) =
                map (fun kv => (fst kv, new_from_reals (snd kv))) all).
  { unfold set_loaded; cbn [n_ch]. rewrite (ok_unl _ _ _ _ N El).
    rewrite (fold_aset_nodup _ []); [reflexivity|]. cbn [app]. rewrite keys_map_snd. exact Hkeys. }
  assert (Hfind : forall k, afind k (map (fun kv => (fst kv, new_from_reals (snd kv))) all) =
            match kreals s (scut (n_reals n)) k with [] => None | l => Some (new_from_reals l) end).
  { intros k. rewrite afind_map_snd', Hk. cbn [afind]. destruct (kreals s (scut (n_reals n)) k); reflexivity. }
  set (n' := set_loaded (map (fun kv => (fst kv, new_from_reals (snd kv))) all) n) in *.
  assert (Hr' : n_reals n' = n_reals n) by reflexivity.
  assert (Hw' : n_wh n' = n_wh n) by reflexivity.
  assert (Hl' : n_loaded n' = true) by reflexivity.
  apply CohT_intro.
  - constructor; rewrite ?Hr', ?Hw', ?Hl'; try apply N.
    + discriminate.
    + rewrite Hch, keys_map_snd. exact Hkeys.
    + intros _. rewrite (ok_wh _ _ _ _ N), Er. cbn [first_wh first_dir]. rewrite Hw1, Hd1, ?Edir.
      split; [destruct t1; try discriminate; reflexivity|]. split; [reflexivity|].
      intros k. rewrite Hch, Hfind. destruct (Hkid k) as [A _]. rewrite <- A.
      destruct (kreals s (scut (n_reals n)) k); cbn [map]; split; intros H; try reflexivity; discriminate.
  - intros k c Hc. rewrite Hch, Hfind in Hc. destruct (Hkid k) as [A B].
    destruct (kreals s (scut (n_reals n)) k) as [|y l] eqn:Ek; [discriminate|]. inversion Hc; subst c; clear Hc.
    apply CohT_intro.
    + apply (new_from_reals_ok2 s nl (p ++ [k]) (y :: l)); [discriminate|exact B|].
      rewrite A. symmetry. apply lstack_snoc.
    + intros k' c' Hc'. unfold new_from_reals in Hc'.
      destruct (r_wh y || negb (r_dir y) || r_opq y); cbn [n_ch afind] in Hc'; discriminate.
Qed.
End Load.

(* ------------------------------------------------------------------ the state invariant *)
Definition wf_layers (s : state) : Prop := forall i t, get_layer s i = Some t -> layer_ok t.
Lemma wf_layers_wf s : wf_layers s -> forall i t, get_layer s i = Some t -> wf t.
Proof. intros H i t Hg. exact (proj1 (H i t Hg)). Qed.
Definition Coherent (s : state) : Prop :=
  (exists u, upper s = Some u) /\ wf_layers s /\ CohT (shp s) (List.length (lowers s)) [] (root s).

Lemma shp_ext s s' : same_layers s s' -> shp s = shp s'.
Proof.
  intros [A B]. unfold shp, ent, get_layer. rewrite A, B. reflexivity.
Qed.

(* NodeOK looks at a node only through its backing inodes, flags and child names *)
Lemma NodeOK_shape Sh nl p n n' :
  n_reals n' = n_reals n -> n_wh n' = n_wh n -> n_loaded n' = n_loaded n ->
  map fst (n_ch n') = map fst (n_ch n) -> NodeOK Sh nl p n -> NodeOK Sh nl p n'.
Proof.
  intros Hr Hw Hl Hk N.
  assert (Hnone : forall k, afind k (n_ch n') = None <-> afind k (n_ch n) = None).
  { intros k. split; intros H; apply afind_none_notin; apply afind_none_notin in H; intros Hin; apply H.
    - unfold name in *. rewrite Hk. exact Hin.
    - unfold name in *. rewrite <- Hk. exact Hin. }
  constructor.
  - rewrite Hr. apply N.
  - rewrite Hr. apply N.
  - rewrite Hr. apply N.
  - rewrite Hr. apply N.
  - rewrite Hr. apply N.
  - rewrite Hr, Hw. apply N.
  - rewrite Hl. intros H. pose proof (ok_unl _ _ _ _ N H) as E. rewrite E in Hk. destruct (n_ch n'); [reflexivity|discriminate].
  - rewrite Hk. apply N.
  - rewrite Hl, Hw, Hr. intros H. destruct (ok_ld _ _ _ _ N H) as (A & B & C). split; [exact A|]. split; [exact B|].
    intros k. rewrite Hnone. apply C.
  - rewrite Hr. apply N.
Qed.
Lemma afind_amap_other {A} k c (f : A -> A) l : String.eqb c k = false -> afind k (amap c f l) = afind k l.
Proof.
  intros H. unfold amap. induction l as [|[a x] l IH]; cbn [map afind fst snd]; [reflexivity|].
  destruct (String.eqb c a) eqn:E; cbn [afind fst snd].
  - apply String.eqb_eq in E; subst a. rewrite String.eqb_sym in H. rewrite H. exact IH.
  - destruct (String.eqb k a); [reflexivity|exact IH].
Qed.
Lemma keys_amap {A} c (f : A -> A) l : map fst (amap c f l) = map fst l.
Proof.
  unfold amap. induction l as [|[a x] l IH]; cbn [map fst]; [reflexivity|].
  destruct (String.eqb c a); cbn [fst]; rewrite IH; reflexivity.
Qed.
Lemma CohT_nupd Sh nl p g : forall q r,
  CohT Sh nl q r -> (forall m, CohT Sh nl (q ++ p) m -> CohT Sh nl (q ++ p) (g m)) ->
  CohT Sh nl q (nupd p g r).
Proof.
  induction p as [|c p IH]; intros q r HC Hg; cbn [nupd].
  - rewrite app_nil_r in Hg. apply Hg. exact HC.
  - apply CohT_intro.
    + eapply NodeOK_shape; [| | | |apply (CohT_node _ _ _ _ HC)]; cbn [n_reals n_wh n_loaded n_ch]; try reflexivity.
      apply keys_amap.
    + intros k c' Hk. cbn [n_ch] in Hk. destruct (String.eqb c k) eqn:E.
      * apply String.eqb_eq in E; subst k. rewrite afind_amap in Hk.
        destruct (afind c (n_ch r)) as [c0|] eqn:E0; cbn [option_map] in Hk; [|discriminate].
        inversion Hk; subst c'. apply IH; [eapply CohT_child; eassumption|].
        intros m Hm. rewrite <- app_assoc in *. cbn [app] in *. apply Hg. exact Hm.
      * rewrite (afind_amap_other _ _ _ _ E) in Hk. eapply CohT_child; eassumption.
Qed.

Lemma layers_of_mod s p f : same_layers (snd (mod_node p f s)) s.
Proof. split; reflexivity. Qed.

(* loading a directory keeps the state coherent *)
Lemma load_dir_coherent p s : Coherent s -> Coherent (snd (load_dir p s)).
Proof.
  intros (Hu & Hw & HC). unfold load_dir, bind, get_node.
  destruct (nget p (root s)) as [n|]; cbn [snd]; [|exact (conj Hu (conj Hw HC))].
  destruct (n_loaded n); cbn [ret snd]; [exact (conj Hu (conj Hw HC))|].
  destruct (scan_children s n); cbn [snd]; [|exact (conj Hu (conj Hw HC))].
  unfold mod_node; cbn [snd]. split; [exact Hu|]. split; [exact Hw|]. cbn [root lowers].
  change (shp (mkState (upper s) (lowers s) (nupd p (load1 s) (root s)) (next_ino s) (log s))) with (shp s).
  apply CohT_nupd; [exact HC|]. intros m Hm. apply load1_CohT; [apply wf_layers_wf; exact Hw|exact Hm].
Qed.

(* a freshly imported overlay is coherent *)
Lemma root_real_exact s k up t :
  get_layer s k = Some t -> is_dirT t = true -> up = Nat.eqb k 0 -> rexact s [] (root_real k up t).
Proof.
  intros Hg Hd Hu. unfold rexact, rgood, root_real, shp, ent; cbn. rewrite Hg. cbn.
  destruct t; try discriminate. cbn. repeat split; auto. intros H; inversion H; reflexivity.
Qed.
Lemma lower_reals_exact u ls nx : forall l j,
  (forall i t, nth_error l i = Some t -> nth_error ls (j + i) = Some t) -> Forall layer_ok l ->
  Forall (rexact (fresh0 u ls nx) []) (lower_reals (S j) l) /\
  map r_layer (lower_reals (S j) l) = seq (S j) (List.length l).
Proof.
  induction l as [|t l IH]; intros j Hn Hok; cbn [lower_reals map seq List.length]; [split; [constructor|reflexivity]|].
  inversion Hok as [|? ? [Hw Hd] Hok']; subst.
  destruct (IH (S j)) as [A B]; [|assumption|].
  { intros i t' Hi. specialize (Hn (S i) t' Hi). replace (S j + i)%nat with (j + S i)%nat by lia. exact Hn. }
  split; [constructor; [|exact A]|cbn [root_real r_layer]; rewrite B; reflexivity].
  apply root_real_exact; [|exact Hd|reflexivity]. cbn [get_layer fresh0 lowers].
  specialize (Hn 0%nat t eq_refl). rewrite Nat.add_0_r in Hn. exact Hn.
Qed.
Theorem fresh_coherent u ls nx : Forall layer_ok (u :: ls) -> Coherent (fresh (Some u) ls nx).
Proof.
  intros Hok. set (s0 := fresh0 (Some u) ls nx).
  assert (H0 : Coherent s0).
  { split; [exists u; reflexivity|]. split.
    - intros i t Hg. rewrite Forall_forall in Hok. destruct i as [|j]; cbn in Hg.
      + inversion Hg; subst. apply Hok. left; reflexivity.
      + apply Hok. right. eapply nth_error_In; exact Hg.
    - inversion Hok as [|? ? [Hwu Hdu] Hls]; subst.
      destruct (lower_reals_exact (Some u) ls nx ls 0 (fun i t H => H) Hls) as [A B].
      assert (Hex : Forall (rexact s0 []) (root_real 0 true u :: lower_reals 1 ls)).
      { constructor; [|exact A]. apply root_real_exact; [reflexivity|exact Hdu|reflexivity]. }
      apply CohT_intro; [|intros k c Hc; discriminate].
      cbn [lowers s0 fresh0 root].
      constructor; cbn [n_reals n_wh n_loaded n_ch app first_wh root_real r_wh]; try reflexivity.
      + eapply Forall_impl; [|exact Hex]. intros a [Ha _]; exact Ha.
      + discriminate.
      + unfold lstack. cbn [lstk]. cbn [map r_layer root_real]. rewrite B. reflexivity.
      + apply exact_opq_ok. exact Hex.
      + constructor.
      + discriminate.
      + cbn [tl]. clear - Hls. generalize 1%nat. induction ls as [|t l IH]; intros j; cbn [lower_reals]; [constructor|].
        inversion Hls as [|? ? [_ Hd] Hl']; subst. constructor; [exact Hd|apply IH; exact Hl']. }
  exact (load_dir_coherent [] s0 H0).
Qed.
