(* Per-operation refinement, failing operations: an operation whose path (for the directory operations: the parent's path,
   for link: the source's path) is not visible answers ENOENT, as the ordinary file system does, and changes nothing.
   A path is visible ([visb]) when every component is found through a directory of the union and is not hidden by a whiteout. *)
From Coq Require Import List String Arith NArith Bool Lia.
From FB Require Import Model.Overlay Proofs.OverlayInv Proofs.OverlayScan Proofs.OverlayRestart
  Proofs.OverlayReadOnly Proofs.OverlayCoh Proofs.OverlayCohView Proofs.OverlayCopyUp Proofs.OverlayCohOps
  Proofs.OverlayCohSteps Proofs.OverlayRefineTeq Proofs.OverlayRefineMerge Proofs.OverlayRefineRun Proofs.OverlayRefine
  Proofs.OverlayRefineWh Proofs.OverlayRefineCu.
Import ListNotations.
Local Open Scope N_scope.

(* ------------------------------------------------------------------ the union has nothing at an invisible path *)
Fixpoint vis_rel (es : list tree) (p : path) : bool :=
  match p with
  | [] => true
  | c :: p' =>
      match es with Dir _ _ _ :: _ => true | _ => false end &&
      match ents c (dir_stack es) with t :: _ => negb (is_whT t) | [] => false end && vis_rel (ents c (dir_stack es)) p'
  end.
Lemma visb_vis_rel L : forall (p cur : path), visb L cur p = vis_rel (mstack L cur) p.
Proof.
  induction p as [|c p IH]; intros cur; cbn [visb vis_rel]; [reflexivity|]. rewrite (IH (cur ++ [c])), mstack_snoc. reflexivity.
Qed.
Lemma tget_invisible : forall (p : path) f es r, Forall wf es -> resolve f es = Some r -> vis_rel es p = false -> tget r p = None.
Proof.
  induction p as [|c p IH]; intros f es r W Hr Hv; cbn [vis_rel] in Hv; [discriminate|].
  destruct f as [|f]; [discriminate|]. destruct es as [|e es]; [discriminate|].
  destruct e as [m x ch|i m d x|tg|]; try (cbn [resolve hide_xs] in Hr; inversion Hr; subst; reflexivity).
  destruct (resolve_dir_spec f m x ch es W) as (chs & E & N & K). rewrite E in Hr. inversion Hr; subst r. cbn [tget]. rewrite K.
  cbn [andb] in Hv. set (g := ents c (dir_stack (Dir m x ch :: es))) in *.
  destruct (resolve f g) as [r'|] eqn:Er; [|reflexivity].
  apply (IH f g r'); [apply ents_wf; apply dir_stack_wf; exact W|exact Er|].
  destruct g as [|t g']; [destruct f; discriminate|]. destruct (is_whT t) eqn:Ew; [destruct t; try discriminate; destruct f; discriminate|].
  cbn [negb andb] in Hv. exact Hv.
Qed.
Lemma merge_invisible u ls (p : path) mv : Forall wf (u :: ls) -> merge (u :: ls) = Some mv -> visb (u :: ls) [] p = false -> tget mv p = None.
Proof. intros W Hm Hv. rewrite visb_vis_rel in Hv. exact (tget_invisible p DEPTH (u :: ls) mv W Hm Hv). Qed.

(* ------------------------------------------------------------------ the walk fails with ENOENT *)
Lemma do_lookup_fail (cur : path) (c : name) s u n0 t r0 :
  Coherent s -> upper s = Some u -> nget cur (root s) = Some n0 -> mstack (u :: lowers s) cur = t :: r0 -> is_whT t = false ->
  match t with Dir _ _ _ => true | _ => false end &&
  match mstack (u :: lowers s) (cur ++ [c]) with t' :: _ => negb (is_whT t') | [] => false end = false ->
  exists s1, do_lookup cur (Some c) s = (Err ENOENT, s1) /\ Coherent s1 /\ sd s s1.
Proof.
  intros HC Hu Hg Hms Hw Hv.
  pose proof (node_stat_head s u cur n0 _ _ HC Hu Hg Hms) as Hst.
  destruct (node_first_real s cur n0 HC Hg) as (r1 & rs1 & t1 & _ & _ & Hst1 & _ & _ & _ & _ & Hwn). rewrite Hst in Hst1. inversion Hst1; subst t1. rewrite Hw in Hwn.
  destruct (lookup_run cur s n0 HC Hg Hwn) as (s1 & pn1 & HC1 & Hsd1 & Hg1 & Hw1 & Hr1 & Hld1 & Hlk).
  pose proof Hsd1 as (U1 & L1 & _). assert (Hu1 : upper s1 = Some u) by congruence.
  assert (Hst1' : node_stat s1 pn1 = Some t) by (apply (node_stat_head s1 u cur pn1 _ r0 HC1 Hu1 Hg1); rewrite L1; exact Hms).
  unfold do_lookup. specialize (Hlk (Some c)). cbn beta iota in Hlk.
  destruct (afind c (n_ch pn1)) as [c0|] eqn:Ec.
  2:{ exists s1. rewrite (bind_err _ _ _ _ _ Hlk). auto. }
  (* the child is cached: the parent is a loaded directory and the child's first candidate is a whiteout *)
  pose proof HC1 as (_ & _ & HCT1). pose proof (HCT1 cur pn1 Hg1) as N1. cbn [app] in N1.
  assert (Hdir : is_dirT t = true).
  { destruct (is_dirT t) eqn:Ed; [reflexivity|]. destruct (unloaded_nondir s1 cur pn1 t N1 Hst1' Ed) as [_ Hnc]. rewrite Hnc in Ec. discriminate. }
  destruct t as [m x ch| | |]; try discriminate. cbn [andb] in Hv.
  assert (Hld : n_loaded pn1 = true). { destruct (n_loaded pn1) eqn:El; [reflexivity|]. rewrite (ok_unl _ _ _ _ N1 El) in Ec. discriminate. }
  destruct (ok_ld _ _ _ _ N1 Hld) as (_ & _ & Kids).
  pose proof (nget_snoc cur c (root s1) pn1 c0 Hg1 Ec) as Hgq.
  destruct (mstack (u :: lowers s) (cur ++ [c])) as [|t' r'] eqn:Hmc.
  { exfalso. assert (H : afind c (n_ch pn1) = None); [|congruence]. apply Kids. apply (kids_nil_of_mstack s1 u cur c Hu1). rewrite L1. exact Hmc. }
  apply negb_false_iff in Hv.
  destruct (lstack_head_rel s1 u (cur ++ [c]) t' r' Hu1) as (i0 & irest & Hl & He); [rewrite L1; exact Hmc|].
  destruct (cand_node s1 _ c0 i0 irest t' HC1 Hgq Hl He) as (cr & crs & _ & _ & _ & _ & _ & Hwc & _).
  exists s1. rewrite (bind_ok _ _ _ _ _ Hlk), (bind_ok _ _ _ _ _ (get_node_ok _ s1 c0 Hgq)), Hwc, Hv. auto.
Qed.

Lemma walk_fail u : forall (p cur : path) s n0 t r0, Coherent s -> upper s = Some u -> nget cur (root s) = Some n0 ->
  mstack (u :: lowers s) cur = t :: r0 -> is_whT t = false -> visb (u :: lowers s) cur p = false ->
  exists s1, walk_from cur p s = (Err ENOENT, s1) /\ Coherent s1 /\ sd s s1.
Proof.
  induction p as [|c p IH]; intros cur s n0 t r0 HC Hu Hg Hms Hw Hv; cbn [visb] in Hv; [discriminate|]. cbn [walk_from].
  rewrite Hms in Hv.
  destruct (match t with Dir _ _ _ => true | _ => false end &&
            match mstack (u :: lowers s) (cur ++ [c]) with t' :: _ => negb (is_whT t') | [] => false end) eqn:Estep.
  - (* this step succeeds, a later one fails *)
    cbn [andb] in Hv. apply andb_prop in Estep. destruct Estep as [Ed Ec]. destruct t as [m x ch| | |]; try discriminate.
    destruct (mstack (u :: lowers s) (cur ++ [c])) as [|t' r'] eqn:Hmc; [discriminate|]. apply negb_true_iff in Ec.
    pose proof (node_stat_head s u cur n0 _ _ HC Hu Hg Hms) as Hst.
    destruct (do_lookup_vis_run cur c s u n0 m x ch t' r' HC Hu Hg Hst Hmc Ec) as (s2 & n & E & HC2 & Hsd2 & Hn).
    rewrite (bind_ok _ _ _ _ _ E). pose proof Hsd2 as (U2 & L2 & _). assert (Hu2 : upper s2 = Some u) by congruence.
    destruct (IH (cur ++ [c]) s2 n t' r' HC2 Hu2 Hn) as (s3 & E3 & HC3 & Hsd3); try (rewrite L2; assumption); [exact Ec|].
    exists s3. split; [exact E3|]. split; [exact HC3|exact (sd_trans _ _ _ Hsd2 Hsd3)].
  - destruct (do_lookup_fail cur c s u n0 t r0 HC Hu Hg Hms Hw Estep) as (s1 & E & HC1 & Hsd1).
    exists s1. rewrite (bind_err _ _ _ _ _ E). auto.
Qed.

(* ------------------------------------------------------------------ the operations *)
(* the path an operation walks first *)
Definition op_main_path (o : op) : option path :=
  match o with
  | OLookup p | OCreate p _ | OMkdir p _ | OMknod p _ | OSymlink p _ | OUnlink p | ORmdir p => option_map fst (split_last p)
  | OLink src dst => match split_last dst with Some _ => Some src | None => None end
  | ORename a b => match split_last b with Some _ => option_map fst (split_last a) | None => None end
  | OGetattr p | OReaddir p | ORead p _ _ | OReadlink p | OOpen p _ | OWrite p _ _ | OChmod p _ | OTruncate p _
  | OSetxattr p _ _ | OGetxattr p _ | OListxattr p | ORemovexattr p _ => Some p
  end.
Lemma step_starts_with_walk o q : op_main_path o = Some q -> exists k : M string, forall s, step o s = (walk q ;;; k) s.
Proof.
  assert (Hwp : forall A p (f : path -> name -> M A) q, option_map fst (split_last p) = Some q -> exists k : M A, forall s, with_parent p f s = (walk q ;;; k) s).
  { intros A p f q0 H. unfold with_parent. destruct (split_last p) as [[pp nm]|]; [|discriminate]. cbn in H. inversion H; subst. eauto. }
  destruct o; cbn [op_main_path step]; intros H; try (apply Hwp; exact H); try (inversion H; subst; eauto; fail).
  - destruct (split_last dst); [|discriminate]. inversion H; subst. eauto.
  - destruct (split_last b); [|discriminate]. apply Hwp. exact H.
Qed.
Lemma tget_none_ext t (q r : path) : tget t q = None -> tget t (q ++ r) = None.
Proof. apply tget_none_app. Qed.
Lemma fs_apply_enoent o q v n : op_main_path o = Some q -> tget v q = None -> fs_apply o (mkFs v n) = (Err ENOENT, mkFs v n).
Proof.
  intros Ho Hq.
  assert (Hsp : forall p, option_map fst (split_last p) = Some q -> exists nm, split_last p = Some (q, nm) /\ tget v p = None).
  { intros p H. destruct (split_last p) as [[pp nm]|] eqn:E; [|discriminate]. cbn in H. inversion H; subst pp. exists nm. split; [reflexivity|].
    rewrite (split_last_spec _ _ _ E). apply tget_none_app. exact Hq. }
  destruct o; cbn [op_main_path] in Ho; cbn [fs_apply f_tree].
  - destruct (Hsp _ Ho) as (nm & _ & Hp). rewrite Hp. reflexivity.
  - inversion Ho; subst. rewrite Hq. reflexivity.
  - inversion Ho; subst. rewrite Hq. reflexivity.
  - inversion Ho; subst. rewrite Hq. reflexivity.
  - inversion Ho; subst. rewrite Hq. reflexivity.
  - destruct (Hsp _ Ho) as (nm & -> & _). unfold fs_mut, h_create, h_insert. cbn [f_tree]. rewrite Hq. reflexivity.
  - destruct (Hsp _ Ho) as (nm & -> & _). unfold fs_mut, h_mkdir, h_insert. cbn [f_tree]. rewrite Hq. reflexivity.
  - destruct (Hsp _ Ho) as (nm & -> & _). unfold fs_mut, h_create, h_insert. cbn [f_tree]. rewrite Hq. reflexivity.
  - destruct (Hsp _ Ho) as (nm & -> & _). unfold fs_mut, h_symlink, h_insert. cbn [f_tree]. rewrite Hq. reflexivity.
  - destruct (split_last dst) as [[pp nm]|]; [|discriminate]. inversion Ho; subst. unfold fs_mut, h_link. cbn [f_tree]. rewrite Hq. reflexivity.
  - destruct (Hsp _ Ho) as (nm & -> & _). unfold fs_mut, h_unlink. cbn [f_tree]. rewrite Hq. reflexivity.
  - destruct (Hsp _ Ho) as (nm & -> & _). unfold fs_mut, h_rmdir. cbn [f_tree]. rewrite Hq. reflexivity.
  - destruct (split_last b) as [[pb nb]|]; [|discriminate]. destruct (Hsp _ Ho) as (nm & -> & _). rewrite Hq. reflexivity.
  - inversion Ho; subst. rewrite Hq. reflexivity.
  - inversion Ho; subst. unfold fs_mut, h_setdata. cbn [f_tree]. rewrite Hq. reflexivity.
  - inversion Ho; subst. unfold fs_mut, h_chmod, h_update. cbn [f_tree]. rewrite Hq. reflexivity.
  - inversion Ho; subst. unfold fs_mut, h_setdata. cbn [f_tree]. rewrite Hq. reflexivity.
  - inversion Ho; subst. unfold fs_mut, h_setxattr, h_update. cbn [f_tree]. rewrite Hq. reflexivity.
  - inversion Ho; subst. rewrite Hq. reflexivity.
  - inversion Ho; subst. rewrite Hq. reflexivity.
  - inversion Ho; subst. unfold fs_mut, h_removexattr. cbn [f_tree]. rewrite Hq. reflexivity.
Qed.

(* [invisible s o]: the path the operation walks first is not visible *)
Definition invisible (s : state) (o : op) : bool :=
  match upper s, op_main_path o with
  | Some u, Some q => negb (visb (u :: lowers s) [] q)
  | _, _ => false
  end.
Theorem op_refines_enoent s o v : Coherent s -> invisible s o = true -> view (load_all s) = Some v ->
  refines_at s o v /\ fst (step o s) = Err ENOENT /\ upper (run_op o s) = upper s.
Proof.
  intros HC Hi Hv. unfold invisible in Hi. destruct (upper s) as [u|] eqn:Hu; [|discriminate].
  destruct (op_main_path o) as [q|] eqn:Ho; [|discriminate]. apply negb_true_iff in Hi.
  pose proof (coherent_layers_ok s HC) as Hok. rewrite Hu in Hok. cbn [all_layers] in Hok.
  assert (Hud : is_whT u = false) by (destruct (Forall_inv Hok) as [_ Hd]; destruct u; try discriminate; reflexivity).
  destruct (walk_fail u q [] s (root s) u (lowers s) HC Hu eq_refl eq_refl Hud Hi) as (s1 & E & HC1 & (U1 & L1 & I1)).
  destruct (step_starts_with_walk o q Ho) as [k Hk].
  assert (Hrun : step o s = (Err ENOENT, s1)) by (rewrite Hk; unfold walk; apply bind_err; exact E).
  pose proof (coherent_wf_layers s u HC Hu) as W.
  pose proof (coherent_view_union s HC) as A. rewrite Hv, Hu in A. cbn [all_layers] in A.
  destruct (merge (u :: lowers s)) as [mv|] eqn:Em; [|contradiction]. cbn [oteq] in A.
  pose proof (merge_invisible u (lowers s) q mv W Em Hi) as Hq.
  assert (Hqv : tget v q = None).
  { pose proof (teq_tget q _ _ A) as T. rewrite Hq in T. destruct (tget v q); [contradiction|reflexivity]. }
  pose proof (fs_apply_enoent o q v (next_ino s) Ho Hqv) as Hfs.
  assert (Hview : view (load_all s1) = view (load_all s)).
  { destruct (keeps_walk q s) as (K1 & K2 & _ & _ & K5). unfold walk in K1, K2, K5. rewrite E in K1, K2, K5. cbn [snd] in *.
    apply (view_load_all_vs s (root s1)); auto. }
  split; [|split; [rewrite Hrun; reflexivity|unfold run_op; rewrite Hrun; cbn [snd]; congruence]].
  unfold refines_at, run_op. rewrite Hrun, Hfs. cbn [fst snd f_tree res_same]. split; [reflexivity|]. split; [|exact L1].
  rewrite Hview, Hv. cbn [oteq]. apply teq_refl. exact (proj2 (teq_wf _ _ A)).
Qed.

(* ------------------------------------------------------------------ creating a name that is visible: EEXIST *)
Lemma vis_rel_snoc : forall (p : path) es (c : name), vis_rel es (p ++ [c]) = vis_rel es p &&
  (match mstack es p with Dir _ _ _ :: _ => true | _ => false end &&
   match mstack es (p ++ [c]) with t :: _ => negb (is_whT t) | [] => false end).
Proof.
  induction p as [|k p IH]; intros es c; cbn [app vis_rel mstack].
  - rewrite andb_true_r. reflexivity.
  - rewrite IH. rewrite <- !andb_assoc. reflexivity.
Qed.
Lemma tget_resolve_vis : forall (p : path) f es, Forall wf es -> vis_rel es p = true ->
  (exists t r, mstack es p = t :: r /\ is_whT t = false) ->
  exists r, resolve (S f + List.length p) es = Some r /\ tget r p = resolve (S f) (mstack es p).
Proof.
  induction p as [|k p IH]; intros f es W Hv (t & r0 & Hm & Hw); cbn [vis_rel mstack List.length tget] in *.
  - rewrite Nat.add_0_r. subst es. destruct t; try discriminate; cbn [resolve]; eauto.
  - apply andb_prop in Hv. destruct Hv as [Hv H3]. apply andb_prop in Hv. destruct Hv as [H1 H2].
    destruct es as [|[m x ch| | |] es]; try discriminate.
    replace (S f + S (List.length p))%nat with (S (S f + List.length p)) by lia.
    destruct (resolve_dir_spec (S f + List.length p) m x ch es W) as (chs & -> & N & K).
    eexists. split; [reflexivity|]. cbn [tget]. rewrite K.
    assert (Wg : Forall wf (ents k (dir_stack (Dir m x ch :: es)))) by (apply ents_wf; apply dir_stack_wf; exact W).
    destruct (IH f _ Wg H3) as (r & -> & Hr); [eauto|]. exact Hr.
Qed.

Lemma do_create_exists_run (pp : path) (nm : name) s u pn m x ch t r (K : node -> M unit) :
  Coherent s -> upper s = Some u -> nget pp (root s) = Some pn -> node_stat s pn = Some (Dir m x ch) ->
  mstack (u :: lowers s) (pp ++ [nm]) = t :: r -> is_whT t = false ->
  exists s1 c, lookup_node_ignore_enoent pp nm s = (Ok (Some (pp ++ [nm])), s1) /\ Coherent s1 /\ sd s s1 /\
    nget (pp ++ [nm]) (root s1) = Some c /\ n_wh c = false /\ n_wh pn = false.
Proof.
  intros HC Hu Hg Hst Hms Hnw.
  destruct (node_first_real s pp pn HC Hg) as (r1 & rs1 & t1 & _ & _ & Hst1 & _ & _ & _ & _ & Hwn). rewrite Hst in Hst1. inversion Hst1; subst t1. cbn in Hwn.
  destruct (lookup_vis pp s pn m x ch HC Hg Hst) as (s1 & pn1 & HC1 & Hsd1 & Hg1 & Hw1 & Hr1 & Hld1 & Hlk).
  pose proof Hsd1 as (U1 & L1 & _). assert (Hu1 : upper s1 = Some u) by congruence.
  assert (Hms1 : mstack (u :: lowers s1) (pp ++ [nm]) = t :: r) by (rewrite L1; exact Hms).
  pose proof HC1 as (_ & _ & HCT1). pose proof (HCT1 pp pn1 Hg1) as N1. cbn [app] in N1.
  destruct (ok_ld _ _ _ _ N1 Hld1) as (_ & _ & Kids).
  destruct (lstack_head_rel s1 u _ _ _ Hu1 Hms1) as (i0 & irest & Hl & He).
  destruct (afind nm (n_ch pn1)) as [c|] eqn:Ec.
  2:{ exfalso. apply Kids in Ec. rewrite <- lstack_snoc, Hl in Ec. discriminate. }
  pose proof (nget_snoc pp nm (root s1) pn1 c Hg1 Ec) as Hgq.
  destruct (cand_node s1 _ c i0 irest t HC1 Hgq Hl He) as (cr & crs & _ & _ & _ & _ & _ & Hwc & _).
  exists s1, c. unfold lookup_node_ignore_enoent. specialize (Hlk (Some nm)). cbn beta iota in Hlk. rewrite Ec in Hlk. rewrite Hlk.
  split; [reflexivity|]. split; [exact HC1|]. split; [exact Hsd1|]. split; [exact Hgq|]. split; [congruence|exact Hwn].
Qed.

Theorem step_create_exists_run o (pp : path) (nm : name) c s u m x ch r0 t r :
  ins_leaf o (next_ino s) = Some (pp ++ [nm], c) ->
  Coherent s -> upper s = Some u -> visp (u :: lowers s) [] pp -> mstack (u :: lowers s) pp = Dir m x ch :: r0 ->
  mstack (u :: lowers s) (pp ++ [nm]) = t :: r -> is_whT t = false ->
  exists s', step o s = (Err EEXIST, s') /\ Coherent s' /\ sd s s' /\ vs s (root s') (root s).
Proof.
  intros Ho HC Hu Hvis Hpp Hms Hnw.
  destruct (walk_vis_run u pp [] s (root s) HC Hu eq_refl Hvis) as (s1 & n1 & E1 & HC1 & Hsd1 & Hg1). cbn [app] in Hg1.
  assert (Hbody : forall s2 pn2, Coherent s2 -> sd s s2 -> nget pp (root s2) = Some pn2 ->
            (forall mode, exists s3, do_mkdir pp nm mode s2 = (Err EEXIST, s3) /\ Coherent s3 /\ sd s2 s3 /\ s3 = snd (lookup_node_ignore_enoent pp nm s2)) /\
            (forall mk, exists s3, do_make pp nm mk s2 = (Err EEXIST, s3) /\ Coherent s3 /\ sd s2 s3 /\ s3 = snd (lookup_node_ignore_enoent pp nm s2))).
  { intros s2 pn2 HC2 (U2 & L2 & _) Hg2. assert (Hu2 : upper s2 = Some u) by congruence.
    assert (Hst : node_stat s2 pn2 = Some (Dir m x ch)) by (apply (node_stat_head s2 u pp pn2 _ r0 HC2 Hu2 Hg2); rewrite L2; exact Hpp).
    destruct (do_create_exists_run pp nm s2 u pn2 m x ch t r (fun _ => ret tt) HC2 Hu2 Hg2 Hst) as (s3 & c0 & Elk & HC3 & Hsd3 & Hgq & Hwc & Hwp); try (rewrite L2; assumption); [exact Hnw|].
    split.
    - intros mode. exists s3. unfold do_mkdir. rewrite (bind_ok _ _ _ _ _ (need_upper_ok s2 u Hu2)), (bind_ok _ _ _ _ _ (get_node_ok pp s2 pn2 Hg2)), Hwp.
      rewrite (bind_ok _ _ _ _ _ Elk).
      assert (Efl : (n <- get_node (pp ++ [nm]);; (if negb (n_wh n) then fail EEXIST else ret (in_upper n, true))) s3 = (Err EEXIST, s3)).
      { rewrite (bind_ok _ _ _ _ _ (get_node_ok _ s3 c0 Hgq)), Hwc. reflexivity. }
      rewrite (bind_err _ _ _ _ _ Efl). rewrite Elk. auto.
    - intros mk. exists s3. unfold do_make. rewrite (bind_ok _ _ _ _ _ (need_upper_ok s2 u Hu2)), (bind_ok _ _ _ _ _ (get_node_ok pp s2 pn2 Hg2)), Hwp.
      rewrite (bind_ok _ _ _ _ _ Elk), (bind_ok _ _ _ _ _ (get_node_ok _ s3 c0 Hgq)), Hwc. cbn [negb fail]. rewrite Elk. auto. }
  assert (Hfin : forall {A} (pre : path -> M A) (body : M unit),
     (forall s1 pn1, Coherent s1 -> sd s s1 -> nget pp (root s1) = Some pn1 ->
        exists s2 pn2 a, pre pp s1 = (Ok a, s2) /\ Coherent s2 /\ sd s1 s2 /\ nget pp (root s2) = Some pn2) ->
     keeps (pre pp) ->
     (forall s2 pn2, Coherent s2 -> sd s s2 -> nget pp (root s2) = Some pn2 ->
        exists s3, body s2 = (Err EEXIST, s3) /\ Coherent s3 /\ sd s2 s3 /\ s3 = snd (lookup_node_ignore_enoent pp nm s2)) ->
     exists s', (walk pp ;;; (pre pp ;;; body ;;; entry_of pp nm)) s = (Err EEXIST, s') /\ Coherent s' /\ sd s s' /\ vs s (root s') (root s)).
  { intros A pre body Hpre Hkp Hb.
    destruct (Hpre s1 n1 HC1 Hsd1 Hg1) as (s2 & pn2 & a & E2 & HC2 & Hsd2 & Hg2).
    pose proof (sd_trans _ _ _ Hsd1 Hsd2) as Hsd02.
    destruct (Hb s2 pn2 HC2 Hsd02 Hg2) as (s3 & E3 & HC3 & Hsd3 & Es3).
    exists s3. unfold walk. rewrite (bind_ok _ _ _ _ _ E1), (bind_ok _ _ _ _ _ E2), (bind_err _ _ _ _ _ E3).
    split; [reflexivity|]. split; [exact HC3|]. split; [exact (sd_trans _ _ _ Hsd02 Hsd3)|].
    (* only loads happened *)
    destruct (keeps_walk pp s) as (_ & _ & _ & _ & V1). unfold walk in V1. rewrite E1 in V1. cbn [snd] in V1.
    destruct (Hkp s1) as (_ & _ & _ & _ & V2). rewrite E2 in V2. cbn [snd] in V2.
    assert (Hkl : keeps (lookup_node_ignore_enoent pp nm)).
    { intros s0. pose proof (keeps_lookup_node pp (Some nm) s0) as H. unfold lookup_node_ignore_enoent.
      destruct (lookup_node pp (Some nm) s0) as [[q0|e0] s0']; cbn [snd] in *; [exact H|]. destruct (e0 =? ENOENT); exact H. }
    destruct (Hkl s2) as (_ & _ & _ & _ & V3). rewrite <- Es3 in V3.
    destruct Hsd1 as (A1 & B1 & _). destruct Hsd02 as (A2 & B2 & _).
    apply (vs_trans s _ (root s1)); [|exact V1]. apply (vs_ext s1 s); [split; assumption|].
    apply (vs_trans s1 _ (root s2)); [|exact V2]. apply (vs_ext s2 s1); [split; congruence|exact V3]. }
  destruct o; cbn [ins_leaf] in Ho; inversion Ho; subst; cbn [step]; rewrite with_parent_snoc.
  - apply (Hfin _ sync_parent); [apply (pre_sync_vis pp s u m x ch r0 Hu Hpp)| |intros s2 pn2 A B C; apply (proj2 (Hbody s2 pn2 A B C))].
    unfold sync_parent. apply keeps_bind; [apply keeps_lookup_node|]. intros _. apply keeps_bind; [apply keeps_get_node|]. intros pn. apply keeps_if; [apply keeps_fail|apply keeps_ret].
  - apply (Hfin _ sync_parent); [apply (pre_sync_vis pp s u m x ch r0 Hu Hpp)| |intros s2 pn2 A B C; apply (proj1 (Hbody s2 pn2 A B C))].
    unfold sync_parent. apply keeps_bind; [apply keeps_lookup_node|]. intros _. apply keeps_bind; [apply keeps_get_node|]. intros pn. apply keeps_if; [apply keeps_fail|apply keeps_ret].
  - apply (Hfin _ sync_parent); [apply (pre_sync_vis pp s u m x ch r0 Hu Hpp)| |intros s2 pn2 A B C; apply (proj2 (Hbody s2 pn2 A B C))].
    unfold sync_parent. apply keeps_bind; [apply keeps_lookup_node|]. intros _. apply keeps_bind; [apply keeps_get_node|]. intros pn. apply keeps_if; [apply keeps_fail|apply keeps_ret].
  - apply (Hfin _ (fun pp => lookup_node pp None)); [apply (pre_lookup_vis pp s u m x ch r0 Hu Hpp)|apply keeps_lookup_node|intros s2 pn2 A B C; apply (proj2 (Hbody s2 pn2 A B C))].
Qed.

(* [exists_target s o]: mkdir / create / mknod / symlink of a name that is visible, below a visible directory *)
Definition exists_target (s : state) (o : op) : bool :=
  match upper s with
  | None => false
  | Some u =>
      let L := u :: lowers s in
      match o with
      | OMkdir p _ | OCreate p _ | OMknod p _ | OSymlink p _ =>
          match split_last p with
          | Some (pp, nm) =>
              (List.length p <? DEPTH)%nat && visb L [] pp && match mstack L pp with Dir _ _ _ :: _ => true | _ => false end &&
              match mstack L p with t :: _ => negb (is_whT t) | [] => false end
          | None => false
          end
      | _ => false
      end
  end.
Lemma fs_apply_eexist o nx (pp : path) (nm : name) c mv : ins_leaf o nx = Some (pp ++ [nm], c) ->
  h_insert pp nm c mv = Err EEXIST -> fs_apply o (mkFs mv nx) = (Err EEXIST, mkFs mv nx).
Proof.
  intros Ho Hi. destruct o; cbn [ins_leaf] in Ho; inversion Ho; subst; cbn [fs_apply]; rewrite split_last_snoc;
    unfold fs_mut, h_mkdir, h_create, h_symlink; cbn [f_tree f_next]; rewrite Hi; reflexivity.
Qed.
Theorem op_refines_eexist s o v : Coherent s -> exists_target s o = true -> view (load_all s) = Some v ->
  refines_at s o v /\ fst (step o s) = Err EEXIST /\ upper (run_op o s) = upper s.
Proof.
  intros HC Hd Hv. unfold exists_target in Hd. destruct (upper s) as [u|] eqn:Hu; [|discriminate]. cbv zeta in Hd.
  assert (Hmain : forall p, match split_last p with
          | Some (pp, nm) => (List.length p <? DEPTH)%nat && visb (u :: lowers s) [] pp && match mstack (u :: lowers s) pp with Dir _ _ _ :: _ => true | _ => false end &&
              match mstack (u :: lowers s) p with t :: _ => negb (is_whT t) | [] => false end
          | None => false end = true -> forall c, ins_leaf o (next_ino s) = Some (p, c) ->
          refines_at s o v /\ fst (step o s) = Err EEXIST /\ upper (run_op o s) = Some u).
  { intros p H c Ho. destruct (split_last p) as [[pp nm]|] eqn:Esp; [|discriminate]. apply split_last_spec in Esp. subst p.
    apply andb_prop in H. destruct H as [H H4]. apply andb_prop in H. destruct H as [H H3]. apply andb_prop in H. destruct H as [H1 H2]. apply Nat.ltb_lt in H1.
    destruct (mstack (u :: lowers s) pp) as [|[m x ch| | |] r0] eqn:Hpp; try discriminate.
    destruct (mstack (u :: lowers s) (pp ++ [nm])) as [|t r] eqn:Hms; [discriminate|]. apply negb_true_iff in H4.
    destruct (step_create_exists_run o pp nm c s u m x ch r0 t r Ho HC Hu (visb_visp _ _ _ H2) Hpp Hms H4) as (s' & Hrun & HC' & (U' & L' & I') & V').
    assert (Hview : view (load_all s') = view (load_all s)) by (apply (view_load_all_vs s (root s')); auto).
    pose proof (coherent_wf_layers s u HC Hu) as W.
    pose proof (coherent_view_union s HC) as A. rewrite Hv, Hu in A. cbn [all_layers] in A.
    destruct (merge (u :: lowers s)) as [mv|] eqn:Em; [|contradiction]. cbn [oteq] in A.
    assert (Hdp : exists f, DEPTH = (S (S f) + List.length pp)%nat).
    { rewrite app_length in H1. cbn [List.length] in H1. exists (DEPTH - 2 - List.length pp)%nat. lia. }
    destruct Hdp as [f Hdp].
    assert (Hvr : vis_rel (u :: lowers s) pp = true) by (pose proof (visb_vis_rel (u :: lowers s) pp []) as Hvv; cbn [mstack] in Hvv; rewrite <- Hvv; exact H2).
    destruct (tget_resolve_vis pp (S f) (u :: lowers s) W Hvr) as (mv' & Hm' & Ht); [rewrite Hpp; eauto|].
    unfold merge in Em. rewrite Hdp in Em. rewrite Em in Hm'. assert (E : mv' = mv) by congruence. rewrite E in Ht. clear E Hm'.
    rewrite Hpp in Ht. assert (Wr : Forall wf (Dir m x ch :: r0)) by (rewrite <- Hpp; apply mstack_wf; exact W).
    destruct (resolve_dir_spec (S f) m x ch r0 Wr) as (chs & Er & N & K). rewrite Er in Ht.
    assert (Hnm : exists e, afind nm chs = Some e).
    { rewrite K. pose proof Hms as H. rewrite mstack_snoc, Hpp in H. rewrite H. destruct t; try discriminate; cbn [resolve]; eauto. }
    destruct Hnm as [e He].
    assert (Hi : h_insert pp nm c mv = Err EEXIST) by (unfold h_insert; rewrite Ht, He; reflexivity).
    pose proof (fs_apply_eexist o (next_ino s) pp nm c mv Ho Hi) as Hfs.
    destruct (fs_apply_teq o mv v (next_ino s) A) as (R2 & T2 & _). rewrite Hfs in R2, T2. cbn [fst snd f_tree] in R2, T2.
    split; [|split; [rewrite Hrun; reflexivity|unfold run_op; rewrite Hrun; cbn [snd]; congruence]].
    unfold refines_at, run_op. rewrite Hrun. cbn [fst snd]. split; [exact R2|]. split; [|exact L'].
    rewrite Hview, Hv. cbn [oteq]. apply (teq_trans _ mv); [apply teq_sym; exact A|exact T2]. }
  destruct o; try discriminate; apply (Hmain p Hd _ eq_refl).
Qed.

(* ------------------------------------------------------------------ rmdir of a non-directory (ENOTDIR) or of a directory that shows entries (ENOTEMPTY) *)
(* a failing operation that left the layers alone refines the ordinary file system as soon as the answers agree on the union *)
Lemma refine_unchanged s o v e s' : Coherent s -> coh_op o = true -> view (load_all s) = Some v ->
  step o s = (Err e, s') -> upper s' = upper s -> lowers s' = lowers s ->
  (forall mv, merge (all_layers (upper s) (lowers s)) = Some mv -> fs_apply o (mkFs mv (next_ino s)) = (Err e, mkFs mv (next_ino s))) ->
  refines_at s o v.
Proof.
  intros HC Ho Hv Hrun Hu' Hl' Hfs. unfold refines_at, run_op. rewrite Hrun. cbn [fst snd].
  destruct (refine_from_disk s o v _ s' HC Ho Hv Hrun) as [R T]; [|cbv zeta; auto].
  intros mv Hm. rewrite (Hfs mv Hm). cbn [fst snd f_tree res_same]. split; [reflexivity|]. rewrite Hu', Hl', Hm. cbn [oteq].
  apply teq_refl. pose proof (coherent_layers_ok s HC) as Hok. eapply resolve_wf; [|exact Hm]. eapply Forall_impl; [|exact Hok]. intros t [A _]. exact A.
Qed.

Lemma rmdir_fail_run (pp : path) (nm : name) s u m x ch r0 t r :
  Coherent s -> upper s = Some u -> visp (u :: lowers s) [] pp -> mstack (u :: lowers s) pp = Dir m x ch :: r0 ->
  mstack (u :: lowers s) (pp ++ [nm]) = t :: r -> is_whT t = false ->
  (is_dirT t = true -> exists k t' r', ents k (dir_stack (t :: r)) = t' :: r' /\ is_whT t' = false) ->
  exists s', step (ORmdir (pp ++ [nm])) s = (Err (if is_dirT t then ENOTEMPTY else ENOTDIR), s') /\ sd s s'.
Proof.
  intros HC Hu Hvis Hpp Hms Hnw Hne. set (q := pp ++ [nm]) in *.
  destruct (walk_vis_run u pp [] s (root s) HC Hu eq_refl Hvis) as (s1 & n1 & E1 & HC1 & Hsd1 & Hg1). cbn [app] in Hg1.
  pose proof Hsd1 as (U1 & L1 & _). assert (Hu1 : upper s1 = Some u) by congruence.
  assert (Hst1 : node_stat s1 n1 = Some (Dir m x ch)) by (apply (node_stat_head s1 u pp n1 _ r0 HC1 Hu1 Hg1); rewrite L1; exact Hpp).
  destruct (lookup_vis pp s1 n1 m x ch HC1 Hg1 Hst1) as (s2 & n2 & HC2 & Hsd2 & Hg2 & Hw2 & _ & _ & Hlk1).
  pose proof Hsd2 as (U2 & L2 & _). assert (Hu2 : upper s2 = Some u) by congruence.
  assert (Hst2 : node_stat s2 n2 = Some (Dir m x ch)) by (apply (node_stat_head s2 u pp n2 _ r0 HC2 Hu2 Hg2); rewrite L2, L1; exact Hpp).
  destruct (lookup_vis pp s2 n2 m x ch HC2 Hg2 Hst2) as (s3 & n3 & HC3 & Hsd3 & Hg3 & Hw3 & _ & Hld3 & Hlk2).
  pose proof Hsd3 as (U3 & L3 & _). assert (Hu3 : upper s3 = Some u) by congruence.
  assert (Hl3 : lowers s3 = lowers s) by congruence.
  assert (Hms3 : mstack (u :: lowers s3) q = t :: r) by (rewrite Hl3; exact Hms).
  pose proof HC3 as (_ & Hwl3 & HCT3). pose proof (HCT3 pp n3 Hg3) as N3. cbn [app] in N3.
  destruct (ok_ld _ _ _ _ N3 Hld3) as (_ & _ & Kids).
  destruct (lstack_head_rel s3 u q t r Hu3 Hms3) as (i0 & irest & Hl & He).
  destruct (afind nm (n_ch n3)) as [c|] eqn:Ec.
  2:{ exfalso. apply Kids in Ec. rewrite <- lstack_snoc in Ec. fold q in Ec. rewrite Hl in Ec. discriminate. }
  pose proof (nget_snoc pp nm (root s3) n3 c Hg3 Ec) as Hgq. fold q in Hgq.
  destruct (cand_node s3 q c i0 irest t HC3 Hgq Hl He) as (cr & crs & Ecr & _ & _ & _ & Hstc & Hwc & _). rewrite Hnw in Hwc.
  pose proof (Hlk2 (Some nm)) as Hlk2'. cbn beta iota in Hlk2'. rewrite Ec in Hlk2'. fold q in Hlk2'.
  pose proof (sd_trans _ _ _ (sd_trans _ _ _ Hsd1 Hsd2) Hsd3) as Hsd03.
  assert (Hpre : do_rm pp nm true s1 =
     ((load_dir q;;; n1 <- get_node q;; st <- stat_node n1;;
      (if negb (is_dirT st) then fail ENOTDIR else
       if negb (Nat.eqb (List.length (filter (fun kv : name * node => negb (n_wh (snd kv))) (n_ch n1))) 0) then fail ENOTEMPTY else
       if negb (Nat.eqb (List.length (filter (fun kv : name * node => n_wh (snd kv)) (n_ch n1))) 0) && in_upper n1 then empty_node_directory q else ret tt));;;
      (copy_node_up pp;;; n2 <- get_node q;; pn' <- get_node pp;;
       need0 <- (if upper_only n2 then fun s => match lower_has_child s (n_reals pn') nm with Ok b => (Ok b, s) | Err e => (Err e, s) end else ret true);;
       need <- (if in_upper n2 then pr <- upper_real pn' EINVAL;; mutate (r_layer pr) (h_rmdir (r_path pr) nm);;; ret (need0 && negb (r_opq pr)) else ret need0);;
       remove_child pp nm;;; (if need then pn'' <- get_node pp;; pr <- upper_real pn'' EINVAL;; ri <- ri_whiteout pr nm;; insert_child pp nm (new_node ri) else ret tt))) s3).
  { unfold do_rm.
    rewrite (bind_ok _ _ _ _ _ (need_upper_ok s1 u Hu1)), (bind_ok _ _ _ _ _ (Hlk1 None)), (bind_ok _ _ _ _ _ (get_node_ok pp s2 n2 Hg2)), Hw2.
    fold q. rewrite (bind_ok _ _ _ _ _ Hlk2'), (bind_ok _ _ _ _ _ (get_node_ok q s3 c Hgq)), Hwc. reflexivity. }
  assert (Hstep : forall e s', do_rm pp nm true s1 = (Err e, s') -> step (ORmdir q) s = (Err e, s')).
  { intros e s' H. cbn [step]. unfold q. rewrite with_parent_snoc. unfold walk. rewrite (bind_ok _ _ _ _ _ E1). apply bind_err. exact H. }
  destruct (is_dirT t) eqn:Ed.
  - (* a directory that shows an entry *)
    destruct t as [m' x' ch'| | |]; try discriminate.
    destruct (load_dir_run q s3 c _ _ _ HC3 Hgq Hstc) as (s4 & c4 & E4 & HC4 & Hsd4 & Hg4 & Hld4 & _).
    pose proof Hsd4 as (U4 & L4 & _). assert (Hu4 : upper s4 = Some u) by congruence. assert (Hl4 : lowers s4 = lowers s) by congruence.
    assert (Hms4 : mstack (u :: lowers s4) q = Dir m' x' ch' :: r) by (rewrite Hl4; exact Hms).
    pose proof (node_stat_head s4 u q c4 _ _ HC4 Hu4 Hg4 Hms4) as Hstc4.
    destruct (Hne eq_refl) as (k & t' & r' & Hk & Hwk).
    pose proof HC4 as (_ & _ & HCT4). pose proof (HCT4 q c4 Hg4) as N4. cbn [app] in N4.
    destruct (ok_ld _ _ _ _ N4 Hld4) as (_ & _ & K4).
    assert (Hmk : mstack (u :: lowers s4) (q ++ [k]) = t' :: r') by (rewrite mstack_snoc, Hms4; exact Hk).
    destruct (lstack_head_rel s4 u (q ++ [k]) t' r' Hu4 Hmk) as (j0 & jrest & Hlk & Hek).
    destruct (afind k (n_ch c4)) as [ck|] eqn:Eck.
    2:{ exfalso. apply K4 in Eck. rewrite <- lstack_snoc in Eck. unfold path, name in *. rewrite Hlk in Eck. discriminate. }
    pose proof (nget_snoc q k (root s4) c4 ck Hg4 Eck) as Hgk.
    destruct (cand_node s4 _ ck j0 jrest t' HC4 Hgk Hlk Hek) as (kr & krs & _ & _ & _ & _ & _ & Hwck & _). rewrite Hwk in Hwck.
    assert (Hcount : Nat.eqb (List.length (filter (fun kv : name * node => negb (n_wh (snd kv))) (n_ch c4))) 0 = false).
    { apply Nat.eqb_neq. intros H0. apply (filter_len0 (fun kv : name * node => negb (n_wh (snd kv))) (n_ch c4) (k, ck) H0 (afind_In' _ _ _ Eck)) in H0 || idtac.
      pose proof (filter_len0 (fun kv : name * node => negb (n_wh (snd kv))) (n_ch c4) (k, ck) H0 (afind_In' _ _ _ Eck)) as Hf. cbn [snd] in Hf. rewrite Hwck in Hf. discriminate. }
    exists s4. split; [|exact (sd_trans _ _ _ Hsd03 Hsd4)].
    assert (Emid : (load_dir q;;; n1 <- get_node q;; st <- stat_node n1;;
      (if negb (is_dirT st) then fail ENOTDIR else
       if negb (Nat.eqb (List.length (filter (fun kv : name * node => negb (n_wh (snd kv))) (n_ch n1))) 0) then fail ENOTEMPTY else
       if negb (Nat.eqb (List.length (filter (fun kv : name * node => n_wh (snd kv)) (n_ch n1))) 0) && in_upper n1 then empty_node_directory q else ret tt)) s3 = (Err ENOTEMPTY, s4)).
    { rewrite (bind_ok _ _ _ _ _ E4), (bind_ok _ _ _ _ _ (get_node_ok q s4 c4 Hg4)).
      assert (Es : stat_node c4 s4 = (Ok (Dir m' x' ch'), s4)) by (unfold stat_node; rewrite Hstc4; reflexivity).
      rewrite (bind_ok _ _ _ _ _ Es). cbn [is_dirT negb]. rewrite Hcount. reflexivity. }
    apply Hstep. rewrite Hpre. apply bind_err. exact Emid.
  - (* not a directory: load_directory refuses *)
    pose proof (HCT3 q c Hgq) as Nc. cbn [app] in Nc.
    destruct (unloaded_nondir s3 q c t Nc Hstc Ed) as [Hul _].
    assert (El : load_dir q s3 = (Err ENOTDIR, s3)).
    { unfold load_dir. rewrite (bind_ok _ _ _ _ _ (get_node_ok q s3 c Hgq)), Hul. unfold scan_children. rewrite Hstc, Ed. reflexivity. }
    exists s3. split; [|exact Hsd03].
    apply Hstep. rewrite Hpre. apply bind_err. apply bind_err. exact El.
Qed.

Definition shows_entry (g : list tree) : bool :=
  existsb (fun kg : name * list tree => match snd kg with t' :: _ => negb (is_whT t') | [] => false end) (collect_trees (dir_stack g)).
(* [rmdir_fails s o]: rmdir, below a visible directory, of a visible non-directory (ENOTDIR) or of a directory that shows an entry (ENOTEMPTY) *)
Definition rmdir_fails (s : state) (o : op) : bool :=
  match upper s, o with
  | Some u, ORmdir p =>
      let L := u :: lowers s in
      match split_last p with
      | Some (pp, nm) =>
          (S (List.length p) <? DEPTH)%nat && visb L [] pp && match mstack L pp with Dir _ _ _ :: _ => true | _ => false end &&
          match mstack L p with
          | t :: _ => negb (is_whT t) && (if is_dirT t then shows_entry (mstack L p) else true)
          | [] => false
          end
      | None => false
      end
  | _, _ => false
  end.
Theorem op_refines_rmdir_fails s o v : Coherent s -> rmdir_fails s o = true -> view (load_all s) = Some v ->
  refines_at s o v /\ (exists e, fst (step o s) = Err e) /\ upper (run_op o s) = upper s.
Proof.
  intros HC Hd Hv. unfold rmdir_fails in Hd. destruct (upper s) as [u|] eqn:Hu; [|discriminate]. destruct o; try discriminate. cbv zeta in Hd.
  destruct (split_last p) as [[pp nm]|] eqn:Esp; [|discriminate]. apply split_last_spec in Esp. subst p.
  apply andb_prop in Hd. destruct Hd as [Hd H4]. apply andb_prop in Hd. destruct Hd as [Hd H3]. apply andb_prop in Hd. destruct Hd as [H1 H2]. apply Nat.ltb_lt in H1.
  destruct (mstack (u :: lowers s) pp) as [|[m x ch| | |] r0] eqn:Hpp; try discriminate.
  destruct (mstack (u :: lowers s) (pp ++ [nm])) as [|t r] eqn:Hms; [discriminate|].
  apply andb_prop in H4. destruct H4 as [Hnw Hsh]. apply negb_true_iff in Hnw.
  pose proof (coherent_wf_layers s u HC Hu) as W.
  assert (Wg : Forall wf (t :: r)) by (rewrite <- Hms; apply mstack_wf; exact W).
  assert (Hne : is_dirT t = true -> exists k t' r', ents k (dir_stack (t :: r)) = t' :: r' /\ is_whT t' = false).
  { intros Hdt. rewrite Hdt in Hsh. unfold shows_entry in Hsh. apply existsb_exists in Hsh. destruct Hsh as ([k g] & Hin & Hg). cbn [snd] in Hg.
    destruct g as [|t' r']; [discriminate|]. apply negb_true_iff in Hg.
    assert (Hnd : Forall nodup_dir (dir_stack (t :: r))) by (eapply Forall_impl; [|apply dir_stack_wf; exact Wg]; apply wf_nodup_dir).
    destruct (collect_trees_spec _ Hnd) as [A B]. pose proof (afind_In_nodup k _ _ A Hin) as Hf. rewrite B in Hf.
    exists k, t', r'. split; [|exact Hg]. destruct (ents k (dir_stack (t :: r))); [discriminate|congruence]. }
  destruct (rmdir_fail_run pp nm s u m x ch r0 t r HC Hu (visb_visp _ _ _ H2) Hpp Hms Hnw Hne) as (s' & Hrun & (U' & L' & I')).
  split; [|split; [rewrite Hrun; cbn [fst]; eexists; reflexivity|unfold run_op; rewrite Hrun; cbn [snd]; congruence]].
  apply (refine_unchanged s (ORmdir (pp ++ [nm])) v _ s' HC eq_refl Hv Hrun); [congruence|exact L'|].
  intros mv Hm. rewrite Hu in Hm. cbn [all_layers] in Hm.
  assert (Hdp : exists f, DEPTH = (S (S (S f)) + List.length pp)%nat).
  { rewrite app_length in H1. cbn [List.length] in H1. exists (DEPTH - 3 - List.length pp)%nat. lia. }
  destruct Hdp as [f Hdp].
  assert (Hvr : vis_rel (u :: lowers s) pp = true) by (pose proof (visb_vis_rel (u :: lowers s) pp []) as Hvv; cbn [mstack] in Hvv; rewrite <- Hvv; exact H2).
  destruct (tget_resolve_vis pp (S (S f)) (u :: lowers s) W Hvr) as (mv' & Hm' & Ht); [rewrite Hpp; eauto|].
  unfold merge in Hm. rewrite Hdp in Hm. rewrite Hm in Hm'. assert (E : mv' = mv) by congruence. rewrite E in Ht. clear E Hm'.
  rewrite Hpp in Ht. assert (Wr : Forall wf (Dir m x ch :: r0)) by (rewrite <- Hpp; apply mstack_wf; exact W).
  destruct (resolve_dir_spec (S (S f)) m x ch r0 Wr) as (chs & Er & N & K). rewrite Er in Ht.
  assert (Hnm : afind nm chs = resolve (S (S f)) (t :: r)).
  { rewrite K. pose proof Hms as H. rewrite mstack_snoc, Hpp in H. rewrite H. reflexivity. }
  cbn [fs_apply]. rewrite split_last_snoc. unfold fs_mut, h_rmdir. cbn [f_tree f_next]. rewrite Ht, Hnm.
  destruct t as [m' x' ch'|i' m' d' x'|tg|]; try discriminate; cbn [is_dirT].
  - destruct (resolve_dir_spec (S f) m' x' ch' r Wg) as (CH & E1 & N1 & K1). rewrite E1.
    destruct (Hne eq_refl) as (k & t' & r' & Hk & Hwk).
    destruct CH as [|kv CH]; [|reflexivity]. exfalso. specialize (K1 k). rewrite Hk in K1. cbn [afind] in K1.
    destruct t'; try discriminate; cbn [resolve] in K1; discriminate.
  - cbn [resolve hide_xs]. reflexivity.
  - cbn [resolve hide_xs]. reflexivity.
Qed.
