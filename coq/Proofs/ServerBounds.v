(* C01: (1) the server never asks the writer for more than the supplied reply buffer: every
   packet and the virtio descriptor contents are at most [cap] bytes, for every action, request,
   filesystem answer and both transports;
   (2) the virtio twin of "exactly one complete message": for a well-formed request the client
   waits on, the descriptor memory holds one well-formed reply carrying the request's unique and
   handle_message returns its length (Ok(0) for DESTROY, whose reply result is ignored). *)
From Coq Require Import List String NArith Bool Lia Arith ZifyBool ZifyNat ZifyN.
From FB Require Import Lib.Bytes Model.Server Spec.Requests Spec.WfReq
  Proofs.ServerPerform Proofs.ServerReply Proofs.ServerDecide Proofs.ServerHandle
  Proofs.ServerDecodeLib Proofs.ServerDecodeOps Proofs.ServerDecodeOps2 Proofs.ServerDecode.
Import ListNotations.
Local Open Scope list_scope.
Local Open Scope N_scope.

(* ------------------------------------------------------------------ (1) capacity *)
(* one write: the buffer stays within the capacity, and so does anything that reaches the fd *)
Lemma w_write_bounds w d w' p :
  w_write w d = WOk (w', p) -> blen (w_buf w) <= w_cap w ->
  blen (w_buf w') <= w_cap w /\ (forall x, In x p -> blen x <= w_cap w) /\
  w_buffered w' = w_buffered w /\ w_kind w' = w_kind w /\ w_cap w' = w_cap w /\ w_buf w' = w_buf w ++ d.
Proof.
  unfold w_write. intros H Hok. destruct (w_kind w) eqn:K.
  - destruct (negb (w_buffered w) && negb (Nat.eqb (List.length (w_buf w)) 0)); [discriminate|].
    destruct (N.ltb_spec (w_cap w - blen (w_buf w)) (blen d)) as [Hlt|Hge]; [discriminate|].
    assert (Hb : blen (w_buf w ++ d) <= w_cap w) by (rewrite blen_app; lia).
    assert (Hd : blen d <= w_cap w) by (rewrite blen_app in Hb; lia).
    destruct (w_buffered w) eqn:B.
    + inversion H; subst; cbn [w_buf w_buffered w_kind w_cap]. repeat split; auto. intros x [].
    + destruct d; inversion H; subst; cbn [w_buf w_buffered w_kind w_cap]; repeat split; auto;
        intros x [<-|[]]; [change (blen []) with 0; lia|exact Hd].
  - destruct (N.ltb_spec (w_cap w - blen (w_buf w)) (blen d)) as [Hlt|Hge]; [discriminate|].
    assert (Hb : blen (w_buf w ++ d) <= w_cap w) by (rewrite blen_app; lia).
    inversion H; subst; cbn [w_buf w_buffered w_kind w_cap]. repeat split; auto. intros x [].
Qed.

Lemma w_commit_bounds w o c :
  blen (w_buf w) + blen (match o with Some x => w_buf x | None => [] end) <= c ->
  forall x, In x (w_commit w o) -> blen x <= c.
Proof.
  intros H x. unfold w_commit. destruct (w_kind w); [|intros []].
  destruct (negb (w_buffered w)); [intros []|].
  destruct (w_buf w ++ _) as [|n l] eqn:E; [intros []|].
  intros [<-|[]]. rewrite <- E, blen_app. exact H.
Qed.

Lemma perform_err_bounds w u e after :
  blen (w_buf w) <= w_cap w ->
  (forall x, In x (o_packets (perform_err w u e after)) -> blen x <= w_cap w) /\
  blen (o_mem (perform_err w u e after)) <= w_cap w.
Proof.
  intro Hok. unfold perform_err.
  destruct (w_write w _) as [[w' p]| |] eqn:E; cbn [o_packets o_mem out_ok out_panic].
  - destruct (w_write_bounds _ _ _ _ E Hok) as [B1 [B2 _]]. split; [|exact B1].
    intros x Hin. apply in_app_or in Hin. destruct Hin as [Hin|Hin]; [exact (B2 x Hin)|].
    apply (w_commit_bounds w' None (w_cap w)); [|exact Hin]. change (blen []) with 0. lia.
  - split; [intros x []|exact Hok].
  - split; [intros x []|change (blen []) with 0; lia].
Qed.

Theorem perform_within_capacity k cap u a :
  (forall p, In p (o_packets (perform k cap u a)) -> blen p <= cap) /\
  blen (o_mem (perform k cap u a)) <= cap.
Proof.
  assert (H0 : blen (@nil N) <= cap) by (change (blen []) with 0; lia).
  assert (Hfresh : blen (w_buf (fresh k cap)) <= w_cap (fresh k cap)) by exact H0.
  destruct a as [r|body|e after|data|e|body]; unfold perform.
  - split; [intros p []|exact H0].
  - destruct (w_write (fresh k cap) _) as [[w' p]| |] eqn:E; cbn [o_packets o_mem out_ok out_panic];
      try (split; [intros x []|exact H0]).
    destruct (w_write_bounds _ _ _ _ E Hfresh) as [B1 [B2 _]]. split; [exact B2|exact B1].
  - exact (perform_err_bounds (fresh k cap) u e after Hfresh).
  - destruct (w_split (fresh k cap) OUT_HDR) as [[w1 w2]|] eqn:S;
      [|cbn [o_packets o_mem out_ok]; split; [intros x []|exact H0]].
    destruct (w_split_fresh _ _ _ _ S) as [-> [-> Hge]].
    destruct (w_write _ data) as [[w2' p2]| |] eqn:E2; cbn [o_packets o_mem out_ok out_panic];
      try (split; [intros x []|exact H0]).
    destruct (w_write_bounds _ _ _ _ E2 ltac:(cbn [w_buf w_cap]; change (blen []) with 0; lia))
      as [Q1 [Q2 [Q3 [Q4 [Q5 Q6]]]]].
    cbn [w_buf w_cap w_buffered w_kind] in Q1, Q2, Q3, Q4, Q5, Q6.
    destruct (w_write _ (out_header _ _ _)) as [[w1' p1]| |] eqn:E1; cbn [o_packets o_mem out_ok out_panic];
      try (split; [intros x []|exact H0]).
    + destruct (w_write_bounds _ _ _ _ E1 ltac:(cbn [w_buf w_cap]; change (blen []) with 0; unfold OUT_HDR; lia))
        as [R1 [R2 [R3 [R4 [R5 R6]]]]].
      cbn [w_buf w_cap w_buffered w_kind] in R1, R2, R3, R4, R5, R6.
      split.
      * intros x Hin. apply in_app_or in Hin. destruct Hin as [Hin|Hin]; [specialize (Q2 x Hin); lia|].
        apply in_app_or in Hin. destruct Hin as [Hin|Hin]; [specialize (R2 x Hin); lia|].
        apply (w_commit_bounds w1' (Some w2') cap); [lia|exact Hin].
      * rewrite blen_app. lia.
    + split; [intros x Hin; specialize (Q2 x Hin); lia|lia].
  - destruct (w_split (fresh k cap) OUT_HDR) as [[w1 w2]|] eqn:S;
      [|cbn [o_packets o_mem out_ok]; split; [intros x []|exact H0]].
    destruct (w_split_fresh _ _ _ _ S) as [-> [-> Hge]].
    match goal with |- context [perform_err ?w u e None] =>
      destruct (perform_err_bounds w u e None ltac:(cbn [w_buf w_cap]; change (blen []) with 0; unfold OUT_HDR; lia)) as [P1 P2] end.
    cbn [w_cap] in P1, P2. split; [intros x Hin; specialize (P1 x Hin); lia|lia].
  - destruct (w_write (fresh k cap) _) as [[w' p]| |] eqn:E; cbn [o_packets o_mem out_ok out_panic];
      try (split; [intros x []|exact H0]).
    destruct (w_write_bounds _ _ _ _ E Hfresh) as [B1 [B2 _]]. split; [exact B2|exact B1].
Qed.

Theorem handle_within_capacity : forall cfg k cap req fr,
  (forall p, In p (o_packets (h_outcome (handle cfg k cap req fr))) -> blen p <= cap) /\
  blen (o_mem (h_outcome (handle cfg k cap req fr))) <= cap.
Proof. intros. rewrite handle_outcome. apply perform_within_capacity. Qed.

(* ------------------------------------------------------------------ (2) virtio: one complete message *)
Lemma w_write_virtio_ok b c d : blen d <= c ->
  w_write {| w_kind := Virtio; w_buffered := b; w_buf := []; w_cap := c |} d =
  WOk ({| w_kind := Virtio; w_buffered := b; w_buf := d; w_cap := c |}, []).
Proof.
  intro Hle. unfold w_write. cbn [w_kind w_buffered w_buf w_cap app].
  change (blen []) with 0. rewrite N.sub_0_r.
  destruct (N.ltb_spec c (blen d)) as [H|_]; [lia|]. reflexivity.
Qed.

Lemma w_split_fresh_virtio cap : OUT_HDR <= cap ->
  w_split (fresh Virtio cap) OUT_HDR =
  Some ({| w_kind := Virtio; w_buffered := true; w_buf := []; w_cap := OUT_HDR |},
        {| w_kind := Virtio; w_buffered := true; w_buf := []; w_cap := cap - OUT_HDR |}).
Proof.
  intro H. unfold w_split, fresh. cbn [w_kind w_buffered w_buf w_cap].
  change (blen []) with 0. rewrite !N.sub_0_r, N.add_0_l.
  destruct (N.ltb_spec cap OUT_HDR) as [H'|_]; [lia|]. reflexivity.
Qed.

Lemma perform_err_virtio b c u e :
  OUT_HDR <= c -> 1 <= e <= 4095 ->
  let o := perform_err {| w_kind := Virtio; w_buffered := b; w_buf := []; w_cap := c |} u e None in
  wellformed_reply u (o_mem o) /\ o_res o = ROk (blen (o_mem o)).
Proof.
  intros Hc He. cbv zeta. unfold perform_err.
  rewrite w_write_virtio_ok by (rewrite out_header_len; exact Hc).
  cbn [o_mem o_res out_ok w_buf]. split; [|reflexivity]. apply wf_err_msg. exact He.
Qed.

(* a replying action without substitute return value, on virtio, with room: the descriptor
   memory is one well-formed reply and the returned value is its length (0 when ignored) *)
Theorem perform_virtio_message cap u a :
  replies a = true -> (forall e r, a <> ReplyErr e (Some r)) -> action_wf a ->
  cap < 2 ^ 32 -> action_size a <= cap ->
  let o := perform Virtio cap u a in
  wellformed_reply u (o_mem o) /\
  o_res o = match a with ReplyOkIgnored _ => ROk 0 | _ => ROk (blen (o_mem o)) end.
Proof.
  intros Hr Hns Hwf Hcap Hsz. cbv zeta.
  destruct a as [r|bd|e after|data|e|bd]; cbn [replies action_size action_wf] in *; try discriminate;
    unfold perform.
  - unfold fresh. rewrite w_write_virtio_ok by (rewrite blen_app, out_header_len; exact Hsz).
    cbn [o_mem o_res out_ok w_buf]. split; [|reflexivity].
    change OUT_HDR with 16 in *. apply wf_ok_msg. lia.
  - destruct after as [r|]; [exfalso; exact (Hns e r eq_refl)|].
    unfold fresh. apply perform_err_virtio; assumption.
  - rewrite w_split_fresh_virtio by (unfold OUT_HDR in *; lia).
    rewrite w_write_virtio_ok by (unfold OUT_HDR in *; lia).
    rewrite w_write_virtio_ok by (rewrite out_header_len; unfold OUT_HDR; lia).
    cbn [o_mem o_res out_ok w_buf].
    assert (Hs : OUT_HDR + blen data < 2 ^ 32) by lia.
    change 4294967296 with (2 ^ 32). rewrite (N.mod_small _ _ Hs). split.
    + change OUT_HDR with 16 in *. apply wf_ok_msg. exact Hs.
    + rewrite blen_app, out_header_len. reflexivity.
  - rewrite w_split_fresh_virtio by exact Hsz. apply perform_err_virtio; [unfold OUT_HDR; lia|exact Hwf].
  - unfold fresh. rewrite w_write_virtio_ok by (rewrite blen_app, out_header_len; exact Hsz).
    cbn [o_mem o_res out_ok w_buf]. split; [|reflexivity].
    change OUT_HDR with 16 in *. apply wf_ok_msg. lia.
Qed.

Theorem answer_one_message_virtio : forall cfg q fr cap du dg,
  wf_req q = true -> cfg_remap cfg = RemapOk du dg -> env_ok cfg cap q = true ->
  needs_answer (q_op q) = true -> cap < 2 ^ 32 -> fs_ok fr ->
  action_size (snd (fst (decide cfg (encode_req q) fr cap))) <= cap ->
  let o := h_outcome (handle cfg Virtio cap (encode_req q) fr) in
  o_packets o = [] /\ wellformed_reply (q_unique q) (o_mem o) /\
  o_res o = if q_op q =? 38 then ROk 0 else ROk (blen (o_mem o)).
Proof.
  intros cfg q fr cap du dg Hwf Hre Henv Hna Hcap Hfs Hsz. cbv zeta.
  split; [apply handle_virtio_no_fd_write|].
  rewrite handle_outcome, (u64_8_encode_req q (wf_hdr q (wf_req_facts q Hwf))).
  pose proof (decide_action_wf cfg (encode_req q) fr cap Hfs) as Hawf.
  destruct (decide_wf_req cfg q fr cap du dg Hwf Hre Henv) as [a [E Hk]].
  rewrite E in *. cbn [fst snd] in *.
  assert (Hns : forall e r, a <> ReplyErr e (Some r)).
  { intros e r ->. cbn in Hk. discriminate Hk. }
  destruct (perform_virtio_message cap (q_unique q) a (action_kind_replies _ _ Hna Hk) Hns Hawf Hcap Hsz)
    as [W R].
  split; [exact W|]. rewrite R.
  destruct a as [r|bd|e after|data|e|bd]; cbn [action_kind_ok] in Hk;
    try (apply negb_true_iff in Hk; rewrite Hk; reflexivity).
  - rewrite Hna in Hk. discriminate Hk.
  - destruct after; [discriminate Hk|]. apply negb_true_iff in Hk. rewrite Hk. reflexivity.
  - rewrite Hk. reflexivity.
Qed.
