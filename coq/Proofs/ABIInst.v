(* C13: the generic checkers of Proofs/ABI.v run on the translated tables. *)
From Coq Require Import List Ascii String NArith Bool Lia.
From FB Require Import Lib.Layout Gen.RustABI Spec.KernelABI Proofs.ABI.
Import ListNotations.
Local Open Scope string_scope.
Local Open Scope list_scope.
Local Open Scope N_scope.

Lemma layouts_all : forall p, In p struct_pairs -> layout_agrees p.
Proof.
  intros p Hp. apply pair_ok_sound. revert p Hp. apply forallb_forall. vm_compute. reflexivity.
Qed.

Lemma structs_all_paired : all_structs_paired = true.
Proof. vm_compute. reflexivity. Qed.

Lemma consts_all : forall p, In p const_pairs -> const_agrees p.
Proof.
  intros p Hp. apply const_ok_sound. revert p Hp. apply forallb_forall. vm_compute. reflexivity.
Qed.

Lemma bitflags_all : forall g ps, In (g, ps) bitflag_pairs ->
  forall p, In p ps -> member_agrees rust_bitflags g p.
Proof.
  intros g ps Hg p Hp. apply member_ok_sound.
  assert (H : forallb (fun gp => forallb (member_ok rust_bitflags (fst gp)) (snd gp)) bitflag_pairs = true)
    by (vm_compute; reflexivity).
  rewrite forallb_forall in H. specialize (H _ Hg). cbn [fst snd] in H.
  rewrite forallb_forall in H. exact (H _ Hp).
Qed.

Lemma bitflags_covered : bitflags_all_covered = true.
Proof. vm_compute. reflexivity. Qed.

Lemma crate_only_free : crate_only_bits_free = true.
Proof. vm_compute. reflexivity. Qed.

Lemma opcodes_all : forall p, In p opcode_pairs -> member_agrees rust_enums "Opcode" p.
Proof.
  intros p Hp. apply member_ok_sound. revert p Hp. apply forallb_forall. vm_compute. reflexivity.
Qed.

Lemma notify_all : forall p, In p notify_pairs -> member_agrees rust_enums "NotifyOpcode" p.
Proof.
  intros p Hp. apply member_ok_sound. revert p Hp. apply forallb_forall. vm_compute. reflexivity.
Qed.

(* every enum variant is paired or is the crate's unsupported sentinel *)
Definition enum_covered : bool :=
  forallb (fun v => orb (String.eqb (fst v) unsupported_opcode)
                        (existsb (fun p => String.eqb (fst v) (fst p)) opcode_pairs)) opcode_enum
  && forallb (fun v => existsb (fun p => String.eqb (fst v) (fst p)) notify_pairs)
       (match lookup "NotifyOpcode" rust_enums with Some l => l | None => [] end).
Lemma enums_covered : enum_covered = true.
Proof. vm_compute. reflexivity. Qed.

Lemma opcode_total : forall n : N,
  opcode_from_disc n = Some (if memN n supported_opcodes then n else unsupported_value).
Proof. apply opcode_total_gen. vm_compute. reflexivity. Qed.

(* the sentinel is not the number of any opcode the crate must recognise *)
Lemma unsupported_not_supported : memN unsupported_value supported_opcodes = false.
Proof. vm_compute. reflexivity. Qed.

(* ------------------------------------------------------------- conversions *)
Lemma narrow_all sname narrow pairs :
  forallb (fun p => narrow_ok narrow p &&
                    match field_ity sname (fst p) with
                    | Some t => ity_eqb (dst_ty narrow (fst p)) t | None => false end) pairs = true ->
  forall p, In p pairs -> forall src param,
    exists t, field_ity sname (fst p) = Some t /\
              apply_conv narrow src param (fst p) = src (snd p) mod 2 ^ bits t.
Proof.
  intros H p Hp src param. rewrite forallb_forall in H. specialize (H _ Hp).
  apply andb_prop in H. destruct H as [H1 H2].
  destruct (field_ity sname (fst p)) as [t|]; [|discriminate].
  exists t. split; [reflexivity|].
  rewrite (narrow_sound _ _ _ _ H1).
  unfold ity_eqb in H2. apply andb_prop in H2. destruct H2 as [Hw _]. apply N.eqb_eq in Hw.
  unfold bits. rewrite Hw. reflexivity.
Qed.

Lemma widen_all sname widen pairs :
  forallb (fun p => widen_ok widen p &&
                    match field_ity sname (fst p) with
                    | Some t => ity_eqb (src_ty widen (snd p)) t | None => false end) pairs = true ->
  forall p, In p pairs -> forall src param t,
    field_ity sname (fst p) = Some t -> src (fst p) < 2 ^ bits t ->
    apply_conv widen src param (snd p) = src (fst p).
Proof.
  intros H p Hp src param t Ht Hv. rewrite forallb_forall in H. specialize (H _ Hp).
  apply andb_prop in H. destruct H as [H1 H2]. rewrite Ht in H2.
  apply widen_sound; [exact H1|].
  unfold ity_eqb in H2. apply andb_prop in H2. destruct H2 as [Hw _]. apply N.eqb_eq in Hw.
  unfold bits in *. rewrite Hw. exact Hv.
Qed.

Lemma attr_of_stat_ok : forall p, In p attr_stat_pairs -> forall st param,
  exists t, field_ity "Attr" (fst p) = Some t /\
            apply_conv rust_conv_attr_of_stat st param (fst p) = st (snd p) mod 2 ^ bits t.
Proof. apply (narrow_all "Attr" rust_conv_attr_of_stat). vm_compute. reflexivity. Qed.

Lemma attr_flags_param : forall st param,
  apply_conv rust_conv_attr_of_stat st param "flags" = param "flags".
Proof. intros. vm_compute. reflexivity. Qed.

Lemma stat_of_attr_ok : forall p, In p attr_stat_pairs -> forall a param t,
  field_ity "Attr" (fst p) = Some t -> a (fst p) < 2 ^ bits t ->
  apply_conv rust_conv_stat_of_attr a param (snd p) = a (fst p).
Proof. apply (widen_all "Attr"). vm_compute. reflexivity. Qed.

Lemma attr_roundtrip : forall p, In p attr_stat_pairs -> forall a z param t,
  field_ity "Attr" (fst p) = Some t -> a (fst p) < 2 ^ bits t ->
  apply_conv rust_conv_attr_of_stat (apply_conv rust_conv_stat_of_attr a z) param (fst p) = a (fst p).
Proof.
  intros p Hp a z param t Ht Hv.
  destruct (attr_of_stat_ok p Hp (apply_conv rust_conv_stat_of_attr a z) param) as [t' [Ht' E]].
  rewrite Ht in Ht'. injection Ht' as <-. rewrite E.
  rewrite (stat_of_attr_ok p Hp a z t Ht Hv). apply N.mod_small. exact Hv.
Qed.

(* every integer field of Attr except flags takes part in the pairing *)
Definition attr_fields_covered : bool :=
  match lookup "Attr" rust_structs with
  | None => false
  | Some fs => forallb (fun f => orb (String.eqb (fst f) "flags")
                                     (existsb (fun p => String.eqb (fst f) (fst p)) attr_stat_pairs)) fs
  end.
Lemma attr_covered : attr_fields_covered = true.
Proof. vm_compute. reflexivity. Qed.

Lemma kstatfs_ok : forall p, In p kstatfs_statvfs_pairs -> forall st param,
  exists t, field_ity "Kstatfs" (fst p) = Some t /\
            apply_conv rust_conv_kstatfs_of_statvfs st param (fst p) = st (snd p) mod 2 ^ bits t.
Proof. apply (narrow_all "Kstatfs" rust_conv_kstatfs_of_statvfs). vm_compute. reflexivity. Qed.

Lemma setattr_ok : forall p, In p setattr_stat_pairs -> forall a param t,
  field_ity "SetattrIn" (fst p) = Some t -> a (fst p) < 2 ^ bits t ->
  apply_conv rust_conv_stat_of_setattr a param (snd p) = a (fst p).
Proof. apply (widen_all "SetattrIn"). vm_compute. reflexivity. Qed.

(* ------------------------------------------------------------- twin entry points of the attribute conversion
   From<stat64> for Attr (every GETATTR / SETATTR reply) and From<Entry> for EntryOut (LOOKUP, CREATE, MKNOD,
   READDIRPLUS ... replies) reach the wire without going through the call sites of Attr::with_flags that the
   theorems above are about; they are translated on their own and meet the same specification. *)
Lemma attr_from_stat_ok : forall p, In p attr_stat_pairs -> forall st param,
  exists t, field_ity "Attr" (fst p) = Some t /\
            apply_conv rust_conv_attr_from_stat st param (fst p) = st (snd p) mod 2 ^ bits t.
Proof. apply (narrow_all "Attr" rust_conv_attr_from_stat). vm_compute. reflexivity. Qed.

Lemma attr_from_stat_flags : forall st param,
  apply_conv rust_conv_attr_from_stat st param "flags" = 0.
Proof. intros. vm_compute. reflexivity. Qed.

(* type of a leaf (nested path such as "attr.ino") of a crate struct *)
Definition leaf_ity (sname path : string) : option ity :=
  match struct_leaves rust_structs sname with
  | None => None
  | Some ls =>
    match find (fun l => String.eqb (l_path l) path) ls with
    | Some l => Some (l_width l, l_signed l)
    | None => None
    end
  end.

Lemma narrow_all_leaves sname narrow pairs :
  forallb (fun p => narrow_ok narrow p &&
                    match leaf_ity sname (fst p) with
                    | Some t => ity_eqb (dst_ty narrow (fst p)) t | None => false end) pairs = true ->
  forall p, In p pairs -> forall src param,
    exists t, leaf_ity sname (fst p) = Some t /\
              apply_conv narrow src param (fst p) = src (snd p) mod 2 ^ bits t.
Proof.
  intros H p Hp src param. rewrite forallb_forall in H. specialize (H _ Hp).
  apply andb_prop in H. destruct H as [H1 H2].
  destruct (leaf_ity sname (fst p)) as [t|]; [|discriminate].
  exists t. split; [reflexivity|].
  rewrite (narrow_sound _ _ _ _ H1).
  unfold ity_eqb in H2. apply andb_prop in H2. destruct H2 as [Hw _]. apply N.eqb_eq in Hw.
  unfold bits. rewrite Hw. reflexivity.
Qed.

(* every leaf of the reply structure = the paired field of the Entry (timeouts split into seconds / nanoseconds,
   the stat64 under "attr."), reduced to the wire width *)
Lemma entry_out_ok : forall p, In p entry_out_pairs -> forall e param,
  exists t, leaf_ity "EntryOut" (fst p) = Some t /\
            apply_conv rust_conv_entry_out e param (fst p) = e (snd p) mod 2 ^ bits t.
Proof. apply (narrow_all_leaves "EntryOut" rust_conv_entry_out). vm_compute. reflexivity. Qed.

Definition entry_out_fields_covered : bool :=
  match struct_leaves rust_structs "EntryOut" with
  | None => false
  | Some ls => forallb (fun l => existsb (fun p => String.eqb (l_path l) (fst p)) entry_out_pairs) ls
  end.
Lemma entry_out_covered : entry_out_fields_covered = true.
Proof. vm_compute. reflexivity. Qed.
