(* C15: handle discipline, descriptor balance, quiescence. *)
From Coq Require Import List NArith Bool Lia.
From FB Require Import Model.Inodes Model.Handles Proofs.InodesMap Proofs.Inodes.
Import ListNotations.
Local Open Scope N_scope.
Local Arguments N.add : simpl never.
Local Arguments N.sub : simpl never.
Local Arguments N.ltb : simpl never.
Local Arguments N.of_nat : simpl never.

(* ------------------------------------------------------------------ association lists: keys, lengths *)
Section Keys.
  Context {V : Type}.
  Implicit Types m : list (N * V).

  Lemma mget_in_keys m k v : mget N.eqb m k = Some v -> In k (map fst m).
  Proof.
    induction m as [|[k' v'] r IH]; cbn; [discriminate|].
    destruct (N.eqb_spec k k'); [auto|]. intros H. right. auto.
  Qed.
  Lemma keys_mget m k : In k (map fst m) -> exists v, mget N.eqb m k = Some v.
  Proof.
    induction m as [|[k' v'] r IH]; cbn; [contradiction|].
    destruct (N.eqb_spec k k'); [eauto|]. intros [E|H]; [congruence|auto].
  Qed.
  Lemma mdel_absent m k : mget N.eqb m k = None -> mdel N.eqb m k = m.
  Proof.
    induction m as [|[k' v'] r IH]; cbn; [reflexivity|].
    destruct (N.eqb_spec k k'); [discriminate|]. intros H. rewrite IH; auto.
  Qed.
  Lemma mdel_keys_incl m k j : In j (map fst (mdel N.eqb m k)) -> In j (map fst m) /\ j <> k.
  Proof.
    induction m as [|[k' v'] r IH]; cbn; [contradiction|].
    destruct (N.eqb_spec k k') as [E|E].
    - intros H. destruct (IH H). auto.
    - cbn. intros [H|H]; [subst; split; auto|]. destruct (IH H). auto.
  Qed.
  Lemma nodup_mdel m k : NoDup (map fst m) -> NoDup (map fst (mdel N.eqb m k)).
  Proof.
    induction m as [|[k' v'] r IH]; cbn; [auto|]. intros ND. inversion ND; subst.
    destruct (N.eqb_spec k k'); [auto|]. cbn. constructor; [|auto].
    intros H. apply mdel_keys_incl in H. tauto.
  Qed.
  Lemma nodup_mset m k v : NoDup (map fst m) -> NoDup (map fst (mset N.eqb m k v)).
  Proof.
    intros ND. unfold mset. cbn. constructor; [|apply nodup_mdel; exact ND].
    intros H. apply mdel_keys_incl in H. tauto.
  Qed.
  Lemma mdel_length_present m k v : NoDup (map fst m) -> mget N.eqb m k = Some v ->
    S (length (mdel N.eqb m k)) = length m.
  Proof.
    induction m as [|[k' v'] r IH]; cbn; [discriminate|]. intros ND. inversion ND; subst.
    destruct (N.eqb_spec k k') as [E|E].
    - subst. intros _. rewrite mdel_absent; [reflexivity|].
      destruct (mget N.eqb r k') eqn:G; [|reflexivity]. apply mget_in_keys in G. contradiction.
    - intros H. cbn. f_equal. eapply IH; eauto.
  Qed.
End Keys.

(* ------------------------------------------------------------------ invariants *)
Definition Bal (s : hstate) : Prop := fds s = fds_owned s + leaked s.
Definition HBound (s : hstate) : Prop := forall h i, hget s h = Some i -> h < next_handle s.
Definition HNoDup (s : hstate) : Prop := NoDup (map fst (handles s)).
Definition CookieSub (s : hstate) : Prop := forall h v, mget N.eqb (cookies s) h = Some v -> hget s h <> None.
Definition HInv (s : hstate) : Prop := Bal s /\ HBound s /\ HNoDup s /\ CookieSub s.

Lemma fresh_handle_absent s : HBound s -> hget s (next_handle s) = None.
Proof.
  intros B. destruct (hget s (next_handle s)) as [i|] eqn:E; [|reflexivity].
  specialize (B _ _ E). lia.
Qed.

Lemma wrap_h_small n : n < 18446744073709551616 -> wrap_h n = n.
Proof. intros. unfold wrap_h. apply N.mod_small. assumption. Qed.

(* ------------------------------------------------------------------ the handle table is the client's ledger of handles *)
Theorem handles_refine_ledger c s o :
  handles (snd (hstep c s o)) = hspec_step (handles s) o (fst (hstep c s o)).
Proof.
  destruct o as [o|dir i ok|dir i h|p t ex ok|plus i h host ents|kind i h|root]; cbn [hstep].
  - destruct (step (hc c) (ino s) o) as [r i1]. reflexivity.
  - destruct (if dir then no_opendir c else no_open c); [reflexivity|].
    destruct (negb (open_inode_ok s i)); [reflexivity|]. destruct (negb ok); reflexivity.
  - destruct (if dir then no_opendir c else no_open c); [reflexivity|].
    destruct (handle_get s h i); reflexivity.
  - destruct (step (hc c) (ino s) (OCreate p t ex ok)) as [r i1].
    destruct r; try reflexivity. destruct (no_open c); reflexivity.
  - destruct (if no_opendir c then open_inode_ok s i else handle_get s h i); [|reflexivity].
    destruct host as [b|]; [|reflexivity].
    destruct (readdir_entries (hc c) plus (ino s) ents). reflexivity.
  - reflexivity.
  - cbn. unfold h_import. cbn. destruct (eff_fh (hc c) root); reflexivity.
Qed.

(* get succeeds exactly for the pairs in the table *)
Theorem handle_get_iff s h i : handle_get s h i = true <-> hget s h = Some i.
Proof.
  unfold handle_get. destruct (hget s h) as [j|]; [|split; discriminate].
  destruct (N.eqb_spec j i); split; congruence.
Qed.

(* a new handle is the counter value: not in the table, larger than every handle in it *)
Theorem new_handle_fresh c s o h :
  HBound s -> next_handle s < U64MAX ->
  (fst (hstep c s o) = HOk (Some h) \/ exists i, fst (hstep c s o) = HCreated i (Some h)) ->
  h = next_handle s /\ hget s h = None /\ next_handle (snd (hstep c s o)) = h + 1.
Proof.
  intros B NW. unfold U64MAX in NW.
  destruct o as [o|dir i ok|dir i h0|p t ex ok|plus i h0 host ents|kind i h0|root]; cbn [hstep].
  - destruct (step (hc c) (ino s) o) as [r i1]. cbn. intros [X|[j X]]; discriminate.
  - destruct (if dir then no_opendir c else no_open c); [cbn; intros [X|[j X]]; discriminate|].
    destruct (negb (open_inode_ok s i)); [cbn; intros [X|[j X]]; discriminate|].
    destruct (negb ok); cbn; intros [X|[j X]]; try discriminate.
    inversion X; subst. rewrite wrap_h_small by lia. auto using fresh_handle_absent.
  - destruct (if dir then no_opendir c else no_open c); [cbn; intros [X|[j X]]; discriminate|].
    destruct (handle_get s h0 i); cbn; intros [X|[j X]]; discriminate.
  - destruct (step (hc c) (ino s) (OCreate p t ex ok)) as [r i1].
    destruct r; try (cbn; intros [X|[j X]]; discriminate).
    destruct (no_open c); cbn; intros [X|[j X]]; try discriminate.
    inversion X; subst. rewrite wrap_h_small by lia. auto using fresh_handle_absent.
  - destruct (if no_opendir c then open_inode_ok s i else handle_get s h0 i); [|cbn; intros [X|[j X]]; discriminate].
    destruct host as [b|]; [|cbn; intros [X|[j X]]; discriminate].
    destruct (readdir_entries (hc c) plus (ino s) ents). cbn; intros [X|[j X]]; discriminate.
  - cbn. intros [X|[j X]]; destruct kind as [|[[q|q|]|[q|q|]|]]; cbn in X;
      repeat match type of X with context[if ?b then _ else _] => destruct b end; discriminate.
  - cbn. intros [X|[j X]]; discriminate.
Qed.

(* ------------------------------------------------------------------ the invariant is preserved *)
Lemma inv_with_ino s i1 : HInv s -> HInv (with_ino s i1 (fds_after_ino s i1)).
Proof.
  intros (B & HB & ND & CS). unfold HInv, Bal, HBound, HNoDup, CookieSub, with_ino, fds_after_ino, fds_owned, hget in *.
  cbn [ino handles cookies next_handle mount_live fds leaked]. repeat split; auto. lia.
Qed.

Lemma mount_get_bal live f k : let '(l, f', k') := mount_get live f k in
  l = true /\ f' + (if live then 1 else 0) + k = f + 1 + k' + (if live then 0 else 0) /\ (k' = if live then k else k + 1).
Proof. unfold mount_get. destruct live; cbn; repeat split; lia. Qed.

Lemma h_import_inv c s root :
  data (ino s) = [] -> handles s = [] -> cookies s = [] -> mount_live s = false -> fds s = 2 + leaked s ->
  HInv (h_import c s root) /\
  leaked (h_import c s root) = leaked s + (if is_none (eff_fh (hc c) root) then 0 else 1) /\
  next_handle (h_import c s root) = next_handle s.
Proof.
  intros D H C M F. unfold h_import, import, insert. rewrite M. cbn [mount_get].
  destruct (eff_fh (hc c) root) as [fh|] eqn:E; cbn [is_none].
  - split; [|split; reflexivity].
    unfold HInv, Bal, HBound, HNoDup, CookieSub, fds_owned, file_inodes, hget. cbn. rewrite D, H, C. cbn.
    repeat split; try discriminate; try constructor. lia.
  - split; [|split; [cbn [leaked]; lia|reflexivity]].
    unfold HInv, Bal, HBound, HNoDup, CookieSub, fds_owned, file_inodes, hget. cbn. rewrite D, H, C. cbn.
    repeat split; try discriminate; try constructor. lia.
Qed.

Theorem hstep_inv c s o :
  HInv s -> next_handle s < U64MAX -> HInv (snd (hstep c s o)).
Proof.
  intros I NW. pose proof I as (B & HB & ND & CS). unfold U64MAX in NW.
  destruct o as [o|dir i ok|dir i h|p t ex ok|plus i h host ents|kind i h|root]; cbn [hstep].
  - destruct (step (hc c) (ino s) o) as [r i1]. cbn [snd]. apply inv_with_ino; exact I.
  - destruct (if dir then no_opendir c else no_open c); [exact I|].
    destruct (negb (open_inode_ok s i)); [exact I|]. destruct (negb ok); [exact I|]. cbn [snd].
    pose proof (fresh_handle_absent s HB) as FA. unfold hget in FA.
    unfold HInv, Bal, HBound, HNoDup, CookieSub, fds_owned, hget in *. cbn.
    rewrite (mdel_absent _ _ FA). rewrite wrap_h_small by lia. repeat split.
    + cbn [length]. rewrite Nat2N.inj_succ. lia.
    + intros h j. destruct (N.eqb_spec h (next_handle s)); [intros _; lia|]. intros X. specialize (HB _ _ X). lia.
    + constructor; [|exact ND]. intros X. apply keys_mget in X. destruct X as [v X]. congruence.
    + intros h v X. destruct (N.eqb_spec h (next_handle s)); [discriminate|]. eapply CS; eauto.
  - destruct (if dir then no_opendir c else no_open c); [exact I|].
    destruct (handle_get s h i) eqn:G; [|exact I]. cbn [snd].
    apply handle_get_iff in G. unfold hget in G.
    pose proof (mdel_length_present _ _ _ ND G) as L.
    unfold HInv, Bal, HBound, HNoDup, CookieSub, fds_owned, hget in *. cbn. repeat split.
    + lia.
    + intros h0 j. rewrite nnget_del. destruct (h0 =? h); [discriminate|apply HB].
    + apply nodup_mdel; exact ND.
    + intros h0 v. rewrite !nnget_del. destruct (h0 =? h); [discriminate|]. apply CS.
  - destruct (step (hc c) (ino s) (OCreate p t ex ok)) as [r i1] eqn:ST.
    pose proof (inv_with_ino s i1 I) as I1.
    destruct r; cbn [snd]; try exact I1.
    destruct (no_open c); cbn [snd]; [exact I1|].
    destruct I1 as (B1 & _ & _ & _).
    pose proof (fresh_handle_absent s HB) as FA. unfold hget in FA.
    unfold HInv, Bal, HBound, HNoDup, CookieSub, fds_owned, hget, with_ino in *. cbn in *.
    rewrite (mdel_absent _ _ FA). rewrite wrap_h_small by lia. repeat split.
    + cbn [length]. rewrite Nat2N.inj_succ. lia.
    + intros h j. destruct (N.eqb_spec h (next_handle s)); [intros _; lia|]. intros X. specialize (HB _ _ X). lia.
    + constructor; [|exact ND]. intros X. apply keys_mget in X. destruct X as [v X]. congruence.
    + intros h v X. destruct (N.eqb_spec h (next_handle s)); [discriminate|]. eapply CS; eauto.
  - destruct (if no_opendir c then open_inode_ok s i else handle_get s h i) eqn:G; [|exact I].
    assert (CK : forall ck, (ck = cookies s \/ ck = mdel N.eqb (cookies s) h \/
                             (no_opendir c = false /\ ck = mset N.eqb (mdel N.eqb (cookies s) h) h 0)) ->
                 forall h0 v, mget N.eqb ck h0 = Some v -> mget N.eqb (handles s) h0 <> None).
    { intros ck [->|[->|[NO ->]]] h0 v.
      - apply CS.
      - rewrite nnget_del. destruct (h0 =? h); [discriminate|apply CS].
      - rewrite NO in G. apply handle_get_iff in G. unfold hget in G.
        rewrite nnget_set. destruct (N.eqb_spec h0 h); [subst; intros _; congruence|].
        rewrite nnget_del. destruct (h0 =? h); [discriminate|apply CS]. }
    set (ck := if no_opendir c then cookies s else match host with Some true => _ | _ => _ end).
    assert (CKS : ck = cookies s \/ ck = mdel N.eqb (cookies s) h \/
                  (no_opendir c = false /\ ck = mset N.eqb (mdel N.eqb (cookies s) h) h 0)).
    { unfold ck. destruct (no_opendir c); [auto|]. destruct host as [[|]|]; auto. }
    specialize (CK ck CKS).
    destruct host as [b|].
    + destruct (readdir_entries (hc c) plus (ino s) ents) as [l i1]. cbn [snd].
      destruct (inv_with_ino s i1 I) as (B1 & _).
      unfold HInv, Bal, HBound, HNoDup, CookieSub, fds_owned, hget, with_ino in *. cbn in *. repeat split; auto.
    + cbn [snd]. unfold HInv, Bal, HBound, HNoDup, CookieSub, fds_owned, hget in *. cbn. repeat split; auto.
  - exact I.
  - cbn [snd].
    apply h_import_inv; cbn; auto.
    unfold Bal, fds_owned in B. lia.
Qed.

(* descriptors that no table entry owns appear only in MountFds::get (import with a file handle) *)
Theorem leaked_only_in_import c s o :
  HInv s ->
  leaked (snd (hstep c s o)) =
  leaked s + match o with HDestroy root => if is_none (eff_fh (hc c) root) then 0 else 1 | _ => 0 end.
Proof.
  intros I. pose proof I as (B & HB & ND & CS).
  destruct o as [o|dir i ok|dir i h|p t ex ok|plus i h host ents|kind i h|root]; cbn [hstep].
  - destruct (step (hc c) (ino s) o) as [r i1]. cbn. lia.
  - destruct (if dir then no_opendir c else no_open c); [cbn; lia|].
    destruct (negb (open_inode_ok s i)); [cbn; lia|]. destruct (negb ok); cbn; lia.
  - destruct (if dir then no_opendir c else no_open c); [cbn; lia|]. destruct (handle_get s h i); cbn; lia.
  - destruct (step (hc c) (ino s) (OCreate p t ex ok)) as [r i1].
    destruct r; cbn; try lia. destruct (no_open c); cbn; lia.
  - destruct (if no_opendir c then open_inode_ok s i else handle_get s h i); [|cbn; lia].
    destruct host as [b|]; [|cbn; lia]. destruct (readdir_entries (hc c) plus (ino s) ents). cbn. lia.
  - cbn. lia.
  - cbn [snd]. match goal with |- leaked (h_import c ?s0 root) = _ => destruct (h_import_inv c s0 root) as (_ & L & _) end;
      cbn; auto. unfold Bal, fds_owned in B. lia.
Qed.

Lemma h_fresh_inv c root : HInv (h_fresh c root) /\
  leaked (h_fresh c root) = (if is_none (eff_fh (hc c) root) then 0 else 1) /\ next_handle (h_fresh c root) = 1.
Proof.
  unfold h_fresh. destruct (h_import_inv c h_empty root) as (A & B & C); cbn; auto.
Qed.

Lemma next_handle_step c s o : next_handle s < U64MAX ->
  next_handle s <= next_handle (snd (hstep c s o)) /\ next_handle (snd (hstep c s o)) <= next_handle s + 1.
Proof.
  intros NW. unfold U64MAX in NW.
  destruct o as [o|dir i ok|dir i h|p t ex ok|plus i h host ents|kind i h|root]; cbn [hstep].
  - destruct (step (hc c) (ino s) o) as [r i1]. cbn. lia.
  - destruct (if dir then no_opendir c else no_open c); [cbn; lia|].
    destruct (negb (open_inode_ok s i)); [cbn; lia|]. destruct (negb ok); cbn; [lia|]. rewrite wrap_h_small by lia. lia.
  - destruct (if dir then no_opendir c else no_open c); [cbn; lia|]. destruct (handle_get s h i); cbn; lia.
  - destruct (step (hc c) (ino s) (OCreate p t ex ok)) as [r i1].
    destruct r; cbn; try lia. destruct (no_open c); cbn; [lia|]. rewrite wrap_h_small by lia. lia.
  - destruct (if no_opendir c then open_inode_ok s i else handle_get s h i); [|cbn; lia].
    destruct host as [b|]; [|cbn; lia]. destruct (readdir_entries (hc c) plus (ino s) ents). cbn. lia.
  - cbn. lia.
  - cbn [snd]. unfold h_import. cbn. destruct (eff_fh (hc c) root); cbn; lia.
Qed.

(* ------------------------------------------------------------------ whole histories *)
Theorem hrun_inv c : forall h s,
  HInv s -> next_handle s + N.of_nat (length h) <= U64MAX ->
  HInv (snd (hrun c s h)) /\
  leaked (snd (hrun c s h)) =
    leaked s + N.of_nat (length (filter (known_d8 c) h)).
Proof.
  induction h as [|o h IH]; intros s I NW; cbn [hrun filter length].
  - cbn. split; [exact I|lia].
  - cbn [length] in NW. rewrite Nat2N.inj_succ in NW.
    assert (NW1 : next_handle s < U64MAX) by lia.
    pose proof (hstep_inv c s o I NW1) as I1.
    pose proof (leaked_only_in_import c s o I) as L1.
    pose proof (next_handle_step c s o NW1) as [_ N1].
    destruct (hstep c s o) as [rep s1]; cbn [snd] in *.
    assert (NW2 : next_handle s1 + N.of_nat (length h) <= U64MAX) by lia.
    destruct (IH s1 I1 NW2) as [A B].
    destruct (hrun c s1 h) as [l s2]; cbn [snd] in *. split; [exact A|].
    rewrite B, L1. unfold known_d8 at 2. destruct o; cbn [length]; try lia.
    destruct (is_none (eff_fh (hc c) root)); cbn [negb length]; [lia|rewrite Nat2N.inj_succ; lia].
Qed.

(* after the client released every handle: no handle, no directory-position record, and every
   descriptor is owned by an inode object, the mount table, or is one of the leaked ones *)
Theorem quiescent_tables s :
  HInv s -> handles s = [] ->
  cookies s = [] /\ fds s = 2 + file_inodes (ino s) + (if mount_live s then 1 else 0) + leaked s.
Proof.
  intros (B & HB & ND & CS) H. split.
  - apply (mget_none_nil N.eqb N.eqb_spec). intros k.
    destruct (mget N.eqb (cookies s) k) as [v|] eqn:E; [|reflexivity].
    exfalso. apply (CS _ _ E). unfold hget. rewrite H. reflexivity.
  - unfold Bal, fds_owned in B. rewrite H in B. cbn [length] in B. lia.
Qed.

(* the only live inode object is the root: the table is the one-entry list *)
Lemma only_root_data (m : list (N * idata)) d :
  NoDup (map fst m) -> mget N.eqb m ROOT_ID = Some d -> (forall i, i <> ROOT_ID -> mget N.eqb m i = None) ->
  m = [(ROOT_ID, d)].
Proof.
  intros ND R O. destruct m as [|[k v] r]; [discriminate|].
  assert (K : k = ROOT_ID).
  { destruct (N.eq_dec k ROOT_ID) as [E|E]; [exact E|]. specialize (O k E). cbn in O. rewrite N.eqb_refl in O. discriminate. }
  subst k. cbn in R. try rewrite N.eqb_refl in R. inversion R; subst. f_equal.
  destruct r as [|[k2 v2] r2]; [reflexivity|]. exfalso.
  inversion ND as [|? ? NI ND2]; subst.
  destruct (N.eq_dec k2 ROOT_ID) as [E|E].
  - subst. apply NI. left. reflexivity.
  - specialize (O k2 E). cbn in O. destruct (N.eqb_spec k2 ROOT_ID); [contradiction|]. rewrite N.eqb_refl in O. discriminate.
Qed.

Theorem quiescent_partial c root s d :
  HInv s -> handles s = [] -> NoDup (map fst (data (ino s))) ->
  dget (ino s) ROOT_ID = Some d -> i_fh d = eff_fh (hc c) root ->
  (forall i, i <> ROOT_ID -> dget (ino s) i = None) ->
  mount_live s = mount_live (h_fresh c root) ->
  cookies s = [] /\ length (data (ino s)) = 1%nat /\
  fds s + leaked (h_fresh c root) = fds (h_fresh c root) + leaked s.
Proof.
  intros I H ND R FH O ML. destruct (quiescent_tables s I H) as [C F]. split; [exact C|].
  pose proof (only_root_data _ _ ND R O) as D. split; [rewrite D; reflexivity|].
  destruct (h_fresh_inv c root) as ((BF & _) & LF & _).
  unfold Bal, fds_owned in BF. rewrite F, BF, ML.
  assert (X : file_inodes (ino s) = file_inodes (ino (h_fresh c root))).
  { unfold file_inodes. rewrite D. unfold h_fresh, h_import, import, insert. cbn.
    destruct (eff_fh (hc c) root) eqn:E; cbn; rewrite FH; cbn; rewrite ?E; reflexivity. }
  assert (HF : handles (h_fresh c root) = []).
  { unfold h_fresh, h_import. cbn. destruct (eff_fh (hc c) root); reflexivity. }
  rewrite X, HF. cbn [length]. lia.
Qed.

(* ------------------------------------------------------------------ the full statement and its refutation (defect D8) *)
Definition quiescent_full : Prop := forall c root h,
  N.of_nat (length h) + 1 <= U64MAX ->
  let s := snd (hrun c (h_fresh c root) h) in
  handles s = [] -> (forall i, i <> ROOT_ID -> dget (ino s) i = None) ->
  fds s = fds (h_fresh c root).

Definition d8_cfg : hcfg := mkHC (mkCfg true false) false false.
Definition d8_root : target := mkT (100, 1, 1) (Some 7) true.
Definition d8_hist : list hop := [HDestroy d8_root].

Lemma quiescent_full_refuted : ~ quiescent_full.
Proof.
  intros H. specialize (H d8_cfg d8_root d8_hist).
  assert (B : N.of_nat (length d8_hist) + 1 <= U64MAX) by (vm_compute; discriminate).
  specialize (H B eq_refl).
  assert (O : forall i, i <> ROOT_ID -> dget (ino (snd (hrun d8_cfg (h_fresh d8_cfg d8_root) d8_hist))) i = None).
  { intros i NE. vm_compute. destruct i as [|[p|p|]]; try reflexivity. exfalso. apply NE. reflexivity. }
  specialize (H O). vm_compute in H. discriminate.
Qed.

Lemma d8_witness_shape :
  fds (h_fresh d8_cfg d8_root) = 4 /\ leaked (h_fresh d8_cfg d8_root) = 1 /\
  fds (snd (hrun d8_cfg (h_fresh d8_cfg d8_root) d8_hist)) = 5 /\
  leaked (snd (hrun d8_cfg (h_fresh d8_cfg d8_root) d8_hist)) = 2 /\
  fds_owned (snd (hrun d8_cfg (h_fresh d8_cfg d8_root) d8_hist)) = 3.
Proof. vm_compute. auto. Qed.

(* outside the known class the number of unowned descriptors never changes *)
Theorem no_leak_outside_d8 c root h :
  1 + N.of_nat (length h) <= U64MAX -> filter (known_d8 c) h = [] ->
  let s := snd (hrun c (h_fresh c root) h) in
  HInv s /\ leaked s = leaked (h_fresh c root) /\ fds s = fds_owned s + leaked (h_fresh c root).
Proof.
  intros NW K. destruct (h_fresh_inv c root) as (I & L & NH).
  assert (NW1 : next_handle (h_fresh c root) + N.of_nat (length h) <= U64MAX) by (rewrite NH; exact NW).
  destruct (hrun_inv c h (h_fresh c root) I NW1) as [A B]. rewrite K in B. cbn [length] in B.
  cbn zeta. split; [exact A|]. split; [lia|]. destruct A as (BA & _). unfold Bal in BA. rewrite BA. lia.
Qed.

Definition ex15_hist : list hop :=
  [HInode (OLookup 1 (Some ex_a)); HOpen false 2 true; HUse 4 2 1; HRelease false 2 1;
   HCreate 1 (Some ex_a) true true; HRelease false 2 2; HInode (OForget 2 2); HDestroy d9_root].
Lemma ex15_ok :
  let c := mkHC d9_cfg false false in
  filter (known_d8 c) ex15_hist = [] /\
  fst (hrun c (h_fresh c d9_root) ex15_hist) =
    [HR (RIno 2); HOk (Some 1); HHost; HUnit; HCreated 2 (Some 2); HUnit; HR RUnit; HUnit] /\
  fds (snd (hrun c (h_fresh c d9_root) ex15_hist)) = fds (h_fresh c d9_root).
Proof. vm_compute. auto. Qed.
