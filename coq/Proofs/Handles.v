(* C15: handle discipline, descriptor balance, quiescence. *)
From Coq Require Import List NArith Bool Lia.
From FB Require Import Model.Inodes Model.Handles Proofs.InodesMap Proofs.Inodes Proofs.InodesNum.
Import ListNotations.
Local Open Scope N_scope.
Local Arguments N.add : simpl never.
Local Arguments N.sub : simpl never.
Local Arguments N.ltb : simpl never.
Local Arguments N.of_nat : simpl never.

(* ------------------------------------------------------------------ association lists: keys, lengths *)
Section Keys.
  Context {V : Type}.
  Implicit Types m : list (N * V).

  Lemma mget_in_keys m k v : mget N.eqb m k = Some v -> In k (map fst m).
  Proof.
    induction m as [|[k' v'] r IH]; cbn; [discriminate|].
    destruct (N.eqb_spec k k'); [auto|]. intros H. right. auto.
  Qed.
  Lemma keys_mget m k : In k (map fst m) -> exists v, mget N.eqb m k = Some v.
  Proof.
    induction m as [|[k' v'] r IH]; cbn; [contradiction|].
    destruct (N.eqb_spec k k'); [eauto|]. intros [E|H]; [congruence|auto].
  Qed.
  Lemma mdel_absent m k : mget N.eqb m k = None -> mdel N.eqb m k = m.
  Proof.
    induction m as [|[k' v'] r IH]; cbn; [reflexivity|].
    destruct (N.eqb_spec k k'); [discriminate|]. intros H. rewrite IH; auto.
  Qed.
  Lemma mdel_keys_incl m k j : In j (map fst (mdel N.eqb m k)) -> In j (map fst m) /\ j <> k.
  Proof.
    induction m as [|[k' v'] r IH]; cbn; [contradiction|].
    destruct (N.eqb_spec k k') as [E|E].
    - intros H. destruct (IH H). auto.
    - cbn. intros [H|H]; [subst; split; auto|]. destruct (IH H). auto.
  Qed.
  Lemma nodup_mdel m k : NoDup (map fst m) -> NoDup (map fst (mdel N.eqb m k)).
  Proof.
    induction m as [|[k' v'] r IH]; cbn; [auto|]. intros ND. inversion ND; subst.
    destruct (N.eqb_spec k k'); [auto|]. cbn. constructor; [|auto].
    intros H. apply mdel_keys_incl in H. tauto.
  Qed.
  Lemma nodup_mset m k v : NoDup (map fst m) -> NoDup (map fst (mset N.eqb m k v)).
  Proof.
    intros ND. unfold mset. cbn. constructor; [|apply nodup_mdel; exact ND].
    intros H. apply mdel_keys_incl in H. tauto.
  Qed.
  Lemma mdel_length_present m k v : NoDup (map fst m) -> mget N.eqb m k = Some v ->
    S (length (mdel N.eqb m k)) = length m.
  Proof.
    induction m as [|[k' v'] r IH]; cbn; [discriminate|]. intros ND. inversion ND; subst.
    destruct (N.eqb_spec k k') as [E|E].
    - subst. intros _. rewrite mdel_absent; [reflexivity|].
      destruct (mget N.eqb r k') eqn:G; [|reflexivity]. apply mget_in_keys in G. contradiction.
    - intros H. cbn. f_equal. eapply IH; eauto.
  Qed.
End Keys.

(* ------------------------------------------------------------------ invariants *)
Definition Bal (s : hstate) : Prop := fds s = fds_owned s + leaked s.
Definition HBound (s : hstate) : Prop := forall h i, hget s h = Some i -> h < next_handle s.
Definition HNoDup (s : hstate) : Prop := NoDup (map fst (handles s)).
Definition CookieSub (s : hstate) : Prop := forall h v, mget N.eqb (cookies s) h = Some v -> hget s h <> None.
Definition HInv (s : hstate) : Prop := Bal s /\ HBound s /\ HNoDup s /\ CookieSub s.

Lemma fresh_handle_absent s : HBound s -> hget s (next_handle s) = None.
Proof.
  intros B. destruct (hget s (next_handle s)) as [i|] eqn:E; [|reflexivity].
  specialize (B _ _ E). lia.
Qed.

Lemma wrap_h_small n : n < 18446744073709551616 -> wrap_h n = n.
Proof. intros. unfold wrap_h. apply N.mod_small. assumption. Qed.

(* requests that only present (inode, handle): they answer with a table error or whatever the host says,
   and change nothing but (read / write) the flags recorded for the handle *)
Lemma huse_cases c s kind i h :
  exists r s', hstep c s (HUse kind i h) = (r, s') /\ (r = HHost \/ exists e, r = HErr e) /\
               (s' = s \/ exists m, s' = set_oflags s m).
Proof.
  assert (CF : forall fl, check_fd_flags s h fl = s \/ exists m, check_fd_flags s h fl = set_oflags s m).
  { intros fl. unfold check_fd_flags. destruct (mget N.eqb (oflags s) h) as [f|]; [|left; reflexivity].
    destruct (f =? fl); [left; reflexivity|right; eauto]. }
  cbn [hstep].
  destruct kind as [|p]; [|destruct p as [p|p|]; [destruct p as [p|p|]; [destruct p as [p|p|]| destruct p as [p|p|]|]
                                                  |destruct p as [p|p|]; [destruct p as [p|p|]|destruct p as [p|p|]; [|destruct p as [p|p|]|]|]|]];
    repeat match goal with
           | |- context[if ?b then _ else _] => destruct b
           end;
    try (do 2 eexists; split; [reflexivity|split; [first [left; reflexivity|right; eexists; reflexivity]|first [left; reflexivity|apply CF]]]).
Qed.


(* ------------------------------------------------------------------ the handle table is the client's ledger of handles *)
Theorem handles_refine_ledger c s o :
  handles (snd (hstep c s o)) = hspec_step (handles s) o (fst (hstep c s o)).
Proof.
  destruct o as [o|dir i ok|dir i h fl|p t ex ok|plus i h host ents|kind i h|root]; cbn [hstep].
  - destruct (step (hc c) (ino s) o) as [r i1]. reflexivity.
  - destruct (if dir then no_opendir c else no_open c); [reflexivity|].
    destruct (negb (open_inode_ok s i)); [reflexivity|]. destruct (negb ok); reflexivity.
  - destruct (if dir then no_opendir c else no_open c); [reflexivity|].
    destruct (handle_get s h i); reflexivity.
  - destruct (step (hc c) (ino s) (OCreate p t ex ok)) as [r i1].
    destruct r; try reflexivity. destruct (no_open c); reflexivity.
  - destruct (if no_opendir c then open_inode_ok s i else handle_get s h i); [|reflexivity].
    destruct host as [b|]; [|reflexivity]. destruct (valid (ino s) i); [|reflexivity].
    destruct (readdir_entries (hc c) plus (ino s) ents). reflexivity.
  - destruct (huse_cases c s kind i h) as (r & s' & E & [->|[e ->]] & [->|[m ->]]); cbn [hstep] in E; rewrite E; reflexivity.
  - cbn. unfold h_import. cbn. destruct (eff_fh (hc c) root); reflexivity.
Qed.

(* get succeeds exactly for the pairs in the table *)
Theorem handle_get_iff s h i : handle_get s h i = true <-> hget s h = Some i.
Proof.
  unfold handle_get. destruct (hget s h) as [j|]; [|split; discriminate].
  destruct (N.eqb_spec j i); split; congruence.
Qed.

(* a new handle is the counter value: not in the table, larger than every handle in it *)
Theorem new_handle_fresh c s o h :
  HBound s -> next_handle s < U64MAX ->
  (fst (hstep c s o) = HOk (Some h) \/ exists i, fst (hstep c s o) = HCreated i (Some h)) ->
  h = next_handle s /\ hget s h = None /\ next_handle (snd (hstep c s o)) = h + 1.
Proof.
  intros B NW. unfold U64MAX in NW.
  destruct o as [o|dir i ok|dir i h0 fl|p t ex ok|plus i h0 host ents|kind i h0|root]; cbn [hstep].
  - destruct (step (hc c) (ino s) o) as [r i1]. cbn. intros [X|[j X]]; discriminate.
  - destruct (if dir then no_opendir c else no_open c); [cbn; intros [X|[j X]]; discriminate|].
    destruct (negb (open_inode_ok s i)); [cbn; intros [X|[j X]]; discriminate|].
    destruct (negb ok); cbn; intros [X|[j X]]; try discriminate.
    inversion X; subst. rewrite wrap_h_small by lia. auto using fresh_handle_absent.
  - destruct (if dir then no_opendir c else no_open c); [cbn; intros [X|[j X]]; discriminate|].
    destruct (handle_get s h0 i); cbn; intros [X|[j X]]; discriminate.
  - destruct (step (hc c) (ino s) (OCreate p t ex ok)) as [r i1].
    destruct r; try (cbn; intros [X|[j X]]; discriminate).
    destruct (no_open c); cbn; intros [X|[j X]]; try discriminate.
    inversion X; subst. rewrite wrap_h_small by lia. auto using fresh_handle_absent.
  - destruct (if no_opendir c then open_inode_ok s i else handle_get s h0 i); [|cbn; intros [X|[j X]]; discriminate].
    destruct host as [b|]; [|cbn; intros [X|[j X]]; discriminate]. destruct (valid (ino s) i); [|cbn; intros [X|[j X]]; discriminate].
    destruct (readdir_entries (hc c) plus (ino s) ents). cbn; intros [X|[j X]]; discriminate.
  - destruct (huse_cases c s kind i h0) as (r & s' & E & [->|[e ->]] & _); cbn [hstep] in E; rewrite E; cbn; intros [X|[j X]]; discriminate.
  - cbn. intros [X|[j X]]; discriminate.
Qed.

(* ------------------------------------------------------------------ the invariant is preserved *)
Lemma inv_with_ino s i1 : HInv s -> HInv (with_ino s i1 (fds_after_ino s i1)).
Proof.
  intros (B & HB & ND & CS). unfold HInv, Bal, HBound, HNoDup, CookieSub, with_ino, fds_after_ino, fds_owned, hget in *.
  cbn [ino handles cookies next_handle mount_live fds leaked]. repeat split; auto. lia.
Qed.

Lemma h_import_inv c s root :
  data (ino s) = [] -> handles s = [] -> cookies s = [] -> mount_live s = false -> fds s = 2 + leaked s ->
  HInv (h_import c s root) /\
  leaked (h_import c s root) = leaked s /\
  next_handle (h_import c s root) = next_handle s.
Proof.
  intros D H C M F. unfold h_import, import, insert. rewrite M. cbn [mount_get].
  destruct (eff_fh (hc c) root) as [fh|] eqn:E; cbn [is_none].
  - split; [|split; reflexivity].
    unfold HInv, Bal, HBound, HNoDup, CookieSub, fds_owned, file_inodes, hget. cbn. rewrite D, H, C. cbn.
    repeat split; try discriminate; try constructor. lia.
  - split; [|split; reflexivity].
    unfold HInv, Bal, HBound, HNoDup, CookieSub, fds_owned, file_inodes, hget. cbn. rewrite D, H, C. cbn.
    repeat split; try discriminate; try constructor. lia.
Qed.

Theorem hstep_inv c s o :
  HInv s -> next_handle s < U64MAX -> HInv (snd (hstep c s o)).
Proof.
  intros I NW. pose proof I as (B & HB & ND & CS). unfold U64MAX in NW.
  destruct o as [o|dir i ok|dir i h fl|p t ex ok|plus i h host ents|kind i h|root]; cbn [hstep].
  - destruct (step (hc c) (ino s) o) as [r i1]. cbn [snd]. apply inv_with_ino; exact I.
  - destruct (if dir then no_opendir c else no_open c); [exact I|].
    destruct (negb (open_inode_ok s i)); [exact I|]. destruct (negb ok); [exact I|]. cbn [snd].
    pose proof (fresh_handle_absent s HB) as FA. unfold hget in FA.
    unfold HInv, Bal, HBound, HNoDup, CookieSub, fds_owned, hget in *. cbn.
    rewrite (mdel_absent _ _ FA). rewrite wrap_h_small by lia. repeat split.
    + cbn [length]. rewrite Nat2N.inj_succ. lia.
    + intros h j. destruct (N.eqb_spec h (next_handle s)); [intros _; lia|]. intros X. specialize (HB _ _ X). lia.
    + constructor; [|exact ND]. intros X. apply keys_mget in X. destruct X as [v X]. congruence.
    + intros h v X. destruct (N.eqb_spec h (next_handle s)); [discriminate|]. eapply CS; eauto.
  - destruct (if dir then no_opendir c else no_open c); [exact I|].
    destruct (handle_get s h i) eqn:G; [|exact I]. cbn [snd].
    apply handle_get_iff in G. unfold hget in G.
    pose proof (mdel_length_present _ _ _ ND G) as L.
    unfold HInv, Bal, HBound, HNoDup, CookieSub, fds_owned, hget in *. cbn. repeat split.
    + lia.
    + intros h0 j. rewrite nnget_del. destruct (h0 =? h); [discriminate|apply HB].
    + apply nodup_mdel; exact ND.
    + intros h0 v. rewrite !nnget_del. destruct (h0 =? h); [discriminate|]. apply CS.
  - destruct (step (hc c) (ino s) (OCreate p t ex ok)) as [r i1] eqn:ST.
    pose proof (inv_with_ino s i1 I) as I1.
    destruct r; cbn [snd]; try exact I1.
    destruct (no_open c); cbn [snd]; [exact I1|].
    destruct I1 as (B1 & _ & _ & _).
    pose proof (fresh_handle_absent s HB) as FA. unfold hget in FA.
    unfold HInv, Bal, HBound, HNoDup, CookieSub, fds_owned, hget, with_ino in *. cbn in *.
    rewrite (mdel_absent _ _ FA). rewrite wrap_h_small by lia. repeat split.
    + cbn [length]. rewrite Nat2N.inj_succ. lia.
    + intros h j. destruct (N.eqb_spec h (next_handle s)); [intros _; lia|]. intros X. specialize (HB _ _ X). lia.
    + constructor; [|exact ND]. intros X. apply keys_mget in X. destruct X as [v X]. congruence.
    + intros h v X. destruct (N.eqb_spec h (next_handle s)); [discriminate|]. eapply CS; eauto.
  - destruct (if no_opendir c then open_inode_ok s i else handle_get s h i) eqn:G; [|exact I].
    assert (CK : forall ck, (ck = cookies s \/ ck = mdel N.eqb (cookies s) h \/
                             (no_opendir c = false /\ ck = mset N.eqb (mdel N.eqb (cookies s) h) h 0)) ->
                 forall h0 v, mget N.eqb ck h0 = Some v -> mget N.eqb (handles s) h0 <> None).
    { intros ck [->|[->|[NO ->]]] h0 v.
      - apply CS.
      - rewrite nnget_del. destruct (h0 =? h); [discriminate|apply CS].
      - rewrite NO in G. apply handle_get_iff in G. unfold hget in G.
        rewrite nnget_set. destruct (N.eqb_spec h0 h); [subst; intros _; congruence|].
        rewrite nnget_del. destruct (h0 =? h); [discriminate|apply CS]. }
    set (ck := if no_opendir c then cookies s else match host with Some true => _ | _ => _ end).
    assert (CKS : ck = cookies s \/ ck = mdel N.eqb (cookies s) h \/
                  (no_opendir c = false /\ ck = mset N.eqb (mdel N.eqb (cookies s) h) h 0)).
    { unfold ck. destruct (no_opendir c); [auto|]. destruct host as [[|]|]; auto. }
    specialize (CK ck CKS).
    destruct host as [b|]; [destruct (valid (ino s) i)|].
    + destruct (readdir_entries (hc c) plus (ino s) ents) as [l i1]. cbn [snd].
      destruct (inv_with_ino s i1 I) as (B1 & _).
      unfold HInv, Bal, HBound, HNoDup, CookieSub, fds_owned, hget, with_ino in *. cbn in *. repeat split; auto.
    + cbn [snd]. unfold HInv, Bal, HBound, HNoDup, CookieSub, fds_owned, hget in *. cbn. repeat split; auto.
    + cbn [snd]. unfold HInv, Bal, HBound, HNoDup, CookieSub, fds_owned, hget in *. cbn. repeat split; auto.
  - destruct (huse_cases c s kind i h) as (r & s' & E & _ & [->|[m ->]]); cbn [hstep] in E; rewrite E; exact I.
  - cbn [snd].
    apply h_import_inv; cbn; auto.
    unfold Bal, fds_owned in B. lia.
Qed.

(* no request ever produces a descriptor that no table entry owns *)
Theorem leaked_const c s o : HInv s -> leaked (snd (hstep c s o)) = leaked s.
Proof.
  intros I. pose proof I as (B & HB & ND & CS).
  destruct o as [o|dir i ok|dir i h fl|p t ex ok|plus i h host ents|kind i h|root]; cbn [hstep].
  - destruct (step (hc c) (ino s) o) as [r i1]. reflexivity.
  - destruct (if dir then no_opendir c else no_open c); [reflexivity|].
    destruct (negb (open_inode_ok s i)); [reflexivity|]. destruct (negb ok); reflexivity.
  - destruct (if dir then no_opendir c else no_open c); [reflexivity|]. destruct (handle_get s h i); reflexivity.
  - destruct (step (hc c) (ino s) (OCreate p t ex ok)) as [r i1].
    destruct r; try reflexivity. destruct (no_open c); reflexivity.
  - destruct (if no_opendir c then open_inode_ok s i else handle_get s h i); [|reflexivity].
    destruct host as [b|]; [|reflexivity]. destruct (valid (ino s) i); [|reflexivity]. destruct (readdir_entries (hc c) plus (ino s) ents). reflexivity.
  - destruct (huse_cases c s kind i h) as (r & s' & E & _ & [->|[m ->]]); cbn [hstep] in E; rewrite E; reflexivity.
  - cbn [snd]. match goal with |- leaked (h_import c ?s0 root) = _ => destruct (h_import_inv c s0 root) as (_ & L & _) end;
      cbn; auto. unfold Bal, fds_owned in B. lia.
Qed.

Lemma h_fresh_inv c root : HInv (h_fresh c root) /\ leaked (h_fresh c root) = 0 /\ next_handle (h_fresh c root) = 1.
Proof.
  unfold h_fresh. destruct (h_import_inv c h_empty root) as (A & B & C); cbn; auto.
Qed.

Lemma next_handle_step c s o : next_handle s < U64MAX ->
  next_handle s <= next_handle (snd (hstep c s o)) /\ next_handle (snd (hstep c s o)) <= next_handle s + 1.
Proof.
  intros NW. unfold U64MAX in NW.
  destruct o as [o|dir i ok|dir i h fl|p t ex ok|plus i h host ents|kind i h|root]; cbn [hstep].
  - destruct (step (hc c) (ino s) o) as [r i1]. cbn. lia.
  - destruct (if dir then no_opendir c else no_open c); [cbn; lia|].
    destruct (negb (open_inode_ok s i)); [cbn; lia|]. destruct (negb ok); cbn; [lia|]. rewrite wrap_h_small by lia. lia.
  - destruct (if dir then no_opendir c else no_open c); [cbn; lia|]. destruct (handle_get s h i); cbn; lia.
  - destruct (step (hc c) (ino s) (OCreate p t ex ok)) as [r i1].
    destruct r; cbn; try lia. destruct (no_open c); cbn; [lia|]. rewrite wrap_h_small by lia. lia.
  - destruct (if no_opendir c then open_inode_ok s i else handle_get s h i); [|cbn; lia].
    destruct host as [b|]; [|cbn; lia]. destruct (valid (ino s) i); [|cbn; lia]. destruct (readdir_entries (hc c) plus (ino s) ents). cbn. lia.
  - destruct (huse_cases c s kind i h) as (r & s' & E & _ & [->|[m ->]]); cbn [hstep] in E; rewrite E; cbn; lia.
  - cbn [snd]. unfold h_import. cbn. destruct (eff_fh (hc c) root); cbn; lia.
Qed.

(* ------------------------------------------------------------------ whole histories *)
Theorem hrun_inv c : forall h s,
  HInv s -> next_handle s + N.of_nat (length h) <= U64MAX ->
  HInv (snd (hrun c s h)) /\ leaked (snd (hrun c s h)) = leaked s.
Proof.
  induction h as [|o h IH]; intros s I NW; cbn [hrun length].
  - cbn. split; [exact I|reflexivity].
  - cbn [length] in NW. rewrite Nat2N.inj_succ in NW.
    assert (NW1 : next_handle s < U64MAX) by lia.
    pose proof (hstep_inv c s o I NW1) as I1.
    pose proof (leaked_const c s o I) as L1.
    pose proof (next_handle_step c s o NW1) as [_ N1].
    destruct (hstep c s o) as [rep s1]; cbn [snd] in *.
    assert (NW2 : next_handle s1 + N.of_nat (length h) <= U64MAX) by lia.
    destruct (IH s1 I1 NW2) as [A B].
    destruct (hrun c s1 h) as [l s2]; cbn [snd] in *. split; [exact A|]. rewrite B, L1. reflexivity.
Qed.

(* after the client released every handle: no handle, no directory-position record, and every
   descriptor is owned by an inode object, the mount table, or is one of the leaked ones *)
Theorem quiescent_tables s :
  HInv s -> handles s = [] ->
  cookies s = [] /\ fds s = 2 + file_inodes (ino s) + (if mount_live s then 1 else 0) + leaked s.
Proof.
  intros (B & HB & ND & CS) H. split.
  - apply (mget_none_nil N.eqb N.eqb_spec). intros k.
    destruct (mget N.eqb (cookies s) k) as [v|] eqn:E; [|reflexivity].
    exfalso. apply (CS _ _ E). unfold hget. rewrite H. reflexivity.
  - unfold Bal, fds_owned in B. rewrite H in B. cbn [length] in B. lia.
Qed.

(* the only live inode object is the root: the table is the one-entry list *)
Lemma only_root_data (m : list (N * idata)) d :
  NoDup (map fst m) -> mget N.eqb m ROOT_ID = Some d -> (forall i, i <> ROOT_ID -> mget N.eqb m i = None) ->
  m = [(ROOT_ID, d)].
Proof.
  intros ND R O. destruct m as [|[k v] r]; [discriminate|].
  assert (K : k = ROOT_ID).
  { destruct (N.eq_dec k ROOT_ID) as [E|E]; [exact E|]. specialize (O k E). cbn in O. rewrite N.eqb_refl in O. discriminate. }
  subst k. cbn in R. try rewrite N.eqb_refl in R. inversion R; subst. f_equal.
  destruct r as [|[k2 v2] r2]; [reflexivity|]. exfalso.
  inversion ND as [|? ? NI ND2]; subst.
  destruct (N.eq_dec k2 ROOT_ID) as [E|E].
  - subst. apply NI. left. reflexivity.
  - specialize (O k2 E). cbn in O. destruct (N.eqb_spec k2 ROOT_ID); [contradiction|]. rewrite N.eqb_refl in O. discriminate.
Qed.

(* ------------------------------------------------------------------ the inode list never has duplicate keys *)
Definition DND (s : istate) : Prop := NoDup (map fst (data s)).

Lemma do_lookup_dnd c s t r s' : DND s -> do_lookup c s t = (r, s') -> DND s'.
Proof.
  intros ND H. destruct (do_lookup_cases _ _ _ _ _ H) as
    [(i & d & GA & Z & -> & ->)|[(i & d & GA & Z & -> & ->)|[(i & s1 & GA & AL & B & -> & ->)|(ro & GA & -> & AL)]]].
  - unfold DND, set_rc, set_data; cbn [data]. apply nodup_mset; exact ND.
  - exact ND.
  - destruct (alloc_frame _ _ _ _ _ _ AL) as (D & _). unfold DND, insert; cbn [data]. rewrite D. apply nodup_mset; exact ND.
  - destruct (alloc_frame _ _ _ _ _ _ AL) as (D & _). unfold DND. rewrite D. exact ND.
Qed.

Lemma forget_dnd c s i n : DND s -> DND (forget_one c s i n).
Proof.
  intros ND. unfold forget_one. destruct (i =? ROOT_ID); [exact ND|].
  destruct (dget s i) as [d|] eqn:L; [|exact ND].
  destruct (sat_sub (i_rc d) n =? 0).
  - unfold remove. rewrite L. destruct (negb (uhi c) || (MAX_HOST_INO <? hid_ino (i_id d)));
      unfold DND, set_data; cbn [data]; apply nodup_mdel; exact ND.
  - unfold DND, set_rc, set_data; cbn [data]. apply nodup_mset; exact ND.
Qed.

Lemma readdir_entries_dnd c plus : forall ents s, DND s -> DND (snd (readdir_entries c plus s ents)).
Proof.
  induction ents as [|e r IH]; cbn [readdir_entries]; intros s ND; [exact ND|].
  unfold readdir_entry. destruct (do_lookup c s (fst e)) as [lr s1] eqn:DL.
  pose proof (do_lookup_dnd _ _ _ _ _ ND DL) as N1.
  destruct lr as [i| |]; cbn [snd]; try exact N1.
  set (s2 := if plus && snd e then s1 else forget_one c s1 i 1).
  assert (N2 : DND s2) by (unfold s2; destruct (plus && snd e); [exact N1|apply forget_dnd; exact N1]).
  specialize (IH s2 N2). destruct (readdir_entries c plus s2 r); exact IH.
Qed.

Lemma step_dnd c s o : DND s -> DND (snd (step c s o)).
Proof.
  intros ND.
  assert (LK : forall t, DND (snd (lookup_reply c s t))).
  { intros t. unfold lookup_reply. destruct (do_lookup c s t) as [lr s1] eqn:DL.
    pose proof (do_lookup_dnd _ _ _ _ _ ND DL). destruct lr; assumption. }
  destruct o as [p t|p t|i p t|p t ex ok|i n|l|plus ents| |root]; cbn [step].
  - destruct (valid s p); [|exact ND]. destruct t; [apply LK|exact ND].
  - destruct (valid s p); [|exact ND]. destruct t; [apply LK|exact ND].
  - destruct (valid s i && valid s p); [|exact ND]. destruct t; [apply LK|exact ND].
  - destruct (valid s p); [|exact ND]. destruct t as [t|]; [|exact ND].
    specialize (LK t). destruct (lookup_reply c s t) as [rep s1]. cbn [snd] in LK.
    destruct rep; try exact LK. destruct ex; [|exact LK].
    destruct (dget s1 i) as [d|]; [destruct (i_safe d); [destruct ok|]|]; cbn [snd];
      first [exact LK|apply forget_dnd; exact LK].
  - apply forget_dnd; exact ND.
  - cbn [snd]. clear LK. revert s ND. induction l as [|x r IH]; cbn; intros s ND; [exact ND|].
    apply IH. apply forget_dnd; exact ND.
  - pose proof (readdir_entries_dnd c plus ents s ND) as X. destruct (readdir_entries c plus s ents); exact X.
  - exact ND.
  - cbn [snd]. unfold DND, import, insert; cbn. constructor; [intros []|constructor].
Qed.

(* ------------------------------------------------------------------ lifting inode-table invariants to the handle model *)
Definition ino_op (o : hop) : option op :=
  match o with
  | HInode o => Some o
  | HCreate p t ex ok => Some (OCreate p t ex ok)
  | HReaddir plus _ _ _ ents => Some (OReaddir plus ents)
  | HDestroy root => Some (ODestroy root)
  | _ => None
  end.

Lemma hstep_ino c s o :
  ino (snd (hstep c s o)) = ino s \/
  exists o', ino_op o = Some o' /\ ino (snd (hstep c s o)) = snd (step (hc c) (ino s) o').
Proof.
  destruct o as [o|dir i ok|dir i h fl|p t ex ok|plus i h host ents|kind i h|root]; cbn [hstep ino_op].
  - right. exists o. split; [reflexivity|]. destruct (step (hc c) (ino s) o). reflexivity.
  - left. destruct (if dir then no_opendir c else no_open c); [reflexivity|].
    destruct (negb (open_inode_ok s i)); [reflexivity|]. destruct (negb ok); reflexivity.
  - left. destruct (if dir then no_opendir c else no_open c); [reflexivity|]. destruct (handle_get s h i); reflexivity.
  - right. exists (OCreate p t ex ok). split; [reflexivity|].
    destruct (step (hc c) (ino s) (OCreate p t ex ok)) as [r i1]. destruct r; try reflexivity.
    destruct (no_open c); reflexivity.
  - destruct (if no_opendir c then open_inode_ok s i else handle_get s h i); [|left; reflexivity].
    destruct host as [b|]; [|left; reflexivity]. destruct (valid (ino s) i); [|left; reflexivity].
    right. exists (OReaddir plus ents). split; [reflexivity|]. cbn [step].
    destruct (readdir_entries (hc c) plus (ino s) ents). reflexivity.
  - left. destruct (huse_cases c s kind i h) as (r & s' & E & _ & [->|[m ->]]); cbn [hstep] in E; rewrite E; reflexivity.
  - right. exists (ODestroy root). split; [reflexivity|]. cbn [snd step]. unfold h_import. cbn.
    destruct (eff_fh (hc c) root); reflexivity.
Qed.

Definition hop_wf (c : hcfg) (o : hop) : Prop :=
  match ino_op o with Some o' => op_wf (hc c) o' | None => True end.

(* inode-side invariant used for quiescence: root present, keys consistent, handle kind of the mode, no duplicates *)
Definition IInv (c : hcfg) (s : hstate) : Prop :=
  IRoot (ino s) /\ KInv (hc c) (ino s) /\ DND (ino s) /\ mount_live s = ifh (hc c).

Lemma mount_live_step c s o :
  mount_live s = ifh (hc c) -> hop_wf c o -> mount_live (snd (hstep c s o)) = ifh (hc c).
Proof.
  intros M W.
  destruct o as [o|dir i ok|dir i h fl|p t ex ok|plus i h host ents|kind i h|root]; cbn [hstep].
  - destruct (step (hc c) (ino s) o). exact M.
  - destruct (if dir then no_opendir c else no_open c); [exact M|].
    destruct (negb (open_inode_ok s i)); [exact M|]. destruct (negb ok); exact M.
  - destruct (if dir then no_opendir c else no_open c); [exact M|]. destruct (handle_get s h i); exact M.
  - destruct (step (hc c) (ino s) (OCreate p t ex ok)) as [r i1]. destruct r; try exact M. destruct (no_open c); exact M.
  - destruct (if no_opendir c then open_inode_ok s i else handle_get s h i); [|exact M].
    destruct host as [b|]; [|exact M]. destruct (valid (ino s) i); [|exact M]. destruct (readdir_entries (hc c) plus (ino s) ents). exact M.
  - destruct (huse_cases c s kind i h) as (r & s' & E & _ & [->|[m ->]]); cbn [hstep] in E; rewrite E; exact M.
  - cbn [snd]. unfold hop_wf, ino_op, op_wf, wf_t, okfh in W. unfold h_import. cbn.
    destruct (eff_fh (hc c) root); cbn in *; destruct (ifh (hc c)); cbn in *; congruence.
Qed.

Theorem hstep_iinv c s o : IInv c s -> hop_wf c o -> IInv c (snd (hstep c s o)).
Proof.
  intros (R & K & ND & M) W. split; [|split; [|split]].
  - destruct (hstep_ino c s o) as [E|(o' & E1 & E2)]; [rewrite E; exact R|]. rewrite E2. apply step_root; exact R.
  - destruct (hstep_ino c s o) as [E|(o' & E1 & E2)]; [rewrite E; exact K|]. rewrite E2.
    apply step_KInv; [exact K|]. unfold hop_wf in W. rewrite E1 in W. exact W.
  - destruct (hstep_ino c s o) as [E|(o' & E1 & E2)]; [rewrite E; exact ND|]. rewrite E2. apply step_dnd; exact ND.
  - apply mount_live_step; assumption.
Qed.

Lemma h_fresh_iinv c root : wf_t (hc c) root -> IInv c (h_fresh c root).
Proof.
  intros W. unfold h_fresh, h_import, h_empty; cbn.
  assert (X : IRoot (import empty_state (hc c) root) /\ KInv (hc c) (import empty_state (hc c) root) /\ DND (import empty_state (hc c) root)).
  { split; [apply (fresh_root (hc c) root)|]. split; [apply fresh_KInv; exact W|].
    unfold DND, import, insert; cbn. constructor; [intros []|constructor]. }
  destruct X as (A & B & C). unfold wf_t, okfh in W.
  destruct (eff_fh (hc c) root); cbn in *; (split; [exact A|split; [exact B|split; [exact C|]]]);
    destruct (ifh (hc c)); cbn in *; congruence.
Qed.

Theorem hrun_iinv c : forall h s, IInv c s -> Forall (hop_wf c) h -> IInv c (snd (hrun c s h)).
Proof.
  induction h as [|o h IH]; intros s I W; cbn [hrun]; [exact I|].
  inversion W as [|? ? W1 W2]; subst.
  pose proof (hstep_iinv c s o I W1) as I1. destruct (hstep c s o) as [rep s1]; cbn [snd] in *.
  specialize (IH s1 I1 W2). destruct (hrun c s1 h); exact IH.
Qed.

(* ------------------------------------------------------------------ quiescence, full strength *)
(* after any history (host hypothesis: in handle mode the export yields file handles), once the client
   has released every handle and no inode but the root is live, the server holds exactly what a
   fresh server holds: one inode object, no handle, no directory-position record, the same descriptors *)
Definition quiescent_full : Prop := forall c root h,
  wf_t (hc c) root -> Forall (hop_wf c) h -> 1 + N.of_nat (length h) <= U64MAX ->
  let s := snd (hrun c (h_fresh c root) h) in
  handles s = [] -> (forall i, i <> ROOT_ID -> dget (ino s) i = None) ->
  cookies s = [] /\ length (data (ino s)) = 1%nat /\ leaked s = 0 /\ fds s = fds (h_fresh c root).

Lemma file_inodes_root c s d : KInv (hc c) (ino s) -> data (ino s) = [(ROOT_ID, d)] ->
  file_inodes (ino s) = if ifh (hc c) then 0 else 1.
Proof.
  intros [_ F] D. assert (L : dget (ino s) ROOT_ID = Some d) by (unfold dget; rewrite D; reflexivity).
  specialize (F _ _ L). unfold okfh in F. unfold file_inodes. rewrite D. cbn.
  destruct (i_fh d); destruct (ifh (hc c)); cbn in *; try discriminate; reflexivity.
Qed.

Theorem quiescent_full_holds : quiescent_full.
Proof.
  intros c root h W WH NW s H O.
  destruct (h_fresh_inv c root) as (I0 & L0 & NH).
  assert (NW1 : next_handle (h_fresh c root) + N.of_nat (length h) <= U64MAX) by (rewrite NH; exact NW).
  destruct (hrun_inv c h (h_fresh c root) I0 NW1) as [I L]. fold s in I, L.
  pose proof (hrun_iinv c h (h_fresh c root) (h_fresh_iinv c root W) WH) as (R & K & ND & M). fold s in R, K, ND, M.
  destruct (quiescent_tables s I H) as [C F]. destruct R as [d R].
  pose proof (only_root_data _ _ ND R O) as D.
  split; [exact C|]. split; [rewrite D; reflexivity|]. split; [lia|].
  destruct (h_fresh_iinv c root W) as ([d0 R0] & K0 & ND0 & M0).
  assert (O0 : forall i, i <> ROOT_ID -> dget (ino (h_fresh c root)) i = None).
  { intros i NE.
    assert (EI : ino (h_fresh c root) = import empty_state (hc c) root).
    { unfold h_fresh, h_import, h_empty. cbn [ino mount_live fds leaked mount_get]. destruct (eff_fh (hc c) root); reflexivity. }
    rewrite EI. unfold import. rewrite dget_insert. destruct (N.eqb_spec i ROOT_ID); [contradiction|reflexivity]. }
  pose proof (only_root_data _ _ ND0 R0 O0) as D0.
  assert (HF : handles (h_fresh c root) = []).
  { unfold h_fresh, h_import. cbn. destruct (eff_fh (hc c) root); reflexivity. }
  destruct (quiescent_tables _ I0 HF) as [_ F0].
  rewrite F, F0, (file_inodes_root c s d K D), (file_inodes_root c _ d0 K0 D0), M, M0. lia.
Qed.

Definition d8_cfg : hcfg := mkHC (mkCfg true false) false false.
Definition d8_root : target := mkT (100, 1, 1) (Some 7) true.
Definition d8_hist : list hop := [HDestroy d8_root; HDestroy d8_root].

(* destroy + re-init with file handles no longer costs a descriptor *)
Lemma d8_witness_shape :
  fds (h_fresh d8_cfg d8_root) = 3 /\ leaked (h_fresh d8_cfg d8_root) = 0 /\
  fds (snd (hrun d8_cfg (h_fresh d8_cfg d8_root) d8_hist)) = 3 /\
  leaked (snd (hrun d8_cfg (h_fresh d8_cfg d8_root) d8_hist)) = 0 /\
  fds_owned (snd (hrun d8_cfg (h_fresh d8_cfg d8_root) d8_hist)) = 3.
Proof. vm_compute. auto. Qed.

(* every descriptor is owned by a table entry, always *)
Theorem all_descriptors_owned c root h :
  1 + N.of_nat (length h) <= U64MAX ->
  let s := snd (hrun c (h_fresh c root) h) in
  HInv s /\ leaked s = 0 /\ fds s = fds_owned s.
Proof.
  intros NW. destruct (h_fresh_inv c root) as (I & L & NH).
  assert (NW1 : next_handle (h_fresh c root) + N.of_nat (length h) <= U64MAX) by (rewrite NH; exact NW).
  destruct (hrun_inv c h (h_fresh c root) I NW1) as [A B].
  cbn zeta. split; [exact A|]. split; [lia|]. destruct A as (BA & _). unfold Bal in BA. rewrite BA. lia.
Qed.

Definition ex15_hist : list hop :=
  [HInode (OLookup 1 (Some ex_a)); HOpen false 2 true; HUse 4 2 1; HRelease false 2 1 true;
   HCreate 1 (Some ex_a) true true; HRelease false 2 2 false; HCreate 1 (Some d9_fifo) true false;
   HInode (OForget 2 2); HDestroy d9_root].
Lemma ex15_ok :
  let c := mkHC d9_cfg false false in
  wf_t (hc c) d9_root /\ Forall (hop_wf c) ex15_hist /\
  fst (hrun c (h_fresh c d9_root) ex15_hist) =
    [HR (RIno 2); HOk (Some 1); HHost; HUnit; HCreated 2 (Some 2); HUnit; HR (RErr EBADF); HR RUnit; HUnit] /\
  handles (snd (hrun c (h_fresh c d9_root) ex15_hist)) = [] /\
  fds (snd (hrun c (h_fresh c d9_root) ex15_hist)) = fds (h_fresh c d9_root).
Proof.
  cbn zeta. split; [reflexivity|]. split; [repeat constructor|]. vm_compute. auto.
Qed.

(* RELEASE / RELEASEDIR of a pair the client holds always releases it (handle, descriptor, cookie, recorded flags),
   whatever the flush flag says: release() allocates no descriptor, it cannot fail with EMFILE *)
Theorem release_always_releases c s (dir : bool) i h fl :
  (if dir then no_opendir c else no_open c) = false -> handle_get s h i = true ->
  fst (hstep c s (HRelease dir i h fl)) = HUnit /\
  hget (snd (hstep c s (HRelease dir i h fl))) h = None /\
  mget N.eqb (cookies (snd (hstep c s (HRelease dir i h fl)))) h = None /\
  fds (snd (hstep c s (HRelease dir i h fl))) = fds s - 1.
Proof.
  intros M G. cbn [hstep]. rewrite M, G. cbn [fst snd]. unfold hget; cbn.
  repeat split; rewrite nnget_del, N.eqb_refl; reflexivity.
Qed.
