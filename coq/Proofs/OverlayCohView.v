(* Two coherent caches over the same layer directories show the same tree (up to the order of
   directory entries): hence a restarted overlay shows what a coherent live overlay shows. *)
From Coq Require Import List String Arith NArith Bool Lia.
From FB Require Import Model.Overlay Proofs.OverlayInv Proofs.OverlayScan Proofs.OverlayRestart
  Proofs.OverlayReadOnly Proofs.OverlayCoh.
Import ListNotations.

(* trees equal as trees of finite maps: directory entries compared by name, not by position *)
Inductive teq : tree -> tree -> Prop :=
| teq_dir m x c1 c2 :
    NoDup (map fst c1) -> NoDup (map fst c2) ->
    (forall k a, afind k c1 = Some a -> exists b, afind k c2 = Some b /\ teq a b) ->
    (forall k, afind k c1 = None -> afind k c2 = None) ->
    teq (Dir m x c1) (Dir m x c2)
| teq_leaf t : is_dirT t = false -> teq t t.
Definition oteq (a b : option tree) : Prop :=
  match a, b with Some x, Some y => teq x y | None, None => True | _, _ => False end.

Lemma keys_filter_map_nodup {A B} (F : string * A -> option (string * B)) (l : list (string * A)) :
  (forall kv y, F kv = Some y -> fst y = fst kv) -> NoDup (map fst l) -> NoDup (map fst (filter_map F l)).
Proof.
  intros HF. induction l as [|kv l IH]; intros Hn; cbn [filter_map map]; [constructor|].
  cbn [map] in Hn. inversion Hn as [|? ? Hnot Hn']; subst.
  destruct (F kv) as [y|] eqn:E; [|auto]. cbn [map]. constructor; [|auto].
  rewrite (HF kv y E). intros Hin. apply Hnot. clear -Hin HF.
  induction l as [|kv' l IHl]; cbn [filter_map map] in *; [exact Hin|].
  destruct (F kv') as [y'|] eqn:E'; [|right; auto]. cbn [map] in Hin. destruct Hin as [H|H].
  - left. rewrite <- (HF kv' y' E'). exact H.
  - right; auto.
Qed.

Section SameLayers.
Variable s : state.
Hypothesis Hwf : forall i t, get_layer s i = Some t -> wf t.
Variable nl : nat.
Let Sh := shp s.

Definition Fv (f : nat) (kv : name * node) : option (name * tree) :=
  match view_node f s (snd kv) with Some t => Some (fst kv, t) | None => None end.

Lemma afind_views f ch : NoDup (map fst ch) -> forall k,
  afind k (filter_map (Fv f) (map (fun kv => (fst kv, load_node f s (snd kv))) ch)) =
  match afind k ch with Some c => V s f c | None => None end.
Proof.
  induction ch as [|[a c] ch IH]; intros Hn k; cbn [map filter_map afind fst snd]; [reflexivity|].
  cbn [map fst] in Hn. inversion Hn as [|? ? Hnot Hn']; subst.
  unfold Fv at 1. cbn [fst snd]. fold (V s f c).
  destruct (String.eqb k a) eqn:E.
  - apply String.eqb_eq in E; subst a. destruct (V s f c) as [t|] eqn:Ev; cbn [afind fst snd].
    + rewrite String.eqb_refl. reflexivity.
    + rewrite (IH Hn'). assert (Hnone : afind k ch = None) by (apply afind_none_notin; exact Hnot).
      rewrite Hnone. reflexivity.
  - destruct (V s f c) as [t|]; cbn [afind fst snd]; rewrite ?E; apply (IH Hn').
Qed.
Lemma views_nodup f ch : NoDup (map fst ch) ->
  NoDup (map fst (filter_map (Fv f) (map (fun kv => (fst kv, load_node f s (snd kv))) ch))).
Proof.
  intros Hn. apply keys_filter_map_nodup.
  - intros [a c] y. unfold Fv. cbn [fst snd]. destruct (view_node f s c); intros H; [inversion H; reflexivity|discriminate].
  - rewrite keys_map_snd. exact Hn.
Qed.

(* a coherent directory node can always be scanned *)
Lemma scan_ok p n m x ch : NodeOK Sh nl p n -> node_stat s n = Some (Dir m x ch) ->
  exists cs, scan_children s n = Ok cs.
Proof.
  intros N Hst. unfold scan_children. rewrite Hst. cbn [is_dirT negb].
  pose proof (scut_dirs Sh p (n_reals n) (ok_reals _ _ _ _ N)) as Hvis.
  destruct (scan_char s (n_reals n) []) as (all & Hall & _).
  { intros r Hin. rewrite Forall_forall in Hvis. destruct (Hvis r Hin) as [(Hp & _) [o Ho]].
    destruct (shp_dir _ _ _ _ Ho) as (m' & x' & ch' & He & _). exists m', x', ch'. rewrite real_tree_ent, Hp. split; [exact He|].
    pose proof (ent_wf s Hwf _ _ _ He) as W. inversion W; assumption. }
  rewrite Hall. eauto.
Qed.

Lemma coh_teq f : forall p n1 n2, CohT Sh nl p n1 -> CohT Sh nl p n2 -> oteq (V s f n1) (V s f n2).
Proof.
  induction f as [|f IH]; intros p n1 n2 C1 C2; [exact I|].
  pose proof (CohT_node _ _ _ _ C1) as N1. pose proof (CohT_node _ _ _ _ C2) as N2.
  destruct (first_good_stat s nl p n1 N1) as (r1 & rs1 & t1 & Er1 & Et1 & Hst1 & Hw1 & Hd1 & Hp1).
  destruct (first_good_stat s nl p n2 N2) as (r2 & rs2 & t2 & Er2 & Et2 & Hst2 & Hw2 & Hd2 & Hp2).
  assert (Hlay : r_layer r1 = r_layer r2).
  { pose proof (ok_hd _ _ _ _ N1) as A. pose proof (ok_hd _ _ _ _ N2) as B. rewrite Er1 in A. rewrite Er2 in B.
    cbn [map hd_error] in A, B. rewrite <- B in A. inversion A. reflexivity. }
  assert (Ht : t1 = t2) by (rewrite Hlay in Et1; rewrite Et1 in Et2; inversion Et2; reflexivity). subst t2.
  assert (Hwh1 : n_wh n1 = is_whT t1) by (rewrite (ok_wh _ _ _ _ N1), Er1; exact Hw1).
  assert (Hwh2 : n_wh n2 = is_whT t1) by (rewrite (ok_wh _ _ _ _ N2), Er2; exact Hw2).
  unfold V. cbn [load_node]. rewrite Hwh1, Hwh2.
  destruct (is_whT t1) eqn:Ew.
  - cbn [view_node]. rewrite Hwh1, Hwh2. exact I.
  - rewrite Hst1, Hst2. destruct t1 as [m x ch| | |]; try discriminate.
    + (* directory *)
      pose proof (load1_CohT s Hwf nl p n1 C1) as L1. pose proof (load1_CohT s Hwf nl p n2 C2) as L2.
      assert (Hld : forall n, NodeOK Sh nl p n -> node_stat s n = Some (Dir m x ch) -> n_loaded (load1 s n) = true).
      { intros n N Hst. unfold load1. destruct (n_loaded n) eqn:El; [exact El|].
        destruct (scan_ok p n m x ch N Hst) as [cs Hcs]. rewrite Hcs. reflexivity. }
      pose proof (CohT_node _ _ _ _ L1) as M1. pose proof (CohT_node _ _ _ _ L2) as M2.
      destruct (load1_reals s n1) as [R1 W1]. destruct (load1_reals s n2) as [R2 W2].
      cbn [view_node n_wh]. rewrite W1, W2, Hwh1, Hwh2.
      unfold first_real_tree; cbn [n_reals]. rewrite R1, R2, Er1, Er2.
      rewrite !real_tree_ent, Hp1, Hp2, <- Hlay, Et1. cbn [n_ch oteq].
      fold (Fv f).
      destruct (ok_ld _ _ _ _ M1 (Hld n1 N1 Hst1)) as (_ & _ & K1).
      destruct (ok_ld _ _ _ _ M2 (Hld n2 N2 Hst2)) as (_ & _ & K2).
      pose proof (ok_nodup _ _ _ _ M1) as D1. pose proof (ok_nodup _ _ _ _ M2) as D2.
      assert (Hkeys : forall k, afind k (n_ch (load1 s n1)) = None <-> afind k (n_ch (load1 s n2)) = None).
      { intros k. rewrite K1, K2. reflexivity. }
      assert (Hrel : forall k, oteq (match afind k (n_ch (load1 s n1)) with Some c => V s f c | None => None end)
                                    (match afind k (n_ch (load1 s n2)) with Some c => V s f c | None => None end)).
      { intros k. destruct (afind k (n_ch (load1 s n1))) as [c1|] eqn:E1.
        - destruct (afind k (n_ch (load1 s n2))) as [c2|] eqn:E2.
          + apply (IH (p ++ [k])); [exact (CohT_child _ _ _ _ _ _ L1 E1)|exact (CohT_child _ _ _ _ _ _ L2 E2)].
          + exfalso. destruct (Hkeys k) as [_ H]. specialize (H E2). congruence.
        - destruct (Hkeys k) as [H _]. rewrite (H E1). exact I. }
      apply teq_dir; try (apply views_nodup; assumption).
      * intros k a Ha. rewrite (afind_views f _ D1) in Ha. specialize (Hrel k). rewrite Ha in Hrel.
        rewrite (afind_views f _ D2).
        destruct (match afind k (n_ch (load1 s n2)) with Some c => V s f c | None => None end) as [b|]; [|contradiction].
        exists b. split; [reflexivity|exact Hrel].
      * intros k Ha. rewrite (afind_views f _ D1) in Ha. specialize (Hrel k). rewrite Ha in Hrel.
        rewrite (afind_views f _ D2).
        destruct (match afind k (n_ch (load1 s n2)) with Some c => V s f c | None => None end); [contradiction|reflexivity].
    + cbn [view_node]. rewrite Hwh1, Hwh2. unfold first_real_tree. rewrite Er1, Er2.
      rewrite !real_tree_ent, Hp1, Hp2, <- Hlay, Et1. cbn. apply teq_leaf. reflexivity.
    + cbn [view_node]. rewrite Hwh1, Hwh2. unfold first_real_tree. rewrite Er1, Er2.
      rewrite !real_tree_ent, Hp1, Hp2, <- Hlay, Et1. cbn. apply teq_leaf. reflexivity.
Qed.
End SameLayers.

(* the view of a state, as V of its root *)
Lemma view_load_all_V s : view (load_all s) = V s DEPTH (root s).
Proof.
  unfold view, load_all, V. cbn [root]. apply view_node_ext. split; reflexivity.
Qed.

(* restart equivalence for every coherent state *)
Theorem coherent_restart s : Coherent s -> oteq (view (load_all (restart s))) (view (load_all s)).
Proof.
  intros (Hu & Hw & HC). destruct Hu as [u Hu].
  assert (Hr : Coherent (restart s)).
  { unfold restart. rewrite Hu. apply fresh_coherent. constructor.
    - apply (Hw 0%nat u). cbn. exact Hu.
    - apply Forall_forall. intros t Hin. destruct (In_nth_error _ _ Hin) as [j Hj]. apply (Hw (S j) t). exact Hj. }
  assert (L : same_layers (restart s) s).
  { unfold restart, fresh, load_dir, bind, get_node. cbn [nget root fresh0].
    match goal with |- context [n_loaded ?n] => destruct (n_loaded n) end; [split; reflexivity|].
    match goal with |- context [scan_children ?a ?b] => destruct (scan_children a b) end; split; reflexivity. }
  rewrite !view_load_all_V. destruct Hr as (_ & _ & HCr).
  rewrite (shp_ext _ _ L) in HCr. destruct L as [L1 L2]. rewrite L2 in HCr.
  assert (E : V (restart s) DEPTH (root (restart s)) = V s DEPTH (root (restart s))).
  { unfold V. rewrite (load_node_ext (restart s) s DEPTH (conj L1 L2)). apply view_node_ext. split; assumption. }
  rewrite E. apply (coh_teq s (wf_layers_wf s Hw) (List.length (lowers s)) DEPTH []); assumption.
Qed.
