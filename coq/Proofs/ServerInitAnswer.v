(* C01 (audit6): INIT is outside [wf_ops], so [answer_required] says nothing about it.  Every INIT
   request that carries its 16 fixed bytes is answered -- whatever the major / minor / flags, with
   or without (or with a short) 7.36 tail, whatever the filesystem answers: an older major gets
   EPROTO, a newer one the 7.x offer, major 7 the negotiated reply or the filesystem's error. *)
From Coq Require Import List String NArith Bool Lia Arith.
From FB Require Import Lib.Bytes Model.Server Proofs.ServerDecodeLib.
Import ListNotations.
Local Open Scope N_scope.

Lemma do_init_replies cfg h r fr :
  (16 <= List.length r)%nat -> replies (snd (fst (do_init cfg h r fr))) = true.
Proof.
  intros Hl. unfold do_init, read_obj.
  destruct (Nat.ltb (List.length r) 16) eqn:E.
  - apply Nat.ltb_lt in E. lia.
  - destruct (u32 0 (firstn 16 r) <? KERNEL_VERSION); [reflexivity|].
    destruct (KERNEL_VERSION <? u32 0 (firstn 16 r)); [reflexivity|].
    destruct fr; reflexivity.
Qed.

Theorem init_answered : forall cfg req fr cap hb r du dg,
  read_obj 40 req = Some (hb, r) -> h_opcode (parse_hdr hb) = 26 ->
  h_len (parse_hdr hb) <= MAX_BUFFER_SIZE + BUFFER_HEADER_SIZE ->
  cfg_remap cfg = RemapOk du dg -> (16 <= List.length r)%nat ->
  replies (snd (fst (decide cfg req fr cap))) = true.
Proof.
  intros cfg req fr cap hb r du dg Hr Hop Hlen Hre Hl.
  unfold decide. rewrite Hr, Hre. cbv zeta.
  replace (MAX_BUFFER_SIZE + BUFFER_HEADER_SIZE <? h_len (parse_hdr hb)) with false
    by (symmetry; apply N.ltb_ge; exact Hlen).
  rewrite Hop. change (26 =? 26) with true. cbv iota.
  pose proof (do_init_replies cfg (parse_hdr hb) r fr Hl) as H.
  destruct (do_init cfg (parse_hdr hb) r fr) as [[cs a] m]. exact H.
Qed.

(* non-vacuity: an INIT of protocol 6.0 (older major) over a 56-byte request is answered (EPROTO) *)
Example init_answered_old_major :
  replies (snd (fst (decide {| cfg_minor := 33; cfg_remap := RemapOk 0 0; cfg_vu_req := false; cfg_fsopt_mask := 0 |}
     (enc 4 56 ++ enc 4 26 ++ enc 8 9 ++ enc 8 1 ++ enc 4 0 ++ enc 4 0 ++ enc 4 0 ++ enc 4 0 ++ enc 4 6 ++ enc 4 0 ++ enc 4 0 ++ enc 4 0)
     FUnit 4096))) = true.
Proof. vm_compute. reflexivity. Qed.
