(* Proofs/Readdir.v -- lemmas about Model/Readdir.v (C16): accounting facts, the batch
   fetched by do_readdir (cookie-cache soundness, fallback scan), the delivery loop. *)
From Coq Require Import List NArith Bool Lia ZifyBool ZifyNat ZifyN Arith.
From FB Require Import Model.Readdir.
Import ListNotations.
Local Open Scope N_scope.

(* ------------------------------------------------------------------ take_fit *)
Definition cost_sum {A : Type} (cost : A -> N) (l : list A) : N :=
  fold_right (fun e acc => cost e + acc) 0 l.

Lemma take_fit_sum {A} (cost : A -> N) l : forall b, cost_sum cost (take_fit cost b l) <= b.
Proof.
  induction l as [|e t IH]; intros b; cbn [take_fit cost_sum fold_right]; [lia|].
  destruct (cost e <=? b) eqn:E; cbn [cost_sum fold_right]; [|lia].
  specialize (IH (b - cost e)). unfold cost_sum in IH. lia.
Qed.

Lemma take_fit_prefix {A} (cost : A -> N) l : forall b, exists s, l = take_fit cost b l ++ s.
Proof.
  induction l as [|e t IH]; intros b; cbn [take_fit]; [exists []; reflexivity|].
  destruct (cost e <=? b); [|exists (e :: t); reflexivity].
  destruct (IH (b - cost e)) as [s Hs]. exists s. cbn [app]. congruence.
Qed.

Lemma take_fit_cons_fit {A} (cost : A -> N) e t b :
  cost e <= b -> take_fit cost b (e :: t) = e :: take_fit cost (b - cost e) t.
Proof. intros Hle. cbn [take_fit]. destruct (cost e <=? b) eqn:E; [reflexivity|lia]. Qed.

Lemma take_fit_cons_nofit {A} (cost : A -> N) e t b :
  b < cost e -> take_fit cost b (e :: t) = [].
Proof. intros Hlt. cbn [take_fit]. destruct (cost e <=? b) eqn:E; [lia|reflexivity]. Qed.

(* ------------------------------------------------------------------ visible entries *)
Definition visible (l : list hent) : list hent := filter (fun e => negb (is_dot e)) l.

Lemma visible_app a b : visible (a ++ b) = visible a ++ visible b.
Proof. apply filter_app. Qed.

Lemma filter_prefix_split {A} (f : A -> bool) (B : list A) : forall D x s,
  filter f B = D ++ x :: s ->
  exists B1 B2, B = B1 ++ x :: B2 /\ filter f B1 = D /\ filter f B2 = s /\ f x = true.
Proof.
  induction B as [|y B IH]; intros D x s Hf; cbn [filter] in Hf.
  - destruct D; discriminate.
  - destruct (f y) eqn:Fy.
    + destruct D as [|z D]; cbn [app] in Hf.
      * injection Hf as -> Hs. exists [], B. cbn [app filter]. auto.
      * injection Hf as -> Hs. destruct (IH _ _ _ Hs) as (B1 & B2 & -> & H1 & H2 & H3).
        exists (z :: B1), B2. cbn [app filter]. rewrite Fy, H1. auto.
    + destruct (IH _ _ _ Hf) as (B1 & B2 & -> & H1 & H2 & H3).
      exists (y :: B1), B2. cbn [app filter]. rewrite Fy. auto.
Qed.

(* ------------------------------------------------------------------ getdents *)
Lemma getdents_ok rest size b :
  getdents_l rest size = ROk b -> b = take_fit host_reclen size rest.
Proof.
  unfold getdents_l. destruct rest as [|e t]; [intros [= <-]; reflexivity|].
  destruct (host_reclen e <=? size); [intros [= <-]; reflexivity|discriminate].
Qed.

Lemma getdents_prefix rest size b :
  getdents_l rest size = ROk b -> exists s, rest = b ++ s.
Proof. intros Hg. apply getdents_ok in Hg. subst b. apply take_fit_prefix. Qed.

Lemma getdents_fits rest size :
  match rest with e :: _ => host_reclen e <= size | [] => True end ->
  getdents_l rest size = ROk (take_fit host_reclen size rest).
Proof.
  unfold getdents_l. destruct rest as [|e t]; [reflexivity|]. intros Hle.
  destruct (host_reclen e <=? size) eqn:E; [reflexivity|lia].
Qed.

Lemma getdents_nonempty rest size b :
  getdents_l rest size = ROk b -> rest <> [] -> b <> [].
Proof.
  unfold getdents_l. destruct rest as [|e t]; [congruence|]. intros Hg _.
  destruct (host_reclen e <=? size) eqn:E; [|discriminate].
  injection Hg as <-. cbn [take_fit]. rewrite E. discriminate.
Qed.

(* ------------------------------------------------------------------ cookies *)
Definition good_dir (d : list hent) : Prop :=
  NoDup (map h_off d) /\ Forall (fun e => h_off e <> 0) d.

Lemma index_after_app d1 e d2 c :
  h_off e = c -> ~ In c (map h_off d1) -> index_after c (d1 ++ e :: d2) = Some (S (length d1)).
Proof.
  intros He. induction d1 as [|x d1 IH]; intros Hn; cbn [app index_after length].
  - rewrite He, N.eqb_refl. reflexivity.
  - cbn [map In] in Hn. destruct (h_off x =? c) eqn:E; [exfalso; apply Hn; left; lia|].
    rewrite IH by tauto. reflexivity.
Qed.

Lemma index_after_split c d k :
  index_after c d = Some k ->
  exists d1 e d2, d = d1 ++ e :: d2 /\ h_off e = c /\ k = S (length d1).
Proof.
  revert k. induction d as [|x d IH]; intros k; cbn [index_after]; [discriminate|].
  destruct (h_off x =? c) eqn:E.
  - intros [= <-]. exists [], x, d. cbn. split; [reflexivity|]. split; [lia|reflexivity].
  - destruct (index_after c d) as [p|]; [|discriminate]. intros [= <-].
    destruct (IH p eq_refl) as (d1 & e & d2 & -> & He & ->).
    exists (x :: d1), e, d2. cbn. auto.
Qed.

Lemma nodup_mid_notin (d1 : list hent) e d2 :
  NoDup (map h_off (d1 ++ e :: d2)) -> ~ In (h_off e) (map h_off d1).
Proof.
  rewrite map_app. cbn [map]. intros Hnd Hin.
  apply NoDup_remove_2 in Hnd. apply Hnd. apply in_or_app. left. exact Hin.
Qed.

Lemma good_index_after d1 e d2 :
  good_dir (d1 ++ e :: d2) -> index_after (h_off e) (d1 ++ e :: d2) = Some (S (length d1)).
Proof. intros [Hnd _]. apply index_after_app; [reflexivity|]. apply nodup_mid_notin with d2. exact Hnd. Qed.

Lemma good_no_zero d k : good_dir d -> index_after 0 d = Some k -> False.
Proof.
  intros [_ Hnz] Hi. apply index_after_split in Hi. destruct Hi as (d1 & e & d2 & -> & He & _).
  rewrite Forall_forall in Hnz. apply (Hnz e); [apply in_or_app; right; left; reflexivity|exact He].
Qed.

Lemma last_cookie_snoc b e : last_cookie (b ++ [e]) = Some (h_off e).
Proof. unfold last_cookie. rewrite rev_app_distr. reflexivity. Qed.

Lemma last_cookie_nil : last_cookie [] = None.
Proof. reflexivity. Qed.

(* the per-handle invariant: a cached cookie always names the entry right before the fd position *)
Definition Inv_h (d : list hent) (hs : hstate) : Prop :=
  match hs_cache hs with
  | Some c => index_after c d = Some (hs_pos hs)
  | None => True
  end.

Lemma snoc_cases {A} (b : list A) : b = [] \/ exists b1 e, b = b1 ++ [e].
Proof.
  induction b as [|x b IH]; [left; reflexivity|right].
  destruct IH as [->|(b1 & e & ->)]; [exists [], x; reflexivity|exists (x :: b1), e; reflexivity].
Qed.

Lemma seg_inv d p b s o :
  good_dir d -> d = p ++ b ++ s ->
  Inv_h d (mk_hstate o (length p + length b)%nat (last_cookie b)).
Proof.
  intros Hg Hd. unfold Inv_h. cbn [hs_cache hs_pos].
  destruct (snoc_cases b) as [->|(b1 & e & ->)]; [exact I|].
  rewrite last_cookie_snoc.
  assert (Hd' : d = (p ++ b1) ++ e :: s) by (rewrite Hd, <- !app_assoc; reflexivity).
  rewrite Hd' in Hg |- *. rewrite (good_index_after _ _ _ Hg).
  rewrite !app_length. cbn [length]. f_equal. lia.
Qed.

(* ------------------------------------------------------------------ the fallback scan *)
Lemma skip_to_cookie_suffix b c r : skip_to_cookie b c = Some r -> exists p, b = p ++ r.
Proof.
  revert r. induction b as [|e t IH]; intros r; cbn [skip_to_cookie]; [discriminate|].
  destruct (h_off e =? c).
  - intros [= <-]. exists [e]. reflexivity.
  - intros Hs. destruct (IH _ Hs) as [p ->]. exists (e :: p). reflexivity.
Qed.

Lemma scan_segment d size c : forall fuel pre rest found b n,
  d = pre ++ rest ->
  scan fuel rest size c found (length pre) = (ROk b, n) ->
  exists p s, d = p ++ b ++ s /\ n = (length p + length b)%nat.
Proof.
  induction fuel as [|f IH]; intros pre rest found b n Hd; cbn [scan]; [discriminate|].
  destruct (getdents_l rest size) as [bb|e] eqn:Hg; [|discriminate].
  destruct (getdents_prefix _ _ _ Hg) as [s' Hs'].
  assert (Hd2 : d = (pre ++ bb) ++ s') by (rewrite Hd, Hs', app_assoc; reflexivity).
  assert (Hskip : skipn (length bb) rest = s').
  { rewrite Hs'. rewrite skipn_app, skipn_all, Nat.sub_diag. reflexivity. }
  assert (Hlen : (length pre + length bb)%nat = length (pre ++ bb)) by (rewrite app_length; reflexivity).
  destruct bb as [|b0 bt] eqn:Ebb.
  - intros [= <- <-]. exists pre, rest. cbn [app length]. split; [exact Hd|lia].
  - rewrite <- Ebb in *. clear Ebb.
    destruct found.
    + intros [= <- <-]. exists pre, s'. split; [rewrite Hd, Hs'; reflexivity|reflexivity].
    + destruct (skip_to_cookie bb c) as [r|] eqn:Hsk.
      * destruct r as [|r0 rt] eqn:Er.
        -- rewrite Hskip, Hlen. intros Hscan. apply (IH _ _ _ _ _ Hd2 Hscan).
        -- rewrite <- Er in *. intros [= <- <-].
           destruct (skip_to_cookie_suffix _ _ _ Hsk) as [p0 Hp0].
           exists (pre ++ p0), s'. split.
           ++ rewrite Hd, Hs', Hp0, <- !app_assoc. reflexivity.
           ++ rewrite Hp0, !app_length. lia.
      * rewrite Hskip, Hlen. intros Hscan. apply (IH _ _ _ _ _ Hd2 Hscan).
Qed.

(* ------------------------------------------------------------------ the re-read loop *)
(* the batch-discard test and the per-record filter agree on every name: this is what C16_full rests on *)
Lemma dot_batch_agrees e : is_dot_batch e = is_dot e.
Proof.
  unfold is_dot_batch, is_dot. destruct (h_name e) as [|a [|b [|c t]]]; cbn [list_eqb].
  - reflexivity.
  - rewrite andb_true_r, andb_false_r, orb_false_r. reflexivity.
  - rewrite andb_false_r, andb_true_r. reflexivity.
  - rewrite !andb_false_r. reflexivity.
Qed.

Lemma forallb_dot_agrees l : forallb is_dot_batch l = forallb is_dot l.
Proof. induction l as [|x l IH]; [reflexivity|]. cbn [forallb]. rewrite dot_batch_agrees, IH. reflexivity. Qed.

Lemma only_dots_visible b : only_dots b = true -> filter (fun e => negb (is_dot e)) b = [].
Proof.
  unfold only_dots. destruct b as [|x b]; [discriminate|]. rewrite forallb_dot_agrees. intros Hf.
  induction (x :: b) as [|y l IH]; [reflexivity|]. cbn [forallb] in Hf. apply andb_true_iff in Hf.
  destruct Hf as [Hy Hl]. cbn [filter]. rewrite Hy. cbn [negb]. apply IH. exact Hl.
Qed.

Lemma skipn_app_len {A} (a b : list A) : skipn (length a) (a ++ b) = b.
Proof. rewrite skipn_app, skipn_all, Nat.sub_diag. reflexivity. Qed.

(* whatever the loop returns is a contiguous segment of the directory ending at the new position,
   and everything it skipped is dot records *)
Lemma refill_segment size : forall fuel (p : list hent) b s b2 n2,
  refill fuel s size b (length p + length b) = (ROk b2, n2) ->
  exists K s2, b ++ s = K ++ b2 ++ s2 /\ n2 = (length p + length K + length b2)%nat /\
               filter (fun e => negb (is_dot e)) K = [].
Proof.
  induction fuel as [|f IH]; intros p b s b2 n2; cbn [refill].
  - destruct (only_dots b); [discriminate|]. intros [= <- <-]. exists [], s. cbn [app length]. auto with arith.
  - destruct (only_dots b) eqn:Eo.
    + destruct (getdents_l s size) as [b'|e] eqn:Hg; [|discriminate].
      destruct (getdents_prefix _ _ _ Hg) as [s' ->]. rewrite skipn_app_len.
      replace (length p + length b + length b')%nat with (length (p ++ b) + length b')%nat by (rewrite app_length; lia).
      intros Hr. destruct (IH (p ++ b) b' s' b2 n2 Hr) as (K & s2 & HK & Hn & Hv).
      exists (b ++ K), s2. split; [rewrite HK, <- app_assoc; reflexivity|]. split.
      * rewrite Hn, !app_length. lia.
      * rewrite filter_app, Hv, (only_dots_visible _ Eo). reflexivity.
    + intros [= <- <-]. exists [], s. cbn [app length]. auto with arith.
Qed.

Lemma refill_fst_pos size : forall fuel s b pos pos',
  fst (refill fuel s size b pos) = fst (refill fuel s size b pos').
Proof.
  induction fuel as [|f IH]; intros s b pos pos'; cbn [refill].
  - destruct (only_dots b); reflexivity.
  - destruct (only_dots b); [|reflexivity]. destruct (getdents_l s size); [apply IH|reflexivity].
Qed.

(* ------------------------------------------------------------------ fetch: invariant for every request *)
Definition gd (X : rfixes) (uc : bool) (d : list hent) (size : N) (pos : nat) : res (list hent) * hstate :=
  match getdents_l (skipn pos d) size with
  | RErr e => (RErr e, mk_hstate true pos None)
  | ROk b => post X uc d size b (pos + length b)%nat
  end.

Definition fb (X : rfixes) (uc : bool) (d : list hent) (size offset : N) : res (list hent) * hstate :=
  match scan (S (length d)) d (if rx_scanlen X then N.max size 4096 else size) offset false 0%nat with
  | (RErr e, n) => (RErr e, mk_hstate true n None)
  | (ROk b, n) => post X uc d size b n
  end.

Definition cache_hit (uc : bool) (hs : hstate) (offset : N) : bool :=
  uc && match hs_cache hs with Some c => c =? offset | None => false end.

Lemma fetch_unfold H X uc d hs size offset :
  fetch H X uc d hs size offset =
  if cache_hit uc hs offset then gd X uc d size (hs_pos hs)
  else if I64_MAX <? offset then fb X uc d size offset
  else if ho_seek_status H offset =? 0 then gd X uc d size (lseek_pos H d offset)
  else if ho_seek_status H offset =? EINVAL then fb X uc d size offset
  else (RErr (ho_seek_status H offset), mk_hstate true (hs_pos hs) None).
Proof. reflexivity. Qed.

Lemma skipn_nonempty_split {A} (d : list A) pos :
  skipn pos d <> [] -> d = firstn pos d ++ skipn pos d /\ length (firstn pos d) = pos.
Proof.
  intros Hne. split; [symmetry; apply firstn_skipn|].
  apply firstn_length_le. destruct (Nat.le_gt_cases pos (length d)) as [Hle|Hgt]; [exact Hle|].
  exfalso. apply Hne. apply skipn_all2. lia.
Qed.

Lemma post_inv X uc d size p b s :
  good_dir d -> d = p ++ b ++ s -> Inv_h d (snd (post X uc d size b (length p + length b))).
Proof.
  intros Hg Hd. unfold post.
  assert (Hsk : skipn (length p + length b) d = s).
  { rewrite Hd, app_assoc. replace (length p + length b)%nat with (length (p ++ b)) by (rewrite app_length; reflexivity).
    apply skipn_app_len. }
  rewrite Hsk.
  destruct (rx_refill X).
  - destruct (refill (S (length s)) s size b (length p + length b)) as [[b2|e] n2] eqn:Hr; cbn [snd]; [|exact I].
    destruct uc; [|exact I].
    destruct (refill_segment size _ p b s b2 n2 Hr) as (K & s2 & HK & Hn & _).
    assert (Hd2 : d = (p ++ K) ++ b2 ++ s2) by (rewrite Hd, HK, <- !app_assoc; reflexivity).
    pose proof (seg_inv d (p ++ K) b2 s2 true Hg Hd2) as Hi. rewrite app_length in Hi. rewrite Hn. exact Hi.
  - cbn [snd]. destruct uc; [|exact I]. apply (seg_inv d p b s true Hg Hd).
Qed.

Lemma post_open X uc d size b pos : hs_open (snd (post X uc d size b pos)) = true.
Proof.
  unfold post. destruct (rx_refill X); [destruct (refill _ _ _ _ _) as [[b2|e] n2]|]; reflexivity.
Qed.

Lemma gd_inv X uc d size pos : good_dir d -> Inv_h d (snd (gd X uc d size pos)).
Proof.
  intros Hg. unfold gd. destruct (getdents_l (skipn pos d) size) as [b|e] eqn:Hgd; cbn [snd]; [|exact I].
  destruct (getdents_prefix _ _ _ Hgd) as [s Hs].
  destruct b as [|b0 bt] eqn:Eb.
  - (* empty batch: nothing re-read, nothing cached *)
    unfold post. cbn [refill only_dots]. destruct (rx_refill X); cbn [snd]; destruct uc; exact I.
  - rewrite <- Eb in *.
    assert (Hne : skipn pos d <> []) by (rewrite Hs, Eb; discriminate).
    destruct (skipn_nonempty_split _ _ Hne) as [Hd Hl].
    rewrite Hs in Hd. pose proof (post_inv X uc d size (firstn pos d) b s Hg Hd) as Hi. rewrite Hl in Hi. exact Hi.
Qed.

Lemma fb_inv X uc d size offset : good_dir d -> Inv_h d (snd (fb X uc d size offset)).
Proof.
  intros Hg. unfold fb.
  destruct (scan (S (length d)) d (if rx_scanlen X then N.max size 4096 else size) offset false 0%nat) as [[b|e] n] eqn:Hs;
    cbn [snd]; [|exact I].
  destruct (scan_segment d _ offset (S (length d)) [] d false b n eq_refl Hs) as (p & s & Hd & ->).
  apply (post_inv X uc d size p b s Hg Hd).
Qed.

Lemma fetch_inv H X uc d hs size offset : good_dir d -> Inv_h d (snd (fetch H X uc d hs size offset)).
Proof.
  intros Hg. rewrite fetch_unfold.
  destruct (cache_hit uc hs offset); [apply gd_inv; exact Hg|].
  destruct (I64_MAX <? offset); [apply fb_inv; exact Hg|].
  destruct (ho_seek_status H offset =? 0); [apply gd_inv; exact Hg|].
  destruct (ho_seek_status H offset =? EINVAL); [apply fb_inv; exact Hg|exact I].
Qed.

Lemma gd_open X uc d size pos : hs_open (snd (gd X uc d size pos)) = true.
Proof. unfold gd. destruct (getdents_l _ _); [apply post_open|reflexivity]. Qed.
Lemma fb_open X uc d size offset : hs_open (snd (fb X uc d size offset)) = true.
Proof. unfold fb. destruct (scan _ _ _ _ _ _) as [[b|e] n]; [apply post_open|reflexivity]. Qed.
Lemma fetch_open H X uc d hs size offset : hs_open (snd (fetch H X uc d hs size offset)) = true.
Proof.
  rewrite fetch_unfold.
  destruct (cache_hit uc hs offset); [apply gd_open|].
  destruct (I64_MAX <? offset); [apply fb_open|].
  destruct (ho_seek_status H offset =? 0); [apply gd_open|].
  destruct (ho_seek_status H offset =? EINVAL); [apply fb_open|reflexivity].
Qed.

(* ------------------------------------------------------------------ resuming from a valid offset *)
(* [off] is a legitimate continuation offset for the point after [pre] of the directory pre ++ rest *)
Definition off_at (pre : list hent) (off : N) : Prop :=
  (pre = [] /\ off = 0) \/ (exists p x, pre = p ++ [x] /\ off = h_off x).

Definition seekable (H : host) (d : list hent) : Prop :=
  (forall e, In e d -> h_off e <= I64_MAX) /\ (forall c, ho_seek_status H c = 0).

Lemma off_at_index pre rest off :
  good_dir (pre ++ rest) -> off_at pre off ->
  (off = 0 /\ pre = []) \/ (off <> 0 /\ index_after off (pre ++ rest) = Some (length pre)).
Proof.
  intros Hg [[-> ->]|(p & x & -> & ->)]; [left; auto|right].
  assert (Hd : (p ++ [x]) ++ rest = p ++ x :: rest) by (rewrite <- app_assoc; reflexivity).
  rewrite Hd in *. split.
  - destruct Hg as [_ Hnz]. rewrite Forall_forall in Hnz. apply Hnz. apply in_or_app. right. left. reflexivity.
  - rewrite (good_index_after _ _ _ Hg). rewrite app_length. cbn [length]. f_equal. lia.
Qed.

Lemma off_at_small pre rest off H :
  seekable H (pre ++ rest) -> off_at pre off -> (I64_MAX <? off) = false.
Proof.
  intros [Hs _] [[_ ->]|(p & x & -> & ->)]; [reflexivity|].
  assert (h_off x <= I64_MAX); [|lia]. apply Hs. apply in_or_app. left. apply in_or_app. right. left. reflexivity.
Qed.

(* cookie-cache soundness: when the fast path is taken the fd already is where lseek would put it *)
Lemma cache_hit_sound H d hs offset :
  good_dir d -> Inv_h d hs -> cache_hit true hs offset = true ->
  index_after offset d = Some (hs_pos hs) /\ lseek_pos H d offset = hs_pos hs.
Proof.
  intros Hg Hi Hh. unfold cache_hit, Inv_h in *. cbn [andb] in Hh.
  destruct (hs_cache hs) as [c|]; [|discriminate].
  assert (c = offset) by lia. subst c. split; [exact Hi|].
  unfold lseek_pos. destruct (offset =? 0) eqn:E.
  - exfalso. assert (offset = 0) by lia. subst. exact (good_no_zero _ _ Hg Hi).
  - rewrite Hi. reflexivity.
Qed.

Lemma fetch_resume H X uc pre rest hs size off :
  good_dir (pre ++ rest) -> seekable H (pre ++ rest) -> Inv_h (pre ++ rest) hs -> off_at pre off ->
  fetch H X uc (pre ++ rest) hs size off = gd X uc (pre ++ rest) size (length pre).
Proof.
  intros Hg Hs Hi Ho. rewrite fetch_unfold.
  destruct (off_at_index _ _ _ Hg Ho) as [[-> ->]|[Hnz Hidx]].
  - (* offset 0 *)
    destruct (cache_hit uc hs 0) eqn:Hh.
    + exfalso. destruct uc; [|discriminate]. destruct (cache_hit_sound H _ _ _ Hg Hi Hh) as [Hx _].
      exact (good_no_zero _ _ Hg Hx).
    + cbn [I64_MAX]. replace (I64_MAX <? 0) with false by reflexivity.
      destruct Hs as [_ Hs]. rewrite Hs. reflexivity.
  - destruct (cache_hit uc hs off) eqn:Hh.
    + destruct uc; [|discriminate]. destruct (cache_hit_sound H _ _ _ Hg Hi Hh) as [Hx _].
      rewrite Hidx in Hx. injection Hx as <-. reflexivity.
    + rewrite (off_at_small _ _ _ _ Hs Ho). destruct Hs as [_ Hs]. rewrite Hs. cbn [N.eqb].
      unfold lseek_pos. destruct (off =? 0) eqn:E; [lia|]. rewrite Hidx. reflexivity.
Qed.

(* ------------------------------------------------------------------ the delivery loop *)
Definition lk (H : host) (e : hent) : N * N :=
  match ho_lookup H (h_name e) with ROk p => p | RErr _ => (0, 0) end.
Definition wr (wrap : N -> res N) (i : N) : N := match wrap i with ROk j => j | RErr _ => 0 end.
(* what the client receives for host entry [e] *)
Definition mkd (H : host) (wrap : N -> res N) (plus : bool) (e : hent) : dirent :=
  mk_dirent (wr wrap (if plus then snd (lk H e) else fst (lk H e))) (h_off e) (h_ty e) (h_name e)
            (if plus then fst (lk H e) else 0).

Definition lookups_ok (H : host) (l : list hent) : Prop :=
  forall e, In e l -> is_dot e = false -> exists p, ho_lookup H (h_name e) = ROk p.
Definition wrap_total (wrap : N -> res N) : Prop := forall i, exists j, wrap i = ROk j.

Lemma deliver_spec H wrap plus size : forall batch first written refs,
  lookups_ok H batch -> wrap_total wrap ->
  fst (deliver H wrap plus size batch first written refs) =
  ROk (map (mkd H wrap plus) (take_fit (dirent_size plus) (size - written) (visible batch))).
Proof.
  induction batch as [|e t IH]; intros first written refs Hl Hw; [reflexivity|].
  assert (Hlt : lookups_ok H t) by (intros x Hx; apply Hl; right; exact Hx).
  cbn [deliver]. unfold visible. cbn [filter]. fold (visible t).
  destruct (is_dot e) eqn:Ed; cbn [negb].
  - apply IH; assumption.
  - destruct (Hl e (or_introl eq_refl) Ed) as [[node st] Hlk]. rewrite Hlk.
    destruct (Hw (if plus then st else node)) as [j Hj]. rewrite Hj.
    destruct (size - written <? dirent_size plus e) eqn:Efit.
    + rewrite take_fit_cons_nofit by lia. reflexivity.
    + rewrite take_fit_cons_fit by lia. cbn [map].
      specialize (IH false (written + dirent_size plus e)
                     (if plus then bump refs node else unbump (bump refs node) node) Hlt Hw).
      destruct (deliver H wrap plus size t false (written + dirent_size plus e) _) as [[r|x] refs'];
        cbn [fst] in IH |- *; [|discriminate].
      injection IH as ->.
      replace (size - (written + dirent_size plus e)) with (size - written - dirent_size plus e) by lia.
      f_equal. unfold mkd, lk, wr. rewrite Hlk. cbn [fst snd]. rewrite Hj. reflexivity.
Qed.

Definition cnt (i : N) (r : list dirent) : N := N.of_nat (length (filter (fun x => de_node x =? i) r)).

Lemma deliver_refs H wrap plus size : wrap_total wrap -> forall batch first written refs r,
  fst (deliver H wrap plus size batch first written refs) = ROk r ->
  forall i, snd (deliver H wrap plus size batch first written refs) i = refs i + (if plus then cnt i r else 0).
Proof.
  intros Hw. induction batch as [|e t IH]; intros first written refs r.
  - cbn [deliver fst snd]. intros [= <-] i. unfold cnt. cbn. destruct plus; lia.
  - cbn [deliver]. destruct (is_dot e); [apply IH|].
    destruct (ho_lookup H (h_name e)) as [[node st]|err].
    2:{ destruct first; cbn [fst snd]; [discriminate|]. intros [= <-] i. unfold cnt. cbn. destruct plus; lia. }
    destruct (Hw (if plus then st else node)) as [j Hj]. rewrite Hj.
    destruct (size - written <? dirent_size plus e).
    + cbn [fst snd]. intros [= <-] i. unfold cnt, bump, unbump. cbn [filter length].
      destruct plus; destruct (i =? node); lia.
    + specialize (IH false (written + dirent_size plus e)
                     (if plus then bump refs node else unbump (bump refs node) node)).
      destruct (deliver H wrap plus size t false (written + dirent_size plus e) _) as [[r'|x] refs'];
        cbn [fst snd] in IH |- *; [|discriminate].
      intros [= <-] i. rewrite (IH r' eq_refl i). unfold cnt, bump, unbump. cbn [filter de_node].
      destruct plus.
      * destruct (node =? i) eqn:E1; destruct (i =? node) eqn:E2; cbn [length]; lia.
      * destruct (i =? node); lia.
Qed.

(* size respected, unconditionally: whatever is delivered fits the requested size *)
Lemma reply_bytes_mkd H wrap plus l :
  reply_bytes plus (map (mkd H wrap plus) l) = cost_sum (dirent_size plus) l.
Proof.
  induction l as [|e t IH]; [reflexivity|]. cbn [map reply_bytes fold_right cost_sum].
  unfold reply_bytes in IH. rewrite IH. unfold dirent_size, namelen, mkd. cbn [de_name]. reflexivity.
Qed.

Lemma deliver_size H wrap plus size : forall batch first written refs r,
  fst (deliver H wrap plus size batch first written refs) = ROk r ->
  written + reply_bytes plus r <= N.max written size.
Proof.
  induction batch as [|e t IH]; intros first written refs r.
  - cbn [deliver fst]. intros [= <-]. cbn. lia.
  - cbn [deliver]. destruct (is_dot e); [apply IH|].
    destruct (ho_lookup H (h_name e)) as [[node st]|err].
    2:{ destruct first; cbn [fst]; [discriminate|]. intros [= <-]. cbn. lia. }
    destruct (wrap (if plus then st else node)) as [j|err].
    2:{ destruct first; cbn [fst]; [discriminate|]. intros [= <-]. cbn. lia. }
    destruct (size - written <? dirent_size plus e) eqn:Efit.
    + cbn [fst]. intros [= <-]. cbn. lia.
    + specialize (IH false (written + dirent_size plus e)
                     (if plus then bump refs node else unbump (bump refs node) node)).
      destruct (deliver H wrap plus size t false (written + dirent_size plus e) _) as [[r'|x] refs'];
        cbn [fst] in IH |- *; [|discriminate].
      intros [= <-]. specialize (IH r' eq_refl).
      cbn [reply_bytes fold_right de_name]. unfold reply_bytes in IH.
      unfold dirent_size, namelen in *. lia.
Qed.
