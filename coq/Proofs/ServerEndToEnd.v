(* C02 + C03 end to end: for a well-formed request [q] laid out by the kernel-side encoder
   [encode_req], the whole of handle_message emits exactly one packet, and the kernel-side
   decoder [reply_ok] reads the filesystem's answer back out of it.
   The hypotheses of C03_roundtrip about the request bytes (opcode, unique, the READDIR size
   field, "the handler reached its call") are discharged here from [req = encode_req q]. *)
From Coq Require Import List String NArith Bool Lia Arith ZifyBool ZifyNat ZifyN.
From FB Require Import Lib.Bytes Lib.Layout Spec.KernelABI Model.Server Spec.Requests Spec.Replies Spec.WfReq
  Proofs.EncLemmas Proofs.ServerPerform Proofs.ServerReply Proofs.ServerDecide Proofs.ServerHandle
  Proofs.ServerEncode Proofs.ServerEncodeDir Proofs.ServerEncodeLift
  Proofs.ServerDecodeLib Proofs.ServerDecodeOps Proofs.ServerDecodeOps2 Proofs.ServerDecode.
Import ListNotations.
Local Open Scope string_scope.
Local Open Scope list_scope.
Local Open Scope N_scope.

(* [body] below is the request body of ServerDecodeLib (Spec.Replies.body is the reply body) *)
Notation rbody := ServerDecodeLib.body.

(* ------------------------------------------------------------------ the size argument of post_action *)
Lemma post_action_size_irrel op minor cap s1 s2 fs :
  op <> 28 -> op <> 44 -> post_action op minor cap s1 fs = post_action op minor cap s2 fs.
Proof.
  intros H28 H44. unfold post_action.
  destruct op as [|p]; [reflexivity|].
  do 6 (try (destruct p as [p|p|]; try reflexivity)); try (exfalso; apply H28; reflexivity);
    try (exfalso; apply H44; reflexivity).
Qed.

Lemma u32_16_body q : wf_facts q -> q_op q = 28 \/ q_op q = 44 -> u32 16 (rbody q) = fld q "size".
Proof.
  intros [_ _ Hfit _ _ _ _ _] Hop. unfold ServerDecodeLib.body. rewrite struct_bytes_eq.
  unfold qfields in *.
  destruct Hop as [Hop|Hop]; rewrite Hop in *.
  - let lay := eval vm_compute in (req_layout 28) in change (req_layout 28) with lay in *.
    cbn [qfields_of map fst snd] in *. unfold u32. apply dec_encf; [exact Hfit|reflexivity].
  - let lay := eval vm_compute in (req_layout 44) in change (req_layout 44) with lay in *.
    cbn [qfields_of map fst snd] in *. unfold u32. apply dec_encf; [exact Hfit|reflexivity].
Qed.

Lemma post_action_body q minor cap fs : wf_facts q ->
  post_action (q_op q) minor cap (u32 16 (rbody q)) fs = post_action (q_op q) minor cap (fld q "size") fs.
Proof.
  intro F. destruct (N.eq_dec (q_op q) 28) as [E|N28].
  - rewrite (u32_16_body q F (or_introl E)). reflexivity.
  - destruct (N.eq_dec (q_op q) 44) as [E|N44].
    + rewrite (u32_16_body q F (or_intror E)). reflexivity.
    + apply post_action_size_irrel; assumption.
Qed.

(* an opcode that returns a result denotes a filesystem operation *)
Lemma kind_ok_expected q ctx fs : kind_ok (q_op q) fs = true -> expected_calls q ctx <> [].
Proof.
  unfold kind_ok. intro H. apply existsb_exists in H. destruct H as [k [Hin Hk]]. apply N.eqb_eq in Hk.
  unfold expected_calls, expected_call. rewrite Hk.
  destruct fs; cbn [In] in Hin;
    repeat (destruct Hin as [<-|Hin]; [cbv beta iota zeta; discriminate|]); contradiction.
Qed.

Lemma kind_ok_some_action op minor cap size fs :
  kind_ok op fs = true -> exists a, post_action op minor cap size fs = Some a.
Proof.
  unfold kind_ok. intro H. apply existsb_exists in H. destruct H as [k [Hin Hk]]. apply N.eqb_eq in Hk. subst k.
  destruct fs; cbn [In] in Hin;
    repeat (destruct Hin as [<-|Hin]; [eexists; reflexivity|]); contradiction.
Qed.

(* ------------------------------------------------------------------ decide on encode_req: action = post_action *)
Lemma decide_action_post cfg q fs cap du dg :
  wf_req q = true -> cfg_remap cfg = RemapOk du dg -> env_ok cfg cap q = true ->
  kind_ok (q_op q) fs = true ->
  exists a, post_action (q_op q) (cfg_minor cfg) cap (fld q "size") fs = Some a /\
            snd (fst (decide cfg (encode_req q) fs cap)) = a.
Proof.
  intros Hwf Hre Henv Hkind. pose proof (wf_req_facts q Hwf) as F.
  destruct (wf_op_handler _ (wf_op q F)) as [f Hf].
  destruct (wf_ops_range _ (wf_op q F)) as [_ H26].
  rewrite (decide_encode_req q cfg fs cap du dg f (wf_hdr q F) (wf_len q F) H26 Hre Hf). cbv zeta. cbn [snd].
  set (ctx := ((q_uid q + du) mod 4294967296, (q_gid q + dg) mod 4294967296, q_pid q)).
  assert (Hh : handler cfg (qhdr q) ctx (rbody q) fs cap = f cfg (qhdr q) ctx (rbody q) fs cap).
  { unfold handler. cbn [h_opcode qhdr]. rewrite Hf. reflexivity. }
  pose proof handlers_all_exact as HA. rewrite Forall_forall in HA.
  specialize (HA _ (find_handler_in _ _ _ Hf)). cbn [fst snd] in HA.
  destruct (HA q cfg ctx fs cap eq_refl F Henv) as [a0 [E _]].
  destruct (kind_ok_some_action (q_op q) (cfg_minor cfg) cap (fld q "size") fs Hkind) as [a Ha].
  exists a. split; [exact Ha|].
  rewrite <- Hh. apply handler_post.
  - rewrite Hh, E. cbn [fst]. apply kind_ok_expected with (fs := fs). exact Hkind.
  - cbn [h_opcode qhdr]. rewrite (post_action_body q _ _ _ F). exact Ha.
Qed.

Lemma wf_unique q : wf_req q = true -> q_unique q < 2 ^ 64.
Proof.
  intro Hwf. pose proof (wf_hdr q (wf_req_facts q Hwf)) as Hf.
  apply (fits_in _ 8%nat _ Hf). unfold hdr_fields. cbn [In]. auto.
Qed.

Lemma env_ok_readdir_room cfg cap q : env_ok cfg cap q = true -> readdir_room q cap.
Proof.
  unfold env_ok, readdir_room. intros H [Hop|Hop]; rewrite Hop in H; apply N.leb_le; exact H.
Qed.

(* ------------------------------------------------------------------ end to end *)
Theorem end_to_end : forall cfg q fs cap du dg minor,
  wf_req q = true -> cfg_remap cfg = RemapOk du dg -> env_ok cfg cap q = true ->
  cfg_minor cfg = minor ->
  kind_ok (q_op q) fs = true -> reply_fits q cap fs -> cap < 2 ^ 32 ->
  action_len (snd (fst (decide cfg (encode_req q) fs cap))) <= cap ->
  exists p, o_packets (h_outcome (handle cfg FuseDev cap (encode_req q) fs)) = [p] /\
            reply_ok q minor fs p = true.
Proof.
  intros cfg q fs cap du dg minor Hwf Hre Henv Hminor Hkind Hfits Hcap Hlen. subst minor.
  destruct (decide_action_post cfg q fs cap du dg Hwf Hre Henv Hkind) as [a [Ha Hact]].
  rewrite handle_outcome, (u64_8_encode_req q (wf_hdr q (wf_req_facts q Hwf))).
  rewrite Hact in *.
  destruct (post_action_roundtrip q (cfg_minor cfg) cap fs a (wf_unique q Hwf) Hcap Hkind Hfits
              (env_ok_readdir_room cfg cap q Henv) Ha Hlen)
    as [p [Hm Hr]].
  exists p. split; [|exact Hr].
  exact (perform_packet cap (q_unique q) a p Hcap Hm Hlen).
Qed.

Theorem end_to_end_virtio : forall cfg q fs cap du dg minor,
  wf_req q = true -> cfg_remap cfg = RemapOk du dg -> env_ok cfg cap q = true ->
  cfg_minor cfg = minor ->
  kind_ok (q_op q) fs = true -> reply_fits q cap fs -> cap < 2 ^ 32 ->
  action_len (snd (fst (decide cfg (encode_req q) fs cap))) <= cap ->
  o_packets (h_outcome (handle cfg Virtio cap (encode_req q) fs)) = [] /\
  reply_ok q minor fs (o_mem (h_outcome (handle cfg Virtio cap (encode_req q) fs))) = true.
Proof.
  intros cfg q fs cap du dg minor Hwf Hre Henv Hminor Hkind Hfits Hcap Hlen. subst minor.
  split; [apply handle_virtio_no_fd_write|].
  destruct (decide_action_post cfg q fs cap du dg Hwf Hre Henv Hkind) as [a [Ha Hact]].
  rewrite handle_outcome, (u64_8_encode_req q (wf_hdr q (wf_req_facts q Hwf))).
  rewrite Hact in *.
  destruct (post_action_roundtrip q (cfg_minor cfg) cap fs a (wf_unique q Hwf) Hcap Hkind Hfits
              (env_ok_readdir_room cfg cap q Henv) Ha Hlen)
    as [p [Hm Hr]].
  rewrite (perform_mem_virtio cap (q_unique q) a p Hcap Hm Hlen). exact Hr.
Qed.

(* every opcode that returns a result is one the client waits on *)
Lemma kind_ok_needs_answer op fs : kind_ok op fs = true -> needs_answer op = true.
Proof.
  unfold kind_ok. intro H. apply existsb_exists in H. destruct H as [k [Hin Hk]]. apply N.eqb_eq in Hk. subst k.
  destruct fs; cbn [In] in Hin;
    repeat (destruct Hin as [<-|Hin]; [reflexivity|]); contradiction.
Qed.

(* the hypotheses the end-to-end theorem no longer needs: they hold for every well-formed request *)
Theorem encode_req_facts : forall q, wf_req q = true ->
  u32 4 (encode_req q) = q_op q /\ u64 8 (encode_req q) = q_unique q /\
  (q_op q = 28 \/ q_op q = 44 -> u32 56 (encode_req q) = fld q "size").
Proof.
  intros q Hwf. pose proof (wf_req_facts q Hwf) as F. pose proof (wf_hdr q F) as Hf.
  split; [|split].
  - rewrite encode_req_split. unfold u32. apply (dec_encf _ 4%nat 4%nat); [exact Hf|reflexivity].
  - apply u64_8_encode_req. exact Hf.
  - intro Hop. rewrite <- (u32_16_body q F Hop). rewrite encode_req_split.
    unfold u32. rewrite skipn_app_ge by (rewrite encf_length; cbn; lia).
    rewrite encf_length. reflexivity.
Qed.
